import DFV.Lemmas.C09Float
/-! The driver's IEEE codec restricted to binary64 values is a lawful codec (C09): the hypothesis
`Codec.Lawful` of the round-trip theorems is discharged for it. -/
namespace DFV.C09
open DFV

/-- `toBits` never produces a NaN pattern -/
theorem toBits_notNaN (F : Fmt) (_he : 1 ≤ F.ebits) (x : Rat) : NotNaN F (toBits F x) := by
  -- magnitude bits r ≤ infBits, possibly with the sign bit on top
  have key : ∀ r, r ≤ F.infBits → ∀ s : Bool, NotNaN F ((if s then F.signBit else 0) + r) := by
    intro r hr s
    have hP : 0 < 2 ^ F.mbits := Nat.pow_pos (by omega)
    have hdm := Nat.div_add_mod r (2 ^ F.mbits)
    have hm : r % 2 ^ F.mbits < 2 ^ F.mbits := Nat.mod_lt _ hP
    have hone : 1 ≤ 2 ^ F.ebits := Nat.one_le_two_pow
    have hEle : r / 2 ^ F.mbits ≤ 2 ^ F.ebits - 1 := by
      unfold Fmt.infBits at hr
      rw [Nat.div_le_iff_le_mul_add_pred hP]
      have : (2 ^ F.ebits - 1) * 2 ^ F.mbits = 2 ^ F.mbits * (2 ^ F.ebits - 1) := Nat.mul_comm _ _
      omega
    have hE : r / 2 ^ F.mbits < 2 ^ F.ebits := by omega
    have hr' : r = r / 2 ^ F.mbits * 2 ^ F.mbits + r % 2 ^ F.mbits := by rw [Nat.mul_comm]; exact hdm.symm
    intro hfield
    cases s with
    | false =>
      simp only [Bool.false_eq_true, if_false, Nat.zero_add] at hfield ⊢
      rw [Nat.mod_eq_of_lt hE] at hfield
      -- r / 2^m = 2^e - 1 and r ≤ (2^e - 1) * 2^m force the mantissa to be zero
      unfold Fmt.infBits at hr
      rw [hfield] at hr'
      omega
    | true =>
      simp only [if_true] at hfield ⊢
      obtain ⟨_, f2, f3⟩ := fields_neg F.ebits F.mbits (r / 2 ^ F.mbits) (r % 2 ^ F.mbits) hE hm
      unfold Fmt.signBit at hfield ⊢
      rw [hr'] at hfield ⊢
      rw [f2] at hfield
      rw [f3]
      unfold Fmt.infBits at hr
      rw [hfield] at hr'
      omega
  unfold toBits
  split
  · have := key 0 (Nat.zero_le _) false
    simpa using this
  · split
    · exact key _ (bitsAbs_le F _) true
    · have := key _ (bitsAbs_le F x) false
      simpa using this

/-- float32 rounding is idempotent -/
theorem narrow32_idem (x : Rat) : narrow32 (narrow32 x) = narrow32 x := by
  unfold narrow32
  exact round_fixed f32 (by decide) _ (toBits_notNaN f32 (by decide) x)


/-- the rationals that are binary64 values: the value of some non-NaN bit pattern (±∞ are
represented by their stand-ins `±2^1024`) -/
def IsF64 (x : Rat) : Prop := ∃ b, NotNaN f64 b ∧ x = fromBits f64 b

abbrev V64 := { x : Rat // IsF64 x }

theorem isF64_round (x : Rat) : IsF64 (fromBits f64 (toBits f64 x)) :=
  ⟨_, toBits_notNaN f64 (by decide) x, rfl⟩

theorem isF64_fixed (x : Rat) (h : IsF64 x) : fromBits f64 (toBits f64 x) = x := by
  obtain ⟨b, hb, rfl⟩ := h
  exact round_fixed f64 (by decide) b hb

theorem isF64_zero : IsF64 0 := by
  have h := isF64_round 0
  have e : fromBits f64 (toBits f64 0) = 0 := by decide +kernel
  rwa [e] at h

open Classical in
/-- a rational as a binary64 value; what is none (a decoded NaN) becomes 0 -/
noncomputable def guard64 (x : Rat) : V64 := if h : IsF64 x then ⟨x, h⟩ else ⟨0, isF64_zero⟩

theorem guard64_of (x : Rat) (h : IsF64 x) : guard64 x = ⟨x, h⟩ := by
  unfold guard64; rw [dif_pos h]

/-- the driver's IEEE codec on binary64 values (decoded NaN patterns, which are no values, are
mapped to 0; everything else is `ieee`) -/
noncomputable def ieeeV : Codec V64 where
  enc le w v := ieee.enc le w v.val
  dec le w bs := guard64 (ieee.dec le w bs)
  magic w := guard64 (ieee.magic w)
  zero := ⟨0, isF64_zero⟩

/-- float32 rounding on binary64 values -/
noncomputable def narrowV (v : V64) : V64 := ieeeV.dec true 4 (ieeeV.enc true 4 v)

theorem isF64_of_fixed (x : Rat) (h : fromBits f64 (toBits f64 x) = x) : IsF64 x := by
  rw [← h]; exact isF64_round x

theorem isF64_magic4 : IsF64 (ieee.magic 4) := isF64_of_fixed _ (by decide +kernel)
theorem isF64_magic8 : IsF64 (ieee.magic 8) := isF64_of_fixed _ (by decide +kernel)


theorem ieeeV_dec_of (le : Bool) (w : Nat) (bs : List Byte) (x : Rat) (hx : IsF64 x) (h : ieee.dec le w bs = x) :
    ieeeV.dec le w bs = ⟨x, hx⟩ := by
  subst h
  exact guard64_of _ hx

theorem ieeeV_magic4 : ieeeV.magic 4 = ⟨ieee.magic 4, isF64_magic4⟩ := guard64_of _ isF64_magic4

theorem narrowV_val (v : V64) : narrowV v = guard64 (narrow32 v.val) := by
  unfold narrowV
  show guard64 (ieee.dec true 4 (ieee.enc true 4 v.val)) = _
  rw [ieee_dec_enc4]

theorem narrow32_magic4 : narrow32 (ieee.magic 4) = ieee.magic 4 := by decide +kernel
theorem narrow32_zero : narrow32 0 = 0 := by decide +kernel

/-- **the IEEE codec is lawful on binary64 values**: every value occupies `w` bytes; an 8-byte
value comes back bit for bit (as the same rational), in either byte order; a 4-byte value comes
back as its float32 rounding; the check values and zero are float32 numbers -/
theorem ieeeV_lawful : ieeeV.Lawful narrowV := by
  constructor
  · intro le w x; exact ieee_enc_len le w x.val
  · intro le x
    apply ieeeV_dec_of
    show ieee.dec le 8 (ieee.enc le 8 x.val) = x.val
    rw [ieee_dec_enc le 8 (Or.inr rfl)]
    exact isF64_fixed x.val x.property
  · intro le x
    show guard64 (ieee.dec le 4 (ieee.enc le 4 x.val)) = guard64 (ieee.dec true 4 (ieee.enc true 4 x.val))
    rw [ieee_dec_enc4 le, ieee_dec_enc4 true]
  · rw [ieeeV_magic4, narrowV_val]
    simp only [narrow32_magic4]
    exact guard64_of _ isF64_magic4
  · rw [narrowV_val]
    show guard64 (narrow32 0) = _
    rw [narrow32_zero]
    exact guard64_of _ isF64_zero

/-- where `ieeeV` and the driver's `ieee` agree: on every byte string that does not decode to a
NaN, `ieeeV.dec` is `ieee.dec`; encoding is the same function -/
theorem ieeeV_agrees (le : Bool) (w : Nat) (bs : List Byte) (h : IsF64 (ieee.dec le w bs)) (v : V64) :
    (ieeeV.dec le w bs).val = ieee.dec le w bs ∧ ieeeV.enc le w v = ieee.enc le w v.val := by
  refine ⟨?_, rfl⟩
  rw [ieeeV_dec_of le w bs _ h rfl]

end DFV.C09
