import DFV.Lemmas.C07Ctor
/-! `_sel_convert_input` in closed form. -/
namespace DFV.C07
open DFV DFV.Mesh

theorem cellOf_eq (m : Mesh) (hm : m.Inv) (a : Nat) (ha : a < m.ndim) (p : List Rat)
    (hl : p.length = m.ndim)
    (hp : ∀ b, b < m.ndim → m.region.lo b ≤ p.getD b 0 ∧ p.getD b 0 ≤ m.region.hi b) :
    cellOf m a p = .ok (m.centreAx a ((m.indexAx a (p.getD a 0) : Nat) : Int), m.indexAx a (p.getD a 0)) := by
  unfold cellOf
  rw [point2index_eq m p hl hp]
  simp only
  have hlen : (natsToInts (tab m.ndim fun b => m.indexAx b (p.getD b 0))).length = m.ndim := by
    rw [length_natsToInts, tab_length]
  have hrange : ∀ b, b < m.ndim →
      0 ≤ (natsToInts (tab m.ndim fun b => m.indexAx b (p.getD b 0))).getD b 0 ∧
      (natsToInts (tab m.ndim fun b => m.indexAx b (p.getD b 0))).getD b 0 < (m.nAt b : Int) := by
    intro b hb
    rw [getD_natsToInts, getD_tab _ _ _ _ hb]
    have := indexAx_lt m b (p.getD b 0) (inv_n_pos hm hb)
    omega
  rw [index2point_eq m _ hlen hrange]
  simp only
  rw [getD_tab _ _ _ _ ha, getD_natsToInts, getD_tab _ _ _ _ ha]

theorem testPoint_length (m : Mesh) (a : Nat) (x : Rat) : (testPoint m a x).length = m.ndim := by
  unfold testPoint; rw [length_setAt]; rfl

theorem testPoint_getD_eq (m : Mesh) (a : Nat) (x : Rat) (ha : a < m.ndim) :
    (testPoint m a x).getD a 0 = x := by
  unfold testPoint; exact getD_setAt_eq _ _ _ _ ha

theorem testPoint_getD_ne (m : Mesh) (a b : Nat) (x : Rat) (h : b ≠ a) :
    (testPoint m a x).getD b 0 = m.region.lo b := by
  unfold testPoint; rw [getD_setAt_ne _ _ _ _ _ h]; rfl

/-- an in-range coordinate is normalised to (centre of its cell, index of its cell) -/
theorem selOne_eq (m : Mesh) (hm : m.Inv) (a : Nat) (ha : a < m.ndim) (x : Rat)
    (h1 : m.region.lo a ≤ x) (h2 : x ≤ m.region.hi a) :
    selOne m a x = .ok (m.centreAx a ((m.indexAx a x : Nat) : Int), m.indexAx a x) := by
  unfold selOne
  have hneg : ¬ (x < m.region.lo a ∨ m.region.hi a < x) := by
    intro h; rcases h with h | h <;> linarith
  rw [if_neg hneg]
  have := cellOf_eq m hm a ha (testPoint m a x) (testPoint_length m a x) (by
    intro b hb
    by_cases hba : b = a
    · subst hba; rw [testPoint_getD_eq m b x hb]; exact ⟨h1, h2⟩
    · rw [testPoint_getD_ne m a b x hba]; exact ⟨le_refl _, (inv_lo_lt_hi hm hb).le⟩)
  rw [testPoint_getD_eq m a x ha] at this
  exact this

theorem selOne_err (m : Mesh) (a : Nat) (x : Rat) (h : x < m.region.lo a ∨ m.region.hi a < x) :
    selOne m a x = .error .value := by
  unfold selOne; rw [if_pos h]

theorem dim2index_lt (r : Region) (d : String) (a : Nat) (h : r.dim2index d = .ok a) :
    a < r.dims.length ∧ r.dims.getD a "" = d := by
  unfold Region.dim2index at h
  split at h
  · rename_i i hi
    have hia : i = a := by injection h
    rw [← hia]
    unfold indexOf? at hi
    have key : ∀ (l : List String) (k i : Nat), indexOf?.go d l k = some i →
        k ≤ i ∧ i - k < l.length ∧ l.getD (i - k) "" = d := by
      intro l
      induction l with
      | nil => intro k i h; simp [indexOf?.go] at h
      | cons y ys ih =>
        intro k i h
        unfold indexOf?.go at h
        split at h
        · injection h with h; subst h; rename_i hy; simp [hy]
        · obtain ⟨h1, h2, h3⟩ := ih (k + 1) i h
          refine ⟨by omega, by simp; omega, ?_⟩
          have : i - k = (i - (k + 1)) + 1 := by omega
          rw [this, List.getD_cons_succ]; exact h3
    have := key r.dims 0 i hi
    simpa using this.2
  · cases h

end DFV.C07
