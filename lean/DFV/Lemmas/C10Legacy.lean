import DFV.Lemmas.C10Inv
import DFV.Lemmas.C14Setter
/-! C10, legacy layout: the field the legacy reader returns satisfies the constructors'
invariant; the order in which a legacy file stores the two corners of an axis is immaterial;
a `.subregions.json` side-car whose boxes fit the mesh exactly is accepted (C14's completeness
of the `subregions` setter, transported to the typed model). -/
namespace DFV.C10
open DFV

/-! ## typed arrays: equality from kind and values, `np.minimum` / `np.maximum` -/

namespace NumArr

theorem eq_of_kind_vals (a b : NumArr) (hk : a.kind = b.kind) (hv : a.vals = b.vals) : a = b := by
  cases a with
  | ints v =>
    cases b with
    | floats w => simp [kind] at hk
    | ints w =>
      simp only [vals] at hv
      congr 1
      exact List.map_injective_iff.mpr (fun x y h => by exact_mod_cast h) hv
  | floats v =>
    cases b with
    | ints w => simp [kind] at hk
    | floats w => simpa [vals] using hv

theorem minimum_kind (a b : NumArr) : (minimum a b).kind = NK.join a.kind b.kind := by
  cases a <;> cases b <;> rfl

theorem maximum_kind (a b : NumArr) : (maximum a b).kind = NK.join a.kind b.kind := by
  cases a <;> cases b <;> rfl

theorem join_comm (a b : NK) : NK.join a b = NK.join b a := by cases a <;> cases b <;> rfl

theorem getD_zipWith {α : Type} (f : α → α → α) (v w : List α) (d : α) (i : Nat) (h1 : i < v.length) (h2 : i < w.length) :
    (List.zipWith f v w).getD i d = f (v.getD i d) (w.getD i d) := by
  simp only [List.getD_eq_getElem?_getD, List.getElem?_zipWith]
  rw [List.getElem?_eq_getElem h1, List.getElem?_eq_getElem h2]
  rfl

/-- corners that are ordered already: `np.minimum` / `np.maximum` only unify the dtype -/
theorem minimum_maximum_ordered_gen (a b : NumArr) (hl : b.length = a.length)
    (h : ∀ i, i < a.length → a.vals.getD i 0 < b.vals.getD i 0) :
    minimum a b = a.cast (NK.join a.kind b.kind) ∧ maximum a b = b.cast (NK.join a.kind b.kind) := by
  have hle : ∀ i, i < a.vals.length → a.vals.getD i 0 ≤ b.vals.getD i 0 := by
    intro i hi
    rw [vals_length] at hi
    exact le_of_lt (h i hi)
  have hlv : b.vals.length = a.vals.length := by rw [vals_length, vals_length, hl]
  constructor
  · apply eq_of_kind_vals
    · rw [minimum_kind, cast_kind]
    · rw [minimum_vals, zipWith_min_left 0 _ _ hlv hle, cast_vals]
      cases a <;> cases b <;> simp [NK.join, kind]
  · apply eq_of_kind_vals
    · rw [maximum_kind, cast_kind]
    · rw [maximum_vals, zipWith_max_left 0 _ _ hlv hle, cast_vals]
      cases a <;> cases b <;> simp [NK.join, kind]

end NumArr

/-! ## the field of a legacy file satisfies the constructors' invariant -/

theorem legacy_region_inv (l : Legacy) (h0 : 0 < l.p1.length) (hl : l.p2.length = l.p1.length)
    (hne : ∀ a, a < l.p1.length → l.p1.vals.getD a 0 ≠ l.p2.vals.getD a 0) :
    (legacyField l).mesh.region.Inv := by
  rw [TReg.inv_iff]
  simp only [legacyField]
  refine ⟨by rw [NumArr.minimum_length _ _ hl]; exact h0,
    by rw [NumArr.maximum_length _ _ hl, NumArr.minimum_length _ _ hl],
    by rw [NumArr.minimum_kind, NumArr.maximum_kind],
    by rw [NumArr.minimum_length _ _ hl, defaultDims_length],
    by rw [NumArr.minimum_length _ _ hl, List.length_replicate],
    hasDup_defaultDims _, ?_⟩
  intro a ha
  rw [NumArr.minimum_length _ _ hl] at ha
  rw [NumArr.minimum_vals, NumArr.maximum_vals,
    NumArr.getD_zipWith _ _ _ _ _ (by rw [NumArr.vals_length]; exact ha) (by rw [NumArr.vals_length, hl]; exact ha),
    NumArr.getD_zipWith _ _ _ _ _ (by rw [NumArr.vals_length]; exact ha) (by rw [NumArr.vals_length, hl]; exact ha)]
  have := hne a ha
  rcases lt_or_gt_of_ne this with h | h
  · rw [min_eq_left h.le, max_eq_right h.le]; exact h
  · rw [min_eq_right h.le, max_eq_left h.le]; exact h

theorem natProd_append_one (n : List Nat) (k : Nat) : natProd (n ++ [k]) = natProd n * k := by
  induction n with
  | nil => simp [natProd]
  | cons a as ih => simp [natProd, ih, Nat.mul_assoc]

theorem legacy_mesh_inv (l : Legacy) (h0 : 0 < l.p1.length) (hl : l.p2.length = l.p1.length)
    (hne : ∀ a, a < l.p1.length → l.p1.vals.getD a 0 ≠ l.p2.vals.getD a 0)
    (hn : l.n.length = l.p1.length) (hpos : ∀ k ∈ l.n, 0 < k) : (legacyField l).mesh.Inv := by
  rw [TMesh.inv_iff]
  have hlow : ("" : String).toLower = "" := by decide +kernel
  refine ⟨legacy_region_inv l h0 hl hne, ?_, ?_, hlow, by simp [legacyField, Mesh.bcOk], rfl, ?_⟩
  · show (l.n.map Int.toNat).length = (NumArr.minimum l.p1 l.p2).length
    rw [NumArr.minimum_length _ _ hl, List.length_map, hn]
  · intro k hk
    simp only [legacyField, List.mem_map] at hk
    obtain ⟨j, hj, rfl⟩ := hk
    have := hpos j hj
    omega
  · intro p hp
    simp [legacyField] at hp

/-- **The legacy reader returns constructor-grade fields.**  The field read from a well-formed
legacy file satisfies the invariant `Inv` the round-trip theorems ask for (so a legacy file
re-saved in the new layout round-trips). -/
theorem legacyField_inv (l : Legacy) (h0 : 0 < l.p1.length) (hl : l.p2.length = l.p1.length)
    (hne : ∀ a, a < l.p1.length → l.p1.vals.getD a 0 ≠ l.p2.vals.getD a 0)
    (hn : l.n.length = l.p1.length) (hpos : ∀ k ∈ l.n, 0 < k) (hdim : 1 ≤ l.dim)
    (hb : l.array.buf.length = natProd (l.n.map Int.toNat ++ [l.dim.toNat])) : (legacyField l).Inv := by
  rw [TFld.inv_iff]
  refine ⟨legacy_mesh_inv l h0 hl hne hn hpos, ?_, rfl, ?_, rfl, ?_, ?_⟩
  · show 1 ≤ l.dim.toNat
    omega
  · show l.array.buf.upcast.length = _
    rw [DBuf.upcast_length]; exact hb
  · simp [legacyField]
  · exact defaultVdims_inv l.dim.toNat (by omega)

/-! ## corner order -/

/-- **Any corner order.**  Two legacy files that differ only in which of the two stored corner
datasets holds the smaller coordinate — axis by axis, in any combination — describe the same
field: the reader normalises. -/
theorem legacyField_corner_order (l l' : Legacy) (hl : l.p2.length = l.p1.length) (hl1 : l'.p1.length = l.p1.length)
    (hl2 : l'.p2.length = l.p1.length)
    (hk : NK.join l'.p1.kind l'.p2.kind = NK.join l.p1.kind l.p2.kind)
    (hsw : ∀ a, a < l.p1.length →
      (l'.p1.vals.getD a 0 = l.p1.vals.getD a 0 ∧ l'.p2.vals.getD a 0 = l.p2.vals.getD a 0) ∨
      (l'.p1.vals.getD a 0 = l.p2.vals.getD a 0 ∧ l'.p2.vals.getD a 0 = l.p1.vals.getD a 0))
    (hn : l'.n = l.n) (hd : l'.dim = l.dim) (ha : l'.array = l.array) : legacyField l' = legacyField l := by
  have hmin : NumArr.minimum l'.p1 l'.p2 = NumArr.minimum l.p1 l.p2 := by
    apply NumArr.eq_of_kind_vals
    · rw [NumArr.minimum_kind, NumArr.minimum_kind, hk]
    · rw [NumArr.minimum_vals, NumArr.minimum_vals]
      apply List.ext_getElem
      · simp only [List.length_zipWith, NumArr.vals_length, hl, hl1, hl2]
      · intro i h1 h2
        have hi : i < l.p1.length := by
          simp only [List.length_zipWith, NumArr.vals_length, hl] at h2
          omega
        have e1 := NumArr.getD_zipWith min l'.p1.vals l'.p2.vals 0 i (by rw [NumArr.vals_length, hl1]; exact hi)
          (by rw [NumArr.vals_length, hl2]; exact hi)
        have e2 := NumArr.getD_zipWith min l.p1.vals l.p2.vals 0 i (by rw [NumArr.vals_length]; exact hi)
          (by rw [NumArr.vals_length, hl]; exact hi)
        rw [List.getD_eq_getElem?_getD, List.getElem?_eq_getElem h1] at e1
        rw [List.getD_eq_getElem?_getD, List.getElem?_eq_getElem h2] at e2
        simp only [Option.getD_some] at e1 e2
        rw [e1, e2]
        rcases hsw i hi with ⟨a1, a2⟩ | ⟨a1, a2⟩
        · rw [a1, a2]
        · rw [a1, a2, min_comm]
  have hmax : NumArr.maximum l'.p1 l'.p2 = NumArr.maximum l.p1 l.p2 := by
    apply NumArr.eq_of_kind_vals
    · rw [NumArr.maximum_kind, NumArr.maximum_kind, hk]
    · rw [NumArr.maximum_vals, NumArr.maximum_vals]
      apply List.ext_getElem
      · simp only [List.length_zipWith, NumArr.vals_length, hl, hl1, hl2]
      · intro i h1 h2
        have hi : i < l.p1.length := by
          simp only [List.length_zipWith, NumArr.vals_length, hl] at h2
          omega
        have e1 := NumArr.getD_zipWith max l'.p1.vals l'.p2.vals 0 i (by rw [NumArr.vals_length, hl1]; exact hi)
          (by rw [NumArr.vals_length, hl2]; exact hi)
        have e2 := NumArr.getD_zipWith max l.p1.vals l.p2.vals 0 i (by rw [NumArr.vals_length]; exact hi)
          (by rw [NumArr.vals_length, hl]; exact hi)
        rw [List.getD_eq_getElem?_getD, List.getElem?_eq_getElem h1] at e1
        rw [List.getD_eq_getElem?_getD, List.getElem?_eq_getElem h2] at e2
        simp only [Option.getD_some] at e1 e2
        rw [e1, e2]
        rcases hsw i hi with ⟨a1, a2⟩ | ⟨a1, a2⟩
        · rw [a1, a2]
        · rw [a1, a2, max_comm]
  unfold legacyField
  rw [hmin, hmax, hl1, hn, hd, ha]

/-! ## the side-car: from C14's setter to the typed setter -/

/-- the typed tests of the setter are the tests C14 reasons about -/
theorem isAligned_eq (m o : Mesh) (ho : o.ndim = m.ndim) : C10.isAligned m o = T.isAligned m o := by
  unfold C10.isAligned T.isAligned allcloseL
  have h1 : (allLt m.cell.length fun i => Region.isclose (m.cell.getD i 0) (o.cell.getD i 0) (1/100000) (1/1000000000000))
      = allLt m.ndim (fun a => T.allcloseAx (m.cellAt a) (o.cellAt a) (1/1000000000000)) := by
    have hlen : m.cell.length = m.ndim := by unfold Mesh.cell; rw [tab_length]
    rw [hlen]
    apply Bool.eq_iff_iff.mpr
    rw [allLt_iff, allLt_iff]
    apply forall_congr'
    intro a
    apply imp_congr_right
    intro ha
    have e1 : m.cell.getD a 0 = m.cellAt a := by unfold Mesh.cell; rw [getD_tab _ _ _ _ ha]
    have e2 : o.cell.getD a 0 = o.cellAt a := by unfold Mesh.cell; rw [getD_tab _ _ _ _ (by rw [ho]; exact ha)]
    rw [e1, e2]
    unfold Region.isclose T.allcloseAx
    simp only [decide_eq_true_eq]
    have : (1 : Rat) / 100000 * absR (o.cellAt a) = absR (o.cellAt a) / 100000 := by ring
    rw [this]
  rw [h1]
  rfl

theorem mkCell_ndim (s : Region) (cell : List Rat) (sm : Mesh) (h : Mesh.mkCell? s cell = .ok sm) :
    sm.region = s ∧ cell.length = s.ndim := by
  unfold Mesh.mkCell? at h
  split at h
  · cases h
  · rename_i h1
    split at h
    · cases h
    · split at h
      · cases h
      · split at h
        · cases h
        · split at h
          · cases h
          · split at h
            · cases h
            · injection h with h
              subst h
              exact ⟨rfl, by simpa using h1⟩

theorem subAccept_of_subOk (r : Region) (n : List Nat) (s : Region)
    (h : T.subOk { region := r, n := n, bc := "", subs := [] } s = true) : subAccept r n s = true := by
  unfold T.subOk at h
  unfold subAccept
  simp only [Bool.and_eq_true] at h ⊢
  refine ⟨h.1, ?_⟩
  have h2 := h.2
  cases hmk : Mesh.mkCell? s (Mesh.cell { region := r, n := n, bc := "", subs := [] }) with
  | error e => rw [hmk] at h2; cases h2
  | ok sm =>
    rw [hmk] at h2
    simp only at h2 ⊢
    obtain ⟨hr, hlen⟩ := mkCell_ndim _ _ _ hmk
    have ho : sm.ndim = (Mesh.mk r n "" []).ndim := by
      unfold Mesh.ndim
      rw [hr, ← hlen]
      unfold Mesh.cell
      rw [tab_length]
      rfl
    rw [isAligned_eq _ _ ho]
    exact h2

/-- the untyped mesh (region values, counts) C14's setter theorems speak about -/
def TMesh.toMesh (m : TMesh) : Mesh := { region := m.region.toRegion, n := m.n, bc := "", subs := [] }

theorem toMesh_inv (m : TMesh) (hm : m.Inv) : m.toMesh.Inv := by
  obtain ⟨hr, hn, hpos, _⟩ := (TMesh.inv_iff m).mp hm
  obtain ⟨h0, hl, _, hd, hu, hdup, hlt⟩ := (TReg.inv_iff m.region).mp hr
  refine ⟨⟨?_, ?_, ?_, ?_, hdup, ?_⟩, ?_, ?_⟩
  · show 0 < m.region.pmin.vals.length
    rw [NumArr.vals_length]; exact h0
  · show m.region.pmax.vals.length = m.region.pmin.vals.length
    rw [NumArr.vals_length, NumArr.vals_length]; exact hl
  · show m.region.dims.length = m.region.pmin.vals.length
    rw [NumArr.vals_length]; exact hd
  · show m.region.units.length = m.region.pmin.vals.length
    rw [NumArr.vals_length]; exact hu
  · intro a ha
    have : a < m.region.pmin.length := by
      have : a < m.region.pmin.vals.length := ha
      rwa [NumArr.vals_length] at this
    exact hlt a this
  · show m.n.length = m.region.pmin.vals.length
    rw [NumArr.vals_length]; exact hn
  · intro a ha
    have ha' : a < m.n.length := by
      have : a < m.region.pmin.vals.length := ha
      rw [NumArr.vals_length] at this
      rw [hn]; exact this
    show 0 < m.n.getD a 0
    rw [List.getD_eq_getElem?_getD, List.getElem?_eq_getElem ha']
    exact hpos _ (List.getElem_mem ha')

/-- a box that fits the mesh exactly passes the three tests of the typed setter, whatever names,
units and tolerance it carries -/
theorem subAccept_of_fits (m : TMesh) (hm : m.Inv) (s : Region) (h : C14.FitsE m.toMesh s) :
    subAccept m.region.toRegion m.n s = true :=
  subAccept_of_subOk _ _ _ (C14.subOk_of_fits m.toMesh (toMesh_inv m hm) s h)

/-! ## the side-car reader -/

/-- one side-car entry as the untyped box it describes -/
def H5Region.toRegion (h : H5Region) : Region :=
  { pmin := h.pmin.vals, pmax := h.pmax.vals, dims := h.dims, units := h.units, tol := h.tol.val }

/-- `Region(**val)` for a side-car entry with ordered corners: the two corner lists in their
common dtype, the entry's own names, units, tolerance -/
def H5Region.region (h : H5Region) : TReg :=
  { pmin := h.pmin.cast (NK.join h.pmin.kind h.pmax.kind), pmax := h.pmax.cast (NK.join h.pmin.kind h.pmax.kind),
    dims := h.dims, units := h.units, tol := h.tol }

/-- the subregion the setter stores for an accepted candidate: its corners, the mesh's names,
units and tolerance -/
def stampSub (r : TReg) (p : String × TReg) : String × TReg :=
  (p.1, { pmin := p.2.pmin, pmax := p.2.pmax, dims := r.dims, units := r.units, tol := r.tol })

theorem join_lossless (a b : NumArr) :
    (NK.join a.kind b.kind = .float ∨ a.kind = .int) ∧ (NK.join a.kind b.kind = .float ∨ b.kind = .int) := by
  cases a <;> cases b <;> simp [NK.join, NumArr.kind]

theorem H5Region.region_toRegion (h : H5Region) : h.region.toRegion = h.toRegion := by
  unfold H5Region.region H5Region.toRegion TReg.toRegion
  simp only [NumArr.cast_vals _ _ (join_lossless h.pmin h.pmax).1, NumArr.cast_vals _ _ (join_lossless h.pmin h.pmax).2]

theorem regionLoad_ordered (h : H5Region) (h0 : 0 < h.pmin.length) (hl : h.pmax.length = h.pmin.length)
    (hd : h.dims.length = h.pmin.length) (hdup : hasDup h.dims = false) (hu : h.units.length = h.pmin.length)
    (hlt : ∀ a, a < h.pmin.length → h.pmin.vals.getD a 0 < h.pmax.vals.getD a 0) :
    regionLoad h = .ok h.region := by
  unfold regionLoad TReg.initKw
  have h1 : ¬ h.pmin.length ≠ h.pmax.length := by omega
  have h3 : allLt h.pmin.length (fun a => decide (h.pmin.vals.getD a 0 < h.pmax.vals.getD a 0)) = true := by
    rw [allLt_iff]; intro a ha; simpa using hlt a ha
  simp only [h1, if_false, h3, Bool.not_true, Bool.false_eq_true]
  unfold TReg.init
  have h2 : ¬ h.pmin.length = 0 := by omega
  have h4 : allLt h.pmin.length (fun a => decide (h.pmin.vals.getD a 0 ≠ h.pmax.vals.getD a 0)) = true := by
    rw [allLt_iff]; intro a ha
    simp only [ne_eq, decide_not, Bool.not_eq_eq_eq_not, Bool.not_true, decide_eq_false_iff_not]
    exact ne_of_lt (hlt a ha)
  obtain ⟨hmin, hmax⟩ := NumArr.minimum_maximum_ordered_gen h.pmin h.pmax hl hlt
  simp only [h1, h2, if_false, dimsOk_some _ _ hd hdup, unitsOk_some _ _ hu, h4, Bool.not_true, Bool.false_eq_true, hmin, hmax]
  rfl

/-- **A fitting side-car is accepted.**  If every box of the side-car fits the mesh exactly
(inside, whole cells, on the lattice: `C14.FitsE`) and carries `ndim` distinct dimension names
and `ndim` units, `mesh.load_subregions` succeeds and attaches exactly these boxes — names in
dict order, the corners in their common dtype, the mesh's names, units and tolerance. -/
theorem sidecarLoad_fits (m : TMesh) (hm : m.Inv) (sc : List (String × H5Region))
    (hwf : ∀ p ∈ sc, p.2.dims.length = m.region.ndim ∧ hasDup p.2.dims = false ∧ p.2.units.length = m.region.ndim)
    (hfit : ∀ p ∈ sc, C14.FitsE m.toMesh p.2.toRegion) :
    sidecarLoad m (some sc) =
      .ok { m with subs := (dictOf (sc.map fun p => (p.1, p.2.region))).map (stampSub m.region) } := by
  obtain ⟨hr, hn, hpos, _, _, _, _⟩ := (TMesh.inv_iff m).mp hm
  obtain ⟨h0, hl, _, hd, hu, hdup, _⟩ := (TReg.inv_iff m.region).mp hr
  have hMinv := toMesh_inv m hm
  have hnd : m.toMesh.ndim = m.region.ndim := by
    show m.region.pmin.vals.length = m.region.pmin.length
    rw [NumArr.vals_length]
  -- every entry: lengths and strict order from the fit
  have hent : ∀ p ∈ sc, p.2.pmin.length = m.region.ndim ∧ p.2.pmax.length = m.region.ndim ∧
      ∀ a, a < m.region.ndim → p.2.pmin.vals.getD a 0 < p.2.pmax.vals.getD a 0 := by
    intro p hp
    have hf := hfit p hp
    have hb := C14.fits_bounds m.toMesh hMinv _ hf
    obtain ⟨l1, l2, _⟩ := hf
    refine ⟨?_, ?_, ?_⟩
    · have : p.2.pmin.vals.length = m.toMesh.ndim := l1
      rwa [NumArr.vals_length, hnd] at this
    · have : p.2.pmax.vals.length = m.toMesh.ndim := l2
      rwa [NumArr.vals_length, hnd] at this
    · intro a ha
      exact (hb a (by rw [hnd]; exact ha)).2.1
  simp only [sidecarLoad]
  have hmap : mapE (fun (p : String × H5Region) => (regionLoad p.2).bind fun s => Except.ok (p.1, s)) sc
      = .ok (sc.map fun p => (p.1, p.2.region)) := by
    apply mapE_ok_of
    intro p hp
    obtain ⟨l1, l2, hlt⟩ := hent p hp
    obtain ⟨w1, w2, w3⟩ := hwf p hp
    have hnd' : m.region.ndim = m.region.pmin.length := rfl
    rw [regionLoad_ordered p.2 (by rw [l1, hnd']; exact h0) (by rw [l1, l2]) (by rw [w1, l1]) w2 (by rw [w3, l1])
      (by rw [l1]; exact hlt)]
    rfl
  rw [hmap]
  simp only [bind_ok]
  have hset : setSubs m.region m.n (dictOf (sc.map fun p => (p.1, p.2.region)))
      = .ok ((dictOf (sc.map fun p => (p.1, p.2.region))).map (stampSub m.region)) := by
    unfold setSubs
    have hall : (dictOf (sc.map fun p => (p.1, p.2.region))).all
        (fun p => candOk m.region m.n p.2) = true := by
      rw [List.all_eq_true]
      intro q hq
      obtain ⟨p, hp, rfl⟩ := List.mem_map.mp (mem_dictOf _ _ hq)
      simp only
      obtain ⟨l1, l2, hlt⟩ := hent p hp
      obtain ⟨w1, w2, w3⟩ := hwf p hp
      have hnd' : m.region.ndim = m.region.pmin.length := rfl
      have hrl := regionLoad_ordered p.2 (by rw [l1, hnd']; exact h0) (by rw [l1, l2]) (by rw [w1, l1]) w2 (by rw [w3, l1])
        (by rw [l1]; exact hlt)
      have hpinv : p.2.region.Inv := (init_ok _ _ _ _ _ _ (initKw_ok _ _ _ _ _ _ hrl)).1
      rw [candOk_eq m.region hr m.n _ hpinv, H5Region.region_toRegion]
      exact subAccept_of_fits m hm _ (C14.fitsE_congr m.toMesh m.toMesh p.2.toRegion _ rfl rfl rfl rfl (hfit p hp))
    simp only [hall, Bool.not_true, Bool.false_eq_true, if_false]
    apply mapE_ok_of
    intro q hq
    obtain ⟨p, hp, rfl⟩ := List.mem_map.mp (mem_dictOf _ _ hq)
    obtain ⟨l1, l2, hlt⟩ := hent p hp
    have hnd' : m.region.ndim = m.region.pmin.length := rfl
    have hv1 := NumArr.cast_vals _ _ (join_lossless p.2.pmin p.2.pmax).1
    have hv2 := NumArr.cast_vals _ _ (join_lossless p.2.pmin p.2.pmax).2
    unfold rebuildSub
    simp only [H5Region.region]
    rw [init_ordered _ _ (some m.region.dims) (some m.region.units) m.region.dims m.region.units m.region.tol
      (by rw [NumArr.cast_length, l1, hnd']; exact h0) (by rw [NumArr.cast_length, NumArr.cast_length, l1, l2])
      (by rw [NumArr.cast_kind, NumArr.cast_kind])
      (dimsOk_some _ _ (by rw [NumArr.cast_length, l1, hnd', hd]) hdup)
      (unitsOk_some _ _ (by rw [NumArr.cast_length, l1, hnd', hu]))
      (by rw [NumArr.cast_length, hv1, hv2, l1]; exact hlt)]
    rfl
  rw [hset]
  rfl

/-- the mesh with a fitting side-car attached satisfies the mesh invariant -/
theorem sidecar_mesh_inv (m : TMesh) (hm : m.Inv) (sc : List (String × H5Region))
    (hfit : ∀ p ∈ sc, C14.FitsE m.toMesh p.2.toRegion) :
    ({ m with subs := (dictOf (sc.map fun p => (p.1, p.2.region))).map (stampSub m.region) } : TMesh).Inv := by
  obtain ⟨hr, hn, hpos, hbl, hbc, _, _⟩ := (TMesh.inv_iff m).mp hm
  have hMinv := toMesh_inv m hm
  have hnd : m.toMesh.ndim = m.region.ndim := by
    show m.region.pmin.vals.length = m.region.pmin.length
    rw [NumArr.vals_length]
  rw [TMesh.inv_iff]
  refine ⟨hr, hn, hpos, hbl, hbc, ?_, ?_⟩
  · have : ((dictOf (sc.map fun p => (p.1, p.2.region))).map (stampSub m.region)).map (fun p => p.1)
        = (dictOf (sc.map fun p => (p.1, p.2.region))).map (fun p => p.1) := by
      rw [List.map_map]; rfl
    simp only [this]
    exact hasDup_keys_dictOf _
  · intro q hq
    simp only [List.mem_map] at hq
    obtain ⟨q0, hq0, rfl⟩ := hq
    obtain ⟨p, hp, rfl⟩ := List.mem_map.mp (mem_dictOf _ _ hq0)
    have hf := hfit p hp
    have hb := C14.fits_bounds m.toMesh hMinv _ hf
    obtain ⟨l1, l2, _⟩ := hf
    have hv1 := NumArr.cast_vals _ _ (join_lossless p.2.pmin p.2.pmax).1
    have hv2 := NumArr.cast_vals _ _ (join_lossless p.2.pmin p.2.pmax).2
    have e1 : p.2.pmin.length = m.region.ndim := by
      have : p.2.pmin.vals.length = m.toMesh.ndim := l1
      rwa [NumArr.vals_length, hnd] at this
    have e2 : p.2.pmax.length = m.region.ndim := by
      have : p.2.pmax.vals.length = m.toMesh.ndim := l2
      rwa [NumArr.vals_length, hnd] at this
    rw [subInv_iff]
    simp only [stampSub, H5Region.region, TReg.toRegion, NumArr.cast_length, NumArr.cast_kind, hv1, hv2]
    refine ⟨e1, e2, trivial, trivial, trivial, trivial, fun a ha => (hb a (by rw [hnd]; exact ha)).2.1, ?_⟩
    apply subAccept_of_fits m hm
    exact C14.fitsE_congr m.toMesh m.toMesh p.2.toRegion _ rfl rfl rfl rfl (hfit p hp)

/-- **a legacy file with a fitting side-car is read to a constructor-grade field** -/
theorem legacy_sidecar_inv (l : Legacy) (sc : List (String × H5Region)) (h0 : 0 < l.p1.length) (hl : l.p2.length = l.p1.length)
    (hne : ∀ a, a < l.p1.length → l.p1.vals.getD a 0 ≠ l.p2.vals.getD a 0)
    (hn : l.n.length = l.p1.length) (hpos : ∀ k ∈ l.n, 0 < k) (hdim : 1 ≤ l.dim)
    (hb : l.array.buf.length = natProd (l.n.map Int.toNat ++ [l.dim.toNat]))
    (hfit : ∀ p ∈ sc, C14.FitsE (legacyField l).mesh.toMesh p.2.toRegion) :
    ({ legacyField l with
       mesh := { (legacyField l).mesh with
                 subs := (dictOf (sc.map fun p => (p.1, p.2.region))).map (stampSub (legacyField l).mesh.region) } } : TFld).Inv := by
  obtain ⟨_, hnv, hds, hdl, hvs, hvl, hvd⟩ := (TFld.inv_iff _).mp (legacyField_inv l h0 hl hne hn hpos hdim hb)
  rw [TFld.inv_iff]
  exact ⟨sidecar_mesh_inv _ (legacy_mesh_inv l h0 hl hne hn hpos) sc hfit, hnv, hds, hdl, hvs, hvl, hvd⟩

end DFV.C10
