import DFV.Model.C08Dict
import DFV.Lemmas.C08Ex
import DFV.Lemmas.C08Mesh
import DFV.Lemmas.C08Dict
import DFV.Lemmas.C08LinkFld
import DFV.Lemmas.C08LinkC05
import DFV.Lemmas.C08LinkC03b
import DFV.Lemmas.C08LinkMisc
import DFV.Lemmas.C08Fast
/-! Concrete instances for the non-vacuity `example`s of the second half of `Props/C08.lean`
(object-level links, mesh objects in sessions, dictionary setter). -/
namespace DFV.C08
open DFV

def exReg : Region :=
  { pmin := [0, 0], pmax := [4, 2], dims := ["x", "y"], units := ["m", "m"], tol := 1 / 1000000000000 }

/-- a 4 × 2 mesh over `[0,4] × [0,2]` with two overlapping subregions: cells 1..2 × 0 and cells 2..3 × 0..1 -/
def exMesh : Mesh :=
  { region := exReg, n := [4, 2], bc := "",
    subs := [("a", { exReg with pmin := [1, 0], pmax := [3, 1] }), ("b", { exReg with pmin := [2, 0], pmax := [4, 2] })] }

/-- a scalar field of distinct tokens, invalid in the odd layers along `x` -/
def exF : Fld :=
  { mesh := exMesh, nvdim := 1, data := ⟨[4, 2], fun i => [((i.getD 0 0 * 10 + i.getD 1 0 : Nat) : Rat)]⟩,
    valid := ⟨[4, 2], fun i => i.getD 0 0 % 2 == 0⟩, vdims := none, vmap := [], unit := none }

/-- a vector field on the same mesh (components mapped to the axes), with a hole -/
def exV : Fld :=
  { exF with nvdim := 2, data := ⟨[4, 2], fun i => [((i.getD 0 0 : Nat) : Rat), ((i.getD 1 0 : Nat) : Rat)]⟩,
             valid := ⟨[4, 2], fun i => !(i.getD 0 0 == 1 && i.getD 1 0 == 0)⟩,
             vdims := some ["x", "y"], vmap := [("x", "x"), ("y", "y")] }

def isField : M C07.SelOut → Bool
  | .ok (.field _) => true
  | _ => false

def isOk {α} : M α → Bool
  | .ok _ => true
  | _ => false

/-- validity of an accepted result, flat -/
def validOf (r : M Fld) : Option (List Nat × List Bool) :=
  match r with
  | .ok g => some (g.valid.shape, g.valid.toList)
  | .error _ => none

/-- two C03 fields on one mesh -/
def exCF (msk : List Nat → Bool) : C03.CF :=
  { mesh := exMesh, nvdim := 1, data := ⟨[4, 2, 1], fun i => ⟨((i.getD 0 0 + 1 : Nat) : Rat), 0⟩⟩, valid := ⟨[4, 2], msk⟩,
    vdims := none, vmap := [], unit := none, kind := .float }

def exC03 : C03.Env :=
  { fields := [exCF fun i => i.getD 0 0 % 2 == 0, exCF fun i => i.getD 1 0 == 0], sq := fun x => x, acos := fun x => x,
    arg := fun _ => 0 }

end DFV.C08
