import DFV.Lemmas.C19Tcd
import DFV.Lemmas.C19Conv
import Mathlib.Data.Rat.Floor
/-!
# C19 — `count_bps` and the emergent field at object level: rotation of the vectors, reversal,
uniform fields.  `forceF` (materialisation of an array) is handled through component-wise
agreement of fields (`CompRel`).
-/
namespace DFV.C19
open DFV

/-! ## materialised arrays -/

theorem force_get_opt {α} (a : NDA α) (d : α) (i : List Nat) :
    (a.force d).get i = (((indicesC a.shape)[flatC a.shape i]?).map a.get).getD d := by
  show (NDA.ofList a.shape a.toList d).get i = _
  unfold NDA.ofList NDA.ofArray NDA.toList
  simp only
  rw [Array.getD_eq_getD_getElem?]
  simp only [List.getElem?_toArray, List.getElem?_map]

/-- component `c` of a cell of a materialised mapped array -/
theorem force_map_comp (a : NDA (List Rat)) (φ : List Rat → List Rat) (c : Nat) (hφ : (φ []).getD c 0 = 0) (i : List Nat) :
    (((a.map φ).force []).get i).getD c 0 = (φ ((a.force []).get i)).getD c 0 := by
  rw [force_get_opt, force_get_opt]
  show ((((indicesC a.shape)[flatC a.shape i]?).map fun j => φ (a.get j)).getD []).getD c 0 = _
  cases (indicesC a.shape)[flatC a.shape i]? with
  | none => simp only [Option.map_none, Option.getD_none, List.getD_nil]; exact hφ.symm
  | some j => simp

/-! ## fields related component by component -/

/-- same mesh and validity, and component `c` of every cell of `g` is `s` times that of `f` -/
def CompRel (s : Rat) (f g : Fld) : Prop :=
  g.mesh = f.mesh ∧ g.valid = f.valid ∧ ∀ j c, c < 3 → (g.data.get j).getD c 0 = s * (f.data.get j).getD c 0

theorem CompRel.cellV {s : Rat} {f g : Fld} (h : CompRel s f g) (i : List Nat) : cellV g i = (cellV f i).smul s := by
  unfold C19.cellV V3.ofList V3.smul
  rw [h.2.2 i 0 (by omega), h.2.2 i 1 (by omega), h.2.2 i 2 (by omega)]

theorem CompRel.Dv {s : Rat} {f g : Fld} (h : CompRel s f g) (ax order : Nat) (r : Bool) (i : List Nat) :
    Dv g ax order r i = (Dv f ax order r i).smul s := by
  unfold C19.Dv V3.smul
  rw [Dc_smul f g ax order r 0 s i h.1 h.2.1 (fun j => h.2.2 j 0 (by omega)),
    Dc_smul f g ax order r 1 s i h.1 h.2.1 (fun j => h.2.2 j 1 (by omega)),
    Dc_smul f g ax order r 2 s i h.1 h.2.1 (fun j => h.2.2 j 2 (by omega))]

theorem CompRel.emSpec {s : Rat} {f g : Fld} (h : CompRel s f g) (k l : Nat) (i : List Nat) :
    emSpec g k l i = s * s * s * emSpec f k l i := by
  unfold C19.emSpec
  rw [h.cellV, h.Dv, h.Dv]
  simp only [V3.dot, V3.cross, V3.smul]
  ring

theorem forceF_rotF (q : M3) (o : Fld) : CompRel 1 (rotF q (forceF o)) (forceF (rotF q o)) := by
  refine ⟨rfl, rfl, ?_⟩
  intro j c _
  rw [one_mul]
  show (((o.data.map fun v => (q.mulVec (V3.ofList v)).toList).force []).get j).getD c 0 = _
  rw [force_map_comp _ _ c]
  · rfl
  · have : (q.mulVec (V3.ofList [])).toList = [0, 0, 0] := by
      simp [V3.ofList, M3.mulVec, V3.toList]
    rw [this]
    rcases c with _ | _ | _ | c <;> simp

theorem forceF_negF (o : Fld) : CompRel 1 (negF (forceF o)) (forceF (negF o)) := by
  refine ⟨rfl, rfl, ?_⟩
  intro j c _
  rw [one_mul]
  show (((o.data.map fun v => (V3.ofList v).neg.toList).force []).get j).getD c 0 = _
  rw [force_map_comp _ _ c]
  · rfl
  · have : (V3.ofList []).neg.toList = [0, 0, 0] := by
      simp [V3.ofList, V3.neg, V3.toList]
    rw [this]
    rcases c with _ | _ | _ | c <;> simp

theorem negF_compRel (f : Fld) : CompRel (-1) f (negF f) := by
  refine ⟨rfl, rfl, ?_⟩
  intro j c hc
  show ((V3.ofList (f.data.get j)).neg.toList).getD c 0 = _
  rcases (by omega : c = 0 ∨ c = 1 ∨ c = 2) with rfl | rfl | rfl <;> simp [V3.ofList, V3.neg, V3.toList]

theorem CompRel.trans {s t : Rat} {f g h : Fld} (a : CompRel s f g) (b : CompRel t g h) : CompRel (t * s) f h := by
  refine ⟨b.1.trans a.1, b.2.1.trans a.2.1, ?_⟩
  intro j c hc
  rw [b.2.2 j c hc, a.2.2 j c hc]; ring

/-! ## the emergent field of the materialised orientation field -/

/-- `emergent_magnetic_field(field.orientation)` as `count_bps` computes it -/
def emOri (sq : Rat → Rat) (f : Fld) : M Fld := emergent (forceF (orientation sq f))

theorem emOri_rotF (sq : Rat → Rat) (q : M3) (hq : q.IsRot) (f : Fld) (h3 : f.nvdim = 3) (hd : f.mesh.ndim = 3) :
    emOri sq (rotF q f) = emOri sq f := by
  unfold emOri
  rw [emergent_eq _ (by exact h3) (by exact hd), emergent_eq _ (by exact h3) (by exact hd), orientation_rotF sq q hq.1]
  have hc := forceF_rotF q (orientation sq f)
  have e : (fun i => [emSpec (forceF (rotF q (orientation sq f))) 1 2 i, emSpec (forceF (rotF q (orientation sq f))) 2 0 i,
        emSpec (forceF (rotF q (orientation sq f))) 0 1 i])
      = fun i => [emSpec (forceF (orientation sq f)) 1 2 i, emSpec (forceF (orientation sq f)) 2 0 i,
        emSpec (forceF (orientation sq f)) 0 1 i] := by
    funext i
    rw [hc.emSpec, hc.emSpec, hc.emSpec, emSpec_rotF q hq, emSpec_rotF q hq, emSpec_rotF q hq]
    simp
  rw [e]
  rfl

theorem emOri_negF (sq : Rat → Rat) (f e : Fld) (h : emOri sq f = .ok e) : emOri sq (negF f) = .ok (negF e) := by
  unfold emOri at h ⊢
  have h3 : (forceF (orientation sq f)).nvdim = 3 := by
    by_cases hc : (forceF (orientation sq f)).nvdim = 3
    · exact hc
    · unfold emergent at h; rw [if_pos hc] at h; cases h
  have hd : (forceF (orientation sq f)).mesh.ndim = 3 := by
    by_cases hc : (forceF (orientation sq f)).mesh.ndim = 3
    · exact hc
    · unfold emergent at h; rw [if_neg (by simp [h3]), if_pos hc] at h; cases h
  rw [emergent_eq _ h3 hd] at h
  injection h with h
  subst h
  rw [emergent_eq _ (by exact h3) (by exact hd), orientation_negF]
  have hc := forceF_negF (orientation sq f)
  have e : (fun i => [emSpec (forceF (negF (orientation sq f))) 1 2 i, emSpec (forceF (negF (orientation sq f))) 2 0 i,
        emSpec (forceF (negF (orientation sq f))) 0 1 i])
      = fun i => (V3.ofList [emSpec (forceF (orientation sq f)) 1 2 i, emSpec (forceF (orientation sq f)) 2 0 i,
        emSpec (forceF (orientation sq f)) 0 1 i]).neg.toList := by
    funext i
    rw [hc.emSpec, hc.emSpec, hc.emSpec, emSpec_negF, emSpec_negF, emSpec_negF]
    simp [V3.ofList, V3.neg, V3.toList]
  rw [e]
  rfl

/-! ## invalid cells -/

/-- `Field.diff(restrict2valid=True)` stores the zero vector in every invalid cell -/
theorem Dv_invalid_zero (f : Fld) (ax : Nat) (hax : ax < f.mesh.ndim) (h3 : f.nvdim = 3) (i : List Nat)
    (hi : i.getD ax 0 < f.mesh.nAt ax) (hv : f.valid.get i = false) : Dv f ax 1 true i = V3.zero := by
  have hd := diff_eq f ax 1 true (Or.inl rfl) hax
  have e : ∀ c, c < 3 → Dc f ax 1 true c i = 0 := by
    intro c hc
    rw [← diff_comp f _ ax 1 true hd i c (by omega)]
    exact C04.diff_invalid_zero f _ ax 1 hd i c (by omega) hi hv
  unfold C19.Dv V3.zero
  rw [e 0 (by omega), e 1 (by omega), e 2 (by omega)]

/-! ## divergence and the plane integrals -/

/-- SPEC of the divergence `Σ_k ∂_k F_k` at cell `i` -/
def divSpec (e : Fld) (i : List Nat) : Rat := Dc e 0 1 true 0 i + Dc e 1 1 true 1 i + Dc e 2 1 true 2 i

theorem divCount_eq (pi : Rat) (m : Mesh) (ax : Nat) (e : Fld) (h3 : e.nvdim = 3) (hd : e.mesh.ndim = 3) :
    divCount pi m ax e =
      if m.nAt ax < 2 then .error .index
      else .ok (bpOf (bpFromReds (tab (m.nAt ax) fun k => bpRed m (divSpec e) ax k) (m.cellAt ax)) pi) := by
  unfold divCount
  rw [diff_eq e 0 1 true (Or.inl rfl) (by omega), diff_eq e 1 1 true (Or.inl rfl) (by omega),
    diff_eq e 2 1 true (Or.inl rfl) (by omega)]
  simp only
  have : (divAt { e with data := ⟨e.data.shape, fun i => tab e.nvdim fun c => Dc e 0 1 true c i⟩ }
      { e with data := ⟨e.data.shape, fun i => tab e.nvdim fun c => Dc e 1 1 true c i⟩ }
      { e with data := ⟨e.data.shape, fun i => tab e.nvdim fun c => Dc e 2 1 true c i⟩ }) = divSpec e := by
    funext i
    unfold divAt divSpec
    simp only
    rw [getD_tab _ _ _ _ (by omega), getD_tab _ _ _ _ (by omega), getD_tab _ _ _ _ (by omega)]
  rw [this]

theorem divSpec_neg {e e' : Fld} (h : CompRel (-1) e e') (i : List Nat) : divSpec e' i = -divSpec e i := by
  unfold divSpec
  rw [Dc_smul e e' 0 1 true 0 (-1) i h.1 h.2.1 (fun j => h.2.2 j 0 (by omega)),
    Dc_smul e e' 1 1 true 1 (-1) i h.1 h.2.1 (fun j => h.2.2 j 1 (by omega)),
    Dc_smul e e' 2 1 true 2 (-1) i h.1 h.2.1 (fun j => h.2.2 j 2 (by omega))]
  ring

theorem sumTo_neg (n : Nat) (g : Nat → Rat) : sumTo n (fun k => -g k) = -sumTo n g := by
  induction n with
  | zero => simp [sumTo]
  | succ n ih => simp only [sumTo, ih]; ring

theorem bpRed_neg (m : Mesh) (g : List Nat → Rat) (ax k : Nat) : bpRed m (fun i => -g i) ax k = -bpRed m g ax k := by
  unfold bpRed
  simp only [sumTo_neg]
  have : (fun p => -(sumTo (m.nAt (otherAxes ax).2) fun q => g (idx3 ax k p q)) * m.cellAt (otherAxes ax).2)
      = fun p => -((sumTo (m.nAt (otherAxes ax).2) fun q => g (idx3 ax k p q)) * m.cellAt (otherAxes ax).2) := by
    funext p; ring
  rw [this, sumTo_neg]
  ring

theorem bpFromReds_neg (reds : List Rat) (h : Rat) : bpFromReds (reds.map (-·)) h = (bpFromReds reds h).map (-·) := by
  unfold bpFromReds
  rw [List.length_map]
  apply List.ext_getElem
  · simp [tab]
  · intro i h1 h2
    have hi : i < reds.length := by simpa [tab] using h1
    simp only [tab, List.getElem_map, List.getElem_range]
    unfold bpIntL
    have e : ∀ k, (reds.map (-·)).getD k 0 = -reds.getD k 0 := by
      intro k
      rw [List.getD_eq_getElem?_getD, List.getD_eq_getElem?_getD, List.getElem?_map]
      cases reds[k]? <;> simp
    simp only [e, sumTo_neg]
    ring

/-! ## rounding and counting -/

/-- `np.round` (ties to even) is odd -/
theorem roundHalfEven_neg (q : Rat) : Mesh.roundHalfEven (-q) = -Mesh.roundHalfEven q := by
  have h1 := rat_floor_le q
  have h2 := rat_lt_floor_add_one q
  by_cases hq : (q.floor : Rat) = q
  · -- an integer
    have e : (-q).floor = -q.floor := rat_floor_eq _ _ (by push_cast; linarith) (by push_cast; linarith)
    unfold Mesh.roundHalfEven
    rw [e]
    have : q - (q.floor : Rat) = 0 := by linarith
    have : -q - ((-q.floor : Int) : Rat) = 0 := by push_cast; linarith
    simp [*]
  · have hlt : (q.floor : Rat) < q := lt_of_le_of_ne h1 hq
    have e : (-q).floor = -q.floor - 1 := rat_floor_eq _ _ (by push_cast; linarith) (by push_cast; linarith)
    unfold Mesh.roundHalfEven
    rw [e]
    have ef : -q - ((-q.floor - 1 : Int) : Rat) = 1 - (q - (q.floor : Rat)) := by push_cast; ring
    rw [ef]
    by_cases c1 : q - (q.floor : Rat) < 1 / 2
    · have c2 : ¬ (1 - (q - (q.floor : Rat)) < 1 / 2) := by linarith
      have c3 : (1 : Rat) / 2 < 1 - (q - (q.floor : Rat)) := by linarith
      rw [if_pos c1, if_neg c2, if_pos c3]; ring
    · by_cases c2 : (1 : Rat) / 2 < q - (q.floor : Rat)
      · have c3 : 1 - (q - (q.floor : Rat)) < 1 / 2 := by linarith
        rw [if_neg c1, if_pos c2, if_pos c3]; ring
      · have c3 : ¬ (1 - (q - (q.floor : Rat)) < 1 / 2) := by linarith
        have c4 : ¬ ((1 : Rat) / 2 < 1 - (q - (q.floor : Rat))) := by linarith
        rw [if_neg c1, if_neg c2, if_neg c3, if_neg c4]
        by_cases hev : q.floor % 2 = 0
        · have : ¬ ((-q.floor - 1) % 2 = 0) := by omega
          rw [if_pos hev, if_neg this]; ring
        · have : (-q.floor - 1) % 2 = 0 := by omega
          rw [if_neg hev, if_pos this]; ring

theorem isum_map_neg (l : List Int) : isum (l.map (-·)) = -isum l := by
  induction l with
  | nil => simp [isum]
  | cons x xs ih => simp only [List.map_cons, isum, ih]; ring

theorem isum_nonneg (l : List Int) (h : ∀ x ∈ l, 0 ≤ x) : 0 ≤ isum l := by
  induction l with
  | nil => simp [isum]
  | cons x xs ih =>
    simp only [isum]
    have := h x (by simp)
    have := ih (fun y hy => h y (by simp [hy]))
    omega

theorem isum_nonpos (l : List Int) (h : ∀ x ∈ l, x ≤ 0) : isum l ≤ 0 := by
  induction l with
  | nil => simp [isum]
  | cons x xs ih =>
    simp only [isum]
    have := h x (by simp)
    have := ih (fun y hy => h y (by simp [hy]))
    omega

theorem diffs_neg (l : List Int) : diffs (l.map (-·)) = (diffs l).map (-·) := by
  unfold diffs
  rw [List.length_map]
  apply List.ext_getElem
  · simp [tab]
  · intro i h1 h2
    simp only [tab, List.getElem_map, List.getElem_range]
    have e : ∀ k, (l.map (-·)).getD k 0 = -l.getD k 0 := by
      intro k
      rw [List.getD_eq_getElem?_getD, List.getD_eq_getElem?_getD, List.getElem?_map]
      cases l[k]? <;> simp
    rw [e, e]; ring

theorem filter_neg_lt (l : List Int) : (l.map (-·)).filter (· < 0) = (l.filter (0 < ·)).map (-·) := by
  induction l with
  | nil => rfl
  | cons x xs ih =>
    simp only [List.map_cons, List.filter_cons, ih]
    by_cases hx : 0 < x
    · have : -x < 0 := by omega
      simp [hx]
    · have : ¬ (-x < 0) := by omega
      simp [hx]

theorem filter_neg_gt (l : List Int) : (l.map (-·)).filter (0 < ·) = (l.filter (· < 0)).map (-·) := by
  induction l with
  | nil => rfl
  | cons x xs ih =>
    simp only [List.map_cons, List.filter_cons, ih]
    by_cases hx : x < 0
    · have : 0 < -x := by omega
      simp [hx]
    · have : ¬ (0 < -x) := by omega
      simp [hx]

theorem map_natAbs_neg (l : List Int) : (l.map (-·)).map (fun d => (d.natAbs : Int)) = l.map fun d => (d.natAbs : Int) := by
  rw [List.map_map]
  apply List.map_congr_left
  intro x _
  simp

theorem rle_neg (l : List Int) : rle (l.map (-·)) = (rle l).map fun p => (-p.1, p.2) := by
  induction l with
  | nil => rfl
  | cons x xs ih =>
    simp only [List.map_cons, rle, ih]
    cases h : rle xs with
    | nil => simp
    | cons p r =>
      obtain ⟨y, c⟩ := p
      simp only [List.map_cons]
      by_cases hxy : x = y
      · subst hxy; simp
      · have : ¬ (-x = -y) := by omega
        simp [hxy, this]

/-- REVERSAL OF THE COUNT: negating the cumulative flux negates the local Bloch-point number, keeps
the total count and swaps head-to-head with tail-to-tail -/
theorem bpOf_neg (fint : List Rat) (pi : Rat) :
    (bpOf (fint.map (-·)) pi).fint = (bpOf fint pi).fint.map (-·) ∧
    (bpOf (fint.map (-·)) pi).number = (bpOf fint pi).number.map (-·) ∧
    (bpOf (fint.map (-·)) pi).total = (bpOf fint pi).total ∧
    (bpOf (fint.map (-·)) pi).hh = (bpOf fint pi).tt ∧
    (bpOf (fint.map (-·)) pi).tt = (bpOf fint pi).hh ∧
    (bpOf (fint.map (-·)) pi).pattern = (bpOf fint pi).pattern.map fun p => (-p.1, p.2) := by
  have hn : (fint.map (-·)).map (fun x => Mesh.roundHalfEven (x / (4 * pi)))
      = (fint.map fun x => Mesh.roundHalfEven (x / (4 * pi))).map (-·) := by
    rw [List.map_map, List.map_map]
    apply List.map_congr_left
    intro x _
    simp only [Function.comp]
    rw [neg_div, roundHalfEven_neg]
  unfold bpOf
  simp only [hn, diffs_neg, map_natAbs_neg, filter_neg_lt, filter_neg_gt, isum_map_neg, rle_neg]
  refine ⟨trivial, trivial, trivial, ?_, ?_, trivial⟩
  · have := isum_nonneg ((diffs (fint.map fun x => Mesh.roundHalfEven (x / (4 * pi)))).filter (0 < ·))
      (fun x hx => by have := (List.mem_filter.mp hx).2; simp at this; omega)
    simp only [Int.ofNat_eq_natCast]
    omega
  · have := isum_nonpos ((diffs (fint.map fun x => Mesh.roundHalfEven (x / (4 * pi)))).filter (· < 0))
      (fun x hx => by have := (List.mem_filter.mp hx).2; simp at this; omega)
    simp only [Int.ofNat_eq_natCast]
    omega

/-! ## a unit step of the rounded flux -/

theorem rle_replicate (x : Int) (b : Nat) (hb : 0 < b) : rle (List.replicate b x) = [(x, b)] := by
  induction b with
  | zero => omega
  | succ b ih =>
    cases b with
    | zero => simp [rle]
    | succ b =>
      rw [List.replicate_succ, rle, ih (by omega)]
      simp

theorem rle_step (x y : Int) (hxy : x ≠ y) (a b : Nat) (ha : 0 < a) (hb : 0 < b) :
    rle (List.replicate a x ++ List.replicate b y) = [(x, a), (y, b)] := by
  induction a with
  | zero => omega
  | succ a ih =>
    cases a with
    | zero =>
      simp only [List.replicate_succ, List.replicate_zero, List.nil_append, List.cons_append, rle]
      rw [rle_replicate y b hb]
      simp [hxy]
    | succ a =>
      rw [List.replicate_succ, List.cons_append, rle, ih (by omega)]
      simp

theorem getD_step (a b k : Nat) (hk : k < a + b) :
    (List.replicate a (0 : Int) ++ List.replicate b 1).getD k 0 = if k < a then 0 else 1 := by
  rw [List.getD_eq_getElem?_getD]
  by_cases h : k < a
  · rw [List.getElem?_append_left (by simpa using h)]
    simp [h]
  · rw [List.getElem?_append_right (by simpa using h)]
    simp only [List.length_replicate, if_neg h]
    rw [List.getElem?_replicate, if_pos (by omega)]
    rfl

theorem diffs_step (a b : Nat) :
    diffs (List.replicate a (0 : Int) ++ List.replicate b 1) = tab (a + b - 1) fun k => if k + 1 = a then 1 else 0 := by
  unfold diffs
  simp only [List.length_append, List.length_replicate]
  apply tab_congr
  intro k hk
  rw [getD_step a b (k + 1) (by omega), getD_step a b k (by omega)]
  by_cases h1 : k + 1 < a
  · have : k < a := by omega
    simp [h1, this]; omega
  · by_cases h2 : k < a
    · have : k + 1 = a := by omega
      simp [h1, h2, this]
    · simp [h1, h2]; omega

theorem tab_single (n j : Nat) (hj : j < n) :
    (tab n fun k => if k = j then (1 : Int) else 0) = List.replicate j 0 ++ [1] ++ List.replicate (n - 1 - j) 0 := by
  apply List.ext_getElem
  · simp [tab]; omega
  · intro i h1 h2
    simp only [tab, List.getElem_map, List.getElem_range]
    by_cases hi : i < j
    · rw [List.getElem_append_left (by simp; omega), List.getElem_append_left (by simpa using hi)]
      simp; omega
    · by_cases hij : i = j
      · subst hij
        rw [List.getElem_append_left (by simp)]
        simp
      · rw [List.getElem_append_right (by simp; omega)]
        simp; omega


theorem isum_append (a b : List Int) : isum (a ++ b) = isum a + isum b := by
  induction a with
  | nil => simp [isum]
  | cons x xs ih => simp only [List.cons_append, isum, ih]; omega

theorem isum_replicate_zero (n : Nat) : isum (List.replicate n 0) = 0 := by
  induction n with
  | zero => rfl
  | succ n ih => simp [List.replicate_succ, isum, ih]

/-- A SINGLE UNIT STEP IS ONE TAIL-TO-TAIL BLOCH POINT: if the rounded cumulative flux `F_int/(4π)` is
`0` on the first `a` cells and `1` on the remaining `b` cells, `count_bps` reports exactly one Bloch
point, tail-to-tail, none head-to-head, pattern `[[0, a], [1, b]]` -/
theorem bpOf_unit_step (fint : List Rat) (pi : Rat) (a b : Nat) (ha : 0 < a) (hb : 0 < b)
    (h : (fint.map fun x => Mesh.roundHalfEven (x / (4 * pi))) = List.replicate a 0 ++ List.replicate b 1) :
    (bpOf fint pi).total = 1 ∧ (bpOf fint pi).tt = 1 ∧ (bpOf fint pi).hh = 0 ∧
    (bpOf fint pi).pattern = [(0, a), (1, b)] := by
  unfold bpOf
  simp only [h]
  have hd : diffs (List.replicate a (0 : Int) ++ List.replicate b 1)
      = List.replicate (a - 1) 0 ++ [1] ++ List.replicate (a + b - 1 - 1 - (a - 1)) 0 := by
    rw [diffs_step a b, ← tab_single (a + b - 1) (a - 1) (by omega)]
    apply tab_congr
    intro k _
    by_cases hk : k + 1 = a
    · rw [if_pos hk, if_pos (by omega)]
    · rw [if_neg hk, if_neg (by omega)]
  rw [hd]
  refine ⟨?_, ?_, ?_, rle_step 0 1 (by decide) a b ha hb⟩
  · simp only [List.map_append, List.map_replicate, List.map_cons, List.map_nil, isum_append]
    simp [isum_replicate_zero, isum]
  · simp only [List.filter_append, List.filter_replicate]
    simp [isum]
  · simp only [List.filter_append, List.filter_replicate]
    simp [isum]

/-! ## `count_bps` -/

theorem countBps_eq (sq : Rat → Rat) (pi : Rat) (f : Fld) (dir : String) :
    countBps sq pi f dir =
      if f.mesh.ndim ≠ 3 then .error .value
      else if f.nvdim ≠ 3 then .error .value
      else match indexOf? f.mesh.region.dims dir with
        | none => .error .value
        | some ax => match emOri sq f with
          | .error e => .error e
          | .ok e => divCount pi f.mesh ax (forceF e) := rfl

theorem countBps_rotF (sq : Rat → Rat) (pi : Rat) (q : M3) (hq : q.IsRot) (f : Fld) (dir : String) :
    countBps sq pi (rotF q f) dir = countBps sq pi f dir := by
  rw [countBps_eq, countBps_eq]
  show (if f.mesh.ndim ≠ 3 then _ else if f.nvdim ≠ 3 then _ else _) = _
  by_cases hd : f.mesh.ndim ≠ 3
  · rw [if_pos hd, if_pos hd]
  · rw [if_neg hd, if_neg hd]
    by_cases h3 : f.nvdim ≠ 3
    · rw [if_pos h3, if_pos h3]
    · rw [if_neg h3, if_neg h3]
      rw [emOri_rotF sq q hq f (not_not.mp h3) (not_not.mp hd)]
      rfl

theorem emOri_ok (sq : Rat → Rat) (f e : Fld) (h : emOri sq f = .ok e) : e.nvdim = 3 ∧ e.mesh = f.mesh ∧ f.mesh.ndim = 3 := by
  unfold emOri at h
  have h3 : (forceF (orientation sq f)).nvdim = 3 := by
    by_cases hc : (forceF (orientation sq f)).nvdim = 3
    · exact hc
    · unfold emergent at h; rw [if_pos hc] at h; cases h
  have hd : (forceF (orientation sq f)).mesh.ndim = 3 := by
    by_cases hc : (forceF (orientation sq f)).mesh.ndim = 3
    · exact hc
    · unfold emergent at h; rw [if_neg (by simp [h3]), if_pos hc] at h; cases h
  rw [emergent_eq _ h3 hd] at h
  injection h with h
  subst h
  exact ⟨rfl, rfl, hd⟩

theorem countBps_negF (sq : Rat → Rat) (pi : Rat) (f : Fld) (dir : String) (r : BpResult)
    (h : countBps sq pi f dir = .ok r) :
    ∃ r', countBps sq pi (negF f) dir = .ok r' ∧ r'.fint = r.fint.map (-·) ∧ r'.number = r.number.map (-·) ∧
      r'.total = r.total ∧ r'.hh = r.tt ∧ r'.tt = r.hh ∧ r'.pattern = r.pattern.map fun p => (-p.1, p.2) := by
  rw [countBps_eq] at h
  rw [countBps_eq]
  have hm : (negF f).mesh = f.mesh := rfl
  have hnv : (negF f).nvdim = f.nvdim := rfl
  simp only [hm, hnv]
  by_cases hd : f.mesh.ndim ≠ 3
  · rw [if_pos hd] at h; cases h
  · rw [if_neg hd] at h ⊢
    by_cases h3 : f.nvdim ≠ 3
    · rw [if_pos h3] at h; cases h
    · rw [if_neg h3] at h ⊢
      cases hax : indexOf? f.mesh.region.dims dir with
      | none => rw [hax] at h; cases h
      | some ax =>
        rw [hax] at h
        simp only at h ⊢
        cases he : emOri sq f with
        | error e => rw [he] at h; cases h
        | ok e =>
          rw [he] at h
          simp only at h
          rw [emOri_negF sq f e he]
          simp only
          obtain ⟨e3, em, _⟩ := emOri_ok sq f e he
          have hd' : f.mesh.ndim = 3 := not_not.mp hd
          have hrel : CompRel (-1) (forceF e) (forceF (negF e)) := by
            have := (negF_compRel (forceF e)).trans (forceF_negF e)
            simpa using this
          rw [divCount_eq pi f.mesh ax (forceF e) e3 (by show e.mesh.ndim = 3; rw [em]; exact hd')] at h
          rw [divCount_eq pi f.mesh ax (forceF (negF e)) e3 (by show e.mesh.ndim = 3; rw [em]; exact hd')]
          by_cases hn : f.mesh.nAt ax < 2
          · rw [if_pos hn] at h; cases h
          · rw [if_neg hn] at h ⊢
            injection h with h
            subst h
            have ed : divSpec (forceF (negF e)) = fun i => -divSpec (forceF e) i := funext fun i => divSpec_neg hrel i
            have et : (tab (f.mesh.nAt ax) fun k => bpRed f.mesh (divSpec (forceF (negF e))) ax k)
                = (tab (f.mesh.nAt ax) fun k => bpRed f.mesh (divSpec (forceF e)) ax k).map (-·) := by
              rw [ed]
              unfold tab
              rw [List.map_map]
              apply List.map_congr_left
              intro k _
              exact bpRed_neg _ _ _ _
            rw [et, bpFromReds_neg]
            exact ⟨_, rfl, bpOf_neg _ pi⟩

end DFV.C19
