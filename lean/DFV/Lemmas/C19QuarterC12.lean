import DFV.Lemmas.C19Quarter
import DFV.Lemmas.C19Mesh
import DFV.Props.C12
import DFV.Lemmas.C13StepM
/-!
# C19 — `Field.rotate90` (C12's model, `T.rotate90F`) produces a quarter-turned field in the sense
of `QTurn`: the link between the sample rotation of the library and the invariance theorem
`charge_turn`.
-/
namespace DFV.C19
open DFV DFV.T

/-! ## the matrix `rotVec` applies to the three components -/

/-- entry `(r, c)` of the rotation in the plane of components `c1, c2` with cosine `co`, sine `si` -/
def rotE (c1 c2 : Nat) (co si : Rat) (r c : Nat) : Rat :=
  if r = c1 then (if c = c1 then co else if c = c2 then -si else 0)
  else if r = c2 then (if c = c1 then si else if c = c2 then co else 0)
  else (if c = r then 1 else 0)

def rotM (c1 c2 : Nat) (co si : Rat) : M3 :=
  ⟨rotE c1 c2 co si 0 0, rotE c1 c2 co si 0 1, rotE c1 c2 co si 0 2,
   rotE c1 c2 co si 1 0, rotE c1 c2 co si 1 1, rotE c1 c2 co si 1 2,
   rotE c1 c2 co si 2 0, rotE c1 c2 co si 2 1, rotE c1 c2 co si 2 2⟩

theorem rotM_isRot (c1 c2 : Nat) (co si : Rat) (h1 : c1 < 3) (h2 : c2 < 3) (h12 : c1 ≠ c2) (hcs : co * co + si * si = 1) :
    (rotM c1 c2 co si).IsRot := by
  have hc : c1 = 0 ∨ c1 = 1 ∨ c1 = 2 := by omega
  have hc' : c2 = 0 ∨ c2 = 1 ∨ c2 = 2 := by omega
  rcases hc with rfl | rfl | rfl <;> rcases hc' with rfl | rfl | rfl <;>
    first
    | exact absurd rfl h12
    | (unfold M3.IsRot M3.IsOrth M3.det rotM rotE
       simp only [if_true, if_false, OfNat.ofNat_ne_zero, OfNat.zero_ne_ofNat,
         OfNat.ofNat_ne_one, OfNat.one_ne_ofNat, one_ne_zero, zero_ne_one]
       refine ⟨⟨?_, ?_, ?_, ?_, ?_, ?_⟩, ?_⟩ <;> linarith)

/-- `rotVec` on a 3-component cell value is multiplication by `rotM` -/
theorem ofList_rotVec (v : List Rat) (hv : v.length = 3) (c1 c2 : Nat) (k : Int) (h1 : c1 < 3) (h2 : c2 < 3) (h12 : c1 ≠ c2) :
    V3.ofList (rotVec v c1 c2 k) = (rotM c1 c2 (cosq k) (sinq k)).mulVec (V3.ofList v) := by
  unfold V3.ofList rotVec M3.mulVec rotM rotE
  rw [hv, getD_tab _ _ _ _ (by omega), getD_tab _ _ _ _ (by omega), getD_tab _ _ _ _ (by omega)]
  have hc : c1 = 0 ∨ c1 = 1 ∨ c1 = 2 := by omega
  have hc' : c2 = 0 ∨ c2 = 1 ∨ c2 = 2 := by omega
  rcases hc with rfl | rfl | rfl <;> rcases hc' with rfl | rfl | rfl <;>
    first
    | exact absurd rfl h12
    | (simp only [if_true, if_false, OfNat.ofNat_ne_zero, OfNat.zero_ne_ofNat,
         OfNat.ofNat_ne_one, OfNat.one_ne_ofNat, one_ne_zero, zero_ne_one]
       congr 1 <;> ring)

/-! ## what `T.rotate90F` returns -/

/-- the mesh of the rotated field is the rotated mesh (copying form of the mesh step) -/
theorem rotate90F_mesh (f recv g : Fld) (a1 a2 : String) (k : Int) (ref : Option (List Rat)) (b : Bool)
    (h : rotate90F f a1 a2 k ref b = .ok (recv, g)) :
    (∃ x, stepM f.mesh (.rotate90 a1 a2 k ref false) = .ok (x, g.mesh)) ∧ g.nvdim = f.nvdim ∧
    ∃ i1 i2, f.mesh.region.dim2index a1 = .ok i1 ∧ f.mesh.region.dim2index a2 = .ok i2 ∧
      g.data.shape = (rot90 f.data i1 i2 k).shape := by
  unfold rotate90F at h
  split at h
  · cases h
  · cases h
  · cases h
  · rename_i x m' i1 i2 hs hi1 hi2
    split at h
    · split at h
      · injection h with h; injection h with _ hg; subst hg
        exact ⟨⟨_, hs⟩, rfl, i1, i2, hi1, hi2, rfl⟩
      · cases h
    · injection h with h; injection h with _ hg; subst hg
      exact ⟨⟨_, hs⟩, rfl, i1, i2, hi1, hi2, rfl⟩

theorem mkMesh_bc (r : Region) (n : List Nat) (bc : String) (subs : List (String × Region)) (m : Mesh)
    (h : mkMesh? r n bc subs = .ok m) : m.bc = bc.toLower := by
  unfold mkMesh? at h
  split at h
  · cases h
  · rename_i m0 h0
    have hb : m0.bc = bc.toLower := by
      unfold Mesh.mkN? at h0
      split at h0
      · cases h0
      · split at h0
        · cases h0
        · split at h0
          · cases h0
          · injection h0 with h0; subst h0; rfl
    unfold setSubs at h
    split at h
    · injection h with h; subst h; exact hb
    · cases h

/-- boundary conditions of the rotated mesh (copying form) -/
theorem stepM_rot_bc (m recv ret : Mesh) (a1 a2 : String) (k : Int) (ref : Option (List Rat))
    (h : stepM m (.rotate90 a1 a2 k ref false) = .ok (recv, ret)) : ret.bc = (rotBc m.bc a1 a2 k).toLower := by
  rw [stepM_eq_stepMU] at h
  unfold stepMU at h
  split at h
  · cases h
  · cases h
  · simp only [Op.inplace, Bool.false_eq_true, if_false] at h
    split at h
    · cases h
    · rename_i m' hm'
      injection h with h; injection h with _ hb; subst hb
      exact mkMesh_bc _ _ _ _ _ hm'

/-- the count list of a 2-d mesh -/
theorem n_eq2 (m : Mesh) (hm : m.Inv) (h2 : m.ndim = 2) : m.n = [m.nAt 0, m.nAt 1] := by
  have hl : m.n.length = 2 := by rw [hm.2.1]; exact h2
  unfold Mesh.nAt
  match hn : m.n, hl with
  | [a, b], _ => simp

theorem indexOf_lt (xs : List String) (x : String) (k : Nat) (h : indexOf? xs x = some k) : k < xs.length :=
  dim2index_lt ⟨[], [], xs, [], 0⟩ x k (by simp [Region.dim2index, h])

theorem vdimIndex_lt (f : Fld) (l : String) (c : Nat) (hvd : ∀ vs, f.vdims = some vs → vs.length = 3)
    (h : f.vdimIndex l = some c) : c < 3 := by
  unfold Fld.vdimIndex at h
  split at h
  · cases h
  · rename_i vs hvs
    have := indexOf_lt vs l c h
    rw [hvd vs hvs] at this
    exact this

/-- geometry of the mesh `Field.rotate90(k ≡ 1 mod 4)` returns for a 2-d mesh turned in the plane of
its two axes: counts and cell edges swapped -/
theorem rot_mesh_k1 (m recv ret : Mesh) (hm : m.Inv) (h2 : m.ndim = 2) (a1 a2 : String) (k : Int)
    (ref : Option (List Rat)) (hi1 : m.region.dim2index a1 = .ok 0) (hi2 : m.region.dim2index a2 = .ok 1)
    (hk : k % 4 = 1) (h : stepM m (.rotate90 a1 a2 k ref false) = .ok (recv, ret)) :
    ret.Inv ∧ ret.ndim = 2 ∧ ret.nAt 0 = m.nAt 1 ∧ ret.nAt 1 = m.nAt 0 ∧
    ret.cellAt 0 = m.cellAt 1 ∧ ret.cellAt 1 = m.cellAt 0 := by
  obtain ⟨_, hri, hn, x', hreg⟩ := stepM_keeps m hm _ recv ret h
  simp only [opN, hi1, hi2] at hn
  simp only [stepR] at hreg
  obtain ⟨_, _, j1, j2, e1, e2, _, _, _, _, hret, _⟩ := rotate90R_inv _ _ _ _ _ _ _ _ hreg
  rw [hi1] at e1; rw [hi2] at e2
  injection e1 with e1; injection e2 with e2
  subst e1; subst e2
  have hodd : isOdd k = true := by unfold isOdd; simp; omega
  have hnn : ret.n = [m.nAt 1, m.nAt 0] := by
    rw [hn, n_eq2 m hm h2]
    unfold rotN
    rw [if_pos hodd]
    simp [swapAt, setAt, Mesh.nAt]
  have hnd : ret.ndim = 2 := by
    unfold Mesh.ndim; rw [hret, target_ndim]; exact h2
  have n0 : ret.nAt 0 = m.nAt 1 := by unfold Mesh.nAt; rw [hnn]; rfl
  have n1 : ret.nAt 1 = m.nAt 0 := by unfold Mesh.nAt; rw [hnn]; rfl
  have hr2 : m.region.ndim = 2 := h2
  have hcos : cosq k = 0 := by unfold cosq; simp [hk]
  have hsin : sinq k = 1 := by unfold sinq; simp [hk]
  have l0 := hm.1.2.2.2.2.2 0 (by rw [← Region.ndim, hr2]; omega)
  have l1 := hm.1.2.2.2.2.2 1 (by rw [← Region.ndim, hr2]; omega)
  refine ⟨hri, hnd, n0, n1, ?_, ?_⟩
  · unfold Mesh.cellAt Region.edge
    rw [n0, hret, target_hi _ _ _ _ 0 (by omega), target_lo _ _ _ _ 0 (by omega)]
    unfold rotCoord
    simp only [if_true, hcos, hsin]
    show (max _ _ - min _ _) / _ = (m.region.hi 1 - m.region.lo 1) / _
    congr 1
    change max ((ref.getD m.region.center).getD 0 0 + (0 * (m.region.lo 0 - (ref.getD m.region.center).getD 0 0) - 1 * (m.region.lo 1 - (ref.getD m.region.center).getD 1 0)))
        ((ref.getD m.region.center).getD 0 0 + (0 * (m.region.hi 0 - (ref.getD m.region.center).getD 0 0) - 1 * (m.region.hi 1 - (ref.getD m.region.center).getD 1 0)))
      - min ((ref.getD m.region.center).getD 0 0 + (0 * (m.region.lo 0 - (ref.getD m.region.center).getD 0 0) - 1 * (m.region.lo 1 - (ref.getD m.region.center).getD 1 0)))
        ((ref.getD m.region.center).getD 0 0 + (0 * (m.region.hi 0 - (ref.getD m.region.center).getD 0 0) - 1 * (m.region.hi 1 - (ref.getD m.region.center).getD 1 0)))
      = m.region.hi 1 - m.region.lo 1
    rw [max_eq_left (by linarith), min_eq_right (by linarith)]
    ring
  · unfold Mesh.cellAt Region.edge
    rw [n1, hret, target_hi _ _ _ _ 1 (by omega), target_lo _ _ _ _ 1 (by omega)]
    unfold rotCoord
    simp only [if_true, hcos, hsin]
    show (max _ _ - min _ _) / _ = (m.region.hi 0 - m.region.lo 0) / _
    congr 1
    change max ((ref.getD m.region.center).getD 1 0 + (1 * (m.region.lo 0 - (ref.getD m.region.center).getD 0 0) + 0 * (m.region.lo 1 - (ref.getD m.region.center).getD 1 0)))
        ((ref.getD m.region.center).getD 1 0 + (1 * (m.region.hi 0 - (ref.getD m.region.center).getD 0 0) + 0 * (m.region.hi 1 - (ref.getD m.region.center).getD 1 0)))
      - min ((ref.getD m.region.center).getD 1 0 + (1 * (m.region.lo 0 - (ref.getD m.region.center).getD 0 0) + 0 * (m.region.lo 1 - (ref.getD m.region.center).getD 1 0)))
        ((ref.getD m.region.center).getD 1 0 + (1 * (m.region.hi 0 - (ref.getD m.region.center).getD 0 0) + 0 * (m.region.hi 1 - (ref.getD m.region.center).getD 1 0)))
      = m.region.hi 0 - m.region.lo 0
    rw [max_eq_right (by linarith), min_eq_left (by linarith)]
    ring

theorem periodic_of_bc_empty (f : Fld) (ax : Nat) (h : f.mesh.bc = "") : periodic f ax = false := by
  unfold periodic; rw [h]; rfl

/-- `Field.rotate90` with `k ≡ 1 (mod 4)` in the plane of the two axes of a 2-d field (open
boundaries) returns a quarter-turned field in the sense of `QTurn`, with a proper rotation `Q` -/
theorem rotate90F_turn (f recv g : Fld) (a1 a2 : String) (k : Int) (ref : Option (List Rat)) (b : Bool)
    (hf : FldInv f) (h2 : f.mesh.ndim = 2) (h3 : f.nvdim = 3) (hlen : ∀ i, (f.data.get i).length = 3)
    (hbc : f.mesh.bc = "")
    (hi1 : f.mesh.region.dim2index a1 = .ok 0) (hi2 : f.mesh.region.dim2index a2 = .ok 1) (hk : k % 4 = 1)
    (hvd : ∀ vs, f.vdims = some vs → vs.length = 3)
    (hc : (f.rDim a1).bind f.vdimIndex ≠ (f.rDim a2).bind f.vdimIndex)
    (h : rotate90F f a1 a2 k ref b = .ok (recv, g)) :
    ∃ Q : M3, Q.IsRot ∧ QTurn Q f g ∧ g.nvdim = 3 ∧ g.mesh.ndim = 2 ∧
      g.data.shape = [g.mesh.nAt 0, g.mesh.nAt 1] := by
  obtain ⟨⟨x, hs⟩, hnv, j1, j2, e1, e2, hshape⟩ := rotate90F_mesh f recv g a1 a2 k ref b h
  rw [hi1] at e1; rw [hi2] at e2
  injection e1 with e1; injection e2 with e2
  subst e1; subst e2
  obtain ⟨hgi, hgd, n0, n1, c0, c1⟩ := rot_mesh_k1 f.mesh x g.mesh hf.1 h2 a1 a2 k ref hi1 hi2 hk hs
  have hfn := n_eq2 f.mesh hf.1 h2
  -- the components the two axes are mapped to
  obtain ⟨_, _, _, _, _, _, hv0⟩ := DFV.C12.rotate90F_value f g recv a1 a2 k ref b h []
  obtain ⟨c1', c2', hc1, hc2, _⟩ := hv0 (by omega)
  have hc12 : c1' ≠ c2' := by
    intro e; apply hc; rw [hc1, hc2, e]
  have hl1 : c1' < 3 := by
    cases hr : f.rDim a1 with
    | none => rw [hr] at hc1; cases hc1
    | some l => rw [hr] at hc1; exact vdimIndex_lt f l c1' hvd hc1
  have hl2 : c2' < 3 := by
    cases hr : f.rDim a2 with
    | none => rw [hr] at hc2; cases hc2
    | some l => rw [hr] at hc2; exact vdimIndex_lt f l c2' hvd hc2
  have hcs : cosq k * cosq k + sinq k * sinq k = 1 := by
    unfold cosq sinq; simp [hk]
  have hsrc : ∀ i j, srcIdx [f.mesh.nAt 0, f.mesh.nAt 1] 0 1 k [i, j] = [j, f.mesh.nAt 1 - 1 - i] := by
    intro i j
    unfold srcIdx
    have h0 : ¬ (k % 4 = 0) := by omega
    have h2' : ¬ (k % 4 = 2) := by omega
    rw [if_neg h0, if_neg h2', if_pos hk]
    simp [swapAt, setAt]
  refine ⟨rotM c1' c2' (cosq k) (sinq k), rotM_isRot c1' c2' _ _ hl1 hl2 hc12 hcs, ?_, by rw [hnv, h3], hgd, ?_⟩
  · refine ⟨n0, n1, c0, c1, ?_, ?_, ?_, ?_⟩
    · have bcg := stepM_rot_bc _ _ _ _ _ _ _ hs
      rw [hbc] at bcg
      have : rotBc "" a1 a2 k = "" := by unfold rotBc; simp
      rw [this, cmToLowerEmpty] at bcg
      rw [periodic_of_bc_empty g 0 bcg]
      exact (periodic_of_bc_empty (rotF _ f) 1 hbc).symm
    · have bcg := stepM_rot_bc _ _ _ _ _ _ _ hs
      rw [hbc] at bcg
      have : rotBc "" a1 a2 k = "" := by unfold rotBc; simp
      rw [this, cmToLowerEmpty] at bcg
      rw [periodic_of_bc_empty g 1 bcg]
      exact (periodic_of_bc_empty (rotF _ f) 0 hbc).symm
    · intro i j _ _
      obtain ⟨i1, i2, d1, d2, _, _, hv⟩ := DFV.C12.rotate90F_value f g recv a1 a2 k ref b h [i, j]
      rw [hi1] at d1; rw [hi2] at d2
      injection d1 with d1; injection d2 with d2
      subst d1; subst d2
      obtain ⟨a, b', ha, hb, hd⟩ := hv (by omega)
      rw [hc1] at ha; rw [hc2] at hb
      injection ha with ha; injection hb with hb
      subst ha; subst hb
      rw [cellV_rotF]
      unfold cellV
      rw [hd, hf.2.1, hfn, hsrc, ofList_rotVec _ (hlen _) _ _ k hl1 hl2 hc12]
      rfl
    · intro i j _ _
      obtain ⟨i1, i2, d1, d2, hval, _, _⟩ := DFV.C12.rotate90F_value f g recv a1 a2 k ref b h [i, j]
      rw [hi1] at d1; rw [hi2] at d2
      injection d1 with d1; injection d2 with d2
      subst d1; subst d2
      rw [hval, hf.2.2, hfn, hsrc]
      rfl
  · rw [hshape, n0, n1]
    unfold rot90
    have h0 : ¬ (k % 4 = 0) := by omega
    have h2' : ¬ (k % 4 = 2) := by omega
    rw [if_neg h0, if_neg h2', if_pos hk]
    show swapAt f.data.shape 0 1 = _
    rw [hf.2.1, hfn]
    simp [swapAt, setAt, Mesh.nAt]

end DFV.C19
