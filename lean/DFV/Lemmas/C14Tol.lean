import DFV.Lemmas.C14H5
/-! C14 (round 3): the tolerant tests of the subregion setter / `Mesh(region, cell)` /
`Mesh.is_aligned` in exact rational arithmetic: each remainder test as an iff on the distance to the
nearest whole number of cells, how the tests behave under a change of length scale (the inside and
divisibility tests are relative, the alignment test is ABSOLUTE — finding D18 as an iff), and what
of the candidate region the setter's outcome depends on. -/
namespace DFV.C14
open DFV DFV.T DFV.Mesh

/-! ## the remainder test -/

/-- the test shared by the divisibility check of `Mesh(region, cell)` and by `is_aligned`:
`tol < rem < c − tol` (true = rejected) -/
def remTest (x c t : Rat) : Bool := decide (t < remainder x c) && decide (remainder x c < c - t)

theorem notDivisible_eq (e c t : Rat) : notDivisible e c t = remTest e c t := rfl
theorem misalignedAx_eq (d c t : Rat) : misalignedAx d c t = remTest (absR d) c t := rfl

/-- **the remainder test passes iff the number is within `t` of a whole multiple of `c`** -/
theorem remTest_false_iff (x c t : Rat) (hc : 0 < c) : remTest x c t = false ↔ ∃ z : Int, |x - (z : Rat) * c| ≤ t := by
  have h0 := remainder_nonneg x c hc
  have h1 := remainder_lt x c hc
  have heq := remainder_eq x c
  unfold remTest
  constructor
  · intro h
    by_cases ha : t < remainder x c
    · have hb : ¬ (remainder x c < c - t) := by intro hb; simp [ha, hb] at h
      refine ⟨(x / c).floor + 1, ?_⟩
      rw [abs_le]; push_cast
      constructor <;> linarith
    · refine ⟨(x / c).floor, ?_⟩
      rw [abs_le]
      constructor <;> linarith
  · rintro ⟨z, hz⟩
    by_contra hne
    have hne' : (decide (t < remainder x c) && decide (remainder x c < c - t)) = true := by
      cases hb : (decide (t < remainder x c) && decide (remainder x c < c - t)) with
      | true => rfl
      | false => exact absurd hb hne
    simp only [Bool.and_eq_true, decide_eq_true_eq] at hne'
    obtain ⟨ha, hb⟩ := hne'
    rw [abs_le] at hz
    have hd : (x / c).floor - z ≥ 0 ∨ (x / c).floor - z ≤ -1 := by omega
    have e : x - (z : Rat) * c = (((x / c).floor - z : Int) : Rat) * c + remainder x c := by push_cast; linarith
    rcases hd with hd | hd
    · have : (0 : Rat) ≤ (((x / c).floor - z : Int) : Rat) := by exact_mod_cast hd
      have := mul_nonneg this hc.le
      linarith
    · have : (((x / c).floor - z : Int) : Rat) ≤ -1 := by exact_mod_cast hd
      have : (((x / c).floor - z : Int) : Rat) * c ≤ -1 * c := mul_le_mul_of_nonneg_right this hc.le
      linarith

theorem remTest_true_iff (x c t : Rat) (hc : 0 < c) : remTest x c t = true ↔ ∀ z : Int, t < |x - (z : Rat) * c| := by
  constructor
  · intro h z
    by_contra hn
    have := (remTest_false_iff x c t hc).mpr ⟨z, not_lt.mp hn⟩
    rw [h] at this; cases this
  · intro h
    cases hb : remTest x c t with
    | true => rfl
    | false =>
      obtain ⟨z, hz⟩ := (remTest_false_iff x c t hc).mp hb
      exact absurd (h z) (not_lt.mpr hz)

theorem abs_multiple_iff (d c t : Rat) : (∃ z : Int, |absR d - (z : Rat) * c| ≤ t) ↔ ∃ z : Int, |d - (z : Rat) * c| ≤ t := by
  rw [absR_eq_abs]
  by_cases hd : 0 ≤ d
  · rw [abs_of_nonneg hd]
  · rw [abs_of_neg (not_le.mp hd)]
    constructor
    · rintro ⟨z, hz⟩
      refine ⟨-z, ?_⟩
      have : d - ((-z : Int) : Rat) * c = -(-d - (z : Rat) * c) := by push_cast; ring
      rw [this, abs_neg]; exact hz
    · rintro ⟨z, hz⟩
      refine ⟨-z, ?_⟩
      have : -d - ((-z : Int) : Rat) * c = -(d - (z : Rat) * c) := by push_cast; ring
      rw [this, abs_neg]; exact hz

/-- **`is_aligned`, one corner offset: accepted iff the offset is within `t` of a whole number of
cells** — both directions, every tolerance `t`, every cell size `c > 0` -/
theorem misalignedAx_false_iff (d c t : Rat) (hc : 0 < c) :
    misalignedAx d c t = false ↔ ∃ z : Int, |d - (z : Rat) * c| ≤ t := by
  rw [misalignedAx_eq, remTest_false_iff _ _ _ hc, abs_multiple_iff]

/-- **the divisibility test of `Mesh(region, cell)`, one axis: accepted iff the edge is within `t`
(= min(cell)/1000) of a whole number of cells** -/
theorem notDivisible_false_iff (e c t : Rat) (hc : 0 < c) :
    notDivisible e c t = false ↔ ∃ z : Int, |e - (z : Rat) * c| ≤ t := by
  rw [notDivisible_eq, remTest_false_iff _ _ _ hc]

/-- the distance of `z·c + ε` (`|ε| ≤ c/2`) to the nearest whole multiple of `c` is `|ε|` -/
theorem near_multiple_iff (z : Int) (c ε t : Rat) (hc : 0 < c) (hε : |ε| ≤ c / 2) :
    (∃ w : Int, |((z : Rat) * c + ε) - (w : Rat) * c| ≤ t) ↔ |ε| ≤ t := by
  constructor
  · rintro ⟨w, hw⟩
    have hcases : z - w = 0 ∨ z - w ≥ 1 ∨ z - w ≤ -1 := by omega
    have e : ((z : Rat) * c + ε) - (w : Rat) * c = ((z - w : Int) : Rat) * c + ε := by push_cast; ring
    rw [e] at hw
    rw [abs_le] at hε hw
    rcases hcases with h0 | h1 | h1
    · rw [h0] at hw; simp only [Int.cast_zero, zero_mul, zero_add] at hw
      rw [abs_le]; exact hw
    · have : (1 : Rat) ≤ ((z - w : Int) : Rat) := by exact_mod_cast h1
      have : 1 * c ≤ ((z - w : Int) : Rat) * c := mul_le_mul_of_nonneg_right this hc.le
      rw [abs_le]; constructor <;> linarith
    · have : ((z - w : Int) : Rat) ≤ -1 := by exact_mod_cast h1
      have : ((z - w : Int) : Rat) * c ≤ -1 * c := mul_le_mul_of_nonneg_right this hc.le
      rw [abs_le]; constructor <;> linarith
  · intro h
    refine ⟨z, ?_⟩
    have : (z : Rat) * c + ε - (z : Rat) * c = ε := by ring
    rw [this]; exact h

/-- **D18, first half, as an iff**: a corner that sits on the cell lattice up to an error `ε`
(`|ε| ≤ c/2`; e.g. the rounding error of a far-away coordinate) is REJECTED by the alignment test
iff `|ε|` exceeds the tolerance `t` — the absolute `1e-12` of the code, whatever the cell size and
however small `ε` is relative to the cell or to the coordinates. -/
theorem aligned_perturbed_rejected_iff (z : Int) (c ε t : Rat) (hc : 0 < c) (hε : |ε| ≤ c / 2) :
    misalignedAx ((z : Rat) * c + ε) c t = true ↔ t < |ε| := by
  rw [← not_iff_not, Bool.not_eq_true, misalignedAx_false_iff _ _ _ hc, near_multiple_iff z c ε t hc hε, not_lt]

/-- **D18, second half, as an iff**: a corner offset by HALF a cell from the lattice is ACCEPTED iff
the cell is at most twice the tolerance (`c ≤ 2e-12` for the default): at that length scale the test
cannot tell aligned from misaligned. -/
theorem half_cell_accepted_iff (z : Int) (c t : Rat) (hc : 0 < c) :
    misalignedAx (((z : Rat) + 1 / 2) * c) c t = false ↔ c ≤ 2 * t := by
  have e : ((z : Rat) + 1 / 2) * c = (z : Rat) * c + c / 2 := by ring
  have habs : |c / 2| = c / 2 := abs_of_pos (by linarith)
  rw [e, misalignedAx_false_iff _ _ _ hc, near_multiple_iff z c (c / 2) t hc (by rw [habs]), habs]
  constructor <;> intro h <;> linarith

/-! ## change of length scale -/

theorem remainder_scale (s x c : Rat) (hs : 0 < s) : remainder (s * x) (s * c) = s * remainder x c := by
  unfold remainder
  rw [mul_div_mul_left _ _ hs.ne']; ring

theorem absR_scale (s x : Rat) (hs : 0 < s) : absR (s * x) = s * absR x := by
  rw [absR_eq_abs, absR_eq_abs, abs_mul, abs_of_pos hs]

theorem decide_congr' {p q : Prop} [Decidable p] [Decidable q] (h : p ↔ q) : decide p = decide q := by
  by_cases hp : p
  · rw [decide_eq_true hp, decide_eq_true (h.mp hp)]
  · rw [decide_eq_false hp, decide_eq_false (fun hq => hp (h.mpr hq))]

/-- the remainder test at length scale `s` with tolerance `t` is the test at unit scale with
tolerance `t / s` -/
theorem remTest_scale (s x c t : Rat) (hs : 0 < s) : remTest (s * x) (s * c) t = remTest x c (t / s) := by
  unfold remTest
  rw [remainder_scale s x c hs]
  congr 1
  · apply decide_congr'
    rw [div_lt_iff₀ hs]; constructor <;> intro h <;> linarith
  · apply decide_congr'
    rw [lt_sub_iff_add_lt, lt_sub_iff_add_lt]
    have e : t / s * s = t := div_mul_cancel₀ t hs.ne'
    constructor
    · intro h
      have : (remainder x c + t / s) * s < c * s := by rw [add_mul, e]; linarith
      exact lt_of_mul_lt_mul_right this hs.le
    · intro h
      have := mul_lt_mul_of_pos_right h hs
      rw [add_mul, e] at this; linarith

/-- **the alignment test is not scale invariant**: multiplying all lengths by `s` while keeping the
absolute tolerance is the same as dividing the tolerance by `s` at the original scale -/
theorem misalignedAx_scale (s d c t : Rat) (hs : 0 < s) : misalignedAx (s * d) (s * c) t = misalignedAx d c (t / s) := by
  rw [misalignedAx_eq, misalignedAx_eq, absR_scale s d hs, remTest_scale s _ c t hs]

/-- **the divisibility test IS scale invariant** (its tolerance `min(cell)/1000` scales with the mesh) -/
theorem notDivisible_scale (s e c t : Rat) (hs : 0 < s) : notDivisible (s * e) (s * c) (s * t) = notDivisible e c t := by
  rw [notDivisible_eq, notDivisible_eq, remTest_scale s e c (s * t) hs, mul_div_cancel_left₀ _ hs.ne']

/-- the cell-size comparison of `is_aligned` (`np.allclose`, relative 1e-5 plus the absolute tolerance) -/
theorem allcloseAx_scale (s a b t : Rat) (hs : 0 < s) : allcloseAx (s * a) (s * b) t = allcloseAx a b (t / s) := by
  unfold allcloseAx
  apply decide_congr'
  rw [← mul_sub, absR_scale s _ hs, absR_scale s b hs]
  constructor
  · intro h
    have : t / s * s = t := div_mul_cancel₀ t hs.ne'
    have h2 : s * absR (a - b) ≤ (t / s + absR b / 100000) * s := by rw [add_mul, this]; linarith
    rw [mul_comm s] at h2
    exact le_of_mul_le_mul_right h2 hs
  · intro h
    have : t / s * s = t := div_mul_cancel₀ t hs.ne'
    have h2 := mul_le_mul_of_nonneg_left h hs.le
    rw [mul_add] at h2
    have : s * (t / s) = t := by rw [mul_comm]; exact this
    linarith

/-- all lengths of a region multiplied by `s` -/
def scaleReg (s : Rat) (r : Region) : Region := { r with pmin := r.pmin.map (s * ·), pmax := r.pmax.map (s * ·) }

/-- all lengths of a mesh multiplied by `s` (same counts) -/
def scaleMesh (s : Rat) (m : Mesh) : Mesh := { m with region := scaleReg s m.region, subs := m.subs.map fun p => (p.1, scaleReg s p.2) }

theorem getD_map_mul (s : Rat) (l : List Rat) (a : Nat) : (l.map (s * ·)).getD a 0 = s * l.getD a 0 := by
  rw [List.getD_eq_getElem?_getD, List.getD_eq_getElem?_getD, List.getElem?_map]
  cases l[a]? <;> simp

theorem scaleReg_lo (s : Rat) (r : Region) (a : Nat) : (scaleReg s r).lo a = s * r.lo a := getD_map_mul s r.pmin a
theorem scaleReg_hi (s : Rat) (r : Region) (a : Nat) : (scaleReg s r).hi a = s * r.hi a := getD_map_mul s r.pmax a
theorem scaleMesh_cellAt (s : Rat) (m : Mesh) (a : Nat) : (scaleMesh s m).cellAt a = s * m.cellAt a := by
  unfold Mesh.cellAt Region.edge
  show ((scaleReg s m.region).hi a - (scaleReg s m.region).lo a) / (m.nAt a : Rat) = _
  rw [scaleReg_hi, scaleReg_lo]; ring

/-- **`is_aligned` at length scale `s`** (both meshes scaled, default or any absolute tolerance `t`)
**is `is_aligned` at the original scale with tolerance `t / s`**: enlarging a mesh by `10⁶` makes the
test `10⁶` times stricter — exactly aligned boxes whose coordinates carry rounding errors above
`10⁻¹²` are then refused —, shrinking it by `10¹²` makes it accept everything (D18 delimited). -/
theorem isAligned_scale (s : Rat) (hs : 0 < s) (m o : Mesh) (t : Rat) :
    isAligned (scaleMesh s m) (scaleMesh s o) t = isAligned m o (t / s) := by
  unfold isAligned
  have hnd : (scaleMesh s m).ndim = m.ndim := by simp [scaleMesh, scaleReg, Mesh.ndim, Region.ndim]
  rw [hnd]
  congr 1
  · congr 1
    · apply allLt_congr; intro a _
      rw [scaleMesh_cellAt, scaleMesh_cellAt, allcloseAx_scale s _ _ t hs]
    · apply allLt_congr; intro a _
      show (!misalignedAx ((scaleReg s m.region).lo a - (scaleReg s o.region).lo a) ((scaleMesh s m).cellAt a) t) = _
      rw [scaleReg_lo, scaleReg_lo, scaleMesh_cellAt, ← mul_sub, misalignedAx_scale s _ _ t hs]
  · apply allLt_congr; intro a _
    show (!misalignedAx ((scaleReg s m.region).hi a - (scaleReg s o.region).hi a) ((scaleMesh s m).cellAt a) t) = _
    rw [scaleReg_hi, scaleReg_hi, scaleMesh_cellAt, ← mul_sub, misalignedAx_scale s _ _ t hs]

/-! ## the inside test `subregion in region` -/

/-- comparison tolerance of `Region.__contains__` at coordinate `x` -/
def band (r : Region) (x : Rat) : Rat := r.atol + r.tol * |x|

theorem containsAx_iff' (r : Region) (a : Nat) (x : Rat) (hb : 0 ≤ band r x) :
    r.containsAx a x = true ↔ r.lo a - band r x ≤ x ∧ x ≤ r.hi a + band r x := by
  unfold Region.containsAx Region.isclose
  rw [absR_eq_abs, absR_eq_abs, absR_eq_abs]
  unfold band at *
  simp only [Bool.and_eq_true, Bool.or_eq_true, decide_eq_true_eq]
  constructor
  · rintro ⟨h1, h2⟩
    constructor
    · rcases h1 with h | h
      · linarith
      · have := le_trans (le_abs_self _) h; linarith
    · rcases h2 with h | h
      · linarith
      · have := neg_abs_le (r.hi a - x); linarith
  · rintro ⟨h1, h2⟩
    constructor
    · by_cases h : r.lo a ≤ x
      · exact Or.inl h
      · right
        rw [abs_of_pos (by linarith [not_le.mp h])]; linarith
    · by_cases h : x ≤ r.hi a
      · exact Or.inl h
      · right
        rw [abs_of_neg (by linarith [not_le.mp h])]; linarith

theorem foldl_min_pos'' (xs : List Rat) (x : Rat) (hx : 0 ≤ x) (h : ∀ y ∈ xs, 0 ≤ y) : 0 ≤ xs.foldl min x := by
  induction xs generalizing x with
  | nil => simpa
  | cons y ys ih =>
    simp only [List.foldl_cons]
    exact ih (min x y) (le_min hx (h y (by simp))) fun z hz => h z (by simp [hz])

theorem atol_nonneg' (r : Region) (hr : r.Inv) (ht : 0 ≤ r.tol) : 0 ≤ r.atol := by
  unfold Region.atol
  apply mul_nonneg _ ht
  have hall : ∀ y ∈ r.edges, 0 ≤ y := by
    intro y hy
    unfold Region.edges tab at hy
    rw [List.mem_map] at hy
    obtain ⟨a, ha, e⟩ := hy
    rw [← e]
    have := hr.2.2.2.2.2 a (List.mem_range.mp ha)
    unfold Region.edge; linarith
  cases he : r.edges with
  | nil => simp [listMin]
  | cons x xs =>
    rw [he] at hall
    exact foldl_min_pos'' xs x (hall x (by simp)) fun y hy => hall y (by simp [hy])

theorem band_nonneg' (r : Region) (hr : r.Inv) (ht : 0 ≤ r.tol) (x : Rat) : 0 ≤ band r x := by
  unfold band
  have := atol_nonneg' r hr ht
  have := mul_nonneg ht (abs_nonneg x)
  linarith

/-- **`subregion in region` is the inequality with the REGION's comparison tolerance** on both corners
of the candidate: `pmin − (atol + rtol·|x|) ≤ x ≤ pmax + (atol + rtol·|x|)` for `x` each coordinate of
the candidate's `pmin` and `pmax`, with `rtol = tolerance_factor` and `atol = min(edges)·tolerance_factor`
of the region the candidate is tested against (the region version of C01's `contains_iff_tolerance`).
Both tolerances scale with the region: the test is relative. -/
theorem containsReg_iff_tolerance (r : Region) (hr : r.Inv) (ht : 0 ≤ r.tol) (s : Region) :
    r.containsReg s = true ↔
      s.pmin.length = r.ndim ∧ s.pmax.length = r.ndim ∧ ∀ a, a < r.ndim →
        (r.lo a - band r (s.lo a) ≤ s.lo a ∧ s.lo a ≤ r.hi a + band r (s.lo a)) ∧
        (r.lo a - band r (s.hi a) ≤ s.hi a ∧ s.hi a ≤ r.hi a + band r (s.hi a)) := by
  unfold Region.containsReg Region.containsPt
  simp only [Bool.and_eq_true, decide_eq_true_eq, allLt_iff]
  constructor
  · rintro ⟨⟨h1, h2⟩, ⟨h3, h4⟩⟩
    refine ⟨h1, h3, fun a ha => ⟨?_, ?_⟩⟩
    · exact (containsAx_iff' r a _ (band_nonneg' r hr ht _)).mp (h2 a ha)
    · exact (containsAx_iff' r a _ (band_nonneg' r hr ht _)).mp (h4 a ha)
  · rintro ⟨h1, h3, h⟩
    refine ⟨⟨h1, fun a ha => ?_⟩, ⟨h3, fun a ha => ?_⟩⟩
    · exact (containsAx_iff' r a _ (band_nonneg' r hr ht _)).mpr (h a ha).1
    · exact (containsAx_iff' r a _ (band_nonneg' r hr ht _)).mpr (h a ha).2

/-! ## what the setter's outcome depends on -/

/-- the conditions of `Mesh(region = s, cell = cell)` as one Boolean -/
def mkCellOk (s : Region) (cell : List Rat) : Bool :=
  decide (cell.length = s.ndim) && !cell.any (fun c => decide (c ≤ 0)) &&
  s.containsPt (tab s.ndim fun a => s.lo a + cell.getD a 0) &&
  allLt s.ndim (fun a => !notDivisible (s.edge a) (cell.getD a 0) (listMin cell / 1000)) &&
  allLt s.ndim (fun a => decide (1 ≤ (roundHalfEven (s.edge a / cell.getD a 0)).toNat))

theorem bcOk_empty (dims : List String) : bcOk dims ("" : String).toLower = true := by
  have : ("" : String).toLower = "" := by simp [String.toLower]
  rw [this]; simp [bcOk]

/-- `Mesh(region = s, cell = cell)` with the default `bc`: accepted iff `mkCellOk`, and then the
counts are the rounded quotients -/
theorem mkCell?_eq (s : Region) (cell : List Rat) :
    Mesh.mkCell? s cell = if mkCellOk s cell then
      .ok { region := s, n := tab s.ndim fun a => (roundHalfEven (s.edge a / cell.getD a 0)).toNat, bc := "", subs := [] }
      else .error .value := by
  unfold Mesh.mkCell? mkCellOk
  have hl : ("" : String).toLower = "" := by simp [String.toLower]
  by_cases h1 : cell.length = s.ndim
  · rw [if_neg (not_not.mpr h1)]
    cases h2 : cell.any (fun c => decide (c ≤ 0))
    · cases h3 : s.containsPt (tab s.ndim fun a => s.lo a + cell.getD a 0)
      · simp [h1]
      · cases h4 : allLt s.ndim (fun a => !notDivisible (s.edge a) (cell.getD a 0) (listMin cell / 1000))
        · simp [h1]
        · cases h5 : allLt s.ndim (fun a => decide (1 ≤ (roundHalfEven (s.edge a / cell.getD a 0)).toNat))
          · simp [h1]
          · simp [h1, hl, bcOk]
    · simp [h1]
  · rw [if_pos h1]; simp [h1]

/-- one candidate of the setter, with the constructor call spelled out -/
theorem subOk_eq (m : Mesh) (s : Region) :
    subOk m s = (m.region.containsReg s && (mkCellOk s m.cell &&
      isAligned m { region := s, n := tab s.ndim fun a => (roundHalfEven (s.edge a / m.cell.getD a 0)).toNat, bc := "", subs := [] })) := by
  unfold subOk
  rw [mkCell?_eq]
  cases mkCellOk s m.cell <;> simp

/-- `is_aligned` looks at the corners and counts of the other mesh only -/
theorem isAligned_congr_right (m o o' : Mesh) (t : Rat) (h1 : o'.region.pmin = o.region.pmin) (h2 : o'.region.pmax = o.region.pmax)
    (hn : o'.n = o.n) : isAligned m o' t = isAligned m o t := by
  unfold isAligned Mesh.cellAt Mesh.nAt Region.edge Region.lo Region.hi
  rw [h1, h2, hn]

/-- **the setter's verdict on a candidate depends on its two corners and its own tolerance factor
only — never on its dimension names or units** -/
theorem subOk_indep_names (m : Mesh) (s : Region) (d u : List String) :
    subOk m { s with dims := d, units := u } = subOk m s := by
  rw [subOk_eq, subOk_eq]
  rfl

/-- the candidate's own tolerance factor enters through one test only — "the cell must not exceed the
region", `Mesh(region = candidate, cell = mesh.cell)` — which passes for EVERY tolerance factor as soon
as the candidate is at least one cell long on every axis; so for such candidates (all exactly fitting
ones, and all that the divisibility test would let through with `n ≥ 1` except boxes shorter than a
cell by less than 0.1 %) **the verdict does not depend on the candidate's tolerance factor** -/
theorem subOk_indep_tol (m : Mesh) (s : Region) (t' : Rat)
    (hpos : ∀ a, a < s.ndim → 0 ≤ m.cell.getD a 0)
    (hfit : ∀ a, a < s.ndim → s.lo a + m.cell.getD a 0 ≤ s.hi a) :
    subOk m { s with tol := t' } = subOk m s := by
  rw [subOk_eq, subOk_eq]
  have key : ∀ r : Region, r.pmin = s.pmin → r.pmax = s.pmax →
      r.containsPt (tab r.ndim fun a => r.lo a + m.cell.getD a 0) = true := by
    intro r e1 e2
    unfold Region.containsPt
    simp only [tab_length, decide_true, Bool.true_and]
    rw [allLt_iff]; intro a ha
    rw [getD_tab _ _ _ _ ha]
    have hnd : r.ndim = s.ndim := by unfold Region.ndim; rw [e1]
    have hlo : r.lo a = s.lo a := by unfold Region.lo; rw [e1]
    have hhi : r.hi a = s.hi a := by unfold Region.hi; rw [e2]
    rw [hnd] at ha
    apply containsAx_of_exact'
    · have := hpos a ha; linarith
    · rw [hlo, hhi]; exact hfit a ha
  have k1 := key s rfl rfl
  have k2 := key { s with tol := t' } rfl rfl
  unfold mkCellOk
  rw [k1, k2]
  rfl

/-! ## the setter's check `candOk` (repo fix 5591fed0): independent of the candidate's metadata -/

/-- **the setter's verdict on a candidate depends on its two corners only** — not on its dimension
names, units or its own tolerance factor: the tests are made on the copy re-created with the mesh
region's metadata (a candidate of another dimension is refused whatever it carries) -/
theorem candOk_indep (m : Mesh) (s : Region) (d u : List String) (t : Rat) :
    candOk m { s with dims := d, units := u, tol := t } = candOk m s := by
  unfold candOk
  by_cases h : s.ndim = m.ndim
  · have h' : ({ s with dims := d, units := u, tol := t } : Region).ndim = m.ndim := h
    rw [if_pos h, if_pos h']
    rfl
  · have h' : ¬ ({ s with dims := d, units := u, tol := t } : Region).ndim = m.ndim := h
    rw [if_neg h, if_neg h']
    have hf : ∀ c : Region, c.pmin.length ≠ m.region.ndim → subOk m c = false := by
      intro c hc
      unfold subOk Region.containsReg Region.containsPt
      have : decide (c.pmin.length = m.region.ndim) = false := decide_eq_false hc
      rw [this]; rfl
    rw [hf s h]; exact hf _ h

/-- what the setter stores for an accepted candidate passes the three tests as it is stored -/
theorem candOk_stored_ok (m : Mesh) (s : Region) (h : candOk m s = true) : subOk m (stampFor m.region s) = true := by
  rw [← candOk_eq m s (candOk_ndim m s h)]; exact h

/-! ## exact fits at every length scale -/

theorem scaleReg_inv (σ : Rat) (hσ : 0 < σ) (r : Region) (hr : r.Inv) : (scaleReg σ r).Inv := by
  obtain ⟨h1, h2, h3, h4, h5, h6⟩ := hr
  refine ⟨by simpa [scaleReg] using h1, by simp [scaleReg, h2], by simp [scaleReg, h3], by simp [scaleReg, h4], h5, ?_⟩
  intro a ha
  have ha' : a < r.pmin.length := by simpa [scaleReg] using ha
  rw [scaleReg_lo, scaleReg_hi]
  exact mul_lt_mul_of_pos_left (h6 a ha') hσ

theorem scaleMesh_inv (σ : Rat) (hσ : 0 < σ) (m : Mesh) (hm : m.Inv) : (scaleMesh σ m).Inv := by
  obtain ⟨h1, h2, h3⟩ := hm
  have hnd : (scaleMesh σ m).ndim = m.ndim := by simp [scaleMesh, scaleReg, Mesh.ndim, Region.ndim]
  refine ⟨scaleReg_inv σ hσ _ h1, ?_, ?_⟩
  · show m.n.length = (scaleReg σ m.region).ndim
    rw [h2]; simp [scaleReg, Region.ndim]
  · intro a ha; rw [hnd] at ha; exact h3 a ha

/-- an exact fit stays an exact fit when mesh and box are scaled together -/
theorem fitsE_scale (σ : Rat) (m : Mesh) (s : Region) (h : FitsE m s) : FitsE (scaleMesh σ m) (scaleReg σ s) := by
  obtain ⟨h1, h2, h3⟩ := h
  have hnd : (scaleMesh σ m).ndim = m.ndim := by simp [scaleMesh, scaleReg, Mesh.ndim, Region.ndim]
  refine ⟨by rw [hnd]; simpa [scaleReg] using h1, by rw [hnd]; simpa [scaleReg] using h2, ?_⟩
  intro a ha
  rw [hnd] at ha
  obtain ⟨z, w, hz0, hw0, hzw, hz, hw⟩ := h3 a ha
  refine ⟨z, w, hz0, hw0, hzw, ?_, ?_⟩
  · show (scaleReg σ s).lo a - (scaleReg σ m.region).lo a = _
    rw [scaleReg_lo, scaleReg_lo, scaleMesh_cellAt, ← mul_sub, hz]; ring
  · rw [scaleReg_lo, scaleReg_hi, scaleMesh_cellAt, ← mul_sub, hw]; ring

end DFV.C14
