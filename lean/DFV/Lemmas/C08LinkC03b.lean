import DFV.Lemmas.C08LinkC03
/-! C08 helper lemmas, part 17: whole C03 expressions.  `progOf` translates an expression of the
C03 model (operators, reflected operators, ufuncs, `dot`, `cross`, `angle`, `<<`) into the validity
program of the C08 model; the validity array of the VALUE of the expression (computed by
`C03.evalF`, i.e. by the operator paths of `field.py`) is the mask `C08.eval` computes. -/
namespace DFV.C08
open DFV

/-- same shape, same entries inside the shape -/
def MaskEq (a b : NDA Bool) : Prop := a.shape = b.shape ∧ ∀ j, inRange a.shape j = true → a.get j = b.get j

theorem MaskEq.refl (a : NDA Bool) : MaskEq a a := ⟨rfl, fun _ _ => rfl⟩

theorem MaskEq.symm {a b : NDA Bool} (h : MaskEq a b) : MaskEq b a :=
  ⟨h.1.symm, fun j hj => (h.2 j (by rw [h.1]; exact hj)).symm⟩

theorem MaskEq.trans {a b c : NDA Bool} (h1 : MaskEq a b) (h2 : MaskEq b c) : MaskEq a c :=
  ⟨h1.1.trans h2.1, fun j hj => (h1.2 j hj).trans (h2.2 j (by rw [← h1.1]; exact hj))⟩

theorem MaskEq.own (a : NDA Bool) : MaskEq (own a) a := ⟨rfl, fun j hj => own_get a j hj⟩

theorem MaskEq.of_eq {a b : NDA Bool} (h : a = b) : MaskEq a b := by subst h; exact MaskEq.refl _

theorem MaskEq.zipAnd {a a' b b' : NDA Bool} (ha : MaskEq a a') (hb : MaskEq b b') (hs : a.shape = b.shape) :
    MaskEq (NDA.zipWith Bool.and a b) (NDA.zipWith Bool.and a' b') :=
  ⟨ha.1, fun j hj => by
    show (a.get j && b.get j) = (a'.get j && b'.get j)
    rw [ha.2 j hj, hb.2 j (by rw [← hs]; exact hj)]⟩

/-- AND with an all-valid mask of the same shape changes nothing -/
theorem MaskEq.and_true_right (a : NDA Bool) : MaskEq (NDA.zipWith Bool.and a (C08.own (NDA.const a.shape true))) a :=
  ⟨rfl, fun j hj => by
    show (a.get j && (C08.own (NDA.const a.shape true)).get j) = a.get j
    rw [own_get (NDA.const a.shape true) j hj]; simp [NDA.const]⟩

theorem MaskEq.and_true_left (a : NDA Bool) : MaskEq (NDA.zipWith Bool.and (C08.own (NDA.const a.shape true)) a) a :=
  ⟨rfl, fun j hj => by
    show ((C08.own (NDA.const a.shape true)).get j && a.get j) = a.get j
    rw [own_get (NDA.const a.shape true) j hj]; simp [NDA.const]⟩

theorem MaskEq.and_self (a : NDA Bool) : MaskEq (NDA.zipWith Bool.and a a) a :=
  ⟨rfl, fun j _ => by show (a.get j && a.get j) = a.get j; simp⟩

/-! ## outcomes of one operation, up to `MaskEq` -/

/-- one field operand `f`: its mask, on its mesh -/
def SameOut (f g : C03.CF) : Prop := MaskEq g.valid f.valid ∧ g.mesh = f.mesh

/-- two field operands: the AND, on the left operand's mesh; both have the same cells -/
def AndOut (f o g : C03.CF) : Prop :=
  MaskEq g.valid (NDA.zipWith Bool.and f.valid o.valid) ∧ g.mesh = f.mesh ∧ f.mesh.n = o.mesh.n

theorem SameRes.out {f g : C03.CF} (h : SameRes f g) : SameOut f g := ⟨by rw [h.hvalid]; exact MaskEq.own _, h.hmesh⟩

theorem AndRes.out {f o g : C03.CF} (h : AndRes f o g) : AndOut f o g :=
  ⟨by rw [h.hvalid]; exact MaskEq.own _, h.hmesh, h.hsame⟩

theorem SameOut.inv {f g : C03.CF} (h : SameOut f g) (hf : CFInv f) : CFInv g := by
  unfold CFInv; rw [h.1.1, h.2]; exact hf

theorem AndOut.inv {f o g : C03.CF} (h : AndOut f o g) (hf : CFInv f) : CFInv g := by
  unfold CFInv; rw [h.1.1, h.2.1]; exact hf

theorem SameOut.trans {f g k : C03.CF} (h1 : SameOut f g) (h2 : SameOut g k) : SameOut f k :=
  ⟨h2.1.trans h1.1, h2.2.trans h1.2⟩

theorem c03_shlOp_raw {f g : C03.CF} {od : C03.Opd} (h : C03.shlOp f (.raw od) = .ok g) (hf : CFInv f) : SameOut f g := by
  simp only [C03.shlOp] at h
  split at h
  · cases h
  · rename_i t ht
    obtain ⟨t1, t2⟩ := c03_liftOpd ht
    have hr := c03_shlFF h hf
    refine ⟨?_, hr.hmesh⟩
    rw [hr.hvalid, t1, ← hf]
    exact (MaskEq.own _).trans (MaskEq.and_true_right f.valid)

theorem c03_forwardOp_fld {env : C03.Env} {b : C03.BinOp} {f o g : C03.CF}
    (h : C03.forwardOp env b f (.fld o) = .ok g) (hf : CFInv f) : AndOut f o g := by
  cases b <;> simp only [C03.forwardOp] at h
  · exact (c03_applyOperator_fld h hf).out
  · exact (c03_applyOperator_fld h hf).out
  · exact (c03_applyOperator_fld h hf).out
  · exact (c03_applyOperator_fld h hf).out
  · exact (c03_applyOperator_fld h hf).out
  · exact (c03_dotOp_fld h hf).out
  · exact (c03_crossOp_fld h hf).out
  · exact (c03_shlFF (by simpa [C03.shlOp] using h) hf).out
  · exact (c03_angleOp_fld h hf).out
  all_goals cases h

theorem c03_forwardOp_raw {env : C03.Env} {b : C03.BinOp} {f g : C03.CF} {od : C03.Opd}
    (h : C03.forwardOp env b f (.raw od) = .ok g) (hf : CFInv f) : SameOut f g := by
  cases b <;> simp only [C03.forwardOp] at h
  · exact (c03_applyOperator_raw h hf).out
  · exact (c03_applyOperator_raw h hf).out
  · exact (c03_applyOperator_raw h hf).out
  · exact (c03_applyOperator_raw h hf).out
  · exact (c03_applyOperator_raw h hf).out
  · exact (c03_dotOp_raw h hf).out
  · exact (c03_crossOp_raw h hf).out
  · exact c03_shlOp_raw h hf
  · exact (c03_angleOp_raw h hf).out
  all_goals cases h

theorem c03_reflectedOp {b : C03.BinOp} {od : C03.Opd} {f g : C03.CF} (h : C03.reflectedOp b od f = .ok g)
    (hf : CFInv f) : SameOut f g := by
  cases b <;> simp only [C03.reflectedOp] at h
  · exact (c03_applyOperator_raw h hf).out
  · -- `-self + other`
    split at h
    · cases h
    · rename_i g1 hg1
      have h1 := (c03_mapField hg1 hf).out
      exact h1.trans (c03_applyOperator_raw h (h1.inv hf)).out
  · exact (c03_applyOperator_raw h hf).out
  · exact (c03_applyOperator_raw h hf).out
  · cases h
  · exact (c03_dotOp_raw h hf).out
  · -- `-self.cross(other)`
    split at h
    · cases h
    · rename_i g1 hg1
      have h1 := (c03_crossOp_raw hg1 hf).out
      exact h1.trans (c03_mapField h (h1.inv hf)).out
  · -- `Field(mesh, value=other) << self`
    split at h
    · cases h
    · rename_i t ht
      obtain ⟨t1, t2⟩ := c03_liftOpd ht
      have ht' : CFInv t := by unfold CFInv; rw [t1, t2]; rfl
      have hr := c03_shlFF h ht'
      refine ⟨?_, hr.hmesh.trans t2⟩
      rw [hr.hvalid, t1, ← hf]
      exact (MaskEq.own _).trans (MaskEq.and_true_left f.valid)
  all_goals cases h

/-- a binary ufunc call: mesh checks against the first field input, then the wrapper with the AND
of the field inputs' masks -/
theorem c03_ufunc2_core {fn pw} {l r : C03.Val} {g : C03.CF} (h : C03.ufunc2 fn pw l r = .ok g) :
    ∃ self, C03.firstFld l r = some self ∧ C03.ufuncMeshOk self l = .ok () ∧ C03.ufuncMeshOk self r = .ok () ∧
      ∃ res k, C03.ufuncWrap self res k (C03.ufuncValid self l r) = .ok g := by
  unfold C03.ufunc2 at h
  split at h
  · cases h
  · rename_i self hself
    split at h
    · cases h
    · split at h
      · cases h
      · split at h
        · cases h
        · rename_i hml
          split at h
          · cases h
          · rename_i hmr
            split at h
            · cases h
            · split at h
              · cases h
              · exact ⟨self, hself, hml, hmr, _, _, h⟩

theorem c03_ufunc2_ff {fn pw} {f o g : C03.CF} (h : C03.ufunc2 fn pw (.fld f) (.fld o) = .ok g) (hf : CFInv f) :
    AndOut f o g := by
  obtain ⟨self, hself, _, hmr, res, k, hw⟩ := c03_ufunc2_core h
  simp only [C03.firstFld, Option.some.injEq] at hself; subst hself
  obtain ⟨h1, h2⟩ := c03_ufuncWrap (V := NDA.zipWith (fun x y => x && y) f.valid o.valid) hw hf
  exact ⟨by rw [h1]; exact MaskEq.own _, h2, c03_ufuncMeshOk_n hmr⟩

theorem c03_ufunc2_fr {fn pw} {f g : C03.CF} {od : C03.Opd} (h : C03.ufunc2 fn pw (.fld f) (.raw od) = .ok g)
    (hf : CFInv f) : SameOut f g := by
  obtain ⟨self, hself, _, _, res, k, hw⟩ := c03_ufunc2_core h
  simp only [C03.firstFld, Option.some.injEq] at hself; subst hself
  obtain ⟨h1, h2⟩ := c03_ufuncWrap (V := f.valid) hw hf
  exact ⟨by rw [h1]; exact MaskEq.own _, h2⟩

theorem c03_ufunc2_rf {fn pw} {o g : C03.CF} {od : C03.Opd} (h : C03.ufunc2 fn pw (.raw od) (.fld o) = .ok g)
    (ho : CFInv o) : SameOut o g := by
  obtain ⟨self, hself, _, _, res, k, hw⟩ := c03_ufunc2_core h
  simp only [C03.firstFld, Option.some.injEq] at hself; subst hself
  obtain ⟨h1, h2⟩ := c03_ufuncWrap (V := o.valid) hw ho
  exact ⟨by rw [h1]; exact MaskEq.own _, h2⟩

theorem c03_ufunc2_rr {fn pw} {g : C03.CF} {a b : C03.Opd} (h : C03.ufunc2 fn pw (.raw a) (.raw b) = .ok g) : False := by
  obtain ⟨self, hself, _⟩ := c03_ufunc2_core h
  simp [C03.firstFld] at hself

/-! ## `applyBin` by the kinds of its operands -/

theorem c03_applyBin_ff {env : C03.Env} {b : C03.BinOp} {f o : C03.CF} {v : C03.Val}
    (h : C03.applyBin env b (.fld f) (.fld o) = .ok v) :
    ∃ g, v = .fld g ∧ (C03.ufunc2 (C03.binFn b) (C03.isPow b) (.fld f) (.fld o) = .ok g ∨ C03.forwardOp env b f (.fld o) = .ok g) := by
  cases b <;> simp only [C03.applyBin] at h <;>
    (split at h
     · cases h
     · rename_i g hg
       simp only [Except.ok.injEq] at h
       exact ⟨g, h.symm, by first | exact Or.inl hg | exact Or.inr hg⟩)

theorem c03_applyBin_fr {env : C03.Env} {b : C03.BinOp} {f : C03.CF} {od : C03.Opd} {v : C03.Val}
    (h : C03.applyBin env b (.fld f) (.raw od) = .ok v) :
    ∃ g, v = .fld g ∧ (C03.ufunc2 (C03.binFn b) (C03.isPow b) (.fld f) (.raw od) = .ok g ∨ C03.forwardOp env b f (.raw od) = .ok g) := by
  cases b <;> simp only [C03.applyBin] at h <;>
    (split at h
     · cases h
     · rename_i g hg
       simp only [Except.ok.injEq] at h
       exact ⟨g, h.symm, by first | exact Or.inl hg | exact Or.inr hg⟩)

theorem c03_applyBin_rr {env : C03.Env} {b : C03.BinOp} {a od : C03.Opd} {v : C03.Val}
    (h : C03.applyBin env b (.raw a) (.raw od) = .ok v) :
    False := by
  cases b <;> simp only [C03.applyBin] at h <;> cases h

theorem c03_applyBin_rf {env : C03.Env} {b : C03.BinOp} {o : C03.CF} {ol : C03.Opd} {v : C03.Val}
    (h : C03.applyBin env b (.raw ol) (.fld o) = .ok v) :
    ∃ g, v = .fld g ∧
      (((C03.isUfuncBin b = true ∨ C03.isNp ol = true) ∧ C03.ufunc2 (C03.binFn b) (C03.isPow b) (.raw ol) (.fld o) = .ok g) ∨
       (C03.isUfuncBin b = false ∧ C03.isNp ol = false ∧ C03.reflectedOp b ol o = .ok g)) := by
  by_cases hn : C03.isNp ol = true
  · cases b <;> simp only [C03.applyBin, hn, if_true] at h <;>
      first
      | cases h
      | (split at h
         · cases h
         · rename_i g hg
           simp only [Except.ok.injEq] at h
           exact ⟨g, h.symm, Or.inl ⟨Or.inr hn, hg⟩⟩)
  · have hn' : C03.isNp ol = false := by simpa using hn
    cases b <;> simp only [C03.applyBin, hn', Bool.false_eq_true, if_false] at h <;>
      (split at h
       · cases h
       · rename_i g hg
         simp only [Except.ok.injEq] at h
         exact ⟨g, h.symm, by first | exact Or.inl ⟨Or.inl rfl, hg⟩ | exact Or.inr ⟨rfl, hn', hg⟩⟩)

/-! ## the translation -/

/-- validity program of a C03 expression (a number / array operand is `.opd`; anything else that
evaluates is a field) -/
def progOf : C03.Expr → Prog
  | .leaf k => .leaf k
  | .opd _ => .leaf 0
  | .un u e => if u = .pos then .pos (progOf e) else .un (progOf e)
  | .bin b l r =>
    if l.isField = true then
      if r.isField = true then .binF (progOf l) (progOf r)
      else if b = .shl then lshiftConstProg (progOf l) else .binC (progOf l)
    else
      match l with
      | .opd o =>
        if C03.isUfuncBin b = true ∨ C03.isNp o = true then .binC (progOf r)
        else if b = .sub then rsubProg (progOf r)
        else if b = .cross then rcrossProg (progOf r)
        else if b = .shl then rlshiftConstProg (progOf r)
        else .binC (progOf r)
      | _ => .leaf 0

/-- the masks of the field leaves -/
def maskEnv (env : C03.Env) : Nat → Mask := fun k =>
  match env.fields[k]? with
  | some f => f.valid
  | none => NDA.const [] false

/-- what the induction carries for a sub-expression with value `v` -/
def ExprOut (env : C03.Env) (e : C03.Expr) : C03.Val → Prop
  | .fld g => e.isField = true ∧ CFInv g ∧ ∃ m, eval (maskEnv env) (progOf e) = .ok m ∧ MaskEq m g.valid
  | .raw o => e = .opd o

theorem one_ne_zero_dec : decide ((1 : Rat) ≠ 0) = true := by decide

theorem eval_binC_out (E : Nat → Mask) (p : Prog) (m0 v0 v : NDA Bool) (h0 : eval E p = .ok m0) (hm : MaskEq m0 v0)
    (hv : MaskEq v v0) : ∃ m, eval E (.binC p) = .ok m ∧ MaskEq m v :=
  ⟨own m0, by simp only [eval, h0], (MaskEq.own m0).trans (hm.trans hv.symm)⟩

theorem eval_un_out (E : Nat → Mask) (p : Prog) (m0 v0 v : NDA Bool) (h0 : eval E p = .ok m0) (hm : MaskEq m0 v0)
    (hv : MaskEq v v0) : ∃ m, eval E (.un p) = .ok m ∧ MaskEq m v :=
  ⟨own m0, by simp only [eval, h0], (MaskEq.own m0).trans (hm.trans hv.symm)⟩

theorem eval_fresh_same (E : Nat → Mask) (p : Prog) (m0 : NDA Bool) (h0 : eval E p = .ok m0) :
    eval E (.fresh .same p) = .ok (own (NDA.const m0.shape true)) := by
  simp only [eval, h0, FreshOp.ok, FreshOp.shape, if_true, setMask]
  rfl

theorem expr_link (env : C03.Env) (henv : ∀ (k : Nat) (f : C03.CF), env.fields[k]? = some f → CFInv f) (e : C03.Expr) :
    ∀ v, C03.evalF env e = .ok v → ExprOut env e v := by
  induction e with
  | leaf k =>
    intro v h
    simp only [C03.evalF] at h
    split at h
    · rename_i f hf
      simp only [Except.ok.injEq] at h; subst h
      refine ⟨rfl, henv k f hf, f.valid, ?_, MaskEq.refl _⟩
      simp only [progOf, eval, maskEnv, hf]
    · cases h
  | opd o =>
    intro v h
    simp only [C03.evalF, Except.ok.injEq] at h; subst h
    rfl
  | un u e ih =>
    intro v h
    simp only [C03.evalF] at h
    split at h
    · cases h
    · cases h
    · rename_i f hf
      obtain ⟨hfld, hinv, m0, hm0, hme⟩ := ih _ hf
      split at h
      · cases h
      · rename_i g hg
        simp only [Except.ok.injEq] at h; subst h
        by_cases hu : u = .pos
        · subst hu
          simp only [C03.applyUn, Except.ok.injEq] at hg; subst hg
          exact ⟨hfld, hinv, m0, by simp only [progOf, if_true, eval, hm0], hme⟩
        · have hout : SameOut f g := by
            cases u <;> simp only [C03.applyUn] at hg
            · exact absurd rfl hu
            all_goals first
              | exact (c03_mapField hg hinv).out
              | exact (c03_ufunc1 hg hinv).out
          obtain ⟨m, hm, hmm⟩ := eval_un_out (maskEnv env) (progOf e) m0 f.valid g.valid hm0 hme hout.1
          exact ⟨hfld, hout.inv hinv, m, by simp only [progOf, if_neg hu]; exact hm, hmm⟩
  | bin b l r ihl ihr =>
    intro v h
    simp only [C03.evalF] at h
    split at h
    · cases h
    · rename_i vl hvl
      split at h
      · cases h
      · rename_i vr hvr
        have hl := ihl _ hvl
        have hr := ihr _ hvr
        cases vl with
        | fld f =>
          obtain ⟨hlf, hfi, ma, hma, hmae⟩ := hl
          cases vr with
          | fld o =>
            obtain ⟨hrf, hoi, mb, hmb, hmbe⟩ := hr
            obtain ⟨g, rfl, hcase⟩ := c03_applyBin_ff h
            have hout : AndOut f o g := by
              rcases hcase with hu | hf
              · exact c03_ufunc2_ff hu hfi
              · exact c03_forwardOp_fld hf hfi
            have hsh : ma.shape = mb.shape := by
              rw [hmae.1, hmbe.1, hfi, hoi]; exact hout.2.2
            refine ⟨by simp [C03.Expr.isField, hlf], hout.inv hfi, own (NDA.zipWith Bool.and ma mb), ?_, ?_⟩
            · simp only [progOf, hlf, hrf, if_true, eval, hma, hmb, if_pos hsh]
            · exact (MaskEq.own _).trans ((MaskEq.zipAnd hmae hmbe hsh).trans hout.1.symm)
          | raw od =>
            have hre : r = .opd od := hr
            have hrf : r.isField = false := by rw [hre]; rfl
            obtain ⟨g, rfl, hcase⟩ := c03_applyBin_fr h
            have hout : SameOut f g := by
              rcases hcase with hu | hf
              · exact c03_ufunc2_fr hu hfi
              · exact c03_forwardOp_raw hf hfi
            refine ⟨by simp [C03.Expr.isField, hlf], hout.inv hfi, ?_⟩
            simp only [progOf, hlf, hrf, if_true, Bool.false_eq_true, if_false]
            by_cases hb : b = .shl
            · rw [if_pos hb]
              refine ⟨own (NDA.zipWith Bool.and ma (own (NDA.const ma.shape true))), ?_, ?_⟩
              · simp only [lshiftConstProg, eval, hma, FreshOp.ok, FreshOp.shape, if_true, setMask]
                rw [one_ne_zero_dec]
                exact if_pos rfl
              · exact (MaskEq.own _).trans ((MaskEq.and_true_right ma).trans (hmae.trans hout.1.symm))
            · rw [if_neg hb]
              exact eval_binC_out _ _ ma f.valid g.valid hma hmae hout.1
        | raw ol =>
          have hle : l = .opd ol := hl
          cases vr with
          | raw od => exact (c03_applyBin_rr h).elim
          | fld o =>
            obtain ⟨hrf, hoi, mb, hmb, hmbe⟩ := hr
            subst hle
            obtain ⟨g, rfl, hcase⟩ := c03_applyBin_rf h
            refine ⟨by simp [C03.Expr.isField, hrf], ?_⟩
            rcases hcase with ⟨hnp, hu⟩ | ⟨hnu, hnn, hrefl⟩
            · -- the ufunc protocol
              have hout : SameOut o g := c03_ufunc2_rf hu hoi
              refine ⟨hout.inv hoi, ?_⟩
              simp only [progOf, C03.Expr.isField, Bool.false_eq_true, if_false, if_pos hnp]
              exact eval_binC_out _ _ mb o.valid g.valid hmb hmbe hout.1
            · -- the reflected methods
              have hout : SameOut o g := c03_reflectedOp hrefl hoi
              have hnp : ¬ (C03.isUfuncBin b = true ∨ C03.isNp ol = true) := by
                rw [hnu, hnn]; simp
              refine ⟨hout.inv hoi, ?_⟩
              simp only [progOf, C03.Expr.isField, Bool.false_eq_true, if_false, if_neg hnp]
              by_cases h1 : b = .sub
              · rw [if_pos h1]
                refine ⟨own (own mb), by simp only [rsubProg, eval, hmb], ?_⟩
                exact (MaskEq.own _).trans ((MaskEq.own _).trans (hmbe.trans hout.1.symm))
              · rw [if_neg h1]
                by_cases h2 : b = .cross
                · rw [if_pos h2]
                  refine ⟨own (own mb), by simp only [rcrossProg, eval, hmb], ?_⟩
                  exact (MaskEq.own _).trans ((MaskEq.own _).trans (hmbe.trans hout.1.symm))
                · rw [if_neg h2]
                  by_cases h3 : b = .shl
                  · rw [if_pos h3]
                    refine ⟨own (NDA.zipWith Bool.and (own (NDA.const mb.shape true)) mb), ?_, ?_⟩
                    · simp only [rlshiftConstProg, eval, hmb, FreshOp.ok, FreshOp.shape, if_true, setMask]
                      rw [one_ne_zero_dec]
                      exact if_pos rfl
                    · exact (MaskEq.own _).trans ((MaskEq.and_true_left mb).trans (hmbe.trans hout.1.symm))
                  · rw [if_neg h3]
                    exact eval_binC_out _ _ mb o.valid g.valid hmb hmbe hout.1

end DFV.C08
