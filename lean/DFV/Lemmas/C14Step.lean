import DFV.Lemmas.C13StepM
import DFV.Lemmas.C14
/-! C14: the subregion invariant `SubInv` through the transformation steps. -/
namespace DFV.C14
open DFV DFV.T

/-- affine image of a lattice interval -/
theorem affine_keeps_lattice (L H l h A s : Rat) (n : Nat) (z w : Int) (hn : 0 < n) (hLH : L < H) (hs : s ≠ 0)
    (hz : l - L = (z : Rat) * ((H - L) / (n : Rat))) (hw : h - l = (w : Rat) * ((H - L) / (n : Rat)))
    (hz0 : 0 ≤ z) (hw0 : 0 < w) (hzw : z + w ≤ (n : Int)) :
    ∃ z' : Int, 0 ≤ z' ∧ z' + w ≤ (n : Int) ∧
      min (A + s * l) (A + s * h) - min (A + s * L) (A + s * H)
        = (z' : Rat) * ((max (A + s * L) (A + s * H) - min (A + s * L) (A + s * H)) / (n : Rat)) ∧
      max (A + s * l) (A + s * h) - min (A + s * l) (A + s * h)
        = (w : Rat) * ((max (A + s * L) (A + s * H) - min (A + s * L) (A + s * H)) / (n : Rat)) := by
  have hnq : (0 : Rat) < (n : Rat) := by exact_mod_cast hn
  have hc : 0 < (H - L) / (n : Rat) := div_pos (by linarith) hnq
  have hwq : (0 : Rat) < (w : Rat) := by exact_mod_cast hw0
  have hlh : l < h := by nlinarith
  have hH : H = L + (n : Rat) * ((H - L) / n) := by field_simp; ring
  have hl : l = L + (z : Rat) * ((H - L) / n) := by linarith
  have hh : h = L + (z : Rat) * ((H - L) / n) + (w : Rat) * ((H - L) / n) := by linarith
  rcases lt_or_gt_of_ne hs with hneg | hpos
  · have e1 : A + s * H < A + s * L := by nlinarith
    have e2 : A + s * h < A + s * l := by nlinarith
    rw [min_eq_right e1.le, max_eq_left e1.le, min_eq_right e2.le, max_eq_left e2.le]
    refine ⟨n - z - w, by omega, by omega, ?_, ?_⟩
    · have e : (A + s * L - (A + s * H)) / (n : Rat) = (-s) * ((H - L) / n) := by ring
      rw [e]; push_cast
      generalize (H - L) / (n : Rat) = c at *
      rw [hh, hH]; ring
    · have e : (A + s * L - (A + s * H)) / (n : Rat) = (-s) * ((H - L) / n) := by ring
      rw [e]
      generalize (H - L) / (n : Rat) = c at *
      rw [hh, hl]; ring
  · have e1 : A + s * L < A + s * H := by nlinarith
    have e2 : A + s * l < A + s * h := by nlinarith
    rw [min_eq_left e1.le, max_eq_right e1.le, min_eq_left e2.le, max_eq_right e2.le]
    refine ⟨z, hz0, hzw, ?_, ?_⟩
    · have e : (A + s * H - (A + s * L)) / (n : Rat) = s * ((H - L) / n) := by ring
      rw [e]
      generalize (H - L) / (n : Rat) = c at *
      rw [hl]; ring
    · have e : (A + s * H - (A + s * L)) / (n : Rat) = s * ((H - L) / n) := by ring
      rw [e]
      generalize (H - L) / (n : Rat) = c at *
      rw [hh, hl]; ring
theorem subOkE_axmap (m m' : Mesh) (hm : m.Inv) (sub sub' : Region) (σ : Nat → Nat) (A s : Nat → Rat) (u : List String)
    (hσ : ∀ a, a < m.ndim → σ a < m.ndim) (hs : ∀ a, a < m.ndim → s a ≠ 0)
    (hr : m'.region = target m.region (fun a => A a + s a * m.region.lo (σ a)) (fun a => A a + s a * m.region.hi (σ a)) u)
    (hn : ∀ a, a < m.ndim → m'.nAt a = m.nAt (σ a))
    (hmin : sub'.pmin = tab m.ndim fun a => min (A a + s a * sub.lo (σ a)) (A a + s a * sub.hi (σ a)))
    (hmax : sub'.pmax = tab m.ndim fun a => max (A a + s a * sub.lo (σ a)) (A a + s a * sub.hi (σ a)))
    (hd : sub'.dims = m'.region.dims) (hu : sub'.units = m'.region.units) (ht : sub'.tol = m'.region.tol)
    (h : SubOkE m sub) : SubOkE m' sub' := by
  obtain ⟨hr0, hnl, hpos⟩ := hm
  have hnd : m'.ndim = m.ndim := by unfold Mesh.ndim; rw [hr]; exact target_ndim _ _ _ _
  refine ⟨hd, hu, ht, by rw [hmin, tab_length, hnd], by rw [hmax, tab_length, hnd], ?_⟩
  intro a ha
  rw [hnd] at ha
  have hb := hσ a ha
  obtain ⟨z, w, hz0, hw0, hzw, hz, hw⟩ := h.2.2.2.2.2 (σ a) hb
  have hLH := hr0.2.2.2.2.2 (σ a) hb
  unfold Mesh.cellAt Region.edge at hz hw
  obtain ⟨z', h1, h2, h3, h4⟩ := affine_keeps_lattice (m.region.lo (σ a)) (m.region.hi (σ a)) (sub.lo (σ a)) (sub.hi (σ a))
    (A a) (s a) (m.nAt (σ a)) z w (hpos _ hb) hLH (hs a ha) hz hw hz0 hw0 hzw
  refine ⟨z', w, h1, hw0, by rw [hn a ha]; exact h2, ?_, ?_⟩
  · unfold Mesh.cellAt Region.edge
    rw [hn a ha, hr, target_lo _ _ _ _ _ ha, target_hi _ _ _ _ _ ha]
    unfold Region.lo
    rw [hmin, getD_tab _ _ _ _ ha]
    exact h3
  · unfold Mesh.cellAt Region.edge
    rw [hn a ha, hr, target_lo _ _ _ _ _ ha, target_hi _ _ _ _ _ ha]
    unfold Region.lo Region.hi
    rw [hmin, hmax, getD_tab _ _ _ _ ha, getD_tab _ _ _ _ ha]
    exact h4
theorem cellAt_pos (m : Mesh) (hm : m.Inv) (a : Nat) (ha : a < m.ndim) : 0 < m.cellAt a := by
  obtain ⟨hr, _, hp⟩ := hm
  unfold Mesh.cellAt Region.edge
  have := hr.2.2.2.2.2 a ha
  have hn : (0 : Rat) < (m.nAt a : Rat) := by exact_mod_cast hp a ha
  exact div_pos (by linarith) hn

/-- an exactly fitting subregion is a proper region -/
theorem subOkE_regionInv (m : Mesh) (hm : m.Inv) (s : Region) (h : SubOkE m s) : s.Inv := by
  obtain ⟨hd, hu, _, h1, h2, hax⟩ := h
  have hr := hm.1
  obtain ⟨r0, r1, r2, r3, r4, _⟩ := hr
  have e : m.ndim = m.region.pmin.length := rfl
  refine ⟨by rw [h1, e]; exact r0, by rw [h1, h2], by rw [hd, h1, e]; exact r2, by rw [hu, h1, e]; exact r3, by rw [hd]; exact r4, ?_⟩
  intro a ha
  rw [h1] at ha
  obtain ⟨z, w, _, hw0, _, _, hw⟩ := hax a ha
  have hc := cellAt_pos m hm a ha
  have hwq : (0 : Rat) < (w : Rat) := by exact_mod_cast hw0
  have := mul_pos hwq hc
  linarith

theorem target_congr (r : Region) (lo1 hi1 lo2 hi2 : Nat → Rat) (u : List String)
    (hl : ∀ a, a < r.ndim → lo1 a = lo2 a) (hh : ∀ a, a < r.ndim → hi1 a = hi2 a) :
    target r lo1 hi1 u = target r lo2 hi2 u := by
  unfold target
  congr 1
  · apply tab_congr; intro a ha; rw [hl a ha, hh a ha]
  · apply tab_congr; intro a ha; rw [hl a ha, hh a ha]

/-- One subregion through one accepted step: if the region step on the mesh's region and the same
step (about the mesh's reference point) on an exactly fitting subregion are both accepted, the
image subregion — with the metadata of the new region — fits the new mesh exactly. -/
theorem subOkE_step (m M' : Mesh) (hm : m.Inv) (sub sub1 sub' : Region) (h : SubOkE m sub) (op : Op) (x y : Region)
    (hreg : stepR m.region op = .ok (x, M'.region)) (hn : M'.n = opN m op)
    (hsub : stepR sub (subOp m op) = .ok (y, sub1))
    (hmin : sub'.pmin = sub1.pmin) (hmax : sub'.pmax = sub1.pmax)
    (hd : sub'.dims = M'.region.dims) (hu : sub'.units = M'.region.units) (ht : sub'.tol = M'.region.tol) :
    SubOkE M' sub' := by
  have hsi := subOkE_regionInv m hm sub h
  have hsn : sub.ndim = m.ndim := h.2.2.2.1
  have hnl : m.n.length = m.ndim := hm.2.1
  have hdl : m.region.dims.length = m.ndim := hm.1.2.2.1
  cases op with
  | translate v i =>
    simp only [stepR, subOp] at hreg hsub
    obtain ⟨_, e1, _⟩ := translateR_inv _ hm.1 _ _ _ _ hreg
    obtain ⟨_, e2, _⟩ := translateR_inv _ hsi _ _ _ _ hsub
    apply subOkE_axmap m M' hm sub sub' (fun a => a) (fun a => v.getD a 0) (fun _ => 1) m.region.units
      (fun a ha => ha) (fun a _ => one_ne_zero) _ _ _ _ hd hu ht h
    · rw [e1]; apply target_congr <;> intro a _ <;> ring
    · intro a _; unfold Mesh.nAt; rw [hn]; rfl
    · rw [hmin, e2]; unfold target; simp only [hsn]
      apply tab_congr; intro a _; congr 1 <;> ring
    · rw [hmax, e2]; unfold target; simp only [hsn]
      apply tab_congr; intro a _; congr 1 <;> ring
  | scale f ref i =>
    simp only [stepR, subOp] at hreg hsub
    obtain ⟨_, _, hne, e1, _⟩ := scaleR_inv _ _ _ _ _ _ hreg
    obtain ⟨_, _, _, e2, _⟩ := scaleR_inv _ _ _ _ _ _ hsub
    have hR : (subRef m ref).getD sub.center = ref.getD m.region.center := rfl
    rw [hR] at e2
    apply subOkE_axmap m M' hm sub sub' (fun a => a)
      (fun a => (ref.getD m.region.center).getD a 0 - (ref.getD m.region.center).getD a 0 * f.at a) (fun a => f.at a) m.region.units
      (fun a ha => ha) _ _ _ _ _ hd hu ht h
    · intro a ha hz
      apply hne a ha
      unfold scaleHi; rw [hz]; ring
    · rw [e1]; apply target_congr <;> intro a _
      · unfold scaleLo; ring
      · unfold scaleHi scaleLo Region.edge; ring
    · intro a _; unfold Mesh.nAt; rw [hn]; rfl
    · rw [hmin, e2]; unfold target; simp only [hsn]
      apply tab_congr; intro a _; congr 1
      · unfold scaleLo; ring
      · unfold scaleHi scaleLo Region.edge; ring
    · rw [hmax, e2]; unfold target; simp only [hsn]
      apply tab_congr; intro a _; congr 1
      · unfold scaleLo; ring
      · unfold scaleHi scaleLo Region.edge; ring
  | rotate90 a1 a2 k ref i =>
    simp only [stepR, subOp] at hreg hsub
    obtain ⟨_, _, i1, i2, h1, h2, h12, l1, l2, _, e1, _⟩ := rotate90R_inv _ _ _ _ _ _ _ _ hreg
    obtain ⟨_, _, j1, j2, g1, g2, _, _, _, _, e2, _⟩ := rotate90R_inv _ _ _ _ _ _ _ _ hsub
    have hR : (subRef m ref).getD sub.center = ref.getD m.region.center := rfl
    rw [hR] at e2
    have hdd : sub.dims = m.region.dims := h.1
    have hj1 : j1 = i1 := by
      have : sub.dim2index a1 = m.region.dim2index a1 := by unfold Region.dim2index; rw [hdd]
      rw [this, h1] at g1; injection g1 with g1; exact g1.symm
    have hj2 : j2 = i2 := by
      have : sub.dim2index a2 = m.region.dim2index a2 := by unfold Region.dim2index; rw [hdd]
      rw [this, h2] at g2; injection g2 with g2; exact g2.symm
    subst hj1; subst hj2
    rw [hdl] at l1 l2
    apply subOkE_axmap m M' hm sub sub' (rotSrc j1 j2 k) (rotOff (ref.getD m.region.center) j1 j2 k) (rotSign j1 j2 k)
      (rotUnits m.region.units j1 j2 k)
      (fun a ha => rotSrc_lt _ _ _ _ _ l1 l2 ha) (fun a _ => rotSign_ne_zero _ _ _ _) _ _ _ _ hd hu ht h
    · rw [e1]; apply target_congr <;> intro a _ <;> rw [rotCoord_affine _ _ _ _ _ h12] <;> rfl
    · intro a _; unfold Mesh.nAt; rw [hn]
      simp only [opN, h1, h2]
      exact rotN_getD _ _ _ _ h12 (by rw [hnl]; exact l1) (by rw [hnl]; exact l2) a
    · rw [hmin, e2]; unfold target; simp only [hsn]
      apply tab_congr; intro a _
      rw [rotCoord_affine _ _ _ _ _ h12, rotCoord_affine _ _ _ _ _ h12]; rfl
    · rw [hmax, e2]; unfold target; simp only [hsn]
      apply tab_congr; intro a _
      rw [rotCoord_affine _ _ _ _ _ h12, rotCoord_affine _ _ _ _ _ h12]; rfl

theorem forall2_mem_right {α β} (R : α → β → Prop) (l1 : List α) (l2 : List β) (h : List.Forall₂ R l1 l2) (b : β) (hb : b ∈ l2) :
    ∃ a ∈ l1, R a b := by
  induction h with
  | nil => cases hb
  | cons hr _ ih =>
    rcases List.mem_cons.mp hb with e | e
    · subst e; exact ⟨_, List.mem_cons_self, hr⟩
    · obtain ⟨a, ha, hab⟩ := ih e
      exact ⟨a, List.mem_cons_of_mem _ ha, hab⟩

theorem forall2_map_fst (l1 l2 : List (String × Region)) (R : String × Region → String × Region → Prop)
    (hR : ∀ p p', R p p' → p'.1 = p.1) (h : List.Forall₂ R l1 l2) : l2.map (·.1) = l1.map (·.1) := by
  induction h with
  | nil => rfl
  | cons hr _ ih => simp only [List.map_cons, ih, hR _ _ hr]

/-- what the mesh constructor with subregions returns -/
theorem mkMesh_inv (r : Region) (n : List Nat) (bc : String) (subs : List (String × Region)) (m' : Mesh)
    (h : mkMesh? r n bc subs = .ok m') :
    m'.region = r ∧ m'.n = n ∧ m'.bc = bc.toLower ∧
    m'.subs = subs.map (fun p => (p.1, { pmin := p.2.pmin, pmax := p.2.pmax, dims := r.dims, units := r.units, tol := r.tol })) ∧
    n.length = r.ndim ∧ (∀ k ∈ n, 0 < k) ∧ Mesh.bcOk r.dims bc.toLower = true ∧
    ∀ p ∈ subs, candOk { region := r, n := n, bc := bc.toLower, subs := [] } p.2 = true := by
  unfold mkMesh? at h
  split at h
  · cases h
  · rename_i m0 h0
    unfold Mesh.mkN? at h0
    split at h0
    · cases h0
    · rename_i hl
      split at h0
      · cases h0
      · rename_i hz
        split at h0
        · cases h0
        · rename_i hbc
          injection h0 with h0; subst h0
          unfold setSubs at h
          split at h
          · rename_i hall
            injection h with h; subst h
            refine ⟨rfl, rfl, rfl, rfl, not_not.mp hl, ?_, by simpa using hbc, fun p hp => List.all_eq_true.mp hall p hp⟩
            intro k hk
            have : ¬ (n.any (· = 0)) = true := hz
            rw [List.any_eq_true] at this
            rcases Nat.eq_zero_or_pos k with h0 | h0
            · exact absurd ⟨k, hk, by simp [h0]⟩ this
            · exact h0
          · cases h


/-- the image of a subregion carries the metadata of the image of the region -/
theorem stepR_meta (m : Mesh) (hm : m.Inv) (sub : Region) (h : SubOkE m sub) (op : Op) (x y r' s1 : Region)
    (hreg : stepR m.region op = .ok (x, r')) (hsub : stepR sub (subOp m op) = .ok (y, s1)) :
    s1.dims = r'.dims ∧ s1.units = r'.units ∧ s1.tol = r'.tol := by
  have hsi := subOkE_regionInv m hm sub h
  obtain ⟨hd, hu, ht, _⟩ := h
  cases op with
  | translate v i =>
    simp only [stepR, subOp] at hreg hsub
    obtain ⟨_, e1, _⟩ := translateR_inv _ hm.1 _ _ _ _ hreg
    obtain ⟨_, e2, _⟩ := translateR_inv _ hsi _ _ _ _ hsub
    rw [e1, e2]; exact ⟨hd, hu, ht⟩
  | scale f ref i =>
    simp only [stepR, subOp] at hreg hsub
    obtain ⟨_, _, _, e1, _⟩ := scaleR_inv _ _ _ _ _ _ hreg
    obtain ⟨_, _, _, e2, _⟩ := scaleR_inv _ _ _ _ _ _ hsub
    rw [e1, e2]; exact ⟨hd, hu, ht⟩
  | rotate90 a1 a2 k ref i =>
    simp only [stepR, subOp] at hreg hsub
    obtain ⟨_, _, i1, i2, h1, h2, _, _, _, _, e1, _⟩ := rotate90R_inv _ _ _ _ _ _ _ _ hreg
    obtain ⟨_, _, j1, j2, g1, g2, _, _, _, _, e2, _⟩ := rotate90R_inv _ _ _ _ _ _ _ _ hsub
    have hj1 : j1 = i1 := by
      have : sub.dim2index a1 = m.region.dim2index a1 := by unfold Region.dim2index; rw [hd]
      rw [this, h1] at g1; injection g1 with g1; exact g1.symm
    have hj2 : j2 = i2 := by
      have : sub.dim2index a2 = m.region.dim2index a2 := by unfold Region.dim2index; rw [hd]
      rw [this, h2] at g2; injection g2 with g2; exact g2.symm
    subst hj1; subst hj2
    rw [e1, e2]
    exact ⟨hd, by show rotUnits sub.units j1 j2 k = rotUnits m.region.units j1 j2 k; rw [hu], ht⟩

/-- **`SubInv` through one accepted mesh step** (either form). -/
theorem stepM_subInv' (m : Mesh) (hm : m.Inv) (hs : SubInv m) (op : Op) (recv ret : Mesh)
    (h : stepM m op = .ok (recv, ret)) :
    SubInv recv ∧ SubInv ret ∧ ret.subs.map (·.1) = m.subs.map (·.1) := by
  rw [stepM_eq_stepMU] at h
  unfold stepMU at h
  split at h
  · cases h
  · cases h
  · rename_i x r' subs' hreg hsub
    have hf := mapSubs_inv _ _ _ hsub
    have hnames : subs'.map (·.1) = m.subs.map (·.1) := forall2_map_fst _ _ _ (fun _ _ h => h.1) hf
    split at h
    · -- in place
      injection h with h; injection h with ha hb
      subst ha; subst hb
      have key : SubInv { m with region := r', n := opN m op, bc := opBc m op, subs := subs' } := by
        intro p' hp'
        obtain ⟨p, hp, _, y, hstep⟩ := forall2_mem_right _ _ _ hf p' hp'
        have hfit := hs p hp
        -- metadata of the image
        have hmeta : p'.2.dims = r'.dims ∧ p'.2.units = r'.units ∧ p'.2.tol = r'.tol :=
          stepR_meta m hm p.2 hfit op x y r' p'.2 hreg hstep
        exact subOkE_step m _ hm p.2 p'.2 p'.2 hfit op x y hreg rfl hstep rfl rfl hmeta.1 hmeta.2.1 hmeta.2.2
      exact ⟨key, key, hnames⟩
    · split at h
      · cases h
      · rename_i m' hm'
        injection h with h; injection h with ha hb
        subst ha; subst hb
        obtain ⟨e1, e2, _, e4, _⟩ := mkMesh_inv _ _ _ _ _ hm'
        refine ⟨hs, ?_, by rw [e4, List.map_map]; exact hnames⟩
        intro q hq
        rw [e4] at hq
        obtain ⟨p', hp', rfl⟩ := List.mem_map.mp hq
        obtain ⟨p, hp, _, y, hstep⟩ := forall2_mem_right _ _ _ hf p' hp'
        have hreg' : stepR m.region op = .ok (x, m'.region) := by rw [e1]; exact hreg
        exact subOkE_step m m' hm p.2 p'.2 _ (hs p hp) op x y hreg' e2 hstep rfl rfl (by rw [e1]) (by rw [e1]) (by rw [e1])
end DFV.C14
