import Mathlib.Tactic.Ring
import Mathlib.Tactic.Linarith
import Mathlib.Tactic.FieldSimp
import Mathlib.Tactic.Push
import Mathlib.Data.Rat.Floor
import DFV.Model.C19
import DFV.Lemmas.Tab
import DFV.Lemmas.RatFloor
/-! C19, mesh side: the mesh of `neighbouring_cell_angle` (one cell shorter, shifted by half a
cell, same cell size; refused for a single cell) and the mesh of the demagnetisation tensor
(`2n − 1` cells, same cell size), on which both tensor builders evaluate the Newell functions
at the same points. -/
namespace DFV.C19
open DFV

/-! ## generic helpers (private copies, prefixed `cm`) -/

theorem cmToLowerEmpty : "".toLower = "" := by
  unfold String.toLower
  exact String.map_eq_empty.mpr rfl

theorem cmMemTab {α} (n : Nat) (f : Nat → α) (y : α) : y ∈ tab n f ↔ ∃ a, a < n ∧ f a = y := by
  simp [tab]

theorem cmSetAtLength {α} (l : List α) (i : Nat) (x : α) : (setAt l i x).length = l.length := by
  induction l generalizing i with
  | nil => simp [setAt]
  | cons y ys ih =>
    cases i with
    | zero => simp [setAt]
    | succ i => simp [setAt, ih]

theorem cmGetDSetAt {α} (l : List α) (i j : Nat) (x d : α) :
    (setAt l i x).getD j d = if j = i ∧ i < l.length then x else l.getD j d := by
  induction l generalizing i j with
  | nil => simp [setAt]
  | cons y ys ih =>
    cases i with
    | zero =>
      cases j with
      | zero => simp [setAt]
      | succ j => simp [setAt]
    | succ i =>
      cases j with
      | zero => simp [setAt]
      | succ j =>
        simp only [setAt, List.getD_cons_succ, ih, List.length_cons, Nat.add_lt_add_iff_right,
          Nat.add_right_cancel_iff]

theorem cmContainsPtOfExact (r : Region) (p : List Rat) (hl : p.length = r.ndim)
    (h : ∀ a, a < r.ndim → r.lo a ≤ p.getD a 0 ∧ p.getD a 0 ≤ r.hi a) : r.containsPt p = true := by
  unfold Region.containsPt
  simp only [hl, decide_true, Bool.true_and]
  rw [allLt_iff]
  intro a ha
  obtain ⟨h1, h2⟩ := h a ha
  unfold Region.containsAx
  simp only [Bool.and_eq_true, Bool.or_eq_true, decide_eq_true_eq]
  exact ⟨Or.inl h1, Or.inl h2⟩

theorem cmFoldlMinNonneg (xs : List Rat) (x : Rat) (hx : 0 ≤ x) (h : ∀ y ∈ xs, 0 ≤ y) :
    0 ≤ xs.foldl min x := by
  induction xs generalizing x with
  | nil => simpa
  | cons y ys ih =>
    simp only [List.foldl_cons]
    exact ih _ (le_min hx (h y (by simp))) fun z hz => h z (by simp [hz])

theorem cmListMinNonneg (xs : List Rat) (h : ∀ y ∈ xs, 0 ≤ y) : 0 ≤ listMin xs := by
  cases xs with
  | nil => simp [listMin]
  | cons x xs => exact cmFoldlMinNonneg xs x (h x (by simp)) fun y hy => h y (by simp [hy])

theorem cmRoundNat (k : Nat) : Mesh.roundHalfEven (k : Rat) = (k : Int) := by
  unfold Mesh.roundHalfEven
  have hf : ((k : Rat)).floor = (k : Int) := by
    apply rat_floor_eq <;> push_cast <;> linarith
  rw [hf]
  have : (k : Rat) - ((k : Int) : Rat) = 0 := by push_cast; ring
  rw [this]
  norm_num

theorem cmRemainderMul (k : Nat) (c : Rat) (hc : 0 < c) : Mesh.remainder ((k : Rat) * c) c = 0 := by
  unfold Mesh.remainder
  have : (k : Rat) * c / c = (k : Rat) := by field_simp
  rw [this]
  have hf : ((k : Rat)).floor = (k : Int) := by
    apply rat_floor_eq <;> push_cast <;> linarith
  rw [hf]; push_cast; ring

theorem cmBcOkEmptyStr (dims : List String) : Mesh.bcOk dims "" = true := by
  simp [Mesh.bcOk]

theorem cmBcOkEmpty (dims : List String) : Mesh.bcOk dims ("".toLower) = true := by
  rw [cmToLowerEmpty]; exact cmBcOkEmptyStr dims

theorem cmLoOf (r : Region) (n : Nat) (f : Nat → Rat) (a : Nat) (h : r.pmin = tab n f) (ha : a < n) :
    r.lo a = f a := by
  show r.pmin.getD a 0 = f a
  rw [h, getD_tab _ _ _ _ ha]

theorem cmHiOf (r : Region) (n : Nat) (f : Nat → Rat) (a : Nat) (h : r.pmax = tab n f) (ha : a < n) :
    r.hi a = f a := by
  show r.pmax.getD a 0 = f a
  rw [h, getD_tab _ _ _ _ ha]

theorem cmNAtOf (t : Mesh) (n : Nat) (f : Nat → Nat) (a : Nat) (h : t.n = tab n f) (ha : a < n) :
    t.nAt a = f a := by
  show t.n.getD a 0 = f a
  rw [h, getD_tab _ _ _ _ ha]

/-- `Region(p1=…, p2=…)` with default names on corners given pointwise, `p1 < p2` on every axis -/
theorem cmRegionMk (n : Nat) (hn : 0 < n) (f g : Nat → Rat) (hfg : ∀ a, a < n → f a < g a) :
    Region.mk? (tab n f) (tab n g) none none =
      .ok { pmin := tab n f, pmax := tab n g, dims := Region.defaultDims n,
            units := List.replicate n "m", tol := 1/1000000000000 } := by
  have h6 : allLt n (fun a => decide ((tab n f).getD a 0 ≠ (tab n g).getD a 0)) = true := by
    rw [allLt_iff]; intro a ha
    rw [getD_tab _ _ _ _ ha, getD_tab _ _ _ _ ha]
    simpa using ne_of_lt (hfg a ha)
  unfold Region.mk?
  simp only [tab_length, ne_eq, not_true_eq_false, if_false, Region.dimsOk, Region.unitsOk,
    Nat.pos_iff_ne_zero.mp hn, h6, Bool.not_true, Bool.false_eq_true]
  congr 2
  · apply tab_congr; intro a ha
    rw [getD_tab _ _ _ _ ha, getD_tab _ _ _ _ ha]
    exact min_eq_left (le_of_lt (hfg a ha))
  · apply tab_congr; intro a ha
    rw [getD_tab _ _ _ _ ha, getD_tab _ _ _ _ ha]
    exact max_eq_right (le_of_lt (hfg a ha))

/-- `Region(p1=…, p2=…)` refuses corners that coincide on some axis -/
theorem cmRegionMkErr (n : Nat) (f g : Nat → Rat) (a : Nat) (ha : a < n) (hfg : f a = g a) :
    ∃ e, Region.mk? (tab n f) (tab n g) none none = .error e := by
  have h6 : allLt n (fun a => decide ((tab n f).getD a 0 ≠ (tab n g).getD a 0)) = false := by
    apply allLt_false_of _ _ a ha
    rw [getD_tab _ _ _ _ ha, getD_tab _ _ _ _ ha]
    simpa using hfg
  unfold Region.mk?
  simp only [tab_length, ne_eq, not_true_eq_false, if_false, Region.dimsOk, Region.unitsOk, h6,
    Bool.not_false, if_true]
  split
  · exact ⟨_, rfl⟩
  · exact ⟨_, rfl⟩

/-- `Mesh(region=r, cell=cell)` when every edge is a positive whole number of cells -/
theorem cmMkCell (r : Region) (cell : List Rat) (k : Nat → Nat) (hl : cell.length = r.ndim)
    (hpos : ∀ a, a < r.ndim → 0 < cell.getD a 0)
    (hk : ∀ a, a < r.ndim → 0 < k a)
    (hedge : ∀ a, a < r.ndim → r.edge a = (k a : Rat) * cell.getD a 0) :
    Mesh.mkCell? r cell = .ok { region := r, n := tab r.ndim k, bc := "", subs := [] } := by
  have hmem : ∀ y ∈ cell, 0 < y := by
    intro c hcm
    obtain ⟨a, ha, rfl⟩ := List.getElem_of_mem hcm
    have := hpos a (by rw [← hl]; exact ha)
    simpa only [List.getD_eq_getElem?_getD, ha, List.getElem?_eq_getElem, Option.getD_some] using this
  have c2 : cell.any (fun c => decide (c ≤ 0)) = false := by
    rw [List.any_eq_false]
    intro c hcm
    simpa using hmem c hcm
  have c3 : r.containsPt (tab r.ndim fun a => r.lo a + cell.getD a 0) = true := by
    apply cmContainsPtOfExact _ _ (by simp)
    intro a ha
    rw [getD_tab _ _ _ _ ha]
    have hp := hpos a ha
    have he := hedge a ha
    unfold Region.edge at he
    have : (1 : Rat) ≤ (k a : Rat) := by exact_mod_cast hk a ha
    constructor
    · linarith
    · nlinarith
  have htol : 0 ≤ listMin cell / 1000 := by
    apply div_nonneg _ (by norm_num)
    exact cmListMinNonneg _ fun y hy => (hmem y hy).le
  have c4 : allLt r.ndim (fun a => !Mesh.notDivisible (r.edge a) (cell.getD a 0) (listMin cell / 1000)) = true := by
    rw [allLt_iff]
    intro a ha
    rw [hedge a ha]
    unfold Mesh.notDivisible
    rw [cmRemainderMul _ _ (hpos a ha)]
    have : ¬ (listMin cell / 1000 < 0) := not_lt.mpr htol
    simp [this]
  have c4b : allLt r.ndim (fun a => decide (1 ≤ (Mesh.roundHalfEven (r.edge a / cell.getD a 0)).toNat)) = true := by
    rw [allLt_iff]
    intro a ha
    rw [hedge a ha]
    have hp := hpos a ha
    have : (k a : Rat) * cell.getD a 0 / cell.getD a 0 = (k a : Rat) := by field_simp
    rw [this, cmRoundNat]
    have := hk a ha
    simp only [Int.toNat_natCast, decide_eq_true_eq]
    omega
  unfold Mesh.mkCell?
  simp only [hl, ne_eq, not_true_eq_false, if_false, c2, Bool.false_eq_true, c3, Bool.not_true, c4, c4b,
    cmBcOkEmpty]
  congr 1
  have : (tab r.ndim fun a => (Mesh.roundHalfEven (r.edge a / cell.getD a 0)).toNat) = tab r.ndim k := by
    apply tab_congr
    intro a ha
    rw [hedge a ha]
    have hp := hpos a ha
    have : (k a : Rat) * cell.getD a 0 / cell.getD a 0 = (k a : Rat) := by field_simp
    rw [this, cmRoundNat]; simp
  rw [this, cmToLowerEmpty]

/-! ## facts from `Mesh.Inv` -/

theorem cmNdimPos (m : Mesh) (hm : m.Inv) : 0 < m.ndim := hm.1.1

theorem cmLoLtHi (m : Mesh) (hm : m.Inv) (a : Nat) (ha : a < m.ndim) : m.region.lo a < m.region.hi a :=
  hm.1.2.2.2.2.2 a ha

theorem cmCellPos (m : Mesh) (hm : m.Inv) (a : Nat) (ha : a < m.ndim) : 0 < m.cellAt a := by
  unfold Mesh.cellAt Region.edge
  have h1 := cmLoLtHi m hm a ha
  have h2 : (0 : Rat) < (m.nAt a : Rat) := by exact_mod_cast hm.2.2 a ha
  exact div_pos (by linarith) h2

theorem cmEdgeEq (m : Mesh) (hm : m.Inv) (a : Nat) (ha : a < m.ndim) :
    m.region.hi a - m.region.lo a = (m.nAt a : Rat) * m.cellAt a := by
  have h2 : (0 : Rat) < (m.nAt a : Rat) := by exact_mod_cast hm.2.2 a ha
  unfold Mesh.cellAt Region.edge
  field_simp

theorem cmCellGetD (m : Mesh) (a : Nat) (ha : a < m.ndim) : m.cell.getD a 0 = m.cellAt a := by
  unfold Mesh.cell; exact getD_tab _ _ _ _ ha

/-! ## 1. the mesh of `neighbouring_cell_angle` -/

/-- explicit form of the result of `angleMesh` -/
theorem angleMesh_eq (m : Mesh) (hm : m.Inv) (ax : Nat) (hax : ax < m.ndim) (h2 : 2 ≤ m.nAt ax) :
    angleMesh m ax = .ok
      { region := { pmin := tab m.ndim fun a => m.region.lo a + (if a = ax then m.cellAt a / 2 else 0),
                    pmax := tab m.ndim fun a => m.region.hi a - (if a = ax then m.cellAt a / 2 else 0),
                    dims := Region.defaultDims m.ndim, units := List.replicate m.ndim "m",
                    tol := 1/1000000000000 },
        n := tab m.ndim (fun a => if a = ax then m.nAt a - 1 else m.nAt a), bc := "", subs := [] } := by
  have hn2 : (2 : Rat) ≤ (m.nAt ax : Rat) := by exact_mod_cast h2
  have hfg : ∀ a, a < m.ndim → m.region.lo a + (if a = ax then m.cellAt a / 2 else 0) <
      m.region.hi a - (if a = ax then m.cellAt a / 2 else 0) := by
    intro a ha
    have hc := cmCellPos m hm a ha
    have he := cmEdgeEq m hm a ha
    have hl := cmLoLtHi m hm a ha
    split
    · rename_i h; subst h
      nlinarith
    · linarith
  unfold angleMesh
  rw [cmRegionMk m.ndim (cmNdimPos m hm) _ _ hfg]
  simp only
  have hnd : ({ pmin := tab m.ndim fun a => m.region.lo a + (if a = ax then m.cellAt a / 2 else 0),
                pmax := tab m.ndim fun a => m.region.hi a - (if a = ax then m.cellAt a / 2 else 0),
                dims := Region.defaultDims m.ndim, units := List.replicate m.ndim "m",
                tol := 1/1000000000000 } : Region).ndim = m.ndim := by
    simp [Region.ndim]
  have := cmMkCell
    { pmin := tab m.ndim fun a => m.region.lo a + (if a = ax then m.cellAt a / 2 else 0),
      pmax := tab m.ndim fun a => m.region.hi a - (if a = ax then m.cellAt a / 2 else 0),
      dims := Region.defaultDims m.ndim, units := List.replicate m.ndim "m",
      tol := 1/1000000000000 } m.cell (fun a => if a = ax then m.nAt a - 1 else m.nAt a)
    (by rw [hnd]; simp [Mesh.cell])
    (by intro a ha; rw [hnd] at ha; rw [cmCellGetD m a ha]; exact cmCellPos m hm a ha)
    (by
      intro a ha; rw [hnd] at ha
      have := hm.2.2 a ha
      split
      · rename_i h; subst h; omega
      · exact this)
    (by
      intro a ha; rw [hnd] at ha
      rw [cmCellGetD m a ha]
      unfold Region.edge
      rw [cmLoOf _ _ _ a rfl ha, cmHiOf _ _ _ a rfl ha]
      have he := cmEdgeEq m hm a ha
      split
      · rename_i h; subst h
        rw [Nat.cast_sub (by omega)]
        push_cast
        linarith
      · linarith)
  rw [this, hnd]

theorem angleMesh_ok (m : Mesh) (hm : m.Inv) (ax : Nat) (hax : ax < m.ndim) (h2 : 2 ≤ m.nAt ax) :
    ∃ m', angleMesh m ax = .ok m' ∧
      m'.n = tab m.ndim (fun a => if a = ax then m.nAt a - 1 else m.nAt a) ∧
      (∀ a, a < m.ndim →
        m'.region.lo a = m.region.lo a + (if a = ax then m.cellAt a / 2 else 0) ∧
        m'.region.hi a = m.region.hi a - (if a = ax then m.cellAt a / 2 else 0) ∧
        m'.cellAt a = m.cellAt a) ∧
      m'.region.dims = Region.defaultDims m.ndim ∧ m'.ndim = m.ndim := by
  refine ⟨_, angleMesh_eq m hm ax hax h2, rfl, ?_, rfl, by simp [Mesh.ndim, Region.ndim]⟩
  intro a ha
  refine ⟨cmLoOf _ _ (fun a => m.region.lo a + (if a = ax then m.cellAt a / 2 else 0)) a rfl ha,
    cmHiOf _ _ (fun a => m.region.hi a - (if a = ax then m.cellAt a / 2 else 0)) a rfl ha, ?_⟩
  have he := cmEdgeEq m hm a ha
  have hc := cmCellPos m hm a ha
  have hn : (0 : Rat) < (m.nAt a : Rat) := by exact_mod_cast hm.2.2 a ha
  show Region.edge _ a / ((Mesh.nAt _ a : Nat) : Rat) = m.cellAt a
  unfold Region.edge
  rw [cmLoOf _ _ _ a rfl ha, cmHiOf _ _ _ a rfl ha, cmNAtOf _ _ _ a rfl ha]
  split
  · rename_i h; subst h
    have hn2 : (2 : Rat) ≤ (m.nAt a : Rat) := by exact_mod_cast h2
    have hk : ((m.nAt a - 1 : Nat) : Rat) = (m.nAt a : Rat) - 1 := by
      rw [Nat.cast_sub (by omega)]; push_cast; ring
    have hk0 : (m.nAt a : Rat) - 1 ≠ 0 := by intro h0; linarith
    rw [hk, div_eq_iff hk0]
    linarith
  · rw [div_eq_iff (ne_of_gt hn)]
    linarith

/-- the pointwise description of `n` is the list the model compares against -/
theorem cmTabSetAt (m : Mesh) (hm : m.Inv) (ax : Nat) (v : Nat) :
    tab m.ndim (fun a => if a = ax then v else m.nAt a) = setAt m.n ax v := by
  symm
  have hlen : m.n.length = m.ndim := hm.2.1
  apply eq_tab_of_getD _ _ _ 0 (by rw [cmSetAtLength, hlen])
  intro a ha
  rw [cmGetDSetAt]
  by_cases h : a = ax
  · subst h; simp [hlen, ha]
  · simp [h, Mesh.nAt]

theorem angleMesh_n (m : Mesh) (hm : m.Inv) (ax : Nat) (hax : ax < m.ndim) (h2 : 2 ≤ m.nAt ax)
    (m' : Mesh) (h : angleMesh m ax = .ok m') : m'.n = setAt m.n ax (m.nAt ax - 1) := by
  rw [angleMesh_eq m hm ax hax h2] at h
  injection h with h
  subst h
  simp only
  rw [← cmTabSetAt m hm ax (m.nAt ax - 1)]
  apply tab_congr
  intro a _
  by_cases h : a = ax
  · subst h; simp
  · simp [h]

/-! ## 2. a single cell along the direction -/

theorem angleMesh_single (m : Mesh) (hm : m.Inv) (ax : Nat) (hax : ax < m.ndim) (h1 : m.nAt ax = 1) :
    ∃ e, angleMesh m ax = .error e := by
  have he := cmEdgeEq m hm ax hax
  rw [h1] at he
  obtain ⟨e, h⟩ := cmRegionMkErr m.ndim
    (fun a => m.region.lo a + (if a = ax then m.cellAt a / 2 else 0))
    (fun a => m.region.hi a - (if a = ax then m.cellAt a / 2 else 0)) ax hax
    (by simp only [if_true]; push_cast at he; linarith)
  unfold angleMesh
  rw [h]
  exact ⟨e, rfl⟩

/-! ## 3. the mesh of the demagnetisation tensor -/

theorem tensorMesh_eq (m : Mesh) (hm : m.Inv) :
    tensorMesh m = .ok
      { region := { pmin := tab m.ndim fun a => (-(m.nAt a : Rat) + 1) * m.cellAt a - m.cellAt a / 2,
                    pmax := tab m.ndim fun a => ((m.nAt a : Rat) - 1) * m.cellAt a + m.cellAt a / 2,
                    dims := Region.defaultDims m.ndim, units := List.replicate m.ndim "m",
                    tol := 1/1000000000000 },
        n := tab m.ndim (fun a => 2 * m.nAt a - 1), bc := "", subs := [] } := by
  have hfg : ∀ a, a < m.ndim → (-(m.nAt a : Rat) + 1) * m.cellAt a - m.cellAt a / 2 <
      ((m.nAt a : Rat) - 1) * m.cellAt a + m.cellAt a / 2 := by
    intro a ha
    have hc := cmCellPos m hm a ha
    have hn : (1 : Rat) ≤ (m.nAt a : Rat) := by exact_mod_cast hm.2.2 a ha
    nlinarith
  unfold tensorMesh
  rw [cmRegionMk m.ndim (cmNdimPos m hm) _ _ hfg]
  simp only
  unfold Mesh.mkN?
  have hany : (tab m.ndim fun a => 2 * m.nAt a - 1).any (· = 0) = false := by
    rw [List.any_eq_false]
    intro y hy
    obtain ⟨a, ha, rfl⟩ := (cmMemTab _ _ _).mp hy
    have := hm.2.2 a ha
    simp only [decide_eq_true_eq]
    omega
  simp only [tab_length, Region.ndim, ne_eq, not_true_eq_false, if_false, hany, Bool.false_eq_true,
    cmToLowerEmpty, cmBcOkEmptyStr, Bool.not_true]

theorem tensorMesh_ok (m : Mesh) (hm : m.Inv) :
    ∃ tm, tensorMesh m = .ok tm ∧ tm.ndim = m.ndim ∧
      (∀ a, a < m.ndim → tm.nAt a = 2 * m.nAt a - 1 ∧ tm.cellAt a = m.cellAt a ∧
        tm.region.lo a = (-(m.nAt a : Rat) + 1) * m.cellAt a - m.cellAt a / 2) := by
  refine ⟨_, tensorMesh_eq m hm, by simp [Mesh.ndim, Region.ndim], ?_⟩
  intro a ha
  refine ⟨cmNAtOf _ _ (fun a => 2 * m.nAt a - 1) a rfl ha, ?_,
    cmLoOf _ _ (fun a => (-(m.nAt a : Rat) + 1) * m.cellAt a - m.cellAt a / 2) a rfl ha⟩
  show Region.edge _ a / ((Mesh.nAt _ a : Nat) : Rat) = m.cellAt a
  rw [cmNAtOf _ _ _ a rfl ha]
  unfold Region.edge
  rw [cmLoOf _ _ _ a rfl ha, cmHiOf _ _ _ a rfl ha]
  have h1 : (1 : Rat) ≤ (m.nAt a : Rat) := by exact_mod_cast hm.2.2 a ha
  have hk : ((2 * m.nAt a - 1 : Nat) : Rat) = 2 * (m.nAt a : Rat) - 1 := by
    have := hm.2.2 a ha
    rw [Nat.cast_sub (by omega)]; push_cast; ring
  have hk0 : 2 * (m.nAt a : Rat) - 1 ≠ 0 := by intro h0; linarith
  rw [hk, div_eq_iff hk0]
  ring

/-! ## 4. both tensor builders use the same evaluation points -/

theorem arrPoint_eq (m : Mesh) (hm : m.Inv) (a : Nat) (ha : a < m.ndim) (j : Nat)
    (hj : j < 2 * m.nAt a - 1) :
    arrPoint m a j = ((j : Rat) - (m.nAt a : Rat) + 1) * m.cellAt a := by
  have hpos := hm.2.2 a ha
  unfold arrPoint Mesh.linspace
  split
  · rename_i h1
    have hn1 : m.nAt a = 1 := by omega
    have hj0 : j = 0 := by omega
    subst hj0
    rw [hn1]
    simp
  · rename_i h1
    rw [getD_tab _ _ _ _ hj]
    have hn2 : 2 ≤ m.nAt a := by omega
    have hq : (2 : Rat) ≤ (m.nAt a : Rat) := by exact_mod_cast hn2
    have hk : ((2 * m.nAt a - 1 : Nat) : Rat) = 2 * (m.nAt a : Rat) - 1 := by
      rw [Nat.cast_sub (by omega)]; push_cast; ring
    rw [hk]
    have hd : 2 * (m.nAt a : Rat) - 1 - 1 ≠ 0 := by intro h0; linarith
    have hstep : (((m.nAt a : Rat) - 1) * m.cellAt a - (-(m.nAt a : Rat) + 1) * m.cellAt a) /
        (2 * (m.nAt a : Rat) - 1 - 1) = m.cellAt a := by
      rw [div_eq_iff hd]; ring
    rw [hstep]
    ring

theorem tensor_points_agree (m tm : Mesh) (hm : m.Inv) (h : tensorMesh m = .ok tm) (a : Nat)
    (ha : a < m.ndim) (j : Nat) (hj : j < 2 * m.nAt a - 1) :
    tm.centreAx a (j : Int) = arrPoint m a j ∧
      arrPoint m a j = ((j : Rat) - (m.nAt a : Rat) + 1) * m.cellAt a := by
  obtain ⟨tm', h', _, hall⟩ := tensorMesh_ok m hm
  rw [h] at h'
  injection h' with h'
  subst h'
  obtain ⟨_, hc, hlo⟩ := hall a ha
  refine ⟨?_, arrPoint_eq m hm a ha j hj⟩
  rw [arrPoint_eq m hm a ha j hj]
  unfold Mesh.centreAx
  rw [hc, hlo]
  push_cast
  ring

theorem tensor_builders_agree (pi : Rat) (m tm : Mesh) (hm : m.Inv) (h3 : m.ndim = 3)
    (h : tensorMesh m = .ok tm) (j : List Nat) (hj : ∀ a, a < 3 → j.getD a 0 < 2 * m.nAt a - 1) :
    tensorFld pi tm j = tensorArr pi m j := by
  obtain ⟨tm', h', _, hall⟩ := tensorMesh_ok m hm
  rw [h] at h'
  injection h' with h'
  subst h'
  have p0 := (tensor_points_agree m tm hm h 0 (by omega) _ (hj 0 (by omega))).1
  have p1 := (tensor_points_agree m tm hm h 1 (by omega) _ (hj 1 (by omega))).1
  have p2 := (tensor_points_agree m tm hm h 2 (by omega) _ (hj 2 (by omega))).1
  unfold tensorFld tensorArr
  rw [p0, p1, p2, (hall 0 (by omega)).2.1, (hall 1 (by omega)).2.1, (hall 2 (by omega)).2.1]

end DFV.C19
