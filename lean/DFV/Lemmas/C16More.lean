import DFV.Lemmas.C16Layout
/-! C16 helper lemmas, part 21: the per-label scalar arrays for any distinct labels; the side-car
loader without any assumption on the entries; the text form without side-car from an error
bound on the writer's rounding. -/
namespace DFV.C16
open DFV DFV.Mesh

/-! ## the scalar array of a label, for any distinct labels -/

theorem lastNamed_compArrays (mk : String → VArr) (hmk : ∀ l, (mk l).name = l) (ws : List String) (acc : List VArr)
    (hacc : (names acc).Nodup) (nm : String) :
    lastNamed nm (ws.foldl (fun acc lbl => addArray acc (mk lbl)) acc) = if nm ∈ ws then some (mk nm) else lastNamed nm acc := by
  induction ws generalizing acc with
  | nil => simp
  | cons w ws ih =>
    simp only [List.foldl_cons]
    rw [ih _ (names_addArray_nodup acc _ hacc), lastNamed_addArray _ _ _ hacc, hmk]
    by_cases h1 : nm ∈ ws
    · have : nm ∈ w :: ws := List.mem_cons_of_mem _ h1
      rw [if_pos h1, if_pos this]
    · rw [if_neg h1]
      by_cases h2 : w = nm
      · subst h2
        rw [if_pos rfl, if_pos (by simp)]
      · have : ¬ nm ∈ w :: ws := by
          simp only [List.mem_cons, not_or]
          exact ⟨fun e => h2 e.symm, h1⟩
        rw [if_neg h2, if_neg this]

/-- `GetArray(l)` for a label `l` of a field with several components: the component's scalar
array unless `l` is `field` or `valid` (then the vector array / the flags) -/
theorem cellData_label (f : Fld) (nx ny nz : Nat) (h : WFc f nx ny nz) (hnv : 1 < f.nvdim) (vs : List String)
    (hvs : f.vdims = some vs) (l : String) (hl : l ∈ vs) (h1 : l ≠ "field") (h2 : l ≠ "valid") :
    (cellData f).find? (fun a => a.name == l) = some (compVArr f vs l) := by
  rw [find_eq_lastNamed _ _ (cellData_nodup f), cellData_pre,
    lastNamed_addArray _ _ _ (names_addArray_nodup _ _ (preData_nodup f))]
  have n1 : ¬ (validVArr f).name = l := fun e => h2 e.symm
  rw [if_neg n1, lastNamed_addArray _ _ _ (preData_nodup f)]
  have n2 : ¬ (fieldVArr f).name = l := fun e => h1 e.symm
  rw [if_neg n2]
  unfold preData
  rw [if_pos hnv, hvs]
  simp only [Option.getD_some]
  unfold compArrays
  rw [lastNamed_compArrays (compVArr f vs) (compVArr_name f vs) vs _ (by simp [addArray, names]) l, if_pos hl]

/-! ## the side-car loader with arbitrary entries -/

/-- `Region(**val)` accepts exactly the well-formed entries (and returns them unchanged) -/
theorem regionKw_ok_iff (s : Region) : (∃ r, regionKw s = .ok r) ↔ s.Inv := by
  constructor
  · rintro ⟨r, h⟩
    unfold regionKw at h
    split at h
    · cases h
    · rename_i hl
      split at h
      · cases h
      · rename_i hall
        have hall' : allLt s.pmin.length (fun a => decide (s.pmin.getD a 0 < s.pmax.getD a 0)) = true := by
          simpa using hall
        have hlt := (allLt_iff _ _).mp hall'
        unfold Region.mk? at h
        split at h
        · cases h
        · split at h
          · cases h
          · rename_i h0
            simp only [Region.dimsOk, Region.unitsOk] at h
            split at h
            · cases h
            · rename_i d hd
              split at hd
              · cases hd
              · rename_i hdl
                split at hd
                · cases hd
                · rename_i hdd
                  split at h
                  · cases h
                  · rename_i u hu
                    split at hu
                    · cases hu
                    · rename_i hul
                      refine ⟨by omega, by omega, not_not.mp hdl, not_not.mp hul, by simpa using hdd, ?_⟩
                      intro a ha
                      have := hlt a ha
                      simpa [Region.lo, Region.hi] using this
  · intro h
    exact ⟨s, regionKw_inv s h⟩

theorem mapE_all_iff {α β : Type} (g : α → M β) (P : β → Bool) (l : List α) :
    (∃ ys, mapE g l = .ok ys ∧ ys.all P = true) ↔ ∀ x ∈ l, ∃ y, g x = .ok y ∧ P y = true := by
  induction l with
  | nil => simp [mapE]
  | cons x xs ih =>
    simp only [mapE]
    constructor
    · rintro ⟨ys, hys, hall⟩
      cases hg : g x with
      | error e => rw [hg] at hys; cases hys
      | ok y =>
        rw [hg] at hys
        simp only at hys
        cases hm : mapE g xs with
        | error e => rw [hm] at hys; cases hys
        | ok ys' =>
          rw [hm] at hys
          simp only at hys
          injection hys with hys
          subst hys
          simp only [List.all_cons, Bool.and_eq_true] at hall
          have hrest := ih.mp ⟨ys', hm, hall.2⟩
          intro z hz
          rcases List.mem_cons.mp hz with rfl | hz
          · exact ⟨y, hg, hall.1⟩
          · exact hrest z hz
    · intro hh
      obtain ⟨y, hy, hp⟩ := hh x (by simp)
      obtain ⟨ys', hm, hall⟩ := ih.mpr (fun z hz => hh z (by simp [hz]))
      rw [hy, hm]
      exact ⟨y :: ys', rfl, by simp [hp, hall]⟩

/-- **the side-car loads exactly when every entry is a well-formed region that passes the
setter's test** — no assumption on the entries -/
theorem loadSubs_ok_iff_general (m : Mesh) (l : List (String × Region)) :
    (∃ m1, loadSubs m (some l) = .ok m1) ↔ ∀ p ∈ l, p.2.Inv ∧ T.candOk m p.2 = true := by
  have key := mapE_all_iff (fun (p : String × Region) => (regionKw p.2).map fun r => (p.1, r))
    (fun (q : String × Region) => T.candOk m q.2) l
  have hentry : ∀ p : String × Region,
      (∃ y, ((regionKw p.2).map fun r => (p.1, r)) = .ok y ∧ T.candOk m y.2 = true) ↔ (p.2.Inv ∧ T.candOk m p.2 = true) := by
    intro p
    constructor
    · rintro ⟨y, hy, hs⟩
      cases hr : regionKw p.2 with
      | error e => rw [hr] at hy; cases hy
      | ok r =>
        have hinv := (regionKw_ok_iff p.2).mp ⟨r, hr⟩
        rw [regionKw_inv p.2 hinv] at hr
        injection hr with hr
        rw [regionKw_inv p.2 hinv] at hy
        simp only [Except.map] at hy
        injection hy with hy
        rw [← hy] at hs
        exact ⟨hinv, hs⟩
    · rintro ⟨hinv, hs⟩
      exact ⟨(p.1, p.2), by rw [regionKw_inv p.2 hinv]; rfl, hs⟩
  unfold loadSubs
  simp only
  constructor
  · rintro ⟨m1, h⟩
    cases hm : mapE (fun (p : String × Region) => (regionKw p.2).map fun r => (p.1, r)) l with
    | error e => rw [hm] at h; cases h
    | ok subs =>
      rw [hm] at h
      simp only at h
      have hall : subs.all (fun q => T.candOk m q.2) = true := by
        unfold T.setSubs at h
        split at h
        · assumption
        · cases h
      have := key.mp ⟨subs, hm, hall⟩
      intro p hp
      exact (hentry p).mp (this p hp)
  · intro hh
    obtain ⟨subs, hm, hall⟩ := key.mpr (fun p hp => (hentry p).mpr (hh p hp))
    rw [hm]
    simp only
    unfold T.setSubs
    rw [if_pos hall]
    exact ⟨_, rfl⟩

/-! ## rounding with a relative error bound keeps an edge open -/

theorem rnd_keeps_order (rnd : Rat → Rat) (ε lo hi : Rat) (hε : ∀ x, |rnd x - x| ≤ ε * |x|)
    (hedge : ε * (|lo| + |hi|) < hi - lo) : rnd lo < rnd hi := by
  have h1 := hε lo
  have h2 := hε hi
  have a1 := abs_le.mp h1
  have a2 := abs_le.mp h2
  have : rnd lo ≤ lo + ε * |lo| := by linarith [a1.2]
  have : hi - ε * |hi| ≤ rnd hi := by linarith [a2.1]
  have : ε * (|lo| + |hi|) = ε * |lo| + ε * |hi| := by ring
  linarith

end DFV.C16
