import DFV.Model.C20
import DFV.Lemmas.RatFloor
/-! Lemmas about the SI prefix table and the multiplier search (C20). -/
namespace DFV.C20
open DFV

theorem p1000_succ (k : Int) : p1000 (k + 1) = 1000 * p1000 k := by
  unfold p1000
  by_cases h : 0 ≤ k
  · have h1 : 0 ≤ k + 1 := by omega
    simp only [h, h1, if_true]
    have : (k + 1).toNat = k.toNat + 1 := by omega
    rw [this, pow_succ]; ring
  · by_cases h1 : 0 ≤ k + 1
    · have hk : k = -1 := by omega
      subst hk
      norm_num
    · simp only [h, h1, if_false]
      have : (-k).toNat = (-(k + 1)).toNat + 1 := by omega
      rw [this, pow_succ]
      have : (1000 : Rat) ^ (-(k + 1)).toNat ≠ 0 := by positivity
      field_simp

theorem p1000_pos (k : Int) : 0 < p1000 k := by
  unfold p1000
  split <;> positivity

theorem p1000_zero : p1000 0 = 1 := by unfold p1000; simp

/-- `p1000 (j + d + 1) ≥ 1000 · p1000 j` -/
theorem p1000_add (j : Int) (d : Nat) : 1000 * p1000 j ≤ p1000 (j + d + 1) := by
  induction d with
  | zero => simp [p1000_succ]
  | succ d ih =>
    have : j + ((d + 1 : Nat) : Int) + 1 = (j + d + 1) + 1 := by push_cast; ring
    rw [this, p1000_succ]
    have := p1000_pos (j + d + 1)
    linarith

theorem p1000_lt (j k : Int) (h : j < k) : 1000 * p1000 j ≤ p1000 k := by
  have : k = j + ((k - j - 1).toNat : Nat) + 1 := by omega
  rw [this]
  exact p1000_add j _

/-- decades are disjoint: a value lies in at most one `[1000^k, 1000^(k+1))` -/
theorem decade_unique (a : Rat) (j k : Int)
    (hj : 1 ≤ a / p1000 j ∧ a / p1000 j < 1000) (hk : 1 ≤ a / p1000 k ∧ a / p1000 k < 1000) :
    j = k := by
  have pj := p1000_pos j
  have pk := p1000_pos k
  rw [le_div_iff₀ pj, div_lt_iff₀ pj] at hj
  rw [le_div_iff₀ pk, div_lt_iff₀ pk] at hk
  rcases lt_trichotomy j k with h | h | h
  · have := p1000_lt j k h
    linarith
  · exact h
  · have := p1000_lt k j h
    linarith

theorem inDecade_iff (v m : Rat) :
    inDecade v m = true ↔ 1 ≤ absR v / m ∧ absR v / m < 1000 := by
  simp [inDecade]

theorem mem_siTable (p : String) (m : Rat) :
    (p, m) ∈ siTable ↔ ∃ k, (p, k) ∈ siExps ∧ m = p1000 k := by
  unfold siTable
  constructor
  · intro h
    obtain ⟨q, hq, he⟩ := List.mem_map.mp h
    refine ⟨q.2, ?_, ?_⟩
    · have : q = (p, q.2) := by rw [← (Prod.mk.inj he).1]
      rw [← this]; exact hq
    · exact (Prod.mk.inj he).2.symm
  · rintro ⟨k, hk, rfl⟩
    exact List.mem_map.mpr ⟨(p, k), hk, rfl⟩

/-- every multiplier of the table is positive -/
theorem siTable_pos (p : String) (m : Rat) (h : (p, m) ∈ siTable) : 0 < m := by
  obtain ⟨k, _, rfl⟩ := (mem_siTable p m).mp h
  exact p1000_pos k

/-- the table is the inverse of itself (finite table, checked by evaluation) -/
theorem rsiPrefix_table : ∀ p ∈ siExps, rsiPrefix? (p1000 p.2) = some p.1 := by decide +kernel

theorem rsiPrefix_some (m : Rat) (p : String) (h : rsiPrefix? m = some p) : (p, m) ∈ siTable := by
  unfold rsiPrefix? at h
  cases hf : siTable.find? (fun q => q.2 == m) with
  | none => rw [hf] at h; cases h
  | some q =>
    rw [hf] at h
    have hm := List.mem_of_find?_eq_some hf
    have hp := List.find?_some hf
    have h1 : q.1 = p := by simpa using h
    have h2 : q.2 = m := by simpa using hp
    have : q = (p, m) := by rw [← h1, ← h2]
    rw [← this]; exact hm

theorem rsiPrefix_pos (m : Rat) (p : String) (h : rsiPrefix? m = some p) : 0 < m :=
  siTable_pos p m (rsiPrefix_some m p h)

theorem siExps_range (p : String) (k : Int) (h : (p, k) ∈ siExps) : -8 ≤ k ∧ k ≤ 8 := by
  simp [siExps] at h
  omega

theorem siExps_exists (k : Int) (h1 : -8 ≤ k) (h2 : k ≤ 8) : ∃ p, (p, k) ∈ siExps := by
  have : k = -8 ∨ k = -7 ∨ k = -6 ∨ k = -5 ∨ k = -4 ∨ k = -3 ∨ k = -2 ∨ k = -1 ∨ k = 0 ∨ k = 1 ∨
      k = 2 ∨ k = 3 ∨ k = 4 ∨ k = 5 ∨ k = 6 ∨ k = 7 ∨ k = 8 := by omega
  rcases this with h | h | h | h | h | h | h | h | h | h | h | h | h | h | h | h | h <;>
    subst h <;> simp [siExps]

/-- what `si_multiplier` returns for a non-zero value lies in the table and puts the value
in `[1, 1000)` -/
theorem siMultiplier_sound (v m : Rat) (hv : v ≠ 0) (h : siMultiplier v = some m) :
    ∃ p k, (p, k) ∈ siExps ∧ m = p1000 k ∧ 1 ≤ absR v / m ∧ absR v / m < 1000 := by
  unfold siMultiplier at h
  simp only [hv, if_false] at h
  cases hf : siTable.reverse.find? (fun p => inDecade v p.2) with
  | none => rw [hf] at h; cases h
  | some q =>
    rw [hf] at h
    have hm : q ∈ siTable := by
      have := List.mem_of_find?_eq_some hf
      simpa using this
    have hp := List.find?_some hf
    have h2 : q.2 = m := by simpa using h
    obtain ⟨k, hk, hmk⟩ := (mem_siTable q.1 q.2).mp (by simpa using hm)
    refine ⟨q.1, k, hk, by rw [← h2, hmk], ?_⟩
    rw [← h2]
    exact (inDecade_iff v q.2).mp hp

/-- if some table entry puts the value in `[1, 1000)`, `si_multiplier` returns exactly it -/
theorem siMultiplier_complete (v : Rat) (hv : v ≠ 0) (p : String) (k : Int) (hk : (p, k) ∈ siExps)
    (hd : 1 ≤ absR v / p1000 k ∧ absR v / p1000 k < 1000) : siMultiplier v = some (p1000 k) := by
  cases hs : siMultiplier v with
  | none =>
    unfold siMultiplier at hs
    simp only [hv, if_false] at hs
    have hnone : siTable.reverse.find? (fun p => inDecade v p.2) = none := by
      cases hf : siTable.reverse.find? (fun p => inDecade v p.2) with
      | none => rfl
      | some q => rw [hf] at hs; cases hs
    have := List.find?_eq_none.mp hnone (p, p1000 k)
      (by simpa using (mem_siTable p (p1000 k)).mpr ⟨k, hk, rfl⟩)
    have hin := (inDecade_iff v (p1000 k)).mpr hd
    simp [hin] at this
  | some m =>
    obtain ⟨_, k', _, hm, hd'⟩ := siMultiplier_sound v m hv hs
    rw [hm] at hd'
    have := decade_unique (absR v) k' k hd' hd
    rw [hm, this]

/-- some decade of the table contains every magnitude between `1000^-8` and `1000^9` -/
theorem decade_exists (a : Rat) (d : Nat) (h1 : p1000 (-8) ≤ a) (h2 : a < p1000 (-8 + d)) :
    ∃ k : Int, -8 ≤ k ∧ k < -8 + d ∧ p1000 k ≤ a ∧ a < p1000 (k + 1) := by
  induction d with
  | zero => simp at h2; linarith
  | succ d ih =>
    by_cases h : a < p1000 (-8 + d)
    · obtain ⟨k, hk1, hk2, hk3⟩ := ih h
      exact ⟨k, hk1, by push_cast; omega, hk3⟩
    · refine ⟨-8 + d, by omega, by push_cast; omega, by linarith, ?_⟩
      have : -8 + ((d + 1 : Nat) : Int) = -8 + (d : Int) + 1 := by push_cast; ring
      rw [← this]; exact h2

/-- `si_multiplier` finds a multiplier for every magnitude in `[1e-24, 1e27)` -/
theorem siMultiplier_total (v : Rat) (hv : v ≠ 0) (h1 : p1000 (-8) ≤ absR v) (h2 : absR v < p1000 9) :
    ∃ p k, (p, k) ∈ siExps ∧ siMultiplier v = some (p1000 k) := by
  obtain ⟨k, hk1, hk2, hk3, hk4⟩ := decade_exists (absR v) 17 h1 (by simpa using h2)
  obtain ⟨p, hp⟩ := siExps_exists k hk1 (by omega)
  refine ⟨p, k, hp, siMultiplier_complete v hv p k hp ?_⟩
  have pk := p1000_pos k
  rw [p1000_succ] at hk4
  rw [le_div_iff₀ pk, div_lt_iff₀ pk]
  constructor <;> linarith

end DFV.C20
