import DFV.Props.C01
import DFV.Lemmas.C16Index
/-! C16 helper lemmas, part 2: the grid's coordinate arrays are the mesh vertices; interval
search in them is `Mesh.indexAx`; VTK's structured cell id is `flatF`. -/
namespace DFV.C16
open DFV DFV.Mesh

theorem list3_eq {α} (l : List α) (d : α) (h : l.length = 3) : l = [l.getD 0 d, l.getD 1 d, l.getD 2 d] := by
  match l, h with
  | [a, b, c], _ => rfl

theorem linspace_length (a b : Rat) (n : Nat) (hn : 0 < n) : (linspace a b n).length = n := by
  unfold linspace
  split
  · rename_i h; simp [h]
  · simp

theorem vertices_length (m : Mesh) (a : Nat) (ha : a < m.ndim) : ((m.vertices).getD a []).length = m.nAt a + 1 := by
  unfold vertices
  rw [getD_tab _ _ _ _ ha, linspace_length _ _ _ (by omega)]

/-- what `findInterval` returns is an interval that holds `x` (any ascending or not array) -/
theorem findInterval_sound (X : List Rat) (x : Rat) (i : Nat) (h : findInterval X x = some i) :
    i + 1 < X.length ∧ X.getD i 0 ≤ x ∧ x ≤ X.getD (i + 1) 0 ∧
    (x < X.getD (i + 1) 0 ∨ i + 2 = X.length) := by
  unfold findInterval at h
  rw [List.find?_range_eq_some] at h
  obtain ⟨hp, hm, _⟩ := h
  have hi : i < X.length - 1 := List.mem_range.mp hm
  simp only [Bool.and_eq_true, Bool.or_eq_true, decide_eq_true_eq] at hp
  obtain ⟨h1, h2⟩ := hp
  refine ⟨by omega, h1, ?_, ?_⟩
  · rcases h2 with h2 | ⟨_, h2⟩
    · exact le_of_lt h2
    · exact le_of_eq h2
  · rcases h2 with h2 | ⟨h2, _⟩
    · exact Or.inl h2
    · exact Or.inr h2

/-- interval search in the vertex array of axis `a` is `Mesh.indexAx` on the closed edge -/
theorem findInterval_vertices (m : Mesh) (a : Nat) (ha : a < m.ndim) (hn : 0 < m.nAt a)
    (hr : m.region.lo a < m.region.hi a) (x : Rat) (hlo : m.region.lo a ≤ x) (hhi : x ≤ m.region.hi a) :
    findInterval ((m.vertices).getD a []) x = some (m.indexAx a x) := by
  obtain ⟨hlt, hle, hup⟩ := C01.index_contains_axis m a x hn hr hlo hhi
  have hc := C01.cell_pos m a hn hr
  have hcov := C01.cells_cover_edges m a hn
  unfold Region.edge at hcov
  have hlen := vertices_length m a ha
  have hX : ∀ j, j ≤ m.nAt a → ((m.vertices).getD a []).getD j 0 = m.region.lo a + (j : Rat) * m.cellAt a :=
    fun j hj => C01.vertices_eq_faces m a ha hn j hj
  unfold findInterval
  rw [List.find?_range_eq_some]
  refine ⟨?_, ?_, ?_⟩
  · simp only [Bool.and_eq_true, Bool.or_eq_true, decide_eq_true_eq]
    rw [hX _ (by omega), hX _ (by omega), hlen]
    push_cast
    refine ⟨hle, ?_⟩
    rcases hup with h | ⟨h1, h2⟩
    · exact Or.inl h
    · right
      refine ⟨by omega, ?_⟩
      have : ((m.indexAx a x : Nat) : Rat) + 1 = (m.nAt a : Rat) := by
        have : m.indexAx a x + 1 = m.nAt a := by omega
        exact_mod_cast this
      rw [this]; linarith
  · rw [hlen]; exact List.mem_range.mpr (by omega)
  · intro j hj
    simp only [Bool.not_eq_true', Bool.and_eq_false_iff, Bool.or_eq_false_iff, decide_eq_false_iff_not]
    right
    rw [hX _ (by omega), hlen]
    have hjq : ((j : Nat) : Rat) + 1 ≤ ((m.indexAx a x : Nat) : Rat) := by
      have : j + 1 ≤ m.indexAx a x := by omega
      exact_mod_cast this
    have hmono : m.region.lo a + ((j : Rat) + 1) * m.cellAt a ≤ m.region.lo a + (m.indexAx a x : Rat) * m.cellAt a := by
      have := mul_le_mul_of_nonneg_right hjq hc.le
      linarith
    push_cast
    exact ⟨by linarith, Or.inl (by omega)⟩

/-- VTK's structured cell id is the first-index-fastest flat index -/
theorem cellId_eq_flatF (nx ny nz i j k : Nat) :
    cellId [nx + 1, ny + 1, nz + 1] i j k = flatF [nx, ny, nz] [i, j, k] := by
  simp [cellId, flatF]

theorem inRange3 (nx ny nz i j k : Nat) (hi : i < nx) (hj : j < ny) (hk : k < nz) :
    inRange [nx, ny, nz] [i, j, k] = true := by
  simp [inRange, hi, hj, hk]

end DFV.C16
