import DFV.Lemmas.C16Subs
/-! C16 helper lemmas, part 11: histories of writes and reads in a directory. -/
namespace DFV.C16
open DFV

theorem look_put_same {α : Type} (l : List (String × α)) (k : String) (v : α) : look (put l k v) k = some v := by
  induction l with
  | nil => simp [put, look]
  | cons p l ih =>
    simp only [put]
    split
    · simp [look]
    · rename_i hne
      unfold look at ih ⊢
      rw [List.find?_cons_of_neg (by simpa using hne)]
      exact ih

theorem look_put_other {α : Type} (l : List (String × α)) (k k' : String) (v : α) (h : k' ≠ k) :
    look (put l k v) k' = look l k' := by
  induction l with
  | nil =>
    simp only [put, look]
    rw [List.find?_cons_of_neg (by simpa using fun e => h e.symm)]
  | cons p l ih =>
    simp only [put]
    split
    · rename_i he
      unfold look
      rw [List.find?_cons_of_neg (by simpa using fun e => h e.symm),
        List.find?_cons_of_neg (by simp only [beq_iff_eq]; rw [he]; exact fun e => h e.symm)]
    · unfold look at ih ⊢
      by_cases hp : p.1 = k'
      · rw [List.find?_cons_of_pos (by simpa using hp), List.find?_cons_of_pos (by simpa using hp)]
      · rw [List.find?_cons_of_neg (by simpa using hp), List.find?_cons_of_neg (by simpa using hp)]
        exact ih

/-- what a successful write leaves under its own name -/
theorem write_read_same (d d' : Dir) (name : String) (f : Fld) (rep : String) (save : Bool) (rnd : Rat → Rat)
    (h : d.write name f rep save rnd = .ok d') :
    ∃ v, toFile f rep save rnd = .ok v ∧
      d'.read name = readVtk v.grid [] (match v.sidecar with
                                        | some s => some s
                                        | none => look d.json name) := by
  unfold Dir.write at h
  split at h
  · cases h
  · rename_i v hv
    injection h with h
    subst h
    refine ⟨v, hv, ?_⟩
    unfold Dir.read
    simp only [look_put_same]
    cases hs : v.sidecar with
    | none => rfl
    | some s => simp only [look_put_same]

/-- a write does not touch files of other names -/
theorem write_read_other (d d' : Dir) (name name' : String) (f : Fld) (rep : String) (save : Bool) (rnd : Rat → Rat)
    (h : d.write name f rep save rnd = .ok d') (hne : name' ≠ name) :
    look d'.vtk name' = look d.vtk name' ∧ look d'.json name' = look d.json name' := by
  unfold Dir.write at h
  split at h
  · cases h
  · rename_i v hv
    injection h with h
    subst h
    refine ⟨look_put_other _ _ _ _ hne, ?_⟩
    cases hs : v.sidecar with
    | none => rfl
    | some s => exact look_put_other _ _ _ _ hne

/-- calls on other file names leave the two files of `name` as they are -/
theorem step_other (rnd : Rat → Rat) (d : Dir) (o : DOp) (name : String) (hne : o.name ≠ name) :
    look (d.step rnd o).1.vtk name = look d.vtk name ∧ look (d.step rnd o).1.json name = look d.json name := by
  cases o with
  | read n => exact ⟨rfl, rfl⟩
  | write n f rep save =>
    simp only [Dir.step]
    cases hw : d.write n f rep save rnd with
    | error e => exact ⟨rfl, rfl⟩
    | ok d' => exact write_read_other d d' n name f rep save rnd hw (fun e => hne e.symm)

theorem after_other (rnd : Rat → Rat) (d : Dir) (ops : List DOp) (name : String) (h : ∀ o ∈ ops, o.name ≠ name) :
    look (Dir.after rnd d ops).vtk name = look d.vtk name ∧ look (Dir.after rnd d ops).json name = look d.json name := by
  induction ops generalizing d with
  | nil => exact ⟨rfl, rfl⟩
  | cons o os ih =>
    simp only [Dir.after]
    obtain ⟨h1, h2⟩ := ih (d.step rnd o).1 fun p hp => h p (by simp [hp])
    obtain ⟨h3, h4⟩ := step_other rnd d o name (h o (by simp))
    exact ⟨h1.trans h3, h2.trans h4⟩

/-- reads never change the directory, failed writes neither -/
theorem step_read (rnd : Rat → Rat) (d : Dir) (n : String) : (d.step rnd (.read n)).1 = d := rfl

theorem step_failed (rnd : Rat → Rat) (d : Dir) (n : String) (f : Fld) (rep : String) (save : Bool) (e : Err)
    (h : d.write n f rep save rnd = .error e) : (d.step rnd (.write n f rep save)).1 = d := by
  simp only [Dir.step, h]

theorem read_congr (d d' : Dir) (name : String) (h1 : look d'.vtk name = look d.vtk name)
    (h2 : look d'.json name = look d.json name) : d'.read name = d.read name := by
  unfold Dir.read
  rw [h1, h2]

theorem run_length (rnd : Rat → Rat) (d : Dir) (ops : List DOp) : (Dir.run rnd d ops).length = ops.length := by
  induction ops generalizing d with
  | nil => rfl
  | cons o os ih => simp [Dir.run, ih]

/-- the last result of a session that ends with a read -/
theorem run_append_read (rnd : Rat → Rat) (d : Dir) (ops : List DOp) (name : String) :
    Dir.run rnd d (ops ++ [.read name]) = Dir.run rnd d ops ++ [((Dir.after rnd d ops).read name).map some] := by
  induction ops generalizing d with
  | nil => rfl
  | cons o os ih =>
    simp only [List.cons_append, Dir.run, Dir.after]
    rw [ih]

theorem after_append (rnd : Rat → Rat) (d : Dir) (ops1 ops2 : List DOp) :
    Dir.after rnd d (ops1 ++ ops2) = Dir.after rnd (Dir.after rnd d ops1) ops2 := by
  induction ops1 generalizing d with
  | nil => rfl
  | cons o os ih =>
    simp only [List.cons_append, Dir.after]
    exact ih _

end DFV.C16
