import DFV.Lemmas.C17Commute
import DFV.Lemmas.C17Spacing
/-! Two facts about what the importer does with the coordinates beyond the spacing test:
descending coordinates without `cell` are refused (the inferred cell size is not positive), and
with all three geometric attributes present the coordinate VALUES are not used at all. -/
namespace DFV.C17
open DFV

theorem mkCell_nonpos (r : Region) (cell : List Rat) (bc : String) (c : Rat) (hc : c ∈ cell) (h0 : c ≤ 0) :
    ∃ e, Mesh.mkCell? r cell bc = .error e := by
  unfold Mesh.mkCell?
  split
  · exact ⟨_, rfl⟩
  · have : cell.any (fun c => decide (c ≤ 0)) = true := by
      rw [List.any_eq_true]; exact ⟨c, hc, decide_eq_true h0⟩
    rw [if_pos this]
    exact ⟨_, rfl⟩

theorem mkCellNow_nonpos (r : Region) (cell : List Rat) (c : Rat) (hc : c ∈ cell) (h0 : c ≤ 0) :
    ∃ e, mkCellNow? r cell = .error e := by
  obtain ⟨e, he⟩ := mkCell_nonpos r cell "" c hc h0
  unfold mkCellNow?
  rw [he]
  exact ⟨e, rfl⟩

section
variable {α : Type}

theorem meshOf_nonpos (xa : XA α) (cell : List Rat) (c : Rat) (hc : c ∈ cell) (h0 : c ≤ 0) :
    ∃ e, meshOf xa cell = .error e := by
  unfold meshOf
  cases p1Of xa cell with
  | error e => exact ⟨e, rfl⟩
  | ok p1 =>
    cases p2Of xa cell with
    | error e => exact ⟨e, rfl⟩
    | ok p2 =>
      simp only [Except.bind]
      cases Region.mk? p1 p2 (some ((geo xa).map Axis.name)) (unitsOf xa) defaultTol with
      | error e => exact ⟨e, rfl⟩
      | ok r =>
        simp only []
        obtain ⟨e, he⟩ := mkCellNow_nonpos r cell c hc h0
        rw [he]
        exact ⟨e, rfl⟩

/-- without `cell`, an axis whose coordinates do not ascend (last ≤ first) makes the geometry
steps fail -/
theorem geometryOf_descending (xa : XA α) (hc : xa.attrs.cell = none) (ax : Axis) (hax : ax ∈ geo xa)
    (hd : ax.values.getD (ax.values.length - 1) 0 ≤ ax.values.getD 0 0) :
    ∃ e, geometryOf xa = .error e := by
  have hmean : meanDiff ax.values ≤ 0 := by
    rw [meanDiff_eq]
    apply div_nonpos_of_nonpos_of_nonneg
    · linarith
    · exact_mod_cast Nat.zero_le _
  unfold geometryOf
  cases checkSpacing xa with
  | error e => exact ⟨e, rfl⟩
  | ok u =>
    simp only [Except.bind]
    cases hcell : cellOf xa with
    | error e => exact ⟨e, rfl⟩
    | ok cell =>
      simp only []
      have hmem : meanDiff ax.values ∈ cell := by
        unfold cellOf at hcell
        rw [hc] at hcell
        simp only [] at hcell
        split at hcell
        · cases hcell
        · split at hcell
          · cases hcell
          · injection hcell with hcell
            rw [← hcell]
            exact List.mem_map.mpr ⟨ax, hax, rfl⟩
      exact meshOf_nonpos xa cell _ hmem hmean

/-- replace the values of every assigned dimension coordinate (names, sizes, units stay) -/
def setCoordVals (vals : String → List Rat) (xa : XA α) : XA α :=
  { xa with axes := xa.axes.map fun ax =>
      { ax with coord := ax.coord.map fun c => { c with vals := vals ax.name } } }

def setAxisVals (vals : String → List Rat) (ax : Axis) : Axis :=
  { ax with coord := ax.coord.map fun c => { c with vals := vals ax.name } }

theorem geo_setCoordVals (vals : String → List Rat) (xa : XA α) :
    geo (setCoordVals vals xa) = (geo xa).map (setAxisVals vals) := by
  show ((xa.axes.map (setAxisVals vals)).filter fun a => decide (a.name ≠ "vdims")) = _
  rw [List.filter_map]
  rfl

theorem setAxisVals_units (vals : String → List Rat) (ax : Axis) : (setAxisVals vals ax).units = ax.units := by
  unfold setAxisVals Axis.units
  cases ax.coord <;> rfl

theorem meshOf_setCoordVals (vals : String → List Rat) (xa : XA α) (cell p q : List Rat)
    (hp : xa.attrs.pmin = some p) (hq : xa.attrs.pmax = some q) :
    meshOf (setCoordVals vals xa) cell = meshOf xa cell := by
  have hp' : (setCoordVals vals xa).attrs.pmin = some p := hp
  have hq' : (setCoordVals vals xa).attrs.pmax = some q := hq
  have hn : (geo (setCoordVals vals xa)).map Axis.name = (geo xa).map Axis.name := by
    rw [geo_setCoordVals, List.map_map]
    apply List.map_congr_left
    intro a _
    rfl
  have hu : unitsOf (setCoordVals vals xa) = unitsOf xa := by
    unfold unitsOf
    rw [geo_setCoordVals, List.any_map, List.map_map]
    have e1 : ((fun a : Axis => a.units.isNone) ∘ setAxisVals vals) = fun a => a.units.isNone := by
      funext a; simp [Function.comp, setAxisVals_units]
    have e2 : ((fun a : Axis => a.units.getD "") ∘ setAxisVals vals) = fun a => a.units.getD "" := by
      funext a; simp [Function.comp, setAxisVals_units]
    rw [e1, e2]
  unfold meshOf p1Of p2Of
  rw [hp', hq', hp, hq, hn, hu]
  rfl

end

section
variable [FieldAttrs] {α : Type}

/-- **With `cell`, `pmin`, `pmax` all present the coordinate values are not used**: any other
values that pass the spacing test give the identical result -/
theorem fromXA_setCoordVals (vals : String → List Rat) (xa : XA α) (c p q : List Rat)
    (hc : xa.attrs.cell = some c) (hp : xa.attrs.pmin = some p) (hq : xa.attrs.pmax = some q)
    (h1 : checkSpacing xa = .ok ()) (h2 : checkSpacing (setCoordVals vals xa) = .ok ()) :
    fromXA (setCoordVals vals xa) = fromXA xa := by
  have hd : (setCoordVals vals xa).dims = xa.dims := by
    show (xa.axes.map (setAxisVals vals)).map Axis.name = xa.axes.map Axis.name
    rw [List.map_map]
    apply List.map_congr_left
    intro a _
    rfl
  have hcell : cellOf (setCoordVals vals xa) = cellOf xa := by
    unfold cellOf
    have : (setCoordVals vals xa).attrs.cell = some c := hc
    rw [this, hc]
  unfold fromXA
  rw [hd, h1, h2, hcell]
  have : (setCoordVals vals xa).attrs.nvdim = xa.attrs.nvdim := rfl
  rw [this]
  cases checkNvdim xa.attrs.nvdim xa.dims with
  | error e => rfl
  | ok k =>
    simp only [Except.bind]
    cases cellOf xa with
    | error e => rfl
    | ok cell =>
      simp only []
      rw [meshOf_setCoordVals vals xa cell p q hp hq]
      cases meshOf xa cell with
      | error e => rfl
      | ok m => rfl

end
end DFV.C17
