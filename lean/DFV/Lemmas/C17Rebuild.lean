import DFV.Lemmas.C17Reject
/-! Rebuilding the mesh of an ARBITRARY DataArray (not necessarily an export) from evenly
spaced coordinates alone. -/
namespace DFV.C17
open DFV

section
variable [FieldAttrs] {α : Type}

/-- `from_xarray` = component-count checks, geometry, field construction -/
theorem fromXA_eq (xa : XA α) :
    fromXA xa = (checkNvdim xa.attrs.nvdim xa.dims).bind fun k => (geometryOf xa).bind fun m => fieldOf xa m k := by
  unfold fromXA geometryOf
  cases checkNvdim xa.attrs.nvdim xa.dims with
  | error e => rfl
  | ok k =>
    cases checkSpacing xa with
    | error e => rfl
    | ok u =>
      cases cellOf xa with
      | error e => rfl
      | ok cell =>
        cases meshOf xa cell <;> rfl

omit [FieldAttrs] in
theorem unitsOf_ok (xa : XA α) (d : Nat) (hlen : (geo xa).length = d) :
    ∃ u, Region.unitsOk d (unitsOf xa) = .ok u := by
  unfold unitsOf
  split
  · exact ⟨_, rfl⟩
  · exact ⟨_, unitsOk_some _ _ (by simp [hlen])⟩

omit [FieldAttrs] in
/-- **Rebuild from coordinates, any DataArray.**  If the geometric axes carry evenly spaced
coordinates `v0, v0+h, …` (`h > 0`, at least two per axis, distinct names) and none of
`cell`/`pmin`/`pmax` is present, the geometry steps succeed and the mesh spans exactly half a
step beyond the outermost coordinates, with one cell per coordinate. -/
theorem geometry_from_coords (xa : XA α) (d : Nat) (G : Nat → Axis) (hgeo : geo xa = tab d G) (hd : 0 < d)
    (v0 h : Nat → Rat) (n : Nat → Nat)
    (hval : ∀ a, a < d → (G a).values = ap (v0 a) (h a) (n a))
    (hh : ∀ a, a < d → 0 < h a) (hn : ∀ a, a < d → 2 ≤ n a)
    (hnames : hasDup (tab d fun a => (G a).name) = false)
    (hcell : xa.attrs.cell = none) (hpmin : xa.attrs.pmin = none) (hpmax : xa.attrs.pmax = none)
    (hshape : ∀ x ∈ xa.data.shape.dropLast, x ≠ 1) :
    ∃ m, geometryOf xa = .ok m ∧
      m.region.pmin = (tab d fun a => v0 a - h a / 2) ∧
      m.region.pmax = (tab d fun a => v0 a + ((n a : Rat) - 1) * h a + h a / 2) ∧
      m.n = tab d n ∧ m.region.dims = (tab d fun a => (G a).name) ∧
      m.region.tol = xa.attrs.tol.getD defaultTol := by
  have hsp : checkSpacing xa = .ok () := by
    unfold checkSpacing
    rw [hgeo, all_tab_true]
    · rfl
    · intro a ha; rw [hval a ha]; exact evenB_ap _ _ _
  have hce : cellOf xa = .ok (tab d h) := by
    unfold cellOf
    rw [hcell]
    simp only []
    have h1 : xa.data.shape.dropLast.any (· == 1) = false := by
      rw [List.any_eq_false]
      intro x hx
      simpa using hshape x hx
    have h2 : (geo xa).any (fun a => decide (a.values.length ≤ 1)) = false := by
      rw [hgeo]
      apply any_tab_false
      intro a ha
      rw [hval a ha, ap_length]
      have := hn a ha
      simp; omega
    rw [h1, h2]
    simp only [Bool.false_eq_true, if_false]
    rw [hgeo, map_tab]
    congr 1
    apply tab_congr
    intro a ha
    rw [hval a ha]
    exact meanDiff_ap _ _ _ (hn a ha)
  have hz : (List.zip (geo xa) (tab d h)).any (fun p => p.1.values.isEmpty) = false := by
    rw [hgeo, zip_tab]
    apply any_tab_false
    intro a ha
    show (G a).values.isEmpty = false
    rw [hval a ha, List.isEmpty_eq_false_iff_exists_mem]
    exact ⟨_, getD_mem _ 0 0 (by rw [ap_length]; have := hn a ha; omega)⟩
  have hp1 : p1Of xa (tab d h) = .ok (tab d fun a => v0 a - h a / 2) := by
    unfold p1Of
    rw [hpmin]
    simp only []
    rw [hz]
    simp only [Bool.false_eq_true, if_false]
    rw [hgeo, zipWith_tab]
    congr 1
    apply tab_congr
    intro a ha
    rw [hval a ha, ap_first _ _ _ (by have := hn a ha; omega)]
  have hp2 : p2Of xa (tab d h) = .ok (tab d fun a => v0 a + ((n a : Rat) - 1) * h a + h a / 2) := by
    unfold p2Of
    rw [hpmax]
    simp only []
    rw [hz]
    simp only [Bool.false_eq_true, if_false]
    rw [hgeo, zipWith_tab]
    congr 1
    apply tab_congr
    intro a ha
    rw [hval a ha, ap_last _ _ _ (by have := hn a ha; omega)]
  obtain ⟨u, hu⟩ := unitsOf_ok xa d (by rw [hgeo]; simp)
  have hlt : ∀ a, a < d → v0 a - h a / 2 < v0 a + ((n a : Rat) - 1) * h a + h a / 2 := by
    intro a ha
    have h1 := hh a ha
    have h2 : (2 : Rat) ≤ (n a : Rat) := by exact_mod_cast hn a ha
    nlinarith
  have hreg := regionMk_ok (tab d fun a => v0 a - h a / 2)
    (tab d fun a => v0 a + ((n a : Rat) - 1) * h a + h a / 2) (tab d fun a => (G a).name) (unitsOf xa) u defaultTol
    (by simp) (by simpa using hd) (by simp) hnames (by simpa using hu)
    (by
      intro a ha
      have ha' : a < d := by simpa using ha
      rw [getD_tab _ _ _ _ ha', getD_tab _ _ _ _ ha']
      exact hlt a ha')
  have hnm : (geo xa).map Axis.name = tab d fun a => (G a).name := by rw [hgeo, map_tab]
  -- the region the importer builds
  generalize hr : ({ pmin := tab d fun a => v0 a - h a / 2,
                     pmax := tab d fun a => v0 a + ((n a : Rat) - 1) * h a + h a / 2,
                     dims := tab d fun a => (G a).name, units := u, tol := defaultTol } : Region) = r at hreg
  have hnd : r.ndim = d := by subst hr; simp [Region.ndim]
  have hlo : ∀ a, a < d → r.lo a = v0 a - h a / 2 := by
    intro a ha; subst hr; exact getD_tab _ _ _ _ ha
  have hhi : ∀ a, a < d → r.hi a = v0 a + ((n a : Rat) - 1) * h a + h a / 2 := by
    intro a ha; subst hr; exact getD_tab _ _ _ _ ha
  have hk := mkCellNow_ok r (tab d n) (by simp [hnd])
    (by intro a ha; rw [hnd] at ha; rw [hlo a ha, hhi a ha]; exact hlt a ha)
    (by intro a ha; rw [hnd] at ha; rw [getD_tab _ _ _ _ ha]; have := hn a ha; omega)
  have hcl : (tab r.ndim fun a => r.edge a / ((tab d n).getD a 0 : Rat)) = tab d h := by
    rw [hnd]
    apply tab_congr
    intro a ha
    rw [getD_tab _ _ _ _ ha]
    unfold Region.edge
    rw [hlo a ha, hhi a ha]
    have : (n a : Rat) ≠ 0 := by
      have : (2 : Rat) ≤ (n a : Rat) := by exact_mod_cast hn a ha
      intro h0; linarith
    field_simp
    ring
  rw [hcl] at hk
  refine ⟨setTol { region := r, n := tab d n, bc := "", subs := [] } xa.attrs.tol, ?_, ?_, ?_, ?_, ?_, ?_⟩
  · unfold geometryOf meshOf
    rw [hsp, hce]
    simp only [Except.bind]
    rw [hp1, hp2]
    simp only []
    rw [hnm, hreg]
    simp only []
    rw [hk]
  all_goals (subst hr; cases ht : xa.attrs.tol <;> simp [setTol])

/-- `Field(mesh, nvdim, value=val, vdims=…, dtype=…)` on a value array of the field's shape -/
theorem fieldOf_ok (xa : XA α) (m : Mesh) (k : Nat) (hs : (valOf xa k).shape = m.n ++ [k])
    (vd : Option (List String)) (hvs : vdimsSet k xa.vdimsCoord = .ok vd) :
    ∃ g, fieldOf xa m k = .ok g ∧ g.mesh = m ∧ g.nvdim = k ∧ Agree g.data (valOf xa k) ∧ g.vdims = vd ∧
      g.dtype = xa.dtype := by
  obtain ⟨d1, hd1, ha1⟩ := asArray_same (valOf xa k) m.n k hs
  obtain ⟨d2, hd2, ha2⟩ := asArray_same d1 m.n k (ha1.1.trans hs)
  refine ⟨{ mesh := m, nvdim := k, data := d2, valid := NDA.const m.n true, vdims := vd,
            vmap := defaultVmap k m.region.dims vd, unit := none, dtype := xa.dtype }, ?_, rfl, rfl, ha2.trans ha1, rfl, rfl⟩
  unfold fieldOf
  rw [hd1]
  simp only [Except.bind]
  rw [hd2]
  simp only []
  rw [hvs]

omit [FieldAttrs] in
theorem defaultVdims_ne_none (k : Nat) (hk : 1 < k) : Fld.defaultVdims k ≠ none := by
  unfold Fld.defaultVdims
  have : k ≠ 1 := by omega
  simp only [this, if_false]
  split <;> simp

/-- **Import of a hand-built DataArray**: evenly spaced coordinates on distinctly named axes
(at least two per axis), no `cell`/`pmin`/`pmax`, an integer `nvdim = k ≥ 1`, data of shape
`(*n)` (scalar) or `(*n, k)` with the `vdims` axis last, labels absent or `k` distinct strings:
the import succeeds, the mesh spans half a step beyond the outermost coordinates, and every
value sits at its own cell and component. -/
theorem import_hand_built_ok (xa : XA α) (d : Nat) (G : Nat → Axis) (hgeo : geo xa = tab d G) (hd : 0 < d)
    (v0 h : Nat → Rat) (n : Nat → Nat)
    (hval : ∀ a, a < d → (G a).values = ap (v0 a) (h a) (n a))
    (hh : ∀ a, a < d → 0 < h a) (hn : ∀ a, a < d → 2 ≤ n a)
    (hnames : hasDup (tab d fun a => (G a).name) = false)
    (hcell : xa.attrs.cell = none) (hpmin : xa.attrs.pmin = none) (hpmax : xa.attrs.pmax = none)
    (k : Nat) (hk : 1 ≤ k) (hnv : xa.attrs.nvdim = some (.int k)) (hvd : 1 < k → "vdims" ∈ xa.dims)
    (hshape : xa.data.shape = tab d n ++ (if 1 < k then [k] else []))
    (hlab : ∀ l, xa.vdimsCoord = some l → l.length = k ∧ hasDup l = false ∧ l.any FieldAttrs.has = false) :
    ∃ g, fromXA xa = .ok g ∧
      g.mesh.region.pmin = (tab d fun a => v0 a - h a / 2) ∧
      g.mesh.region.pmax = (tab d fun a => v0 a + ((n a : Rat) - 1) * h a + h a / 2) ∧
      g.mesh.n = tab d n ∧ g.mesh.region.dims = (tab d fun a => (G a).name) ∧ g.nvdim = k ∧
      g.data.shape = tab d n ++ [k] ∧
      (∀ i, inRange (tab d n ++ [k]) i = true → g.data.get i = xa.data.get (if 1 < k then i else i.dropLast)) ∧
      g.dtype = xa.dtype ∧
      g.vdims = (match xa.vdimsCoord with | some l => some l | none => Fld.defaultVdims k) := by
  have hsh : ∀ x ∈ xa.data.shape.dropLast, x ≠ 1 := by
    intro x hx
    rw [hshape] at hx
    have hx' : x ∈ tab d n := by
      split at hx
      · rwa [List.dropLast_concat] at hx
      · rw [List.append_nil] at hx; exact (List.dropLast_sublist _).subset hx
    obtain ⟨a, ha, rfl⟩ := mem_tab _ _ _ hx'
    have := hn a ha; omega
  obtain ⟨m, hm, hp1, hp2, hmn, hdims, -⟩ :=
    geometry_from_coords xa d G hgeo hd v0 h n hval hh hn hnames hcell hpmin hpmax hsh
  have hck : checkNvdim xa.attrs.nvdim xa.dims = .ok k := by
    rw [hnv]
    unfold checkNvdim
    have h1 : ¬ ((k : Int) < 1) := by omega
    have h2 : ¬ (1 < (k : Int) ∧ ¬ xa.dims.contains "vdims" = true) := by
      rintro ⟨h3, h4⟩
      exact h4 (List.contains_iff_mem.mpr (hvd (by omega)))
    simp only [h1, h2, if_false, Int.toNat_natCast]
  have hvs : (valOf xa k).shape = m.n ++ [k] := by
    unfold valOf
    by_cases h1 : k = 1
    · have h2 : ¬ (1 < k) := by omega
      simp only [h1, if_true]
      show xa.data.shape ++ [1] = _
      rw [hshape, hmn, h1]; simp
    · have h2 : 1 < k := by omega
      simp only [h1, if_false]
      rw [hshape, hmn]; simp only [h2, if_true]
  have hvset : vdimsSet k xa.vdimsCoord
      = .ok (match xa.vdimsCoord with | some l => some l | none => Fld.defaultVdims k) := by
    cases hv : xa.vdimsCoord with
    | none => rfl
    | some l =>
      obtain ⟨hl, hdup, hres⟩ := hlab l hv
      cases l with
      | nil => simp at hl; omega
      | cons x l' =>
        unfold vdimsSet
        simp only [hl, ne_eq, not_true_eq_false, if_false, hdup, hres, Bool.false_eq_true]
  obtain ⟨g, hg, hgm, hgk, hga, hgv, hgt⟩ := fieldOf_ok xa m k hvs _ hvset
  refine ⟨g, ?_, by rw [hgm]; exact hp1, by rw [hgm]; exact hp2, by rw [hgm]; exact hmn, by rw [hgm]; exact hdims,
    hgk, by rw [hga.1, hvs, hmn], ?_, hgt, hgv⟩
  · rw [fromXA_eq, hck]
    simp only [Except.bind]
    rw [hm]
    exact hg
  · intro i hi
    rw [hga.2 i (by rw [hga.1, hvs, hmn]; exact hi)]
    unfold valOf
    by_cases h1 : k = 1
    · subst h1
      simp
    · have h2 : 1 < k := by omega
      simp only [h1, if_false, h2, if_true]

end
end DFV.C17
