import DFV.Lemmas.Index
import DFV.Lemmas.RatFloor
import DFV.Model.C17
/-! Constructor lemmas for C17: `Region.mk?` on ordered corners, `Mesh.mkCell?` on the exact
cell size (all checks of `Mesh.__init__` pass and the cell counts are recovered). -/
namespace DFV.C17
open DFV

theorem roundHalfEven_nat (n : Nat) : Mesh.roundHalfEven (n : Rat) = n := by
  unfold Mesh.roundHalfEven
  have hf : ((n : Rat)).floor = (n : Int) := by
    apply rat_floor_eq <;> push_cast <;> linarith
  rw [hf]
  have : ((n : Rat) - ((n : Int) : Rat)) = 0 := by push_cast; ring
  rw [this]
  norm_num

/-- `round(edge / (edge / n)) = n` -/
theorem n_recovered_axis (e : Rat) (he : 0 < e) (n : Nat) (hn : 0 < n) :
    (Mesh.roundHalfEven (e / (e / (n : Rat)))).toNat = n := by
  have hn' : (n : Rat) ≠ 0 := by exact_mod_cast (Nat.pos_iff_ne_zero.mp hn)
  have : e / (e / (n : Rat)) = (n : Rat) := by field_simp
  rw [this, roundHalfEven_nat]
  simp

theorem remainder_mul (k : Nat) (c : Rat) (hc : 0 < c) : Mesh.remainder ((k : Rat) * c) c = 0 := by
  unfold Mesh.remainder
  have : (k : Rat) * c / c = (k : Rat) := by field_simp
  rw [this]
  have hf : ((k : Rat)).floor = (k : Int) := by
    apply rat_floor_eq <;> push_cast <;> linarith
  rw [hf]; push_cast; ring

theorem notDivisible_mul (k : Nat) (c tol : Rat) (hc : 0 < c) (ht : 0 ≤ tol) :
    Mesh.notDivisible ((k : Rat) * c) c tol = false := by
  unfold Mesh.notDivisible
  rw [remainder_mul k c hc]
  have : ¬ (tol < 0) := by linarith
  simp [this]

theorem dimsOk_some (n : Nat) (d : List String) (hd : d.length = n) (hdup : hasDup d = false) :
    Region.dimsOk n (some d) = .ok d := by
  unfold Region.dimsOk
  simp only [hd, ne_eq, not_true_eq_false, if_false, hdup, Bool.false_eq_true]

/-- `Region(p1, p2, dims, units)` on strictly ordered corners stores them as they are -/
theorem regionMk_ok (p1 p2 : List Rat) (d : List String) (units : Option (List String)) (u : List String) (tol : Rat)
    (hl : p2.length = p1.length) (h0 : 0 < p1.length) (hd : d.length = p1.length) (hdup : hasDup d = false)
    (hu : Region.unitsOk p1.length units = .ok u) (hlt : ∀ a, a < p1.length → p1.getD a 0 < p2.getD a 0) :
    Region.mk? p1 p2 (some d) units tol
      = .ok { pmin := p1, pmax := p2, dims := d, units := u, tol := tol } := by
  unfold Region.mk?
  have h1 : ¬ (p1.length ≠ p2.length) := by simp [hl]
  have h2 : ¬ (p1.length = 0) := by omega
  have h3 : allLt p1.length (fun a => decide (p1.getD a 0 ≠ p2.getD a 0)) = true := by
    rw [allLt_iff]; intro a ha; have := hlt a ha
    exact decide_eq_true (ne_of_lt this)
  have e1 : tab p1.length (fun a => min (p1.getD a 0) (p2.getD a 0)) = p1 := by
    symm; apply eq_tab_of_getD _ _ _ 0 rfl
    intro i hi; exact (min_eq_left (le_of_lt (hlt i hi))).symm
  have e2 : tab p1.length (fun a => max (p1.getD a 0) (p2.getD a 0)) = p2 := by
    symm; apply eq_tab_of_getD _ _ _ 0 hl
    intro i hi; exact (max_eq_right (le_of_lt (hlt i hi))).symm
  rw [if_neg h1, if_neg h2, dimsOk_some _ _ hd hdup]
  dsimp only
  rw [hu]
  dsimp only
  rw [h3, e1, e2]
  simp only [Bool.not_true, Bool.false_eq_true, if_false]

theorem unitsOk_some (n : Nat) (u : List String) (hu : u.length = n) : Region.unitsOk n (some u) = .ok u := by
  unfold Region.unitsOk
  simp only [hu, ne_eq, not_true_eq_false, if_false]

theorem unitsOk_none (n : Nat) : Region.unitsOk n none = .ok (List.replicate n "m") := rfl

theorem foldl_min_nonneg (xs : List Rat) (x : Rat) (hx : 0 ≤ x) (h : ∀ y ∈ xs, 0 ≤ y) : 0 ≤ xs.foldl min x := by
  induction xs generalizing x with
  | nil => simpa
  | cons y ys ih =>
    simp only [List.foldl_cons]
    exact ih _ (le_min hx (h y (by simp))) (fun z hz => h z (by simp [hz]))

theorem listMin_nonneg (l : List Rat) (h : ∀ y ∈ l, 0 ≤ y) : 0 ≤ listMin l := by
  cases l with
  | nil => simp [listMin]
  | cons x xs => exact foldl_min_nonneg xs x (h x (by simp)) (fun y hy => h y (by simp [hy]))

theorem mem_tab {α} (n : Nat) (f : Nat → α) (x : α) (h : x ∈ tab n f) : ∃ a, a < n ∧ x = f a := by
  unfold tab at h
  obtain ⟨a, ha, rfl⟩ := List.mem_map.mp h
  exact ⟨a, List.mem_range.mp ha, rfl⟩

theorem toLower_empty : ("" : String).toLower = "" := by simp [String.toLower]

/-- `Mesh(region, cell = edges / n)` gives back `n` (all checks of the constructor pass) -/
theorem mkCell_ok (r : Region) (n : List Nat) (hn : n.length = r.ndim)
    (hr : ∀ a, a < r.ndim → r.lo a < r.hi a) (hpos : ∀ a, a < r.ndim → 0 < n.getD a 0) :
    Mesh.mkCell? r (tab r.ndim fun a => r.edge a / (n.getD a 0 : Rat)) ""
      = .ok { region := r, n := n, bc := "", subs := [] } := by
  have hcpos : ∀ a, a < r.ndim → 0 < r.edge a / (n.getD a 0 : Rat) := by
    intro a ha
    have h1 : (0 : Rat) < (n.getD a 0 : Rat) := by exact_mod_cast hpos a ha
    have h2 : 0 < r.edge a := by unfold Region.edge; linarith [hr a ha]
    exact div_pos h2 h1
  have hget : ∀ a, a < r.ndim →
      (tab r.ndim fun a => r.edge a / (n.getD a 0 : Rat)).getD a 0 = r.edge a / (n.getD a 0 : Rat) :=
    fun a ha => getD_tab _ _ _ _ ha
  unfold Mesh.mkCell?
  have c1 : ¬ ((tab r.ndim fun a => r.edge a / (n.getD a 0 : Rat)).length ≠ r.ndim) := by simp
  have c2 : (tab r.ndim fun a => r.edge a / (n.getD a 0 : Rat)).any (fun c => decide (c ≤ 0)) = false := by
    rw [List.any_eq_false]
    intro x hx
    obtain ⟨a, ha, rfl⟩ := mem_tab _ _ _ hx
    rw [decide_eq_false (not_le.mpr (hcpos a ha))]; exact Bool.false_ne_true
  have c3 : r.containsPt (tab r.ndim fun a => r.lo a
      + (tab r.ndim fun a => r.edge a / (n.getD a 0 : Rat)).getD a 0) = true := by
    unfold Region.containsPt
    simp only [tab_length, decide_true, Bool.true_and]
    rw [allLt_iff]
    intro a ha
    rw [getD_tab _ _ _ _ ha, hget a ha]
    unfold Region.containsAx
    have h1 : (1 : Rat) ≤ (n.getD a 0 : Rat) := by exact_mod_cast hpos a ha
    have h2 : 0 < r.edge a := by unfold Region.edge; linarith [hr a ha]
    have h3 : r.edge a / (n.getD a 0 : Rat) ≤ r.edge a := div_le_self (le_of_lt h2) h1
    have a1 : r.lo a ≤ r.lo a + r.edge a / (n.getD a 0 : Rat) := by linarith [hcpos a ha]
    have a2 : r.lo a + r.edge a / (n.getD a 0 : Rat) ≤ r.hi a := by
      unfold Region.edge at h3 ⊢; linarith
    simp only [decide_eq_true a1, decide_eq_true a2, Bool.true_or, Bool.and_self]
  have c4 : allLt r.ndim (fun a => !Mesh.notDivisible (r.edge a)
      ((tab r.ndim fun a => r.edge a / (n.getD a 0 : Rat)).getD a 0)
      (listMin (tab r.ndim fun a => r.edge a / (n.getD a 0 : Rat)) / 1000)) = true := by
    rw [allLt_iff]
    intro a ha
    rw [hget a ha]
    have hn0 : (n.getD a 0 : Rat) ≠ 0 := by
      have : (0 : Rat) < (n.getD a 0 : Rat) := by exact_mod_cast hpos a ha
      exact ne_of_gt this
    have he : r.edge a = (n.getD a 0 : Rat) * (r.edge a / (n.getD a 0 : Rat)) := by field_simp
    have ht : 0 ≤ listMin (tab r.ndim fun a => r.edge a / (n.getD a 0 : Rat)) / 1000 := by
      apply div_nonneg _ (by norm_num)
      apply listMin_nonneg
      intro y hy
      obtain ⟨b, hb, rfl⟩ := mem_tab _ _ _ hy
      exact le_of_lt (hcpos b hb)
    conv => lhs; arg 1; arg 1; rw [he]
    rw [notDivisible_mul _ _ _ (hcpos a ha) ht]
    rfl
  have c5 : Mesh.bcOk r.dims ("" : String).toLower = true := by
    rw [toLower_empty]; simp [Mesh.bcOk]
  have c6 : (tab r.ndim fun a => (Mesh.roundHalfEven (r.edge a /
      (tab r.ndim fun a => r.edge a / (n.getD a 0 : Rat)).getD a 0)).toNat) = n := by
    symm
    apply eq_tab_of_getD _ _ _ 0 hn
    intro a ha
    rw [hget a ha]
    have h2 : 0 < r.edge a := by unfold Region.edge; linarith [hr a ha]
    exact (n_recovered_axis _ h2 _ (hpos a ha)).symm
  have c4b : allLt r.ndim (fun a => decide (1 ≤ (Mesh.roundHalfEven (r.edge a /
      (tab r.ndim fun a => r.edge a / (n.getD a 0 : Rat)).getD a 0)).toNat)) = true := by
    rw [allLt_iff]
    intro a ha
    rw [hget a ha]
    have h2 : 0 < r.edge a := by unfold Region.edge; linarith [hr a ha]
    rw [n_recovered_axis _ h2 _ (hpos a ha)]
    exact decide_eq_true (hpos a ha)
  rw [if_neg c1, c2, c3, c4, c4b, c5, c6, toLower_empty]
  simp

/-- … and the constructor's final `n >= 1` test passes as well -/
theorem mkCellNow_ok (r : Region) (n : List Nat) (hn : n.length = r.ndim)
    (hr : ∀ a, a < r.ndim → r.lo a < r.hi a) (hpos : ∀ a, a < r.ndim → 0 < n.getD a 0) :
    mkCellNow? r (tab r.ndim fun a => r.edge a / (n.getD a 0 : Rat))
      = .ok { region := r, n := n, bc := "", subs := [] } := by
  unfold mkCellNow?
  rw [mkCell_ok r n hn hr hpos]
  have h0 : n.any (fun k => decide (k < 1)) = false := by
    rw [List.any_eq_false]
    intro x hx
    obtain ⟨a, ha, rfl⟩ := List.getElem_of_mem hx
    have := hpos a (hn ▸ ha)
    rw [List.getD_eq_getElem?_getD, List.getElem?_eq_getElem ha] at this
    simp only [Option.getD_some] at this
    simp; omega
  show (if n.any (fun k => decide (k < 1)) = true then _ else _) = _
  rw [h0]
  rfl

end DFV.C17
