import DFV.Lemmas.C18Algebra
/-! Signed permutation matrices are closed under products: every history of quarter turns
accumulates a lattice rotation. -/
namespace DFV.C18
open DFV DFV.Mesh

theorem M3.mul_e (A B : M3) (i j : Nat) (hi : i < 3) (hj : j < 3) :
    (A.mul B).e i j = A.e i 0 * B.e 0 j + A.e i 1 * B.e 1 j + A.e i 2 * B.e 2 j := by
  have ci : i = 0 ∨ i = 1 ∨ i = 2 := by omega
  have cj : j = 0 ∨ j = 1 ∨ j = 2 := by omega
  rcases ci with e1 | e1 | e1 <;> rcases cj with e2 | e2 | e2 <;> subst e1 <;> subst e2 <;>
    simp only [M3.mul, M3.apply, M3.tr, V3.dot, M3.e, M3.row, V3.get] <;> ring

/-- the product of two signed permutation matrices is the signed permutation of the composed
permutation with the multiplied signs -/
theorem IsLat.mul {A B : M3} {πA πB : Nat → Nat} {sA sB : Nat → Rat} (hA : IsLat A πA sA) (hB : IsLat B πB sB) :
    IsLat (A.mul B) (fun j => πA (πB j)) (fun j => sB j * sA (πB j)) := by
  refine ⟨fun j hj => hA.lt _ (hB.lt j hj), fun i j hi hj e => hB.inj i j hi hj (hA.inj _ _ (hB.lt i hi) (hB.lt j hj) e), ?_, ?_⟩
  · intro j hj
    rcases hB.sign j hj with e1 | e1 <;> rcases hA.sign _ (hB.lt j hj) with e2 | e2 <;> rw [e1, e2] <;> norm_num
  · intro i j hi hj
    rw [M3.mul_e A B i j hi hj, hB.entry 0 j (by omega) hj, hB.entry 1 j (by omega) hj, hB.entry 2 j (by omega) hj]
    have hp := hB.lt j hj
    have c : πB j = 0 ∨ πB j = 1 ∨ πB j = 2 := by omega
    show _ = if i = πA (πB j) then sB j * sA (πB j) else 0
    rcases c with e | e | e <;> rw [e]
    · rw [if_pos rfl, if_neg (by omega), if_neg (by omega), hA.entry i 0 hi (by omega)]; split <;> ring
    · rw [if_neg (by omega), if_pos rfl, if_neg (by omega), hA.entry i 1 hi (by omega)]; split <;> ring
    · rw [if_neg (by omega), if_neg (by omega), if_pos rfl, hA.entry i 2 hi (by omega)]; split <;> ring

/-- `R` is some signed permutation matrix -/
def LatM (R : M3) : Prop := ∃ (π : Nat → Nat) (s : Nat → Rat), IsLat R π s

theorem LatM.one : LatM M3.one := ⟨_, _, one_isLat⟩
theorem LatM.mul {A B : M3} (hA : LatM A) (hB : LatM B) : LatM (A.mul B) := by
  obtain ⟨_, _, h1⟩ := hA
  obtain ⟨_, _, h2⟩ := hB
  exact ⟨_, _, h1.mul h2⟩
theorem LatM.rq (p q : Nat) (k : Int) (hp : p < 3) (hq : q < 3) (hpq : p ≠ q) : LatM (Rq p q k) :=
  ⟨_, _, Rq_isLat p q k hp hq hpq⟩

theorem LatM.prodL (Qs : List M3) (h : ∀ Q ∈ Qs, LatM Q) : LatM (prodL Qs) := by
  induction Qs with
  | nil => exact LatM.one
  | cons Q Qs ih =>
    simp only [C18.prodL]
    exact (ih fun Q' h' => h Q' (List.mem_cons_of_mem _ h')).mul (h Q List.mem_cons_self)

/-- every rotation of a history is a lattice rotation ⇒ so is every rotation since the last clear -/
theorem seg_mem (cur : List M3) (ops : List Op) (P : M3 → Prop) (hc : ∀ Q ∈ cur, P Q)
    (hops : ∀ Q n, Op.rotate Q n ∈ ops → P Q) : ∀ Q ∈ seg cur ops, P Q := by
  induction ops generalizing cur with
  | nil => exact hc
  | cons op ops ih =>
    cases op with
    | rotate Q n =>
      simp only [seg]
      apply ih
      · intro Q' hQ'
        rw [List.mem_append] at hQ'
        rcases hQ' with h | h
        · exact hc Q' h
        · simp only [List.mem_singleton] at h
          rw [h]; exact hops Q n (by simp)
      · intro Q' n' h; exact hops Q' n' (by simp [h])
    | clear =>
      simp only [seg]
      apply ih
      · intro Q' h; cases h
      · intro Q' n' h; exact hops Q' n' (by simp [h])
    | unknown =>
      simp only [seg]
      apply ih _ hc
      intro Q' n' h; exact hops Q' n' (by simp [h])

end DFV.C18
