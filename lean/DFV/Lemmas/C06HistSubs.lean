import DFV.Lemmas.C06Abs
/-! In-place steps on the mesh object keep the subregions fitting (C06): `mesh.scale` and
`mesh.translate` transform the region and every subregion with the same factor about the same
reference point, so a subregion that starts `z` cells in and is `w` cells long still does (it
starts `n - z - w` cells in after a reflection). -/
namespace DFV.C06
open DFV DFV.T

theorem scaleR_inplace_corners (r : Region) (f : Factor) (ref : Option (List Rat)) (r' ret : Region)
    (h : scaleR r f ref true = .ok (r', ret)) :
    ret = r' ∧ r'.pmin.length = r.ndim ∧ r'.pmax.length = r.ndim ∧
    ∀ a, a < r.ndim →
      scaleHi r f (ref.getD r.center) a - scaleLo r f (ref.getD r.center) a ≠ 0 ∧
      r'.lo a = min (scaleLo r f (ref.getD r.center) a) (scaleHi r f (ref.getD r.center) a) ∧
      r'.hi a = max (scaleLo r f (ref.getD r.center) a) (scaleHi r f (ref.getD r.center) a) := by
  unfold scaleR at h
  split at h
  · cases h
  · split at h
    · cases h
    · simp only [if_true] at h
      split at h
      · cases h
      · rename_i hchk
        injection h with h
        injection h with h1 h2
        subst h1
        have hchk' : allLt r.ndim (fun a => decide (scaleHi r f (ref.getD r.center) a - scaleLo r f (ref.getD r.center) a ≠ 0)) = true := by
          simpa using hchk
        rw [allLt_iff] at hchk'
        refine ⟨h2.symm, by simp, by simp, ?_⟩
        intro a ha
        refine ⟨by simpa using hchk' a ha, ?_, ?_⟩
        · simp only [Region.lo]; rw [getD_tab _ _ _ _ ha]
        · simp only [Region.hi]; rw [getD_tab _ _ _ _ ha]

theorem translateR_inplace_corners (r : Region) (v : List Rat) (r' ret : Region)
    (h : translateR r v true = .ok (r', ret)) :
    ret = r' ∧ r'.pmin.length = r.ndim ∧ r'.pmax.length = r.ndim ∧
    ∀ a, a < r.ndim → r'.lo a = r.lo a + v.getD a 0 ∧ r'.hi a = r.hi a + v.getD a 0 := by
  unfold translateR at h
  split at h
  · cases h
  · simp only [if_true] at h
    split at h
    · cases h
    · injection h with h
      injection h with h1 h2
      subst h1
      refine ⟨h2.symm, by simp, by simp, ?_⟩
      intro a ha
      constructor
      · simp only [Region.lo]; rw [getD_tab _ _ _ _ ha]
      · simp only [Region.hi]; rw [getD_tab _ _ _ _ ha]

/-- every entry of a successful `mapSubs` comes from an entry of the input -/
theorem mapSubs_mem (subs subs' : List (String × Region)) (f : Region → M (Region × Region))
    (h : mapSubs subs f = .ok subs') : ∀ q ∈ subs', ∃ p ∈ subs, ∃ recv, f p.2 = .ok (recv, q.2) := by
  induction subs generalizing subs' with
  | nil =>
    unfold mapSubs at h
    rw [List.mapM_nil] at h
    injection h with h; subst h
    intro q hq; simp at hq
  | cons p rest ih =>
    cases ht0 : mapSubs rest f with
    | error e =>
      have ht := ht0
      unfold mapSubs at h ht
      rw [List.mapM_cons] at h
      cases hp : f p.2 with
      | error e' => simp only [hp] at h; cases h
      | ok pr =>
        obtain ⟨recv, ret⟩ := pr
        simp only [hp] at h
        rw [ht] at h
        cases h
    | ok t =>
      have ht := ht0
      unfold mapSubs at h ht
      rw [List.mapM_cons] at h
      cases hp : f p.2 with
      | error e' => simp only [hp] at h; cases h
      | ok pr =>
        obtain ⟨recv, ret⟩ := pr
        simp only [hp] at h
        rw [ht] at h
        injection h with h; subst h
        intro q hq
        rcases List.mem_cons.mp hq with rfl | hq
        · exact ⟨p, by simp, recv, hp⟩
        · obtain ⟨p', hp', rc, hf⟩ := ih t ht0 q hq
          exact ⟨p', by simp [hp'], rc, hf⟩

/-- `mesh.scale(…, inplace=True)` / `mesh.translate(…, inplace=True)` keep the subregions
fitting the mesh -/
theorem subsFit_hstepM_mesh (m : Mesh) (hm : m.Inv) (hfit : SubsFit m) (s : HStep) (m' : Mesh)
    (hs : (∃ f ref, s = .scaleMesh f ref) ∨ (∃ v, s = .translateMesh v)) (h : hstepM m s = .ok m') :
    SubsFit m' := by
  obtain ⟨hinv', hn', _, hnd', hcell'⟩ := hstepM_spec m hm s m' h
  rcases hs with ⟨f, ref, rfl⟩ | ⟨v, rfl⟩
  · simp only [hstepM, stepM] at h
    split at h
    · cases h
    · rename_i mm ret hstep
      injection h with h; subst h
      split at hstep
      · cases hstep
      · cases hstep
      · rename_i r0 r' subs' hr hsubs
        simp only [if_true] at hstep
        injection hstep with hstep
        injection hstep with h1 _
        subst h1
        obtain ⟨hrr, _, _, hcr⟩ := scaleR_inplace_corners m.region f ref r0 r' hr
        subst hrr
        intro q hq
        obtain ⟨p, hp, recv, hfp⟩ := mapSubs_mem m.subs subs' _ hsubs q hq
        obtain ⟨hl1, hl2, hper⟩ := hfit p hp
        obtain ⟨hqq, hq1, hq2, hcq⟩ := scaleR_inplace_corners p.2 f (subRef m ref) recv q.2 hfp
        rw [hqq]
        have hpn : p.2.ndim = m.ndim := hl1
        refine ⟨by rw [hq1, hpn]; exact hnd'.symm, by rw [hq2, hpn]; exact hnd'.symm, ?_⟩
        intro a ha
        have ha' : a < m.ndim := by rw [← hnd']; exact ha
        obtain ⟨z, w, hw, hzw, hlo, hhi⟩ := hper a ha'
        obtain ⟨hne, hlo', hhi'⟩ := hcr a ha'
        obtain ⟨_, hqlo, hqhi⟩ := hcq a (by rw [hpn]; exact ha')
        have hcov := cells_cover m hm a ha'
        have hcp := cell_pos' m hm a ha'
        have hc' : ({ m with region := r', subs := subs' } : Mesh).cellAt a = absR (f.at a) * m.cellAt a := hcell' a ha'
        have hRef : (subRef m ref).getD p.2.center = ref.getD m.region.center := rfl
        rw [hRef] at hqlo hqhi
        have hnat : ({ m with region := r', subs := subs' } : Mesh).nAt a = m.nAt a := rfl
        -- abbreviations
        have hedge : m.region.edge a = (m.nAt a : Rat) * m.cellAt a := hcov.symm
        have hsedge : p.2.edge a = (w : Rat) * m.cellAt a := by unfold Region.edge; rw [hhi]; ring
        have hfa : f.at a ≠ 0 := by
          intro h0
          apply hne
          unfold scaleHi
          rw [h0]; ring
        show ∃ z' w' : Nat, 0 < w' ∧ z' + w' ≤ ({ m with region := r', subs := subs' } : Mesh).nAt a ∧
          recv.lo a = r'.lo a + (z' : Rat) * ({ m with region := r', subs := subs' } : Mesh).cellAt a ∧
          recv.hi a = recv.lo a + (w' : Rat) * ({ m with region := r', subs := subs' } : Mesh).cellAt a
        rw [hc', hnat, hqlo, hqhi, hlo']
        unfold scaleHi scaleLo
        rw [hsedge, hedge, absR_eq_abs]
        rcases lt_or_gt_of_ne hfa with hneg | hpos
        · -- reflection: the subregion now starts n - z - w cells in
          refine ⟨m.nAt a - (z + w), w, hw, by omega, ?_, ?_⟩
          · have hcast : ((m.nAt a - (z + w) : Nat) : Rat) = (m.nAt a : Rat) - ((z : Rat) + (w : Rat)) := by
              rw [Nat.cast_sub hzw]; push_cast; ring
            have hw0 : (0 : Rat) < (w : Rat) := by exact_mod_cast hw
            have hn0 : (0 : Rat) < (m.nAt a : Rat) := by exact_mod_cast (hm.2.2 a ha')
            have h1 : (w : Rat) * m.cellAt a * f.at a < 0 := mul_neg_of_pos_of_neg (mul_pos hw0 hcp) hneg
            have h2 : (m.nAt a : Rat) * m.cellAt a * f.at a < 0 := mul_neg_of_pos_of_neg (mul_pos hn0 hcp) hneg
            rw [min_eq_right (by linarith), min_eq_right (by linarith), abs_of_neg hneg, hcast, hlo]
            ring
          · have hw0 : (0 : Rat) < (w : Rat) := by exact_mod_cast hw
            have h1 : (w : Rat) * m.cellAt a * f.at a < 0 := mul_neg_of_pos_of_neg (mul_pos hw0 hcp) hneg
            rw [min_eq_right (by linarith), max_eq_left (by linarith), abs_of_neg hneg]
            ring
        · refine ⟨z, w, hw, hzw, ?_, ?_⟩
          · have hw0 : (0 : Rat) < (w : Rat) := by exact_mod_cast hw
            have hn0 : (0 : Rat) < (m.nAt a : Rat) := by exact_mod_cast (hm.2.2 a ha')
            have h1 : 0 < (w : Rat) * m.cellAt a * f.at a := mul_pos (mul_pos hw0 hcp) hpos
            have h2 : 0 < (m.nAt a : Rat) * m.cellAt a * f.at a := mul_pos (mul_pos hn0 hcp) hpos
            rw [min_eq_left (by linarith), min_eq_left (by linarith), abs_of_pos hpos, hlo]
            ring
          · have hw0 : (0 : Rat) < (w : Rat) := by exact_mod_cast hw
            have h1 : 0 < (w : Rat) * m.cellAt a * f.at a := mul_pos (mul_pos hw0 hcp) hpos
            rw [min_eq_left (by linarith), max_eq_right (by linarith), abs_of_pos hpos]
            ring
  · simp only [hstepM, stepM] at h
    split at h
    · cases h
    · rename_i mm ret hstep
      injection h with h; subst h
      split at hstep
      · cases hstep
      · cases hstep
      · rename_i r0 r' subs' hr hsubs
        simp only [if_true] at hstep
        injection hstep with hstep
        injection hstep with h1 _
        subst h1
        obtain ⟨hrr, _, _, hcr⟩ := translateR_inplace_corners m.region v r0 r' hr
        subst hrr
        intro q hq
        obtain ⟨p, hp, recv, hfp⟩ := mapSubs_mem m.subs subs' _ hsubs q hq
        obtain ⟨hl1, hl2, hper⟩ := hfit p hp
        obtain ⟨hqq, hq1, hq2, hcq⟩ := translateR_inplace_corners p.2 v recv q.2 hfp
        rw [hqq]
        have hpn : p.2.ndim = m.ndim := hl1
        refine ⟨by rw [hq1, hpn]; exact hnd'.symm, by rw [hq2, hpn]; exact hnd'.symm, ?_⟩
        intro a ha
        have ha' : a < m.ndim := by rw [← hnd']; exact ha
        obtain ⟨z, w, hw, hzw, hlo, hhi⟩ := hper a ha'
        obtain ⟨hlo', hhi'⟩ := hcr a ha'
        obtain ⟨hqlo, hqhi⟩ := hcq a (by rw [hpn]; exact ha')
        have hc' : ({ m with region := r', subs := subs' } : Mesh).cellAt a = stepFac (.translateMesh v) a * m.cellAt a := hcell' a ha'
        refine ⟨z, w, hw, hzw, ?_, ?_⟩
        · show recv.lo a = r'.lo a + _
          rw [hc', hqlo, hlo', hlo]; simp [stepFac]; ring
        · rw [hc', hqhi, hqlo, hhi]; simp [stepFac]; ring

/-- fitting subregions are an invariant of histories of mesh-level in-place steps -/
theorem subsFit_runH (steps : List HStep)
    (hall : ∀ s ∈ steps, (∃ f ref, s = HStep.scaleMesh f ref) ∨ (∃ v, s = HStep.translateMesh v)) :
    ∀ (f : Fld), WF f → SubsFit f.mesh → SubsFit (runH f steps).mesh := by
  induction steps with
  | nil => intro f _ hfit; exact hfit
  | cons s rest ih =>
    intro f hf hfit
    have ih' := ih (fun s' hs' => hall s' (by simp [hs']))
    cases hs : hstepM f.mesh s with
    | error e =>
      have hstep : hstep f s = f := by simp only [hstep, hs]
      simp only [runH, hstep]
      exact ih' f hf hfit
    | ok m' =>
      obtain ⟨hinv, hn, _, _, _⟩ := hstepM_spec f.mesh hf.1 s m' hs
      have hstep : hstep f s = { f with mesh := m' } := by simp only [hstep, hs]
      have hwf : WF { f with mesh := m' } := ⟨hinv, by show f.data.shape = m'.n; rw [hn]; exact hf.2⟩
      simp only [runH, hstep]
      exact ih' _ hwf (subsFit_hstepM_mesh f.mesh hf.1 hfit s m' (hall s (by simp)) hs)

/-- no in-place step creates a subregion -/
theorem hstepM_subs_nil (m : Mesh) (hsubs : m.subs = []) (s : HStep) (m' : Mesh) (h : hstepM m s = .ok m') :
    m'.subs = [] := by
  cases s with
  | scaleMesh f ref =>
    simp only [hstepM, stepM, hsubs] at h
    split at h
    · cases h
    · rename_i mm ret hstep
      injection h with h; subst h
      split at hstep
      · cases hstep
      · cases hstep
      · rename_i r0 r' subs' hr hs'
        simp only [if_true] at hstep
        injection hstep with hstep
        injection hstep with h1 _
        subst h1
        have : mapSubs [] (fun s => scaleR s f (subRef m ref) true) = .ok [] := rfl
        rw [this] at hs'
        injection hs' with hs'
        exact hs'.symm
  | scaleRegion f ref =>
    simp only [hstepM] at h
    split at h
    · cases h
    · injection h with h; rw [← h]; exact hsubs
  | translateMesh v =>
    simp only [hstepM, stepM, hsubs] at h
    split at h
    · cases h
    · rename_i mm ret hstep
      injection h with h; subst h
      split at hstep
      · cases hstep
      · cases hstep
      · rename_i r0 r' subs' hr hs'
        simp only [if_true] at hstep
        injection hstep with hstep
        injection hstep with h1 _
        subst h1
        have : mapSubs [] (fun s => translateR s v true) = .ok [] := rfl
        rw [this] at hs'
        injection hs' with hs'
        exact hs'.symm
  | translateRegion v =>
    simp only [hstepM] at h
    split at h
    · cases h
    · injection h with h; rw [← h]; exact hsubs

theorem runH_subs_nil (steps : List HStep) : ∀ (f : Fld), f.mesh.subs = [] → (runH f steps).mesh.subs = [] := by
  induction steps with
  | nil => intro f h; exact h
  | cons s rest ih =>
    intro f hsubs
    cases hs : hstepM f.mesh s with
    | error e =>
      have hstep : hstep f s = f := by simp only [hstep, hs]
      simp only [runH, hstep]
      exact ih f hsubs
    | ok m' =>
      have hstep : hstep f s = { f with mesh := m' } := by simp only [hstep, hs]
      simp only [runH, hstep]
      exact ih _ (hstepM_subs_nil f.mesh hsubs s m' hs)

end DFV.C06
