import DFV.Lemmas.C06Chain
/-! Subregions through `Mesh.sel(dim)` (C06): the subregions a reduced mesh inherits are
accepted by the subregion setter (inside the region, whole cells, aligned), so axis removal —
and with it `integrate(d)`, `mean(d)`, `mean(list)` — succeeds on every well-formed mesh whose
subregions fit it, and the reduced mesh's subregions fit it again. -/
namespace DFV.C06
open DFV

/-- the box `s` fits the mesh `m` exactly: one coordinate per direction, and on every axis it
starts a whole number `z` of cells into the region and is a whole number `w ≥ 1` of cells
long, ending inside (`z + w ≤ n`) -/
def SubFits (m : Mesh) (s : Region) : Prop :=
  s.pmin.length = m.ndim ∧ s.pmax.length = m.ndim ∧
  ∀ a, a < m.ndim → ∃ z w : Nat, 0 < w ∧ z + w ≤ m.nAt a ∧
    s.lo a = m.region.lo a + (z : Rat) * m.cellAt a ∧ s.hi a = s.lo a + (w : Rat) * m.cellAt a

/-- every subregion held by the mesh fits it exactly -/
def SubsFit (m : Mesh) : Prop := ∀ p ∈ m.subs, SubFits m p.2

theorem subsFit_nil (m : Mesh) (h : m.subs = []) : SubsFit m := by
  intro p hp; rw [h] at hp; simp at hp

/-- a subregion with the axis `ax` removed, as `df.Region(p1=sub_p_1, p2=sub_p_2)` builds it -/
def projReg (ax : Nat) (r : Region) : Region :=
  { pmin := removeAt r.pmin ax, pmax := removeAt r.pmax ax,
    dims := Region.defaultDims (removeAt r.pmin ax).length,
    units := List.replicate (removeAt r.pmin ax).length "m", tol := 1/1000000000000 }

/-- a region re-created by the subregion setter with the mesh's dims, units, tolerance -/
def restamp (m : Mesh) (r : Region) : Region :=
  { pmin := r.pmin, pmax := r.pmax, dims := m.region.dims, units := m.region.units, tol := m.region.tol }

/-- the subregions whose closed extent along `ax` contains the coordinate `s` -/
def keepSubs (ax : Nat) (s : Rat) (subs : List (String × Region)) : List (String × Region) :=
  subs.filter fun p => !(decide (p.2.hi ax < s) || decide (s < p.2.lo ax))

/-! ## the region constructor with default dims / units -/

theorem region_mk_none (p1 p2 : List Rat) (h1 : p1.length = p2.length) (h2 : p1.length ≠ 0)
    (h6 : ∀ a, a < p1.length → p1.getD a 0 < p2.getD a 0) :
    Region.mk? p1 p2 none none =
      .ok { pmin := p1, pmax := p2, dims := Region.defaultDims p1.length,
            units := List.replicate p1.length "m", tol := 1/1000000000000 } := by
  have h6' : allLt p1.length (fun a => decide (p1.getD a 0 ≠ p2.getD a 0)) = true := by
    rw [allLt_iff]; intro a ha; simpa using ne_of_lt (h6 a ha)
  have hmin : (tab p1.length fun a => min (p1.getD a 0) (p2.getD a 0)) = p1 := by
    symm
    apply eq_tab_of_getD _ _ _ 0 rfl
    intro a ha
    exact (min_eq_left (le_of_lt (h6 a ha))).symm
  have hmax : (tab p1.length fun a => max (p1.getD a 0) (p2.getD a 0)) = p2 := by
    symm
    apply eq_tab_of_getD _ _ _ 0 h1.symm
    intro a ha
    exact (max_eq_right (le_of_lt (h6 a ha))).symm
  unfold Region.mk?
  simp only [h1, ne_eq, not_true_eq_false, if_false, Region.dimsOk, Region.unitsOk]
  rw [← h1]
  simp only [h2, if_false, h6', Bool.not_true, Bool.false_eq_true, hmin, hmax]

/-! ## a fitting subregion, one axis removed -/

theorem subFits_lo_lt_hi (m : Mesh) (hm : m.Inv) (s : Region) (hs : SubFits m s) (a : Nat) (ha : a < m.ndim) :
    s.lo a < s.hi a := by
  obtain ⟨z, w, hw, _, _, hhi⟩ := hs.2.2 a ha
  rw [hhi]
  have hc := cell_pos' m hm a ha
  have : (0 : Rat) < (w : Rat) := by exact_mod_cast hw
  have := mul_pos this hc
  linarith

theorem projReg_mk (m : Mesh) (hm : m.Inv) (ax : Nat) (hax : ax < m.ndim) (h2 : 2 ≤ m.ndim)
    (s : Region) (hs : SubFits m s) :
    Region.mk? (removeAt s.pmin ax) (removeAt s.pmax ax) none none = .ok (projReg ax s) := by
  have hl1 : (removeAt s.pmin ax).length = m.ndim - 1 := by
    rw [removeAt_length _ _ (by rw [hs.1]; exact hax), hs.1]
  have hl2 : (removeAt s.pmax ax).length = m.ndim - 1 := by
    rw [removeAt_length _ _ (by rw [hs.2.1]; exact hax), hs.2.1]
  rw [region_mk_none _ _ (by rw [hl1, hl2]) (by rw [hl1]; omega)]
  · rfl
  · intro a ha
    rw [hl1] at ha
    rw [getD_removeAt_skip, getD_removeAt_skip]
    exact subFits_lo_lt_hi m hm s hs _ (skip_lt ax a _ ha)

/-- `projSubs` succeeds on fitting subregions and returns exactly the subregions whose extent
along the removed axis contains the selected coordinate, each with that axis removed -/
theorem projSubs_eq (m : Mesh) (hm : m.Inv) (ax : Nat) (hax : ax < m.ndim) (h2 : 2 ≤ m.ndim) (s : Rat)
    (subs : List (String × Region)) (hfit : ∀ p ∈ subs, SubFits m p.2) :
    projSubs ax s subs = .ok ((keepSubs ax s subs).map fun p => (p.1, projReg ax p.2)) := by
  induction subs with
  | nil => rfl
  | cons p rest ih =>
    obtain ⟨k, r⟩ := p
    have ih' := ih (fun q hq => hfit q (by simp [hq]))
    have hr : SubFits m r := hfit (k, r) (by simp)
    unfold projSubs
    by_cases hc : (decide (r.hi ax < s) || decide (s < r.lo ax)) = true
    · simp only [hc, if_true]
      rw [ih']
      have hf : keepSubs ax s ((k, r) :: rest) = keepSubs ax s rest := by
        unfold keepSubs; rw [List.filter_cons]; simp only [hc, Bool.not_true, Bool.false_eq_true, if_false]
      rw [hf]
    · have hc' : (decide (r.hi ax < s) || decide (s < r.lo ax)) = false := by simpa using hc
      simp only [hc', Bool.false_eq_true, if_false, projReg_mk m hm ax hax h2 r hr, ih']
      have hf : keepSubs ax s ((k, r) :: rest) = (k, r) :: keepSubs ax s rest := by
        unfold keepSubs; rw [List.filter_cons]; simp only [hc', Bool.not_false, if_true]
      rw [hf]; rfl

/-! ## the subregion setter accepts fitting subregions -/

theorem remainder_nat_mul (k : Nat) (c : Rat) (hc : 0 < c) : Mesh.remainder ((k : Rat) * c) c = 0 := by
  unfold Mesh.remainder
  have hq : (k : Rat) * c / c = (k : Rat) := by field_simp
  rw [hq]
  have hf : ((k : Rat)).floor = (k : Int) := by
    apply rat_floor_eq
    · push_cast; exact le_refl _
    · push_cast; linarith
  rw [hf]
  push_cast
  ring

theorem absR_of_nonneg (x : Rat) (h : 0 ≤ x) : absR x = x := by
  rw [absR_eq_abs]; exact abs_of_nonneg h

theorem absR_neg' (x : Rat) : absR (-x) = absR x := by
  rw [absR_eq_abs, absR_eq_abs]; exact abs_neg x

/-- the mesh `Mesh(region=s, cell=m.cell)` the setter builds for a fitting subregion exists -/
theorem subMesh_ok (m : Mesh) (hm : m.Inv) (s : Region) (hs : SubFits m s) :
    ∃ o, Mesh.mkCell? s m.cell = .ok o ∧ o.region = s ∧ ∀ a, a < m.ndim → o.cellAt a = m.cellAt a := by
  have hsn : s.ndim = m.ndim := hs.1
  -- the number of cells of the subregion along each axis
  have hw : ∀ a, a < m.ndim → ∃ w : Nat, 0 < w ∧ s.edge a = (w : Rat) * m.cellAt a := by
    intro a ha
    obtain ⟨z, w, hw, _, _, hhi⟩ := hs.2.2 a ha
    exact ⟨w, hw, by unfold Region.edge; rw [hhi]; ring⟩
  let k : Nat → Nat := fun a => (Mesh.roundHalfEven (s.edge a / m.cell.getD a 0)).toNat
  have hk : ∀ a, a < m.ndim → 0 < k a ∧ s.edge a = (k a : Rat) * m.cellAt a := by
    intro a ha
    obtain ⟨w, hw, he⟩ := hw a ha
    have hc := cell_pos' m hm a ha
    have hcell : m.cell.getD a 0 = m.cellAt a := by unfold Mesh.cell; exact getD_tab _ _ _ _ ha
    have hq : s.edge a / m.cell.getD a 0 = (w : Rat) := by
      rw [hcell, he]; field_simp
    have : k a = w := by
      show (Mesh.roundHalfEven (s.edge a / m.cell.getD a 0)).toNat = w
      rw [hq, roundHalfEven_nat]; rfl
    rw [this]; exact ⟨hw, he⟩
  obtain ⟨o, ho⟩ := mkCell_of s m.cell k (by simp [Mesh.cell, hsn])
    (by intro a ha; exact subFits_lo_lt_hi m hm s hs a (by rw [← hsn]; exact ha))
    (by intro a ha; exact (hk a (by rw [← hsn]; exact ha)).1)
    (by
      intro a ha
      have ha' : a < m.ndim := by rw [← hsn]; exact ha
      have hc := cell_pos' m hm a ha'
      have hcell : m.cell.getD a 0 = m.cellAt a := by unfold Mesh.cell; exact getD_tab _ _ _ _ ha'
      have hkp : ((k a : Nat) : Rat) ≠ 0 := by exact_mod_cast (Nat.pos_iff_ne_zero.mp (hk a ha').1)
      rw [hcell, (hk a ha').2]
      field_simp)
  have ho' := mkCell_ok _ _ _ ho
  refine ⟨o, ho, by rw [ho'], ?_⟩
  intro a ha
  have hkp : ((k a : Nat) : Rat) ≠ 0 := by exact_mod_cast (Nat.pos_iff_ne_zero.mp (hk a ha).1)
  have hn : o.nAt a = k a := by
    unfold Mesh.nAt
    rw [ho']
    simp only
    rw [getD_tab _ _ _ _ (by rw [hsn]; exact ha)]
  unfold Mesh.cellAt
  rw [hn]
  have : o.region.edge a = s.edge a := by rw [ho']
  rw [this, (hk a ha).2]
  unfold Mesh.cellAt
  field_simp

/-- `is_aligned` holds between a mesh and the mesh of a fitting subregion -/
theorem aligned_of_fits (m : Mesh) (hm : m.Inv) (s : Region) (hs : SubFits m s) (o : Mesh)
    (hor : o.region = s) (hoc : ∀ a, a < m.ndim → o.cellAt a = m.cellAt a) :
    aligned m o (1/1000000000000) = true := by
  unfold aligned
  simp only [Bool.and_eq_true]
  refine ⟨⟨?_, ?_⟩, ?_⟩
  · rw [allLt_iff]
    intro a ha
    rw [hoc a ha]
    unfold Region.isclose
    have h0 : absR (m.cellAt a - m.cellAt a) = 0 := by rw [sub_self]; exact absR_of_nonneg 0 (le_refl _)
    rw [h0]
    have := absR_nonneg (m.cellAt a)
    simp only [decide_eq_true_eq]
    positivity
  · rw [allLt_iff]
    intro a ha
    obtain ⟨z, w, hw, hzw, hlo, hhi⟩ := hs.2.2 a ha
    have hc := cell_pos' m hm a ha
    have hd : absR (m.region.lo a - o.region.lo a) = (z : Rat) * m.cellAt a := by
      rw [hor, hlo]
      have : m.region.lo a - (m.region.lo a + (z : Rat) * m.cellAt a) = -((z : Rat) * m.cellAt a) := by ring
      rw [this, absR_neg', absR_of_nonneg]
      positivity
    rw [hd, remainder_nat_mul z _ hc]
    simp
  · rw [allLt_iff]
    intro a ha
    obtain ⟨z, w, hw, hzw, hlo, hhi⟩ := hs.2.2 a ha
    have hc := cell_pos' m hm a ha
    have hcov := cells_cover m hm a ha
    have hd : absR (m.region.hi a - o.region.hi a) = ((m.nAt a - (z + w) : Nat) : Rat) * m.cellAt a := by
      rw [hor, hhi, hlo]
      have hcast : ((m.nAt a - (z + w) : Nat) : Rat) = (m.nAt a : Rat) - ((z : Rat) + (w : Rat)) := by
        rw [Nat.cast_sub hzw]; push_cast; ring
      have : m.region.hi a - (m.region.lo a + (z : Rat) * m.cellAt a + (w : Rat) * m.cellAt a)
          = ((m.nAt a - (z + w) : Nat) : Rat) * m.cellAt a := by
        rw [hcast]
        unfold Region.edge at hcov
        linarith
      rw [this, absR_of_nonneg]
      positivity
    rw [hd, remainder_nat_mul _ _ hc]
    simp

theorem containsReg_of_fits (m : Mesh) (hm : m.Inv) (s : Region) (hs : SubFits m s) :
    m.region.containsReg s = true := by
  unfold Region.containsReg
  have hcov := fun a ha => cells_cover m hm a ha
  have hbounds : ∀ a, a < m.ndim → m.region.lo a ≤ s.lo a ∧ s.lo a ≤ s.hi a ∧ s.hi a ≤ m.region.hi a := by
    intro a ha
    obtain ⟨z, w, hw, hzw, hlo, hhi⟩ := hs.2.2 a ha
    have hc := cell_pos' m hm a ha
    have hz : (0 : Rat) ≤ (z : Rat) * m.cellAt a := by positivity
    have hwp : (0 : Rat) ≤ (w : Rat) * m.cellAt a := by positivity
    have hle : ((z : Rat) + (w : Rat)) * m.cellAt a ≤ (m.nAt a : Rat) * m.cellAt a := by
      apply mul_le_mul_of_nonneg_right _ (le_of_lt hc)
      exact_mod_cast hzw
    have := hcov a ha
    unfold Region.edge at this
    refine ⟨by linarith, by linarith, ?_⟩
    rw [hhi, hlo]
    nlinarith
  rw [Bool.and_eq_true]
  constructor
  · apply containsPt_of_exact _ _ hs.1
    intro a ha
    obtain ⟨h1, h2, h3⟩ := hbounds a ha
    exact ⟨h1, by show s.lo a ≤ _; linarith⟩
  · apply containsPt_of_exact _ _ hs.2.1
    intro a ha
    obtain ⟨h1, h2, h3⟩ := hbounds a ha
    exact ⟨by show _ ≤ s.hi a; linarith, h3⟩

/-- the subregion setter accepts every list of fitting subregions and stores each with the
mesh's dims, units and tolerance -/
theorem setSubs_ok (m : Mesh) (hm : m.Inv) (subs : List (String × Region)) (hfit : ∀ p ∈ subs, SubFits m p.2) :
    setSubs m subs = .ok (subs.map fun p => (p.1, restamp m p.2)) := by
  induction subs with
  | nil => rfl
  | cons p rest ih =>
    obtain ⟨k, r⟩ := p
    have hr : SubFits m r := hfit (k, r) (by simp)
    obtain ⟨o, ho, hor, hoc⟩ := subMesh_ok m hm r hr
    unfold setSubs
    simp only [containsReg_of_fits m hm r hr, Bool.not_true, Bool.false_eq_true, if_false, ho,
      aligned_of_fits m hm r hr o hor hoc, ih (fun q hq => hfit q (by simp [hq]))]
    rfl

/-! ## axis removal with subregions -/

/-- the reduced mesh before its subregions are set: it is what `sel` returns for the same mesh
without subregions -/
theorem selCore_ok (m : Mesh) (hm : m.Inv) (h2 : 2 ≤ m.ndim) (d : String) (ax : Nat)
    (hax : m.region.dim2index d = .ok ax) :
    ∃ s r mc, selCentre m ax = .ok s ∧
      Region.mk? (removeAt m.region.pmin ax) (removeAt m.region.pmax ax)
        (some (removeAt m.region.dims ax)) (some (removeAt m.region.units ax)) m.region.tol = .ok r ∧
      Mesh.mkCell? r (removeAt m.cell ax) = .ok mc ∧ mc.subs = [] ∧
      sel { m with subs := [] } d = .ok mc := by
  have hm0 : ({ m with subs := [] } : Mesh).Inv := hm
  obtain ⟨m0', hsel0, hsubs0⟩ := sel_ok { m with subs := [] } hm0 rfl h2 d ax hax
  obtain ⟨s, hs⟩ := selCentre_ok m hm ax
  have hs0 : selCentre { m with subs := [] } ax = .ok s := hs
  have hax0 : ({ m with subs := [] } : Mesh).region.dim2index d = .ok ax := hax
  have hsel := hsel0
  unfold sel at hsel
  simp only [hax0, hs0, projSubs] at hsel
  split at hsel
  · cases hsel
  · rename_i r hr
    split at hsel
    · cases hsel
    · rename_i mc hmc
      simp only [setSubs] at hsel
      injection hsel with hsel
      have hmcs : mc.subs = [] := by rw [mkCell_ok _ _ _ hmc]
      have : m0' = mc := by rw [← hsel]; cases mc; simp_all
      subst this
      exact ⟨s, r, m0', hs, hr, hmc, hmcs, hsel0⟩

/-- a subregion that fits the mesh, with one axis removed, fits the reduced mesh -/
theorem projReg_fits (m : Mesh) (hm : m.Inv) (d : String) (ax : Nat) (hax : m.region.dim2index d = .ok ax)
    (mc : Mesh) (hsel : sel { m with subs := [] } d = .ok mc) (s : Region) (hs : SubFits m s) :
    SubFits mc (projReg ax s) := by
  have hm0 : ({ m with subs := [] } : Mesh).Inv := hm
  obtain ⟨ax', hax', haxlt, h2, hpmin, hpmax, _, _, _, hn, _, _⟩ := sel_spec _ hm0 d mc hsel
  have hax0 : ({ m with subs := [] } : Mesh).region.dim2index d = .ok ax := hax
  rw [hax0] at hax'; injection hax' with hax'; subst hax'
  have haxlt : ax < m.ndim := haxlt
  have h2 : 2 ≤ m.ndim := h2
  have hpmin : mc.region.pmin = removeAt m.region.pmin ax := hpmin
  have hpmax : mc.region.pmax = removeAt m.region.pmax ax := hpmax
  have hn : mc.n = removeAt m.n ax := hn
  have hcell : ∀ a, mc.cellAt a = m.cellAt (skip ax a) := fun a => sel_cellAt _ hm0 d mc hsel ax hax0 a
  have hnd : mc.ndim = m.ndim - 1 := by
    show mc.region.pmin.length = _
    rw [hpmin, removeAt_length _ _ haxlt]; rfl
  refine ⟨?_, ?_, ?_⟩
  · show (removeAt s.pmin ax).length = _
    rw [removeAt_length _ _ (by rw [hs.1]; exact haxlt), hs.1, hnd]
  · show (removeAt s.pmax ax).length = _
    rw [removeAt_length _ _ (by rw [hs.2.1]; exact haxlt), hs.2.1, hnd]
  · intro a ha
    rw [hnd] at ha
    obtain ⟨z, w, hw, hzw, hlo, hhi⟩ := hs.2.2 (skip ax a) (skip_lt ax a _ ha)
    refine ⟨z, w, hw, ?_, ?_, ?_⟩
    · unfold Mesh.nAt; rw [hn, getD_removeAt_skip]; exact hzw
    · show (removeAt s.pmin ax).getD a 0 = mc.region.pmin.getD a 0 + _
      rw [hpmin, getD_removeAt_skip, getD_removeAt_skip, hcell]
      exact hlo
    · show (removeAt s.pmax ax).getD a 0 = (removeAt s.pmin ax).getD a 0 + _
      rw [getD_removeAt_skip, getD_removeAt_skip, hcell]
      exact hhi

/-- `Mesh.sel(d)` succeeds on every well-formed mesh (two or more dimensions) whose subregions
fit it, for every direction name of the mesh.  The result is the reduced mesh of the same mesh
without subregions, carrying exactly the subregions whose closed extent along the removed axis
contains the centre coordinate of the selected cell — each with that axis removed and the
reduced mesh's dims, units, tolerance — and these fit the reduced mesh again. -/
theorem sel_ok_subs (m : Mesh) (hm : m.Inv) (hfit : SubsFit m) (h2 : 2 ≤ m.ndim) (d : String) (ax : Nat)
    (hax : m.region.dim2index d = .ok ax) :
    ∃ s mc m', selCentre m ax = .ok s ∧ sel { m with subs := [] } d = .ok mc ∧ sel m d = .ok m' ∧
      m' = { mc with subs := (keepSubs ax s m.subs).map fun p => (p.1, restamp mc (projReg ax p.2)) } ∧
      SubsFit m' := by
  obtain ⟨s, r, mc, hs, hr, hmc, hmcs, hsel0⟩ := selCore_ok m hm h2 d ax hax
  have hm0 : ({ m with subs := [] } : Mesh).Inv := hm
  have hmcinv : mc.Inv := sel_inv _ hm0 d mc hsel0
  obtain ⟨haxd, _⟩ := dim2index_ok _ _ _ hax
  have haxlt : ax < m.ndim := by
    show ax < m.region.pmin.length
    rw [← hm.1.2.2.1]; exact haxd
  have hkeep : ∀ p ∈ keepSubs ax s m.subs, SubFits m p.2 := by
    intro p hp
    exact hfit p (List.mem_of_mem_filter hp)
  have hL : ∀ q ∈ (keepSubs ax s m.subs).map (fun p => (p.1, projReg ax p.2)), SubFits mc q.2 := by
    intro q hq
    obtain ⟨p, hp, rfl⟩ := List.mem_map.mp hq
    exact projReg_fits m hm d ax hax mc hsel0 p.2 (hkeep p hp)
  refine ⟨s, mc, _, hs, hsel0, ?_, rfl, ?_⟩
  · unfold sel
    simp only [hax, hs, projSubs_eq m hm ax haxlt h2 s m.subs hfit, hr, hmc, setSubs_ok mc hmcinv _ hL,
      List.map_map]
    rfl
  · intro q hq
    obtain ⟨p, hp, rfl⟩ := List.mem_map.mp hq
    have := projReg_fits m hm d ax hax mc hsel0 p.2 (hkeep p hp)
    exact this

/-- short form of `sel_ok_subs` -/
theorem sel_okS (m : Mesh) (hm : m.Inv) (hfit : SubsFit m) (h2 : 2 ≤ m.ndim) (d : String) (ax : Nat)
    (hax : m.region.dim2index d = .ok ax) : ∃ m', sel m d = .ok m' ∧ SubsFit m' := by
  obtain ⟨_, _, m', _, _, hsel, _, hf⟩ := sel_ok_subs m hm hfit h2 d ax hax
  exact ⟨m', hsel, hf⟩

end DFV.C06
