import DFV.Lemmas.C03y
/-! C03 helper lemmas, part z: the other forms of the ufunc protocol — `reduce`, `accumulate`,
`outer` and calls with `out=`. -/
namespace DFV.C03
open DFV

/-! ## `setAt` / `removeAt` on shapes and indices -/

theorem length_setAt {α} (s : List α) (ax : Nat) (v : α) : (setAt s ax v).length = s.length := by
  induction s generalizing ax with
  | nil => rfl
  | cons x xs ih =>
    cases ax with
    | zero => rfl
    | succ a => simp [setAt, ih]

theorem length_removeAt {α} (s : List α) (ax : Nat) (h : ax < s.length) : (removeAt s ax).length + 1 = s.length := by
  induction s generalizing ax with
  | nil => simp at h
  | cons x xs ih =>
    cases ax with
    | zero => simp [removeAt]
    | succ a =>
      simp only [removeAt, List.length_cons]
      rw [ih a (by simpa using h)]

theorem setAt_eq_self_iff (s : List Nat) (ax v : Nat) (h : ax < s.length) : setAt s ax v = s ↔ s.getD ax 0 = v := by
  induction s generalizing ax with
  | nil => simp at h
  | cons x xs ih =>
    cases ax with
    | zero => simp [setAt, eq_comm]
    | succ a =>
      simp only [setAt, List.cons.injEq, true_and, List.getD_cons_succ]
      exact ih a (by simpa using h)

theorem setAt_append_lt {α} (n : List α) (k : α) (ax : Nat) (v : α) (h : ax < n.length) :
    setAt (n ++ [k]) ax v = setAt n ax v ++ [k] := by
  induction n generalizing ax with
  | nil => simp at h
  | cons x xs ih =>
    cases ax with
    | zero => rfl
    | succ a =>
      simp only [List.cons_append, setAt]
      rw [ih a (by simpa using h)]

theorem setAt_append_last {α} (n : List α) (k v : α) : setAt (n ++ [k]) n.length v = n ++ [v] := by
  induction n with
  | nil => rfl
  | cons x xs ih => simp only [List.cons_append, List.length_cons, setAt, ih]

theorem setAt_setAt {α} (s : List α) (ax : Nat) (v w : α) : setAt (setAt s ax v) ax w = setAt s ax w := by
  induction s generalizing ax with
  | nil => rfl
  | cons x xs ih =>
    cases ax with
    | zero => rfl
    | succ a => simp only [setAt, ih]

theorem setAt_getD_self (s : List Nat) (ax : Nat) : setAt s ax (s.getD ax 0) = s := by
  induction s generalizing ax with
  | nil => rfl
  | cons x xs ih =>
    cases ax with
    | zero => rfl
    | succ a => simp only [setAt, List.getD_cons_succ, ih]

theorem getD_setAt_self (s : List Nat) (ax v : Nat) (h : ax < s.length) : (setAt s ax v).getD ax 0 = v := by
  induction s generalizing ax with
  | nil => simp at h
  | cons x xs ih =>
    cases ax with
    | zero => rfl
    | succ a =>
      simp only [setAt, List.getD_cons_succ]
      exact ih a (by simpa using h)

theorem getD_append_lt (n : List Nat) (k ax : Nat) (h : ax < n.length) : (n ++ [k]).getD ax 0 = n.getD ax 0 := by
  induction n generalizing ax with
  | nil => simp at h
  | cons x xs ih =>
    cases ax with
    | zero => rfl
    | succ a =>
      simp only [List.cons_append, List.getD_cons_succ]
      exact ih a (by simpa using h)

theorem getD_append_last (n : List Nat) (k : Nat) : (n ++ [k]).getD n.length 0 = k := by
  induction n with
  | nil => rfl
  | cons x xs ih => simp only [List.cons_append, List.length_cons, List.getD_cons_succ, ih]

/-! ## the wrapper refuses by shape -/

theorem ufuncWrap_shape_rejected (self : CF) (res : NDA GQ) (k : Kind) (valid : NDA Bool)
    (h : res.shape.dropLast ≠ self.mesh.n) : ufuncWrap self res k valid = .error .notImpl := by
  unfold ufuncWrap
  rw [if_pos h]

theorem ufuncWrap_length_rejected (self : CF) (res : NDA GQ) (k : Kind) (valid : NDA Bool)
    (h : res.shape.length ≠ self.mesh.n.length + 1) (h0 : self.mesh.n ≠ []) :
    ufuncWrap self res k valid = .error .notImpl := by
  apply ufuncWrap_shape_rejected
  intro hc
  have hl := congrArg List.length hc
  rw [List.length_dropLast] at hl
  cases hs : res.shape with
  | nil =>
    rw [hs] at hc
    exact h0 hc.symm
  | cons x xs =>
    rw [hs] at hl h
    simp only [List.length_cons] at hl h
    omega

/-! ## `reduce` -/

theorem foldAxis_one (fn : GQ → GQ → GQ) (a : NDA GQ) (ax : Nat) (base : List Nat) :
    foldAxis fn a ax base 1 = a.get (setAt base ax 0) := by
  simp [foldAxis]

theorem foldAxis_succ (fn : GQ → GQ → GQ) (a : NDA GQ) (ax : Nat) (base : List Nat) (k : Nat) :
    foldAxis fn a ax base (k + 2) = fn (foldAxis fn a ax base (k + 1)) (a.get (setAt base ax (k + 1))) := by
  simp only [foldAxis, Nat.add_sub_cancel]
  rw [show k + 2 - 1 = k + 1 from rfl, List.range_succ, List.foldl_append]
  rfl

theorem foldAxis_setAt (fn : GQ → GQ → GQ) (a : NDA GQ) (ax : Nat) (base : List Nat) (v len : Nat) :
    foldAxis fn a ax (setAt base ax v) len = foldAxis fn a ax base len := by
  simp only [foldAxis, setAt_setAt]

/-- `np.<ufunc>.reduce(f, axis=None)` is refused: a 0-d result has no mesh axes -/
theorem ufuncReduce_none_rejected (fn : GQ → GQ → GQ) (f : CF) (keep : Bool) (h0 : f.mesh.n ≠ []) :
    ∃ e, ufuncReduce fn f none keep = .error e := by
  unfold ufuncReduce
  cases ufuncMeshOk f (.fld f) with
  | error e => exact ⟨e, rfl⟩
  | ok u =>
    refine ⟨.notImpl, ?_⟩
    simp only
    exact ufuncWrap_shape_rejected f _ _ _ (fun hc => h0 hc.symm)

/-- an axis beyond the array's rank is refused -/
theorem ufuncReduce_range_rejected (fn : GQ → GQ → GQ) (f : CF) (ax : Nat) (keep : Bool)
    (h : f.data.shape.length ≤ ax) : ∃ e, ufuncReduce fn f (some ax) keep = .error e := by
  unfold ufuncReduce
  cases ufuncMeshOk f (.fld f) with
  | error e => exact ⟨e, rfl⟩
  | ok u => exact ⟨.value, by simp only [if_pos h]⟩

/-- without `keepdims` a reduction loses an axis and is refused -/
theorem ufuncReduce_nokeep_rejected (fn : GQ → GQ → GQ) (f : CF) (hw : CFwf f) (h0 : f.mesh.n ≠ []) (ax : Nat)
    (hax : ax < f.data.shape.length) : ∃ e, ufuncReduce fn f (some ax) false = .error e := by
  unfold ufuncReduce
  cases ufuncMeshOk f (.fld f) with
  | error e => exact ⟨e, rfl⟩
  | ok u =>
    refine ⟨.notImpl, ?_⟩
    simp only
    rw [if_neg (Nat.not_le.mpr hax)]
    apply ufuncWrap_shape_rejected
    intro hc
    have hl := congrArg List.length hc
    have h1 := length_removeAt f.data.shape ax hax
    have h2 : f.data.shape.length = f.mesh.n.length + 1 := by rw [hw.1]; simp
    have h3 : 0 < f.mesh.n.length := List.length_pos_of_ne_nil h0
    simp only [npReduce, Bool.false_eq_true, if_false, List.length_dropLast] at hl
    omega

/-- with `keepdims`, reducing an axis of length other than 1 is refused: a mesh axis changes
the cell counts, the component axis leaves one component for `nvdim` labels -/
theorem ufuncReduce_keep_rejected (fn : GQ → GQ → GQ) (f : CF) (hw : CFwf f) (hst : MetaStable f) (ax : Nat)
    (hax : ax < f.data.shape.length) (hlen : f.data.shape.getD ax 0 ≠ 1) :
    ∃ e, ufuncReduce fn f (some ax) true = .error e := by
  unfold ufuncReduce
  cases ufuncMeshOk f (.fld f) with
  | error e => exact ⟨e, rfl⟩
  | ok u =>
    simp only
    rw [if_neg (Nat.not_le.mpr hax)]
    have hlen' : f.data.shape.length = f.mesh.n.length + 1 := by rw [hw.1]; simp
    by_cases hlt : ax < f.mesh.n.length
    · refine ⟨.notImpl, ?_⟩
      apply ufuncWrap_shape_rejected
      simp only [npReduce, if_true]
      rw [hw.1, setAt_append_lt _ _ _ _ hlt, dropLast_append_single]
      intro hc
      rw [setAt_eq_self_iff _ _ _ hlt] at hc
      apply hlen
      rw [hw.1, getD_append_lt _ _ _ hlt]
      exact hc
    · have hax' : ax = f.mesh.n.length := by omega
      have hnv : f.nvdim ≠ 1 := by
        intro h1
        apply hlen
        rw [hw.1, hax', getD_append_last, h1]
      have hshape : (npReduce fn f.data ax true).shape = f.mesh.n ++ [1] := by
        simp only [npReduce, if_true]
        rw [hw.1, hax', setAt_append_last]
      cases hvd : f.vdims with
      | none => exact absurd (hst.unlabelled hw.2.2 hvd).1 hnv
      | some l =>
        obtain ⟨_, hl, _⟩ := hst.labels hw.2.2 l hvd
        have hvs : vdimsSet 1 (some l) = .error .value := by
          cases l with
          | nil =>
            have := hw.2.2
            simp at hl; omega
          | cons x xs =>
            simp only [vdimsSet]
            rw [if_pos (by rw [hl]; exact hnv)]
        obtain ⟨e', he'⟩ := mkField_vdims_rejected f.mesh 1 (npReduce fn f.data ax true) f.kind (some l)
          (some f.valid) (some f.vmap) none hshape
          (by intro v hv; injection hv with hv; subst hv; exact hw.2.1) _ hvs
        refine ⟨.notImpl, ?_⟩
        unfold ufuncWrap
        rw [if_neg (by rw [hshape]; simp), hshape, getLastD_append_single, hvd, he']

/-- **the only accepted reductions are identities**: with `keepdims` and an axis of length 1
the call is accepted, keeps labels and mapping, and returns the values and validity of `f` -/
theorem ufuncReduce_keep_accepts (fn : GQ → GQ → GQ) (M : Mesh) (hM : MeshOk M) (f : CF) (hf : Good M f) (ax : Nat)
    (hax : ax < f.data.shape.length) (hlen : f.data.shape.getD ax 0 = 1) :
    ∃ g, ufuncReduce fn f (some ax) true = .ok g ∧ Good M g ∧ g.nvdim = f.nvdim ∧ g.vdims = f.vdims ∧
      g.vmap = f.vmap ∧ g.unit = none ∧ g.kind = f.kind.ctor ∧
      (∀ idx, inRange (f.mesh.n ++ [f.nvdim]) idx = true → g.data.get idx = f.data.get idx) ∧
      (∀ i, inRange f.mesh.n i = true → g.valid.get i = f.valid.get i) := by
  have hshape : (npReduce fn f.data ax true).shape = f.mesh.n ++ [f.nvdim] := by
    simp only [npReduce, if_true]
    rw [(setAt_eq_self_iff _ _ _ hax).mpr hlen, hf.1.1]
  obtain ⟨g, hg, hgg, h1, h2, h3, h4, h5⟩ :=
    ufuncWrap_accepts M f hf (npReduce fn f.data ax true) f.kind f.valid hshape hf.1.2.1
  have hred : ufuncReduce fn f (some ax) true = .ok g := by
    simp only [ufuncReduce, ufuncMeshOk]
    rw [hf.2.2, hM.2]
    simp only
    rw [if_neg (Nat.not_le.mpr hax)]
    exact hg
  refine ⟨g, hred, hgg, h1, h2, h3, h4, h5, ?_⟩
  obtain ⟨_, hmk⟩ := ufuncWrap_ok _ _ _ _ _ hg
  rw [hshape, getLastD_append_single] at hmk
  obtain ⟨_, _, _, _, _, _, _, _, hdata, hvalid⟩ :=
    mkField_arr f.mesh f.nvdim (npReduce fn f.data ax true) _ _ (some f.valid) _ _ g
      (by rw [hshape]; simp) (by intro v hv; injection hv with hv; subst hv; exact hf.1.2.1) hmk
  refine ⟨fun idx hidx => ?_, fun i hi => by rw [hvalid i hi]; rfl⟩
  rw [hdata idx hidx, hshape, bproj_inRange _ _ hidx]
  show foldAxis fn f.data ax idx (f.data.shape.getD ax 0) = _
  rw [hlen, foldAxis_one]
  have hlt : idx.getD ax 0 < 1 := by
    have := inRange_getD (f.mesh.n ++ [f.nvdim]) idx hidx ax (by rw [← hf.1.1]; exact hax)
    rw [← hf.1.1, hlen] at this
    exact this
  have h0 : idx.getD ax 0 = 0 := by omega
  rw [← h0, setAt_getD_self]

/-! ## `accumulate` -/

/-- **`np.<ufunc>.accumulate(f, axis)` is accepted** for every axis of the array (mesh axes and
the component axis): a field on the same mesh with `f`'s labels, mapping and validity whose
entries are the running `fn`-fold along that axis -/
theorem ufuncAccumulate_accepts (fn : GQ → GQ → GQ) (M : Mesh) (hM : MeshOk M) (f : CF) (hf : Good M f) (ax : Nat)
    (hax : ax < f.data.shape.length) :
    ∃ g, ufuncAccumulate fn f ax = .ok g ∧ Good M g ∧ g.nvdim = f.nvdim ∧ g.vdims = f.vdims ∧
      g.vmap = f.vmap ∧ g.unit = none ∧ g.kind = f.kind.ctor ∧
      (∀ idx, inRange (f.mesh.n ++ [f.nvdim]) idx = true →
        g.data.get idx = foldAxis fn f.data ax idx (idx.getD ax 0 + 1)) ∧
      (∀ i, inRange f.mesh.n i = true → g.valid.get i = f.valid.get i) := by
  have hshape : (npAccumulate fn f.data ax).shape = f.mesh.n ++ [f.nvdim] := hf.1.1
  obtain ⟨g, hg, hgg, h1, h2, h3, h4, h5⟩ :=
    ufuncWrap_accepts M f hf (npAccumulate fn f.data ax) f.kind f.valid hshape hf.1.2.1
  have hacc : ufuncAccumulate fn f ax = .ok g := by
    simp only [ufuncAccumulate, ufuncMeshOk]
    rw [hf.2.2, hM.2]
    simp only
    rw [if_neg (Nat.not_le.mpr hax)]
    exact hg
  refine ⟨g, hacc, hgg, h1, h2, h3, h4, h5, ?_⟩
  obtain ⟨_, hmk⟩ := ufuncWrap_ok _ _ _ _ _ hg
  rw [hshape, getLastD_append_single] at hmk
  obtain ⟨_, _, _, _, _, _, _, _, hdata, hvalid⟩ :=
    mkField_arr f.mesh f.nvdim (npAccumulate fn f.data ax) _ _ (some f.valid) _ _ g
      (by rw [hshape]; simp) (by intro v hv; injection hv with hv; subst hv; exact hf.1.2.1) hmk
  refine ⟨fun idx hidx => ?_, fun i hi => by rw [hvalid i hi]; rfl⟩
  rw [hdata idx hidx, hshape, bproj_inRange _ _ hidx]
  rfl

/-! ## `outer` -/

/-- **`np.<ufunc>.outer(f, g)` is always refused**: the result has the axes of both arrays -/
theorem ufuncOuter_rejected (fn : GQ → GQ → GQ) (f o : CF) (hf : CFwf f) (ho : CFwf o) :
    ∃ e, ufuncOuter fn f o = .error e := by
  unfold ufuncOuter
  cases ufuncMeshOk f (.fld f) with
  | error e => exact ⟨e, rfl⟩
  | ok u =>
    simp only
    cases ufuncMeshOk f (.fld o) with
    | error e => exact ⟨e, rfl⟩
    | ok u' =>
      refine ⟨.notImpl, ?_⟩
      apply ufuncWrap_shape_rejected
      intro hc
      have hl := congrArg List.length hc
      simp only [List.length_dropLast, List.length_append] at hl
      rw [hf.1, ho.1] at hl
      simp at hl
      omega

/-! ## calls with `out=` -/

theorem outWrite_ok (fn : GQ → GQ → GQ) (rk : Kind) (a b : NDA GQ) (out out' : CF)
    (h : outWrite fn rk a b out = .ok out') :
    out' = { out with data := ⟨out.data.shape, fun idx => fn (a.get (bproj a.shape idx)) (b.get (bproj b.shape idx))⟩ } ∧
    rk.castable out.kind = true ∧
    ∃ s, bshape a.shape b.shape = some s ∧ bshape s out.data.shape = some out.data.shape := by
  unfold outWrite at h
  cases hb : bshape a.shape b.shape with
  | none => rw [hb] at h; cases h
  | some s =>
    rw [hb] at h
    simp only at h
    split at h
    · cases h
    · rename_i h1
      split at h
      · cases h
      · rename_i h2
        injection h with h
        exact ⟨h.symm, by simpa using h2, s, rfl, by simpa using h1⟩

/-- the call either leaves `out` alone or NumPy's call went through and overwrote its array -/
theorem ufunc2out_out_cases (fn : GQ → GQ → GQ) (pw : Bool) (rk : Kind → Kind → Kind) (l r : Val) (out : CF) :
    (ufunc2out fn pw rk l r out).out = out ∨
    ∃ a ka b kb out', ufuncInput l = .ok (a, ka) ∧ ufuncInput r = .ok (b, kb) ∧
      negIntPow pw ka kb b = false ∧ outWrite fn (rk ka kb) a b out = .ok out' ∧
      (ufunc2out fn pw rk l r out).out = out' := by
  unfold ufunc2out
  cases hl : ufuncInput l with
  | error e => exact Or.inl rfl
  | ok p =>
    obtain ⟨a, ka⟩ := p
    simp only
    cases hr : ufuncInput r with
    | error e => exact Or.inl rfl
    | ok q =>
      obtain ⟨b, kb⟩ := q
      simp only
      split
      · exact Or.inl rfl
      · split
        · exact Or.inl rfl
        · rename_i hp
          cases hw : outWrite fn (rk ka kb) a b out with
          | error e => exact Or.inl rfl
          | ok out' => exact Or.inr ⟨a, ka, b, kb, out', rfl, rfl, by simpa using hp, hw, rfl⟩

/-- **whatever happens, `out` keeps everything but its array**: mesh, component count, validity,
labels, mapping, unit, dtype kind and array shape of the `out` field are what they were -/
theorem ufunc2out_state_kept (fn : GQ → GQ → GQ) (pw : Bool) (rk : Kind → Kind → Kind) (l r : Val) (out : CF) :
    (ufunc2out fn pw rk l r out).out.mesh = out.mesh ∧ (ufunc2out fn pw rk l r out).out.nvdim = out.nvdim ∧
    (ufunc2out fn pw rk l r out).out.valid = out.valid ∧ (ufunc2out fn pw rk l r out).out.vdims = out.vdims ∧
    (ufunc2out fn pw rk l r out).out.vmap = out.vmap ∧ (ufunc2out fn pw rk l r out).out.unit = out.unit ∧
    (ufunc2out fn pw rk l r out).out.kind = out.kind ∧
    (ufunc2out fn pw rk l r out).out.data.shape = out.data.shape := by
  rcases ufunc2out_out_cases fn pw rk l r out with h | ⟨a, ka, b, kb, out', _, _, _, hw, h⟩
  · rw [h]; exact ⟨rfl, rfl, rfl, rfl, rfl, rfl, rfl, rfl⟩
  · rw [h, (outWrite_ok _ _ _ _ _ _ hw).1]
    exact ⟨rfl, rfl, rfl, rfl, rfl, rfl, rfl, rfl⟩

theorem ufuncValid_shape (l r : Val) (self : CF) (hs : firstFld l r = some self)
    (hwl : ∀ f, l = .fld f → CFwf f) (hwr : ∀ f, r = .fld f → CFwf f) :
    (ufuncValid self l r).shape = self.mesh.n := by
  cases l with
  | fld f =>
    simp only [firstFld] at hs
    injection hs with hs
    subst hs
    cases r with
    | fld o => exact (hwl f rfl).2.1
    | raw od => exact (hwl f rfl).2.1
  | raw od =>
    cases r with
    | fld o =>
      simp only [firstFld] at hs
      injection hs with hs
      subst hs
      exact (hwr o rfl).2.1
    | raw od2 => simp [firstFld] at hs

/-- what a successful call with `out=` returns and leaves in `out`, entry by entry -/
theorem ufunc2out_ok (fn : GQ → GQ → GQ) (pw : Bool) (rk : Kind → Kind → Kind) (l r : Val) (out g : CF)
    (hwo : CFwf out) (hwl : ∀ f, l = .fld f → CFwf f) (hwr : ∀ f, r = .fld f → CFwf f)
    (h : (ufunc2out fn pw rk l r out).res = .ok g) :
    ∃ self a ka b kb, firstFld l r = some self ∧ ufuncInput l = .ok (a, ka) ∧ ufuncInput r = .ok (b, kb) ∧
      g.mesh = self.mesh ∧ self.mesh.n = out.mesh.n ∧ g.nvdim = out.nvdim ∧ CFwf g ∧ g.kind = out.kind.ctor ∧
      (∀ idx, (ufunc2out fn pw rk l r out).out.data.get idx =
        fn (a.get (bproj a.shape idx)) (b.get (bproj b.shape idx))) ∧
      (∀ idx, inRange (out.mesh.n ++ [out.nvdim]) idx = true →
        g.data.get idx = (ufunc2out fn pw rk l r out).out.data.get idx) ∧
      (∀ i, inRange out.mesh.n i = true → g.valid.get i = (ufuncValid self l r).get i) := by
  unfold ufunc2out at h ⊢
  cases hl : ufuncInput l with
  | error e => rw [hl] at h; cases h
  | ok p =>
    obtain ⟨a, ka⟩ := p
    rw [hl] at h
    simp only at h ⊢
    cases hr : ufuncInput r with
    | error e => rw [hr] at h; cases h
    | ok q =>
      obtain ⟨b, kb⟩ := q
      rw [hr] at h
      simp only at h ⊢
      split at h
      · cases h
      · rename_i hmesh
        split at h
        · cases h
        · rename_i hp
          rw [if_neg hp]
          cases hw : outWrite fn (rk ka kb) a b out with
          | error e => rw [hw] at h; cases h
          | ok out' =>
            rw [hw] at h
            simp only at h ⊢
            obtain ⟨ho', _, _⟩ := outWrite_ok _ _ _ _ _ _ hw
            cases hs : firstFld l r with
            | none => rw [hs] at h; cases h
            | some self =>
              rw [hs] at h
              simp only at h
              obtain ⟨hdrop, hmk⟩ := ufuncWrap_ok _ _ _ _ _ h
              have hsh : out'.data.shape = out.mesh.n ++ [out.nvdim] := by rw [ho']; exact hwo.1
              rw [hsh, dropLast_append_single] at hdrop
              rw [hsh, getLastD_append_single] at hmk
              obtain ⟨hm, hnv, hwf, _, hk, _, _, _, hdata, hvalid⟩ :=
                mkField_arr self.mesh out.nvdim out'.data _ _ (some (ufuncValid self l r)) _ _ g
                  (by rw [hsh, ← hdrop]; simp) (fun v hv => by
                    injection hv with hv; subst hv
                    exact ufuncValid_shape l r self hs hwl hwr) hmk
              refine ⟨self, a, ka, b, kb, rfl, rfl, rfl, hm, hdrop.symm, hnv, hwf, hk, ?_, ?_, ?_⟩
              · intro idx; rw [ho']
              · intro idx hidx
                rw [hdrop] at hidx
                rw [hdata idx hidx, hsh, hdrop, bproj_inRange _ _ hidx]
              · intro i hi
                rw [hdrop] at hi
                rw [hvalid i hi]; rfl

/-- **`np.<ufunc>(f, o, out=h)` is accepted** for two fields on one mesh `M` whose result has
`f`'s component count and any field `h` with the same cell counts and component count — on
`M` or on any other mesh — whose dtype the result can be cast to: the returned field is a
well-formed field on `M` with `f`'s labels and mapping, no unit, and `h`'s dtype kind -/
theorem ufunc2out_ff_accepts (fn : GQ → GQ → GQ) (pw : Bool) (rk : Kind → Kind → Kind) (M : Mesh) (hM : MeshOk M)
    (f o out : CF) (hf : Good M f) (ho : Good M o) (hwo : CFwf out) (hn : out.mesh.n = M.n)
    (hnv : out.nvdim = f.nvdim) (hd : bdim f.nvdim o.nvdim = some f.nvdim)
    (hk : (rk f.kind o.kind).castable out.kind = true) (hpw : negIntPow pw f.kind o.kind o.data = false) :
    ∃ g, (ufunc2out fn pw rk (.fld f) (.fld o) out).res = .ok g ∧ Good M g ∧ g.nvdim = f.nvdim ∧
      g.vdims = f.vdims ∧ g.vmap = f.vmap ∧ g.unit = none ∧ g.kind = out.kind.ctor := by
  have hshape : bshape f.data.shape o.data.shape = some (M.n ++ [f.nvdim]) := by
    rw [hf.1.1, ho.1.1, hf.2.2, ho.2.2]
    exact bshape_cells _ _ _ _ hd
  have hos : out.data.shape = M.n ++ [f.nvdim] := by rw [hwo.1, hn, hnv]
  have hw : outWrite fn (rk f.kind o.kind) f.data o.data out = .ok
      { out with data := ⟨out.data.shape, fun idx =>
          fn (f.data.get (bproj f.data.shape idx)) (o.data.get (bproj o.data.shape idx))⟩ } := by
    unfold outWrite
    rw [hshape]
    simp only
    rw [if_neg (by rw [hos, bshape_self]; simp), if_neg (by rw [hk]; simp)]
  obtain ⟨g, hg, hrest⟩ := ufuncWrap_accepts M f hf
    (⟨out.data.shape, fun idx => fn (f.data.get (bproj f.data.shape idx)) (o.data.get (bproj o.data.shape idx))⟩ : NDA GQ)
    out.kind (NDA.zipWith (fun x y => x && y) f.valid o.valid) (by rw [hf.2.2]; exact hos) hf.1.2.1
  refine ⟨g, ?_, hrest⟩
  simp only [ufunc2out, ufuncInput, firstFld, ufuncMeshOk, ufuncValid]
  rw [hf.2.2, ho.2.2, hM.2]
  simp only [hpw, Bool.false_eq_true, if_false]
  rw [hw]
  exact hg

/-! ## fields on two meshes that `Mesh.allclose` identifies -/

theorem meshAllclose_n (a b : Mesh) (h : meshAllclose a b = .ok true) : a.n = b.n := by
  unfold meshAllclose at h
  split at h
  · cases h
  · injection h with h
    simp only [Bool.and_eq_true, decide_eq_true_eq] at h
    exact h.2

/-- **`_apply_operator` accepts two fields whose meshes are `allclose`** (not necessarily the
same object or equal): the result lives on the mesh of `self` -/
theorem applyOperator_fld_accepts_close (fn : GQ → GQ → GQ) (pw : Bool) (M M' : Mesh) (f o : CF)
    (hf : Good M f) (ho : Good M' o) (hclose : meshAllclose M M' = .ok true) (d : Nat)
    (hd : bdim f.nvdim o.nvdim = some d) (hpw : negIntPow pw f.kind o.kind o.data = false) :
    ∃ g, applyOperator fn pw f (.fld o) = .ok g ∧ Good M g ∧ g.nvdim = d ∧
      g.vdims = (metaSrc f o).vdims ∧ g.vmap = (metaSrc f o).vmap ∧ g.unit = none ∧
      g.kind = (f.kind.join o.kind).ctor := by
  obtain ⟨hwf, hsf, hmf⟩ := hf
  obtain ⟨hwo, hso, hmo⟩ := ho
  have hn : M'.n = M.n := (meshAllclose_n M M' hclose).symm
  have hcs : checkSame f o true = .ok () := by
    apply checkSame_accepts
    · rw [hmf, hmo]; exact hclose
    · obtain ⟨h1, h2⟩ := bdim_some _ _ _ hd
      by_cases h3 : f.nvdim = 1
      · exact Or.inl ⟨rfl, Or.inl h3⟩
      · rw [if_neg h3] at h1
        rcases h2 with h2 | h2
        · exact Or.inl ⟨rfl, Or.inr h2⟩
        · exact Or.inr (by rw [← h1, h2])
  have hshape : bshape f.data.shape o.data.shape = some (M.n ++ [d]) := by
    rw [hwf.1, hwo.1, hmf, hmo, hn]
    exact bshape_cells _ _ _ _ hd
  obtain ⟨res, hres, hrs⟩ := npBin_shape fn f.data o.data _ hshape
  have hnvd := metaSrc_nvdim f o d hwf.2.2 hwo.2.2 hd
  have hlast : lastAx res.shape = (metaSrc f o).nvdim := by
    rw [hrs, getLastD_append_single, hnvd]
  have hst : MetaStable (metaSrc f o) := by unfold metaSrc; split <;> assumption
  have hp : 0 < (metaSrc f o).nvdim := by unfold metaSrc; split <;> [exact hwo.2.2; exact hwf.2.2]
  obtain ⟨g, hg, hgm, hgn, hgvd, hgvm, hgu, hgk, hgwf⟩ :=
    mkField_from_stable (metaSrc f o) hst hp f.mesh res (f.kind.join o.kind)
      (some (NDA.zipWith (fun x y => x && y) f.valid o.valid)) none
      (by rw [hrs, hmf, hnvd])
      (by intro v hv; injection hv with hv; subst hv; exact hwf.2.1)
  refine ⟨g, ?_, ⟨hgwf, ?_, by rw [hgm, hmf]⟩, by rw [hgn, hnvd], hgvd, hgvm, hgu, hgk⟩
  · simp only [applyOperator, hcs, hpw, hres]
    rw [hlast]
    simp only [Bool.false_eq_true, if_false]
    have e1 : (if f.nvdim = 1 ∧ 1 < o.nvdim then o.vdims else f.vdims) = (metaSrc f o).vdims := by
      unfold metaSrc; split <;> rfl
    have e2 : (if f.nvdim = 1 ∧ 1 < o.nvdim then o.vmap else f.vmap) = (metaSrc f o).vmap := by
      unfold metaSrc; split <;> rfl
    rw [e1, e2, hst.fix hp]
    exact hg
  · refine ⟨?_, ?_⟩
    · rw [hgn, hgvd]; exact hst.1
    · rw [hgn, hgvd, hgvm, hgm]
      exact vmapSet_some_stable _ _ _ _ _ _ _ hst.2

/-- **binary ufuncs accept two fields whose meshes are `allclose`** when the result has `self`'s count -/
theorem ufunc2_ff_accepts_close (fn : GQ → GQ → GQ) (pw : Bool) (M M' : Mesh) (hM : MeshOk M) (f o : CF)
    (hf : Good M f) (ho : Good M' o) (hclose : meshAllclose M M' = .ok true)
    (hd : bdim f.nvdim o.nvdim = some f.nvdim) (hpw : negIntPow pw f.kind o.kind o.data = false) :
    ∃ g, ufunc2 fn pw (.fld f) (.fld o) = .ok g ∧ Good M g ∧ g.nvdim = f.nvdim ∧ g.vdims = f.vdims ∧
      g.vmap = f.vmap ∧ g.unit = none ∧ g.kind = (f.kind.join o.kind).ctor := by
  have hn : M'.n = M.n := (meshAllclose_n M M' hclose).symm
  have hshape : bshape f.data.shape o.data.shape = some (f.mesh.n ++ [f.nvdim]) := by
    rw [hf.1.1, ho.1.1, hf.2.2, ho.2.2, hn]
    exact bshape_cells _ _ _ _ hd
  obtain ⟨res, hres, hrs⟩ := npBin_shape fn f.data o.data _ hshape
  obtain ⟨g, hg, hrest⟩ := ufuncWrap_accepts M f hf res (f.kind.join o.kind)
    (NDA.zipWith (fun x y => x && y) f.valid o.valid) hrs hf.1.2.1
  refine ⟨g, ?_, hrest⟩
  simp only [ufunc2, firstFld, ufuncInput, ufuncMeshOk, ufuncValid]
  rw [hf.2.2, ho.2.2, hM.2, hclose]
  simp only [hpw, hres, Bool.false_eq_true, if_false]
  exact hg

end DFV.C03
