import DFV.Lemmas.C05Examples
import DFV.Lemmas.C05Obj
/-! concrete fields for the non-vacuity examples of the object-level rotation theorems of
`DFV/Props/C05.lean` (meshes with subregions, explicit reference points, in-place form, multi-character
axis names) and the model-level witness of open finding D57 -/
set_option linter.unusedSimpArgs false
namespace DFV.C05
open DFV DFV.C04

/-- a subregion of `exMesh` made of whole cells -/
def exSub : Region :=
  { pmin := [0, 0, 0], pmax := [2, 2, 4], dims := ["a", "b", "c"], units := ["m", "m", "m"], tol := 1/1000000000000 }

/-- the masked scalar field `exSM` (periodic along `a`) on the mesh WITH the subregion `s` -/
def exSMs : Fld := { exSM with mesh := { exSM.mesh with subs := [("s", exSub)] } }

/-- the masked permuted vector field `exVM` on the mesh WITH the subregion `s` -/
def exVMs : Fld := { exVM with mesh := { exVM.mesh with subs := [("s", exSub)] } }

theorem exSMs_wf : MeshWf exSMs := meshWf_subs exSM_wf _
theorem exSMs_tw02 : TurnWf exSMs 0 2 := turnWf_subs exSM_tw02 _
theorem exVMs_wf : MeshWf exVMs := meshWf_subs exVM_wf _
theorem exVMs_tw (a b : Nat) : TurnWf exVMs a b := turnWf_subs (exVM_tw a b) _

theorem ok_of_toBool {α} {r : M α} (h : r.toBool = true) : ∃ v, r = .ok v := by
  cases r with
  | ok v => exact ⟨v, rfl⟩
  | error e => cases h

/-- `exSMs.rotate90('a', 'c', k=-3, reference_point=(1, 2, 3), inplace=True)` is accepted: the mesh
constructor re-validates the turned subregion -/
theorem exSMs_rot : ∃ x g, T.rotate90F exSMs "a" "c" (-3) (some [1, 2, 3]) true = .ok (x, g) := by
  obtain ⟨v, hv⟩ := ok_of_toBool (r := T.rotate90F exSMs "a" "c" (-3) (some [1, 2, 3]) true) (by decide +kernel)
  exact ⟨v.1, v.2, hv⟩

/-- `exVMs.rotate90('c', 'a', k=5, reference_point=(1/2, 2, -3))` (copying form) is accepted -/
theorem exVMs_rot : ∃ x g, T.rotate90F exVMs "c" "a" 5 (some [1/2, 2, -3]) false = .ok (x, g) := by
  obtain ⟨v, hv⟩ := ok_of_toBool (r := T.rotate90F exVMs "c" "a" 5 (some [1/2, 2, -3]) false) (by decide +kernel)
  exact ⟨v.1, v.2, hv⟩

/-- a mesh whose second and third axis have multi-character names, periodic along `x` only -/
def exMeshMc : Mesh :=
  { region := { pmin := [0, 0, 0], pmax := [4, 6, 10], dims := ["x", "yy", "zeta"],
                units := ["m", "m", "m"], tol := 1/1000000000000 },
    n := [4, 3, 5], bc := "x", subs := [] }

def exSmc : Fld := { exS with mesh := exMeshMc }

theorem lower_x : ("x" : String).toLower = "x" := by
  apply String.toList_inj.mp; simp [String.toLower]

theorem exSmc_wf : MeshWf exSmc := by
  refine ⟨rfl, rfl, ⟨rfl, by decide⟩, rfl, ?_, lower_x, by decide, rfl⟩
  intro x hx
  have : x = 0 ∨ x = 1 ∨ x = 2 := by unfold Mesh.ndim Region.ndim exSmc exMeshMc at hx; simp at hx; omega
  rcases this with rfl | rfl | rfl <;> refine ⟨?_, by decide⟩ <;>
    simp [Region.lo, Region.hi, exSmc, exMeshMc]

/-! ### open finding D57 in the model: axis `x` periodic, the other axis of the plane named `yy` -/

def exM57 : Mesh :=
  { region := { pmin := [0, 0], pmax := [4, 6], dims := ["x", "yy"], units := ["m", "m"], tol := 1/1000000000000 },
    n := [4, 3], bc := "x", subs := [] }

/-- the scalar field `i₀²` on `exM57` -/
def exS57 : Fld :=
  { mesh := exM57, nvdim := 1, data := ⟨[4, 3], fun i => [((i.getD 0 0 : Nat) : Rat) ^ 2]⟩,
    valid := ⟨[4, 3], fun _ => true⟩, vdims := none, vmap := [], unit := none }

/-- both orders of "quarter turn" and "Laplacian" on `exS57`: the two values at cell `[0, 0]` -/
def chk57 : Option (Rat × Rat) :=
  match rot90FldK exS57 "x" "yy" 1, laplace exS57 with
  | .ok R, .ok L =>
    match laplace R, rot90FldK L "x" "yy" 1 with
    | .ok LR, .ok RL => some ((LR.data.get [0, 0]).getD 0 0, (RL.data.get [0, 0]).getD 0 0)
    | _, _ => none
  | _, _ => none

theorem chk57_val : chk57 = some (2, 10) := by decide +kernel

theorem exS57_wf : MeshWf exS57 := by
  refine ⟨rfl, rfl, ⟨rfl, by decide⟩, rfl, ?_, lower_x, by decide, rfl⟩
  intro x hx
  have : x = 0 ∨ x = 1 := by unfold Mesh.ndim Region.ndim exS57 exM57 at hx; simp at hx; omega
  rcases this with rfl | rfl <;> refine ⟨?_, by decide⟩ <;>
    simp [Region.lo, Region.hi, exS57, exM57]

/-! ### names that the substring test of `Field.diff` used to read as periodic (repo fix 61bf94db), upper-case names -/

/-- `exS57` with the axes called `n`, `y` on a `neumann` mesh: `"n" in "neumann"` -/
def exSN : Fld := { exS57 with mesh := { exM57 with region := { exM57.region with dims := ["n", "y"] }, bc := "neumann" } }

theorem lower_neumann : ("neumann" : String).toLower = "neumann" := by
  apply String.toList_inj.mp; simp [String.toLower]

theorem exSN_wf : MeshWf exSN := by
  refine ⟨rfl, rfl, ⟨rfl, by decide⟩, rfl, ?_, lower_neumann, by decide, rfl⟩
  intro x hx
  have : x = 0 ∨ x = 1 := by unfold Mesh.ndim Region.ndim exSN exS57 exM57 at hx; simp at hx; omega
  rcases this with rfl | rfl <;> refine ⟨?_, by decide⟩ <;>
    simp [Region.lo, Region.hi, exSN, exS57, exM57]

/-- a 3-d mesh periodic along `x` and `y` whose third axis is called `xy`: `"xy" in "xy"` -/
def exMeshXY : Mesh :=
  { region := { pmin := [0, 0, 0], pmax := [4, 6, 10], dims := ["x", "y", "xy"],
                units := ["m", "m", "m"], tol := 1/1000000000000 },
    n := [4, 3, 5], bc := "xy", subs := [] }

def exSXY : Fld := { exS with mesh := exMeshXY }

/-- `exS57` with the second axis called `Y` (upper case): since repo fix be43fa9b `Mesh.rotate90` accepts the
turn and leaves `bc = "x"` alone (before, the turned `bc = "Y"` was lower-cased to `"y"` and refused) -/
def exS57U : Fld := { exS57 with mesh := { exM57 with region := { exM57.region with dims := ["x", "Y"] } } }

def chk57U : Option (Rat × Rat) :=
  match rot90FldK exS57U "x" "Y" 1, laplace exS57U with
  | .ok R, .ok L =>
    match laplace R, rot90FldK L "x" "Y" 1 with
    | .ok LR, .ok RL => some ((LR.data.get [0, 0]).getD 0 0, (RL.data.get [0, 0]).getD 0 0)
    | _, _ => none
  | _, _ => none

theorem chk57U_val : chk57U = some (2, 10) := by decide +kernel

theorem exS57U_wf : MeshWf exS57U := by
  refine ⟨rfl, rfl, ⟨rfl, by decide⟩, rfl, ?_, lower_x, by decide, rfl⟩
  intro x hx
  have : x = 0 ∨ x = 1 := by unfold Mesh.ndim Region.ndim exS57U exS57 exM57 at hx; simp at hx; omega
  rcases this with rfl | rfl <;> refine ⟨?_, by decide⟩ <;>
    simp [Region.lo, Region.hi, exS57U, exS57, exM57]

end DFV.C05
