import Mathlib.Tactic.Ring
import Mathlib.Tactic.Linarith
import Mathlib.Data.Rat.Floor
import DFV.Model.C10
import DFV.Lemmas.Tab
import DFV.Lemmas.Index
/-! helper lemmas for C10: Except plumbing, typed arrays and casts, broadcasting, and the
component-wise round trips (region, corner table, mesh, arrays, labels, unit). -/
namespace DFV.C10
open DFV

/-! ## Except plumbing -/

@[simp] theorem bind_ok {α β : Type} (x : α) (k : α → M β) : (Except.ok x : M α).bind k = k x := rfl
@[simp] theorem bind_err {α β : Type} (e : Err) (k : α → M β) : (Except.error e : M α).bind k = .error e := rfl

theorem mapE_ok_of {α β : Type} (f : α → M β) (g : α → β) (l : List α)
    (h : ∀ a ∈ l, f a = .ok (g a)) : mapE f l = .ok (l.map g) := by
  induction l with
  | nil => rfl
  | cons a as ih =>
    have h1 := h a (by simp)
    have h2 := ih (fun b hb => h b (by simp [hb]))
    simp [mapE, h1, h2]

theorem mapE_map_ok_of {α β γ : Type} (f : β → M γ) (h : α → β) (g : α → γ) (l : List α)
    (hh : ∀ a ∈ l, f (h a) = .ok (g a)) : mapE f (l.map h) = .ok (l.map g) := by
  induction l with
  | nil => rfl
  | cons a as ih =>
    have h1 := hh a (by simp)
    have h2 := ih (fun b hb => hh b (by simp [hb]))
    simp [mapE, h1, h2]

theorem hasDup_cons (x : String) (xs : List String) :
    hasDup (x :: xs) = false ↔ xs.contains x = false ∧ hasDup xs = false := by
  simp [hasDup]

theorem dictInsert_fresh {α : Type} (d : List (String × α)) (k : String) (v : α)
    (h : (d.map fun p => p.1).contains k = false) : dictInsert d k v = d ++ [(k, v)] := by
  induction d with
  | nil => rfl
  | cons p t ih =>
    obtain ⟨k', v'⟩ := p
    have hk : ¬ k' = k := by
      intro e
      subst e
      simp at h
    have ht : (t.map fun p => p.1).contains k = false := by
      simp only [List.map_cons, List.contains_cons, Bool.or_eq_false_iff] at h
      exact h.2
    simp [dictInsert, hk, ih ht]

theorem foldl_dictInsert {α : Type} (ps acc : List (String × α))
    (h : hasDup ((acc ++ ps).map fun p => p.1) = false) :
    ps.foldl (fun d p => dictInsert d p.1 p.2) acc = acc ++ ps := by
  induction ps generalizing acc with
  | nil => simp
  | cons p t ih =>
    have hfresh : (acc.map fun q => q.1).contains p.1 = false := by
      clear ih
      induction acc with
      | nil => rfl
      | cons a as iha =>
        simp only [List.cons_append, List.map_cons] at h
        rw [hasDup_cons] at h
        have h2 := iha h.2
        have h1 := h.1
        simp only [List.map_append, List.map_cons, List.contains_eq_mem, List.mem_append, List.mem_cons,
          decide_eq_false_iff_not, not_or] at h1
        simp only [List.map_cons, List.contains_cons, Bool.or_eq_false_iff]
        refine ⟨?_, h2⟩
        have := h1.2.1
        simp only [beq_eq_false_iff_ne, ne_eq]
        intro e
        exact this e.symm
    simp only [List.foldl_cons]
    rw [dictInsert_fresh acc p.1 p.2 hfresh]
    have : acc ++ [(p.1, p.2)] ++ t = acc ++ p :: t := by simp
    rw [ih (acc ++ [(p.1, p.2)]) (by rw [this]; exact h), this]

/-- a list of pairs with distinct keys is its own dict -/
theorem dictOf_nodup {α : Type} (ps : List (String × α)) (h : hasDup (ps.map fun p => p.1) = false) :
    dictOf ps = ps := by
  unfold dictOf
  rw [foldl_dictInsert ps [] (by simpa using h)]
  simp

/-! ## casts -/

theorem truncR_intCast (i : Int) : truncR (i : Rat) = i := by
  unfold truncR
  split
  · exact Rat.floor_intCast i
  · have : (-(i : Rat)) = ((-i : Int) : Rat) := by push_cast; ring
    rw [this, Rat.floor_intCast]
    omega

theorem joinAll_int (ks : List NK) (h : joinAll ks = .int) : ∀ k ∈ ks, k = .int := by
  unfold joinAll at h
  split at h
  · rename_i hh
    intro k hk
    have := List.all_eq_true.mp hh k hk
    simpa using this
  · cases h

theorem joinAll_cases (ks : List NK) : joinAll ks = .int ∨ joinAll ks = .float := by
  unfold joinAll
  split <;> simp

namespace NumArr

theorem cast_kind (k : NK) (a : NumArr) : (a.cast k).kind = k := by
  cases k <;> cases a <;> rfl

theorem cast_length (k : NK) (a : NumArr) : (a.cast k).length = a.length := by
  cases k <;> cases a <;> simp [cast, length]

theorem vals_length (a : NumArr) : a.vals.length = a.length := by
  cases a <;> simp [vals, length]

/-- a cast is lossless when the target is float, or the array is an integer array already -/
theorem cast_vals (k : NK) (a : NumArr) (h : k = .float ∨ a.kind = .int) : (a.cast k).vals = a.vals := by
  cases k <;> cases a <;> simp_all [cast, vals, kind]

theorem cast_self (a : NumArr) : a.cast a.kind = a := by
  cases a <;> rfl

theorem cast_cast_of_kind (k : NK) (a : NumArr) (h : a.kind = k) : a.cast k = a := by
  subst h; exact cast_self a

/-- integer array → float dataset → integer again is exact (`truncR` of an integer) -/
theorem cast_int_of_cast_float (v : List Int) : ((ints v).cast .float).cast .int = ints v := by
  simp only [cast]
  congr 1
  rw [List.map_map]
  conv_rhs => rw [← List.map_id v]
  apply List.map_congr_left
  intro i _
  simp [truncR_intCast]

theorem take_cast_append (k : NK) (a b : NumArr) (h : a.kind = b.kind) :
    ((a.append b).cast k).take a.length = a.cast k := by
  cases k <;> cases a <;> cases b <;> simp_all [append, cast, take, length, kind, vals]

theorem drop_cast_append (k : NK) (a b : NumArr) (h : a.kind = b.kind) :
    ((a.append b).cast k).drop a.length = b.cast k := by
  cases k <;> cases a <;> cases b <;> simp_all [append, cast, drop, length, kind, vals]

theorem getD_vals_ints (v : List Int) (i : Nat) : (ints v).vals.getD i 0 = ((v.getD i 0 : Int) : Rat) := by
  simp only [vals, List.getD_eq_getElem?_getD, List.getElem?_map]
  cases v[i]? <;> simp

end NumArr

theorem zipWith_min_left {α : Type} [LinearOrder α] (d : α) (v w : List α) (hl : w.length = v.length)
    (h : ∀ i, i < v.length → v.getD i d ≤ w.getD i d) : List.zipWith min v w = v := by
  induction v generalizing w with
  | nil => simp
  | cons a as ih =>
    cases w with
    | nil => simp at hl
    | cons b bs =>
      have h0 := h 0 (by simp)
      simp only [List.getD_cons_zero] at h0
      have ht := ih bs (by simpa using hl) (fun i hi => by
        have := h (i + 1) (by simpa using hi)
        simpa using this)
      simp [List.zipWith, min_eq_left h0, ht]

theorem zipWith_max_left {α : Type} [LinearOrder α] (d : α) (v w : List α) (hl : w.length = v.length)
    (h : ∀ i, i < v.length → v.getD i d ≤ w.getD i d) : List.zipWith max v w = w := by
  induction v generalizing w with
  | nil => cases w with
    | nil => rfl
    | cons b bs => simp at hl
  | cons a as ih =>
    cases w with
    | nil => simp at hl
    | cons b bs =>
      have h0 := h 0 (by simp)
      simp only [List.getD_cons_zero] at h0
      have ht := ih bs (by simpa using hl) (fun i hi => by
        have := h (i + 1) (by simpa using hi)
        simpa using this)
      simp [List.zipWith, max_eq_right h0, ht]

namespace NumArr

/-- `np.minimum(pmin, pmax) = pmin`, `np.maximum(pmin, pmax) = pmax` for ordered corners of
one dtype -/
theorem minimum_maximum_ordered (a b : NumArr) (hk : a.kind = b.kind) (hl : b.length = a.length)
    (h : ∀ i, i < a.length → a.vals.getD i 0 < b.vals.getD i 0) :
    minimum a b = a ∧ maximum a b = b := by
  cases a with
  | ints v =>
    cases b with
    | floats w => simp [kind] at hk
    | ints w =>
      have hle : ∀ i, i < v.length → v.getD i 0 ≤ w.getD i 0 := by
        intro i hi
        have := h i (by simpa [length] using hi)
        rw [getD_vals_ints, getD_vals_ints] at this
        have : v.getD i 0 < w.getD i 0 := by exact_mod_cast this
        omega
      simp only [minimum, maximum]
      rw [zipWith_min_left 0 v w (by simpa [length] using hl) hle,
        zipWith_max_left 0 v w (by simpa [length] using hl) hle]
      exact ⟨rfl, rfl⟩
  | floats v =>
    cases b with
    | ints w => simp [kind] at hk
    | floats w =>
      have hle : ∀ i, i < v.length → v.getD i 0 ≤ w.getD i 0 := by
        intro i hi
        exact le_of_lt (h i (by simpa [length] using hi))
      simp only [minimum, maximum, vals]
      rw [zipWith_min_left 0 v w (by simpa [length] using hl) hle,
        zipWith_max_left 0 v w (by simpa [length] using hl) hle]
      exact ⟨rfl, rfl⟩

end NumArr

/-! ## invariants, unpacked -/

theorem TReg.inv_iff (r : TReg) : r.Inv ↔
    0 < r.pmin.length ∧ r.pmax.length = r.pmin.length ∧ r.pmin.kind = r.pmax.kind ∧
    r.dims.length = r.pmin.length ∧ r.units.length = r.pmin.length ∧ hasDup r.dims = false ∧
    ∀ a, a < r.pmin.length → r.pmin.vals.getD a 0 < r.pmax.vals.getD a 0 := by
  unfold TReg.Inv TReg.invB
  simp only [Bool.and_eq_true, decide_eq_true_eq, allLt_iff, Bool.not_eq_true']
  tauto

theorem subInv_iff (r : TReg) (n : List Nat) (s : TReg) : subInvB r n s = true ↔
    s.pmin.length = r.ndim ∧ s.pmax.length = r.ndim ∧ s.pmin.kind = s.pmax.kind ∧
    s.dims = r.dims ∧ s.units = r.units ∧ s.tol = r.tol ∧
    (∀ a, a < r.ndim → s.pmin.vals.getD a 0 < s.pmax.vals.getD a 0) ∧
    subAccept r.toRegion n s.toRegion = true := by
  unfold subInvB
  simp only [Bool.and_eq_true, decide_eq_true_eq, allLt_iff]
  tauto

theorem TMesh.inv_iff (m : TMesh) : m.Inv ↔
    m.region.Inv ∧ m.n.length = m.region.ndim ∧ (∀ k ∈ m.n, 0 < k) ∧
    m.bc.toLower = m.bc ∧ Mesh.bcOk m.region.dims m.bc = true ∧
    hasDup (m.subs.map fun p => p.1) = false ∧
    ∀ p ∈ m.subs, subInvB m.region m.n p.2 = true := by
  unfold TMesh.Inv TMesh.invB TReg.Inv
  simp only [Bool.and_eq_true, decide_eq_true_eq, List.all_eq_true, Bool.not_eq_true']
  tauto

/-- labels: absent, or a non-empty duplicate-free list of `nvdim` names -/
def VdimsOk (nvdim : Nat) : Option (List String) → Prop
  | none => True
  | some l => l ≠ [] ∧ l.length = nvdim ∧ hasDup l = false

theorem TFld.inv_iff (f : TFld) : f.Inv ↔
    f.mesh.Inv ∧ 1 ≤ f.nvdim ∧
    f.data.shape = f.mesh.n ++ [f.nvdim] ∧ f.data.buf.length = natProd (f.mesh.n ++ [f.nvdim]) ∧
    f.valid.shape = f.mesh.n ∧ f.valid.buf.length = natProd f.mesh.n ∧
    VdimsOk f.nvdim f.vdims := by
  unfold TFld.Inv TFld.invB TMesh.Inv
  cases hv : f.vdims with
  | none =>
    simp only [Bool.and_eq_true, decide_eq_true_eq, VdimsOk]
    tauto
  | some l =>
    simp only [Bool.and_eq_true, decide_eq_true_eq, Bool.not_eq_true', List.isEmpty_eq_false_iff, VdimsOk]
    tauto

/-! ## the region constructor on ordered corners -/

theorem init_ordered (p1 p2 : NumArr) (dims units : Option (List String)) (d u : List String) (tol : Num)
    (h0 : 0 < p1.length) (hl : p2.length = p1.length) (hk : p1.kind = p2.kind)
    (hD : Region.dimsOk p1.length dims = .ok d) (hU : Region.unitsOk p1.length units = .ok u)
    (hlt : ∀ a, a < p1.length → p1.vals.getD a 0 < p2.vals.getD a 0) :
    TReg.init p1 p2 dims units tol = .ok { pmin := p1, pmax := p2, dims := d, units := u, tol := tol } := by
  unfold TReg.init
  have h1 : ¬ p1.length ≠ p2.length := by omega
  have h2 : ¬ p1.length = 0 := by omega
  have h3 : allLt p1.length (fun a => decide (p1.vals.getD a 0 ≠ p2.vals.getD a 0)) = true := by
    rw [allLt_iff]
    intro a ha
    have := hlt a ha
    simp only [ne_eq, decide_not, Bool.not_eq_eq_eq_not, Bool.not_true, decide_eq_false_iff_not]
    exact ne_of_lt this
  obtain ⟨hmin, hmax⟩ := NumArr.minimum_maximum_ordered p1 p2 hk hl hlt
  simp only [h1, h2, if_false, hD, hU, h3, Bool.not_true, Bool.false_eq_true, hmin, hmax]

theorem dimsOk_some (n : Nat) (d : List String) (hl : d.length = n) (hd : hasDup d = false) :
    Region.dimsOk n (some d) = .ok d := by
  simp [Region.dimsOk, hl, hd]

theorem unitsOk_some (n : Nat) (u : List String) (hl : u.length = n) :
    Region.unitsOk n (some u) = .ok u := by
  simp [Region.unitsOk, hl]

theorem initKw_ordered (p1 p2 : NumArr) (dims units : Option (List String)) (d u : List String) (tol : Num)
    (h0 : 0 < p1.length) (hl : p2.length = p1.length) (hk : p1.kind = p2.kind)
    (hD : Region.dimsOk p1.length dims = .ok d) (hU : Region.unitsOk p1.length units = .ok u)
    (hlt : ∀ a, a < p1.length → p1.vals.getD a 0 < p2.vals.getD a 0) :
    TReg.initKw p1 p2 dims units tol = .ok { pmin := p1, pmax := p2, dims := d, units := u, tol := tol } := by
  unfold TReg.initKw
  have h1 : ¬ p1.length ≠ p2.length := by omega
  have h3 : allLt p1.length (fun a => decide (p1.vals.getD a 0 < p2.vals.getD a 0)) = true := by
    rw [allLt_iff]
    intro a ha
    simpa using hlt a ha
  simp only [h1, if_false, h3, Bool.not_true, Bool.false_eq_true]
  exact init_ordered p1 p2 dims units d u tol h0 hl hk hD hU hlt

/-- the `pmin`/`pmax` keyword form rejects corners that are not strictly ordered -/
theorem initKw_unordered (p1 p2 : NumArr) (dims units : Option (List String)) (tol : Num)
    (a : Nat) (ha : a < p1.length) (h : ¬ p1.vals.getD a 0 < p2.vals.getD a 0) :
    TReg.initKw p1 p2 dims units tol = .error .value := by
  unfold TReg.initKw
  split
  · rfl
  · have : allLt p1.length (fun a => decide (p1.vals.getD a 0 < p2.vals.getD a 0)) = false :=
      allLt_false_of _ _ a ha (by simpa using h)
    rw [this]
    rfl

/-! ## the setter's tests -/

theorem bcOk_empty (d : List String) : Mesh.bcOk d "" = true := by simp [Mesh.bcOk]

/-- the three tests do not look at the candidate's names or units -/
theorem subAccept_dims_units (r : Region) (n : List Nat) (s : Region) (d u : List String) :
    subAccept r n { s with dims := d, units := u } = subAccept r n s := by
  unfold subAccept
  congr 1
  unfold Mesh.mkCell?
  have hl : ("" : String).toLower = "" := by decide +kernel
  have e1 : ({ s with dims := d, units := u } : Region).ndim = s.ndim := rfl
  have e2 : ({ s with dims := d, units := u } : Region).containsPt = s.containsPt := rfl
  have e3 : ({ s with dims := d, units := u } : Region).lo = s.lo := rfl
  have e4 : ({ s with dims := d, units := u } : Region).edge = s.edge := rfl
  simp only [hl, bcOk_empty, Bool.not_true, Bool.false_eq_true, if_false, e1, e2, e3, e4]
  generalize Mesh.cell { region := r, n := n, bc := "", subs := [] } = cell
  by_cases h1 : cell.length ≠ s.ndim
  · simp only [if_pos h1]
  · simp only [if_neg h1]
    by_cases h2 : (cell.any fun c => decide (c ≤ 0)) = true
    · simp only [if_pos h2]
    · simp only [if_neg h2]
      by_cases h3 : (!s.containsPt (tab s.ndim fun a => s.lo a + cell.getD a 0)) = true
      · simp only [if_pos h3]
      · simp only [if_neg h3]
        by_cases h4 : (!allLt s.ndim fun a => !Mesh.notDivisible (s.edge a) (cell.getD a 0) (listMin cell / 1000)) = true
        · simp only [if_pos h4]
        · simp only [if_neg h4]
          by_cases h5 : (!allLt s.ndim fun a => decide (1 ≤ (Mesh.roundHalfEven (s.edge a / cell.getD a 0)).toNat)) = true
          · simp only [if_pos h5]
          · simp only [if_neg h5]
            rfl

/-- a candidate of another dimension fails the containment test -/
theorem subAccept_false_of_length (r : Region) (n : List Nat) (s : Region) (h : s.pmin.length ≠ r.ndim) :
    subAccept r n s = false := by
  unfold subAccept Region.containsReg Region.containsPt
  simp [h]

/-- a candidate whose rebuilt copy `v` passes the tests is accepted -/
theorem candOk_of_init (r : TReg) (n : List Nat) (s v : TReg) (hnd : s.ndim = r.ndim)
    (hinit : TReg.init s.pmin s.pmax (some r.dims) (some r.units) r.tol = .ok v) :
    candOk r n s = subAccept r.toRegion n v.toRegion := by
  unfold candOk
  rw [if_pos hnd, hinit]

/-- **the setter's test of a (valid) candidate**: the three tests on the candidate's corner pair
with the MESH's tolerance factor — the candidate's names, units and own tolerance are immaterial -/
theorem candOk_eq (r : TReg) (hr : r.Inv) (n : List Nat) (s : TReg) (hs : s.Inv) :
    candOk r n s = subAccept r.toRegion n { s.toRegion with tol := r.tol.val } := by
  obtain ⟨h0, hl, hk, _, _, _, hlt⟩ := (TReg.inv_iff s).mp hs
  obtain ⟨_, _, _, hd, hu, hdup, _⟩ := (TReg.inv_iff r).mp hr
  by_cases hnd : s.ndim = r.ndim
  · have hnd' : s.pmin.length = r.pmin.length := hnd
    rw [candOk_of_init r n s _ hnd (init_ordered s.pmin s.pmax (some r.dims) (some r.units) r.dims r.units r.tol h0 hl hk
      (dimsOk_some _ _ (by rw [hnd', hd]) hdup) (unitsOk_some _ _ (by rw [hnd', hu])) hlt)]
    exact subAccept_dims_units r.toRegion n { s.toRegion with tol := r.tol.val } r.dims r.units
  · have hlen : s.toRegion.pmin.length ≠ r.toRegion.ndim := by
      show s.pmin.vals.length ≠ r.pmin.vals.length
      rw [NumArr.vals_length, NumArr.vals_length]
      exact hnd
    unfold candOk
    rw [if_neg hnd]
    simp only
    rw [subAccept_false_of_length _ _ _ hlen]
    exact (subAccept_false_of_length r.toRegion n { s.toRegion with tol := r.tol.val } hlen).symm

theorem regionLoad_regionSave (r : TReg) (h : r.Inv) : regionLoad (regionSave r) = .ok r := by
  obtain ⟨h0, hl, hk, hd, hu, hdup, hlt⟩ := (TReg.inv_iff r).mp h
  unfold regionLoad regionSave
  exact initKw_ordered r.pmin r.pmax (some r.dims) (some r.units) r.dims r.units r.tol h0 hl hk
    (dimsOk_some _ _ hd hdup) (unitsOk_some _ _ hu) hlt

/-! ## the corner table -/

/-- membership in the `result_type` list: the table's dtype can hold every corner array -/
theorem tableKind_lossless (m : TMesh) (p : String × TReg) (hp : p ∈ m.subs) :
    tableKind m = .float ∨ (p.2.pmin.kind = .int ∧ p.2.pmax.kind = .int) := by
  rcases joinAll_cases (m.region.pmin.kind :: (m.subs.map (fun p => p.2.pmin.kind) ++ m.subs.map (fun p => p.2.pmax.kind))) with h | h
  · right
    have hall := joinAll_int _ h
    constructor
    · apply hall
      simp only [List.mem_cons, List.mem_append, List.mem_map]
      exact Or.inr (Or.inl ⟨p, hp, rfl⟩)
    · apply hall
      simp only [List.mem_cons, List.mem_append, List.mem_map]
      exact Or.inr (Or.inr ⟨p, hp, rfl⟩)
  · left; exact h

theorem tableKind_region (m : TMesh) : tableKind m = .float ∨ m.region.pmin.kind = .int := by
  rcases joinAll_cases (m.region.pmin.kind :: (m.subs.map (fun p => p.2.pmin.kind) ++ m.subs.map (fun p => p.2.pmax.kind))) with h | h
  · right
    exact joinAll_int _ h _ (by simp)
  · left; exact h

/-- one row of the table holds the two corners exactly, whatever the dtypes involved -/
theorem subRow_vals (m : TMesh) (p : String × TReg) (hp : p ∈ m.subs) :
    (subRow (tableKind m) p.2).vals = p.2.pmin.vals ++ p.2.pmax.vals := by
  have hk := tableKind_lossless m p hp
  unfold subRow
  generalize tableKind m = k at hk
  cases k <;> cases h1 : p.2.pmin <;> cases h2 : p.2.pmax <;>
    simp_all [NumArr.append, NumArr.cast, NumArr.vals, NumArr.kind]

/-- the region the reader builds from one row of the table -/
def plainOf (k : NK) (ndim : Nat) (s : TReg) : TReg :=
  { pmin := s.pmin.cast k, pmax := s.pmax.cast k, dims := Region.defaultDims ndim,
    units := List.replicate ndim "m", tol := TReg.defaultTol }

theorem rowRegion_subRow (k : NK) (ndim : Nat) (nm : String) (s : TReg) (h0 : 0 < ndim)
    (hl1 : s.pmin.length = ndim) (hl2 : s.pmax.length = ndim) (hk : s.pmin.kind = s.pmax.kind)
    (hlt : ∀ a, a < ndim → s.pmin.vals.getD a 0 < s.pmax.vals.getD a 0)
    (hloss : k = .float ∨ (s.pmin.kind = .int ∧ s.pmax.kind = .int)) :
    rowRegion ndim (nm, subRow k s) = .ok (nm, plainOf k ndim s) := by
  unfold rowRegion subRow
  subst hl1
  simp only [NumArr.take_cast_append k _ _ hk, NumArr.drop_cast_append k _ _ hk]
  have hv1 : (s.pmin.cast k).vals = s.pmin.vals := NumArr.cast_vals k _ (by tauto)
  have hv2 : (s.pmax.cast k).vals = s.pmax.vals := NumArr.cast_vals k _ (by tauto)
  rw [init_ordered (s.pmin.cast k) (s.pmax.cast k) none none (Region.defaultDims s.pmin.length)
      (List.replicate s.pmin.length "m") TReg.defaultTol
      (by rw [NumArr.cast_length]; exact h0) (by rw [NumArr.cast_length, NumArr.cast_length]; exact hl2)
      (by rw [NumArr.cast_kind, NumArr.cast_kind])
      (by rw [NumArr.cast_length]; rfl) (by rw [NumArr.cast_length]; rfl)
      (by rw [NumArr.cast_length, hv1, hv2]; exact hlt)]
  rfl

theorem subsLoad_subsSave (m : TMesh) (hm : m.Inv) :
    subsLoad m.region.ndim (subsSave m)
      = .ok (m.subs.map fun p => (p.1, plainOf (tableKind m) m.region.ndim p.2)) := by
  obtain ⟨hr, _, _, _, _, hnd, hsub⟩ := (TMesh.inv_iff m).mp hm
  obtain ⟨h0, _⟩ := (TReg.inv_iff m.region).mp hr
  unfold subsSave
  split
  · simp only [subsLoad, List.zip_map']
    rw [mapE_map_ok_of (rowRegion m.region.ndim) (fun (p : String × TReg) => (p.1, subRow (tableKind m) p.2))
      (fun (p : String × TReg) => (p.1, plainOf (tableKind m) m.region.ndim p.2))]
    · simp only [bind_ok]
      rw [dictOf_nodup]
      simpa [List.map_map, Function.comp_def] using hnd
    · intro p hp
      obtain ⟨hl1, hl2, hk, _, _, _, hlt, _⟩ := (subInv_iff _ _ _).mp (hsub p hp)
      exact rowRegion_subRow _ _ _ _ h0 hl1 hl2 hk hlt (tableKind_lossless m p hp)
  · rename_i hlen
    have : m.subs = [] := by
      cases hs : m.subs with
      | nil => rfl
      | cons a t => rw [hs] at hlen; simp at hlen
    simp [subsLoad, this]

/-! ## the mesh -/

/-- a cast that loses nothing leaves the region's numbers alone -/
theorem castCorners_toRegion (k : NK) (s : TReg)
    (hloss : k = .float ∨ (s.pmin.kind = .int ∧ s.pmax.kind = .int)) : (s.castCorners k).toRegion = s.toRegion := by
  have hv1 : (s.pmin.cast k).vals = s.pmin.vals := NumArr.cast_vals k _ (by tauto)
  have hv2 : (s.pmax.cast k).vals = s.pmax.vals := NumArr.cast_vals k _ (by tauto)
  simp only [TReg.castCorners, TReg.toRegion, hv1, hv2]

/-- the copy of the re-read corner pair the setter builds, tests and stores: the subregion itself,
corners in the table's dtype -/
theorem init_plainOf_w (k : NK) (r : TReg) (s : TReg) (hr : r.Inv)
    (hl1 : s.pmin.length = r.ndim) (hl2 : s.pmax.length = r.ndim) (hk : s.pmin.kind = s.pmax.kind)
    (hsd : s.dims = r.dims) (hsu : s.units = r.units) (hst : s.tol = r.tol)
    (hlt : ∀ a, a < r.ndim → s.pmin.vals.getD a 0 < s.pmax.vals.getD a 0)
    (hloss : k = .float ∨ (s.pmin.kind = .int ∧ s.pmax.kind = .int)) :
    TReg.init (plainOf k r.ndim s).pmin (plainOf k r.ndim s).pmax (some r.dims) (some r.units) r.tol = .ok (s.castCorners k) := by
  obtain ⟨h0, _, _, hd, hu, hdup, _⟩ := (TReg.inv_iff r).mp hr
  have hv1 : (s.pmin.cast k).vals = s.pmin.vals := NumArr.cast_vals k _ (by tauto)
  have hv2 : (s.pmax.cast k).vals = s.pmax.vals := NumArr.cast_vals k _ (by tauto)
  have hnd : r.ndim = r.pmin.length := rfl
  simp only [plainOf]
  rw [init_ordered (s.pmin.cast k) (s.pmax.cast k) (some r.dims) (some r.units) r.dims r.units r.tol
      (by rw [NumArr.cast_length, hl1, hnd]; exact h0) (by rw [NumArr.cast_length, NumArr.cast_length, hl1, hl2])
      (by rw [NumArr.cast_kind, NumArr.cast_kind])
      (dimsOk_some _ _ (by rw [NumArr.cast_length, hl1, hnd, hd]) hdup)
      (unitsOk_some _ _ (by rw [NumArr.cast_length, hl1, hnd, hu]))
      (by rw [NumArr.cast_length, hv1, hv2, hl1]; exact hlt)]
  simp only [TReg.castCorners, ← hsd, ← hsu, ← hst]

theorem init_plainOf (k : NK) (r : TReg) (s : TReg) (hr : r.Inv)
    (n : List Nat) (hsi : subInvB r n s = true)
    (hloss : k = .float ∨ (s.pmin.kind = .int ∧ s.pmax.kind = .int)) :
    TReg.init (plainOf k r.ndim s).pmin (plainOf k r.ndim s).pmax (some r.dims) (some r.units) r.tol = .ok (s.castCorners k) := by
  obtain ⟨hl1, hl2, hk, hsd, hsu, hst, hlt, _⟩ := (subInv_iff _ _ _).mp hsi
  exact init_plainOf_w k r s hr hl1 hl2 hk hsd hsu hst hlt hloss

theorem rebuildSub_plainOf (k : NK) (r : TReg) (nm : String) (s : TReg) (hr : r.Inv)
    (n : List Nat) (hsi : subInvB r n s = true)
    (hloss : k = .float ∨ (s.pmin.kind = .int ∧ s.pmax.kind = .int)) :
    rebuildSub r (nm, plainOf k r.ndim s) = .ok (nm, s.castCorners k) := by
  unfold rebuildSub
  simp only
  rw [init_plainOf k r s hr n hsi hloss]
  rfl

/-- the re-read corner pair of a stored subregion passes the setter's test -/
theorem candOk_plainOf (k : NK) (r : TReg) (s : TReg) (hr : r.Inv)
    (n : List Nat) (hsi : subInvB r n s = true)
    (hloss : k = .float ∨ (s.pmin.kind = .int ∧ s.pmax.kind = .int)) :
    candOk r n (plainOf k r.ndim s) = true := by
  obtain ⟨hl1, _, _, _, _, _, _, hacc⟩ := (subInv_iff _ _ _).mp hsi
  have hnd : (plainOf k r.ndim s).ndim = r.ndim := by
    show (s.pmin.cast k).length = r.ndim
    rw [NumArr.cast_length, hl1]
  rw [candOk_of_init r n _ _ hnd (init_plainOf k r s hr n hsi hloss), castCorners_toRegion k s hloss]
  exact hacc

theorem meshLoad_meshSave (m : TMesh) (hm : m.Inv) : meshLoad (meshSave m) = .ok m.loaded := by
  obtain ⟨hr, hn, hpos, hbcl, hbc, hnd, hsub⟩ := (TMesh.inv_iff m).mp hm
  unfold meshLoad meshSave
  simp only [regionLoad_regionSave m.region hr, bind_ok, subsLoad_subsSave m hm]
  unfold TMesh.init
  have h1 : ¬ (m.n.map fun (k : Nat) => (k : Int)).length ≠ m.region.ndim := by simp [hn]
  have h2 : (m.n.map fun (k : Nat) => (k : Int)).any (fun k => decide (k ≤ 0)) = false := by
    rw [List.any_eq_false]
    intro k hk
    simp only [List.mem_map] at hk
    obtain ⟨j, hj, rfl⟩ := hk
    have := hpos j hj
    simp only [decide_eq_true_eq]
    omega
  have h3 : (m.n.map fun (k : Nat) => (k : Int)).map Int.toNat = m.n := by
    rw [List.map_map]
    conv_rhs => rw [← List.map_id m.n]
    apply List.map_congr_left
    intro a _
    simp
  have h4 : setSubs m.region m.n (m.subs.map fun p => (p.1, plainOf (tableKind m) m.region.ndim p.2))
      = .ok (m.subs.map fun p => (p.1, p.2.castCorners (tableKind m))) := by
    unfold setSubs
    have hall : (m.subs.map fun p => (p.1, plainOf (tableKind m) m.region.ndim p.2)).all
        (fun p => candOk m.region m.n p.2) = true := by
      rw [List.all_eq_true]
      intro q hq
      simp only [List.mem_map] at hq
      obtain ⟨p, hp, rfl⟩ := hq
      exact candOk_plainOf _ _ _ hr m.n (hsub p hp) (tableKind_lossless m p hp)
    simp only [hall, Bool.not_true, Bool.false_eq_true, if_false]
    exact mapE_map_ok_of (rebuildSub m.region) (fun (p : String × TReg) => (p.1, plainOf (tableKind m) m.region.ndim p.2))
      (fun (p : String × TReg) => (p.1, p.2.castCorners (tableKind m))) m.subs
      (fun p hp => rebuildSub_plainOf _ _ _ _ hr m.n (hsub p hp) (tableKind_lossless m p hp))
  simp only [h1, h2, h3, h4, hbcl, hbc, if_false, Bool.not_true, Bool.false_eq_true, bind_ok]
  rfl

/-! ## arrays: broadcasting an array to its own shape is the identity -/

theorem natProd_pos_all (ns : List Nat) (h : 0 < natProd ns) : ∀ n ∈ ns, 0 < n := by
  induction ns with
  | nil => simp
  | cons a as ih =>
    simp only [natProd] at h
    have ha : 0 < a := by
      rcases Nat.eq_zero_or_pos a with h0 | h0
      · subst h0; simp at h
      · exact h0
    have hb : 0 < natProd as := by
      rcases Nat.eq_zero_or_pos (natProd as) with h0 | h0
      · rw [h0] at h; simp at h
      · exact h0
    intro n hn
    simp only [List.mem_cons] at hn
    rcases hn with rfl | hn
    · exact ha
    · exact ih hb n hn

theorem bcastOk_self (s : List Nat) : bcastOk s s = true := by
  unfold bcastOk
  simp [allLt_iff]

theorem bcastIdx_self (s : List Nat) : bcastIdx s s = List.range (natProd s) := by
  unfold bcastIdx tab
  conv_rhs => rw [← List.map_id (List.range (natProd s))]
  apply List.map_congr_left
  intro k hk
  have hk' : k < natProd s := List.mem_range.mp hk
  have hpos := natProd_pos_all s (by omega)
  have hin := unflatC_inRange s k hpos hk'
  have hlen := inRange_length s _ hin
  have : (tab s.length fun a => if s.getD a 0 = 1 then 0 else (unflatC s k).getD (a + (s.length - s.length)) 0)
      = unflatC s k := by
    symm
    apply eq_tab_of_getD _ _ _ 0 hlen
    intro i hi
    have hlt := inRange_getD s _ hin i hi
    simp only [Nat.sub_self, Nat.add_zero]
    split
    · rename_i h1
      rw [h1] at hlt
      omega
    · rfl
  simp only [id]
  unfold tab at this
  rw [this]
  exact flatC_unflatC s k hpos hk'

theorem map_getD_range {α : Type} (v : List α) (d : α) : (List.range v.length).map (fun k => v.getD k d) = v := by
  apply List.ext_getElem
  · simp
  · intro i h1 h2
    simp [List.getD_eq_getElem?_getD, h2]

namespace DBuf

theorem gather_range (b : DBuf) : b.gather (List.range b.length) = b := by
  cases b <;> simp only [gather, length] <;> rw [map_getD_range]

theorem upcast_length (b : DBuf) : b.upcast.length = b.length := by
  cases b <;> simp [upcast, length]

theorem upcast_idem (b : DBuf) : b.upcast.upcast = b.upcast := by
  cases b <;> rfl

/-- the conversion on reading changes no value — for integer data exactly when every integer
survives the C cast to binary64 (`IntSafe`) -/
theorem upcast_vals (b : DBuf) (h : b.IntSafe) : b.upcast.vals = b.vals := by
  cases b with
  | ints v =>
    simp only [upcast, vals, List.map_map]
    apply List.map_congr_left
    intro i hi
    have : rne53 i = i := by
      have := List.all_eq_true.mp h i hi
      simpa using this
    rw [Function.comp, this]
  | floats v => rfl
  | complexes v => rfl

theorem intSafe_of_not_int (b : DBuf) (h : b.kind ≠ .int) : b.IntSafe := by
  cases b <;> simp_all [IntSafe, intSafeB, kind]

theorem upcast_intSafe (b : DBuf) : b.upcast.IntSafe := by
  cases b <;> rfl

/-- real stays real, complex stays complex -/
theorem upcast_complex_iff (b : DBuf) : b.upcast.kind = .complex ↔ b.kind = .complex := by
  cases b <;> simp [upcast, kind]

theorem upcast_of_not_int (b : DBuf) (h : b.kind ≠ .int) : b.upcast = b := by
  cases b <;> simp_all [upcast, kind]

end DBuf

/-- `_as_array` on an array that already has the field's shape: only the dtype conversion -/
theorem asArray_shaped (d : DArr) (n : List Nat) (nvdim : Nat) (hs : d.shape = n ++ [nvdim])
    (hl : d.buf.length = natProd (n ++ [nvdim])) :
    asArray d n nvdim = .ok { shape := n ++ [nvdim], buf := d.buf.upcast } := by
  obtain ⟨shape, buf⟩ := d
  simp only at hs hl
  subst hs
  unfold asArray
  have h1 : ¬ (nvdim = 1 ∧ n ++ [nvdim] = n) := by
    rintro ⟨_, h⟩
    have := congrArg List.length h
    simp at this
  have h2 : ¬ (n ++ [nvdim]).getLast? ≠ some nvdim := by
    rw [List.getLast?_concat]
    simp
  simp only [h1, h2, if_false, bcastOk_self, Bool.not_true, Bool.false_eq_true, bcastIdx_self]
  rw [← hl, DBuf.gather_range]

theorem asValid_shaped (v : VArr) (n : List Nat) (hs : v.shape = n) :
    asValid (some v) n = .ok { shape := n, buf := v.buf } := by
  simp [asValid, hs]

/-! ## labels, unit -/

theorem decVdims_encVdims (v : Option (List String)) : decVdims (encVdims v) = .ok v := by
  cases v <;> rfl

theorem decUnit_encUnit (u : Option String) : decUnit (encUnit u) = u ↔ u ≠ some "None" := by
  cases u with
  | none => simp [decUnit, encUnit]
  | some s =>
    by_cases h : s = "None"
    · subst h; simp [decUnit, encUnit]
    · simp [decUnit, encUnit, h]

theorem defaultVdims_one : Fld.defaultVdims 1 = none := by
  simp [Fld.defaultVdims]

theorem defaultVdims_none_iff (k : Nat) : Fld.defaultVdims k = none ↔ k = 1 := by
  unfold Fld.defaultVdims
  split
  · simp_all
  · split <;> simp_all

theorem vdimsSet_inv (nvdim : Nat) (v : Option (List String)) (h : VdimsOk nvdim v) :
    vdimsSet nvdim v = .ok (recodeVdims nvdim v) := by
  cases v with
  | none => rfl
  | some l =>
    obtain ⟨hne, hl, hd⟩ := h
    cases l with
    | nil => exact absurd rfl hne
    | cons x t => simp [vdimsSet, hl, hd, recodeVdims]

/-! ## the field -/

/-- the reader on the written group, for every field the constructors return: `reread f` -/
theorem fieldLoad_fieldSave_gen (f : TFld) (hf : f.Inv) :
    fieldLoad (fieldSave f) = .ok (reread f) := by
  obtain ⟨hm, hnv, hds, hdl, hvs, _, hvd⟩ := (TFld.inv_iff f).mp hf
  unfold fieldLoad fieldLoadAt fieldSave
  simp only [meshLoad_meshSave f.mesh hm, bind_ok, decVdims_encVdims, readLoc]
  unfold TFld.init
  have h1 : ¬ ((f.nvdim : Nat) : Int) < 1 := by omega
  have h2 : ((f.nvdim : Nat) : Int).toNat = f.nvdim := by simp
  have hn : f.mesh.loaded.n = f.mesh.n := rfl
  have hd : f.mesh.loaded.region = f.mesh.region := rfl
  simp only [h1, if_false, h2, hn]
  rw [asArray_shaped f.data f.mesh.n f.nvdim hds hdl]
  simp only [bind_ok]
  rw [asArray_shaped _ f.mesh.n f.nvdim rfl (by rw [DBuf.upcast_length]; exact hdl)]
  simp only [bind_ok, asValid_shaped f.valid f.mesh.n hvs, vdimsSet_inv f.nvdim f.vdims hvd, DBuf.upcast_idem]
  simp only [hd]
  have e1 : ({ shape := f.mesh.n ++ [f.nvdim], buf := f.data.buf.upcast } : DArr)
      = { f.data with buf := f.data.buf.upcast } := by rw [← hds]
  have e2 : ({ shape := f.mesh.n, buf := f.valid.buf } : VArr) = f.valid := by rw [← hvs]
  rw [e1, e2]
  rfl

/-- the reader's result is the property's `loaded f` unless the unit is the string `"None"` or
labels are absent on more than one component -/
theorem reread_eq_loaded (f : TFld) (hu : f.unit ≠ some "None") (hv : f.vdims = none → f.nvdim = 1) :
    reread f = loaded f := by
  have h1 : rereadVdims f = f.vdims := by
    unfold rereadVdims
    cases hvd : f.vdims with
    | none => simp only [recodeVdims]; rw [hv hvd, defaultVdims_one]
    | some l => rfl
  unfold reread
  rw [h1, (decUnit_encUnit f.unit).mpr hu]
  rfl

theorem reread_vdims (f : TFld) (hv : f.vdims = none → f.nvdim = 1) : (reread f).vdims = f.vdims := by
  show rereadVdims f = f.vdims
  unfold rereadVdims
  cases hvd : f.vdims with
  | none => simp only [recodeVdims]; rw [hv hvd, defaultVdims_one]
  | some l => rfl

theorem fieldLoad_fieldSave (f : TFld) (hf : f.Inv) (hu : f.unit ≠ some "None") (hv : f.vdims = none → f.nvdim = 1) :
    fieldLoad (fieldSave f) = .ok (loaded f) := by
  rw [fieldLoad_fieldSave_gen f hf, reread_eq_loaded f hu hv]

/-! ## a field that was read is a fixed point of the round trip -/

theorem joinAll_of_all_int (ks : List NK) (h : ∀ k ∈ ks, k = .int) : joinAll ks = .int := by
  unfold joinAll
  rw [if_pos]
  rw [List.all_eq_true]
  intro k hk
  simp [h k hk]

theorem joinAll_of_mem_float (ks : List NK) (h : NK.float ∈ ks) : joinAll ks = .float := by
  rcases joinAll_cases ks with h1 | h1
  · have := joinAll_int ks h1 _ h
    cases this
  · exact h1

theorem tableKind_loaded (m : TMesh) : tableKind m.loaded = tableKind m := by
  rcases joinAll_cases (m.region.pmin.kind :: (m.subs.map (fun p => p.2.pmin.kind) ++ m.subs.map (fun p => p.2.pmax.kind))) with h | h
  · have hk : tableKind m = .int := h
    rw [hk]
    apply joinAll_of_all_int
    intro k hkm
    simp only [TMesh.loaded, List.map_map, List.mem_cons, List.mem_append, List.mem_map, Function.comp] at hkm
    rcases hkm with rfl | ⟨p, _, rfl⟩ | ⟨p, _, rfl⟩
    · exact joinAll_int _ h _ (by simp)
    · simp [TReg.castCorners, NumArr.cast_kind, hk]
    · simp [TReg.castCorners, NumArr.cast_kind, hk]
  · have hk : tableKind m = .float := h
    rw [hk]
    apply joinAll_of_mem_float
    cases hs : m.subs with
    | nil =>
      have : tableKind m = joinAll [m.region.pmin.kind] := by simp [tableKind, hs]
      rw [hk] at this
      cases hr : m.region.pmin.kind with
      | int => rw [hr] at this; simp [joinAll] at this
      | float => simp [TMesh.loaded, hr]
    | cons p t =>
      simp only [TMesh.loaded, hs, List.map_cons, List.mem_cons, List.mem_append]
      right; left; left
      simp [TReg.castCorners, NumArr.cast_kind, hk]

theorem castCorners_idem (k : NK) (s : TReg) : (s.castCorners k).castCorners k = s.castCorners k := by
  simp only [TReg.castCorners]
  rw [NumArr.cast_cast_of_kind k _ (NumArr.cast_kind k _), NumArr.cast_cast_of_kind k _ (NumArr.cast_kind k _)]

theorem mesh_loaded_idem (m : TMesh) : m.loaded.loaded = m.loaded := by
  have hk := tableKind_loaded m
  unfold TMesh.loaded at hk ⊢
  simp only [hk, List.map_map]
  congr 1
  apply List.map_congr_left
  intro p _
  simp [Function.comp, castCorners_idem]

theorem loaded_idem (f : TFld) : loaded (loaded f) = loaded f := by
  unfold loaded
  simp only [mesh_loaded_idem, DBuf.upcast_idem]
  rfl

theorem mesh_loaded_inv (m : TMesh) (hm : m.Inv) : m.loaded.Inv := by
  obtain ⟨hr, hn, hpos, hbcl, hbc, hnd, hsub⟩ := (TMesh.inv_iff m).mp hm
  rw [TMesh.inv_iff]
  refine ⟨hr, hn, hpos, hbcl, hbc, ?_, ?_⟩
  · simpa [TMesh.loaded, List.map_map, Function.comp_def] using hnd
  · intro q hq
    simp only [TMesh.loaded, List.mem_map] at hq
    obtain ⟨p, hp, rfl⟩ := hq
    obtain ⟨hl1, hl2, hk, hd, hu, ht, hlt, hacc⟩ := (subInv_iff _ _ _).mp (hsub p hp)
    have hloss := tableKind_lossless m p hp
    have hv1 : (p.2.pmin.cast (tableKind m)).vals = p.2.pmin.vals := NumArr.cast_vals _ _ (by tauto)
    have hv2 : (p.2.pmax.cast (tableKind m)).vals = p.2.pmax.vals := NumArr.cast_vals _ _ (by tauto)
    rw [subInv_iff]
    have htr := castCorners_toRegion (tableKind m) p.2 hloss
    simp only [TMesh.loaded, TReg.castCorners, NumArr.cast_length, NumArr.cast_kind, hv1, hv2] at htr ⊢
    exact ⟨hl1, hl2, trivial, hd, hu, ht, hlt, by rw [htr]; exact hacc⟩

theorem loaded_inv (f : TFld) (hf : f.Inv) : (loaded f).Inv := by
  obtain ⟨hm, hnv, hds, hdl, hvs, hvl, hvd⟩ := (TFld.inv_iff f).mp hf
  rw [TFld.inv_iff]
  refine ⟨mesh_loaded_inv f.mesh hm, hnv, hds, ?_, hvs, hvl, hvd⟩
  simp only [loaded, DBuf.upcast_length]
  exact hdl

/-- when does a round trip change nothing at all -/
theorem loaded_eq_self (f : TFld)
    (hsub : ∀ p ∈ f.mesh.subs, p.2.pmin.kind = tableKind f.mesh ∧ p.2.pmax.kind = tableKind f.mesh)
    (hdata : f.data.buf.kind ≠ .int)
    (hmap : f.vmap = defaultVmap f.nvdim f.mesh.region.dims f.vdims) : loaded f = f := by
  have h1 : f.mesh.loaded = f.mesh := by
    unfold TMesh.loaded
    have : (f.mesh.subs.map fun p => (p.1, p.2.castCorners (tableKind f.mesh))) = f.mesh.subs := by
      conv_rhs => rw [← List.map_id f.mesh.subs]
      apply List.map_congr_left
      intro p hp
      obtain ⟨h1, h2⟩ := hsub p hp
      simp only [TReg.castCorners, id]
      rw [NumArr.cast_cast_of_kind _ _ h1, NumArr.cast_cast_of_kind _ _ h2]
    rw [this]
  unfold loaded
  rw [h1, DBuf.upcast_of_not_int _ hdata, ← hmap]

/-! ## the legacy reader -/

namespace NumArr

theorem minimum_length (a b : NumArr) (hl : b.length = a.length) : (minimum a b).length = a.length := by
  cases a <;> cases b <;> simp_all [minimum, length, vals]

theorem maximum_length (a b : NumArr) (hl : b.length = a.length) : (maximum a b).length = a.length := by
  cases a <;> cases b <;> simp_all [maximum, length, vals]

/-- `np.minimum` is the element-wise minimum of the numbers, whatever the dtypes -/
theorem minimum_vals (a b : NumArr) : (minimum a b).vals = List.zipWith min a.vals b.vals := by
  cases a <;> cases b <;> simp only [minimum, vals]
  rw [List.zipWith_map_left, List.zipWith_map_right, List.map_zipWith]
  congr 1
  funext x y
  exact Int.cast_min

theorem maximum_vals (a b : NumArr) : (maximum a b).vals = List.zipWith max a.vals b.vals := by
  cases a <;> cases b <;> simp only [maximum, vals]
  rw [List.zipWith_map_left, List.zipWith_map_right, List.map_zipWith]
  congr 1
  funext x y
  exact Int.cast_max

end NumArr

/-- the field the legacy reader returns for a file without side-car -/
def legacyField (l : Legacy) : TFld :=
  { mesh := { region := { pmin := NumArr.minimum l.p1 l.p2, pmax := NumArr.maximum l.p1 l.p2,
                          dims := Region.defaultDims l.p1.length, units := List.replicate l.p1.length "m",
                          tol := TReg.defaultTol },
              n := l.n.map Int.toNat, bc := "", subs := [] },
    nvdim := l.dim.toNat,
    data := { shape := l.n.map Int.toNat ++ [l.dim.toNat], buf := l.array.buf.upcast },
    valid := { shape := l.n.map Int.toNat, buf := List.replicate (natProd (l.n.map Int.toNat)) true },
    vdims := Fld.defaultVdims l.dim.toNat,
    vmap := defaultVmap l.dim.toNat (Region.defaultDims l.p1.length) (Fld.defaultVdims l.dim.toNat),
    unit := none }

/-- the side-car only sets the subregions -/
theorem sidecarLoad_keeps (m m' : TMesh) (sc : Option (List (String × H5Region)))
    (h : sidecarLoad m sc = .ok m') : m'.region = m.region ∧ m'.n = m.n ∧ m'.bc = m.bc := by
  cases sc with
  | none =>
    simp only [sidecarLoad] at h
    cases h
    exact ⟨rfl, rfl, rfl⟩
  | some l =>
    simp only [sidecarLoad] at h
    cases h1 : mapE (fun p => (regionLoad p.2).bind fun s => Except.ok (p.1, s)) l with
    | error e => rw [h1] at h; cases h
    | ok ss =>
      rw [h1] at h
      simp only [bind_ok] at h
      cases h2 : setSubs m.region m.n (dictOf ss) with
      | error e => rw [h2] at h; cases h
      | ok ss' =>
        rw [h2] at h
        simp only [bind_ok] at h
        cases h
        exact ⟨rfl, rfl, rfl⟩

/-- the legacy reader on a well-formed legacy file, whatever the side-car contributes -/
theorem legacyLoad_ok_gen (l : Legacy) (m' : TMesh) (h0 : 0 < l.p1.length) (hl : l.p2.length = l.p1.length)
    (hne : ∀ a, a < l.p1.length → l.p1.vals.getD a 0 ≠ l.p2.vals.getD a 0)
    (hn : l.n.length = l.p1.length) (hpos : ∀ k ∈ l.n, 0 < k) (hdim : 1 ≤ l.dim)
    (hs : l.array.shape = l.n.map Int.toNat ++ [l.dim.toNat])
    (hb : l.array.buf.length = natProd (l.n.map Int.toNat ++ [l.dim.toNat]))
    (hsc : sidecarLoad (legacyField l).mesh l.sidecar = .ok m') :
    legacyLoad l = .ok { legacyField l with mesh := m' } := by
  unfold legacyLoad
  have hinit : TReg.init l.p1 l.p2 none none TReg.defaultTol = .ok (legacyField l).mesh.region := by
    unfold TReg.init
    have h1 : ¬ l.p1.length ≠ l.p2.length := by omega
    have h2 : ¬ l.p1.length = 0 := by omega
    have h3 : allLt l.p1.length (fun a => decide (l.p1.vals.getD a 0 ≠ l.p2.vals.getD a 0)) = true := by
      rw [allLt_iff]
      intro a ha
      simpa using hne a ha
    simp only [h1, h2, if_false, Region.dimsOk, Region.unitsOk, h3, Bool.not_true, Bool.false_eq_true]
    rfl
  rw [hinit]
  simp only [bind_ok]
  have hmesh : TMesh.init (legacyField l).mesh.region l.n "" [] = .ok (legacyField l).mesh := by
    unfold TMesh.init
    have h1 : ¬ l.n.length ≠ (legacyField l).mesh.region.pmin.length := by
      show ¬ l.n.length ≠ (NumArr.minimum l.p1 l.p2).length
      rw [NumArr.minimum_length _ _ hl]; omega
    have h2 : l.n.any (fun k => decide (k ≤ 0)) = false := by
      rw [List.any_eq_false]
      intro k hk
      have := hpos k hk
      simp only [decide_eq_true_eq]
      omega
    have h3 : "".toLower = "" := by decide +kernel
    have h4 : ∀ d, Mesh.bcOk d "" = true := by intro d; simp [Mesh.bcOk]
    simp only [TReg.ndim, h1, h2, h3, h4, if_false, Bool.not_true, Bool.false_eq_true, setSubs, List.all_nil, mapE, bind_ok]
    rfl
  rw [hmesh]
  simp only [bind_ok, hsc]
  obtain ⟨hr', hn', _⟩ := sidecarLoad_keeps _ _ _ hsc
  unfold TFld.init
  have h1 : ¬ l.dim < 1 := by omega
  have hmn : m'.n = l.n.map Int.toNat := by rw [hn']; rfl
  simp only [h1, if_false, hmn]
  rw [asArray_shaped l.array _ _ hs hb]
  simp only [bind_ok]
  rw [asArray_shaped _ _ _ rfl (by rw [DBuf.upcast_length]; exact hb)]
  simp only [bind_ok, asValid, vdimsSet, DBuf.upcast_idem]
  rw [hr']
  rfl

theorem legacyLoad_ok (l : Legacy) (h0 : 0 < l.p1.length) (hl : l.p2.length = l.p1.length)
    (hne : ∀ a, a < l.p1.length → l.p1.vals.getD a 0 ≠ l.p2.vals.getD a 0)
    (hn : l.n.length = l.p1.length) (hpos : ∀ k ∈ l.n, 0 < k) (hdim : 1 ≤ l.dim)
    (hs : l.array.shape = l.n.map Int.toNat ++ [l.dim.toNat])
    (hb : l.array.buf.length = natProd (l.n.map Int.toNat ++ [l.dim.toNat]))
    (hsc : l.sidecar = none) :
    legacyLoad l = .ok (legacyField l) := by
  rw [legacyLoad_ok_gen l (legacyField l).mesh h0 hl hne hn hpos hdim hs hb (by rw [hsc]; rfl)]

/-! ## suffix dispatch -/

theorem readFmt_of_writeFmt (s : String) (fmt : Fmt) (h : writeFmt s = .ok fmt) : readFmt s = .ok fmt := by
  unfold writeFmt at h
  unfold readFmt
  split at h
  · rename_i h1
    cases h
    have : s = ".omf" ∨ s = ".ovf" ∨ s = ".ohf" ∨ s = ".oef" := by tauto
    simp [this]
  · rename_i h1
    split at h
    · rename_i h2
      cases h
      subst h2
      decide
    · split at h
      · rename_i h2 h3
        cases h
        rcases h3 with rfl | rfl <;> decide
      · cases h

end DFV.C10
