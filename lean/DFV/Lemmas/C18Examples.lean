import DFV.Lemmas.C18Values
import DFV.Lemmas.C18State
/-! Concrete instances used by the non-vacuity `example`s of `Props/C18.lean`. -/
namespace DFV.C18
open DFV

def exMesh : Mesh :=
  ⟨⟨[0, 0, 0], [4, 4, 3], ["x", "y", "z"], ["m", "m", "m"], 1/1000000000000⟩, [4, 4, 3], "", []⟩

/-- a 4×4×3 scalar field with affine data `1 + 2x − 3y + 5z` on the box [0,4]×[0,4]×[0,3] -/
def exF : Fld :=
  { mesh := exMesh, nvdim := 1,
    data := ⟨[4, 4, 3], fun idx => [1 + 2 * centreAbs exMesh 0 (idx.getD 0 0) + (-3) * centreAbs exMesh 1 (idx.getD 1 0)
                                      + 5 * centreAbs exMesh 2 (idx.getD 2 0)]⟩,
    valid := NDA.const [4, 4, 3] true, vdims := none, vmap := [], unit := none }

/-- a uniform 3-vector field `(7, −2, 3)` with labels `p, q, r` mapped to `y, x, z` -/
def exV : Fld :=
  { mesh := exMesh, nvdim := 3, data := ⟨[4, 4, 3], fun _ => [7, -2, 3]⟩,
    valid := NDA.const [4, 4, 3] true, vdims := some ["p", "q", "r"],
    vmap := [("p", "y"), ("q", "x"), ("r", "z")], unit := none }

/-- rotation about z with cos = 3/5, sin = 4/5 (quaternion 2 + k) -/
def exR : M3 := M3.ofQuat 2 0 0 1
/-- rotation about (1,1,1) by 120° composed … a generic rational rotation (quaternion 1 + 2i − 2j + 3k) -/
def exR2 : M3 := M3.ofQuat 1 2 (-2) 3

def exReg : Region := ⟨[-4/5, -4/5, 0], [24/5, 24/5, 3], ["x", "y", "z"], ["m", "m", "m"], 1/1000000000000⟩
def exNM : Mesh := ⟨exReg, [5, 5, 3], "", []⟩

def okIs {α} [DecidableEq α] (x : M α) (r : α) : Bool :=
  match x with
  | .ok v => decide (v = r)
  | .error _ => false

theorem okIs_sound {α} [DecidableEq α] (x : M α) (r : α) (h : okIs x r = true) : x = .ok r := by
  cases x with
  | error e => simp [okIs] at h
  | ok v => simp [okIs] at h; rw [h]

def isOk {α} : M α → Bool
  | .ok _ => true
  | .error _ => false

theorem isOk_sound {α} (x : M α) (h : isOk x = true) : ∃ v, x = .ok v := by
  cases x with
  | error e => simp [isOk] at h
  | ok v => exact ⟨v, rfl⟩

theorem exNewRegion : newRegion exF exR = .ok exReg := okIs_sound _ _ (by decide +kernel)
theorem exNewRegionV : newRegion exV exR = .ok exReg := okIs_sound _ _ (by decide +kernel)
theorem exMk : Mesh.mkN? exReg [5, 5, 3] "" = .ok exNM := okIs_sound _ _ (by decide +kernel)
theorem exOrdV : ordFor exV = .ok [1, 0, 2] := okIs_sound _ _ (by decide +kernel)

theorem exRot : rotateOnce exF exR (some [5, 5, 3]) = .ok (rotated exF exR [] exNM) := by
  unfold rotateOnce
  rw [exNewRegion]
  simp only [Option.getD_some]
  rw [exMk]
  rfl

theorem exRotV : rotateOnce exV exR (some [5, 5, 3]) = .ok (rotated exV exR [1, 0, 2] exNM) := by
  unfold rotateOnce
  rw [exNewRegionV]
  simp only [Option.getD_some]
  rw [exMk, exOrdV]

theorem exWF : WF exF := by unfold WF Mesh3 AxOk; decide +kernel
theorem exWFV : WF exV := by unfold WF Mesh3 AxOk; decide +kernel

end DFV.C18
