import DFV.Lemmas.RatFloor
import DFV.Lemmas.Index
import DFV.Lemmas.C14
/-! helper lemmas for C01 -/
namespace DFV.C01
open DFV DFV.Mesh


theorem containsAx_of_exact (r : Region) (a : Nat) (x : Rat) (h1 : r.lo a ≤ x) (h2 : x ≤ r.hi a) :
    r.containsAx a x = true := by
  unfold Region.containsAx
  simp [h1, h2]


theorem foldl_min_le (xs : List Rat) (x : Rat) : xs.foldl min x ≤ x := by
  induction xs generalizing x with
  | nil => simp
  | cons y ys ih => exact le_trans (ih (min x y)) (min_le_left _ _)

theorem foldl_min_pos (xs : List Rat) (x : Rat) (hx : 0 < x) (h : ∀ y ∈ xs, 0 < y) : 0 < xs.foldl min x := by
  induction xs generalizing x with
  | nil => simpa
  | cons y ys ih =>
    simp only [List.foldl_cons]
    exact ih (min x y) (lt_min hx (h y (by simp))) fun z hz => h z (by simp [hz])

theorem listMin_nonneg (xs : List Rat) (h : ∀ y ∈ xs, 0 < y) : 0 ≤ listMin xs := by
  cases xs with
  | nil => simp [listMin]
  | cons x xs => exact (foldl_min_pos xs x (h x (by simp)) fun y hy => h y (by simp [hy])).le

theorem roundHalfEven_int (k : Int) : roundHalfEven (k : Rat) = k := by
  unfold roundHalfEven
  have hf : ((k : Rat)).floor = k := rat_floor_eq _ k (le_refl _) (by linarith)
  rw [hf]
  simp


theorem inRange_of_getD (ns is : List Nat) (hl : is.length = ns.length)
    (h : ∀ a, a < ns.length → is.getD a 0 < ns.getD a 0) : inRange ns is = true := by
  induction ns generalizing is with
  | nil => cases is <;> simp_all [inRange]
  | cons n ns ih =>
    cases is with
    | nil => simp at hl
    | cons i is =>
      rw [inRange_cons]
      refine ⟨by simpa using h 0 (by simp), ih is (by simpa using hl) ?_⟩
      intro a ha
      simpa using h (a + 1) (by simpa using ha)

theorem list_eq_of_getD {α} (l1 l2 : List α) (d : α) (hl : l1.length = l2.length)
    (h : ∀ a, a < l1.length → l1.getD a d = l2.getD a d) : l1 = l2 := by
  rw [eq_tab_of_getD l1 l1.length (fun a => l2.getD a d) d rfl h]
  exact (eq_tab_of_getD l2 l1.length (fun a => l2.getD a d) d hl.symm (fun _ _ => rfl)).symm

theorem containsPt_of_exact (r : Region) (p : List Rat) (h : r.containsExact p) : r.containsPt p = true := by
  obtain ⟨hl, hb⟩ := h
  unfold Region.containsPt
  have : decide (p.length = r.ndim) = true := by simpa using hl
  rw [this, Bool.true_and, allLt_iff]
  intro a ha
  exact containsAx_of_exact r a _ (hb a ha).1 (hb a ha).2

theorem ratProd_map_mul {α} (l : List α) (f g : α → Rat) :
    ratProd (l.map f) * ratProd (l.map g) = ratProd (l.map fun x => f x * g x) := by
  induction l with
  | nil => simp [ratProd]
  | cons x xs ih => simp only [List.map_cons, ratProd]; rw [← ih]; ring

theorem natProd_cast (l : List Nat) : ((natProd l : Nat) : Rat) = ratProd (l.map (Nat.cast : Nat → Rat)) := by
  induction l with
  | nil => simp [natProd, ratProd]
  | cons x xs ih => simp only [natProd, List.map_cons, ratProd]; push_cast; rw [ih]

theorem foldl_min_le_mem (xs : List Rat) (x y : Rat) (h : y = x ∨ y ∈ xs) : xs.foldl min x ≤ y := by
  induction xs generalizing x with
  | nil => rcases h with h | h; · simp [h]
           · simp at h
  | cons z zs ih =>
    simp only [List.foldl_cons]
    rcases h with h | h
    · exact le_trans (foldl_min_le zs _) (by rw [h]; exact min_le_left _ _)
    · rcases List.mem_cons.mp h with h | h
      · exact le_trans (foldl_min_le zs _) (by rw [h]; exact min_le_right _ _)
      · exact ih _ (Or.inr h)

theorem listMin_le_mem (xs : List Rat) (y : Rat) (h : y ∈ xs) : listMin xs ≤ y := by
  cases xs with
  | nil => simp at h
  | cons x xs =>
    unfold listMin
    rcases List.mem_cons.mp h with h | h
    · exact foldl_min_le_mem xs x y (Or.inl h)
    · exact foldl_min_le_mem xs x y (Or.inr h)

theorem round_near (e c t : Rat) (hc : 0 < c) (_ht : 0 ≤ t) (htc : t < c / 2)
    (h : notDivisible e c t = false) :
    |e - (roundHalfEven (e / c) : Rat) * c| ≤ t := by
  unfold notDivisible at h
  have hfl := rat_floor_le (e / c)
  have hfu := rat_lt_floor_add_one (e / c)
  set f := (e / c).floor with hf
  have hrem : remainder e c = e - (f : Rat) * c := rfl
  have he : e = (e / c) * c := by field_simp
  have hr0 : 0 ≤ e - (f : Rat) * c := by nlinarith
  have hr1 : e - (f : Rat) * c < c := by nlinarith
  have hfrac : e / c - (f : Rat) = (e - (f : Rat) * c) / c := by field_simp
  rw [hrem] at h
  have hcases : e - (f : Rat) * c ≤ t ∨ c - t ≤ e - (f : Rat) * c := by
    by_contra hcon
    rw [not_or, not_le, not_le] at hcon
    simp [hcon.1, hcon.2] at h
  unfold roundHalfEven
  rw [← hf]
  rcases hcases with h1 | h1
  · have : e / c - (f : Rat) < 1 / 2 := by
      rw [hfrac, div_lt_iff₀ hc]; linarith
    rw [if_pos this, abs_of_nonneg hr0]; exact h1
  · have h2 : 1 / 2 < e / c - (f : Rat) := by
      rw [hfrac, lt_div_iff₀ hc]; linarith
    have h3 : ¬ (e / c - (f : Rat) < 1 / 2) := by linarith
    rw [if_neg h3, if_pos h2]
    push_cast
    rw [abs_of_nonpos (by linarith)]
    linarith

theorem roundHalfEven_nonneg (q : Rat) (hq : 0 ≤ q) : 0 ≤ roundHalfEven q := by
  have := rat_floor_nonneg q hq
  unfold roundHalfEven
  split
  · exact this
  · split
    · omega
    · split <;> omega

theorem region_inv_of_invB (r : Region) (h : r.invB = true) : r.Inv := by
  unfold Region.invB at h
  simp only [Bool.and_eq_true, decide_eq_true_eq, Bool.not_eq_true'] at h
  obtain ⟨⟨⟨⟨⟨h1, h2⟩, h3⟩, h4⟩, h5⟩, h6⟩ := h
  refine ⟨h1, h2, h3, h4, h5, ?_⟩
  intro a ha
  have := (allLt_iff _ _).mp h6 a ha
  simpa using this

theorem mesh_inv_of_invB (m : Mesh) (h : m.invB = true) : m.Inv := by
  unfold Mesh.invB at h
  simp only [Bool.and_eq_true, decide_eq_true_eq] at h
  obtain ⟨⟨h1, h2⟩, h3⟩ := h
  refine ⟨region_inv_of_invB _ h1, h2, ?_⟩
  intro a ha
  have := (allLt_iff _ _).mp h3 a ha
  simpa using this

end DFV.C01
