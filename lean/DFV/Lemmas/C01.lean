import DFV.Lemmas.RatFloor
import DFV.Lemmas.Index
import DFV.Lemmas.C14
/-! helper lemmas for C01 -/
namespace DFV.C01
open DFV DFV.Mesh


theorem containsAx_of_exact (r : Region) (a : Nat) (x : Rat) (h1 : r.lo a ≤ x) (h2 : x ≤ r.hi a) :
    r.containsAx a x = true := by
  unfold Region.containsAx
  simp [h1, h2]


theorem foldl_min_le (xs : List Rat) (x : Rat) : xs.foldl min x ≤ x := by
  induction xs generalizing x with
  | nil => simp
  | cons y ys ih => exact le_trans (ih (min x y)) (min_le_left _ _)

theorem foldl_min_pos (xs : List Rat) (x : Rat) (hx : 0 < x) (h : ∀ y ∈ xs, 0 < y) : 0 < xs.foldl min x := by
  induction xs generalizing x with
  | nil => simpa
  | cons y ys ih =>
    simp only [List.foldl_cons]
    exact ih (min x y) (lt_min hx (h y (by simp))) fun z hz => h z (by simp [hz])

theorem listMin_nonneg (xs : List Rat) (h : ∀ y ∈ xs, 0 < y) : 0 ≤ listMin xs := by
  cases xs with
  | nil => simp [listMin]
  | cons x xs => exact (foldl_min_pos xs x (h x (by simp)) fun y hy => h y (by simp [hy])).le

theorem roundHalfEven_int (k : Int) : roundHalfEven (k : Rat) = k := by
  unfold roundHalfEven
  have hf : ((k : Rat)).floor = k := rat_floor_eq _ k (le_refl _) (by linarith)
  rw [hf]
  simp


end DFV.C01
