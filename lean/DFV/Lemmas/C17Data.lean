import DFV.Lemmas.C17Ctor
/-! Data-path lemmas for C17: `_as_array` on an array that already has the field's shape
(broadcasting is the identity), `np.squeeze`/`np.expand_dims` on the component axis. -/
namespace DFV.C17
open DFV

/-- two arrays with the same shape and the same entry at every in-range index -/
def Agree {α} (a b : NDA α) : Prop :=
  a.shape = b.shape ∧ ∀ i, inRange a.shape i = true → a.get i = b.get i

theorem Agree.refl {α} (a : NDA α) : Agree a a := ⟨rfl, fun _ _ => rfl⟩

theorem Agree.trans {α} {a b c : NDA α} (h1 : Agree a b) (h2 : Agree b c) : Agree a c :=
  ⟨h1.1.trans h2.1, fun i hi => (h1.2 i hi).trans (h2.2 i (h1.1 ▸ hi))⟩

/-- agreeing arrays of positive shape have the same C-order content -/
theorem Agree.toList_eq {α} {a b : NDA α} (h : Agree a b) (hpos : ∀ n ∈ a.shape, 0 < n) :
    a.toList = b.toList := by
  unfold NDA.toList indicesC
  rw [← h.1, List.map_map, List.map_map]
  apply List.map_congr_left
  intro k hk
  exact h.2 _ (unflatC_inRange _ _ hpos (List.mem_range.mp hk))

theorem bcastOk_self (s : List Nat) : bcastOk s s = true := by
  unfold bcastOk
  simp only [Nat.le_refl, decide_true, Bool.true_and, Nat.sub_self, Nat.add_zero]
  rw [allLt_iff]
  intro a _
  simp

theorem bcastIx_self (s i : List Nat) (h : inRange s i = true) : bcastIx s s i = i := by
  unfold bcastIx
  symm
  apply eq_tab_of_getD _ _ _ 0 (inRange_length _ _ h)
  intro a ha
  simp only [Nat.sub_self, Nat.add_zero]
  split
  · next h1 =>
    have := inRange_getD _ _ h a ha
    omega
  · rfl

/-- `_as_array` on an array of shape `(*n, k)`: the same shape, the same entries -/
theorem asArray_same {α} (val : NDA α) (n : List Nat) (k : Nat) (hs : val.shape = n ++ [k]) :
    ∃ d, asArray val n k = .ok d ∧ Agree d val := by
  unfold asArray
  have h1 : ¬ (k = 1 ∧ val.shape = n) := by
    rintro ⟨_, h⟩
    have := congrArg List.length (hs.symm.trans h)
    simp at this
  have h2 : ¬ (val.shape.getLast? ≠ some k) := by simp [hs]
  rw [if_neg h1, if_neg h2, hs, bcastOk_self]
  refine ⟨_, rfl, ?_, ?_⟩
  · exact hs.symm
  · intro i hi
    show val.get (bcastIx (n ++ [k]) (n ++ [k]) i) = val.get i
    rw [bcastIx_self _ _ hi]

/-- an in-range index of a shape `(*n, 1)` ends in 0 -/
theorem dropLast_append_zero (n i : List Nat) (h : inRange (n ++ [1]) i = true) : i.dropLast ++ [0] = i := by
  have hl := inRange_length _ _ h
  have hne : i ≠ [] := by
    intro h0; subst h0; simp at hl
  have hlast := inRange_getD _ _ h n.length (by simp)
  have e1 : (n ++ [1]).getD n.length 0 = 1 := by simp [List.getD_eq_getElem?_getD]
  rw [e1] at hlast
  have e2 : i.getLast hne = i.getD n.length 0 := by
    rw [List.getLast_eq_getElem, List.getD_eq_getElem?_getD]
    have : i.length - 1 = n.length := by simp at hl; omega
    simp [this]
    have : n.length < i.length := by simp at hl; omega
    simp [this]
  conv => rhs; rw [← List.dropLast_append_getLast hne]
  rw [e2]
  have : i.getD n.length 0 = 0 := by omega
  rw [this]

end DFV.C17
