import DFV.Lemmas.C09LexWritten
/-! The binary reader never looks beyond check value + count values: cutting or replacing what
follows the payload (newline, footer) does not change what is read. -/
namespace DFV.C09
open DFV

theorem take_append_cases {α} (a b : List α) (t : Nat) :
    (t < a.length ∧ (a ++ b).take t = a.take t) ∨
    (a.length ≤ t ∧ (a ++ b).take t = a ++ b.take (t - a.length)) := by
  by_cases h : t < a.length
  · exact Or.inl ⟨h, by rw [List.take_append_of_le_length (by omega)]⟩
  · refine Or.inr ⟨by omega, ?_⟩
    rw [List.take_append]
    rw [List.take_of_length_le (by omega)]

theorem take_drop_take {α} (b : List α) (t k w : Nat) (h : k + w ≤ t) :
    ((b.take t).drop k).take w = (b.drop k).take w := by
  rw [List.drop_take, List.take_take]
  congr 1
  omega

theorem fromfile_take {α} (c : Codec α) (le : Bool) (w : Nat) (hw : 0 < w) (b : List Byte) (t count : Nat)
    (ht : w * (1 + count) ≤ t) (hl : t ≤ b.length) :
    fromfile c le w ((b.take t).drop w) count = fromfile c le w (b.drop w) count := by
  unfold fromfile
  have e1 : min count (((b.take t).drop w).length / w) = count := by
    rw [List.length_drop, List.length_take, Nat.min_eq_left hl]
    apply Nat.min_eq_left
    rw [Nat.le_div_iff_mul_le hw]
    have : w * (1 + count) = w + count * w := by ring
    omega
  have e2 : min count ((b.drop w).length / w) = count := by
    rw [List.length_drop]
    apply Nat.min_eq_left
    rw [Nat.le_div_iff_mul_le hw]
    have : w * (1 + count) = w + count * w := by ring
    omega
  rw [e1, e2]
  unfold tab
  apply List.map_congr_left
  intro i hi
  have hi' : i < count := by simpa using hi
  congr 1
  rw [List.drop_drop, List.drop_drop]
  apply take_drop_take
  have : w * (1 + count) = w + count * w := by ring
  have : i * w + w ≤ count * w := by
    have := Nat.mul_le_mul_right w (Nat.succ_le_of_lt hi')
    rw [Nat.succ_mul] at this; exact this
  omega

/-- `readBin` never looks beyond the check value and `count` values -/
theorem readBin_take {α} [DecidableEq α] (c : Codec α) (le : Bool) (w : Nat) (b : List Byte) (count vd t : Nat)
    (ht : w * (1 + count) ≤ t) :
    readBin c le w (b.take t) count vd = readBin c le w b count vd := by
  by_cases hl : b.length ≤ t
  · rw [List.take_of_length_le hl]
  · have hl' : t ≤ b.length := by omega
    by_cases hw : w = 4 ∨ w = 8
    · have hw0 : 0 < w := by rcases hw with rfl | rfl <;> omega
      have hwt : w ≤ t := by
        have : w * (1 + count) = w + w * count := by ring
        omega
      unfold readBin
      rw [List.length_take, Nat.min_eq_left hl', List.take_take, Nat.min_eq_left hwt,
        fromfile_take c le w hw0 b t count ht hl']
      have a1 : ¬ (t < w) := by omega
      have a2 : ¬ (b.length < w) := by omega
      rw [if_neg a1, if_neg a2]
    · unfold readBin
      have a : w ≠ 4 ∧ w ≠ 8 := by omega
      by_cases h1 : (b.take t).length < w <;> by_cases h2 : b.length < w <;> simp [h2, a]

/-- a binary file reads the same when everything after check value + `prod(nodes)·valuedim`
values is cut away (or replaced): the footer is never looked at -/
theorem fromOvf_cut {α} [DecidableEq α] (c : Codec α) (isWord : Char → Bool) (reserved : String → Bool)
    (F : OvfFile α) (b : List Byte) (hb : F.body = .bin b) (t : Nat)
    (hcut : ∀ h ws vd nodes, scan F.lines [] = some (h, ws) → valueDim F.first h = .ok vd →
      hnats h "xnodes" "ynodes" "znodes" = .ok nodes → (dataWidth ws).getD 0 * (1 + natProd nodes * vd) ≤ t)
    (side : Option (List (String × Region))) :
    fromOvf c isWord reserved ({ F with body := .bin (b.take t) } : OvfFile α) side
      = fromOvf c isWord reserved F side := by
  have hp : parse c ({ F with body := .bin (b.take t) } : OvfFile α) = parse c F := by
    unfold parse
    simp only
    cases hs : scan F.lines [] with
    | none => rfl
    | some p =>
      obtain ⟨h, ws⟩ := p
      simp only
      by_cases h0 : ws.isEmpty = true
      · simp only [h0, if_true]
      · by_cases h1 : (isBinary ws && (dataWidth ws).isNone) = true
        · simp only [h0, h1, if_true, Bool.false_eq_true, if_false]
        · simp only [h0, h1, Bool.false_eq_true, if_false]
          cases hv : valueDim F.first h with
          | error e => rfl
          | ok vd =>
            simp only
            cases hm : readMesh h with
            | error e => rfl
            | ok mesh =>
              simp only
              cases hn : hnats h "xnodes" "ynodes" "znodes" with
              | error e => rfl
              | ok nodes =>
                simp only
                have : readBody c (isV2 F.first) ws (Body.bin (b.take t)) (natProd nodes) vd
                    = readBody c (isV2 F.first) ws F.body (natProd nodes) vd := by
                  rw [hb]
                  unfold readBody
                  simp only
                  by_cases hbin : isBinary ws = true
                  · simp only [hbin, if_true]
                    exact readBin_take c _ _ b _ vd t (hcut h ws vd nodes hs hv hn)
                  · simp only [hbin, Bool.false_eq_true, if_false]
                rw [this]
  unfold fromOvf
  rw [hp]
end DFV.C09
