import DFV.Lemmas.C09Ref
/-! `extend_scalar` lemmas (C09). -/
namespace DFV.C09
open DFV

theorem triple_getD {α} (l : List α) (z d : α) (p cc : Nat) (hp : p < l.length) (hcc : cc < 3) :
    (l.flatMap fun x => [x, z, z]).getD (p * 3 + cc) d = if cc = 0 then l.getD p d else z := by
  induction l generalizing p with
  | nil => simp at hp
  | cons x xs ih =>
    cases p with
    | zero =>
      simp only [List.flatMap_cons, Nat.zero_mul, Nat.zero_add]
      match cc, hcc with
      | 0, _ => simp
      | 1, _ => simp
      | 2, _ => simp
    | succ p =>
      have : (p + 1) * 3 + cc = (p * 3 + cc) + 3 := by ring
      rw [this]
      simp only [List.flatMap_cons, List.cons_append, List.nil_append, List.getD_cons_succ]
      exact ih p (by simpa using hp)

theorem triple_length {α} (l : List α) (z : α) : (l.flatMap fun x => [x, z, z]).length = l.length * 3 := by
  induction l with
  | nil => rfl
  | cons x xs ih => simp [ih]; ring

theorem recoverLabels_dup (isWord : Char → Bool) (W : WordClass isWord) :
    recoverLabels isWord (String.ofList (joinSp (List.replicate 3 "field_x".toList))) = none := by
  have h := tokens_joinSp isWord W.space (List.replicate 3 "field_x".toList) (by
    intro w hw
    rw [(List.mem_replicate.mp hw).2]
    have : "field_x".toList = "field_".toList ++ "x".toList := by decide
    rw [this]
    exact field_label isWord W _ ⟨by decide, by
      intro c hc
      have : c = 'x' := by simpa using hc
      subst this; exact W.xword⟩)
  unfold recoverLabels
  rw [String.toList_ofList, h]
  have hc : convert "field_x".toList = "x".toList := by
    have : "field_x".toList = "field_".toList ++ "x".toList := by decide
    rw [this]
    exact convert_field isWord W _ ⟨by decide, by
      intro c hc
      have : c = 'x' := by simpa using hc
      subst this; exact W.xword⟩
  simp [List.replicate, hc, hasDup]

theorem toOvf_bin_extend {α} (c : Codec α) (f : OField α) (V : Valid f) (h1 : f.nvdim = 1) (rep : String) (w : Nat)
    (hrep : (rep = "bin4" ∧ w = 4) ∨ (rep = "bin8" ∧ w = 8)) :
    toOvfE c f rep true = .ok
      { first := "# OOMMF OVF 2.0",
        lines := headerLines f true (String.ofList (joinSp (List.replicate 3 "field_x".toList))) ["Binary", toString w],
        body := .bin (c.enc true w (c.magic w) ++ (((flatPayload f).flatMap fun x => [x, c.zero, c.zero]).flatMap (c.enc true w)
                  ++ 10 :: footerBytes ["Binary", toString w])) } := by
  unfold toOvfE
  have h3 : ¬ (f.mesh.region.ndim ≠ 3) := by simp [Region.ndim, V.pmin3]
  have hu : allSame f.mesh.region.units = true := by
    rw [V.units]; simp [allSame]
  have hwd : writeDim f true = 3 := by simp [writeDim, h1]
  have hlab : valueLabels f true = .ok (String.ofList (joinSp (List.replicate 3 "field_x".toList))) := by
    simp [valueLabels, hwd]
  have hsz : natProd f.arr.shape = natProd f.mesh.n := by
    rw [V.shape, natProd_append1, h1]; simp
  rw [if_neg h3, hlab]
  simp only
  rcases hrep with ⟨rfl, rfl⟩ | ⟨rfl, rfl⟩
  all_goals
    simp only [repWords, repWidth, hu, binValues, hsz, Bool.not_true, Bool.false_eq_true, if_false, if_true,
      ne_eq, not_true_eq_false]
    rw [flatMap_flatten', chunked_flatten chunkSize (by decide)]
    simp [List.append_assoc]
    exact ⟨rfl, rfl⟩




theorem parseNat_width (w : Nat) (hw : w = 4 ∨ w = 8) : parseNat (toString w) = some w := by
  rcases hw with rfl | rfl <;> decide +kernel


end DFV.C09
