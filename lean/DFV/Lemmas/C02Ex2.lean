import DFV.Lemmas.C02Ex
import DFV.Lemmas.C02DictIff
import DFV.Lemmas.C02Store
/-! C02: concrete instances for the non-vacuity examples of the second round. -/
namespace DFV.C02.Ex
open DFV DFV.Mesh DFV.C02

/-- a finer mesh over the region of `m0`: 8 × 4 cells of size 1/2 (every centre of `m0` lies on a
face of it: the tie case) -/
def mFine : Mesh := ⟨reg [0, 0] [4, 2], [8, 4], "", []⟩

theorem mFine_inv : mFine.Inv := by
  refine ⟨⟨by decide, rfl, rfl, rfl, by decide, fun a ha => ?_⟩, rfl, fun a ha => ?_⟩
  · rcases lt_two a ha with rfl | rfl <;> decide
  · rcases lt_two a ha with rfl | rfl <;> decide

/-- `asArray_dict_ok_iff`, `asArray_dict_total`: `{"r2": 2, "r1": 1, "default": lambda p: p[0]}` on the
mesh with the overlapping subregions `r1`, `r2` is well formed (`dictWF`) -/
theorem ex_dictWF : dictWF (fun v : Rat => v == 0) [("r2", .scalar 2), ("r1", .scalar 1)]
    (some (.func fun p => [p.getD 0 0])) m0 1 k1 k2 := by
  refine ⟨trivial, fun p _ lf hl => ?_, fun i _ _ => rfl⟩
  have : ∃ v, lf = .scalar v := by
    simp only [lookupLeaf, List.find?_cons, List.find?_nil] at hl
    split at hl
    · exact ⟨2, by simpa using hl.symm⟩
    · split at hl
      · exact ⟨1, by simpa using hl.symm⟩
      · cases hl
  obtain ⟨v, rfl⟩ := this
  exact Or.inl (Nat.le_refl 1)

/-- `no_aliasing_ever`, `field_value_is_copied`: two scalar fields on `m0`, each with its own array, and a
third array owned by the caller: separated; and `objs[0].array = objs[1]` is accepted -/
def st0 (a b c : NDA Rat) : Sess Rat := ⟨[a, b, c], [⟨m0, 1, none, 0⟩, ⟨m0, 1, none, 1⟩]⟩

theorem st0_sep (a b c : NDA Rat) : (st0 a b c).Sep := by
  constructor
  · intro i hi
    have : i = 0 ∨ i = 1 := by simp [st0] at hi; omega
    rcases this with rfl | rfl <;> simp [st0, Sess.obj]
  · intro i k hi hk hne
    have h1 : i = 0 ∨ i = 1 := by simp [st0] at hi; omega
    have h2 : k = 0 ∨ k = 1 := by simp [st0] at hk; omega
    rcases h1 with rfl | rfl <;> rcases h2 with rfl | rfl <;> first | exact absurd rfl hne | simp [st0, Sess.obj]

end DFV.C02.Ex
