import DFV.Lemmas.C02Shape
/-! C02 helper lemmas, part 19: ownership — every assignment stores a NEW array, so no two field
objects ever share their array and an in-place change of one array is seen by its holder only. -/
namespace DFV.C02
open DFV

variable {V : Type} [Inhabited V]

/-- SEPARATION: every field object points into the store, and different objects point to different
buffers -/
def Sess.Sep (st : Sess V) : Prop :=
  (∀ i, i < st.objs.length → (st.obj i).addr < st.store.length) ∧
  ∀ i k, i < st.objs.length → k < st.objs.length → i ≠ k → (st.obj i).addr ≠ (st.obj k).addr

omit [Inhabited V] in
theorem obj_set (st : Sess V) (i : Nat) (o : Obj) (k : Nat) (hi : i < st.objs.length) :
    (st.objs.set i o).getD k ⟨default, 0, none, 0⟩ = if k = i then o else st.obj k := by
  unfold Sess.obj
  simp only [List.getD_eq_getElem?_getD, List.getElem?_set]
  by_cases h : i = k
  · subst h; simp [hi]
  · have : ¬ k = i := fun e => h e.symm
    simp [h, this]

theorem buf_append_old (st : Sess V) (a : NDA V) (b : Nat) (hb : b < st.store.length) :
    (st.store ++ [a]).getD b (NDA.const [] default) = st.buf b := by
  unfold Sess.buf
  simp [List.getD_eq_getElem?_getD, List.getElem?_append_left hb]

theorem buf_append_new (st : Sess V) (a : NDA V) :
    (st.store ++ [a]).getD st.store.length (NDA.const [] default) = a := by
  simp [List.getD_eq_getElem?_getD]

theorem buf_set (st : Sess V) (b : Nat) (a : NDA V) (k : Nat) (hb : b < st.store.length) :
    (st.store.set b a).getD k (NDA.const [] default) = if k = b then a else st.buf k := by
  unfold Sess.buf
  simp only [List.getD_eq_getElem?_getD, List.getElem?_set]
  by_cases h : b = k
  · subst h; simp [hb]
  · have : ¬ k = b := fun e => h e.symm
    simp [h, this]

/-- what an accepted assignment to object `i` does to the session: the converted array `a` is
appended to the store and object `i` points to it -/
def assigned (st : Sess V) (i : Nat) (a : NDA V) : Sess V :=
  { store := st.store ++ [a], objs := st.objs.set i { st.obj i with addr := st.store.length } }

omit [Inhabited V] in
theorem assigned_sep (st : Sess V) (i : Nat) (a : NDA V) (hi : i < st.objs.length) (h : st.Sep) :
    (assigned st i a).Sep := by
  obtain ⟨h1, h2⟩ := h
  have hobj : ∀ k, (assigned st i a).obj k = if k = i then { st.obj i with addr := st.store.length } else st.obj k :=
    fun k => obj_set st i _ k hi
  have hlen : (assigned st i a).objs.length = st.objs.length := by simp [assigned]
  have hsl : (assigned st i a).store.length = st.store.length + 1 := by simp [assigned]
  constructor
  · intro k hk
    rw [hobj, hsl]
    rw [hlen] at hk
    by_cases e : k = i
    · simp [e]
    · simp only [e, if_false]; have := h1 k hk; omega
  · intro k l hk hl hne
    rw [hlen] at hk hl
    rw [hobj, hobj]
    by_cases e1 : k = i
    · have e2 : ¬ l = i := fun e => hne (e1.trans e.symm)
      simp only [e1, e2, if_true, if_false]
      have := h1 l hl
      show st.store.length ≠ _
      omega
    · by_cases e2 : l = i
      · simp only [e1, e2, if_true, if_false]
        have := h1 k hk
        show _ ≠ st.store.length
        omega
      · simp only [e1, e2, if_false]
        exact h2 k l hk hl hne

/-- after an accepted assignment object `i` holds the converted array, every other object holds
what it held, and every array that existed before is unchanged -/
theorem assigned_fields (st : Sess V) (i : Nat) (a : NDA V) (hi : i < st.objs.length) (h : st.Sep) :
    (assigned st i a).field i = { st.field i with data := a } ∧
    (∀ k, k < st.objs.length → k ≠ i → (assigned st i a).field k = st.field k) ∧
    (∀ b, b < st.store.length → (assigned st i a).buf b = st.buf b) ∧
    ((assigned st i a).obj i).addr = st.store.length := by
  have hobj : ∀ k, (assigned st i a).obj k = if k = i then { st.obj i with addr := st.store.length } else st.obj k :=
    fun k => obj_set st i _ k hi
  refine ⟨?_, fun k hk hne => ?_, fun b hb => buf_append_old st a b hb, by rw [hobj]; simp⟩
  · unfold Sess.field
    rw [hobj]
    simp only [if_true]
    congr 1
    exact buf_append_new st a
  · unfold Sess.field
    rw [hobj]
    simp only [hne, if_false]
    congr 1
    exact buf_append_old st a _ (h.1 k hk)

/-- a new object built from object `i` and the converted array `a` -/
def created (st : Sess V) (i : Nat) (a : NDA V) : Sess V :=
  { store := st.store ++ [a], objs := st.objs ++ [{ st.obj i with addr := st.store.length }] }

omit [Inhabited V] in
theorem obj_created (st : Sess V) (i : Nat) (a : NDA V) (k : Nat) :
    (created st i a).obj k = if k < st.objs.length then st.obj k
      else if k = st.objs.length then { st.obj i with addr := st.store.length } else ⟨default, 0, none, 0⟩ := by
  show (st.objs ++ [({ st.obj i with addr := st.store.length } : Obj)]).getD k ⟨default, 0, none, 0⟩ = _
  simp only [List.getD_eq_getElem?_getD]
  by_cases h : k < st.objs.length
  · rw [List.getElem?_append_left h]
    simp only [h, if_true]
    simp [Sess.obj, List.getD_eq_getElem?_getD]
  · by_cases e : k = st.objs.length
    · rw [e]; simp
    · have : st.objs.length < k := by omega
      simp only [h, e, if_false]
      rw [List.getElem?_eq_none (by simp; omega)]
      rfl

omit [Inhabited V] in
theorem created_sep (st : Sess V) (i : Nat) (a : NDA V) (h : st.Sep) : (created st i a).Sep := by
  obtain ⟨h1, h2⟩ := h
  have hlen : (created st i a).objs.length = st.objs.length + 1 := by simp [created]
  have hsl : (created st i a).store.length = st.store.length + 1 := by simp [created]
  constructor
  · intro k hk
    rw [obj_created, hsl]
    rw [hlen] at hk
    by_cases e : k < st.objs.length
    · simp only [e, if_true]; have := h1 k e; omega
    · have : k = st.objs.length := by omega
      simp [this]
  · intro k l hk hl hne
    rw [hlen] at hk hl
    rw [obj_created, obj_created]
    by_cases e1 : k < st.objs.length
    · by_cases e2 : l < st.objs.length
      · simp only [e1, e2, if_true]; exact h2 k l e1 e2 hne
      · have : l = st.objs.length := by omega
        simp only [e1, this, Nat.lt_irrefl, if_true, if_false]
        have := h1 k e1
        show _ ≠ st.store.length
        omega
    · have ek : k = st.objs.length := by omega
      have e2 : l < st.objs.length := by omega
      simp only [ek, e2, Nat.lt_irrefl, if_true, if_false]
      have := h1 l e2
      show st.store.length ≠ _
      omega

theorem created_fields (st : Sess V) (i : Nat) (a : NDA V) (h : st.Sep) :
    (created st i a).field st.objs.length = { st.field i with data := a } ∧
    (∀ k, k < st.objs.length → (created st i a).field k = st.field k) ∧
    (∀ b, b < st.store.length → (created st i a).buf b = st.buf b) := by
  refine ⟨?_, fun k hk => ?_, fun b hb => buf_append_old st a b hb⟩
  · unfold Sess.field
    rw [obj_created]
    simp only [Nat.lt_irrefl, if_false, if_true]
    congr 1
    exact buf_append_new st a
  · unfold Sess.field
    rw [obj_created]
    simp only [hk, if_true]
    congr 1
    exact buf_append_old st a _ (h.1 k hk)

/-- an in-place change of buffer `b` -/
def written (st : Sess V) (b : Nat) (a : NDA V) : Sess V := { st with store := st.store.set b a }

omit [Inhabited V] in
theorem written_sep (st : Sess V) (b : Nat) (a : NDA V) (h : st.Sep) : (written st b a).Sep := by
  obtain ⟨h1, h2⟩ := h
  constructor
  · intro k hk
    have := h1 k hk
    show (st.obj k).addr < (st.store.set b a).length
    simpa using this
  · exact h2

/-- FRAME: an in-place write to buffer `b` changes the array of the object that holds `b` and of
no other object -/
theorem written_fields (st : Sess V) (b : Nat) (a : NDA V) (hb : b < st.store.length) :
    (∀ k, (st.obj k).addr ≠ b → (written st b a).field k = st.field k) ∧
    (∀ k, (st.obj k).addr = b → (written st b a).field k = { st.field k with data := a }) ∧
    (∀ c, c ≠ b → (written st b a).buf c = st.buf c) := by
  have hbuf : ∀ c, (written st b a).buf c = if c = b then a else st.buf c := fun c => buf_set st b a c hb
  refine ⟨fun k hk => ?_, fun k hk => ?_, fun c hc => by rw [hbuf]; simp [hc]⟩
  · show (⟨_, _, (written st b a).buf (st.obj k).addr, _⟩ : VF V) = _
    rw [hbuf]; simp only [hk, if_false]; rfl
  · show (⟨_, _, (written st b a).buf (st.obj k).addr, _⟩ : VF V) = _
    rw [hbuf]; simp only [hk, if_true]; rfl

/-- every statement is one of: nothing, an assignment, a creation, an in-place write -/
theorem step_cases (isZero : V → Bool) (st : Sess V) (c : Stmt V) :
    (st.step isZero c).1 = st ∨
    (∃ i a, i < st.objs.length ∧ (st.step isZero c).1 = assigned st i a) ∨
    (∃ i a, (st.step isZero c).1 = created st i a) ∨
    (∃ b a, b < st.store.length ∧ (st.step isZero c).1 = written st b a) := by
  cases c with
  | set i src =>
    simp only [Sess.step]
    split
    · rename_i hi
      split
      · exact Or.inl rfl
      · rename_i a _; exact Or.inr (Or.inl ⟨i, a, hi, rfl⟩)
    · exact Or.inl rfl
  | upd i src =>
    simp only [Sess.step]
    split
    · rename_i hi
      split
      · exact Or.inl rfl
      · rename_i a _; exact Or.inr (Or.inl ⟨i, a, hi, rfl⟩)
    · exact Or.inl rfl
  | new i src =>
    simp only [Sess.step]
    split
    · split
      · exact Or.inl rfl
      · rename_i a _; exact Or.inr (Or.inr (Or.inl ⟨i, a, rfl⟩))
    · exact Or.inl rfl
  | poke b j v =>
    simp only [Sess.step]
    split
    · rename_i hb; exact Or.inr (Or.inr (Or.inr ⟨b, _, hb, rfl⟩))
    · exact Or.inl rfl
  | fill b v =>
    simp only [Sess.step]
    split
    · rename_i hb; exact Or.inr (Or.inr (Or.inr ⟨b, _, hb, rfl⟩))
    · exact Or.inl rfl

theorem step_sep (isZero : V → Bool) (st : Sess V) (c : Stmt V) (h : st.Sep) : (st.step isZero c).1.Sep := by
  rcases step_cases isZero st c with e | ⟨i, a, hi, e⟩ | ⟨i, a, e⟩ | ⟨b, a, _, e⟩
  · rw [e]; exact h
  · rw [e]; exact assigned_sep st i a hi h
  · rw [e]; exact created_sep st i a h
  · rw [e]; exact written_sep st b a h

theorem run_sep (isZero : V → Bool) (st : Sess V) (prog : List (Stmt V)) (h : st.Sep) : (st.run isZero prog).Sep := by
  induction prog generalizing st with
  | nil => exact h
  | cons c rest ih =>
    simp only [Sess.run, List.foldl_cons]
    exact ih _ (step_sep isZero st c h)

/-- objects are never removed and never move to another mesh -/
theorem step_objs_len (isZero : V → Bool) (st : Sess V) (c : Stmt V) :
    st.objs.length ≤ (st.step isZero c).1.objs.length ∧ st.store.length ≤ (st.step isZero c).1.store.length := by
  rcases step_cases isZero st c with e | ⟨i, a, hi, e⟩ | ⟨i, a, e⟩ | ⟨b, a, _, e⟩ <;> rw [e]
  · exact ⟨Nat.le_refl _, Nat.le_refl _⟩
  · simp [assigned]
  · simp [created]
  · simp [written]

/-- does the statement write into buffer `b` in place? -/
def Stmt.writes (b : Nat) : Stmt V → Bool
  | .poke b' _ _ => b' == b
  | .fill b' _ => b' == b
  | _ => false

/-- does the statement assign to object `i`? -/
def Stmt.assigns (i : Nat) : Stmt V → Bool
  | .set i' _ => i' == i
  | .upd i' _ => i' == i
  | _ => false

/-- one statement that neither assigns to object `k` nor writes into its buffer leaves its array
(and its address) as they were -/
theorem step_keeps (isZero : V → Bool) (st : Sess V) (c : Stmt V) (h : st.Sep) (k : Nat) (hk : k < st.objs.length)
    (h1 : c.assigns k = false) (h2 : c.writes (st.obj k).addr = false) :
    (st.step isZero c).1.field k = st.field k ∧ ((st.step isZero c).1.obj k).addr = (st.obj k).addr := by
  have haddr : ∀ s' : Sess V, s'.field k = st.field k → s'.obj k = st.obj k →
      s'.field k = st.field k ∧ (s'.obj k).addr = (st.obj k).addr := fun s' e1 e2 => ⟨e1, by rw [e2]⟩
  cases c with
  | set i src =>
    have hne : k ≠ i := by intro e; simp [Stmt.assigns, e] at h1
    simp only [Sess.step]
    split
    · rename_i hi
      split
      · exact ⟨rfl, rfl⟩
      · rename_i a _
        exact haddr _ ((assigned_fields st i a hi h).2.1 k hk hne) (by
          show (assigned st i a).obj k = _
          rw [show (assigned st i a).obj k = _ from obj_set st i _ k hi]; simp [hne])
    · exact ⟨rfl, rfl⟩
  | upd i src =>
    have hne : k ≠ i := by intro e; simp [Stmt.assigns, e] at h1
    simp only [Sess.step]
    split
    · rename_i hi
      split
      · exact ⟨rfl, rfl⟩
      · rename_i a _
        exact haddr _ ((assigned_fields st i a hi h).2.1 k hk hne) (by
          show (assigned st i a).obj k = _
          rw [show (assigned st i a).obj k = _ from obj_set st i _ k hi]; simp [hne])
    · exact ⟨rfl, rfl⟩
  | new i src =>
    simp only [Sess.step]
    split
    · split
      · exact ⟨rfl, rfl⟩
      · rename_i a _
        exact haddr _ ((created_fields st i a h).2.1 k hk) (by
          show (created st i a).obj k = _
          rw [obj_created]; simp [hk])
    · exact ⟨rfl, rfl⟩
  | poke b j v =>
    have hne : (st.obj k).addr ≠ b := by intro e; simp [Stmt.writes, e] at h2
    simp only [Sess.step]
    split
    · rename_i hb
      exact haddr _ ((written_fields st b _ hb).1 k hne) rfl
    · exact ⟨rfl, rfl⟩
  | fill b v =>
    have hne : (st.obj k).addr ≠ b := by intro e; simp [Stmt.writes, e] at h2
    simp only [Sess.step]
    split
    · rename_i hb
      exact haddr _ ((written_fields st b _ hb).1 k hne) rfl
    · exact ⟨rfl, rfl⟩

/-- a whole history in which nobody assigns to object `k` or writes into ITS buffer — whatever is
done to all other objects and arrays, the source of `k`'s value included — leaves `k`'s array as it was -/
theorem run_keeps (isZero : V → Bool) (st : Sess V) (prog : List (Stmt V)) (h : st.Sep) (k : Nat) (hk : k < st.objs.length)
    (hprog : ∀ c ∈ prog, c.assigns k = false ∧ c.writes (st.obj k).addr = false) :
    (st.run isZero prog).field k = st.field k := by
  induction prog generalizing st with
  | nil => rfl
  | cons c rest ih =>
    simp only [Sess.run, List.foldl_cons]
    obtain ⟨e1, e2⟩ := step_keeps isZero st c h k hk (hprog c (by simp)).1 (hprog c (by simp)).2
    have := ih (st.step isZero c).1 (step_sep isZero st c h)
      (Nat.lt_of_lt_of_le hk (step_objs_len isZero st c).1)
      (fun c' hc' => by rw [e2]; exact hprog c' (by simp [hc']))
    simp only [Sess.run] at this
    rw [this, e1]

end DFV.C02
