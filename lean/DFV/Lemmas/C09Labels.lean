import DFV.Lemmas.C09D25
/-! Label recovery for the `valuelabels` styles of foreign writers (OOMMF, mumax): `stem_x`
words, braced phrases `{Total field_x}`, braced multi-word names `{Total energy density}`. -/
namespace DFV.C09
open DFV

theorem tokens_cons_eq (isWord : Char → Bool) (c : Char) (cs : List Char) :
    tokens isWord (c :: cs) = tokensF isWord (cs.length + 1) (c :: cs) := rfl

/-- a character that is neither a word character nor `{` is skipped -/
theorem tokens_skip (isWord : Char → Bool) (c : Char) (hc : isWord c = false) (hb : c ≠ '{') (rest : List Char) :
    tokens isWord (c :: rest) = tokens isWord rest := by
  rw [tokens_cons_eq]
  simp only [tokensF, hc, Bool.false_eq_true, if_false, hb]
  rfl

theorem takeWhile_body (p : Char → Bool) (body rest : List Char) (hb : ∀ c ∈ body, p c = true)
    (hr : ∀ c r, rest = c :: r → p c = false) :
    (body ++ rest).takeWhile p = body ∧ (body ++ rest).dropWhile p = rest := by
  induction body with
  | nil =>
    cases rest with
    | nil => simp
    | cons c r => simp [hr c r rfl]
  | cons c cs ih =>
    have := ih (fun d hd => hb d (by simp [hd]))
    simp [hb c (by simp), this]

/-- `{[\w ]+}`: a braced run of word characters and blanks is one token, braces included -/
theorem tokens_brace_cons (isWord : Char → Bool) (W : WordClass isWord) (body : List Char) (hne : body ≠ [])
    (hb : ∀ c ∈ body, (isWord c || c == ' ') = true) (rest : List Char) :
    tokens isWord ('{' :: (body ++ '}' :: rest)) = ('{' :: (body ++ ['}'])) :: tokens isWord rest := by
  rw [tokens_cons_eq]
  have hp : (isWord '}' || '}' == ' ') = false := by rw [W.rbrace]; decide
  have := takeWhile_body (fun d => isWord d || d == ' ') body ('}' :: rest) hb
    (fun d r h => by injection h with h1 _; subst h1; exact hp)
  simp only [tokensF, W.lbrace, Bool.false_eq_true, if_false, if_true, this.1, this.2]
  have he : body.isEmpty = false := by cases body with
    | nil => exact absurd rfl hne
    | cons _ _ => rfl
  simp only [he, Bool.false_eq_true, if_false]
  congr 1
  exact tokensF_mono isWord _ rest (by simp; omega)


/-- the label styles of foreign writers -/
inductive Item where
  | stem (s l : List Char)          -- `s_l`       (OOMMF `Magnetization_x`, mumax `m_x`)
  | plain (w : List Char)           -- a word without underscore
  | phrase (p l : List Char)        -- `{p_l}`     (OOMMF `{Total field_x}`)
  | words (ws : List (List Char))   -- `{w1 w2 w3}` (OOMMF `{Total energy density}`)

def Item.text : Item → List Char
  | .stem s l => s ++ '_' :: l
  | .plain w => w
  | .phrase p l => '{' :: ((p ++ '_' :: l) ++ '}' :: [])
  | .words ws => '{' :: (joinSp ws ++ '}' :: [])

/-- what the reader is meant to make of it -/
def Item.label : Item → List Char
  | .stem _ l => l
  | .plain w => w
  | .phrase _ l => l
  | .words ws => joinUs ws

def Item.Ok (isWord : Char → Bool) : Item → Prop
  | .stem s l => (∀ c ∈ s, isWord c = true ∧ c ≠ '_') ∧ IsLabel isWord l
  | .plain w => IsLabel isWord w ∧ '_' ∉ w
  | .phrase p l => (∀ c ∈ p, (isWord c || c == ' ') = true ∧ c ≠ '_') ∧ IsLabel isWord l
  | .words ws => ws ≠ [] ∧ ∀ w ∈ ws, IsLabel isWord w ∧ '_' ∉ w

theorem isWord_us (isWord : Char → Bool) (W : WordClass isWord) : isWord '_' = true := W.field '_' (by decide)

theorem no_brace (isWord : Char → Bool) (W : WordClass isWord) (l : List Char) (h : ∀ c ∈ l, (isWord c || c == ' ') = true) :
    l.filter (fun c => c != '{' && c != '}') = l := by
  apply List.filter_eq_self.mpr
  intro c hc
  have := h c hc
  have a : c ≠ '{' := by rintro rfl; rw [W.lbrace] at this; revert this; decide
  have b : c ≠ '}' := by rintro rfl; rw [W.rbrace] at this; revert this; decide
  simp [a, b]

theorem dropWhile_us (p rest : List Char) (hp : ∀ c ∈ p, c ≠ '_') :
    (p ++ '_' :: rest).dropWhile (· != '_') = '_' :: rest := by
  induction p with
  | nil => simp
  | cons c p ih =>
    have hc : c ≠ '_' := hp c (by simp)
    simp [hc, ih (fun d hd => hp d (by simp [hd]))]

theorem convert_tail (isWord : Char → Bool) (W : WordClass isWord) (l : List Char) (hl : IsLabel isWord l) :
    joinUs (splitWs (l.filter fun c => c != '{' && c != '}')) = l := by
  rw [no_brace isWord W l (fun c hc => by rw [hl.2 c hc]; rfl),
    splitWs_single l ⟨hl.1, fun c hc => W.nows c (hl.2 c hc)⟩]
  simp [joinUs]

theorem convert_stem (isWord : Char → Bool) (W : WordClass isWord) (s l : List Char) (hs : ∀ c ∈ s, c ≠ '_')
    (hl : IsLabel isWord l) : convert (s ++ '_' :: l) = l := by
  unfold convert
  have h1 : (s ++ '_' :: l).contains '_' = true := by simp
  simp only [h1, if_true, dropWhile_us s l hs, List.drop_succ_cons, List.drop_zero]
  exact convert_tail isWord W l hl

theorem convert_plain (isWord : Char → Bool) (W : WordClass isWord) (w : List Char) (hw : IsLabel isWord w)
    (hu : '_' ∉ w) : convert w = w := by
  unfold convert
  have h1 : w.contains '_' = false := by simpa using hu
  simp only [h1, Bool.false_eq_true, if_false]
  exact convert_tail isWord W w hw

theorem filter_append_rbrace (l : List Char) :
    (l ++ ['}']).filter (fun c => c != '{' && c != '}') = l.filter (fun c => c != '{' && c != '}') := by
  simp [List.filter_append]

theorem convert_phrase (isWord : Char → Bool) (W : WordClass isWord) (p l : List Char) (hp : ∀ c ∈ p, c ≠ '_')
    (hl : IsLabel isWord l) : convert ('{' :: ((p ++ '_' :: l) ++ '}' :: [])) = l := by
  unfold convert
  have h1 : ('{' :: ((p ++ '_' :: l) ++ '}' :: [])).contains '_' = true := by simp
  have e : '{' :: ((p ++ '_' :: l) ++ '}' :: []) = ('{' :: p) ++ '_' :: (l ++ ['}']) := by simp
  have hp' : ∀ c ∈ '{' :: p, c ≠ '_' := by
    intro c hc
    rcases List.mem_cons.mp hc with rfl | hc
    · decide
    · exact hp c hc
  simp only [h1, if_true]
  rw [e, dropWhile_us _ _ hp']
  simp only [List.drop_succ_cons, List.drop_zero]
  rw [filter_append_rbrace]
  exact convert_tail isWord W l hl

theorem us_not_mem_joinSp (ws : List (List Char)) (h : ∀ w ∈ ws, '_' ∉ w) : '_' ∉ joinSp ws := by
  induction ws with
  | nil => simp [joinSp]
  | cons w ws ih =>
    cases ws with
    | nil => simpa [joinSp] using h w (by simp)
    | cons v vs =>
      simp only [joinSp, List.mem_append, List.mem_cons, not_or]
      exact ⟨h w (by simp), by decide, ih (fun x hx => h x (by simp [hx]))⟩

theorem joinSp_wordish (isWord : Char → Bool) (ws : List (List Char)) (h : ∀ w ∈ ws, IsLabel isWord w) :
    ∀ c ∈ joinSp ws, (isWord c || c == ' ') = true := by
  induction ws with
  | nil => simp [joinSp]
  | cons w ws ih =>
    cases ws with
    | nil =>
      intro c hc
      have : c ∈ w := by simpa [joinSp] using hc
      rw [(h w (by simp)).2 c this]; rfl
    | cons v vs =>
      intro c hc
      simp only [joinSp, List.mem_append, List.mem_cons] at hc
      rcases hc with hc | rfl | hc
      · rw [(h w (by simp)).2 c hc]; rfl
      · simp
      · exact ih (fun x hx => h x (by simp [hx])) c hc

theorem convert_words (isWord : Char → Bool) (W : WordClass isWord) (ws : List (List Char))
    (h : ∀ w ∈ ws, IsLabel isWord w ∧ '_' ∉ w) : convert ('{' :: (joinSp ws ++ '}' :: [])) = joinUs ws := by
  unfold convert
  have hu := us_not_mem_joinSp ws (fun w hw => (h w hw).2)
  have h1 : ('{' :: (joinSp ws ++ '}' :: [])).contains '_' = false := by
    simp only [List.contains_eq_mem, List.mem_cons, List.mem_append, List.mem_nil_iff, or_false, decide_eq_false_iff_not,
      not_or]
    exact ⟨by decide, hu, by decide⟩
  simp only [h1, Bool.false_eq_true, if_false]
  have e : ('{' :: (joinSp ws ++ '}' :: [])).filter (fun c => c != '{' && c != '}')
      = (joinSp ws).filter (fun c => c != '{' && c != '}') := by
    simp [List.filter_append]
  rw [e, no_brace isWord W _ (joinSp_wordish isWord ws (fun w hw => (h w hw).1)),
    splitWs_joinSp ws (fun w hw => ⟨(h w hw).1.1, fun c hc => W.nows c ((h w hw).1.2 c hc)⟩)]

theorem convert_item (isWord : Char → Bool) (W : WordClass isWord) (it : Item) (h : it.Ok isWord) :
    convert it.text = it.label := by
  cases it with
  | stem s l => exact convert_stem isWord W s l (fun c hc => (h.1 c hc).2) h.2
  | plain w => exact convert_plain isWord W w h.1 h.2
  | phrase p l => exact convert_phrase isWord W p l (fun c hc => (h.1 c hc).2) h.2
  | words ws => exact convert_words isWord W ws h.2


theorem tokens_nil (isWord : Char → Bool) : tokens isWord [] = [] := rfl

/-- the text of a word-style item is a label-like word -/
theorem item_word (isWord : Char → Bool) (W : WordClass isWord) (s l : List Char)
    (hs : ∀ c ∈ s, isWord c = true ∧ c ≠ '_') (hl : IsLabel isWord l) : IsLabel isWord (s ++ '_' :: l) := by
  refine ⟨by simp, ?_⟩
  intro c hc
  rcases List.mem_append.mp hc with h | h
  · exact (hs c h).1
  · rcases List.mem_cons.mp h with rfl | h
    · exact isWord_us isWord W
    · exact hl.2 c h

theorem item_body (isWord : Char → Bool) (W : WordClass isWord) (it : Item) (h : it.Ok isWord) :
    (IsLabel isWord it.text) ∨
    (∃ body, it.text = '{' :: (body ++ '}' :: []) ∧ body ≠ [] ∧ ∀ c ∈ body, (isWord c || c == ' ') = true) := by
  cases it with
  | stem s l => exact Or.inl (item_word isWord W s l h.1 h.2)
  | plain w => exact Or.inl h.1
  | phrase p l =>
    refine Or.inr ⟨p ++ '_' :: l, rfl, by simp, ?_⟩
    intro c hc
    rcases List.mem_append.mp hc with hc | hc
    · exact (h.1 c hc).1
    · rcases List.mem_cons.mp hc with rfl | hc
      · rw [isWord_us isWord W]; rfl
      · rw [h.2.2 c hc]; rfl
  | words ws =>
    refine Or.inr ⟨joinSp ws, rfl, ?_, joinSp_wordish isWord ws (fun w hw => (h.2 w hw).1)⟩
    obtain ⟨hne, hw⟩ := h
    cases ws with
    | nil => exact absurd rfl hne
    | cons w ws =>
      have := (hw w (by simp)).1.1
      cases w with
      | nil => exact absurd rfl this
      | cons c w => cases ws <;> simp [joinSp]

/-- `re.findall(r"(\w+|{[\w ]+})", …)` on items separated by single blanks returns the items -/
theorem tokens_items (isWord : Char → Bool) (W : WordClass isWord) (its : List Item)
    (h : ∀ it ∈ its, it.Ok isWord) : tokens isWord (joinSp (its.map Item.text)) = its.map Item.text := by
  induction its with
  | nil => rfl
  | cons it its ih =>
    have hit := h it (by simp)
    have ih' := ih (fun x hx => h x (by simp [hx]))
    cases its with
    | nil =>
      simp only [List.map_cons, List.map_nil, joinSp]
      rcases item_body isWord W it hit with hw | ⟨body, e, hne, hb⟩
      · exact tokens_word_single isWord _ hw
      · rw [e, tokens_brace_cons isWord W body hne hb [], tokens_nil]
    | cons it2 its =>
      simp only [List.map_cons, joinSp] at ih' ⊢
      rcases item_body isWord W it hit with hw | ⟨body, e, hne, hb⟩
      · rw [tokens_word_cons isWord W.space _ hw, ih']
      · rw [e]
        have e2 : '{' :: (body ++ ['}']) ++ ' ' :: joinSp (it2.text :: its.map Item.text)
            = '{' :: (body ++ '}' :: (' ' :: joinSp (it2.text :: its.map Item.text))) := by simp
        rw [e2, tokens_brace_cons isWord W body hne hb, tokens_skip isWord ' ' W.space (by decide), ih']

/-- **foreign label styles**: `valuelabels` written as `stem_x` words (OOMMF `Magnetization_x`,
mumax `m_x`), plain words, braced phrases `{Total field_x}` and braced multi-word names
`{Total energy density}` is read to the labels `x`, the word, `x`, `Total_energy_density`, when
these are distinct -/
theorem recoverLabels_items (isWord : Char → Bool) (W : WordClass isWord) (its : List Item)
    (h : ∀ it ∈ its, it.Ok isWord)
    (hd : hasDup (its.map fun it => String.ofList it.label) = false) :
    recoverLabels isWord (String.ofList (joinSp (its.map Item.text)))
      = some (its.map fun it => String.ofList it.label) := by
  unfold recoverLabels
  rw [String.toList_ofList, tokens_items isWord W its h]
  have : ((its.map Item.text).map fun t => String.ofList (convert t)) = its.map fun it => String.ofList it.label := by
    rw [List.map_map]
    apply List.map_congr_left
    intro it hit
    simp only [Function.comp]
    rw [convert_item isWord W it (h it hit)]
  rw [this, hd]
  simp

/-- ... and when they are not distinct (`m_x m_x m_x`), the reader falls back to no labels -/
theorem recoverLabels_items_dup (isWord : Char → Bool) (W : WordClass isWord) (its : List Item)
    (h : ∀ it ∈ its, it.Ok isWord)
    (hd : hasDup (its.map fun it => String.ofList it.label) = true) :
    recoverLabels isWord (String.ofList (joinSp (its.map Item.text))) = none := by
  unfold recoverLabels
  rw [String.toList_ofList, tokens_items isWord W its h]
  have : ((its.map Item.text).map fun t => String.ofList (convert t)) = its.map fun it => String.ofList it.label := by
    rw [List.map_map]
    apply List.map_congr_left
    intro it hit
    simp only [Function.comp]
    rw [convert_item isWord W it (h it hit)]
  rw [this, hd]
  simp

end DFV.C09
