import DFV.Lemmas.C09Ieee
/-! The rounding of the driver's IEEE-754 model (C09): `ilog2` is the binade; every value of the
format (normal, subnormal, zero, the stand-in of infinity) is a fixed point of encode-decode. -/
namespace DFV.C09
open DFV

theorem pow2_sub_nat (e : Int) (k : Nat) : pow2 (e - k) = pow2 e / 2 ^ k := by
  have := pow2_add_nat (e - k) k
  rw [show e - (k : Int) + k = e by ring] at this
  rw [this]
  field_simp

/-- the arithmetic core of `ilog2_spec`: `a = n/d` with `2^ln ≤ n < 2^(ln+1)`, `2^ld ≤ d < 2^(ld+1)` -/
theorem binade_bounds (a n d : Rat) (ln ld : Nat) (hd : 0 < d) (ha : a = n / d)
    (n1 : (2 : Rat) ^ ln ≤ n) (n2 : n < 2 ^ (ln + 1)) (d1 : (2 : Rat) ^ ld ≤ d) (d2 : d < 2 ^ (ld + 1)) :
    pow2 ((ln : Int) - ld - 1) < a ∧ a < pow2 ((ln : Int) - ld + 1) := by
  have hL : pow2 ((ln : Int) - (ld : Int)) = (2 : Rat) ^ ln / 2 ^ ld := by
    rw [pow2_sub_nat, pow2_natCast]
  have hp1 : (0 : Rat) < 2 ^ ln := by positivity
  have hp2 : (0 : Rat) < 2 ^ ld := by positivity
  constructor
  · have e : pow2 ((ln : Int) - (ld : Int) - 1) = (2 : Rat) ^ ln / 2 ^ (ld + 1) := by
      have := pow2_sub_nat ((ln : Int) - (ld : Int)) 1
      simp only [Nat.cast_one, pow_one] at this
      rw [this, hL, pow_succ]; field_simp
    rw [e, ha, div_lt_div_iff₀ (by positivity) hd]
    nlinarith
  · rw [pow2_succ, hL, ha, div_lt_iff₀ hd]
    have : (2 : Rat) * (2 ^ ln / 2 ^ ld) * d = 2 ^ (ln + 1) * (d / 2 ^ ld) := by
      rw [pow_succ]; field_simp
    rw [this]
    have h1 : (1 : Rat) ≤ d / 2 ^ ld := by rw [le_div_iff₀ hp2]; linarith
    have h2 : (0 : Rat) < 2 ^ (ln + 1) := by positivity
    nlinarith

/-- `ilog2 a` is the binade of `a` -/
theorem ilog2_spec (a : Rat) (ha : 0 < a) : pow2 (ilog2 a) ≤ a ∧ a < pow2 (ilog2 a + 1) := by
  have hnum : 0 < a.num := Rat.num_pos.mpr ha
  have hn0 : a.num.natAbs ≠ 0 := by omega
  have hd0 : a.den ≠ 0 := a.den_nz
  have hcast : a = (a.num.natAbs : Rat) / (a.den : Rat) := by
    have h1 : (a.num.natAbs : Rat) = (a.num : Rat) := by
      rw [Nat.cast_natAbs, abs_of_pos hnum]
    rw [h1]; exact (Rat.num_div_den a).symm
  have hdpos : (0 : Rat) < (a.den : Rat) := by exact_mod_cast Nat.pos_of_ne_zero hd0
  have n1 : ((2 : Rat) ^ a.num.natAbs.log2) ≤ (a.num.natAbs : Rat) := by
    exact_mod_cast Nat.log2_self_le hn0
  have n2 : (a.num.natAbs : Rat) < (2 : Rat) ^ (a.num.natAbs.log2 + 1) := by
    exact_mod_cast (Nat.lt_log2_self (n := a.num.natAbs))
  have d1 : ((2 : Rat) ^ a.den.log2) ≤ (a.den : Rat) := by
    exact_mod_cast Nat.log2_self_le hd0
  have d2 : (a.den : Rat) < (2 : Rat) ^ (a.den.log2 + 1) := by
    exact_mod_cast (Nat.lt_log2_self (n := a.den))
  obtain ⟨lo, up⟩ := binade_bounds a _ _ _ _ hdpos hcast n1 n2 d1 d2
  unfold ilog2
  split
  · rename_i h; exact ⟨h, up⟩
  · rename_i h
    refine ⟨le_of_lt lo, ?_⟩
    rw [show (a.num.natAbs.log2 : Int) - (a.den.log2 : Int) - 1 + 1 = (a.num.natAbs.log2 : Int) - (a.den.log2 : Int) by ring]
    exact lt_of_not_ge h

theorem ilog2_unique (a : Rat) (ha : 0 < a) (e : Int) (h1 : pow2 e ≤ a) (h2 : a < pow2 (e + 1)) : ilog2 a = e := by
  obtain ⟨s1, s2⟩ := ilog2_spec a ha
  by_contra hne
  rcases lt_or_gt_of_ne hne with h | h
  · have := pow2_le (ilog2 a + 1) e (by omega); linarith
  · have := pow2_le (e + 1) (ilog2 a) (by omega); linarith


/-- the magnitude `fromBits` assigns to exponent field `E` and mantissa field `mant` -/
def magOf (F : Fmt) (E mant : Nat) : Rat :=
  if E = 2 ^ F.ebits - 1 then (if mant = 0 then pow2 (F.bias + 1) else pow2 (F.bias + 2))
  else if E = 0 then ((mant : Nat) : Rat) * pow2 (F.emin - F.mbits)
  else ((2 ^ F.mbits + mant : Nat) : Rat) * pow2 ((E : Nat) - F.bias - F.mbits)

theorem fromBits_eq_magOf (F : Fmt) (b : Nat) :
    fromBits F b = (if b / F.signBit % 2 = 1 then -1 else 1) * magOf F (b / 2 ^ F.mbits % 2 ^ F.ebits) (b % 2 ^ F.mbits) := rfl

theorem roundHalfEven_natCast_toNat (n : Nat) : (Mesh.roundHalfEven ((n : Nat) : Rat)).toNat = n := by
  rw [roundHalfEven_nat]; simp

/-- normal numbers: the rounding of `(2^m + mant)·2^(E-bias-m)` is its own pattern -/
theorem bitsAbs_normal (F : Fmt) (E mant : Nat) (hE1 : 1 ≤ E) (hE2 : E + 2 ≤ 2 ^ F.ebits) (hm : mant < 2 ^ F.mbits) :
    bitsAbs F (((2 ^ F.mbits + mant : Nat) : Rat) * pow2 ((E : Nat) - F.bias - F.mbits)) = E * 2 ^ F.mbits + mant := by
  have hp := pow2_pos (((E : Nat) : Int) - F.bias - F.mbits)
  have hmc : ((mant : Nat) : Rat) < 2 ^ F.mbits := by exact_mod_cast hm
  have hm0 : (0 : Rat) ≤ ((mant : Nat) : Rat) := by positivity
  have hpos : 0 < ((2 ^ F.mbits + mant : Nat) : Rat) * pow2 ((E : Nat) - F.bias - F.mbits) := by
    apply mul_pos _ hp; push_cast; positivity
  have hlog : ilog2 (((2 ^ F.mbits + mant : Nat) : Rat) * pow2 ((E : Nat) - F.bias - F.mbits)) = (E : Int) - F.bias := by
    apply ilog2_unique _ hpos
    · have e : pow2 ((E : Int) - F.bias) = 2 ^ F.mbits * pow2 ((E : Int) - F.bias - F.mbits) := by
        rw [← pow2_add_nat]; congr 1; ring
      rw [e]
      apply mul_le_mul_of_nonneg_right _ (le_of_lt hp)
      push_cast; linarith
    · have e : pow2 ((E : Int) - F.bias + 1) = 2 ^ (F.mbits + 1) * pow2 ((E : Int) - F.bias - F.mbits) := by
        rw [← pow2_add_nat]; congr 1; push_cast; ring
      rw [e]
      apply mul_lt_mul_of_pos_right _ hp
      push_cast; rw [pow_succ]; linarith
  unfold bitsAbs
  rw [hlog]
  have hnot : ¬ ((E : Int) - F.bias < F.emin) := by unfold Fmt.emin; omega
  rw [if_neg hnot]
  have hdiv : ((2 ^ F.mbits + mant : Nat) : Rat) * pow2 ((E : Nat) - F.bias - F.mbits) / pow2 ((E : Int) - F.bias - F.mbits)
      = ((2 ^ F.mbits + mant : Nat) : Rat) := by
    field_simp [ne_of_gt hp]
  rw [hdiv, roundHalfEven_natCast_toNat]
  have h1 : ((E : Int) - F.bias + F.bias).toNat = E := by omega
  rw [h1]
  have h2 : 2 ^ F.mbits + mant - 2 ^ F.mbits = mant := by omega
  rw [h2]
  apply Nat.min_eq_right
  unfold Fmt.infBits
  have : (E + 1) * 2 ^ F.mbits ≤ (2 ^ F.ebits - 1) * 2 ^ F.mbits := Nat.mul_le_mul_right _ (by omega)
  rw [Nat.add_mul, Nat.one_mul] at this
  omega


/-- subnormal numbers -/
theorem bitsAbs_subnormal (F : Fmt) (mant : Nat) (hm0 : 0 < mant) (hm : mant < 2 ^ F.mbits) (he : 1 ≤ F.ebits) :
    bitsAbs F (((mant : Nat) : Rat) * pow2 (F.emin - F.mbits)) = mant := by
  have hp := pow2_pos (F.emin - F.mbits)
  have hmc : ((mant : Nat) : Rat) < 2 ^ F.mbits := by exact_mod_cast hm
  have hmp : (0 : Rat) < ((mant : Nat) : Rat) := by exact_mod_cast hm0
  have hpos : 0 < ((mant : Nat) : Rat) * pow2 (F.emin - F.mbits) := mul_pos hmp hp
  have hlt : ((mant : Nat) : Rat) * pow2 (F.emin - F.mbits) < pow2 F.emin := by
    have e : pow2 F.emin = 2 ^ F.mbits * pow2 (F.emin - F.mbits) := by
      rw [← pow2_add_nat]; congr 1; ring
    rw [e]; exact mul_lt_mul_of_pos_right hmc hp
  have hlog : ilog2 (((mant : Nat) : Rat) * pow2 (F.emin - F.mbits)) < F.emin := by
    by_contra hge
    have := pow2_le F.emin (ilog2 (((mant : Nat) : Rat) * pow2 (F.emin - F.mbits))) (by omega)
    have := (ilog2_spec _ hpos).1
    linarith
  unfold bitsAbs
  rw [if_pos hlog]
  have hdiv : ((mant : Nat) : Rat) * pow2 (F.emin - F.mbits) / pow2 (F.emin - F.mbits) = ((mant : Nat) : Rat) := by
    field_simp [ne_of_gt hp]
  rw [hdiv, roundHalfEven_natCast_toNat]
  apply Nat.min_eq_right
  unfold Fmt.infBits
  have h1 : 1 ≤ 2 ^ F.ebits - 1 := by
    have : 2 ^ 1 ≤ 2 ^ F.ebits := Nat.pow_le_pow_right (by omega) he
    omega
  have := Nat.mul_le_mul_right (2 ^ F.mbits) h1
  omega

/-- the stand-in of infinity, `2^(bias+1)` -/
theorem bitsAbs_inf (F : Fmt) (he : 1 ≤ F.ebits) : bitsAbs F (pow2 (F.bias + 1)) = F.infBits := by
  have hlog : ilog2 (pow2 (F.bias + 1)) = F.bias + 1 :=
    ilog2_unique _ (pow2_pos _) _ (le_refl _) (by rw [pow2_succ (F.bias + 1)]; linarith [pow2_pos (F.bias + 1)])
  have hb : (0 : Int) ≤ F.bias := by
    unfold Fmt.bias
    have : (1 : Int) ≤ 2 ^ (F.ebits - 1) := by exact_mod_cast Nat.one_le_two_pow
    omega
  unfold bitsAbs
  rw [hlog]
  have hnot : ¬ (F.bias + 1 < F.emin) := by unfold Fmt.emin; omega
  rw [if_neg hnot]
  have hp := pow2_pos (F.bias + 1 - F.mbits)
  have hdiv : pow2 (F.bias + 1) / pow2 (F.bias + 1 - F.mbits) = (((2 ^ F.mbits : Nat)) : Rat) := by
    have e : pow2 (F.bias + 1) = 2 ^ F.mbits * pow2 (F.bias + 1 - F.mbits) := by
      rw [← pow2_add_nat]; congr 1; ring
    rw [e]; push_cast; field_simp [ne_of_gt hp]
  rw [hdiv, roundHalfEven_natCast_toNat, Nat.sub_self, Nat.add_zero]
  have h2 : (F.bias + 1 + F.bias).toNat = 2 ^ F.ebits - 1 := by
    unfold Fmt.bias
    have : (2 : Int) ^ F.ebits = 2 * 2 ^ (F.ebits - 1) := by
      rw [← pow_succ']; congr 1; omega
    have h3 : ((2 ^ F.ebits - 1 : Nat) : Int) = 2 ^ F.ebits - 1 := by
      have : 1 ≤ 2 ^ F.ebits := Nat.one_le_two_pow
      push_cast [Nat.cast_sub this]; ring
    omega
  rw [h2]
  exact Nat.min_self _


/-- every magnitude except zero and NaN is a fixed point of the rounding: `bitsAbs` returns its
own fields -/
theorem bitsAbs_magOf (F : Fmt) (he : 1 ≤ F.ebits) (E mant : Nat) (hE : E < 2 ^ F.ebits) (hm : mant < 2 ^ F.mbits)
    (hnan : E = 2 ^ F.ebits - 1 → mant = 0) (hnz : ¬ (E = 0 ∧ mant = 0)) :
    bitsAbs F (magOf F E mant) = E * 2 ^ F.mbits + mant ∧ 0 < magOf F E mant := by
  unfold magOf
  by_cases h1 : E = 2 ^ F.ebits - 1
  · have hm0 := hnan h1
    subst hm0
    simp only [h1, if_true]
    refine ⟨?_, pow2_pos _⟩
    rw [bitsAbs_inf F he]; rfl
  · rw [if_neg h1]
    by_cases h2 : E = 0
    · subst h2
      have hm0 : 0 < mant := by omega
      simp only [if_true, Nat.zero_mul, Nat.zero_add]
      exact ⟨bitsAbs_subnormal F mant hm0 hm he, mul_pos (by exact_mod_cast hm0) (pow2_pos _)⟩
    · rw [if_neg h2]
      refine ⟨bitsAbs_normal F E mant (by omega) (by omega) hm, mul_pos ?_ (pow2_pos _)⟩
      push_cast; positivity

theorem fields_pos (e m E mant : Nat) (hE : E < 2 ^ e) (hm : mant < 2 ^ m) :
    (E * 2 ^ m + mant) / 2 ^ (e + m) % 2 = 0 ∧ (E * 2 ^ m + mant) / 2 ^ m % 2 ^ e = E ∧ (E * 2 ^ m + mant) % 2 ^ m = mant := by
  have hP : 0 < 2 ^ m := Nat.pow_pos (by omega)
  have h1 : (E * 2 ^ m + mant) / 2 ^ m = E := by
    rw [Nat.mul_comm, Nat.mul_add_div hP, Nat.div_eq_of_lt hm, Nat.add_zero]
  have h2 : (E * 2 ^ m + mant) % 2 ^ m = mant := by
    rw [Nat.mul_comm, Nat.mul_add_mod, Nat.mod_eq_of_lt hm]
  have h3 : E * 2 ^ m + mant < 2 ^ (e + m) := by
    rw [Nat.pow_add]
    have : (E + 1) * 2 ^ m ≤ 2 ^ e * 2 ^ m := Nat.mul_le_mul_right _ (by omega)
    rw [Nat.add_mul, Nat.one_mul] at this
    omega
  exact ⟨by rw [Nat.div_eq_of_lt h3], by rw [h1, Nat.mod_eq_of_lt hE], h2⟩

theorem fields_neg (e m E mant : Nat) (hE : E < 2 ^ e) (hm : mant < 2 ^ m) :
    (2 ^ (e + m) + (E * 2 ^ m + mant)) / 2 ^ (e + m) % 2 = 1 ∧
    (2 ^ (e + m) + (E * 2 ^ m + mant)) / 2 ^ m % 2 ^ e = E ∧ (2 ^ (e + m) + (E * 2 ^ m + mant)) % 2 ^ m = mant := by
  have hP : 0 < 2 ^ m := Nat.pow_pos (by omega)
  have hS : 0 < 2 ^ (e + m) := Nat.pow_pos (by omega)
  obtain ⟨_, f2, f3⟩ := fields_pos e m E mant hE hm
  have h3 : E * 2 ^ m + mant < 2 ^ (e + m) := by
    rw [Nat.pow_add]
    have : (E + 1) * 2 ^ m ≤ 2 ^ e * 2 ^ m := Nat.mul_le_mul_right _ (by omega)
    rw [Nat.add_mul, Nat.one_mul] at this
    omega
  refine ⟨?_, ?_, ?_⟩
  · have : (2 ^ (e + m) + (E * 2 ^ m + mant)) / 2 ^ (e + m) = 1 := by
      rw [Nat.add_div_left _ hS, Nat.div_eq_of_lt h3]
    rw [this]
  · have : 2 ^ (e + m) + (E * 2 ^ m + mant) = 2 ^ m * 2 ^ e + (E * 2 ^ m + mant) := by rw [Nat.pow_add, Nat.mul_comm]
    rw [this, Nat.mul_add_div hP, Nat.add_mod, Nat.mod_self, Nat.zero_add, Nat.mod_mod, f2]
  · have : 2 ^ (e + m) + (E * 2 ^ m + mant) = 2 ^ m * 2 ^ e + (E * 2 ^ m + mant) := by rw [Nat.pow_add, Nat.mul_comm]
    rw [this, Nat.mul_add_mod, f3]


/-- the pattern is not a NaN -/
def NotNaN (F : Fmt) (b : Nat) : Prop := b / 2 ^ F.mbits % 2 ^ F.ebits = 2 ^ F.ebits - 1 → b % 2 ^ F.mbits = 0

/-- **every value of the format is a fixed point of the rounding**: encoding the value of a
non-NaN bit pattern and decoding again gives the same value (for either zero: zero) -/
theorem round_fixed (F : Fmt) (he : 1 ≤ F.ebits) (b : Nat) (hnan : NotNaN F b) :
    fromBits F (toBits F (fromBits F b)) = fromBits F b := by
  have hE : b / 2 ^ F.mbits % 2 ^ F.ebits < 2 ^ F.ebits := Nat.mod_lt _ (Nat.pow_pos (by omega))
  have hm : b % 2 ^ F.mbits < 2 ^ F.mbits := Nat.mod_lt _ (Nat.pow_pos (by omega))
  have hone : 1 ≤ 2 ^ F.ebits - 1 := by
    have : 2 ^ 1 ≤ 2 ^ F.ebits := Nat.pow_le_pow_right (by omega) he
    omega
  rw [fromBits_eq_magOf F b]
  unfold NotNaN at hnan
  generalize b / 2 ^ F.mbits % 2 ^ F.ebits = E at hE hnan ⊢
  generalize b % 2 ^ F.mbits = mant at hm hnan ⊢
  have hnan' : E = 2 ^ F.ebits - 1 → mant = 0 := hnan
  by_cases hz : E = 0 ∧ mant = 0
  · obtain ⟨rfl, rfl⟩ := hz
    have h0 : magOf F 0 0 = 0 := by
      unfold magOf
      rw [if_neg (by omega)]
      simp
    rw [h0, mul_zero]
    have : toBits F 0 = 0 := by simp [toBits]
    rw [this, fromBits_eq_magOf]
    simp only [Nat.zero_div, Nat.zero_mod, h0, mul_zero]
  · obtain ⟨hbits, hpos⟩ := bitsAbs_magOf F he E mant hE hm hnan' hz
    by_cases hs : b / F.signBit % 2 = 1
    · rw [if_pos hs]
      have hx : (-1 : Rat) * magOf F E mant < 0 := by linarith
      have : toBits F (-1 * magOf F E mant) = F.signBit + (E * 2 ^ F.mbits + mant) := by
        unfold toBits
        rw [if_neg (ne_of_lt hx), if_pos hx]
        have : -(-1 * magOf F E mant) = magOf F E mant := by ring
        rw [this, hbits]
      rw [this, fromBits_eq_magOf]
      obtain ⟨f1, f2, f3⟩ := fields_neg F.ebits F.mbits E mant hE hm
      unfold Fmt.signBit
      rw [f1, f2, f3]
      simp
    · rw [if_neg hs, one_mul]
      have : toBits F (magOf F E mant) = E * 2 ^ F.mbits + mant := by
        unfold toBits
        rw [if_neg (ne_of_gt hpos), if_neg (not_lt.mpr (le_of_lt hpos)), hbits]
      rw [this, fromBits_eq_magOf]
      obtain ⟨f1, f2, f3⟩ := fields_pos F.ebits F.mbits E mant hE hm
      unfold Fmt.signBit
      rw [f1, f2, f3]
      simp

end DFV.C09
