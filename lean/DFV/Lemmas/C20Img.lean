import DFV.Model.C20
import DFV.Lemmas.RatFloor
import DFV.Lemmas.C20Si
import DFV.Props.C01
/-!
C20 helper lemmas: the transposed masked image, cell centres, the extent, matplotlib's
placement contract per axis (`AxisCovers`), and inversion lemmas for the plot functions.
-/
namespace DFV.C20
open DFV

/-! ## transposition -/

theorem transpose10_get {α} (a : NDA α) (h : a.shape.length = 2) (r c : Nat) :
    (a.transpose [1, 0]).get [r, c] = a.get [c, r] := by
  unfold NDA.transpose
  simp only [h]
  rfl

theorem transpose10_shape {α} (a : NDA α) :
    (a.transpose [1, 0]).shape = [a.shape.getD 1 0, a.shape.getD 0 0] := by
  unfold NDA.transpose
  simp

theorem imgOf_get {α} (n : List Nat) (hn : n.length = 2) (keep : NDA Bool) (val : List Nat → α)
    (r c : Nat) :
    (imgOf n keep val).get [r, c] = if keep.get [c, r] then some (val [c, r]) else none := by
  unfold imgOf
  rw [transpose10_get _ (by simpa using hn)]

theorem imgOf_shape {α} (n : List Nat) (keep : NDA Bool) (val : List Nat → α) :
    (imgOf n keep val).shape = [n.getD 1 0, n.getD 0 0] := by
  unfold imgOf
  rw [transpose10_shape]

theorem colourArr_get (n : List Nat) (hn : n.length = 2) (a : NDA (List Rat)) (r c : Nat) :
    (colourArr n a).get [r, c] = (a.get [c, r]).getD 0 0 := by
  unfold colourArr
  rw [transpose10_get _ (by simpa using hn)]

theorem colourArr_shape (n : List Nat) (a : NDA (List Rat)) :
    (colourArr n a).shape = [n.getD 1 0, n.getD 0 0] := by
  unfold colourArr
  rw [transpose10_shape]

/-! ## cell centres (`mesh.cells`) -/

/-- `mesh.cells[a][j]` is the centre of cell `j` -/
theorem cells_getD (m : Mesh) (a j : Nat) (ha : a < m.ndim) (hj : j < m.nAt a) :
    (m.cells.getD a []).getD j 0 = m.centreAx a (j : Int) := by
  unfold Mesh.cells
  rw [getD_tab _ _ _ _ ha]
  unfold Mesh.linspace Mesh.centreAx
  by_cases h1 : m.nAt a = 1
  · have : j = 0 := by omega
    subst this
    simp [h1]
    ring
  · simp only [h1, if_false]
    rw [getD_tab _ _ _ _ hj]
    have hn : (1 : Rat) < (m.nAt a : Rat) := by
      have : 1 < m.nAt a := by omega
      exact_mod_cast this
    have hcov : (m.nAt a : Rat) * m.cellAt a = m.region.edge a := C01.cells_cover_edges m a (by omega)
    unfold Region.edge at hcov
    have h0 : (m.nAt a : Rat) - 1 ≠ 0 := by linarith
    have : (m.region.hi a - m.cellAt a / 2 - (m.region.lo a + m.cellAt a / 2)) / ((m.nAt a : Rat) - 1)
        = m.cellAt a := by
      field_simp
      linarith
    rw [this]
    push_cast
    ring

theorem cells_length (m : Mesh) (a : Nat) (ha : a < m.ndim) :
    (m.cells.getD a []).length = m.nAt a := by
  unfold Mesh.cells
  rw [getD_tab _ _ _ _ ha]
  unfold Mesh.linspace
  split
  · simp; omega
  · simp

theorem pointsAx_length (m : Mesh) (a : Nat) (mult : Rat) (ha : a < m.ndim) :
    (pointsAx m a mult).length = m.nAt a := by
  unfold pointsAx
  rw [List.length_map, cells_length m a ha]

theorem pointsAx_getD (m : Mesh) (a j : Nat) (mult : Rat) (ha : a < m.ndim) (hj : j < m.nAt a) :
    (pointsAx m a mult).getD j 0 = m.centreAx a (j : Int) / mult := by
  have hl : j < (m.cells.getD a []).length := by rw [cells_length m a ha]; exact hj
  have h := cells_getD m a j ha hj
  unfold pointsAx
  rw [List.getD_eq_getElem?_getD, List.getElem?_map]
  rw [List.getD_eq_getElem?_getD] at h
  rw [List.getElem?_eq_getElem hl] at h ⊢
  simp only [Option.map_some, Option.getD_some] at h ⊢
  rw [h]

/-! ## matplotlib's placement contract, one axis -/

/-- one axis of matplotlib's placement contract (trusted): pixel `c` of `C` pixels spanning
`[x0, x1]` covers `[x0 + c·w, x0 + (c+1)·w)` with `w = (x1 - x0)/C`; the last pixel
includes `x1` -/
def AxisCovers (C : Nat) (x0 x1 : Rat) (c : Nat) (x : Rat) : Prop :=
  x0 + (c : Rat) * ((x1 - x0) / (C : Rat)) ≤ x ∧
  (x < x0 + ((c : Rat) + 1) * ((x1 - x0) / (C : Rat)) ∨ (c = C - 1 ∧ x = x1))

theorem axisCovers_unique (C : Nat) (x0 x1 : Rat) (h01 : x0 < x1) (c c' : Nat) (x : Rat)
    (hc : c < C) (hc' : c' < C) (h : AxisCovers C x0 x1 c x) (h' : AxisCovers C x0 x1 c' x) :
    c = c' := by
  have hC : (0 : Rat) < (C : Rat) := by exact_mod_cast (by omega : 0 < C)
  have hw : 0 < (x1 - x0) / (C : Rat) := div_pos (by linarith) hC
  have hx1 : x1 = x0 + (C : Rat) * ((x1 - x0) / (C : Rat)) := by field_simp; ring
  obtain ⟨l, u⟩ := h
  obtain ⟨l', u'⟩ := h'
  set w := (x1 - x0) / (C : Rat) with hwdef
  have excl : ∀ d : Nat, d < C → x < x0 + ((d : Rat) + 1) * w → x ≠ x1 := by
    intro d hd hlt heq
    have : (d : Rat) + 1 ≤ (C : Rat) := by exact_mod_cast (by omega : d + 1 ≤ C)
    have := mul_le_mul_of_nonneg_right this hw.le
    rw [heq] at hlt
    linarith
  rcases u with u | ⟨e, ex⟩ <;> rcases u' with u' | ⟨e', ex'⟩
  · exact C01.cell_unique x0 w x hw c c' ⟨l, u⟩ ⟨l', u'⟩
  · exact absurd ex' (excl c hc u)
  · exact absurd ex (excl c' hc' u')
  · omega

/-- the cell index of the physical coordinate `x·mult` is the pixel index that covers `x`
when the pixels span `[lo/mult, hi/mult]` (C01's `index_contains_axis`, rescaled) -/
theorem axisCovers_index (m : Mesh) (a : Nat) (mult x : Rat) (hn : 0 < m.nAt a)
    (hr : m.region.lo a < m.region.hi a) (hm : 0 < mult)
    (hlo : m.region.lo a ≤ x * mult) (hhi : x * mult ≤ m.region.hi a) :
    m.indexAx a (x * mult) < m.nAt a ∧
    AxisCovers (m.nAt a) (m.region.lo a / mult) (m.region.hi a / mult) (m.indexAx a (x * mult)) x := by
  obtain ⟨h1, h2, h3⟩ := C01.index_contains_axis m a (x * mult) hn hr hlo hhi
  have hw : (m.region.hi a / mult - m.region.lo a / mult) / (m.nAt a : Rat) = m.cellAt a / mult := by
    unfold Mesh.cellAt Region.edge
    field_simp
  refine ⟨h1, ?_, ?_⟩
  · rw [hw]
    have : m.region.lo a / mult + (m.indexAx a (x * mult) : Rat) * (m.cellAt a / mult)
        = (m.region.lo a + (m.indexAx a (x * mult) : Rat) * m.cellAt a) / mult := by
      field_simp
    rw [this, div_le_iff₀ hm]
    exact h2
  · rw [hw]
    rcases h3 with h3 | ⟨h3, h4⟩
    · left
      have : m.region.lo a / mult + ((m.indexAx a (x * mult) : Rat) + 1) * (m.cellAt a / mult)
          = (m.region.lo a + ((m.indexAx a (x * mult) : Rat) + 1) * m.cellAt a) / mult := by
        field_simp
      rw [this, lt_div_iff₀ hm]
      exact h3
    · right
      refine ⟨h3, ?_⟩
      rw [← h4]; field_simp

/-! ## extent -/

theorem dimsOk_some (n : Nat) (d : List String) (hd : d.length = n) (hdup : hasDup d = false) :
    Region.dimsOk n (some d) = .ok d := by
  simp [Region.dimsOk, hd, hdup]

theorem unitsOk_some (n : Nat) (u : List String) (hu : u.length = n) : Region.unitsOk n (some u) = .ok u := by
  simp [Region.unitsOk, hu]

/-- the region constructor accepts corners that differ on every axis -/
theorem mk?_ok_of (p1 p2 : List Rat) (d u : List String) (tol : Rat)
    (hl : p1.length = p2.length) (h0 : p1.length ≠ 0) (hd : d.length = p1.length)
    (hdup : hasDup d = false) (hu : u.length = p1.length)
    (hne : ∀ a, a < p1.length → p1.getD a 0 ≠ p2.getD a 0) :
    Region.mk? p1 p2 (some d) (some u) tol =
      .ok { pmin := tab p1.length fun a => min (p1.getD a 0) (p2.getD a 0),
            pmax := tab p1.length fun a => max (p1.getD a 0) (p2.getD a 0),
            dims := d, units := u, tol := tol } := by
  have hall : allLt p1.length (fun a => decide (p1.getD a 0 ≠ p2.getD a 0)) = true := by
    rw [allLt_iff]; intro a ha; simpa using hne a ha
  unfold Region.mk?
  rw [if_neg (not_not.mpr hl), if_neg h0, dimsOk_some _ _ hd hdup, unitsOk_some _ _ hu]
  simp only [hall]
  rfl

/-- `_extent` of a well-formed 2-d region for a positive multiplier: the region's corners
divided by the multiplier -/
theorem extent_eq (r : Region) (hinv : r.Inv) (h2 : r.ndim = 2) (m : Rat) (hm : 0 < m) :
    extent r m = .ok [r.lo 0 / m, r.hi 0 / m, r.lo 1 / m, r.hi 1 / m] := by
  obtain ⟨_, hmax, hd, hu, hdup, hlt⟩ := hinv
  have hlen : r.pmin.length = 2 := h2
  unfold extent
  rw [if_neg (ne_of_gt hm)]
  have key : ∀ a, a < 2 →
      (0 - (0 - r.lo a) * (1 / m)) < (0 - (0 - r.lo a) * (1 / m)) + r.edge a * (1 / m) := by
    intro a ha
    have he : 0 < r.edge a := by unfold Region.edge; have := hlt a (by omega); linarith
    have : 0 < r.edge a * (1 / m) := mul_pos he (by positivity)
    linarith
  rw [mk?_ok_of _ _ r.dims r.units r.tol (by simp) (by simp [h2]) (by simp [h2, hd, hlen])
      hdup (by simp [h2, hu, hlen])
      (by
        intro a ha
        have ha2 : a < 2 := by simpa [h2] using ha
        rw [getD_tab _ _ _ _ (by simpa [h2] using ha2), getD_tab _ _ _ _ (by simpa [h2] using ha2)]
        exact ne_of_lt (key a ha2))]
  simp only [tab_length, h2, Region.lo, Region.hi]
  have e : ∀ a, a < 2 →
      min (0 - (0 - r.lo a) * (1 / m)) ((0 - (0 - r.lo a) * (1 / m)) + r.edge a * (1 / m)) = r.lo a / m ∧
      max (0 - (0 - r.lo a) * (1 / m)) ((0 - (0 - r.lo a) * (1 / m)) + r.edge a * (1 / m)) = r.hi a / m := by
    intro a ha
    have := key a ha
    constructor
    · rw [min_eq_left this.le]; field_simp; ring
    · rw [max_eq_right this.le]; unfold Region.edge; field_simp; ring
  have t0 := e 0 (by omega)
  have t1 := e 1 (by omega)
  simp only [getD_tab _ _ _ _ (by omega : 0 < 2), getD_tab _ _ _ _ (by omega : 1 < 2)]
  simp only [Region.lo, Region.hi] at t0 t1 ⊢
  rw [t0.1, t0.2, t1.1, t1.2]

/-! ## filters -/

theorem filterKeep_ok_inv (f flt : Fld) (keep : NDA Bool) (h : filterKeep f flt = .ok keep) :
    flt.nvdim = 1 ∧ flt.mesh.region.ndim = 2 ∧
    ∃ a, auxOnMesh f flt = .ok a ∧ keep.shape = f.mesh.n ∧
      ∀ i, keep.get i = (!decide ((a.get i).getD 0 0 = 0) && f.valid.get i) := by
  unfold filterKeep at h
  split at h
  · cases h
  · rename_i h1
    split at h
    · cases h
    · rename_i h2
      split at h
      · cases h
      · rename_i a ha
        injection h with h
        subst h
        exact ⟨not_not.mp h1, not_not.mp h2, a, ha, rfl, fun _ => rfl⟩

theorem auxOnMesh_same (f g : Fld) (h : g.mesh.n = f.mesh.n) : auxOnMesh f g = .ok g.data := by
  unfold auxOnMesh
  rw [if_pos h]

/-- a filter field on the same cell counts: a cell keeps its value iff the filter is non-zero
there and the cell is valid -/
theorem filterKeep_same (f flt : Fld) (h1 : flt.nvdim = 1) (h2 : flt.mesh.region.ndim = 2)
    (hn : flt.mesh.n = f.mesh.n) :
    ∃ keep, filterKeep f flt = .ok keep ∧
      ∀ i, keep.get i = (!decide ((flt.data.get i).getD 0 0 = 0) && f.valid.get i) := by
  unfold filterKeep
  rw [if_neg (by simpa using h1), if_neg (by simpa using h2), auxOnMesh_same f flt hn]
  exact ⟨_, rfl, fun _ => rfl⟩

/-- the default filter `field._valid_as_field`: a cell keeps its value iff it is valid -/
theorem filterKeep_valid (f : Fld) (h2 : f.mesh.region.ndim = 2) :
    ∃ keep, filterKeep f (validAsField f) = .ok keep ∧ ∀ i, keep.get i = f.valid.get i := by
  obtain ⟨keep, hk, hget⟩ := filterKeep_same f (validAsField f) rfl h2 rfl
  refine ⟨keep, hk, fun i => ?_⟩
  rw [hget i]
  simp only [validAsField]
  by_cases hv : f.valid.get i = true
  · simp [hv]
  · have hv' : f.valid.get i = false := by simpa using hv
    simp [hv']

/-! ## labels -/

theorem axisLabels_ok_inv (r : Region) (m : Rat) (lab : PlotCall) (h : axisLabels r m = .ok lab) :
    ∃ pre, rsiPrefix? m = some pre ∧
      lab = .labels (r.dims.getD 0 "" ++ " (" ++ pre ++ r.units.getD 0 "" ++ ")")
                    (r.dims.getD 1 "" ++ " (" ++ pre ++ r.units.getD 1 "" ++ ")") := by
  unfold axisLabels at h
  split at h
  · cases h
  · rename_i pre hp
    injection h with h
    exact ⟨pre, hp, h.symm⟩

theorem axisLabels_pos (r : Region) (m : Rat) (lab : PlotCall) (h : axisLabels r m = .ok lab) : 0 < m := by
  obtain ⟨pre, hp, _⟩ := axisLabels_ok_inv r m lab h
  exact rsiPrefix_pos m pre hp

/-! ## inversion of the plot functions -/

theorem scalarCore_ok_inv (f : Fld) (o : Opts) (m : Rat) (calls : List PlotCall)
    (h : scalarCore f o m = .ok calls) :
    ∃ ext keep lab, extent f.mesh.region m = .ok ext ∧ filterKeep f (filterOf f o) = .ok keep ∧
      axisLabels f.mesh.region m = .ok lab ∧
      calls = [.imshow (imgOf f.mesh.n keep fun i => (f.data.get i).getD 0 0) "lower" ext, lab] := by
  unfold scalarCore at h
  split at h
  · cases h
  · rename_i ext he
    split at h
    · cases h
    · rename_i keep hk
      split at h
      · cases h
      · rename_i lab hl
        injection h with h
        exact ⟨ext, keep, lab, he, hk, hl, h.symm⟩

theorem mplScalar_ok_inv (f : Fld) (o : Opts) (calls : List PlotCall) (h : mplScalar f o = .ok calls) :
    f.mesh.region.ndim = 2 ∧ f.nvdim ≤ 1 ∧
    ∃ m, setupMultiplier f o.mult = .ok m ∧ scalarCore f o m = .ok calls := by
  unfold mplScalar at h
  split at h
  · cases h
  · rename_i h1
    split at h
    · cases h
    · rename_i h2
      split at h
      · cases h
      · rename_i m hm
        exact ⟨not_not.mp h1, by omega, m, hm, h⟩

theorem mplContour_ok_inv (f : Fld) (o : Opts) (calls : List PlotCall) (h : mplContour f o = .ok calls) :
    f.mesh.region.ndim = 2 ∧ f.nvdim = 1 ∧
    ∃ m keep lab, setupMultiplier f o.mult = .ok m ∧ filterKeep f (filterOf f o) = .ok keep ∧
      axisLabels f.mesh.region m = .ok lab ∧
      calls = [.contour (pointsAx f.mesh 0 m) (pointsAx f.mesh 1 m)
                 (imgOf f.mesh.n keep fun i => (f.data.get i).getD 0 0), lab] := by
  unfold mplContour at h
  split at h
  · cases h
  · rename_i h1
    split at h
    · cases h
    · rename_i h2
      split at h
      · cases h
      · rename_i m hm
        split at h
        · cases h
        · rename_i keep hk
          split at h
          · cases h
          · rename_i lab hl
            injection h with h
            exact ⟨not_not.mp h1, not_not.mp h2, m, keep, lab, hm, hk, hl, h.symm⟩

theorem vectorCore_ok_inv (f : Fld) (o : Opts) (m : Rat) (calls : List PlotCall)
    (h : vectorCore f o m = .ok calls) :
    ∃ keep vd ax ay c lab, filterKeep f (validAsField f) = .ok keep ∧ vectorVdims f o = .ok vd ∧
      arrowIdx f (vd.getD 0 none) = .ok ax ∧ arrowIdx f (vd.getD 1 none) = .ok ay ∧
      (ax.isNone && ay.isNone) = false ∧ colourOf f o vd = .ok c ∧
      axisLabels f.mesh.region m = .ok lab ∧
      calls = [.quiver (pointsAx f.mesh 0 m) (pointsAx f.mesh 1 m) (arrowArr f keep ax)
                 (arrowArr f keep ay) c, lab] := by
  unfold vectorCore at h
  split at h
  · cases h
  · rename_i keep hk
    split at h
    · cases h
    · rename_i vd hvd
      split at h
      · cases h
      · rename_i ax hax
        split at h
        · cases h
        · rename_i ay hay
          split at h
          · cases h
          · rename_i hnn
            split at h
            · cases h
            · rename_i c hc
              split at h
              · cases h
              · rename_i lab hl
                injection h with h
                refine ⟨keep, vd, ax, ay, c, lab, hk, hvd, hax, hay, ?_, hc, hl, h.symm⟩
                cases hb : (ax.isNone && ay.isNone) with
                | false => rfl
                | true => exact absurd hb hnn

theorem mplVector_ok_inv (f : Fld) (o : Opts) (calls : List PlotCall) (h : mplVector f o = .ok calls) :
    f.mesh.region.ndim = 2 ∧ (o.vdimsArg.isNone && f.vmap.isEmpty) = false ∧
    ∃ m, setupMultiplier f o.mult = .ok m ∧ vectorCore f o m = .ok calls := by
  unfold mplVector at h
  split at h
  · cases h
  · rename_i h1
    split at h
    · cases h
    · rename_i h2
      split at h
      · cases h
      · rename_i m hm
        exact ⟨not_not.mp h1, by simpa using h2, m, hm, h⟩

end DFV.C20
