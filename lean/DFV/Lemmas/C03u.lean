import DFV.Lemmas.C03r
/-! C03 helper lemmas, part u: `norm` and `angle` accept fields on one mesh. -/
namespace DFV.C03
open DFV

/-- **`f.norm` is accepted**: an unlabelled scalar field with `f`'s unit -/
theorem normOp_accepts (sq : Rat → Rat) (M : Mesh) (f : CF) (hf : Good M f) :
    ∃ g, normOp sq f = .ok g ∧ Good M g ∧ g.nvdim = 1 ∧ g.vdims = none ∧ g.vmap = [] ∧ g.unit = f.unit ∧
      g.kind = f.kind.realOf.ctor := by
  obtain ⟨hwf, _, hmf⟩ := hf
  obtain ⟨g, hg, hgg, h1, h2, h3, h4, h5⟩ := mkField_scalar_accepts M
    ⟨f.data.shape.dropLast ++ [1], fun idx =>
      ⟨sq (sumTo (lastAx f.data.shape) fun c => GQ.ofRat (f.data.get (idx.dropLast ++ [c])).normSq).re, 0⟩⟩
    f.kind.realOf (some f.valid) f.unit (by show f.data.shape.dropLast ++ [1] = _; rw [hwf.1, hmf]; simp)
    (by intro v hv; injection hv with hv; subst hv; rw [hwf.2.1, hmf])
  refine ⟨g, ?_, hgg, h1, h2, h3, h4, h5⟩
  unfold normOp
  rw [hmf]; exact hg

/-- **`f.angle(g)` is accepted for two fields with equal component counts on one mesh**: an
unlabelled scalar field without mapping, unit `rad` -/
theorem angleOp_fld_accepts (sq acos : Rat → Rat) (M : Mesh) (hM : MeshOk M) (f o : CF) (hf : Good M f)
    (ho : Good M o) (hn : f.nvdim = o.nvdim) :
    ∃ g, angleOp sq acos f (.fld o) = .ok g ∧ Good M g ∧ g.nvdim = 1 ∧ g.vdims = none ∧ g.vmap = [] ∧
      g.unit = some "rad" ∧ g.kind = .float := by
  have hcs : checkSame f o false = .ok () :=
    checkSame_accepts f o false (by rw [hf.2.2, ho.2.2]; exact hM.2) (Or.inr hn)
  obtain ⟨d, hd, hdg, hdn, _⟩ := dotOp_fld_accepts M hM f o hf ho hn
  obtain ⟨n1, hn1, hn1g, hn1n, _⟩ := normOp_accepts sq M f hf
  obtain ⟨n2, hn2, hn2g, hn2n, _⟩ := normOp_accepts sq M o ho
  obtain ⟨p, hp, hpg, hpn, _⟩ := applyOperator_fld_accepts GQ.mul false M hM n1 n2 hn1g hn2g 1
    (by rw [hn1n, hn2n]; rfl) (by simp [negIntPow])
  obtain ⟨q, hq, hqg, hqn, _⟩ := applyOperator_fld_accepts GQ.div false M hM d p hdg hpg 1
    (by rw [hdn, hpn]; rfl) (by simp [negIntPow])
  obtain ⟨g, hg, hgg, h1, h2, h3, h4, h5⟩ := mkField_scalar_accepts M (q.data.map fun z => ⟨acos z.re, 0⟩) .float
    (some (NDA.zipWith (fun x y => x && y) f.valid o.valid)) (some "rad")
    (by show q.data.shape = _; rw [hqg.1.1, hqg.2.2, hqn])
    (by intro v hv; injection hv with hv; subst hv; show f.valid.shape = _; rw [hf.1.2.1, hf.2.2])
  refine ⟨g, ?_, hgg, h1, h2, h3, h4, h5⟩
  simp only [angleOp, angleVec, hcs, hd, hn1, hn2, hp, hq]
  rw [hf.2.2]; exact hg

end DFV.C03
