import Mathlib.Analysis.Real.Sqrt
import DFV.Lemmas.C15
/-!
`Real.sqrt` satisfies the `SqrtAt` hypothesis at every non-negative real, in particular
at every squared length: the C15 theorems hold for real-valued fields without any
"is a square" side condition.
-/
namespace DFV.C15

theorem real_sqrtAt {x : ℝ} (hx : 0 ≤ x) : SqrtAt Real.sqrt x :=
  ⟨Real.sqrt_nonneg x, Real.mul_self_sqrt hx⟩

theorem real_sqrtAt_sqLen (v : List ℝ) : SqrtAt Real.sqrt (sqLen v) := real_sqrtAt (sqLen_nonneg v)

theorem real_sqrtAt_mul_self (t : ℝ) : SqrtAt Real.sqrt (t * t) := real_sqrtAt (mul_self_nonneg t)

theorem real_sqrtAt_zero : SqrtAt Real.sqrt 0 := real_sqrtAt le_rfl

end DFV.C15
