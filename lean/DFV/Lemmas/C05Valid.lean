import DFV.Lemmas.C05RotK
/-! the validity array of every result of `grad` / `div` / `curl` / `laplace` has the shape of the
operand's validity array (the `valid.shape` twins of the `*_shape` lemmas of `C05Rot.lean`); needed
to say where `np.rot90` takes the validity flags of a turned result from -/
set_option linter.unusedSimpArgs false
set_option linter.unusedVariables false
namespace DFV.C05
open DFV DFV.C04

theorem binop_vshape {op : Rat → Rat → Rat} {a b g : Fld} (h : binop op a b = .ok g) : g.valid.shape = a.valid.shape := by
  rw [(binop_ok h).2.2.2.1]; rfl

theorem addNum_vshape {a g : Fld} {q : Rat} (h : addNum a q = .ok g) : g.valid.shape = a.valid.shape := by
  rw [(addNum_ok h).2.2.1]

theorem sumGo_vshape (ts : List Fld) : ∀ (acc g : Fld), sumGo acc ts = .ok g → g.valid.shape = acc.valid.shape := by
  induction ts with
  | nil => intro acc g h; simp only [sumGo] at h; injection h with h; subst h; rfl
  | cons t ts ih =>
    intro acc g h
    simp only [sumGo] at h
    split at h
    · cases h
    · rename_i r hr
      rw [ih r g h, binop_vshape hr]

theorem sumF_vshape {ts : List Fld} {g : Fld} (h : sumF ts = .ok g) :
    ∃ t0, ts.head? = some t0 ∧ g.valid.shape = t0.valid.shape := by
  cases ts with
  | nil => simp [sumF] at h
  | cons t ts =>
    simp only [sumF] at h
    split at h
    · cases h
    · rename_i acc hacc
      exact ⟨t, rfl, by rw [sumGo_vshape ts acc g h, addNum_vshape hacc]⟩

theorem lshift_vshape {a b g : Fld} (h : lshift a b = .ok g) : g.valid.shape = a.valid.shape := by
  rw [(lshift_ok h).2.2.2.1]; rfl

theorem stackGo_vshape (ds : List Fld) : ∀ (acc g : Fld), stackGo acc ds = .ok g → g.valid.shape = acc.valid.shape := by
  induction ds with
  | nil => intro acc g h; simp only [stackGo] at h; injection h with h; subst h; rfl
  | cons d ds ih =>
    intro acc g h
    simp only [stackGo] at h
    split at h
    · cases h
    · rename_i r hr
      rw [ih r g h, lshift_vshape hr]

theorem diffDim_valid {f g : Fld} {d : String} {o : Nat} (h : diffDim f d o = .ok g) : g.valid = f.valid := by
  unfold diffDim at h
  split at h
  · cases h
  · split at h
    · cases h
    · exact (diff_ok h).2.2.1

theorem getComp_valid {f g : Fld} {l : String} (h : getComp f l = .ok g) : g.valid = f.valid := by
  cases hk : f.vdimIndex l with
  | none => simp only [getComp, hk] at h; cases h
  | some k => exact (getComp_ok hk h).2.2.1

theorem laplace_scalar_vshape {f g : Fld} (hn : f.nvdim = 1) (h : laplace f = .ok g) : g.valid.shape = f.valid.shape := by
  unfold laplace at h
  rw [if_pos hn] at h
  split at h
  · cases h
  · rename_i ts hts
    obtain ⟨t0, h0, hs⟩ := sumF_vshape h
    rw [hs]
    obtain ⟨l, e⟩ := mapE_ok _ _ _ hts
    cases ts with
    | nil => simp at h0
    | cons t ts' =>
      simp at h0; subst h0
      have := e 0 (by rw [← l]; simp) (by simp)
      exact congrArg NDA.shape (diffDim_valid this)

theorem grad_vshape {f g : Fld} (h : grad f = .ok g) : g.valid.shape = f.valid.shape := by
  unfold grad at h
  split at h
  · cases h
  · split at h
    · cases h
    · rename_i ds hds
      obtain ⟨l, e⟩ := mapE_ok _ _ _ hds
      cases ds with
      | nil => simp [stack] at h
      | cons d0 ds' =>
        simp only [stack] at h
        rw [stackGo_vshape ds' d0 g h]
        have := e 0 (by rw [← l]; simp) (by simp)
        exact congrArg NDA.shape (diffDim_valid this)

theorem div_vshape {f g : Fld} (h : div f = .ok g) : g.valid.shape = f.valid.shape := by
  unfold div at h
  split at h
  · cases h
  · split at h
    · cases h
    · rename_i vs hvs
      split at h
      · cases h
      · split at h
        · cases h
        · rename_i ts hts
          obtain ⟨t0, h0, hs⟩ := sumF_vshape h
          rw [hs]
          obtain ⟨l, e⟩ := mapE_ok _ _ _ hts
          cases ts with
          | nil => simp at h0
          | cons t ts' =>
            simp at h0; subst h0
            have hpos : 0 < vs.length := by rw [← l]; simp
            have h00 := e 0 hpos (by simp)
            simp only [List.getElem_cons_zero] at h00
            unfold divTerm at h00
            split at h00
            · cases h00
            · split at h00
              · cases h00
              · rename_i comp hcomp
                rw [diffDim_valid h00, getComp_valid hcomp]

theorem curlComp_vshape {f t : Fld} {d1 e1 d2 e2 : String} (h : curlComp f d1 e1 d2 e2 = .ok t) :
    t.valid.shape = f.valid.shape := by
  unfold curlComp compOfDim at h
  split at h
  · cases h
  · rename_i k1 hk1
    split at h
    · cases h
    · rename_i t1 ht1
      split at h
      · cases h
      · split at h
        · cases h
        · rw [binop_vshape h, diffDim_valid ht1]
          cases hq : rDimLast f d1 with
          | none => rw [hq] at hk1; cases hk1
          | some l => rw [hq] at hk1; rw [getComp_valid hk1]

theorem curl_vshape {f g : Fld} (h : curl f = .ok g) : g.valid.shape = f.valid.shape := by
  unfold curl at h
  split at h
  · cases h
  · split at h
    · cases h
    · split at h
      · cases h
      · split at h
        · split at h
          · cases h
          · rename_i cx hcx
            split at h
            · cases h
            · split at h
              · cases h
              · split at h
                · cases h
                · rename_i cxy hcxy
                  rw [lshift_vshape h, lshift_vshape hcxy, curlComp_vshape hcx]
        · cases h

theorem lapComp_vshape {f t : Fld} {v : String} (h : lapComp f v = .ok t) : t.valid.shape = f.valid.shape := by
  unfold lapComp at h
  split at h
  · cases h
  · rename_i ts hts
    obtain ⟨t0, h0, hs⟩ := sumF_vshape h
    rw [hs]
    obtain ⟨l, e⟩ := mapE_ok _ _ _ hts
    cases ts with
    | nil => simp at h0
    | cons t1 ts' =>
      simp at h0; subst h0
      have hpos : 0 < f.mesh.region.dims.length := by rw [← l]; simp
      have h00 := e 0 hpos (by simp)
      simp only [List.getElem_cons_zero] at h00
      split at h00
      · cases h00
      · rename_i c hc
        rw [diffDim_valid h00, getComp_valid hc]

theorem laplace_vector_vshape {f g : Fld} {vs : List String} (hn : 2 ≤ f.nvdim) (hv : f.vdims = some vs)
    (hvl : vs.length = f.nvdim) (h : laplace f = .ok g) : g.valid.shape = f.valid.shape := by
  unfold laplace at h
  have h1 : ¬ (f.nvdim = 1) := by omega
  rw [if_neg h1, hv] at h
  simp only [] at h
  split at h
  · cases h
  rename_i ds hds
  obtain ⟨l, e⟩ := mapE_ok _ _ _ hds
  split at h
  · cases h
  rename_i r hst
  split at h
  · cases h
  rename_i r' hsv
  have hne : vs ≠ [] := by intro he; subst he; simp at hvl; omega
  obtain ⟨_, _, _, t4, _, _⟩ := lapTail_ok hne hsv h
  rw [t4]
  cases ds with
  | nil => simp [stack] at hst
  | cons d0 ds' =>
    simp only [stack] at hst
    rw [stackGo_vshape ds' d0 r hst]
    have hpos : 0 < vs.length := by omega
    have h00 := e 0 hpos (by simp)
    simp only [List.getElem_cons_zero] at h00
    exact lapComp_vshape h00
end DFV.C05
