import DFV.Lemmas.C03Arr
/-! C03 helper lemmas: algebraic laws of elementwise trees.  Two accepted elementwise trees whose
trees of scalars agree at every index (and whose component lists have the same length) are the
same field cell by cell; the ring laws of the Gaussian rationals lift to whole subtrees. -/
namespace DFV.C03
open DFV

/-! ## ring laws of `GQ` -/

namespace GQ

theorem add_assoc' (a b c : GQ) : add (add a b) c = add a (add b c) := by
  apply ext' <;> simp only [add] <;> ring

theorem mul_assoc' (a b c : GQ) : mul (mul a b) c = mul a (mul b c) := by
  apply ext' <;> simp only [mul] <;> ring

theorem mul_add' (a b c : GQ) : mul a (add b c) = add (mul a b) (mul a c) := by
  apply ext' <;> simp only [mul, add] <;> ring

theorem sub_eq_add_neg' (a b : GQ) : sub a b = add a (neg b) := by
  apply ext' <;> simp only [sub, add, neg] <;> ring

theorem re_im_recompose (z : GQ) : add (realPart z) (mul ⟨0, 1⟩ (imagPart z)) = z := by
  apply ext' <;> simp only [add, mul, realPart, imagPart] <;> ring

theorem conj_mul (a b : GQ) : conj (mul a b) = mul (conj a) (conj b) := by
  apply ext' <;> simp only [conj, mul] <;> ring

theorem conj_add (a b : GQ) : conj (add a b) = add (conj a) (conj b) := by
  apply ext' <;> simp only [conj, add] <;> ring

theorem sub_self' (a : GQ) : sub a a = zero := by
  apply ext' <;> simp only [sub, zero] <;> ring

theorem mul_one' (a : GQ) : mul a ⟨1, 0⟩ = a := by
  apply ext' <;> simp only [mul] <;> ring

theorem add_zero' (a : GQ) : add a ⟨0, 0⟩ = a := by
  apply ext' <;> simp only [add] <;> ring

end GQ

/-! ## lengths of broadcast component lists -/

/-- length of `bz f xs ys` from the lengths of `xs`, `ys` -/
def bl (x y : Nat) : Nat := if x = 1 then y else x

theorem bz_length_bl (f : GQ → GQ → GQ) (xs ys : List GQ) : (bz f xs ys).length = bl xs.length ys.length :=
  bz_length f xs ys

theorem bl_assoc (a b c : Nat) : bl (bl a b) c = bl a (bl b c) := by
  unfold bl
  by_cases ha : a = 1
  · simp [ha]
  · simp [ha]

theorem bl_distrib (a b c : Nat) : bl a (bl b c) = bl (bl a b) (bl a c) := by
  unfold bl
  by_cases ha : a = 1
  · simp [ha]
  · simp [ha]

theorem bl_one_right (a : Nat) : bl a 1 = a := by
  unfold bl
  by_cases ha : a = 1
  · simp [ha]
  · simp [ha]

/-! ## extensionality through the tree of scalars -/

/-- **two accepted elementwise trees with the same tree of scalars are the same field, cell by
cell** (given that their component lists have the same length) -/
theorem scalar_ext (env : Env) (n : List Nat) (hwf : ∀ f ∈ env.fields, CFwf f ∧ f.mesh.n = n)
    (e1 e2 : Expr) (hel1 : e1.elementwise = true) (hel2 : e2.elementwise = true) (g1 g2 : CF)
    (h1 : evalF env e1 = .ok (.fld g1)) (h2 : evalF env e2 = .ok (.fld g2))
    (hlen : ∀ i, (evalCell env e1 i).length = (evalCell env e2 i).length)
    (hs : ∀ idx, scalarAt env e1 idx = scalarAt env e2 idx) :
    ∀ i, inRange n i = true →
      cellOf g1.data i g1.nvdim = cellOf g2.data i g2.nvdim ∧
      g1.valid.get i = validCell env e1 i ∧ g2.valid.get i = validCell env e2 i := by
  intro i hi
  obtain ⟨⟨_, _, hc1⟩, _⟩ := eval_good env n hwf e1 (.fld g1) (liftOk_of_elementwise n e1 hel1) h1
  obtain ⟨⟨_, _, hc2⟩, _⟩ := eval_good env n hwf e2 (.fld g2) (liftOk_of_elementwise n e2 hel2) h2
  have hw1 := widthOk_of_eval env n hwf e1 (.fld g1) hel1 h1
  have hw2 := widthOk_of_eval env n hwf e2 (.fld g2) hel2 h2
  refine ⟨?_, (hc1 i hi).2, (hc2 i hi).2⟩
  rw [(hc1 i hi).1, (hc2 i hi).1]
  apply List.ext_getElem (hlen i)
  intro c hc1' hc2'
  have s1 := evalCell_scalar env n hwf i hi e1 hel1 hw1 c (Or.inl hc1')
  have s2 := evalCell_scalar env n hwf i hi e2 hel2 hw2 c (Or.inl hc2')
  have e : compAt (evalCell env e1 i) c = compAt (evalCell env e2 i) c := by rw [s1, s2, hs]
  unfold compAt at e
  rw [hlen i] at e
  by_cases hone : (evalCell env e2 i).length = 1
  · rw [if_pos hone] at e
    have hc0 : c = 0 := by omega
    subst hc0
    rw [List.getD_eq_getElem?_getD, List.getD_eq_getElem?_getD, List.getElem?_eq_getElem hc1',
      List.getElem?_eq_getElem hc2'] at e
    exact e
  · rw [if_neg hone] at e
    rw [List.getD_eq_getElem?_getD, List.getD_eq_getElem?_getD, List.getElem?_eq_getElem hc1',
      List.getElem?_eq_getElem hc2'] at e
    exact e

end DFV.C03
