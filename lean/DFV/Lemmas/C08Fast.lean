import DFV.Lemmas.C08Wf
import Mathlib.Tactic.FieldSimp
import Mathlib.Tactic.Push
/-! C08 helper lemmas, part 19: the closed form of the nearest-cell map of `resample` on uniform
axes — the nearest centre is the centre of the cell that contains the point. -/
namespace DFV.C08
open DFV

theorem absR_le_iff (a b : Rat) : absR a ≤ b ↔ a ≤ b ∧ -a ≤ b := by
  unfold absR
  split
  · constructor
    · intro h; exact ⟨by linarith, h⟩
    · intro h; exact h.2
  · constructor
    · intro h; exact ⟨h, by linarith⟩
    · intro h; exact h.1

/-- on a uniform axis the nearest centre is the centre of the cell that contains the point (a
point on a border goes to the upper cell): for `q ≤ x·n < q + 1` the search up to `m` returns
`min m q` -/
theorem nearestUpTo_closed (n : Nat) (hn : 0 < n) (x : Rat) (q : Nat) (hq1 : (q : Rat) ≤ x * n)
    (hq2 : x * n < (q : Rat) + 1) : ∀ m, nearestUpTo (centre01 n) x m = min m q := by
  have hnq : (0 : Rat) < (n : Rat) := by exact_mod_cast hn
  have hc : ∀ k : Nat, centre01 n k - x = (1 / (n : Rat)) * (((k : Rat) + 1 / 2) - x * n) := by
    intro k; unfold centre01; field_simp
  have hE : (0 : Rat) < 1 / (n : Rat) := one_div_pos.mpr hnq
  intro m
  induction m with
  | zero => simp [nearestUpTo]
  | succ k ih =>
    simp only [nearestUpTo, ih, hc, absR_scale _ _ hE]
    by_cases c : k + 1 ≤ q
    · have hr : min k q = k := by omega
      have hqk : ((k : Rat) + 1) ≤ (q : Rat) := by exact_mod_cast c
      rw [hr, if_pos, Nat.min_eq_left c]
      apply mul_le_mul_of_nonneg_left _ (le_of_lt hE)
      rw [absR_le_iff]
      have h2 : absR ((k : Rat) + 1 / 2 - x * n) = x * n - ((k : Rat) + 1 / 2) := by
        unfold absR; rw [if_pos (by linarith)]; ring
      rw [h2]
      push_cast
      constructor <;> linarith
    · have hr : min k q = q := by omega
      have hqk : (q : Rat) ≤ (k : Rat) := by exact_mod_cast (by omega : q ≤ k)
      rw [hr, if_neg, Nat.min_eq_right (by omega)]
      intro hle
      have hle' := le_of_mul_le_mul_left hle hE
      have h1 : absR (((k + 1 : Nat) : Rat) + 1 / 2 - x * n) = ((k : Rat) + 1) + 1 / 2 - x * n := by
        unfold absR; rw [if_neg (by push_cast; linarith)]; push_cast; ring
      rw [h1] at hle'
      have h2 : absR ((q : Rat) + 1 / 2 - x * n) ≤ 1 / 2 := by
        rw [absR_le_iff]; constructor <;> linarith
      linarith

theorem nearest_eq_fast (n n' j : Nat) (hn : 0 < n) (hn' : 0 < n') : nearest n n' j = nearestFast n n' j := by
  unfold nearest nearestFast
  apply nearestUpTo_closed n hn
  · -- q ≤ x n
    have hdiv : 2 * n' * (((2 * j + 1) * n) / (2 * n')) ≤ (2 * j + 1) * n := Nat.mul_div_le _ _
    have hq : ((2 * n' * (((2 * j + 1) * n) / (2 * n')) : Nat) : Rat) ≤ (((2 * j + 1) * n : Nat) : Rat) := by exact_mod_cast hdiv
    have hn'q : (0 : Rat) < (n' : Rat) := by exact_mod_cast hn'
    unfold centre01
    rw [div_mul_eq_mul_div, le_div_iff₀ hn'q]
    push_cast at hq ⊢
    linarith
  · have hlt : (2 * j + 1) * n < 2 * n' * (((2 * j + 1) * n) / (2 * n') + 1) := Nat.lt_mul_div_succ _ (by omega)
    have hq : ((((2 * j + 1) * n : Nat)) : Rat) < ((2 * n' * (((2 * j + 1) * n) / (2 * n') + 1) : Nat) : Rat) := by exact_mod_cast hlt
    have hn'q : (0 : Rat) < (n' : Rat) := by exact_mod_cast hn'
    unfold centre01
    rw [div_mul_eq_mul_div, div_lt_iff₀ hn'q]
    push_cast at hq ⊢
    linarith

/-- `resample` evaluated through the closed form is the mapping operation `resample` -/
theorem resampleFast_eq {α} (x : NDA α) (n' : List Nat) (fill : α) (hok : (MapOp.resample n').ok x.shape = true) :
    (resampleFast x n').shape = ((MapOp.resample n').apply x fill).shape ∧
    ∀ j, (resampleFast x n').get j = ((MapOp.resample n').apply x fill).get j := by
  refine ⟨rfl, fun j => ?_⟩
  show x.get _ = x.get (tab x.shape.length fun b => nearest (x.shape.getD b 0) (n'.getD b 0) (j.getD b 0))
  congr 1
  apply tab_congr
  intro b hb
  simp only [MapOp.ok, Bool.and_eq_true, decide_eq_true_eq] at hok
  have := (allLt_iff _ _).mp hok.2 b hb
  simp only [Bool.and_eq_true, decide_eq_true_eq] at this
  exact (nearest_eq_fast _ _ _ this.2 this.1).symm

end DFV.C08
