import DFV.Lemmas.C16Scan
import DFV.Lemmas.C16Reader
/-! C16 helper lemmas, part 15: when the reader accepts (exactly), in terms of the parts its
name loop extracts; the mesh it builds from three-axis bounds. -/
namespace DFV.C16
open DFV DFV.Mesh

theorem mkN?_plain3 (r : Region) (n : List Nat) (hd : r.dims = ["x", "y", "z"]) (hl : n.length = r.ndim) (hn : ∀ k ∈ n, k ≠ 0) :
    Mesh.mkN? r n = .ok { region := r, n := n, bc := "", subs := [] } := by
  unfold Mesh.mkN?
  rw [if_neg (by simp [hl])]
  have hz : (n.any fun x => decide (x = 0)) = false := by
    rw [List.any_eq_false]
    intro k hk
    simpa using hn k hk
  rw [hz]
  simp [toLower_empty, bcOk]

/-- `Mesh(p1, p2, n)` on three-axis bounds: accepted exactly when no edge is empty and there are
three positive counts; the result has the normalised corners -/
theorem meshOf_ok_iff3 (p1 p2 : List Rat) (n : List Nat) (h1 : p1.length = 3) (h2 : p2.length = 3) :
    ((∃ m, meshOf p1 p2 n = .ok m) ↔ ((∀ a, a < 3 → p1.getD a 0 ≠ p2.getD a 0) ∧ n.length = 3 ∧ ∀ k ∈ n, k ≠ 0)) ∧
    (∀ m, meshOf p1 p2 n = .ok m → m = boundsMesh p1 p2 n) := by
  have hmk : ∀ (hne : ∀ a, a < 3 → p1.getD a 0 ≠ p2.getD a 0),
      Region.mk? p1 p2 none none = .ok (boundsMesh p1 p2 n).region := by
    intro hne
    have hall : allLt p1.length (fun a => decide (p1.getD a 0 ≠ p2.getD a 0)) = true := by
      rw [allLt_iff]; intro a ha
      simpa using hne a (by omega)
    unfold Region.mk?
    rw [if_neg (by omega), if_neg (by omega)]
    simp only [Region.dimsOk, Region.unitsOk, hall]
    simp only [Bool.not_true, Bool.false_eq_true, if_false, boundsMesh, plainRegion, h1]
    rfl
  have hmkE : (¬ ∀ a, a < 3 → p1.getD a 0 ≠ p2.getD a 0) → ∃ e, Region.mk? p1 p2 none none = .error e := by
    intro hne
    have hall : allLt p1.length (fun a => decide (p1.getD a 0 ≠ p2.getD a 0)) = false := by
      cases hc : allLt p1.length (fun a => decide (p1.getD a 0 ≠ p2.getD a 0)) with
      | false => rfl
      | true =>
        exfalso; apply hne
        intro a ha
        have := (allLt_iff _ _).mp hc a (by omega)
        simpa using this
    unfold Region.mk?
    rw [if_neg (by omega), if_neg (by omega)]
    simp only [Region.dimsOk, Region.unitsOk, hall]
    exact ⟨_, rfl⟩
  have hnd : (boundsMesh p1 p2 n).region.ndim = 3 := by simp [boundsMesh, plainRegion, Region.ndim]
  constructor
  · constructor
    · rintro ⟨m, hm⟩
      by_cases hne : ∀ a, a < 3 → p1.getD a 0 ≠ p2.getD a 0
      · obtain ⟨g1, _, g3, g4, _, _⟩ := meshOf_spec _ _ _ _ hm
        exact ⟨hne, by omega, g4⟩
      · obtain ⟨e, he⟩ := hmkE hne
        unfold meshOf at hm
        rw [he] at hm
        cases hm
    · rintro ⟨hne, hl, hn⟩
      refine ⟨boundsMesh p1 p2 n, ?_⟩
      unfold meshOf
      rw [hmk hne]
      simp only
      exact mkN?_plain3 _ n rfl (by rw [hnd]; exact hl) hn
  · intro m hm
    by_cases hne : ∀ a, a < 3 → p1.getD a 0 ≠ p2.getD a 0
    · obtain ⟨g1, _, g3, g4, _, _⟩ := meshOf_spec _ _ _ _ hm
      unfold meshOf at hm
      rw [hmk hne] at hm
      simp only at hm
      rw [mkN?_plain3 _ n rfl (by rw [hnd]; omega) g4] at hm
      injection hm with hm
      exact hm.symm
    · obtain ⟨e, he⟩ := hmkE hne
      unfold meshOf at hm
      rw [he] at hm
      cases hm

theorem vdimsSet_ok_iff (dim : Nat) (labels : List String) :
    (∃ vd, vdimsSet dim (if labels.length ≠ dim then none else some labels) = .ok vd) ↔
      (labels.length = dim → hasDup labels = false) := by
  by_cases hl : labels.length = dim
  · rw [if_neg (not_not.mpr hl)]
    cases labels with
    | nil => simp [vdimsSet, hasDup]
    | cons x l =>
      simp only [vdimsSet, if_neg (not_not.mpr hl)]
      cases hd : hasDup (x :: l) with
      | false => simp
      | true =>
        simp only [if_true]
        constructor
        · rintro ⟨_, h⟩; cases h
        · intro h; cases h hl
  · rw [if_pos hl]
    simp only [vdimsSet]
    exact ⟨fun _ h => absurd h hl, fun _ => ⟨_, rfl⟩⟩

theorem validOfArr_ok_iff (n : List Nat) (va : Option VArr) :
    (∃ v, validOfArr n va = .ok v) ↔ ∀ a, va = some a → a.vals.length = natProd n := by
  cases va with
  | none => simp [validOfArr]
  | some a =>
    simp only [validOfArr, unflat3]
    by_cases h : a.vals.length = natProd n
    · rw [if_neg (not_not.mpr h)]
      simp [h]
    · rw [if_pos h]
      simp only [Option.some.injEq, forall_eq']
      constructor
      · rintro ⟨_, h'⟩; cases h'
      · intro h'; exact absurd h' h

theorem mkField_ok_iff (m : Mesh) (dim : Nat) (data : NDA (List Rat)) (valid : NDA Bool) (vin : Option (List String)) :
    (∃ f', mkField m dim data valid vin = .ok f') ↔ (1 ≤ dim ∧ ∃ vd, vdimsSet dim vin = .ok vd) := by
  unfold mkField
  by_cases hd : dim < 1
  · rw [if_pos hd]
    constructor
    · rintro ⟨_, h⟩; cases h
    · rintro ⟨h, _⟩; omega
  · rw [if_neg hd]
    cases hv : vdimsSet dim vin with
    | error e =>
      simp only
      constructor
      · rintro ⟨_, h⟩; cases h
      · rintro ⟨_, vd, h⟩; cases h
    | ok vd =>
      simp only
      exact ⟨fun _ => ⟨by omega, vd, rfl⟩, fun _ => ⟨_, rfl⟩⟩

/-- **the reader accepts exactly when** there is a `field` array with at least one component and
one tuple per cell, the `valid` array (if any) has one entry per cell, the bounds and counts make
a mesh, the side-car loads on it, and the label names (when they are as many as components) are
distinct -/
theorem fromParts_ok_iff (n : List Nat) (p1 p2 : List Rat) (fa va : Option VArr) (labels : List String)
    (sc : Option (List (String × Region))) :
    (∃ f', fromParts n p1 p2 fa va labels sc = .ok f') ↔
      ∃ a, fa = some a ∧ a.vals.length = natProd n * a.ncomp ∧ (∀ v, va = some v → v.vals.length = natProd n) ∧
        (∃ m0 m, meshOf p1 p2 n = .ok m0 ∧ loadSubs m0 sc = .ok m) ∧ 1 ≤ a.ncomp ∧
        (labels.length = a.ncomp → hasDup labels = false) := by
  cases fa with
  | none =>
    simp only [fromParts]
    constructor
    · rintro ⟨_, h⟩; cases h
    · rintro ⟨a, h, _⟩; cases h
  | some a =>
    simp only [fromParts, Option.some.injEq, exists_eq_left']
    by_cases hlen : a.vals.length = natProd n * a.ncomp
    · have hu : unflat4 n a.ncomp a.vals = .ok ((NDA.ofList (n.reverse ++ [a.ncomp]) a.vals 0).transpose [2, 1, 0, 3]) := by
        unfold unflat4; rw [if_neg (not_not.mpr hlen)]
      rw [hu]
      simp only
      cases hv : validOfArr n va with
      | error e =>
        simp only
        constructor
        · rintro ⟨_, h⟩; cases h
        · rintro ⟨_, h2, _⟩
          obtain ⟨v, hv'⟩ := (validOfArr_ok_iff n va).mpr h2
          rw [hv] at hv'; cases hv'
      | ok valid =>
        have h2 := (validOfArr_ok_iff n va).mp ⟨valid, hv⟩
        simp only
        cases hm : meshOf p1 p2 n with
        | error e =>
          simp only
          constructor
          · rintro ⟨_, h⟩; cases h
          · rintro ⟨_, _, ⟨m0, _, h, _⟩, _⟩; cases h
        | ok m0 =>
          simp only
          cases hs : loadSubs m0 sc with
          | error e =>
            simp only
            constructor
            · rintro ⟨_, h⟩; cases h
            · rintro ⟨_, _, ⟨m0', m, h, h'⟩, _⟩
              injection h with h
              subst h
              rw [hs] at h'; cases h'
          | ok m =>
            simp only
            rw [mkField_ok_iff, vdimsSet_ok_iff]
            constructor
            · rintro ⟨h3, h4⟩
              exact ⟨hlen, h2, ⟨m0, m, rfl, hs⟩, h3, h4⟩
            · rintro ⟨_, _, _, h3, h4⟩
              exact ⟨h3, h4⟩
    · have hu : unflat4 n a.ncomp a.vals = .error .value := by
        unfold unflat4; rw [if_pos hlen]
      rw [hu]
      simp only
      constructor
      · rintro ⟨_, h⟩; cases h
      · rintro ⟨h, _⟩; exact absurd h hlen

/-- sufficient conditions with the result spelt out (mesh, components, labels) -/
theorem fromParts_build (n : List Nat) (p1 p2 : List Rat) (a : VArr) (va : Option VArr) (labels : List String)
    (sc : Option (List (String × Region))) (m0 m1 : Mesh) (vd : Option (List String))
    (hlen : a.vals.length = natProd n * a.ncomp) (h1 : 1 ≤ a.ncomp)
    (hv : ∀ v, va = some v → v.vals.length = natProd n)
    (hm : meshOf p1 p2 n = .ok m0) (hs : loadSubs m0 sc = .ok m1)
    (hvd : vdimsSet a.ncomp (if labels.length ≠ a.ncomp then none else some labels) = .ok vd) :
    ∃ f', fromParts n p1 p2 (some a) va labels sc = .ok f' ∧ f'.mesh = m1 ∧ f'.nvdim = a.ncomp ∧ f'.vdims = vd ∧
      f'.unit = none := by
  obtain ⟨valid, hvalid⟩ := (validOfArr_ok_iff n va).mpr hv
  have hu : unflat4 n a.ncomp a.vals = .ok ((NDA.ofList (n.reverse ++ [a.ncomp]) a.vals 0).transpose [2, 1, 0, 3]) := by
    unfold unflat4; rw [if_neg (not_not.mpr hlen)]
  simp only [fromParts, hu, hvalid, hm, hs]
  rw [mkField_ok _ _ _ _ _ vd h1 hvd]
  exact ⟨_, rfl, rfl, rfl, rfl, rfl⟩

/-! ## the side-car loader, exactly -/

theorem loadSubs_ok_iff (m : Mesh) (l : List (String × Region)) (hinv : ∀ p ∈ l, p.2.Inv) :
    (∃ m1, loadSubs m (some l) = .ok m1) ↔ ∀ p ∈ l, T.candOk m p.2 = true := by
  constructor
  · rintro ⟨m1, h⟩ p hp
    cases hb : T.candOk m p.2 with
    | true => rfl
    | false =>
      exfalso
      unfold loadSubs at h
      simp only at h
      rw [mapE_ok _ id l (by
        intro q hq
        rw [regionKw_inv q.2 (hinv q hq)]
        rfl)] at h
      simp only [List.map_id] at h
      unfold T.setSubs at h
      have : (l.all fun p => T.candOk m p.2) = false := by
        rw [List.all_eq_false]
        exact ⟨p, hp, by simp [hb]⟩
      rw [this] at h
      cases h
  · intro h
    exact ⟨_, loadSubs_ok m l hinv h⟩

end DFV.C16
