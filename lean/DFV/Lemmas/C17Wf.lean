import Std.Data.String.ToNat
import DFV.Lemmas.C17Hist
/-! Whatever `from_xarray` returns is a well-formed field (inversion of the constructor chain),
for EVERY DataArray; the default labels are distinct. -/
namespace DFV.C17
open DFV

/-! ## default labels -/

theorem hasDup_false_iff (l : List String) : hasDup l = false ↔ l.Nodup := by
  induction l with
  | nil => simp [hasDup]
  | cons x xs ih =>
    simp only [hasDup, Bool.or_eq_false_iff, List.nodup_cons, ih]
    constructor
    · rintro ⟨h1, h2⟩
      refine ⟨?_, h2⟩
      intro hm
      have : xs.contains x = true := List.contains_iff_mem.mpr hm
      rw [this] at h1; cases h1
    · rintro ⟨h1, h2⟩
      refine ⟨?_, h2⟩
      cases hc : xs.contains x with
      | false => rfl
      | true => exact absurd (List.contains_iff_mem.mp hc) h1

theorem vlabel_inj (i j : Nat) (h : s!"v{i}" = s!"v{j}") : i = j := by
  have h' : "v" ++ toString i = "v" ++ toString j := h
  rw [String.append_right_inj] at h'
  exact Nat.repr_injective h'

/-- the constructor's default labels are `k` distinct strings -/
theorem defaultVdims_ok (k : Nat) (l : List String) (h : Fld.defaultVdims k = some l) :
    l.length = k ∧ hasDup l = false := by
  unfold Fld.defaultVdims at h
  split at h
  · cases h
  · next h1 =>
    split at h
    · next h3 =>
      injection h with h
      subst h
      have : k = 0 ∨ k = 2 ∨ k = 3 := by omega
      rcases this with rfl | rfl | rfl <;> exact ⟨rfl, by decide⟩
    · injection h with h
      subst h
      refine ⟨by simp, (hasDup_false_iff _).mpr ?_⟩
      rw [List.Nodup, List.pairwise_map]
      exact List.Pairwise.imp (fun {a b} hab hf => hab (vlabel_inj a b hf)) List.nodup_range

/-! ## inversion of the importer's steps -/

theorem checkNvdim_inv (nv : Option NvAttr) (dims : List String) (k : Nat) (h : checkNvdim nv dims = .ok k) :
    1 ≤ k ∧ nv = some (.int k) ∧ (1 < k → "vdims" ∈ dims) := by
  unfold checkNvdim at h
  split at h
  · cases h
  · split at h <;> cases h
  · next i =>
    split at h
    · cases h
    · next h1 =>
      split at h
      · cases h
      · next h2 =>
        injection h with h
        have hi : (i.toNat : Int) = i := Int.toNat_of_nonneg (by omega)
        refine ⟨by omega, ?_, ?_⟩
        · rw [← h, hi]
        · intro hk
          have : 1 < i := by omega
          have h3 : ¬ ¬ dims.contains "vdims" = true := fun hc => h2 ⟨this, hc⟩
          exact List.contains_iff_mem.mp (Classical.not_not.mp h3)

theorem dimsOk_inv (n : Nat) (d dd : List String) (h : Region.dimsOk n (some d) = .ok dd) :
    dd = d ∧ d.length = n ∧ hasDup d = false := by
  simp only [Region.dimsOk] at h
  split at h
  · cases h
  · next h1 =>
    split at h
    · cases h
    · next h2 =>
      injection h with h
      exact ⟨h.symm, by simpa using h1, by simpa using h2⟩

theorem unitsOk_inv (n : Nat) (u : Option (List String)) (uu : List String) (h : Region.unitsOk n u = .ok uu) :
    uu.length = n := by
  unfold Region.unitsOk at h
  split at h
  · injection h with h; rw [← h]; simp
  · split at h
    · cases h
    · next h1 => injection h with h; rw [← h]; simpa using h1

/-- `Region(p1, p2, dims, units)`, when it succeeds, returns a well-formed region with the
given names -/
theorem regionMk_inv (p1 p2 : List Rat) (d : List String) (units : Option (List String)) (tol : Rat) (r : Region)
    (h : Region.mk? p1 p2 (some d) units tol = .ok r) : r.Inv ∧ r.dims = d := by
  unfold Region.mk? at h
  split at h
  · cases h
  · next hl =>
    split at h
    · cases h
    · next h0 =>
      split at h
      · cases h
      · next dd hd =>
        split at h
        · cases h
        · next uu hu =>
          split at h
          · cases h
          · next hne =>
            injection h with h
            obtain ⟨e1, e2, e3⟩ := dimsOk_inv _ _ _ hd
            have e4 := unitsOk_inv _ _ _ hu
            have hne' : allLt p1.length (fun a => decide (p1.getD a 0 ≠ p2.getD a 0)) = true := by simpa using hne
            rw [allLt_iff] at hne'
            subst h
            refine ⟨⟨?_, ?_, ?_, ?_, ?_, ?_⟩, e1⟩
            · simp; omega
            · simp
            · simp [e1, e2]
            · simp [e4]
            · show hasDup dd = false
              rw [e1]; exact e3
            · intro a ha
              have ha' : a < p1.length := by simpa using ha
              have hx := of_decide_eq_true (hne' a ha')
              show (tab p1.length fun a => min (p1.getD a 0) (p2.getD a 0)).getD a 0
                < (tab p1.length fun a => max (p1.getD a 0) (p2.getD a 0)).getD a 0
              rw [getD_tab _ _ _ _ ha', getD_tab _ _ _ _ ha']
              apply min_lt_max_of_ne
              intro h0'
              apply hx
              linarith

/-- `Mesh(region, cell)`, when it succeeds, returns a mesh on that region with one positive
cell count per axis, no boundary conditions, no subregions -/
theorem mkCellNow_inv (r : Region) (cell : List Rat) (m : Mesh) (h : mkCellNow? r cell = .ok m) :
    m.region = r ∧ m.n.length = r.ndim ∧ (∀ a, a < r.ndim → 0 < m.nAt a) ∧ m.bc = "" ∧ m.subs = [] := by
  unfold mkCellNow? at h
  cases h0 : Mesh.mkCell? r cell "" with
  | error e => rw [h0] at h; cases h
  | ok m0 =>
    rw [h0] at h
    simp only [Except.bind] at h
    split at h
    · cases h
    · next hany =>
      injection h with h
      subst h
      unfold Mesh.mkCell? at h0
      split at h0
      · cases h0
      · split at h0
        · cases h0
        · split at h0
          · cases h0
          · split at h0
            · cases h0
            · split at h0
              · cases h0
              · split at h0
                · cases h0
                · injection h0 with h0
                  have hpos : ∀ x ∈ m0.n, 0 < x := by
                    intro x hx
                    apply Nat.pos_of_ne_zero
                    intro hc
                    apply hany
                    rw [List.any_eq_true]
                    exact ⟨x, hx, by simp [hc]⟩
                  have hlen : m0.n.length = r.ndim := by rw [← h0]; simp
                  refine ⟨by rw [← h0], hlen, ?_, by rw [← h0]; simp [String.toLower], by rw [← h0]⟩
                  intro a ha
                  have hmem : m0.nAt a ∈ m0.n := by
                    unfold Mesh.nAt
                    exact getD_mem _ _ _ (by rw [hlen]; exact ha)
                  exact hpos _ hmem

theorem asArray_shape {α} (val : NDA α) (n : List Nat) (k : Nat) (d : NDA α) (h : asArray val n k = .ok d) :
    d.shape = n ++ [k] := by
  unfold asArray at h
  split at h
  · next h1 => injection h with h; rw [← h, h1.1]
  · split at h
    · cases h
    · split at h
      · cases h
      · injection h with h; rw [← h]

/-- the default labels are not names of attributes of `Field` (`x`, `y`, `z`, `v0`, `v1`, …) -/
def DefaultsFree [FieldAttrs] : Prop :=
  ∀ k l, Fld.defaultVdims k = some l → l.any FieldAttrs.has = false

theorem vdimsSet_inv [FieldAttrs] (k : Nat) (vc vd : Option (List String)) (h : vdimsSet k vc = .ok vd)
    (hdef : vc = none → DefaultsFree) :
    ∀ l, vd = some l → l.length = k ∧ hasDup l = false ∧ l.any FieldAttrs.has = false := by
  intro l hl
  subst hl
  unfold vdimsSet at h
  split at h
  · injection h with h
    exact ⟨(defaultVdims_ok k l h).1, (defaultVdims_ok k l h).2, hdef rfl k l h⟩
  · cases h
  · next x xs =>
    split at h
    · cases h
    · next h1 =>
      split at h
      · cases h
      · next h2 =>
        split at h
        · cases h
        · next h3 =>
          injection h with h
          injection h with h
          subst h
          exact ⟨by simpa using h1, by simpa using h2, by simpa using h3⟩

theorem geo_names_novd {α} (xa : XA α) : ¬ "vdims" ∈ (geo xa).map Axis.name := by
  intro h
  obtain ⟨ax, hax, hn⟩ := List.mem_map.mp h
  unfold geo at hax
  have := (List.mem_filter.mp hax).2
  simp [hn] at this

theorem setTol_inv (m : Mesh) (t : Option Rat) (hm : m.Inv) : (setTol m t).Inv ∧ (setTol m t).n = m.n ∧
    (setTol m t).region.dims = m.region.dims ∧ (setTol m t).bc = m.bc ∧ (setTol m t).subs = m.subs := by
  cases t with
  | none => exact ⟨hm, rfl, rfl, rfl, rfl⟩
  | some t => exact ⟨hm, rfl, rfl, rfl, rfl⟩

section
variable [FieldAttrs] {α : Type}

omit [FieldAttrs] in
/-- the mesh the geometry steps return: well-formed, named after the geometric dimensions, no
boundary conditions, no subregions -/
theorem meshOf_inv (xa : XA α) (cell : List Rat) (m : Mesh) (h : meshOf xa cell = .ok m) :
    m.Inv ∧ m.region.dims = (geo xa).map Axis.name ∧ m.bc = "" ∧ m.subs = [] := by
  unfold meshOf at h
  cases h1 : p1Of xa cell with
  | error e => rw [h1] at h; cases h
  | ok p1 =>
    cases h2 : p2Of xa cell with
    | error e => rw [h1, h2] at h; cases h
    | ok p2 =>
      cases h3 : Region.mk? p1 p2 (some ((geo xa).map Axis.name)) (unitsOf xa) defaultTol with
      | error e => rw [h1, h2] at h; simp only [Except.bind] at h; rw [h3] at h; cases h
      | ok r =>
        cases h4 : mkCellNow? r cell with
        | error e => rw [h1, h2] at h; simp only [Except.bind] at h; rw [h3] at h; simp only [] at h; rw [h4] at h; cases h
        | ok m0 =>
          rw [h1, h2] at h; simp only [Except.bind] at h; rw [h3] at h; simp only [] at h; rw [h4] at h
          injection h with h
          obtain ⟨hr, hd⟩ := regionMk_inv _ _ _ _ _ _ h3
          obtain ⟨e1, e2, e3, e4, e5⟩ := mkCellNow_inv _ _ _ h4
          have hm0 : m0.Inv := by
            refine ⟨by rw [e1]; exact hr, by rw [e1]; exact e2, ?_⟩
            intro a ha
            have : a < r.ndim := by
              have : m0.ndim = r.ndim := by unfold Mesh.ndim; rw [e1]
              rw [← this]; exact ha
            exact e3 a this
          obtain ⟨s1, s2, s3, s4, s5⟩ := setTol_inv m0 xa.attrs.tol hm0
          rw [← h]
          exact ⟨s1, by rw [s3, e1, hd], by rw [s4, e4], by rw [s5, e5]⟩

omit [FieldAttrs] in
theorem geometryOf_inv (xa : XA α) (m : Mesh) (h : geometryOf xa = .ok m) :
    m.Inv ∧ m.region.dims = (geo xa).map Axis.name ∧ m.bc = "" ∧ m.subs = [] := by
  unfold geometryOf at h
  cases h1 : checkSpacing xa with
  | error e => rw [h1] at h; cases h
  | ok u =>
    cases h2 : cellOf xa with
    | error e => rw [h1] at h; simp only [Except.bind] at h; rw [h2] at h; cases h
    | ok cell =>
      rw [h1] at h; simp only [Except.bind] at h; rw [h2] at h
      exact meshOf_inv xa cell m h

theorem fieldOf_inv (xa : XA α) (m : Mesh) (k : Nat) (g : XFld α) (h : fieldOf xa m k = .ok g)
    (hdef : xa.vdimsCoord = none → DefaultsFree) :
    g.mesh = m ∧ g.nvdim = k ∧ g.data.shape = m.n ++ [k] ∧ g.dtype = xa.dtype ∧ g.unit = none ∧
    g.valid = NDA.const m.n true ∧
    (∀ l, g.vdims = some l → l.length = k ∧ hasDup l = false ∧ l.any FieldAttrs.has = false) := by
  unfold fieldOf at h
  cases h1 : asArray (valOf xa k) m.n k with
  | error e => rw [h1] at h; cases h
  | ok d1 =>
    cases h2 : asArray d1 m.n k with
    | error e => rw [h1] at h; simp only [Except.bind] at h; rw [h2] at h; cases h
    | ok d =>
      cases h3 : vdimsSet k xa.vdimsCoord with
      | error e => rw [h1] at h; simp only [Except.bind] at h; rw [h2] at h; simp only [] at h; rw [h3] at h; cases h
      | ok vd =>
        rw [h1] at h; simp only [Except.bind] at h; rw [h2] at h; simp only [] at h; rw [h3] at h
        simp only [] at h
        injection h with h
        rw [← h]
        exact ⟨rfl, rfl, asArray_shape _ _ _ _ h2, rfl, rfl, rfl, vdimsSet_inv k _ _ h3 hdef⟩

/-- **Every field `from_xarray` returns is well-formed** — for every DataArray -/
theorem fromXA_wf (xa : XA α) (g : XFld α) (h : fromXA xa = .ok g) (hdef : xa.vdimsCoord = none → DefaultsFree) :
    g.WF ∧ g.mesh.region.dims = (geo xa).map Axis.name ∧ g.mesh.bc = "" ∧ g.mesh.subs = [] ∧
    xa.attrs.nvdim = some (.int g.nvdim) ∧ g.dtype = xa.dtype ∧ g.unit = none ∧
    g.valid = NDA.const g.mesh.n true := by
  rw [fromXA_eq] at h
  cases h1 : checkNvdim xa.attrs.nvdim xa.dims with
  | error e => rw [h1] at h; cases h
  | ok k =>
    cases h2 : geometryOf xa with
    | error e => rw [h1] at h; simp only [Except.bind] at h; rw [h2] at h; cases h
    | ok m =>
      rw [h1] at h; simp only [Except.bind] at h; rw [h2] at h
      simp only [] at h
      obtain ⟨hk, hnv, -⟩ := checkNvdim_inv _ _ _ h1
      obtain ⟨hm, hd, hbc, hsub⟩ := geometryOf_inv xa m h2
      obtain ⟨f1, f2, f3, f4, f5, f6, f7⟩ := fieldOf_inv xa m k g h hdef
      refine ⟨⟨by rw [f1]; exact hm, by rw [f2]; exact hk, by rw [f3, f1, f2], ?_, by rw [f2]; exact f7⟩,
        by rw [f1]; exact hd, by rw [f1]; exact hbc, by rw [f1]; exact hsub, by rw [f2]; exact hnv, f4, f5,
        by rw [f6, f1]⟩
      rw [f1, hd]
      exact geo_names_novd xa

/-- a label that is the name of an attribute of `Field` makes the import fail -/
theorem fromXA_reserved (xa : XA α) (l : List String) (hv : xa.vdimsCoord = some l) (c : String)
    (hc : c ∈ l) (hr : FieldAttrs.has c = true) : ∃ e, fromXA xa = .error e := by
  rw [fromXA_eq]
  cases checkNvdim xa.attrs.nvdim xa.dims with
  | error e => exact ⟨e, rfl⟩
  | ok k =>
    cases geometryOf xa with
    | error e => exact ⟨e, rfl⟩
    | ok m =>
      simp only [Except.bind]
      unfold fieldOf
      cases asArray (valOf xa k) m.n k with
      | error e => exact ⟨e, rfl⟩
      | ok d1 =>
        simp only [Except.bind]
        cases asArray d1 m.n k with
        | error e => exact ⟨e, rfl⟩
        | ok d =>
          simp only []
          have : ∃ e, vdimsSet k xa.vdimsCoord = .error e := by
            rw [hv]
            cases l with
            | nil => cases hc
            | cons x l' =>
              have e : vdimsSet k (some (x :: l')) =
                  if (x :: l').length ≠ k then .error .value
                  else if hasDup (x :: l') then .error .value
                  else if (x :: l').any FieldAttrs.has then .error .value
                  else .ok (some (x :: l')) := rfl
              rw [e]
              split
              · exact ⟨_, rfl⟩
              · split
                · exact ⟨_, rfl⟩
                · have : (x :: l').any FieldAttrs.has = true := by
                    rw [List.any_eq_true]; exact ⟨c, hc, hr⟩
                  rw [if_pos this]
                  exact ⟨_, rfl⟩
          obtain ⟨e, he⟩ := this
          rw [he]
          exact ⟨e, rfl⟩

end
end DFV.C17
