import DFV.Lemmas.C07Meta
/-! The field operations of C07 as one step function, histories, and the fact that every
operation ends in the same constructor call. -/
namespace DFV.C07
open DFV DFV.Mesh

/-- one field-returning operation of the property -/
inductive FOp where
  | sel (dim : String) (arg : SelArg)
  | get (item : Item)
  | pad (pw : List PadW) (mode : PadMode)
  | resample (n : List Int)

/-- apply one operation (a plane selection of a 1-d field returns a bare value, not a field:
it ends a history) -/
def applyOp (f : Fld) : FOp → M Fld
  | .sel dim arg =>
    match selFld f dim arg with
    | .ok (.field g) => .ok g
    | .ok (.values _) => .error .value
    | .error e => .error e
  | .get item => getItem f item
  | .pad pw mode => padFld f pw mode
  | .resample n => resample f n

/-- the mesh-level counterpart of an operation -/
def applyMeshOp (m : Mesh) : FOp → M Mesh
  | .sel dim arg => selMesh m dim arg
  | .get item => getMesh m item
  | .pad pw _ => padMesh m pw
  | .resample n => Mesh.mkN? m.region (n.map Int.toNat)

/-- a history of operations -/
def runOps (f : Fld) : List FOp → M Fld
  | [] => .ok f
  | op :: rest =>
    match applyOp f op with
    | .error e => .error e
    | .ok g => runOps g rest

theorem runOps_cons_ok (f g : Fld) (op : FOp) (rest : List FOp) (h : applyOp f op = .ok g) :
    runOps f (op :: rest) = runOps g rest := by
  simp only [runOps, h]

theorem selFld_ctor (f : Fld) (dim : String) (arg : SelArg) (g : Fld)
    (h : selFld f dim arg = .ok (.field g)) :
    ∃ m d v, selMesh f.mesh dim arg = .ok m ∧ mkFld m f d v = .ok g := by
  unfold selFld at h
  split at h
  · cases h
  · rename_i ai hconv
    split at h
    · split at h
      · split at h
        · cases h
        · cases h
      · cases h
    · rename_i m hm
      split at h
      · cases h
      · rename_i g' hg'
        injection h with h
        injection h with h
        subst h
        exact ⟨m, _, _, hm, hg'⟩

theorem getItem_ctor (f : Fld) (item : Item) (g : Fld) (h : getItem f item = .ok g) :
    ∃ m d v, getMesh f.mesh item = .ok m ∧ mkFld m f d v = .ok g := by
  unfold getItem at h
  split at h
  · cases h
  · rename_i sm hsm
    split at h
    · cases h
    · split at h
      · cases h
      · exact ⟨sm, _, _, hsm, h⟩

theorem padFld_ctor (f : Fld) (pw : List PadW) (mode : PadMode) (g : Fld) (h : padFld f pw mode = .ok g) :
    ∃ m d v, padMesh f.mesh pw = .ok m ∧ mkFld m f d v = .ok g := by
  unfold padFld at h
  split at h
  · cases h
  · split at h
    · cases h
    · split at h
      · cases h
      · rename_i m hm
        exact ⟨m, _, _, hm, h⟩

theorem resample_ctor (f : Fld) (n : List Int) (g : Fld) (h : resample f n = .ok g) :
    ∃ m d v, Mesh.mkN? f.mesh.region (n.map Int.toNat) = .ok m ∧ mkFld m f d v = .ok g := by
  unfold resample at h
  split at h
  · cases h
  · split at h
    · cases h
    · split at h
      · cases h
      · rename_i m hm
        split at h
        · cases h
        · exact ⟨m, _, _, hm, h⟩

/-- every operation ends in the constructor call, on the mesh its mesh-level counterpart returns -/
theorem applyOp_ctor (f : Fld) (op : FOp) (g : Fld) (h : applyOp f op = .ok g) :
    ∃ m d v, applyMeshOp f.mesh op = .ok m ∧ mkFld m f d v = .ok g := by
  cases op with
  | sel dim arg =>
    cases hs : selFld f dim arg with
    | error e => simp only [applyOp, hs] at h; cases h
    | ok o =>
      cases o with
      | values v => simp only [applyOp, hs] at h; cases h
      | field g' =>
        simp only [applyOp, hs] at h
        injection h with h; subst h
        exact selFld_ctor f dim arg _ hs
  | get item => exact getItem_ctor f item g h
  | pad pw mode => exact padFld_ctor f pw mode g h
  | resample n => exact resample_ctor f n g h

end DFV.C07
