import DFV.Lemmas.C06CumComp
/-! Concrete instances for the non-vacuity examples of the second round (C06): a mesh with a
subregion the setter accepts only thanks to its tolerances, and a vector field whose components
are mapped to the directions (so that it can be turned). -/
namespace DFV.C06
open DFV DFV.T

/-- a box whose lower x face sits 1e-13 inside the cell face at x = 1 of `exFld`'s mesh -/
def exT0 : Region :=
  { pmin := [1 + 1/10000000000000, 1], pmax := [2, 3], dims := ["x", "y"], units := ["m", "m"], tol := 1/1000000000000 }

/-- `exFld` (2×3 cells of size 1×1 on [0,2]×[1,4]) with one subregion that does NOT fit the mesh
exactly -/
def exFldT : Fld := { exFld with mesh := { exFld.mesh with subs := [("t0", exT0)] } }

/-- the mesh `Mesh(region=t0, cell=mesh.cell)` the setter builds for it: 1 × 2 cells -/
def exO : Mesh := { region := canon exT0, n := [1, 2], bc := "", subs := [] }

theorem exFldT_wf : WF exFldT := ⟨exFld_wf.1, exFld_wf.2⟩

/-- the subregion passes the three checks of the setter … -/
theorem exFldT_acc : SubsAcc exFldT.mesh := by
  intro p hp
  have hp' : p = ("t0", exT0) := by simpa [exFldT] using hp
  subst hp'
  refine ⟨by decide +kernel, exO, by decide +kernel, by decide +kernel⟩

/-- … although it does not fit the mesh exactly -/
theorem exFldT_not_fit : ¬ SubsFit exFldT.mesh := by
  intro h
  obtain ⟨_, _, h3⟩ := h ("t0", exT0) (by simp [exFldT])
  obtain ⟨z, w, _, _, hlo, _⟩ := h3 0 (by decide)
  have hc : exFldT.mesh.cellAt 0 = 1 := by decide +kernel
  have hl : exFldT.mesh.region.lo 0 = 0 := by decide +kernel
  have ht : exT0.lo 0 = 1 + 1/10000000000000 := rfl
  rw [hc, hl] at hlo
  have hlo' : (1 + 1/10000000000000 : Rat) = (z : Rat) := by
    have : (("t0", exT0) : String × Region).2.lo 0 = 1 + 1/10000000000000 := ht
    rw [this] at hlo; linarith
  have h1 : (10000000000001 : Rat) = 10000000000000 * (z : Rat) := by rw [← hlo']; norm_num
  have h2 : (10000000000001 : Nat) = 10000000000000 * z := by exact_mod_cast h1
  omega

/-- `exFld` with its two components mapped to the two directions: a vector field that can be turned -/
def exFldV : Fld := { exFld with vmap := [("x", "x"), ("y", "y")] }

theorem exFldV_wf : WF exFldV := ⟨exFld_wf.1, exFld_wf.2⟩
theorem exFldV_cellLen : CellLen exFldV := fun _ _ => rfl
theorem exFldV_finv : FInv exFldV :=
  ⟨⟨exFld_wf.1, exFld_wf.2, rfl⟩, fun p hp => by simp [exFldV, exFld] at hp, bcWf_of_plain _ (Or.inl rfl)⟩

/-- every quarter turn of `exFldV` in the x-y plane about a 2-d reference point (or the centre) is accepted -/
theorem exFldV_turn_ok (k : Int) (ref : Option (List Rat)) (hr : (ref.getD exFldV.mesh.region.center).length = 2) (b : Bool) :
    ∃ x g, rotate90F exFldV "x" "y" k ref b = .ok (x, g) := by
  rw [rotate90F_ok_iff exFldV exFldV_finv]
  rintro (h | ⟨_, h⟩)
  · rcases h with h | h | ⟨e, h⟩ | ⟨e, h⟩
    · exact absurd h (by decide)
    · exact h hr
    · have : exFldV.mesh.region.dim2index "x" = .ok 0 := by decide
      rw [this] at h; cases h
    · have : exFldV.mesh.region.dim2index "y" = .ok 1 := by decide
      rw [this] at h; cases h
  · rcases h with h | h <;> exact absurd h (by decide)

end DFV.C06
