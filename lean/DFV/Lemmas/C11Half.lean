import DFV.Lemmas.C11Irf
/-!
C11: `irfftn` as a sum over the STORED half spectrum only (the c2r form): every stored entry
contributes `A[m]·e^{+iθ}`, and every entry with last index `0 < l < ⌈n/2⌉` contributes in addition
`conj(A[m])·e^{-iθ}` (the entry of the Hermitian extension it stands for).
-/
namespace DFV.C11
open DFV

variable {R : Type} [CommRing R]

/-! ### invariance of box sums under the partial shifts and the mirror map -/

omit [CommRing R] in
theorem ishiftR_cons (n : Nat) (ns : List Nat) (j : Nat) (js : List Nat) :
    ishiftR (n :: ns) (j :: js) = (if js = [] then j else (j + n / 2) % n) :: ishiftR ns js := by
  unfold ishiftR
  rw [List.length_cons, tab_succ']
  congr 1
  · simp only [List.getD_cons_zero]
    by_cases h : js = []
    · subst h; simp
    · have : ¬ (0 + 1 = js.length + 1) := by
        intro e; apply h; exact List.eq_nil_of_length_eq_zero (by omega)
      rw [if_neg this, if_neg h]
  · apply tab_congr
    intro a _
    simp only [List.getD_cons_succ]
    by_cases h : a + 1 = js.length
    · rw [if_pos h, if_pos (by omega)]
    · rw [if_neg h, if_neg (by omega)]

theorem sumBox_ishiftR (ns : List Nat) (g : List Nat → R) :
    sumBox ns (fun m => g (ishiftR ns m)) = sumBox ns g := by
  induction ns generalizing g with
  | nil => simp [sumBox, ishiftR, tab]
  | cons n ns ih =>
    simp only [sumBox]
    by_cases hns : ns = []
    · subst hns
      simp only [sumBox]
      apply sumN_congr
      intro r _
      rw [ishiftR_cons]
      simp [ishiftR, tab]
    · have step : ∀ r, sumBox ns (fun rs => g (ishiftR (n :: ns) (r :: rs)))
          = sumBox ns (fun rs => g (((r + n / 2) % n) :: rs)) := by
        intro r
        rw [← ih (fun rs => g (((r + n / 2) % n) :: rs))]
        apply sumBox_congr
        intro rs hrs
        have hne : rs ≠ [] := by
          intro e
          apply hns
          have := inRange_length _ _ hrs
          rw [e] at this
          exact List.eq_nil_of_length_eq_zero this.symm
        rw [ishiftR_cons, if_neg hne]
      rw [sumN_congr n _ _ (fun r _ => step r)]
      exact sumN_rotate n (n / 2) (Nat.div_le_self n 2) (fun r' => sumBox ns fun rs => g (r' :: rs))

/-- a sum over the full box does not change under the mirror map -/
theorem sumBox_mirrorR (s : List Nat) (g : List Nat → R) : sumBox s (fun m => g (mirrorR s m)) = sumBox s g := by
  unfold mirrorR
  rw [sumBox_fshiftR s (fun k => g (ishiftR s (negIdx s k))), sumBox_negIdx s (fun k => g (ishiftR s k)),
    sumBox_ishiftR]

/-! ### the phase of the mirror cell is the conjugate phase -/

theorem twProd_swap_negIdx (ρs : List (Root R)) (ns : List Nat) (hρ : Roots ns ρs) (k j : List Nat)
    (hk : inRange ns k = true) : twProd (ρs.map Root.swap) ns (negIdx ns k) j = twProd ρs ns k j := by
  induction ns generalizing ρs k j with
  | nil => simp [twProd]
  | cons n ns ih =>
    cases k with
    | nil => simp [inRange] at hk
    | cons k0 ks =>
      rw [inRange_cons] at hk
      obtain ⟨hr, hrs⟩ := hρ
      simp only [negIdx, twProd, List.headD_cons, List.tail_cons]
      rw [headD_swap, tail_swap, ih ρs.tail hrs ks j.tail hk.2]
      congr 1
      show tw (ρs.headD ⟨1, 1, 1⟩).wi n ((n - k0 % n) % n) (j.headD 0) = _
      rw [tw_eq _ _ _ _ hr.wi_pow_n, tw_eq _ _ _ _ hr.pow_n]
      exact tw_neg hr k0 (j.headD 0) hk.1

theorem phaseR_mirrorR (ρs : List (Root R)) (s : List Nat) (hρ : Roots s ρs) (m j : List Nat)
    (hm : inRange s m = true) : phaseR (ρs.map Root.swap) s (mirrorR s m) j = phaseR ρs s m j := by
  rw [← twProd_fshiftR_full _ s (Roots.swap s ρs hρ) _ j (mirrorR_inRange s m hm), fshiftR_mirrorR s m hm,
    twProd_swap_negIdx ρs s hρ _ j (fshiftR_inRange_full s m hm), twProd_fshiftR_full ρs s hρ m j hm]

/-! ### restriction of a box sum to the half box -/

theorem sumN_restrict (n h : Nat) (hh : h ≤ n) (f : Nat → R) (h0 : ∀ i, h ≤ i → i < n → f i = 0) :
    sumN n f = sumN h f := by
  have : n = h + (n - h) := by omega
  rw [this, sumN_split]
  have : sumN (n - h) (fun i => f (h + i)) = 0 := by
    rw [sumN_congr (n - h) _ (fun _ => 0) (fun i hi => h0 (h + i) (by omega) (by omega)), sumN_zero]
  rw [this, add_zero]

theorem getLastD_cons_ne (x : Nat) (xs : List Nat) (h : xs ≠ []) : (x :: xs).getLastD 0 = xs.getLastD 0 := by
  cases xs with
  | nil => exact absurd rfl h
  | cons y ys => simp

/-- a function that vanishes on the cells with last index beyond `⌊n/2⌋` is summed over the half box -/
theorem sumBox_half (s : List Nat) (hpos : 0 < s.getLastD 0) (f : List Nat → R)
    (h0 : ∀ m, inRange s m = true → ¬ m.getLastD 0 ≤ s.getLastD 0 / 2 → f m = 0) :
    sumBox s f = sumBox (halfShape s) f := by
  induction s generalizing f with
  | nil => simp at hpos
  | cons n ns ih =>
    by_cases hns : ns = []
    · subst hns
      have hh : halfShape [n] = [n / 2 + 1] := by simp [halfShape, tab]
      have hn : 0 < n := by simpa using hpos
      rw [hh]
      simp only [sumBox]
      exact sumN_restrict n (n / 2 + 1) (by omega) (fun r => f [r]) (fun i hi hin => by
        apply h0 [i] (by simp [inRange, hin])
        simp; omega)
    · rw [halfShape_cons n ns hns]
      simp only [sumBox]
      apply sumN_congr
      intro r hr
      apply ih (by rw [getLastD_cons_ne n ns hns] at hpos; exact hpos)
      intro m hm hl
      apply h0 (r :: m) (by rw [inRange_cons]; exact ⟨hr, hm⟩)
      have hmne : m ≠ [] := by
        intro e; apply hns
        have := inRange_length _ _ hm
        rw [e] at this
        exact List.eq_nil_of_length_eq_zero this.symm
      rw [getLastD_cons_ne r m hmne, getLastD_cons_ne n ns hns]
      exact hl

omit [CommRing R] in
theorem last_lt_of_inRange (s m : List Nat) (h : inRange s m = true) (hs : s ≠ []) :
    m.getLastD 0 < s.getLastD 0 := by
  have hlen := inRange_length _ _ h
  have hl : 0 < s.length := List.length_pos_iff.mpr hs
  rw [getLastD_eq_getD, getLastD_eq_getD, hlen]
  exact inRange_getD s m h _ (by omega)

omit [CommRing R] in
theorem last_le_of_inRange_half (s m : List Nat) (h : inRange (halfShape s) m = true) (hs : s ≠ []) :
    m.getLastD 0 ≤ s.getLastD 0 / 2 := by
  have hlen : m.length = s.length := by rw [inRange_length _ _ h, halfShape_length]
  have hl : 0 < s.length := List.length_pos_iff.mpr hs
  rw [getLastD_eq_getD, getLastD_eq_getD, hlen]
  have hb := inRange_getD _ _ h (s.length - 1) (by rw [halfShape_length]; omega)
  rw [halfShape_getD s _ (by omega), if_pos (by omega)] at hb
  omega

/-! ### the sum over the stored half spectrum -/

/-- **c2r form**: the one-sum inverse DFT of the Hermitian extension, collected over the stored
half spectrum -/
theorem hermExt_sum_half (conj : R → R) (ρs : List (Root R)) (s : List Nat) (hρ : Roots s ρs)
    (hpos : 0 < s.getLastD 0) (A : List Nat → R) (j : List Nat) :
    sumBox s (fun m => hermExtS conj s A m * phaseR (ρs.map Root.swap) s m j)
      = sumBox (halfShape s) fun m => A m * phaseR (ρs.map Root.swap) s m j +
          (if 1 ≤ m.getLastD 0 ∧ m.getLastD 0 < s.getLastD 0 - s.getLastD 0 / 2
           then conj (A m) * phaseR ρs s m j else 0) := by
  have hs : s ≠ [] := by intro e; rw [e] at hpos; simp at hpos
  -- split the extension into the stored part and the mirrored part
  have e1 : sumBox s (fun m => hermExtS conj s A m * phaseR (ρs.map Root.swap) s m j)
      = sumBox s (fun m => if m.getLastD 0 ≤ s.getLastD 0 / 2 then A m * phaseR (ρs.map Root.swap) s m j else 0)
        + sumBox s (fun m => if m.getLastD 0 ≤ s.getLastD 0 / 2 then 0
            else conj (A (mirrorR s m)) * phaseR (ρs.map Root.swap) s m j) := by
    rw [← sumBox_add]
    apply sumBox_congr
    intro m _
    unfold hermExtS
    split <;> simp
  -- re-index the mirrored part by the mirror map
  have e2 : sumBox s (fun m => if m.getLastD 0 ≤ s.getLastD 0 / 2 then 0
            else conj (A (mirrorR s m)) * phaseR (ρs.map Root.swap) s m j)
      = sumBox s (fun m => if 1 ≤ m.getLastD 0 ∧ m.getLastD 0 < s.getLastD 0 - s.getLastD 0 / 2
            then conj (A m) * phaseR ρs s m j else 0) := by
    rw [← sumBox_mirrorR s (fun m => if m.getLastD 0 ≤ s.getLastD 0 / 2 then 0
            else conj (A (mirrorR s m)) * phaseR (ρs.map Root.swap) s m j)]
    apply sumBox_congr
    intro m hm
    have hl := last_lt_of_inRange s m hm hs
    rw [mirrorR_last s m hm, mirrorR_mirrorR s m hm, phaseR_mirrorR ρs s hρ m j hm, Nat.mod_eq_of_lt hl]
    by_cases h0 : m.getLastD 0 = 0
    · rw [h0]
      simp
    · have hlt : s.getLastD 0 - m.getLastD 0 < s.getLastD 0 := by omega
      rw [Nat.mod_eq_of_lt hlt]
      by_cases hc : m.getLastD 0 < s.getLastD 0 - s.getLastD 0 / 2
      · rw [if_neg (by omega), if_pos ⟨by omega, hc⟩]
      · rw [if_pos (by omega), if_neg (fun h => hc h.2)]
  rw [e1, e2, ← sumBox_add, sumBox_half s hpos]
  · apply sumBox_congr
    intro m hm
    rw [if_pos (last_le_of_inRange_half s m hm hs)]
  · intro m _ hl
    rw [if_neg hl, if_neg (by omega), add_zero]

/-- **`irfftn` from the stored half spectrum only** (arrays of the shape the code passes) -/
theorem irfftnArr_half_sum (conj : R → R) (ρs : List (Root R)) (nv : Nat) (s : List Nat) (a : NDA (List R))
    (hs : a.shape = halfShape s) (hρ : Roots s ρs) (hpos : 0 < s.getLastD 0) (j : List Nat) (c : Nat) (hc : c < nv) :
    compA (irfftnArr conj ρs nv s a) c j
      = ninvProd ρs s * sumBox (halfShape s) fun m => compA a c m * phaseR (ρs.map Root.swap) s m j +
          (if 1 ≤ m.getLastD 0 ∧ m.getLastD 0 < s.getLastD 0 - s.getLastD 0 / 2
           then conj (compA a c m) * phaseR ρs s m j else 0) := by
  rw [irfftnArr_is_idft conj ρs nv s a hs hρ j c hc, hermExt_sum_half conj ρs s hρ hpos]

/-- the same for the library's convention: the planes with last index 0 and `n/2` enter through
their Hermitian part -/
theorem irfftnArrNP_half_sum (conj : R → R) (half : R) (ρs : List (Root R)) (nv : Nat) (s : List Nat)
    (a : NDA (List R)) (hs : a.shape = halfShape s) (hρ : Roots s ρs) (hpos : 0 < s.getLastD 0) (j : List Nat)
    (c : Nat) (hc : c < nv) :
    compA (irfftnArrNP conj half ρs nv s a) c j
      = ninvProd ρs s * sumBox (halfShape s) fun m =>
          symPlanes conj half s (compA a c) m * phaseR (ρs.map Root.swap) s m j +
          (if 1 ≤ m.getLastD 0 ∧ m.getLastD 0 < s.getLastD 0 - s.getLastD 0 / 2
           then conj (compA a c m) * phaseR ρs s m j else 0) := by
  rw [irfftnArrNP_is_idft conj half ρs nv s a hs hρ j c hc, hermExt_sum_half conj ρs s hρ hpos]
  congr 1
  apply sumBox_congr
  intro m _
  congr 1
  by_cases hc' : 1 ≤ m.getLastD 0 ∧ m.getLastD 0 < s.getLastD 0 - s.getLastD 0 / 2
  · rw [if_pos hc', if_pos hc']
    unfold symPlanes
    rw [if_neg (by omega)]
  · rw [if_neg hc', if_neg hc']

end DFV.C11
