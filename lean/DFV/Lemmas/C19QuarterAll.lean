import DFV.Lemmas.C19QuarterC12
/-!
# C19 — every quarter turn `Field.rotate90` can make of a 2-d field (odd `k`, either order of the
two axes) is a `QTurn` of the field or of the result: the charge is unchanged.
-/
namespace DFV.C19
open DFV DFV.T

theorem max_sub_min (u v d : Rat) (hd : 0 < d) (h : v - u = d ∨ v - u = -d) : max u v - min u v = d := by
  rcases h with h | h
  · rw [max_eq_right (by linarith), min_eq_left (by linarith)]; exact h
  · rw [max_eq_left (by linarith), min_eq_right (by linarith)]; linarith

theorem quarter_odd (k : Int) (hk : k % 2 = 1) : cosq k = 0 ∧ (sinq k = 1 ∨ sinq k = -1) := by
  unfold cosq sinq
  have h : k % 4 = 1 ∨ k % 4 = 3 := by omega
  rcases h with h | h <;> simp [h]

/-- geometry of the mesh `Field.rotate90` returns for odd `k` when a 2-d mesh is turned in the plane of
its two axes (named in either order): counts and cell edges swapped -/
theorem rot_mesh_odd (m recv ret : Mesh) (hm : m.Inv) (h2 : m.ndim = 2) (a1 a2 : String) (k : Int)
    (ref : Option (List Rat)) (i1 i2 : Nat) (hi1 : m.region.dim2index a1 = .ok i1) (hi2 : m.region.dim2index a2 = .ok i2)
    (hord : (i1 = 0 ∧ i2 = 1) ∨ (i1 = 1 ∧ i2 = 0))
    (hk : k % 2 = 1) (h : stepM m (.rotate90 a1 a2 k ref false) = .ok (recv, ret)) :
    ret.Inv ∧ ret.ndim = 2 ∧ ret.nAt 0 = m.nAt 1 ∧ ret.nAt 1 = m.nAt 0 ∧
    ret.cellAt 0 = m.cellAt 1 ∧ ret.cellAt 1 = m.cellAt 0 := by
  obtain ⟨_, hri, hn, x', hreg⟩ := stepM_keeps m hm _ recv ret h
  simp only [opN, hi1, hi2] at hn
  simp only [stepR] at hreg
  obtain ⟨_, _, j1, j2, e1, e2, _, _, _, _, hret, _⟩ := rotate90R_inv _ _ _ _ _ _ _ _ hreg
  rw [hi1] at e1; rw [hi2] at e2
  injection e1 with e1; injection e2 with e2
  subst e1; subst e2
  have hodd : isOdd k = true := by unfold isOdd; simp; omega
  have hnn : ret.n = [m.nAt 1, m.nAt 0] := by
    rw [hn, n_eq2 m hm h2]
    unfold rotN
    rw [if_pos hodd]
    rcases hord with ⟨rfl, rfl⟩ | ⟨rfl, rfl⟩ <;> simp [swapAt, setAt, Mesh.nAt]
  have hnd : ret.ndim = 2 := by
    unfold Mesh.ndim; rw [hret, target_ndim]; exact h2
  have n0 : ret.nAt 0 = m.nAt 1 := by unfold Mesh.nAt; rw [hnn]; rfl
  have n1 : ret.nAt 1 = m.nAt 0 := by unfold Mesh.nAt; rw [hnn]; rfl
  have hr2 : m.region.ndim = 2 := h2
  obtain ⟨hcos, hsin⟩ := quarter_odd k hk
  have l0 := hm.1.2.2.2.2.2 0 (by rw [← Region.ndim, hr2]; omega)
  have l1 := hm.1.2.2.2.2.2 1 (by rw [← Region.ndim, hr2]; omega)
  simp only [Region.lo, Region.hi] at l0 l1
  refine ⟨hri, hnd, n0, n1, ?_, ?_⟩
  · unfold Mesh.cellAt Region.edge
    rw [n0, hret, target_hi _ _ _ _ 0 (by omega), target_lo _ _ _ _ 0 (by omega)]
    congr 1
    simp only [Region.lo, Region.hi]
    apply max_sub_min _ _ _ (by linarith)
    unfold rotCoord
    rcases hord with ⟨rfl, rfl⟩ | ⟨rfl, rfl⟩
    · simp only [if_true, hcos]
      rcases hsin with hs | hs <;> rw [hs]
      · right; ring
      · left; ring
    · simp only [if_true, hcos, zero_ne_one, if_false]
      rcases hsin with hs | hs <;> rw [hs]
      · left; ring
      · right; ring
  · unfold Mesh.cellAt Region.edge
    rw [n1, hret, target_hi _ _ _ _ 1 (by omega), target_lo _ _ _ _ 1 (by omega)]
    congr 1
    simp only [Region.lo, Region.hi]
    apply max_sub_min _ _ _ (by linarith)
    unfold rotCoord
    rcases hord with ⟨rfl, rfl⟩ | ⟨rfl, rfl⟩
    · simp only [if_true, hcos, one_ne_zero, if_false]
      rcases hsin with hs | hs <;> rw [hs]
      · left; ring
      · right; ring
    · simp only [if_true, hcos]
      rcases hsin with hs | hs <;> rw [hs]
      · right; ring
      · left; ring

/-- the opposite turn undoes the turn -/
theorem rotM_inv (c1 c2 : Nat) (co si : Rat) (h1 : c1 < 3) (h2 : c2 < 3) (h12 : c1 ≠ c2) (hcs : co * co + si * si = 1) (v : V3) :
    (rotM c1 c2 co (-si)).mulVec ((rotM c1 c2 co si).mulVec v) = v := by
  have hc : c1 = 0 ∨ c1 = 1 ∨ c1 = 2 := by omega
  have hc' : c2 = 0 ∨ c2 = 1 ∨ c2 = 2 := by omega
  obtain ⟨x, y, z⟩ := v
  rcases hc with rfl | rfl | rfl <;> rcases hc' with rfl | rfl | rfl <;>
    first
    | exact absurd rfl h12
    | (unfold M3.mulVec rotM rotE
       simp only [if_true, if_false, OfNat.ofNat_ne_zero, OfNat.zero_ne_ofNat,
         OfNat.ofNat_ne_one, OfNat.one_ne_ofNat, one_ne_zero, zero_ne_one]
       congr 1
       · first | ring1 | linear_combination x * hcs
       · first | ring1 | linear_combination y * hcs
       · first | ring1 | linear_combination z * hcs)

/-- the two index maps of a quarter turn of a 2-d array -/
theorem srcIdx_quarter (n0 n1 i1 i2 : Nat) (k : Int) (hord : (i1 = 0 ∧ i2 = 1) ∨ (i1 = 1 ∧ i2 = 0)) (hk : k % 2 = 1) :
    (∀ i j, srcIdx [n0, n1] i1 i2 k [i, j] = [j, n1 - 1 - i]) ∨ (∀ i j, srcIdx [n0, n1] i1 i2 k [i, j] = [n0 - 1 - j, i]) := by
  have h4 : k % 4 = 1 ∨ k % 4 = 3 := by omega
  rcases hord with ⟨rfl, rfl⟩ | ⟨rfl, rfl⟩ <;> rcases h4 with h4 | h4
  · left; intro i j
    have a0 : ¬ (k % 4 = 0) := by omega
    have a2 : ¬ (k % 4 = 2) := by omega
    unfold srcIdx; rw [if_neg a0, if_neg a2, if_pos h4]; simp [swapAt, setAt]
  · right; intro i j
    have a0 : ¬ (k % 4 = 0) := by omega
    have a2 : ¬ (k % 4 = 2) := by omega
    have a1 : ¬ (k % 4 = 1) := by omega
    unfold srcIdx; rw [if_neg a0, if_neg a2, if_neg a1]; simp [swapAt, setAt]
  · right; intro i j
    have a0 : ¬ (k % 4 = 0) := by omega
    have a2 : ¬ (k % 4 = 2) := by omega
    unfold srcIdx; rw [if_neg a0, if_neg a2, if_pos h4]; simp [swapAt, setAt]
  · left; intro i j
    have a0 : ¬ (k % 4 = 0) := by omega
    have a2 : ¬ (k % 4 = 2) := by omega
    have a1 : ¬ (k % 4 = 1) := by omega
    unfold srcIdx; rw [if_neg a0, if_neg a2, if_neg a1]; simp [swapAt, setAt]

/-- EVERY QUARTER TURN.  `Field.rotate90` with odd `k` in the plane of the two axes (named in either
order) of a 2-d three-component field returns a field `g` such that `g` is a
quarter turn of `f` or `f` is a quarter turn of `g` (`QTurn`, with a proper rotation of the vectors) —
given that the periodicity flags of the two axes are exchanged (`hper`; open boundaries:
`rotate90F_quarter`, periodic ones: `Lemmas/C19QuarterBc`) -/
theorem rotate90F_quarter_of (f recv g : Fld) (a1 a2 : String) (k : Int) (ref : Option (List Rat)) (b : Bool)
    (hf : FldInv f) (h2 : f.mesh.ndim = 2) (h3 : f.nvdim = 3) (hlen : ∀ i, (f.data.get i).length = 3)
    (hper : periodic g 0 = periodic f 1 ∧ periodic g 1 = periodic f 0) (i1 i2 : Nat)
    (hi1 : f.mesh.region.dim2index a1 = .ok i1) (hi2 : f.mesh.region.dim2index a2 = .ok i2)
    (hord : (i1 = 0 ∧ i2 = 1) ∨ (i1 = 1 ∧ i2 = 0)) (hk : k % 2 = 1)
    (hvd : ∀ vs, f.vdims = some vs → vs.length = 3)
    (hc : (f.rDim a1).bind f.vdimIndex ≠ (f.rDim a2).bind f.vdimIndex)
    (h : rotate90F f a1 a2 k ref b = .ok (recv, g)) :
    g.nvdim = 3 ∧ g.mesh.ndim = 2 ∧ g.data.shape = [g.mesh.nAt 0, g.mesh.nAt 1] ∧
    ((∃ Q : M3, Q.IsRot ∧ QTurn Q f g) ∨ (∃ Q : M3, Q.IsRot ∧ QTurn Q g f)) := by
  obtain ⟨⟨x, hs⟩, hnv, j1, j2, e1, e2, hshape⟩ := rotate90F_mesh f recv g a1 a2 k ref b h
  rw [hi1] at e1; rw [hi2] at e2
  injection e1 with e1; injection e2 with e2
  subst e1; subst e2
  obtain ⟨hgi, hgd, n0, n1, c0, c1⟩ := rot_mesh_odd f.mesh x g.mesh hf.1 h2 a1 a2 k ref i1 i2 hi1 hi2 hord hk hs
  have hfn := n_eq2 f.mesh hf.1 h2
  obtain ⟨_, _, _, _, _, _, hv0⟩ := DFV.C12.rotate90F_value f g recv a1 a2 k ref b h []
  obtain ⟨c1', c2', hc1, hc2, _⟩ := hv0 (by omega)
  have hc12 : c1' ≠ c2' := by
    intro e; apply hc; rw [hc1, hc2, e]
  have hl1 : c1' < 3 := by
    cases hr : f.rDim a1 with
    | none => rw [hr] at hc1; cases hc1
    | some l => rw [hr] at hc1; exact vdimIndex_lt f l c1' hvd hc1
  have hl2 : c2' < 3 := by
    cases hr : f.rDim a2 with
    | none => rw [hr] at hc2; cases hc2
    | some l => rw [hr] at hc2; exact vdimIndex_lt f l c2' hvd hc2
  have hcs : cosq k * cosq k + sinq k * sinq k = 1 := by
    obtain ⟨hcos, hsin⟩ := quarter_odd k hk
    rw [hcos]; rcases hsin with hs' | hs' <;> rw [hs'] <;> norm_num
  have hcs' : cosq k * cosq k + (-sinq k) * (-sinq k) = 1 := by linarith
  -- data and validity of the result, cell by cell
  have hdata : ∀ i j, cellV g [i, j]
      = (rotM c1' c2' (cosq k) (sinq k)).mulVec (cellV f (srcIdx [f.mesh.nAt 0, f.mesh.nAt 1] i1 i2 k [i, j])) := by
    intro i j
    obtain ⟨i1', i2', d1, d2, _, _, hv⟩ := DFV.C12.rotate90F_value f g recv a1 a2 k ref b h [i, j]
    rw [hi1] at d1; rw [hi2] at d2
    injection d1 with d1; injection d2 with d2
    subst d1; subst d2
    obtain ⟨a, b', ha, hb, hd⟩ := hv (by omega)
    rw [hc1] at ha; rw [hc2] at hb
    injection ha with ha; injection hb with hb
    subst ha; subst hb
    unfold cellV
    rw [hd, hf.2.1, hfn, ofList_rotVec _ (hlen _) _ _ k hl1 hl2 hc12]
  have hvalid : ∀ i j, g.valid.get [i, j] = f.valid.get (srcIdx [f.mesh.nAt 0, f.mesh.nAt 1] i1 i2 k [i, j]) := by
    intro i j
    obtain ⟨i1', i2', d1, d2, hval, _, _⟩ := DFV.C12.rotate90F_value f g recv a1 a2 k ref b h [i, j]
    rw [hi1] at d1; rw [hi2] at d2
    injection d1 with d1; injection d2 with d2
    subst d1; subst d2
    rw [hval, hf.2.2, hfn]
  have hgs : g.data.shape = [g.mesh.nAt 0, g.mesh.nAt 1] := by
    rw [hshape, n0, n1]
    unfold rot90
    have h4 : k % 4 = 1 ∨ k % 4 = 3 := by omega
    have a0 : ¬ (k % 4 = 0) := by omega
    have a2 : ¬ (k % 4 = 2) := by omega
    rw [if_neg a0, if_neg a2]
    rcases h4 with h4 | h4
    · rw [if_pos h4]
      show swapAt f.data.shape i1 i2 = _
      rw [hf.2.1, hfn]
      rcases hord with ⟨rfl, rfl⟩ | ⟨rfl, rfl⟩ <;> simp [swapAt, setAt, Mesh.nAt]
    · rw [if_neg (by omega)]
      show swapAt f.data.shape i1 i2 = _
      rw [hf.2.1, hfn]
      rcases hord with ⟨rfl, rfl⟩ | ⟨rfl, rfl⟩ <;> simp [swapAt, setAt, Mesh.nAt]
  refine ⟨by rw [hnv, h3], hgd, hgs, ?_⟩
  rcases srcIdx_quarter (f.mesh.nAt 0) (f.mesh.nAt 1) i1 i2 k hord hk with hsrc | hsrc
  · -- `g` is the quarter turn of `f`
    left
    refine ⟨rotM c1' c2' (cosq k) (sinq k), rotM_isRot c1' c2' _ _ hl1 hl2 hc12 hcs, n0, n1, c0, c1, ?_, ?_, ?_, ?_⟩
    · exact hper.1
    · exact hper.2
    · intro i j _ _
      rw [hdata, hsrc, cellV_rotF]; rfl
    · intro i j _ _
      rw [hvalid, hsrc]; rfl
  · -- `f` is the quarter turn of `g`
    right
    refine ⟨rotM c1' c2' (cosq k) (-sinq k), rotM_isRot c1' c2' _ _ hl1 hl2 hc12 hcs', n1.symm, n0.symm, c1.symm, c0.symm, ?_, ?_, ?_, ?_⟩
    · exact hper.2.symm
    · exact hper.1.symm
    · intro i j hi hj
      have hi' : i < f.mesh.nAt 0 := by
        have : (rotF (rotM c1' c2' (cosq k) (-sinq k)) g).mesh.nAt 1 = g.mesh.nAt 1 := rfl
        rw [this, n1] at hi; exact hi
      rw [cellV_rotF]
      have : (rotF (rotM c1' c2' (cosq k) (-sinq k)) g).mesh.nAt 1 = f.mesh.nAt 0 := n1
      have e : f.mesh.nAt 0 - 1 - (f.mesh.nAt 0 - 1 - i) = i := by omega
      rw [this, hdata, hsrc, rotM_inv c1' c2' _ _ hl1 hl2 hc12 hcs, e]
    · intro i j hi hj
      have hi' : i < f.mesh.nAt 0 := by
        have : (rotF (rotM c1' c2' (cosq k) (-sinq k)) g).mesh.nAt 1 = g.mesh.nAt 1 := rfl
        rw [this, n1] at hi; exact hi
      have : (rotF (rotM c1' c2' (cosq k) (-sinq k)) g).mesh.nAt 1 = f.mesh.nAt 0 := n1
      rw [this]
      show f.valid.get [i, j] = g.valid.get [j, f.mesh.nAt 0 - 1 - i]
      have e : f.mesh.nAt 0 - 1 - (f.mesh.nAt 0 - 1 - i) = i := by omega
      rw [hvalid, hsrc, e]

/-- … with open boundaries -/
theorem rotate90F_quarter (f recv g : Fld) (a1 a2 : String) (k : Int) (ref : Option (List Rat)) (b : Bool)
    (hf : FldInv f) (h2 : f.mesh.ndim = 2) (h3 : f.nvdim = 3) (hlen : ∀ i, (f.data.get i).length = 3)
    (hbc : f.mesh.bc = "") (i1 i2 : Nat)
    (hi1 : f.mesh.region.dim2index a1 = .ok i1) (hi2 : f.mesh.region.dim2index a2 = .ok i2)
    (hord : (i1 = 0 ∧ i2 = 1) ∨ (i1 = 1 ∧ i2 = 0)) (hk : k % 2 = 1)
    (hvd : ∀ vs, f.vdims = some vs → vs.length = 3)
    (hc : (f.rDim a1).bind f.vdimIndex ≠ (f.rDim a2).bind f.vdimIndex)
    (h : rotate90F f a1 a2 k ref b = .ok (recv, g)) :
    g.nvdim = 3 ∧ g.mesh.ndim = 2 ∧ g.data.shape = [g.mesh.nAt 0, g.mesh.nAt 1] ∧
    ((∃ Q : M3, Q.IsRot ∧ QTurn Q f g) ∨ (∃ Q : M3, Q.IsRot ∧ QTurn Q g f)) := by
  obtain ⟨⟨x, hs⟩, _, _⟩ := rotate90F_mesh f recv g a1 a2 k ref b h
  have bcg : g.mesh.bc = "" := by
    have bcg := stepM_rot_bc _ _ _ _ _ _ _ hs
    rw [hbc] at bcg
    have : rotBc "" a1 a2 k = "" := by unfold rotBc; simp
    rw [this, cmToLowerEmpty] at bcg
    exact bcg
  exact rotate90F_quarter_of f recv g a1 a2 k ref b hf h2 h3 hlen
    ⟨by rw [periodic_of_bc_empty g 0 bcg, periodic_of_bc_empty f 1 hbc],
     by rw [periodic_of_bc_empty g 1 bcg, periodic_of_bc_empty f 0 hbc]⟩ i1 i2 hi1 hi2 hord hk hvd hc h

end DFV.C19
