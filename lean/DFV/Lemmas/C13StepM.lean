import DFV.Lemmas.C13StepR
import DFV.Lemmas.MeshInv
/-! Uniform description of the mesh step: region step on the region and on every subregion
(about the same reference point), count swap, bc swap; then assignment (in place) or the
constructor (copying). -/
namespace DFV.T
open DFV

/-- the step applied to the subregions: same step, reference point fixed to the one of the mesh -/
def subOp (m : Mesh) : Op → Op
  | .translate v i => .translate v i
  | .scale f ref i => .scale f (subRef m ref) i
  | .rotate90 a1 a2 k ref i => .rotate90 a1 a2 k (subRef m ref) i

/-- cell counts after the step -/
def opN (m : Mesh) : Op → List Nat
  | .rotate90 a1 a2 k _ _ =>
    match m.region.dim2index a1, m.region.dim2index a2 with
    | .ok i1, .ok i2 => rotN m.n i1 i2 k
    | _, _ => m.n
  | _ => m.n

def opBc (m : Mesh) : Op → String
  | .rotate90 a1 a2 k _ _ => rotBc m.bc a1 a2 k
  | _ => m.bc

/-- uniform description of a mesh step -/
def stepMU (m : Mesh) (op : Op) : M (Mesh × Mesh) :=
  match stepR m.region op, mapSubs m.subs (fun s => stepR s (subOp m op)) with
  | .error e, _ => .error e
  | _, .error e => .error e
  | .ok (_, r'), .ok subs' =>
    if op.inplace then
      .ok ({ m with region := r', n := opN m op, bc := opBc m op, subs := subs' },
           { m with region := r', n := opN m op, bc := opBc m op, subs := subs' })
    else match mkMesh? r' (opN m op) (opBc m op) subs' with
      | .error e => .error e
      | .ok m' => .ok (m, m')

theorem stepM_eq_stepMU (m : Mesh) (op : Op) : stepM m op = stepMU m op := by
  cases op with
  | translate v i => rfl
  | scale f ref i => rfl
  | rotate90 a1 a2 k ref i =>
    simp only [stepM, stepMU, stepR, subOp, opN, opBc, Op.inplace]
    cases hreg : rotate90R m.region a1 a2 k ref i with
    | error e => rfl
    | ok p =>
      obtain ⟨x, r'⟩ := p
      obtain ⟨_, _, i1, i2, h1, h2, _⟩ := rotate90R_inv _ _ _ _ _ _ _ _ hreg
      rw [h1, h2]
      cases mapSubs m.subs (fun s => rotate90R s a1 a2 k (subRef m ref) i) with
      | error e => rfl
      | ok subs' => rfl

/-- `mapSubs` keeps names and order and applies the step to every region -/
theorem mapSubs_inv (subs subs' : List (String × Region)) (f : Region → M (Region × Region))
    (h : mapSubs subs f = .ok subs') :
    List.Forall₂ (fun p p' => p'.1 = p.1 ∧ ∃ recv, f p.2 = .ok (recv, p'.2)) subs subs' := by
  induction subs generalizing subs' with
  | nil =>
    simp [mapSubs] at h
    cases h; exact List.Forall₂.nil
  | cons p ps ih =>
    unfold mapSubs at h
    rw [List.mapM_cons] at h
    cases hp : f p.2 with
    | error e => simp [hp] at h; cases h
    | ok q =>
      obtain ⟨recv, ret⟩ := q
      simp only [hp] at h
      cases hps : mapSubs ps f with
      | error e =>
        unfold mapSubs at hps
        simp [hps] at h
        cases h
      | ok qs =>
        unfold mapSubs at hps
        simp [hps] at h
        have h' : (Except.ok ((p.1, ret) :: qs) : M _) = Except.ok subs' := h
        injection h' with h'
        subst h'
        exact List.Forall₂.cons ⟨rfl, recv, hp⟩ (ih qs (by unfold mapSubs; exact hps))
/-- every accepted region step returns a proper region of the same dimension and names -/
theorem stepR_keeps (r : Region) (hr : r.Inv) (op : Op) (x r' : Region) (h : stepR r op = .ok (x, r')) :
    r'.Inv ∧ r'.ndim = r.ndim ∧ r'.dims = r.dims ∧ r'.tol = r.tol := by
  cases op with
  | translate v i =>
    simp only [stepR] at h
    obtain ⟨_, e, _⟩ := translateR_inv _ hr _ _ _ _ h
    rw [e]
    refine ⟨target_inv r hr _ _ _ hr.2.2.2.1 ?_, target_ndim _ _ _ _, rfl, rfl⟩
    intro a ha; have := hr.2.2.2.2.2 a ha; intro h; linarith
  | scale f ref i =>
    simp only [stepR] at h
    obtain ⟨_, _, hne, e, _⟩ := scaleR_inv _ _ _ _ _ _ h
    rw [e]
    exact ⟨target_inv r hr _ _ _ hr.2.2.2.1 hne, target_ndim _ _ _ _, rfl, rfl⟩
  | rotate90 a1 a2 k ref i =>
    simp only [stepR] at h
    obtain ⟨_, _, i1, i2, _, _, _, _, _, hne, e, _⟩ := rotate90R_inv _ _ _ _ _ _ _ _ h
    rw [e]
    exact ⟨target_inv r hr _ _ _ (by rw [rotUnits_length]; exact hr.2.2.2.1) hne, target_ndim _ _ _ _, rfl, rfl⟩

theorem opN_ok (m : Mesh) (hm : m.Inv) (op : Op) :
    (opN m op).length = m.n.length ∧ ∀ k ∈ opN m op, 0 < k := by
  obtain ⟨hr, hl, hp⟩ := hm
  have hmem := DFV.C13.mem_pos_of_nAt m hl hp
  cases op with
  | translate v i => exact ⟨rfl, hmem⟩
  | scale f ref i => exact ⟨rfl, hmem⟩
  | rotate90 a1 a2 k ref i =>
    simp only [opN]
    split
    · rename_i i1 i2 h1 h2
      have hd : m.region.dims.length = m.region.ndim := hr.2.2.1
      have l1 : i1 < m.n.length := by rw [hl, ← hd]; exact dim2index_lt _ _ _ h1
      have l2 : i2 < m.n.length := by rw [hl, ← hd]; exact dim2index_lt _ _ _ h2
      unfold rotN
      split
      · exact ⟨swapAt_length _ _ _, DFV.C13.mem_swapAt_pos m.n i1 i2 hmem l1 l2⟩
      · exact ⟨rfl, hmem⟩
    · exact ⟨rfl, hmem⟩

/-- every accepted mesh step keeps the mesh invariant (receiver and result) -/
theorem stepM_keeps (m : Mesh) (hm : m.Inv) (op : Op) (recv ret : Mesh) (h : stepM m op = .ok (recv, ret)) :
    recv.Inv ∧ ret.Inv ∧ ret.n = opN m op ∧ ∃ x, stepR m.region op = .ok (x, ret.region) := by
  have hN := opN_ok m hm op
  rw [stepM_eq_stepMU] at h
  unfold stepMU at h
  split at h
  · cases h
  · cases h
  · rename_i x r' subs' hreg hsub
    obtain ⟨hri, hrn, _, _⟩ := stepR_keeps m.region hm.1 op x r' hreg
    have hi : ∀ (bc : String) (ss : List (String × Region)), ({ region := r', n := opN m op, bc := bc, subs := ss } : Mesh).Inv := by
      intro bc ss
      have hl : (opN m op).length = r'.ndim := by rw [hN.1, hrn]; exact hm.2.1
      exact ⟨hri, hl, fun a ha => DFV.C13.nAt_pos_of_mem _ hl hN.2 a ha⟩
    split at h
    · injection h with h; injection h with ha hb
      subst ha; subst hb
      exact ⟨hi _ _, hi _ _, rfl, x, hreg⟩
    · split at h
      · cases h
      · rename_i m' hm'
        injection h with h; injection h with ha hb
        subst ha; subst hb
        obtain ⟨e1, e2, _, _⟩ := DFV.C13.mkMesh_ok _ _ _ _ _ hm'
        refine ⟨hm, ?_, e2, x, by rw [e1]; exact hreg⟩
        have := hi m'.bc m'.subs
        have em : m' = { region := r', n := opN m op, bc := m'.bc, subs := m'.subs } := by
          cases m'; simp only at e1 e2; subst e1; subst e2; rfl
        rw [em]; exact this
end DFV.T
