import DFV.Lemmas.C09Iff
/-! C09, second round: the reference (foreign) writer's files at byte level - its header satisfies
`FileOk`, so the byte-level reader reads the bytes of such a file as the file; cuts of the data
section. -/
namespace DFV.C09
open DFV

/-- the header lines of the reference writer before the data line -/
def refHs {α} (v2 : Bool) (x : Content α) : List HLine :=
  [.kv "Segment count" (.nat 1), .kv "Begin" (.str "Segment"), .kv "Begin" (.str "Header"),
   .kv "Title" (.str "ref"), .kv "meshtype" (.str "rectangular"), .kv "meshunit" (.str x.meshunit),
   .kv "xbase" (.num (x.base.getD 0 0)), .kv "ybase" (.num (x.base.getD 1 0)), .kv "zbase" (.num (x.base.getD 2 0)),
   .kv "xstepsize" (.num (x.step.getD 0 0)), .kv "ystepsize" (.num (x.step.getD 1 0)),
   .kv "zstepsize" (.num (x.step.getD 2 0)),
   .kv "xnodes" (.nat (x.nodes.getD 0 0)), .kv "ynodes" (.nat (x.nodes.getD 1 0)),
   .kv "znodes" (.nat (x.nodes.getD 2 0)),
   .kv "xmin" (.num (x.lo 0)), .kv "ymin" (.num (x.lo 1)), .kv "zmin" (.num (x.lo 2)),
   .kv "xmax" (.num (x.hi 0)), .kv "ymax" (.num (x.hi 1)), .kv "zmax" (.num (x.hi 2))]
  ++ (if v2 then [.kv "valuedim" (.nat x.vd)] else [.kv "valueunit" (.str "A/m"), .kv "valuemultiplier" (.str "1")])
  ++ [.kv "End" (.str "Header")]

def refWords (w : Nat) : List String := if w = 0 then ["Text"] else ["Binary", toString w]

theorem refWriter_lines {α} (c : Codec α) (v2 : Bool) (w : Nat) (x : Content α) :
    (refWriter c v2 w x).lines = refHs v2 x ++ [.beginData (refWords w)] := by
  cases v2 <;> simp [refWriter, refHs, refWords]

theorem noWs_toString (n : Nat) : NoWs (toString n).toList := by
  have e : (toString n).toList = Nat.toDigits 10 n := Nat.toList_repr
  rw [e]
  refine ⟨?_, ?_⟩
  · exact Nat.toDigits_ne_nil
  · intro c hc
    exact (digit_clean c (Nat.isDigit_of_mem_toDigits (by decide) (by decide) hc)).2

theorem refWords_ok (w : Nat) : WordsOk (refWords w) := by
  unfold refWords
  split
  · intro s hs
    simp only [List.mem_singleton] at hs
    subst hs; exact ⟨by decide, by decide⟩
  · intro s hs
    simp only [List.mem_cons, List.mem_nil_iff, or_false] at hs
    rcases hs with rfl | rfl
    · exact ⟨by decide, by decide⟩
    · exact noWs_toString w

theorem refHs_ok {α} (N : NumIO) (v2 : Bool) (x : Content α) (hm : TextOk x.meshunit.toList) :
    ∀ l ∈ refHs v2 x, LineOk N l := by
  intro l hl
  unfold refHs at hl
  rcases List.mem_append.mp hl with hl | hl
  · rcases List.mem_append.mp hl with hl | hl
    · simp only [List.mem_cons, List.mem_nil_iff, or_false] at hl
      rcases hl with rfl | rfl | rfl | rfl | rfl | rfl | rfl | rfl | rfl | rfl | rfl | rfl | rfl | rfl | rfl | rfl |
        rfl | rfl | rfl | rfl | rfl
      · exact lineOk_nat N _ _ (by decide) (by decide)
      · exact lineOk_begin N _ (by decide) (by decide)
      · exact lineOk_begin N _ (by decide) (by decide)
      · exact lineOk_str N _ _ (by decide) (by decide) (by decide) (textOk_of_B _ (by decide))
      · exact lineOk_str N _ _ (by decide) (by decide) (by decide) (textOk_of_B _ (by decide))
      · exact lineOk_str N _ _ (by decide) (by decide) (by decide) hm
      · exact lineOk_num N _ _ (by decide) (by decide) (by decide)
      · exact lineOk_num N _ _ (by decide) (by decide) (by decide)
      · exact lineOk_num N _ _ (by decide) (by decide) (by decide)
      · exact lineOk_num N _ _ (by decide) (by decide) (by decide)
      · exact lineOk_num N _ _ (by decide) (by decide) (by decide)
      · exact lineOk_num N _ _ (by decide) (by decide) (by decide)
      · exact lineOk_nat N _ _ (by decide) (by decide)
      · exact lineOk_nat N _ _ (by decide) (by decide)
      · exact lineOk_nat N _ _ (by decide) (by decide)
      · exact lineOk_num N _ _ (by decide) (by decide) (by decide)
      · exact lineOk_num N _ _ (by decide) (by decide) (by decide)
      · exact lineOk_num N _ _ (by decide) (by decide) (by decide)
      · exact lineOk_num N _ _ (by decide) (by decide) (by decide)
      · exact lineOk_num N _ _ (by decide) (by decide) (by decide)
      · exact lineOk_num N _ _ (by decide) (by decide) (by decide)
    · cases v2 with
      | true =>
        simp only [if_true, List.mem_singleton] at hl
        subst hl
        exact lineOk_nat N _ _ (by decide) (by decide)
      | false =>
        simp only [Bool.false_eq_true, if_false, List.mem_cons, List.mem_nil_iff, or_false] at hl
        rcases hl with rfl | rfl
        · exact lineOk_str N _ _ (by decide) (by decide) (by decide) (textOk_of_B _ (by decide))
        · exact lineOk_str N _ _ (by decide) (by decide) (by decide) (textOk_of_B _ (by decide))
  · simp only [List.mem_singleton] at hl
    subst hl
    exact lineOk_str N _ _ (by decide) (by decide) (by decide) (textOk_of_B _ (by decide))

/-- **the reference writer's file is one the byte-level reader reads back**, for either version,
any width and any content whose mesh unit fits a header line -/
theorem refWriter_fileOk {α} (N : NumIO) (c : Codec α) (v2 : Bool) (w : Nat) (x : Content α)
    (hm : TextOk x.meshunit.toList) : FileOk N (refWriter c v2 w x) (refHs v2 x) (refWords w) :=
  { lines := refWriter_lines c v2 w x
    first := by
      cases v2 with
      | true => exact (by decide : ∀ ch ∈ "# OOMMF OVF 2.0".toList, ch.toNat < 128 ∧ ch ≠ '\n')
      | false => exact (by decide : ∀ ch ∈ "# OOMMF: rectangular mesh v1.0".toList, ch.toNat < 128 ∧ ch ≠ '\n')
    ok := refHs_ok N v2 x hm
    words := refWords_ok w }

theorem refWriter_body_bin {α} (c : Codec α) (v2 : Bool) (w : Nat) (hw : w ≠ 0) (x : Content α) :
    (refWriter c v2 w x).body = .bin (c.enc v2 w (c.magic w) ++ (x.values.flatMap (c.enc v2 w)
      ++ 10 :: footerBytes ["Binary", toString w])) := by
  simp [refWriter, hw, List.append_assoc]

theorem isBinary_refWords (w : Nat) (hw : w = 4 ∨ w = 8) : isBinary (refWords w) = true := by
  rcases hw with rfl | rfl <;> decide +kernel

theorem refWords_bin (w : Nat) (hw : w ≠ 0) : refWords w = ["Binary", toString w] := by
  unfold refWords; rw [if_neg hw]

end DFV.C09
