import DFV.Lemmas.C08Laws
/-! C08 helper lemmas, part 9: step-by-step evaluation = evaluation of the inlined expression.
The index-level reading commutes with substitution; evaluation only depends on the shapes and the
in-range entries of the input masks. -/
namespace DFV.C08
open DFV

/-- the inputs seen through the index-level reading of the programs that produce them -/
def readEnv (env : Nat → Mask) (σ : Nat → Prog) : Nat → Mask := fun k => ⟨shapeOf env (σ k), spec env (σ k)⟩

theorem subst_shapeOf (env : Nat → Mask) (σ : Nat → Prog) (p : Prog) :
    shapeOf env (p.subst σ) = shapeOf (readEnv env σ) p := by
  induction p with
  | leaf k => rfl
  | pos p ih => exact ih
  | un p ih => exact ih
  | binC p ih => exact ih
  | binF p q ihp _ => exact ihp
  | map op p ih => simp only [Prog.subst, shapeOf, ih]
  | vtk p ih => exact ih
  | hdf5 p ih => exact ih
  | setv s p ih => exact ih
  | fresh k p ih => simp only [Prog.subst, shapeOf, ih]

theorem subst_spec (env : Nat → Mask) (σ : Nat → Prog) (p : Prog) : ∀ j,
    spec env (p.subst σ) j = spec (readEnv env σ) p j := by
  induction p with
  | leaf k => intro j; rfl
  | pos p ih => exact ih
  | un p ih => exact ih
  | binC p ih => exact ih
  | binF p q ihp ihq => intro j; simp only [Prog.subst, spec, ihp, ihq]
  | map op p ih =>
    intro j
    simp only [Prog.subst, spec, subst_shapeOf]
    cases op.src (shapeOf (readEnv env σ) p) j with
    | none => rfl
    | some i => exact ih i
  | vtk p ih => exact ih
  | hdf5 p ih => exact ih
  | setv s p _ => intro j; simp only [Prog.subst, spec, subst_shapeOf]
  | fresh k p _ => intro j; rfl

/-- every input the program uses satisfies `q` -/
def leavesAll (q : Nat → Bool) : Prog → Bool
  | .leaf k => q k
  | .pos p => leavesAll q p
  | .un p => leavesAll q p
  | .binC p => leavesAll q p
  | .binF p r => leavesAll q p && leavesAll q r
  | .map _ p => leavesAll q p
  | .vtk p => leavesAll q p
  | .hdf5 p => leavesAll q p
  | .setv _ p => leavesAll q p
  | .fresh _ p => leavesAll q p

theorem leavesAll_of_forall (q : Nat → Bool) (h : ∀ k, q k = true) (p : Prog) : leavesAll q p = true := by
  induction p with
  | leaf k => exact h k
  | binF p r ihp ihr => simp only [leavesAll, ihp, ihr, Bool.and_self]
  | pos p ih | un p ih | binC p ih | vtk p ih | hdf5 p ih => exact ih
  | map _ p ih | setv _ p ih | fresh _ p ih => exact ih

theorem subst_wf (env : Nat → Mask) (σ : Nat → Prog) (p : Prog) :
    wf env (p.subst σ) = (wf (readEnv env σ) p && leavesAll (fun k => wf env (σ k)) p) := by
  induction p with
  | leaf k => simp [Prog.subst, wf, leavesAll]
  | pos p ih => exact ih
  | un p ih => exact ih
  | binC p ih => exact ih
  | hdf5 p ih => exact ih
  | binF p q ihp ihq =>
    simp only [Prog.subst, wf, leavesAll, ihp, ihq, subst_shapeOf]
    cases wf (readEnv env σ) p <;> cases wf (readEnv env σ) q <;>
      cases leavesAll (fun k => wf env (σ k)) p <;> cases leavesAll (fun k => wf env (σ k)) q <;> simp
  | map op p ih =>
    simp only [Prog.subst, wf, leavesAll, ih, subst_shapeOf]
    cases wf (readEnv env σ) p <;> cases leavesAll (fun k => wf env (σ k)) p <;> simp
  | vtk p ih =>
    simp only [Prog.subst, wf, leavesAll, ih, subst_shapeOf]
    cases wf (readEnv env σ) p <;> cases leavesAll (fun k => wf env (σ k)) p <;> simp
  | setv s p ih =>
    simp only [Prog.subst, wf, leavesAll, ih, subst_shapeOf]
    cases wf (readEnv env σ) p <;> cases leavesAll (fun k => wf env (σ k)) p <;> simp
  | fresh k p ih =>
    simp only [Prog.subst, wf, leavesAll, ih, subst_shapeOf]
    cases wf (readEnv env σ) p <;> cases leavesAll (fun k => wf env (σ k)) p <;> simp

/-! ## evaluation depends on shapes and in-range entries only -/

/-- two environments with the same shapes and the same entries inside the shapes -/
def EnvEq (e1 e2 : Nat → Mask) : Prop :=
  ∀ k, (e1 k).shape = (e2 k).shape ∧ ∀ i, inRange (e1 k).shape i = true → (e1 k).get i = (e2 k).get i

theorem shapeOf_congr (e1 e2 : Nat → Mask) (h : EnvEq e1 e2) (p : Prog) : shapeOf e1 p = shapeOf e2 p := by
  induction p with
  | leaf k => exact (h k).1
  | pos p ih | un p ih | binC p ih | vtk p ih | hdf5 p ih => exact ih
  | binF p q ihp _ => exact ihp
  | setv _ p ih => exact ih
  | map op p ih => simp only [shapeOf, ih]
  | fresh k p ih => simp only [shapeOf, ih]

theorem wf_congr (e1 e2 : Nat → Mask) (h : EnvEq e1 e2) (p : Prog) : wf e1 p = wf e2 p := by
  induction p with
  | leaf k => rfl
  | pos p ih | un p ih | binC p ih | hdf5 p ih => exact ih
  | binF p q ihp ihq => simp only [wf, ihp, ihq, shapeOf_congr e1 e2 h]
  | map op p ih => simp only [wf, ih, shapeOf_congr e1 e2 h]
  | vtk p ih => simp only [wf, ih, shapeOf_congr e1 e2 h]
  | setv s p ih => simp only [wf, ih, shapeOf_congr e1 e2 h]
  | fresh k p ih => simp only [wf, ih, shapeOf_congr e1 e2 h]

theorem spec_congr (e1 e2 : Nat → Mask) (h : EnvEq e1 e2) (p : Prog) (hw : wf e1 p = true) : ∀ j,
    inRange (shapeOf e1 p) j = true → spec e1 p j = spec e2 p j := by
  induction p with
  | leaf k => intro j hj; exact (h k).2 j hj
  | pos p ih => exact ih hw
  | un p ih => exact ih hw
  | binC p ih => exact ih hw
  | vtk p ih =>
    simp only [wf, Bool.and_eq_true] at hw
    exact ih hw.1
  | hdf5 p ih => exact ih hw
  | binF p q ihp ihq =>
    intro j hj
    simp only [wf, Bool.and_eq_true, decide_eq_true_eq] at hw
    simp only [spec]
    rw [ihp hw.1.1 j hj, ihq hw.1.2 j (by rw [← hw.2]; exact hj)]
  | map op p ih =>
    intro j hj
    simp only [wf, Bool.and_eq_true] at hw
    simp only [spec, ← shapeOf_congr e1 e2 h p]
    cases hs : op.src (shapeOf e1 p) j with
    | none => rfl
    | some i => exact ih hw.1 i (src_inRange op _ hw.2 j hj i hs)
  | setv s p _ => intro j _; simp only [spec, shapeOf_congr e1 e2 h p]
  | fresh k p _ => intro j _; rfl

/-- **Inlining.**  If every input program `σ k` evaluates to `vals k`, evaluating `p` on those
values and evaluating the inlined program `p.subst σ` on the original inputs accept the same
programs and give the same mask. -/
theorem eval_subst (env vals : Nat → Mask) (σ : Nat → Prog) (hσ : ∀ k, eval env (σ k) = .ok (vals k)) (p : Prog) :
    ((∃ m, eval env (p.subst σ) = .ok m) ↔ ∃ m', eval vals p = .ok m') ∧
    ∀ m m', eval env (p.subst σ) = .ok m → eval vals p = .ok m' →
      m.shape = m'.shape ∧ ∀ j, inRange m'.shape j = true → m.get j = m'.get j := by
  have hEq : EnvEq vals (readEnv env σ) := fun k =>
    ⟨(eval_spec env (σ k) (vals k) (hσ k)).1, fun i hi => (eval_spec env (σ k) (vals k) (hσ k)).2 i hi⟩
  have hleaves : leavesAll (fun k => wf env (σ k)) p = true :=
    leavesAll_of_forall _ (fun k => (eval_ok_iff env (σ k)).mp ⟨vals k, hσ k⟩) p
  have hwf : wf env (p.subst σ) = wf vals p := by
    rw [subst_wf, hleaves, Bool.and_true, wf_congr vals _ hEq]
  refine ⟨by rw [eval_ok_iff, eval_ok_iff, hwf], fun m m' h h' => ?_⟩
  obtain ⟨h1, h2⟩ := eval_spec env _ m h
  obtain ⟨h3, h4⟩ := eval_spec vals p m' h'
  have hs : m.shape = m'.shape := by rw [h1, h3, subst_shapeOf, shapeOf_congr vals _ hEq]
  refine ⟨hs, fun j hj => ?_⟩
  rw [h2 j (by rw [hs]; exact hj), h4 j hj, subst_spec]
  exact (spec_congr vals _ hEq p ((eval_ok_iff vals p).mp ⟨m', h'⟩) j (by rw [← h3]; exact hj)).symm

end DFV.C08
