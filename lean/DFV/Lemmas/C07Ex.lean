import Mathlib.Tactic.NormNum
import DFV.Lemmas.C07Accept
/-! Concrete objects for the non-vacuity examples of `Props/C07.lean`: a 4 × 2 mesh over
`[0,4] × [0,2]` (cell 1 × 1), with and without a subregion, and a field of distinct tokens. -/
namespace DFV.C07.Ex
open DFV DFV.C07

def reg (p1 p2 : List Rat) : Region :=
  { pmin := p1, pmax := p2, dims := ["x", "y"], units := ["m", "m"], tol := 1/1000000000000 }

def m0 : Mesh := { region := reg [0, 0] [4, 2], n := [4, 2], bc := "", subs := [] }

/-- subregion: cells 1..2 along x, cell 0 along y -/
def s0 : Region := reg [1, 0] [3, 1]

def m1 : Mesh := { m0 with subs := [("a", s0)] }

def tok (i : List Nat) : List Rat := [((i.getD 0 0 * 10 + i.getD 1 0 : Nat) : Rat)]
def msk (i : List Nat) : Bool := i.getD 0 0 % 2 == 0

def f0 : Fld := { mesh := m0, nvdim := 1, data := ⟨[4, 2], tok⟩, valid := ⟨[4, 2], msk⟩,
                  vdims := none, vmap := [], unit := none }
def f1 : Fld := { f0 with mesh := m1 }

theorem lt_two (a : Nat) (h : a < 2) : a = 0 ∨ a = 1 := by omega

theorem m0_inv : m0.Inv :=
  ⟨⟨by decide, rfl, rfl, rfl, by decide, fun a ha => by rcases lt_two a ha with rfl | rfl <;> decide⟩,
    rfl, fun a ha => by rcases lt_two a ha with rfl | rfl <;> decide⟩

theorem m1_inv : m1.Inv := m0_inv

theorem f0_wf : FldWF f0 := ⟨m0_inv, rfl, rfl⟩
theorem f1_wf : FldWF f1 := ⟨m1_inv, rfl, rfl⟩

def k1 (a : Nat) : Nat := if a = 0 then 1 else 0
def k2 (a : Nat) : Nat := if a = 0 then 3 else 1

theorem s0_aligned : SubAligned m1 s0 k1 k2 :=
  ⟨rfl, rfl, fun a ha => by
    rcases lt_two a ha with rfl | rfl <;>
      norm_num [k1, k2, m1, m0, s0, reg, Region.lo, Region.hi, Mesh.nAt, Mesh.cellAt, Region.edge]⟩

/-- an arbitrary (not aligned) box inside the region -/
def box : Region := reg [1/2, 1/4] [5/2, 1]

theorem box_in : BoxIn m0 box :=
  ⟨rfl, fun a ha => by
    rcases lt_two a ha with rfl | rfl <;> norm_num [m0, box, reg, Region.lo, Region.hi]⟩

def pw0 : List PadW := [⟨"x", 1, 2⟩, ⟨"y", 0, 1⟩]

/-- every subregion of `m1` consists of whole cells -/
theorem m1_subs_aligned : ∀ p, p ∈ m1.subs → ∃ k1 k2, SubAligned m1 p.2 k1 k2 := by
  intro p hp
  have : p = ("a", s0) := by simpa [m1] using hp
  subst this
  exact ⟨k1, k2, s0_aligned⟩

/-- a 1-d field: 4 cells of size 1 over `[0, 4]` -/
def reg1 (p1 p2 : List Rat) : Region :=
  { pmin := p1, pmax := p2, dims := ["x"], units := ["m"], tol := 1/1000000000000 }
def m2 : Mesh := { region := reg1 [0] [4], n := [4], bc := "", subs := [] }
def f2 : Fld := { mesh := m2, nvdim := 1, data := ⟨[4], tok⟩, valid := ⟨[4], msk⟩,
                  vdims := none, vmap := [], unit := none }

theorem m2_inv : m2.Inv :=
  ⟨⟨by decide, rfl, rfl, rfl, by decide, fun a ha => by
      have : a = 0 := by have : a < 1 := ha; omega
      subst this; decide⟩,
    rfl, fun a ha => by
      have : a = 0 := by have : a < 1 := ha; omega
      subst this; decide⟩

/-- a 3-d field: 2 × 2 × 2 cells of size 1 over `[0, 2]³` -/
def reg3 (p1 p2 : List Rat) : Region :=
  { pmin := p1, pmax := p2, dims := ["x", "y", "z"], units := ["m", "m", "m"], tol := 1/1000000000000 }
def m3 : Mesh := { region := reg3 [0, 0, 0] [2, 2, 2], n := [2, 2, 2], bc := "", subs := [] }
def tok3 (i : List Nat) : List Rat := [((i.getD 0 0 * 100 + i.getD 1 0 * 10 + i.getD 2 0 : Nat) : Rat)]
def f3 : Fld := { mesh := m3, nvdim := 1, data := ⟨[2, 2, 2], tok3⟩, valid := ⟨[2, 2, 2], msk⟩,
                  vdims := none, vmap := [], unit := none }

theorem lt_three (a : Nat) (h : a < 3) : a = 0 ∨ a = 1 ∨ a = 2 := by omega

theorem m3_inv : m3.Inv :=
  ⟨⟨by decide, rfl, rfl, rfl, by decide, fun a ha => by
      rcases lt_three a ha with rfl | rfl | rfl <;> decide⟩,
    rfl, fun a ha => by rcases lt_three a ha with rfl | rfl | rfl <;> decide⟩

theorem f3_wf : FldWF f3 := ⟨m3_inv, rfl, rfl⟩

/-- the state `field.vdims = []` leaves behind on a labelled 3-component field: no labels, the
mapping still keyed by the old labels -/
def fstale : Fld := { f0 with nvdim := 3, vmap := [("a", "x"), ("b", "y"), ("c", "z")] }

theorem ex_idx (x : Rat) (k : Nat) (hk : k < 4) (h1 : (k : Rat) ≤ x) (h2 : x < (k : Rat) + 1) :
    f0.mesh.indexAx 0 x = k :=
  indexAx_eq_of_bounds f0.mesh 0 x k (by show k < 4; exact hk) (inv_cell_pos f0_wf.1 (by decide))
    (by norm_num [f0, m0, reg, Region.lo, Mesh.cellAt, Mesh.nAt, Region.edge, Region.hi]; exact h1)
    (by norm_num [f0, m0, reg, Region.lo, Mesh.cellAt, Mesh.nAt, Region.edge, Region.hi]; exact h2)


end DFV.C07.Ex
