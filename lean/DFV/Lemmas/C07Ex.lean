import Mathlib.Tactic.NormNum
import DFV.Lemmas.C07Accept
/-! Concrete objects for the non-vacuity examples of `Props/C07.lean`: a 4 × 2 mesh over
`[0,4] × [0,2]` (cell 1 × 1), with and without a subregion, and a field of distinct tokens. -/
namespace DFV.C07.Ex
open DFV DFV.C07

def reg (p1 p2 : List Rat) : Region :=
  { pmin := p1, pmax := p2, dims := ["x", "y"], units := ["m", "m"], tol := 1/1000000000000 }

def m0 : Mesh := { region := reg [0, 0] [4, 2], n := [4, 2], bc := "", subs := [] }

/-- subregion: cells 1..2 along x, cell 0 along y -/
def s0 : Region := reg [1, 0] [3, 1]

def m1 : Mesh := { m0 with subs := [("a", s0)] }

def tok (i : List Nat) : List Rat := [((i.getD 0 0 * 10 + i.getD 1 0 : Nat) : Rat)]
def msk (i : List Nat) : Bool := i.getD 0 0 % 2 == 0

def f0 : Fld := { mesh := m0, nvdim := 1, data := ⟨[4, 2], tok⟩, valid := ⟨[4, 2], msk⟩,
                  vdims := none, vmap := [], unit := none }
def f1 : Fld := { f0 with mesh := m1 }

theorem lt_two (a : Nat) (h : a < 2) : a = 0 ∨ a = 1 := by omega

theorem m0_inv : m0.Inv :=
  ⟨⟨by decide, rfl, rfl, rfl, by decide, fun a ha => by rcases lt_two a ha with rfl | rfl <;> decide⟩,
    rfl, fun a ha => by rcases lt_two a ha with rfl | rfl <;> decide⟩

theorem m1_inv : m1.Inv := m0_inv

theorem f0_wf : FldWF f0 := ⟨m0_inv, rfl, rfl⟩
theorem f1_wf : FldWF f1 := ⟨m1_inv, rfl, rfl⟩

def k1 (a : Nat) : Nat := if a = 0 then 1 else 0
def k2 (a : Nat) : Nat := if a = 0 then 3 else 1

theorem s0_aligned : SubAligned m1 s0 k1 k2 :=
  ⟨rfl, rfl, fun a ha => by
    rcases lt_two a ha with rfl | rfl <;>
      norm_num [k1, k2, m1, m0, s0, reg, Region.lo, Region.hi, Mesh.nAt, Mesh.cellAt, Region.edge]⟩

/-- an arbitrary (not aligned) box inside the region -/
def box : Region := reg [1/2, 1/4] [5/2, 1]

theorem box_in : BoxIn m0 box :=
  ⟨rfl, fun a ha => by
    rcases lt_two a ha with rfl | rfl <;> norm_num [m0, box, reg, Region.lo, Region.hi]⟩

def pw0 : List PadW := [⟨"x", 1, 2⟩, ⟨"y", 0, 1⟩]

end DFV.C07.Ex
