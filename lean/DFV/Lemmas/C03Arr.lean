import DFV.Lemmas.C03z
/-! C03 helper lemmas: a field combined with an array of *arbitrary* shape — the exact
conditions under which `Field ∘ array` (`_apply_operator`) and `ndarray ∘ Field`
(`__array_ufunc__`) are accepted. -/
namespace DFV.C03
open DFV

/-! ## a broadcast result that still broadcasts to the mesh's shape has the mesh's shape -/

theorem bdim_to_self (n x d : Nat) (h1 : bdim n x = some d) (h2 : bdim d n = some n) : d = n := by
  obtain ⟨hd, _⟩ := bdim_some _ _ _ h1
  by_cases hn : n = 1
  · rw [if_pos hn] at hd
    subst hn
    obtain ⟨hd2, _⟩ := bdim_some _ _ _ h2
    by_cases hd1 : d = 1
    · exact hd1
    · rw [if_neg hd1] at hd2; exact hd2.symm
  · rw [if_neg hn] at hd; exact hd

theorem bshapeRev_back (N : List Nat) : ∀ (A r : List Nat), bshapeRev N A = some r → bshapeRev r N = some N → r = N := by
  induction N with
  | nil =>
    intro A r h1 h2
    simp only [bshapeRev] at h1
    injection h1 with h1
    subst h1
    cases A with
    | nil => rfl
    | cons x xs => simp [bshapeRev] at h2
  | cons n N ih =>
    intro A r h1 h2
    cases A with
    | nil =>
      simp only [bshapeRev] at h1
      injection h1 with h1
      exact h1.symm
    | cons x A' =>
      simp only [bshapeRev] at h1
      cases hd : bdim n x with
      | none => rw [hd] at h1; simp at h1
      | some d =>
        cases hr : bshapeRev N A' with
        | none => rw [hd, hr] at h1; simp at h1
        | some r' =>
          rw [hd, hr] at h1
          simp only at h1
          injection h1 with h1
          subst h1
          simp only [bshapeRev] at h2
          cases hd2 : bdim d n with
          | none => rw [hd2] at h2; simp at h2
          | some d' =>
            cases hr2 : bshapeRev r' N with
            | none => rw [hd2, hr2] at h2; simp at h2
            | some r2 =>
              rw [hd2, hr2] at h2
              simp only at h2
              injection h2 with h2
              injection h2 with h2a h2b
              rw [ih A' r' hr (by rw [hr2, h2b]), bdim_to_self n x d hd (by rw [hd2, h2a])]

/-- if `S = n ++ [k]` broadcasts with `A` to `r`, and `r` broadcasts to `n ++ [lastAx r]`
(what the constructor's `np.full` demands), then `r = n ++ [lastAx r]` -/
theorem bshape_back (n : List Nat) (k : Nat) (A r : List Nat) (h1 : bshape (n ++ [k]) A = some r)
    (h2 : bshape r (n ++ [lastAx r]) = some (n ++ [lastAx r])) : r = n ++ [lastAx r] := by
  rw [bshape_some_iff] at h1 h2
  simp only [List.reverse_append, List.reverse_cons, List.reverse_nil, List.nil_append, List.singleton_append] at h1 h2
  have hrev : r.reverse = lastAx r :: n.reverse := by
    generalize A.reverse = Ar at h1
    cases Ar with
    | nil =>
      simp only [bshapeRev] at h1
      injection h1 with h1
      have hr : r = n ++ [k] := by
        have := congrArg List.reverse h1
        simpa using this.symm
      rw [hr, getLastD_append_single]
      simp
    | cons x A' =>
      simp only [bshapeRev] at h1
      cases hd : bdim k x with
      | none => rw [hd] at h1; simp at h1
      | some d =>
        cases hr : bshapeRev n.reverse A' with
        | none => rw [hd, hr] at h1; simp at h1
        | some r' =>
          rw [hd, hr] at h1
          simp only at h1
          injection h1 with h1
          rw [← h1] at h2
          simp only [bshapeRev] at h2
          cases hd2 : bdim d (lastAx r) with
          | none => rw [hd2] at h2; simp at h2
          | some d' =>
            cases hr2 : bshapeRev r' n.reverse with
            | none => rw [hd2, hr2] at h2; simp at h2
            | some r2 =>
              rw [hd2, hr2] at h2
              simp only at h2
              injection h2 with h2
              injection h2 with h2a h2b
              have hr' := bshapeRev_back n.reverse A' r' hr (by rw [hr2, h2b])
              have hlast : lastAx r = d := by
                have : r = (d :: r').reverse := by
                  have := congrArg List.reverse h1
                  simpa using this.symm
                rw [this]
                simp [lastAx]
              rw [← h1, hlast, hr']
  have := congrArg List.reverse hrev
  simpa using this

/-! ## `Field ∘ array`: the exact acceptance condition of `_apply_operator` -/

/-- the mapping setter accepts `self`'s mapping for a result with `m` components exactly when
`m` is `self`'s count or the mapping is empty -/
theorem vmap_for_count (f : CF) (hst : MetaStable f) (hp : 0 < f.nvdim) (m : Nat) (hm : 0 < m) (nd : Nat)
    (dims : List String) (hne : m ≠ f.nvdim) (h1 : f.nvdim = 1) :
    (∃ vm, vmapSet m nd (Fld.defaultVdims m) dims (some f.vmap) = .ok vm) ↔ f.vmap = [] := by
  constructor
  · rintro ⟨vm, h⟩
    rcases hst.vmap_cases with h0 | ⟨l, hl, hk⟩
    · exact h0
    · exfalso
      have hlen := ((sameKeys_iff _ _).mp hk).1
      obtain ⟨_, hl1, _⟩ := hst.labels hp l hl
      simp only [keys, List.length_map] at hlen
      have hv1 : f.vmap.length = 1 := by rw [hlen, hl1, h1]
      have hm1 : m ≠ 1 := by rw [h1] at hne; exact hne
      simp only [vmapSet] at h
      rw [if_neg (by intro hc; exact hm1 hc.2.1), if_pos (by rw [hv1]; exact Nat.one_pos)] at h
      rcases defaultVdims_spec m hm with ⟨hk1, _⟩ | ⟨_, x, l', hd, hlen', _⟩
      · exact hm1 hk1
      · rw [hd] at h
        simp only at h
        split at h
        · rename_i hsk
          have := ((sameKeys_iff _ _).mp hsk).1
          simp only [List.length_map] at this
          rw [hv1, hlen'] at this
          exact hm1 this.symm
        · cases h
  · intro h0
    exact ⟨[], by rw [h0]; simp [vmapSet]⟩

/-- **`self ∘ array` (`_apply_operator`, no power) is accepted iff** the array is not 0-d, passes
the guard of `_apply_operator` (same shape, or `len(array) = nvdim`, or `nvdim = 1`), broadcasts
with `self.array` to a shape `n ++ [m]` with the mesh's own cell counts, and either `m = nvdim`
or `self` carries no mapping. -/
theorem applyOperator_arr_ok_iff (fn : GQ → GQ → GQ) (M : Mesh) (f : CF) (hf : Good M f) (a : NDA GQ) (k : Kind)
    (np : Bool) :
    (∃ g, applyOperator fn false f (.raw (.arr a k np)) = .ok g) ↔
      (a.shape ≠ [] ∧ (f.data.shape = a.shape ∨ f.nvdim = a.shape.headD 0 ∨ f.nvdim = 1) ∧
        ∃ m, 0 < m ∧ bshape (M.n ++ [f.nvdim]) a.shape = some (M.n ++ [m]) ∧ (m = f.nvdim ∨ f.vmap = [])) := by
  obtain ⟨hwf, hst, hmf⟩ := hf
  have hp := hwf.2.2
  have hds : f.data.shape = M.n ++ [f.nvdim] := by rw [hwf.1, hmf]
  have hvs : ∀ v, some f.valid = some v → v.shape = f.mesh.n := by
    intro v hv; injection hv with hv; subst hv; exact hwf.2.1
  constructor
  · rintro ⟨g, hg⟩
    simp only [applyOperator] at hg
    split at hg
    · cases hg
    · rename_i h0
      split at hg
      · cases hg
      · rename_i hguard
        simp only [negIntPow, Bool.false_and, Bool.false_eq_true, if_false] at hg
        cases hnb : npBin fn f.data a with
        | error e => rw [hnb] at hg; cases hg
        | ok res =>
          rw [hnb] at hg
          simp only at hg
          have hbs : bshape f.data.shape a.shape = some res.shape := by
            unfold npBin at hnb
            cases hb : bshape f.data.shape a.shape with
            | none => rw [hb] at hnb; cases hnb
            | some s => rw [hb] at hnb; injection hnb with hnb; rw [← hnb]
          have hrl : f.mesh.n.length < res.shape.length := by
            rw [bshape_length _ _ _ hbs, hwf.1]; simp
          obtain ⟨hgm, hgn, _, _, _, _, _, hfull, _, _⟩ :=
            mkField_arr f.mesh (lastAx res.shape) res _ _ (some f.valid) _ _ g hrl hvs hg
          obtain ⟨_, _, hpos, _, _, _, _, _, _, _, _, hvd, hvm, _⟩ := mkField_ok _ _ _ _ _ _ _ _ _ hg
          rw [hds] at hbs
          rw [hmf] at hfull
          have hres := bshape_back M.n f.nvdim a.shape res.shape hbs hfull
          refine ⟨h0, not_not.mp hguard, lastAx res.shape, hpos, by rw [← hres]; exact hbs, ?_⟩
          by_cases hm : lastAx res.shape = f.nvdim
          · exact Or.inl hm
          · right
            rw [hres] at hbs
            have hsplit : a.shape = a.shape.dropLast ++ [lastAx a.shape] := by
              rcases list_nil_or_concat a.shape with h | ⟨t, x, h⟩
              · exact absurd h h0
              · rw [h, dropLast_append_single, getLastD_append_single]
            rw [hsplit] at hbs
            obtain ⟨d, r', hd, hr', _⟩ := bshape_last M.n (a.shape.dropLast) _ f.nvdim (lastAx a.shape) hbs
            have hdm : d = lastAx res.shape := by
              have := congrArg lastAx hr'
              rw [getLastD_append_single, getLastD_append_single] at this
              exact this.symm
            obtain ⟨hd1, _⟩ := bdim_some _ _ _ hd
            have h1 : f.nvdim = 1 := by
              by_contra hne
              rw [if_neg hne] at hd1
              exact hm (by rw [← hdm, hd1])
            have hfix : fixVdims f.vdims (lastAx res.shape) = none := by
              unfold fixVdims
              cases hv : f.vdims with
              | none => rfl
              | some l =>
                simp only
                rw [if_pos (by rw [(hst.labels hp l hv).2.1]; exact fun hc => hm hc.symm)]
            rw [hfix] at hvd
            simp only [vdimsSet] at hvd
            injection hvd with hvd
            rw [← hvd] at hvm
            exact (vmap_for_count f hst hp _ hpos _ _ hm h1).mp ⟨_, hvm⟩
  · rintro ⟨h0, hguard, m, hm, hb, hc⟩
    rw [← hds] at hb
    obtain ⟨res, hres, hrs⟩ := npBin_shape fn f.data a _ hb
    have hlast : lastAx res.shape = m := by rw [hrs, getLastD_append_single]
    have hrs' : res.shape = f.mesh.n ++ [m] := by rw [hrs, hmf]
    have hmk : ∃ g, mkField f.mesh m (.arr res) (f.kind.join k) (fixVdims f.vdims m) (some f.valid) (some f.vmap) none
        = .ok g := by
      by_cases hmn : m = f.nvdim
      · subst hmn
        rw [hst.fix hp]
        obtain ⟨g, hg, _⟩ := mkField_from_stable f hst hp f.mesh res (f.kind.join k) (some f.valid) none hrs' hvs
        exact ⟨g, hg⟩
      · have hv0 : f.vmap = [] := by
          rcases hc with hc | hc
          · exact absurd hc hmn
          · exact hc
        have hfix : fixVdims f.vdims m = none := by
          unfold fixVdims
          cases hv : f.vdims with
          | none => rfl
          | some l =>
            simp only
            rw [if_pos (by rw [(hst.labels hp l hv).2.1]; exact fun hc => hmn hc.symm)]
        rw [hfix, hv0]
        obtain ⟨g, hg, _⟩ := mkField_accepts f.mesh m res (f.kind.join k) none (some f.valid) (some []) none hm hrs' hvs
          (Fld.defaultVdims m) [] rfl (by simp [vmapSet])
        exact ⟨g, hg⟩
    obtain ⟨g, hg⟩ := hmk
    refine ⟨g, ?_⟩
    simp only [applyOperator]
    rw [if_neg h0, if_neg (not_not.mpr hguard)]
    simp only [negIntPow, Bool.false_and, Bool.false_eq_true, if_false, hres]
    rw [hlast]
    exact hg

/-! ## `ndarray ∘ Field`: the exact acceptance condition of `__array_ufunc__` -/

/-- **`array ∘ self` through `__array_ufunc__` (a NumPy array on the left of an operator, or an
explicit ufunc call) is accepted iff** the array broadcasts with `self.array` to a shape
`n ++ [m]` with the mesh's own cell counts, and either `m = nvdim` or `self` carries no labels. -/
theorem ufunc2_arr_ok_iff (fn : GQ → GQ → GQ) (M : Mesh) (hM : MeshOk M) (f : CF) (hf : Good M f) (a : NDA GQ)
    (k : Kind) :
    (∃ g, ufunc2 fn false (.raw (.arr a k true)) (.fld f) = .ok g) ↔
      ∃ m, 0 < m ∧ bshape a.shape (M.n ++ [f.nvdim]) = some (M.n ++ [m]) ∧ (m = f.nvdim ∨ f.vdims = none) := by
  obtain ⟨hwf, hst, hmf⟩ := hf
  have hp := hwf.2.2
  have hds : f.data.shape = M.n ++ [f.nvdim] := by rw [hwf.1, hmf]
  have hvs : ∀ v, some f.valid = some v → v.shape = f.mesh.n := by
    intro v hv; injection hv with hv; subst hv; exact hwf.2.1
  have hstep : ufunc2 fn false (.raw (.arr a k true)) (.fld f) =
      (match npBin fn a f.data with
       | .error e => .error e
       | .ok res => ufuncWrap f res (k.join f.kind) f.valid) := by
    simp only [ufunc2, firstFld, ufuncInput, if_true, ufuncMeshOk, ufuncValid]
    rw [hmf, hM.2]
    simp only [negIntPow, Bool.false_and, Bool.false_eq_true, if_false]
    rfl
  rw [hstep]
  constructor
  · rintro ⟨g, hg⟩
    cases hnb : npBin fn a f.data with
    | error e => rw [hnb] at hg; cases hg
    | ok res =>
      rw [hnb] at hg
      simp only at hg
      obtain ⟨hdrop, hmk⟩ := ufuncWrap_ok _ _ _ _ _ hg
      have hbs : bshape a.shape f.data.shape = some res.shape := by
        unfold npBin at hnb
        cases hb : bshape a.shape f.data.shape with
        | none => rw [hb] at hnb; cases hnb
        | some s => rw [hb] at hnb; injection hnb with hnb; rw [← hnb]
      have hne : res.shape ≠ [] := by
        intro hc
        have := bshape_length _ _ _ hbs
        rw [hc, hwf.1] at this
        simp at this
        omega
      have hres : res.shape = M.n ++ [lastAx res.shape] := by
        rcases list_nil_or_concat res.shape with h | ⟨t, x, h⟩
        · exact absurd h hne
        · rw [h, dropLast_append_single] at hdrop
          rw [h, getLastD_append_single, hdrop, hmf]
      obtain ⟨_, _, hpos, _, _, _, _, _, _, _, _, hvd, _, _⟩ := mkField_ok _ _ _ _ _ _ _ _ _ hmk
      refine ⟨lastAx res.shape, hpos, by rw [← hres, ← hds]; exact hbs, ?_⟩
      by_cases hm : lastAx res.shape = f.nvdim
      · exact Or.inl hm
      · right
        cases hv : f.vdims with
        | none => rfl
        | some l =>
          exfalso
          rw [hv] at hvd
          obtain ⟨hl0, hl1, _⟩ := hst.labels hp l hv
          rcases vdimsSet_some_inv _ l _ hvd with ⟨h1, _⟩ | ⟨_, _, h3, _⟩
          · exact hl0 h1
          · exact hm (by rw [← h3, hl1])
  · rintro ⟨m, hm, hb, hc⟩
    rw [← hds] at hb
    obtain ⟨res, hres, hrs⟩ := npBin_shape fn a f.data _ hb
    rw [hres]
    simp only
    have hrs' : res.shape = f.mesh.n ++ [m] := by rw [hrs, hmf]
    by_cases hmn : m = f.nvdim
    · subst hmn
      obtain ⟨g, hg, _⟩ := ufuncWrap_accepts M f ⟨hwf, hst, hmf⟩ res (k.join f.kind) f.valid hrs' hwf.2.1
      exact ⟨g, hg⟩
    · have hv0 : f.vdims = none := by
        rcases hc with hc | hc
        · exact absurd hc hmn
        · exact hc
      have hvm0 : f.vmap = [] := (hst.unlabelled hp hv0).2
      obtain ⟨g, hg, _⟩ := mkField_accepts f.mesh m res (k.join f.kind) none (some f.valid) (some []) none hm hrs' hvs
        (Fld.defaultVdims m) [] rfl (by simp [vmapSet])
      refine ⟨g, ?_⟩
      unfold ufuncWrap
      rw [if_neg (by rw [hrs']; simp), hrs', getLastD_append_single, hv0, hvm0, hg]

end DFV.C03
