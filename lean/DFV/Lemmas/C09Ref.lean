import DFV.Lemmas.C09Reject
/-! The reference writer's header as the reader sees it (C09). -/
namespace DFV.C09
open DFV

/-- the dictionary the header loop builds from the reference writer's lines -/
def refHeader {α} (v2 : Bool) (x : Content α) : List (String × HVal) :=
  ("End", .str "Header") ::
  ((if v2 then [("valuedim", HVal.nat x.vd)] else [("valuemultiplier", .str "1"), ("valueunit", .str "A/m")]) ++
  [("zmax", .num (x.hi 2)), ("ymax", .num (x.hi 1)), ("xmax", .num (x.hi 0)),
   ("zmin", .num (x.lo 2)), ("ymin", .num (x.lo 1)), ("xmin", .num (x.lo 0)),
   ("znodes", .nat (x.nodes.getD 2 0)), ("ynodes", .nat (x.nodes.getD 1 0)), ("xnodes", .nat (x.nodes.getD 0 0)),
   ("zstepsize", .num (x.step.getD 2 0)), ("ystepsize", .num (x.step.getD 1 0)), ("xstepsize", .num (x.step.getD 0 0)),
   ("zbase", .num (x.base.getD 2 0)), ("ybase", .num (x.base.getD 1 0)), ("xbase", .num (x.base.getD 0 0)),
   ("meshunit", .str x.meshunit), ("meshtype", .str "rectangular"), ("Title", .str "ref"),
   ("Begin", .str "Header"), ("Begin", .str "Segment"), ("Segment count", .nat 1)])

theorem scan_ref {α} (c : Codec α) (v2 : Bool) (w : Nat) (x : Content α) :
    scan (refWriter c v2 w x).lines []
      = some (refHeader v2 x, if w = 0 then ["Text"] else ["Binary", toString w]) := by
  cases v2 <;> rfl

theorem headerOf_ref {α} (v2 : Bool) (x : Content α) :
    HeaderOf (refHeader v2 x) x.lo x.hi (fun a => x.step.getD a 0) (fun a => x.nodes.getD a 0) x.meshunit := by
  cases v2 <;> constructor <;>
    simp [hnums, hnats, hnum, hnat, hget, refHeader, List.find?, HVal.toNum, HVal.toNat, bind, Except.bind]

theorem valueDim_ref {α} (c : Codec α) (v2 : Bool) (w : Nat) (x : Content α) (h1 : v2 = false → x.vd = 3) :
    valueDim (refWriter c v2 w x).first (refHeader v2 x) = .ok x.vd := by
  cases v2 with
  | true =>
    have : isV2 "# OOMMF OVF 2.0" = true := by decide +kernel
    simp [valueDim, refWriter, this, hnat, hget, refHeader, List.find?, HVal.toNat, bind, Except.bind]
  | false =>
    have : isV2 "# OOMMF: rectangular mesh v1.0" = false := by decide +kernel
    simp [valueDim, refWriter, this, h1 rfl]

theorem isV2_ref {α} (c : Codec α) (v2 : Bool) (w : Nat) (x : Content α) :
    isV2 (refWriter c v2 w x).first = v2 := by
  cases v2 with
  | true => exact (by decide +kernel : isV2 "# OOMMF OVF 2.0" = true)
  | false => exact (by decide +kernel : isV2 "# OOMMF: rectangular mesh v1.0" = false)

theorem labelsOf_ref {α} (isWord : Char → Bool) (v2 : Bool) (x : Content α) :
    labelsOf isWord (refHeader v2 x) = none := by
  cases v2 <;> simp [labelsOf, hget, refHeader, List.find?]

theorem unitOf_ref {α} (v2 : Bool) (x : Content α) : unitOf (refHeader v2 x) = none := by
  cases v2 <;> simp [unitOf, hget, refHeader, List.find?]


end DFV.C09
