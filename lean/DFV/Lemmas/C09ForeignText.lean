import DFV.Lemmas.C09All
/-! Text data sections of foreign writers (C09): mumax's trailing column; reading depends on the
text body only through `readText`. -/
namespace DFV.C09
open DFV

theorem flatMap_take_append {α} (rows : List (List α)) (vd : Nat) (t : List α → List α)
    (hu : ∀ r ∈ rows, r.length = vd) :
    (rows.map fun r => r ++ t r).flatMap (fun r => r.take vd) = rows.flatten := by
  induction rows with
  | nil => rfl
  | cons r rs ih =>
    simp only [List.map_cons, List.flatMap_cons, List.flatten_cons]
    rw [ih (fun x hx => hu x (by simp [hx])), List.take_append_of_le_length (by rw [hu r (by simp)]),
      List.take_of_length_le (by rw [hu r (by simp)])]

/-- mumax3 writes a blank at the end of every text row, which the csv reader sees as one more
(empty) column: a data section whose rows carry one extra trailing entry is read to the same
values -/
theorem readText_trailing_column {α} (nan : α) (rows : List (List α)) (nodes vd : Nat) (x : List α → α)
    (hvd : 0 < vd) (hu : ∀ r ∈ rows, r.length = vd) :
    readText nan (rows.map fun r => r ++ [x r]) nodes vd = readText nan rows nodes vd := by
  unfold readText
  rw [← List.map_take]
  cases ht : rows.take nodes with
  | nil => rfl
  | cons r rs =>
    have hu' : ∀ y ∈ r :: rs, y.length = vd := by
      intro y hy; rw [← ht] at hy; exact hu y (List.mem_of_mem_take hy)
    have hr := hu' r (by simp)
    have hne : ¬ (vd = vd + 1) := by omega
    have h0 : (r :: rs).any (fun y => y.isEmpty) = false := by
      rw [List.any_eq_false]
      intro y hy
      have := hu' y hy
      cases y with
      | nil => simp at this; omega
      | cons _ _ => simp
    have h0' : ((r :: rs).map fun r => r ++ [x r]).any (fun y => y.isEmpty) = false := by
      rw [List.any_eq_false]
      intro y hy
      obtain ⟨z, hz, rfl⟩ := List.mem_map.mp hy
      simp
    have h1 : ((r :: rs).all fun y => decide (y.length ≤ ((r :: rs).headD []).length)) = true :=
      List.all_eq_true.mpr (fun y hy => by simp [hu' y hy, hr])
    have h2 : (((r :: rs).map fun r => r ++ [x r]).all fun y =>
        decide (y.length ≤ (((r :: rs).map fun r => r ++ [x r]).headD []).length)) = true := by
      apply List.all_eq_true.mpr
      intro y hy
      obtain ⟨z, hz, rfl⟩ := List.mem_map.mp hy
      simp [hu' z hz, hr]
    rw [h0, h0', h1, h2]
    simp only [List.map_cons, List.isEmpty_cons, Bool.false_eq_true, if_false, Bool.not_true, List.headD_cons,
      List.length_append, List.length_cons, List.length_nil, hr, hne, if_true]
    congr 1
    have e1 : ((r ++ [x r]) :: rs.map fun r => r ++ [x r]).flatMap (fun r => (padRow nan (vd + 1) r).take vd)
        = (r :: rs).flatten := by
      have := flatMap_take_append (r :: rs) vd (fun r => [x r]) hu'
      simp only [List.map_cons] at this
      rw [← this]
      apply List.flatMap_congr
      intro y hy
      have hy' : y ∈ (r :: rs).map fun r => r ++ [x r] := by simpa using hy
      obtain ⟨z, hz, rfl⟩ := List.mem_map.mp hy'
      rw [padRow_full nan (vd + 1) _ (by simp [hu' z hz])]
    have e2 : (r :: rs).flatMap (padRow nan vd) = (r :: rs).flatten := by
      rw [List.flatten_eq_flatMap]
      apply List.flatMap_congr
      intro y hy
      exact padRow_full nan vd y (hu' y hy)
    rw [e1, e2]

/-- reading a text file depends on its data section only through what `readText` makes of the
rows for the `valuedim` of the header -/
theorem fromOvf_text_congr {α} [DecidableEq α] (c : Codec α) (isWord : Char → Bool) (reserved : String → Bool)
    (F : OvfFile α) (rows rows' : List (List α)) (footer footer' : List String) (hb : F.body = .text rows footer)
    (hrows : ∀ h ws vd nodes, scan F.lines [] = some (h, ws) → valueDim F.first h = .ok vd →
      readText c.nan rows' nodes vd = readText c.nan rows nodes vd)
    (side : Option (List (String × Region))) :
    fromOvf c isWord reserved ({ F with body := .text rows' footer' } : OvfFile α) side
      = fromOvf c isWord reserved F side := by
  have hp : parse c ({ F with body := .text rows' footer' } : OvfFile α) = parse c F := by
    unfold parse
    simp only
    cases hs : scan F.lines [] with
    | none => rfl
    | some p =>
      obtain ⟨h, ws⟩ := p
      simp only
      by_cases h0 : ws.isEmpty = true
      · simp only [h0, if_true]
      · by_cases h1 : (isBinary ws && (dataWidth ws).isNone) = true
        · simp only [h0, h1, if_true, Bool.false_eq_true, if_false]
        · simp only [h0, h1, Bool.false_eq_true, if_false]
          cases hv : valueDim F.first h with
          | error e => rfl
          | ok vd =>
            simp only
            cases hm : readMesh h with
            | error e => rfl
            | ok mesh =>
              simp only
              cases hn : hnats h "xnodes" "ynodes" "znodes" with
              | error e => rfl
              | ok nodes =>
                simp only
                have : readBody c (isV2 F.first) ws (Body.text rows' footer') (natProd nodes) vd
                    = readBody c (isV2 F.first) ws F.body (natProd nodes) vd := by
                  rw [hb]
                  unfold readBody
                  simp only
                  by_cases hbin : isBinary ws = true
                  · simp only [hbin, if_true]
                  · simp only [hbin, Bool.false_eq_true, if_false]
                    exact hrows h ws vd _ hs hv
                rw [this]
  unfold fromOvf
  rw [hp]

end DFV.C09
