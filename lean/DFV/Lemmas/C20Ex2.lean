import DFV.Lemmas.C20Iff
/-!
C20 closed examples, second set (non-vacuity on non-trivial inputs): a nanometre-sized 3 × 4 mesh
with custom dimension names and units, a periodic direction and a subregion; fields with holes in
their validity, a swapped and a non-injective component-to-axis mapping.
-/
namespace DFV.C20
open DFV

/-- `[0, 30 nm] × [-20 ns, 20 ns]`, dimensions `a`, `t`, units `m`, `s` -/
def exNmRegion : Region :=
  { pmin := [0, -20 / 1000000000], pmax := [30 / 1000000000, 20 / 1000000000], dims := ["a", "t"],
    units := ["m", "s"], tol := 1/1000000000000 }

/-- 3 × 4 cells, periodic along `a`, one subregion -/
def exNmMesh : Mesh :=
  { region := exNmRegion, n := [3, 4], bc := "a",
    subs := [("core", { exNmRegion with pmin := [10 / 1000000000, -10 / 1000000000],
                                        pmax := [20 / 1000000000, 10 / 1000000000] })] }

/-- scalar field, values `10·i + j`, cells `(0, 1)` and `(2, 3)` invalid -/
def exNmS : Fld :=
  { mesh := exNmMesh, nvdim := 1,
    data := ⟨[3, 4], fun i => [10 * (i.getD 0 0 : Rat) + (i.getD 1 0 : Rat)]⟩,
    valid := ⟨[3, 4], fun i => !(i == [0, 1] || i == [2, 3])⟩,
    vdims := none, vmap := [], unit := none }

/-- 2-component field with the mapping swapped: `p ↦ t`, `q ↦ a` -/
def exNmV : Fld :=
  { mesh := exNmMesh, nvdim := 2,
    data := ⟨[3, 4], fun i => [3 * (i.getD 0 0 : Rat), 4 * (i.getD 1 0 : Rat) - 4]⟩,
    valid := ⟨[3, 4], fun i => !(i == [1, 1])⟩,
    vdims := some ["p", "q"], vmap := [("p", "t"), ("q", "a")], unit := some "A/m" }

/-- filter on 6 × 2 cells of the same region, zero in its first two columns -/
def exNmFlt : Fld :=
  { exNmS with mesh := { exNmMesh with n := [6, 2], bc := "", subs := [] },
               data := ⟨[6, 2], fun i => [if i.getD 0 0 < 2 then 0 else 1]⟩,
               valid := ⟨[6, 2], fun _ => true⟩ }

theorem exNmMesh_inv : exNmMesh.Inv := mesh_inv_of_invB exNmMesh (by decide +kernel)

end DFV.C20
