import DFV.Lemmas.C03c
/-! C03 helper lemmas, part d: Gaussian-rational algebra, list broadcasting, and the
elementwise operator / ufunc paths read cell by cell. -/
namespace DFV.C03
open DFV

/-! ## `GQ` algebra -/

namespace GQ

theorem ext' {a b : GQ} (h1 : a.re = b.re) (h2 : a.im = b.im) : a = b := by
  cases a; cases b; simp_all

theorem add_comm' (a b : GQ) : add a b = add b a := by
  apply ext' <;> simp [add] <;> ring

theorem mul_comm' (a b : GQ) : mul a b = mul b a := by
  apply ext' <;> simp [mul] <;> ring

theorem neg_add_eq_sub (a b : GQ) : add (neg a) b = sub b a := by
  apply ext' <;> simp [add, neg, sub] <;> ring

theorem neg_sub (a b : GQ) : neg (sub a b) = sub b a := by
  apply ext' <;> simp [neg, sub]

end GQ

theorem crossAt_anticomm (x y : Nat → GQ) (c : Nat) : GQ.neg (crossAt x y c) = crossAt y x c := by
  unfold crossAt
  split
  · rw [GQ.neg_sub, GQ.mul_comm' (x 2), GQ.mul_comm' (x 1)]
  · split
    · rw [GQ.neg_sub, GQ.mul_comm' (x 0), GQ.mul_comm' (x 2)]
    · rw [GQ.neg_sub, GQ.mul_comm' (x 1), GQ.mul_comm' (x 0)]

/-! ## list-level broadcasting -/

/-- the two lengths can be broadcast -/
def Compat (a b : Nat) : Prop := a = 1 ∨ b = 1 ∨ a = b

theorem compat_of_bdim (k m d : Nat) (h : bdim k m = some d) : Compat k m := by
  unfold bdim at h
  unfold Compat
  by_cases h1 : k = m
  · exact Or.inr (Or.inr h1)
  · simp only [h1, if_false] at h
    by_cases h2 : k = 1
    · exact Or.inl h2
    · simp only [h2, if_false] at h
      by_cases h3 : m = 1
      · exact Or.inr (Or.inl h3)
      · simp [h3] at h

theorem tab_map {α β} (n : Nat) (f : Nat → α) (g : α → β) : (tab n f).map g = tab n (fun c => g (f c)) := by
  simp [tab, List.map_map, Function.comp_def]

/-- swapping the operands of a broadcast elementwise function -/
theorem bz_swap (fn : GQ → GQ → GQ) (xs ys : List GQ) (hc : Compat xs.length ys.length) :
    bz fn xs ys = bz (fun a b => fn b a) ys xs := by
  unfold bz
  have hl : (if xs.length = 1 then ys.length else xs.length) = (if ys.length = 1 then xs.length else ys.length) := by
    rcases hc with h | h | h
    · by_cases h2 : ys.length = 1 <;> simp [h, h2]
    · by_cases h2 : xs.length = 1 <;> simp [h, h2]
    · by_cases h2 : xs.length = 1
      · simp [h2, ← h]
      · have : ¬ ys.length = 1 := by omega
        simp [h2, this, h]
  rw [hl]

theorem bz_comm (fn : GQ → GQ → GQ) (hfn : ∀ a b, fn a b = fn b a) (xs ys : List GQ)
    (hc : Compat xs.length ys.length) : bz fn xs ys = bz fn ys xs := by
  rw [bz_swap fn xs ys hc]
  have : (fun a b => fn b a) = fn := by funext a b; exact (hfn a b).symm
  rw [this]

/-- mapping the left operand first -/
theorem bz_map_left (fn : GQ → GQ → GQ) (g : GQ → GQ) (xs ys : List GQ) :
    bz fn (xs.map g) ys = bz (fun a b => fn (g a) b) xs ys := by
  unfold bz
  simp only [List.length_map]
  apply tab_congr
  intro c hc
  have hj : (if xs.length = 1 then 0 else c) < xs.length := by
    by_cases h : xs.length = 1
    · simp [h]
    · simpa [h] using hc
  congr 1
  simp [List.getD_eq_getElem?_getD, List.getElem?_map, List.getElem?_eq_getElem hj]

/-- mapping the result -/
theorem bz_map_out (fn : GQ → GQ → GQ) (g : GQ → GQ) (xs ys : List GQ) :
    (bz fn xs ys).map g = bz (fun a b => g (fn a b)) xs ys := by
  unfold bz
  rw [tab_map]

/-- `-x + y` is `y - x` -/
theorem bz_neg_add (xs ys : List GQ) (hc : Compat xs.length ys.length) :
    bz GQ.add (xs.map GQ.neg) ys = bz GQ.sub ys xs := by
  rw [bz_map_left, bz_swap GQ.sub ys xs (by unfold Compat at *; omega)]
  congr 1
  funext a b
  exact GQ.neg_add_eq_sub a b

/-! ## per-cell description of a field -/

/-- `f` is a well-formed field on a mesh with cell counts `n` whose cell `i` holds the
components `cf i` and the validity `vf i` -/
def Cells (n : List Nat) (f : CF) (cf : List Nat → List GQ) (vf : List Nat → Bool) : Prop :=
  CFwf f ∧ f.mesh.n = n ∧ ∀ i, inRange n i = true → cellOf f.data i f.nvdim = cf i ∧ f.valid.get i = vf i

theorem Cells.congr {n f cf vf cf' vf'} (h : Cells n f cf vf) (hc : ∀ i, cf i = cf' i) (hv : ∀ i, vf i = vf' i) :
    Cells n f cf' vf' := by
  refine ⟨h.1, h.2.1, fun i hi => ?_⟩
  rw [← hc i, ← hv i]
  exact h.2.2 i hi

theorem Cells.opd {n f cf vf} (h : Cells n f cf vf) (i : List Nat) (hi : inRange n i = true) :
    opdCell f.data i = cf i := by
  obtain ⟨hw, hn, hc⟩ := h
  rw [opdCell_field f hw i (by rw [hn]; exact hi)]
  exact (hc i hi).1

theorem Cells.rank {n f cf vf} (h : Cells n f cf vf) : f.mesh.n.length < f.data.shape.length := by
  obtain ⟨⟨hs, _, _⟩, _, _⟩ := h
  rw [hs]; simp

theorem Cells.lastDim {n f cf vf} (h : Cells n f cf vf) : lastDim f.data.shape = f.nvdim := by
  obtain ⟨⟨hs, _, _⟩, _, _⟩ := h
  rw [hs]; exact lastDim_concat _ _

theorem Cells.length {n f cf vf} (h : Cells n f cf vf) (i : List Nat) (hi : inRange n i = true) :
    (cf i).length = f.nvdim := by
  rw [← (h.2.2 i hi).1, cellOf_length]

/-- per-cell description of an operand value: a field, or a raw operand (always valid) -/
def ValCells (n : List Nat) (v : Val) (cv : List Nat → List GQ) (vv : List Nat → Bool) : Prop :=
  match v with
  | .fld f => Cells n f cv vv
  | .raw od => (∀ i, cv i = rawCell od i) ∧ (∀ i, vv i = true)

theorem opdCell_scalarArr (z : GQ) (i : List Nat) : opdCell (scalarArr z) i = [z] := by
  simp [opdCell, scalarArr]

/-! ## unary paths -/

theorem mapField_cells (fn : GQ → GQ) (rk : Kind → Kind) (keepUnit : Bool) (n : List Nat) (f g : CF)
    (cf : List Nat → List GQ) (vf : List Nat → Bool) (hf : Cells n f cf vf)
    (h : mapField fn rk keepUnit f = .ok g) :
    Cells n g (fun i => (cf i).map fn) vf ∧ g.mesh = f.mesh ∧ g.nvdim = f.nvdim := by
  unfold mapField at h
  obtain ⟨hw, hn, hc⟩ := hf
  obtain ⟨hs, hvs, hp⟩ := hw
  have hr : f.mesh.n.length < (f.data.map fn).shape.length := by
    show f.mesh.n.length < f.data.shape.length
    rw [hs]; simp
  obtain ⟨hm, hnv, hwf, _, _, _, _, _, hdata, hvalid⟩ :=
    mkField_arr f.mesh f.nvdim (f.data.map fn) _ _ (some f.valid) _ _ g hr
      (by intro v hv; injection hv with hv; subst hv; exact hvs) h
  refine ⟨⟨hwf, by rw [hm]; exact hn, ?_⟩, hm, hnv⟩
  intro i hi
  have hi' : inRange f.mesh.n i = true := by rw [hn]; exact hi
  refine ⟨?_, ?_⟩
  · show cellOf g.data i g.nvdim = (cf i).map fn
    rw [← (hc i hi).1, hnv]
    unfold cellOf
    rw [tab_map]
    apply tab_congr
    intro c hcc
    have hidx : inRange (f.mesh.n ++ [f.nvdim]) (i ++ [c]) = true := by
      rw [inRange_append_single]; exact ⟨hi', hcc⟩
    rw [hdata _ hidx]
    show fn (f.data.get (bproj f.data.shape (i ++ [c]))) = _
    rw [hs, bproj_inRange _ _ hidx]
  · rw [hvalid i hi', ← (hc i hi).2]; rfl

theorem ufuncWrap_ok (self : CF) (res : NDA GQ) (k : Kind) (valid : NDA Bool) (g : CF)
    (h : ufuncWrap self res k valid = .ok g) :
    res.shape.dropLast = self.mesh.n ∧
    mkField self.mesh (lastAx res.shape) (.arr res) k self.vdims (some valid) (some self.vmap) none = .ok g := by
  unfold ufuncWrap at h
  split at h
  · cases h
  · rename_i hd
    split at h
    · cases h
    · rename_i g' hmk
      injection h with h
      subst h
      exact ⟨by simpa using hd, hmk⟩

theorem ufunc1_cells (fn : GQ → GQ) (rk : Kind → Kind) (n : List Nat) (f g : CF)
    (cf : List Nat → List GQ) (vf : List Nat → Bool) (hf : Cells n f cf vf)
    (h : ufunc1 fn rk f = .ok g) :
    Cells n g (fun i => (cf i).map fn) vf ∧ g.mesh = f.mesh ∧ g.nvdim = f.nvdim := by
  unfold ufunc1 at h
  split at h
  · cases h
  · obtain ⟨_, hmk⟩ := ufuncWrap_ok _ _ _ _ _ h
    obtain ⟨hw, hn, hc⟩ := hf
    obtain ⟨hs, hvs, hp⟩ := hw
    have hr : f.mesh.n.length < (f.data.map fn).shape.length := by
      show f.mesh.n.length < f.data.shape.length
      rw [hs]; simp
    have hlast : lastAx (f.data.map fn).shape = f.nvdim := by
      show lastAx f.data.shape = f.nvdim
      rw [hs, getLastD_append_single]
    rw [hlast] at hmk
    obtain ⟨hm, hnv, hwf, _, _, _, _, _, hdata, hvalid⟩ :=
      mkField_arr f.mesh f.nvdim (f.data.map fn) _ _ (some f.valid) _ _ g hr
        (by intro v hv; injection hv with hv; subst hv; exact hvs) hmk
    refine ⟨⟨hwf, by rw [hm]; exact hn, ?_⟩, hm, hnv⟩
    intro i hi
    have hi' : inRange f.mesh.n i = true := by rw [hn]; exact hi
    refine ⟨?_, ?_⟩
    · show cellOf g.data i g.nvdim = (cf i).map fn
      rw [← (hc i hi).1, hnv]
      unfold cellOf
      rw [tab_map]
      apply tab_congr
      intro c hcc
      have hidx : inRange (f.mesh.n ++ [f.nvdim]) (i ++ [c]) = true := by
        rw [inRange_append_single]; exact ⟨hi', hcc⟩
      rw [hdata _ hidx]
      show fn (f.data.get (bproj f.data.shape (i ++ [c]))) = _
      rw [hs, bproj_inRange _ _ hidx]
    · rw [hvalid i hi', ← (hc i hi).2]; rfl

/-! ## `_apply_operator` -/

theorem checkSame_n (f o : CF) (b : Bool) (h : checkSame f o b = .ok ()) : f.mesh.n = o.mesh.n := by
  unfold checkSame at h
  cases hm : meshAllclose f.mesh o.mesh with
  | error e => simp [hm] at h
  | ok t =>
    cases t with
    | false => simp [hm] at h
    | true =>
      unfold meshAllclose at hm
      split at hm
      · cases hm
      · injection hm with hm
        simp at hm
        exact hm.2

theorem applyOperator_fld_cells (fn : GQ → GQ → GQ) (pw : Bool) (n : List Nat) (f o g : CF)
    (cf co : List Nat → List GQ) (vf vo : List Nat → Bool)
    (hf : Cells n f cf vf) (ho : Cells n o co vo)
    (h : applyOperator fn pw f (.fld o) = .ok g) :
    Cells n g (fun i => bz fn (cf i) (co i)) (fun i => vf i && vo i) ∧ g.mesh = f.mesh ∧
      bdim f.nvdim o.nvdim = some g.nvdim := by
  simp only [applyOperator] at h
  cases hcs : checkSame f o true with
  | error e => simp [hcs] at h
  | ok u =>
    simp only [hcs] at h
    split at h
    · cases h
    · cases hnb : npBin fn f.data o.data with
      | error e => simp [hnb] at h
      | ok res =>
        simp only [hnb] at h
        have hvs : ∀ v, some (NDA.zipWith (fun x y => x && y) f.valid o.valid) = some v → v.shape = f.mesh.n := by
          intro v hv; injection hv with hv; subst hv
          exact hf.1.2.1
        obtain ⟨hm, hwf, _, _, hbd, hvalid, hcell⟩ :=
          npBin_cells fn f.mesh f.data o.data res (Or.inl hf.rank) hnb _ _ _ _ _ g hvs h
        rw [hf.lastDim, ho.lastDim] at hbd
        refine ⟨⟨hwf, by rw [hm]; exact hf.2.1, ?_⟩, hm, hbd⟩
        intro i hi
        have hi' : inRange f.mesh.n i = true := by rw [hf.2.1]; exact hi
        refine ⟨?_, ?_⟩
        · rw [hcell i hi', hf.opd i hi, ho.opd i hi]
        · rw [hvalid i hi']
          show (f.valid.get i && o.valid.get i) = _
          rw [(hf.2.2 i hi).2, (ho.2.2 i hi).2]

/-- last-axis length of a raw operand (1 for numbers) -/
def rawLast : Opd → Nat
  | .num _ _ _ => 1
  | .arr a _ _ => lastDim a.shape

theorem rawCell_length (od : Opd) (i : List Nat) : (rawCell od i).length = rawLast od := by
  cases od with
  | num z k np => rfl
  | arr a k np => exact opdCell_length a i

theorem applyOperator_raw_cells (fn : GQ → GQ → GQ) (pw : Bool) (n : List Nat) (f g : CF) (od : Opd)
    (cf : List Nat → List GQ) (vf : List Nat → Bool)
    (hf : Cells n f cf vf)
    (h : applyOperator fn pw f (.raw od) = .ok g) :
    Cells n g (fun i => bz fn (cf i) (rawCell od i)) vf ∧ g.mesh = f.mesh ∧
      bdim f.nvdim (rawLast od) = some g.nvdim := by
  have hvs : ∀ v, some f.valid = some v → v.shape = f.mesh.n := by
    intro v hv; injection hv with hv; subst hv
    exact hf.1.2.1
  cases od with
  | num z k np =>
    simp only [applyOperator] at h
    split at h
    · cases h
    · cases hnb : npBin fn f.data (scalarArr z) with
      | error e => simp [hnb] at h
      | ok res =>
        simp only [hnb] at h
        obtain ⟨hm, hwf, _, _, hbd, hvalid, hcell⟩ :=
          npBin_cells fn f.mesh f.data (scalarArr z) res (Or.inl hf.rank) hnb _ _ _ _ _ g hvs h
        rw [hf.lastDim] at hbd
        refine ⟨⟨hwf, by rw [hm]; exact hf.2.1, ?_⟩, hm, hbd⟩
        intro i hi
        have hi' : inRange f.mesh.n i = true := by rw [hf.2.1]; exact hi
        refine ⟨?_, ?_⟩
        · rw [hcell i hi', hf.opd i hi, opdCell_scalarArr]; rfl
        · rw [hvalid i hi']; exact (hf.2.2 i hi).2
  | arr a k np =>
    simp only [applyOperator] at h
    split at h
    · cases h
    · split at h
      · cases h
      · split at h
        · cases h
        · cases hnb : npBin fn f.data a with
          | error e => simp [hnb] at h
          | ok res =>
            simp only [hnb] at h
            obtain ⟨hm, hwf, _, _, hbd, hvalid, hcell⟩ :=
              npBin_cells fn f.mesh f.data a res (Or.inl hf.rank) hnb _ _ _ _ _ g hvs h
            rw [hf.lastDim] at hbd
            refine ⟨⟨hwf, by rw [hm]; exact hf.2.1, ?_⟩, hm, hbd⟩
            intro i hi
            have hi' : inRange f.mesh.n i = true := by rw [hf.2.1]; exact hi
            refine ⟨?_, ?_⟩
            · rw [hcell i hi', hf.opd i hi]; rfl
            · rw [hvalid i hi']; exact (hf.2.2 i hi).2

end DFV.C03
