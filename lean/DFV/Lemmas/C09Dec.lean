import DFV.Lemmas.C09RefBytes
import DFV.Model.C09Csv
import Mathlib.Tactic.Ring
import Mathlib.Tactic.FieldSimp
import Mathlib.Tactic.Linarith
/-! C09, second round: the decimal text of short decimals (`fmtDec`) read back by `parseDec`. -/
namespace DFV.C09
open DFV

theorem digitsVal_append (l r : List Char) (acc : Nat) :
    digitsVal (l ++ r) acc = (digitsVal l acc).bind (digitsVal r) := by
  induction l generalizing acc with
  | nil => rfl
  | cons c l ih =>
    simp only [List.cons_append, digitsVal]
    split
    · exact ih _
    · rfl

theorem digitChar_spec (d : Nat) (h : d < 10) :
    (Nat.digitChar d).isDigit = true ∧ (Nat.digitChar d).toNat - 48 = d ∧ Nat.digitChar d ≠ '.' ∧
      Nat.digitChar d ≠ ' ' ∧ Nat.digitChar d ≠ '#' ∧ Nat.digitChar d ≠ '\n' ∧ Nat.digitChar d ≠ '-' := by
  match d, h with
  | 0, _ | 1, _ | 2, _ | 3, _ | 4, _ | 5, _ | 6, _ | 7, _ | 8, _ | 9, _ => decide

theorem digitsVal_padDigits (k n acc : Nat) :
    digitsVal (padDigits k n) acc = some (acc * 10 ^ k + n % 10 ^ k) := by
  induction k generalizing n acc with
  | zero => simp [padDigits, digitsVal, Nat.mod_one]
  | succ k ih =>
    rw [padDigits, digitsVal_append, ih]
    simp only [Option.bind_some, digitsVal]
    have hd := digitChar_spec (n % 10) (Nat.mod_lt _ (by decide))
    rw [if_pos hd.1, hd.2.1]
    congr 1
    have e : n % 10 ^ (k + 1) = n % 10 + 10 * (n / 10 % 10 ^ k) := by
      rw [Nat.pow_succ, Nat.mul_comm (10 ^ k) 10, Nat.mod_mul]
    rw [e]
    ring

theorem padDigits_length (k n : Nat) : (padDigits k n).length = k := by
  induction k generalizing n with
  | zero => rfl
  | succ k ih => simp [padDigits, ih]

/-- characters of `padDigits`: digits, so none of the characters the tokenizers treat specially -/
theorem padDigits_chars (k n : Nat) : ∀ c ∈ padDigits k n,
    c.isDigit = true ∧ c ≠ '.' ∧ c ≠ ' ' ∧ c ≠ '#' ∧ c ≠ '\n' ∧ c ≠ '-' := by
  induction k generalizing n with
  | zero => intro c hc; simp [padDigits] at hc
  | succ k ih =>
    intro c hc
    rw [padDigits, List.mem_append] at hc
    rcases hc with hc | hc
    · exact ih _ c hc
    · simp only [List.mem_singleton] at hc
      subst hc
      have hd := digitChar_spec (n % 10) (Nat.mod_lt _ (by decide))
      exact ⟨hd.1, hd.2.2.1, hd.2.2.2.1, hd.2.2.2.2.1, hd.2.2.2.2.2.1, hd.2.2.2.2.2.2⟩

theorem isDigit_ne (c : Char) (h : c.isDigit = true) :
    c ≠ '.' ∧ c ≠ ' ' ∧ c ≠ '#' ∧ c ≠ '\n' ∧ c ≠ '-' := by
  have h' : 48 ≤ c.toNat ∧ c.toNat ≤ 57 := by
    simp only [Char.isDigit, Bool.and_eq_true, decide_eq_true_eq] at h
    exact ⟨h.1, h.2⟩
  refine ⟨?_, ?_, ?_, ?_, ?_⟩ <;> (rintro rfl; revert h'; decide)

/-- the decimal digits of a number: not empty, digits only, read back by `digitsVal` -/
theorem toString_digits (n : Nat) :
    (toString n).toList ≠ [] ∧ (∀ c ∈ (toString n).toList, c.isDigit = true) ∧
      digitsVal (toString n).toList 0 = some n := by
  have e : (toString n).toList = Nat.toDigits 10 n := Nat.toList_repr
  refine ⟨by rw [e]; exact Nat.toDigits_ne_nil, ?_, ?_⟩
  · intro c hc
    rw [e] at hc
    exact Nat.isDigit_of_mem_toDigits (by decide) (by decide) hc
  · have := parseNat_toString n
    unfold parseNat at this
    split at this
    · cases this
    · exact this

theorem takeWhile_ne_dot (l r : List Char) (h : ∀ c ∈ l, c ≠ '.') :
    (l ++ '.' :: r).takeWhile (· != '.') = l ∧ (l ++ '.' :: r).dropWhile (· != '.') = '.' :: r := by
  induction l with
  | nil => simp
  | cons c l ih =>
    have hc : c ≠ '.' := h c (by simp)
    have := ih (fun d hd => h d (by simp [hd]))
    simp [hc, this]

/-- characters of `fmtU`: digits and one point -/
theorem fmtU_chars (m k : Nat) : ∀ c ∈ fmtU m k, (c.isDigit = true ∨ c = '.') := by
  intro c hc
  unfold fmtU at hc
  rcases List.mem_append.mp hc with hc | hc
  · exact Or.inl ((toString_digits _).2.1 c hc)
  · rcases List.mem_cons.mp hc with rfl | hc
    · exact Or.inr rfl
    · split at hc
      · simp only [List.mem_singleton] at hc
        subst hc; exact Or.inl (by decide)
      · exact Or.inl (padDigits_chars _ _ c hc).1

theorem fmtU_ne_nil (m k : Nat) : fmtU m k ≠ [] := by
  unfold fmtU
  intro h
  have := congrArg List.length h
  simp at this

/-- **fixed notation reads back**: `parseUDec (fmtU m k) = m / 10^k` -/
theorem parseUDec_fmtU (m k : Nat) : parseUDec (fmtU m k) = some ((m : Rat) / (10 : Rat) ^ k) := by
  obtain ⟨hne, hdig, hval⟩ := toString_digits (m / 10 ^ k)
  have hnodot : ∀ c ∈ (toString (m / 10 ^ k)).toList, c ≠ '.' := fun c hc => (isDigit_ne c (hdig c hc)).1
  unfold parseUDec fmtU
  obtain ⟨e1, e2⟩ := takeWhile_ne_dot (toString (m / 10 ^ k)).toList
    (if k = 0 then ['0'] else padDigits k (m % 10 ^ k)) hnodot
  rw [e1, e2]
  have hemp : (toString (m / 10 ^ k)).toList.isEmpty = false := by
    cases h : (toString (m / 10 ^ k)).toList with
    | nil => exact absurd h hne
    | cons _ _ => rfl
  simp only [hemp, Bool.false_and, Bool.false_eq_true, if_false, List.drop_succ_cons, List.drop_zero, hval]
  by_cases hk : k = 0
  · subst hk
    simp only [if_true, pow_zero, Nat.div_one]
    have : digitsVal ['0'] 0 = some 0 := by decide
    rw [this]
    simp
  · rw [if_neg hk, digitsVal_padDigits, padDigits_length]
    simp only [Nat.zero_mul, Nat.zero_add, Nat.mod_mod]
    congr 1
    have h10 : ((10 : Rat) ^ k) ≠ 0 := pow_ne_zero _ (by norm_num)
    have hdm := Nat.div_add_mod m (10 ^ k)
    have : (m : Rat) = ((10 ^ k : Nat) : Rat) * ((m / 10 ^ k : Nat) : Rat) + ((m % 10 ^ k : Nat) : Rat) := by
      exact_mod_cast hdm.symm
    rw [this]
    push_cast
    field_simp

/-- a rational whose denominator is one is its numerator -/
theorem rat_eq_num (q : Rat) (h : q.den = 1) : q = (q.num : Rat) := by
  have := Rat.num_div_den q
  rw [h] at this
  simpa using this.symm

/-- a short decimal is `± decMant / 10^decK` -/
theorem shortDec_value (x : Rat) (h : ShortDec x) :
    x = (if x < 0 then -1 else 1) * ((decMant x : Rat) / (10 : Rat) ^ decK x) := by
  have h10 : (0 : Rat) < (10 : Rat) ^ decK x := pow_pos (by norm_num) _
  have hq := rat_eq_num _ h
  have hx : x = ((x * (10 : Rat) ^ decK x).num : Rat) / (10 : Rat) ^ decK x := by
    rw [← hq]; field_simp
  unfold decMant
  by_cases hneg : x < 0
  · rw [if_pos hneg]
    have hn : (x * (10 : Rat) ^ decK x).num < 0 := by
      rw [Rat.num_neg]; exact mul_neg_of_neg_of_pos hneg h10
    have : (((x * (10 : Rat) ^ decK x).num.natAbs : Nat) : Rat) = -((x * (10 : Rat) ^ decK x).num : Rat) := by
      rw [← Int.cast_natCast, Int.ofNat_natAbs_of_nonpos (le_of_lt hn), Int.cast_neg]
    rw [this]
    calc x = ((x * (10 : Rat) ^ decK x).num : Rat) / (10 : Rat) ^ decK x := hx
      _ = _ := by ring
  · rw [if_neg hneg]
    have hn : 0 ≤ (x * (10 : Rat) ^ decK x).num := by
      rw [Rat.num_nonneg]; exact mul_nonneg (not_lt.mp hneg) (le_of_lt h10)
    have : (((x * (10 : Rat) ^ decK x).num.natAbs : Nat) : Rat) = ((x * (10 : Rat) ^ decK x).num : Rat) := by
      rw [← Int.cast_natCast, Int.natAbs_of_nonneg hn]
    rw [this, one_mul]
    exact hx

/-- **the decimal text of a short decimal reads back to it**: `parseDec (fmtDec x) = x` -/
theorem parseDec_fmtDec (x : Rat) (h : ShortDec x) : parseDec (fmtDec x) = some x := by
  have hv := shortDec_value x h
  unfold fmtDec
  by_cases hneg : x < 0
  · rw [if_pos hneg] at hv ⊢
    simp only [parseDec, parseUDec_fmtU, Option.map_some]
    congr 1
    calc -((decMant x : Rat) / (10 : Rat) ^ decK x) = -1 * ((decMant x : Rat) / (10 : Rat) ^ decK x) := by ring
      _ = x := hv.symm
  · rw [if_neg hneg] at hv ⊢
    -- the text starts with a digit, not with `-`
    have hhead : ∀ r, fmtU (decMant x) (decK x) ≠ '-' :: r := by
      intro r hr
      have hmem : '-' ∈ fmtU (decMant x) (decK x) := by rw [hr]; simp
      rcases fmtU_chars _ _ _ hmem with h1 | h1
      · revert h1; decide
      · revert h1; decide
    have : parseDec (fmtU (decMant x) (decK x)) = parseUDec (fmtU (decMant x) (decK x)) := by
      cases hf : fmtU (decMant x) (decK x) with
      | nil => rfl
      | cons c cs =>
        by_cases hc : c = '-'
        · subst hc; exact absurd hf (hhead cs)
        · unfold parseDec
          split
          · rename_i r heq
            injection heq with h1 _
            exact absurd h1 hc
          · rfl
    rw [this, parseUDec_fmtU]
    congr 1
    rw [one_mul] at hv
    exact hv.symm

end DFV.C09
