import DFV.Model.C03
import DFV.Lemmas.C08Wf
/-! C08 helper lemmas, part 16: the object-level link to the C03 model (field algebra).  Every
operator path of the C03 model ends in `C03.mkField … (some V) …`; what it stores as validity is
`own V` — literally the `own` of the C08 model — with `V` the operand's mask, or the cell-wise AND
of both operands' masks.  Lifted to whole C03 expressions: the validity of the value of an
expression is what the C08 evaluator computes on the translated program (`progOf`). -/
namespace DFV.C08
open DFV

/-- the cell-wise AND as the C03 model writes it is the C08 model's -/
theorem zipWith_and_eq (a b : NDA Bool) : NDA.zipWith (fun x y => x && y) a b = NDA.zipWith and a b := rfl

/-- what the constructor of the C03 model stores for `valid=V` (a mask of the mesh shape): a
copy of `V`; the field lives on the mesh it was given -/
theorem c03_mkField_valid {mesh : Mesh} {nv : Nat} {val : C03.Value} {k : C03.Kind} {vd vm u} {V : NDA Bool} {g : C03.CF}
    (h : C03.mkField mesh nv val k vd (some V) vm u = .ok g) (hV : V.shape = mesh.n) :
    g.valid = own V ∧ g.mesh = mesh := by
  unfold C03.mkField at h
  split at h
  · cases h
  · split at h
    · cases h
    · rename_i arr ownf harr
      simp only [C03.validSet, if_pos hV] at h
      split at h
      · cases h
      · split at h
        · cases h
        · simp only [Except.ok.injEq] at h; subst h
          exact ⟨rfl, rfl⟩

/-- without `valid=`: every cell valid -/
theorem c03_mkField_none {mesh : Mesh} {nv : Nat} {val : C03.Value} {k : C03.Kind} {vd vm u} {g : C03.CF}
    (h : C03.mkField mesh nv val k vd none vm u = .ok g) :
    g.valid = own (NDA.const mesh.n true) ∧ g.mesh = mesh := by
  unfold C03.mkField at h
  split at h
  · cases h
  · split at h
    · cases h
    · simp only [C03.validSet] at h
      split at h
      · cases h
      · split at h
        · cases h
        · simp only [Except.ok.injEq] at h; subst h
          exact ⟨rfl, rfl⟩

/-- the shape part of the field invariant of the C03 model -/
def CFInv (f : C03.CF) : Prop := f.valid.shape = f.mesh.n

theorem c03_meshAllclose_n {a b : Mesh} (h : C03.meshAllclose a b = .ok true) : a.n = b.n := by
  unfold C03.meshAllclose at h
  split at h
  · cases h
  · simp only [Except.ok.injEq, Bool.and_eq_true, decide_eq_true_eq] at h
    exact h.2

theorem c03_checkSame_n {self o : C03.CF} {ig : Bool} (h : C03.checkSame self o ig = .ok ()) : self.mesh.n = o.mesh.n := by
  unfold C03.checkSame at h
  split at h
  · cases h
  · cases h
  · rename_i hm
    exact c03_meshAllclose_n hm

theorem c03_meshEq_n {a b : Mesh} (h : C03.meshEq a b = true) : a.n = b.n := by
  unfold C03.meshEq at h
  simp only [Bool.and_eq_true, decide_eq_true_eq] at h
  exact h.2

/-- result of an operation between two fields: a copy of the AND, same cells -/
structure AndRes (a o g : C03.CF) : Prop where
  hvalid : g.valid = own (NDA.zipWith and a.valid o.valid)
  hmesh : g.mesh = a.mesh
  hsame : a.mesh.n = o.mesh.n

/-- result of an operation with one field operand: a copy of its mask -/
structure SameRes (a g : C03.CF) : Prop where
  hvalid : g.valid = own a.valid
  hmesh : g.mesh = a.mesh

theorem AndRes.inv {self o g : C03.CF} (h : AndRes self o g) (hs : CFInv self) : CFInv g := by
  unfold CFInv; rw [h.hvalid, h.hmesh]; exact hs

theorem SameRes.inv {self g : C03.CF} (h : SameRes self g) (hs : CFInv self) : CFInv g := by
  unfold CFInv; rw [h.hvalid, h.hmesh]; exact hs

theorem c03_applyOperator_fld {fn pw} {self o g : C03.CF} (h : C03.applyOperator fn pw self (.fld o) = .ok g)
    (hs : CFInv self) : AndRes self o g := by
  simp only [C03.applyOperator] at h
  split at h
  · cases h
  · rename_i hc
    split at h
    · cases h
    · split at h
      · cases h
      · obtain ⟨h1, h2⟩ := c03_mkField_valid h hs
        exact ⟨h1, h2, c03_checkSame_n hc⟩

theorem c03_applyOperator_raw {fn pw} {self g : C03.CF} {od : C03.Opd} (h : C03.applyOperator fn pw self (.raw od) = .ok g)
    (hs : CFInv self) : SameRes self g := by
  cases od with
  | num z k np =>
    simp only [C03.applyOperator] at h
    split at h
    · cases h
    · split at h
      · cases h
      · obtain ⟨h1, h2⟩ := c03_mkField_valid h hs
        exact ⟨h1, h2⟩
  | arr a k np =>
    simp only [C03.applyOperator] at h
    split at h
    · cases h
    · split at h
      · cases h
      · split at h
        · cases h
        · split at h
          · cases h
          · obtain ⟨h1, h2⟩ := c03_mkField_valid h hs
            exact ⟨h1, h2⟩

theorem c03_mapField {fn rk ku} {self g : C03.CF} (h : C03.mapField fn rk ku self = .ok g) (hs : CFInv self) :
    SameRes self g := by
  obtain ⟨h1, h2⟩ := c03_mkField_valid h hs
  exact ⟨h1, h2⟩

theorem c03_dotOp_fld {self o g : C03.CF} (h : C03.dotOp self (.fld o) = .ok g) (hs : CFInv self) : AndRes self o g := by
  simp only [C03.dotOp] at h
  split at h
  · cases h
  · rename_i hc
    split at h
    · cases h
    · obtain ⟨h1, h2⟩ := c03_mkField_valid h hs
      exact ⟨h1, h2, c03_checkSame_n hc⟩

theorem c03_dotOp_raw {self g : C03.CF} {od : C03.Opd} (h : C03.dotOp self (.raw od) = .ok g) (hs : CFInv self) :
    SameRes self g := by
  cases od with
  | num z k np => simp [C03.dotOp] at h
  | arr a k np =>
    simp only [C03.dotOp] at h
    split at h
    · cases h
    · obtain ⟨h1, h2⟩ := c03_mkField_valid h hs
      exact ⟨h1, h2⟩

theorem c03_crossOp_fld {self o g : C03.CF} (h : C03.crossOp self (.fld o) = .ok g) (hs : CFInv self) : AndRes self o g := by
  simp only [C03.crossOp] at h
  split at h
  · cases h
  · rename_i hc
    split at h
    · cases h
    · split at h
      · cases h
      · obtain ⟨h1, h2⟩ := c03_mkField_valid h hs
        exact ⟨h1, h2, c03_checkSame_n hc⟩

theorem c03_crossOp_raw {self g : C03.CF} {od : C03.Opd} (h : C03.crossOp self (.raw od) = .ok g) (hs : CFInv self) :
    SameRes self g := by
  cases od with
  | num z k np => simp [C03.crossOp] at h
  | arr a k np =>
    simp only [C03.crossOp] at h
    split at h
    · cases h
    · obtain ⟨h1, h2⟩ := c03_mkField_valid h hs
      exact ⟨h1, h2⟩

theorem c03_shlFF {self o g : C03.CF} (h : C03.shlFF self o = .ok g) (hs : CFInv self) : AndRes self o g := by
  unfold C03.shlFF at h
  split at h
  · cases h
  · rename_i hm
    split at h
    · cases h
    · obtain ⟨h1, h2⟩ := c03_mkField_valid h hs
      exact ⟨h1, h2, c03_meshEq_n (by simpa using hm)⟩

/-- the field `<<` builds from a number / array operand: all cells valid, on the given mesh -/
theorem c03_liftOpd {mesh : Mesh} {od : C03.Opd} {t : C03.CF} (h : C03.liftOpd mesh od = .ok t) :
    t.valid = own (NDA.const mesh.n true) ∧ t.mesh = mesh := by
  cases od with
  | num z k np => simp only [C03.liftOpd] at h; exact c03_mkField_none h
  | arr a k np =>
    simp only [C03.liftOpd] at h
    split at h
    · cases h
    · exact c03_mkField_none h

theorem c03_normOp {sq} {self g : C03.CF} (h : C03.normOp sq self = .ok g) (hs : CFInv self) : SameRes self g := by
  obtain ⟨h1, h2⟩ := c03_mkField_valid h hs
  exact ⟨h1, h2⟩

theorem c03_getComp {f g : C03.CF} {l : String} (h : C03.getComp f l = .ok g) (hs : CFInv f) : SameRes f g := by
  unfold C03.getComp at h
  split at h
  · cases h
  · split at h
    · cases h
    · obtain ⟨h1, h2⟩ := c03_mkField_valid h hs
      exact ⟨h1, h2⟩

theorem c03_ufuncWrap {self g : C03.CF} {res k V} (h : C03.ufuncWrap self res k V = .ok g) (hV : V.shape = self.mesh.n) :
    g.valid = own V ∧ g.mesh = self.mesh := by
  unfold C03.ufuncWrap at h
  split at h
  · cases h
  · split at h
    · cases h
    · rename_i g' hg'
      simp only [Except.ok.injEq] at h; subst h
      exact c03_mkField_valid hg' hV

theorem c03_ufunc1 {fn rk} {self g : C03.CF} (h : C03.ufunc1 fn rk self = .ok g) (hs : CFInv self) : SameRes self g := by
  unfold C03.ufunc1 at h
  split at h
  · cases h
  · obtain ⟨h1, h2⟩ := c03_ufuncWrap h hs
    exact ⟨h1, h2⟩

theorem c03_ufuncMeshOk_n {self f : C03.CF} (h : C03.ufuncMeshOk self (.fld f) = .ok ()) : self.mesh.n = f.mesh.n := by
  simp only [C03.ufuncMeshOk] at h
  split at h
  · cases h
  · cases h
  · rename_i hm; exact c03_meshAllclose_n hm

/-- the angle between a field and a field / number / array -/
theorem c03_angleOp_fld {sq ac} {self o g : C03.CF} (h : C03.angleOp sq ac self (.fld o) = .ok g) (hs : CFInv self) :
    AndRes self o g := by
  unfold C03.angleOp at h
  simp only [C03.angleVec] at h
  split at h
  · cases h
  · rename_i vec valid hv
    split at hv
    · cases hv
    · rename_i hc
      simp only [Except.ok.injEq, Prod.mk.injEq] at hv
      obtain ⟨rfl, rfl⟩ := hv
      split at h
      · cases h
      · split at h
        · cases h
        · split at h
          · cases h
          · split at h
            · cases h
            · split at h
              · cases h
              · obtain ⟨h1, h2⟩ := c03_mkField_valid (V := NDA.zipWith (fun x y => x && y) self.valid o.valid) h hs
                exact ⟨h1, h2, c03_checkSame_n hc⟩

theorem c03_angleOp_raw {sq ac} {self g : C03.CF} {od : C03.Opd} (h : C03.angleOp sq ac self (.raw od) = .ok g)
    (hs : CFInv self) : SameRes self g := by
  unfold C03.angleOp at h
  split at h
  · cases h
  · rename_i vec valid hv
    have hval : valid = self.valid := by
      cases od with
      | num z k np =>
        simp only [C03.angleVec] at hv
        split at hv
        · split at hv
          · cases hv
          · simp only [Except.ok.injEq, Prod.mk.injEq] at hv; exact hv.2.symm
        · cases hv
      | arr a k np =>
        simp only [C03.angleVec] at hv
        split at hv
        · cases hv
        · simp only [Except.ok.injEq, Prod.mk.injEq] at hv; exact hv.2.symm
    subst hval
    split at h
    · cases h
    · split at h
      · cases h
      · split at h
        · cases h
        · split at h
          · cases h
          · split at h
            · cases h
            · obtain ⟨h1, h2⟩ := c03_mkField_valid h hs
              exact ⟨h1, h2⟩

end DFV.C08
