import DFV.Lemmas.C15Round
import DFV.Lemmas.RatFloor
/-!
The executable binary64 rounding `fl64` (what the driver runs in the bit-exact comparison
with NumPy) obeys the standard model with `u = 2^-53`: it is an instance of the `fl` the
rounded-arithmetic theorems of C15 quantify over.
-/
namespace DFV.C15
open DFV

theorem pow2_pos (e : Int) : 0 < pow2 e := by
  unfold pow2
  split
  · exact_mod_cast Nat.pos_of_ne_zero (by positivity)
  · apply div_pos one_pos
    exact_mod_cast Nat.pos_of_ne_zero (by positivity)

theorem roundHalfEven_err (m : Rat) : |(Mesh.roundHalfEven m : Rat) - m| ≤ 1 / 2 := by
  have h1 := rat_floor_le m
  have h2 := rat_lt_floor_add_one m
  unfold Mesh.roundHalfEven
  split
  · rw [abs_le]; constructor <;> linarith
  · split
    · push_cast
      rw [abs_le]; constructor <;> linarith
    · have he : m - (m.floor : Rat) = 1 / 2 := by
        rename_i h3 h4
        linarith [not_lt.mp h3, not_lt.mp h4]
      split
      · rw [abs_le]; constructor <;> linarith
      · push_cast
        rw [abs_le]; constructor <;> linarith

theorem fl64At_err {x r : Rat} {e : Int} (h : fl64At x e = some r) :
    |r - x| ≤ 1 / 9007199254740992 * x := by
  unfold fl64At at h
  split at h
  · rename_i hm
    simp only [Option.some.injEq] at h
    subst h
    have hp := pow2_pos e
    have hx : x = x / pow2 e * pow2 e := by field_simp
    have herr := roundHalfEven_err (x / pow2 e)
    have e1 : (Mesh.roundHalfEven (x / pow2 e) : Rat) * pow2 e - x =
        ((Mesh.roundHalfEven (x / pow2 e) : Rat) - x / pow2 e) * pow2 e := by
      rw [sub_mul]; congr 1
    rw [e1, abs_mul, abs_of_pos hp]
    have h1 : |(Mesh.roundHalfEven (x / pow2 e) : Rat) - x / pow2 e| * pow2 e ≤ 1 / 2 * pow2 e :=
      mul_le_mul_of_nonneg_right herr hp.le
    have h2 : 4503599627370496 * pow2 e ≤ x := by
      have := mul_le_mul_of_nonneg_right hm.1 hp.le
      rw [← hx] at this; exact this
    linarith
  · cases h

theorem fl64Pos_err (x : Rat) (hx : 0 ≤ x) : |fl64Pos x - x| ≤ 1 / 9007199254740992 * x := by
  unfold fl64Pos
  split
  · rename_i r h; exact fl64At_err h
  · split
    · rename_i r h; exact fl64At_err h
    · simp only [sub_self, abs_zero]; positivity

/-- **binary64 rounding obeys the standard model**, `u = 2^-53`, for every rational -/
theorem fl64_flOk : FlOk fl64 (1 / 9007199254740992) := by
  refine ⟨by norm_num, fun x => ?_⟩
  unfold fl64
  split
  · rename_i h; subst h; simp
  · split
    · rename_i _ hneg
      have := fl64Pos_err (-x) (by linarith)
      rw [abs_of_neg hneg]
      have e : -fl64Pos (-x) - x = -(fl64Pos (-x) - -x) := by ring
      rw [e, abs_neg]; exact this
    · rename_i hne hnn
      have hpos : 0 < x := lt_of_le_of_ne (not_lt.mp hnn) (Ne.symm hne)
      rw [abs_of_pos hpos]
      exact fl64Pos_err x hpos.le

end DFV.C15
