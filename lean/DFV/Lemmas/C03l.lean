import Std.Data.String.ToNat
import DFV.Lemmas.C03k
/-! C03 helper lemmas, part l: when the constructor accepts (`mkField` succeeds), default
labels, the label/mapping state a constructor leaves behind (`MetaStable`). -/
namespace DFV.C03
open DFV

/-- labels and mapping survive one constructor round trip (true of every field a
constructor call returned, see `mkField_stable`) -/
def MetaStable (f : CF) : Prop :=
  vdimsSet f.nvdim f.vdims = .ok f.vdims ∧
  vmapSet f.nvdim f.mesh.region.ndim f.vdims f.mesh.region.dims (some f.vmap) = .ok f.vmap

/-! ## default labels are distinct -/

theorem hasDup_false_iff (l : List String) : hasDup l = false ↔ l.Nodup := by
  induction l with
  | nil => simp [hasDup]
  | cons x xs ih =>
    simp only [hasDup, Bool.or_eq_false_iff, List.nodup_cons, ih]
    constructor
    · rintro ⟨h1, h2⟩
      refine ⟨?_, h2⟩
      intro hm
      have : xs.contains x = true := List.contains_iff_mem.mpr hm
      rw [this] at h1; cases h1
    · rintro ⟨h1, h2⟩
      refine ⟨?_, h2⟩
      cases hc : xs.contains x with
      | false => rfl
      | true => exact absurd (List.contains_iff_mem.mp hc) h1

theorem vlabel_inj (i j : Nat) (h : s!"v{i}" = s!"v{j}") : i = j := by
  have h' : "v" ++ toString i = "v" ++ toString j := h
  rw [String.append_right_inj] at h'
  exact Nat.repr_injective h'

/-- the default labels: none for one component, else `k` distinct labels -/
theorem defaultVdims_spec (k : Nat) (hk : 0 < k) :
    (k = 1 ∧ Fld.defaultVdims k = none) ∨
    (k ≠ 1 ∧ ∃ x l, Fld.defaultVdims k = some (x :: l) ∧ (x :: l).length = k ∧ hasDup (x :: l) = false) := by
  unfold Fld.defaultVdims
  by_cases h1 : k = 1
  · left; exact ⟨h1, by rw [if_pos h1]⟩
  · rw [if_neg h1]
    right
    refine ⟨h1, ?_⟩
    by_cases h3 : k ≤ 3
    · rw [if_pos h3]
      have : k = 2 ∨ k = 3 := by omega
      rcases this with rfl | rfl
      · exact ⟨"x", ["y"], rfl, rfl, by decide⟩
      · exact ⟨"x", ["y", "z"], rfl, rfl, by decide⟩
    · rw [if_neg h3]
      have hnd : ((List.range k).map fun i => s!"v{i}").Nodup := by
        rw [List.Nodup, List.pairwise_map]
        exact List.Pairwise.imp (fun {a b} hab hf => hab (vlabel_inj a b hf)) List.nodup_range
      have hlen : ((List.range k).map fun i => s!"v{i}").length = k := by simp
      cases hl : (List.range k).map fun i => s!"v{i}" with
      | nil => rw [hl] at hlen; simp at hlen; omega
      | cons x l =>
        rw [hl] at hnd hlen
        exact ⟨x, l, rfl, hlen, (hasDup_false_iff _).mpr hnd⟩

/-- the label setter accepts the default labels and keeps them -/
theorem vdimsSet_default (k : Nat) (hk : 0 < k) :
    vdimsSet k (Fld.defaultVdims k) = .ok (Fld.defaultVdims k) := by
  rcases defaultVdims_spec k hk with ⟨h1, hd⟩ | ⟨_, x, l, hd, hlen, hdup⟩
  · rw [hd]; simp only [vdimsSet]; rw [hd]
  · rw [hd]
    simp only [vdimsSet]
    rw [if_neg (by simpa using hlen), hdup]
    simp

/-- what the label setter accepts, and what it stores -/
theorem vdimsSet_some_ok (k : Nat) (l : List String) (hne : l ≠ []) (hlen : l.length = k) (hd : hasDup l = false) :
    vdimsSet k (some l) = .ok (some l) := by
  cases l with
  | nil => exact absurd rfl hne
  | cons x xs =>
    simp only [vdimsSet]
    rw [if_neg (by simpa using hlen), hd]
    simp

theorem vdimsSet_some_inv (k : Nat) (l : List String) (vd' : Option (List String))
    (h : vdimsSet k (some l) = .ok vd') :
    (l = [] ∧ vd' = none) ∨ (l ≠ [] ∧ vd' = some l ∧ l.length = k ∧ hasDup l = false) := by
  cases l with
  | nil => simp only [vdimsSet] at h; injection h with h; exact Or.inl ⟨rfl, h.symm⟩
  | cons x xs =>
    simp only [vdimsSet] at h
    split at h
    · cases h
    · rename_i hl
      split at h
      · cases h
      · rename_i hdup
        injection h with h
        exact Or.inr ⟨by simp, h.symm, by simpa using hl, by simpa using hdup⟩

/-- labels a constructor stored have the right count and are distinct -/
theorem vdimsSet_result (k : Nat) (hk : 0 < k) (vd vd' : Option (List String)) (h : vdimsSet k vd = .ok vd') :
    ∀ l, vd' = some l → l ≠ [] ∧ l.length = k ∧ hasDup l = false := by
  intro l hl
  subst hl
  cases vd with
  | none =>
    simp only [vdimsSet] at h
    injection h with h
    rcases defaultVdims_spec k hk with ⟨_, hd⟩ | ⟨_, x, l', hd, hlen, hdup⟩
    · rw [hd] at h; cases h
    · rw [hd] at h; injection h with h; subst h; exact ⟨by simp, hlen, hdup⟩
  | some l0 =>
    rcases vdimsSet_some_inv k l0 _ h with ⟨_, h2⟩ | ⟨hne, h2, hlen, hdup⟩
    · cases h2
    · injection h2 with h2; subst h2; exact ⟨hne, hlen, hdup⟩

/-- the label setter is idempotent on what it stored, except that "no labels" stored for
an explicitly empty list are replaced by the default labels next time -/
theorem vdimsSet_idem (k : Nat) (hk : 0 < k) (vd vd' : Option (List String)) (hne : vd ≠ some [])
    (h : vdimsSet k vd = .ok vd') : vdimsSet k vd' = .ok vd' := by
  cases vd with
  | none =>
    simp only [vdimsSet] at h
    injection h with h
    subst h
    exact vdimsSet_default k hk
  | some l0 =>
    rcases vdimsSet_some_inv k l0 _ h with ⟨h1, _⟩ | ⟨hne', h2, hlen, hdup⟩
    · subst h1; exact absurd rfl hne
    · subst h2; exact vdimsSet_some_ok k l0 hne' hlen hdup

/-! ## the mapping setter -/

theorem sameKeys_self (l : List String) : sameKeys l l = true := by
  simp only [sameKeys, decide_true, Bool.true_and, Bool.and_eq_true, List.all_eq_true]
  exact ⟨fun x hx => List.contains_iff_mem.mpr hx, fun x hx => List.contains_iff_mem.mpr hx⟩

theorem zip_keys (l : List String) (ds : List (Option String)) (h : l.length = ds.length) :
    (List.zip l ds).map (·.1) = l := by
  induction l generalizing ds with
  | nil => simp
  | cons x xs ih =>
    cases ds with
    | nil => simp at h
    | cons d ds => simp only [List.zip_cons_cons, List.map_cons, ih ds (by simpa using h)]

/-- the mapping setter is idempotent on what it stored -/
theorem vmapSet_idem (nv nd : Nat) (vd : Option (List String)) (dims : List String) (vm : Option VMap) (m : VMap)
    (hd : dims.length = nd) (hl : ∀ l, vd = some l → l.length = nv)
    (h : vmapSet nv nd vd dims vm = .ok m) : vmapSet nv nd vd dims (some m) = .ok m := by
  cases vm with
  | none =>
    simp only [vmapSet] at h
    split at h
    · injection h with h; subst h; simp [vmapSet]
    · split at h
      · rename_i h1 h2
        cases vd with
        | none => simp at h; subst h; simp [vmapSet]
        | some l =>
          simp only at h
          injection h with h
          subst h
          have hlen : l.length = (dims.map some).length := by rw [List.length_map, hd, hl l rfl, h2]
          simp only [vmapSet]
          rw [if_neg (by simp), zip_keys l _ hlen, sameKeys_self]
          simp
      · injection h with h; subst h; simp [vmapSet]
  | some m0 =>
    simp only [vmapSet] at h
    split at h
    · injection h with h; subst h; simp [vmapSet]
    · rename_i h1
      split at h
      · rename_i h2
        cases vd with
        | none => simp at h
        | some l =>
          simp only at h
          split at h
          · rename_i hk
            injection h with h
            subst h
            simp only [vmapSet]
            rw [if_neg (by simp), if_pos h2, hk]
            simp
          · cases h
      · injection h with h
        subst h
        simp only [vmapSet]
        rw [if_neg h1, if_neg (by assumption)]

/-- a mapping with the same keys as the labels, or an empty one, is accepted and kept -/
theorem vmapSet_some_stable (nv nd nd' : Nat) (vd : Option (List String)) (dims dims' : List String) (m : VMap)
    (h : vmapSet nv nd vd dims (some m) = .ok m) : vmapSet nv nd' vd dims' (some m) = .ok m := by
  rw [← h]; simp only [vmapSet]

/-! ## broadcasting of the shapes the operators meet -/

theorem bshape_self (s : List Nat) : bshape s s = some s := by
  rw [bshape_some_iff]; exact bshapeRev_self _

theorem bshapeRev_append (t r : List Nat) : bshapeRev (t ++ r) t = some (t ++ r) := by
  induction t with
  | nil => exact bshapeRev_nil_right r
  | cons x xs ih =>
    cases hr : xs ++ r with
    | nil =>
      have : xs = [] := by cases xs <;> simp_all
      subst this
      simp only [List.cons_append, bshapeRev, bdim_self, hr]
    | cons y ys =>
      simp only [List.cons_append, bshapeRev, bdim_self]
      rw [ih]

/-- a trailing block of the shape (constant vector, per-cell row) broadcasts to the shape -/
theorem bshape_suffix (s t : List Nat) : bshape (s ++ t) t = some (s ++ t) := by
  rw [bshape_some_iff]
  simp only [List.reverse_append]
  exact bshapeRev_append _ _

theorem bshape_comm (s t : List Nat) : bshape s t = bshape t s := by
  unfold bshape; rw [bshapeRev_comm]

theorem bshape_suffix' (s t : List Nat) : bshape t (s ++ t) = some (s ++ t) := by
  rw [bshape_comm]; exact bshape_suffix s t

/-- two arrays over the same cells: the last axes decide -/
theorem bshape_cells (s : List Nat) (k m d : Nat) (h : bdim k m = some d) :
    bshape (s ++ [k]) (s ++ [m]) = some (s ++ [d]) := by
  rw [bshape_some_iff]
  simp only [List.reverse_append, List.reverse_cons, List.reverse_nil, List.nil_append, List.cons_append]
  simp only [bshapeRev, h, bshapeRev_self]

/-! ## the constructor accepts -/

theorem asArray_exact (mesh : Mesh) (nv : Nat) (res : NDA GQ) (hs : res.shape = mesh.n ++ [nv]) :
    asArray mesh nv (.arr res) = .ok (⟨mesh.n ++ [nv], fun idx => res.get (bproj res.shape idx)⟩, false) := by
  have h1 : ¬ (nv = 1 ∧ res.shape = mesh.n) := by
    rintro ⟨_, h⟩
    rw [hs] at h
    have := congrArg List.length h
    simp at this
  have h2 : ¬ res.shape = [] := by rw [hs]; simp
  have h3 : ¬ lastAx res.shape ≠ nv := by rw [hs, getLastD_append_single]; simp
  simp only [asArray]
  rw [if_neg h1, if_neg h2, if_neg h3]
  simp only [npFull, hs, bshape_self, if_true]

theorem validSet_accepts (mesh : Mesh) (valid : Option (NDA Bool)) (hv : ∀ v, valid = some v → v.shape = mesh.n) :
    ∃ vl, validSet mesh valid = .ok vl ∧ vl.shape = mesh.n := by
  cases valid with
  | none => exact ⟨_, rfl, rfl⟩
  | some v => exact ⟨v, by simp [validSet, hv v rfl], hv v rfl⟩

/-- **the constructor accepts** an array of the field's shape with labels and a mapping
its setters accept, and stores exactly what the setters return -/
theorem mkField_accepts (mesh : Mesh) (nv : Nat) (res : NDA GQ) (kind : Kind) (vd : Option (List String))
    (valid : Option (NDA Bool)) (vm : Option VMap) (unit : Option String)
    (hnv : 0 < nv) (hs : res.shape = mesh.n ++ [nv]) (hv : ∀ v, valid = some v → v.shape = mesh.n)
    (vd' : Option (List String)) (vm' : VMap) (hvd : vdimsSet nv vd = .ok vd')
    (hvm : vmapSet nv mesh.region.ndim vd' mesh.region.dims vm = .ok vm') :
    ∃ g, mkField mesh nv (.arr res) kind vd valid vm unit = .ok g ∧ g.mesh = mesh ∧ g.nvdim = nv ∧
      g.vdims = vd' ∧ g.vmap = vm' ∧ g.unit = unit ∧ g.kind = kind.ctor ∧ CFwf g := by
  obtain ⟨vl, hvl, hvls⟩ := validSet_accepts mesh valid hv
  have hnv' : ¬ nv < 1 := by omega
  refine ⟨{ mesh := mesh, nvdim := nv,
            data := (⟨mesh.n ++ [nv], fun idx => res.get (bproj res.shape idx)⟩ : NDA GQ).force GQ.zero,
            valid := vl.force false, vdims := vd', vmap := vm', unit := unit, kind := kind.ctor }, ?_, ?_⟩
  · simp only [mkField, hnv', if_false, asArray_exact mesh nv res hs, hvl, hvd, hvm]
    rfl
  · refine ⟨rfl, rfl, rfl, rfl, rfl, rfl, ?_⟩
    exact ⟨rfl, hvls, hnv⟩

/-- the field a constructor returned is `MetaStable` (for a mesh whose region names all
its axes, and labels that were not the explicitly empty list) -/
theorem mkField_stable (mesh : Mesh) (nv : Nat) (val : Value) (kind : Kind) (vd : Option (List String))
    (valid : Option (NDA Bool)) (vm : Option VMap) (unit : Option String) (g : CF)
    (hdims : mesh.region.dims.length = mesh.region.ndim) (hne : vd ≠ some [])
    (h : mkField mesh nv val kind vd valid vm unit = .ok g) : MetaStable g := by
  obtain ⟨hm, hn, hpos, _, _, _, _, _, _, _, _, hvd, hvm, _⟩ := mkField_ok _ _ _ _ _ _ _ _ _ h
  refine ⟨?_, ?_⟩
  · rw [hn]; exact vdimsSet_idem nv hpos vd _ hne hvd
  · rw [hn, hm]
    exact vmapSet_idem nv _ _ _ vm _ hdims (fun l hl => (vdimsSet_result nv hpos vd _ hvd l hl).2.1) hvm

/-- consequences of `MetaStable` -/
theorem MetaStable.labels {f : CF} (hs : MetaStable f) (hp : 0 < f.nvdim) :
    ∀ l, f.vdims = some l → l ≠ [] ∧ l.length = f.nvdim ∧ hasDup l = false :=
  vdimsSet_result f.nvdim hp f.vdims f.vdims hs.1

theorem MetaStable.fix {f : CF} (hs : MetaStable f) (hp : 0 < f.nvdim) : fixVdims f.vdims f.nvdim = f.vdims := by
  unfold fixVdims
  cases hv : f.vdims with
  | none => rfl
  | some l =>
    simp only
    rw [if_neg (by simp [(hs.labels hp l hv).2.1])]

/-- rebuild from a `MetaStable` source with the source's labels and mapping: accepted,
labels and mapping are the source's -/
theorem mkField_from_stable (src : CF) (hst : MetaStable src) (hp : 0 < src.nvdim) (mesh : Mesh) (res : NDA GQ)
    (kind : Kind) (valid : Option (NDA Bool)) (unit : Option String)
    (hs : res.shape = mesh.n ++ [src.nvdim]) (hv : ∀ v, valid = some v → v.shape = mesh.n) :
    ∃ g, mkField mesh src.nvdim (.arr res) kind src.vdims valid (some src.vmap) unit = .ok g ∧ g.mesh = mesh ∧
      g.nvdim = src.nvdim ∧ g.vdims = src.vdims ∧ g.vmap = src.vmap ∧ g.unit = unit ∧ g.kind = kind.ctor ∧ CFwf g :=
  mkField_accepts mesh src.nvdim res kind src.vdims valid (some src.vmap) unit hp hs hv src.vdims src.vmap hst.1
    (vmapSet_some_stable _ _ _ _ _ _ _ hst.2)

end DFV.C03
