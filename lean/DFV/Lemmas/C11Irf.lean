import DFV.Lemmas.C11Real
/-!
C11: `irfftn` as ONE sum over the full box of output counts (every parity of the last count), in
the coordinates of the array the code passes (leading axes shifted, last axis not); numpy's
convention for half spectra that are not Hermitian-consistent (`symPlanes`, `irfftnArrNP`):
closed form, realness for EVERY input, agreement with `irfftnArr` on consistent inputs, and
what `rfftn` reads back from it.
-/
namespace DFV.C11
open DFV

variable {R : Type} [CommRing R]

/-! ### `fftshift(…, axes[:-1])` on the full box -/

omit [CommRing R] in
theorem ishiftR_getD (ns m : List Nat) (a : Nat) (ha : a < m.length) :
    (ishiftR ns m).getD a 0
      = if a + 1 = m.length then m.getD a 0 else (m.getD a 0 + ns.getD a 0 / 2) % ns.getD a 0 := by
  unfold ishiftR; rw [getD_tab _ _ _ _ ha]

omit [CommRing R] in
theorem ishiftR_length (ns m : List Nat) : (ishiftR ns m).length = m.length := by simp [ishiftR]

omit [CommRing R] in
/-- the shift of the leading axes only looks at the leading counts, which the half shape shares -/
theorem ishiftR_half (s x : List Nat) (hl : x.length = s.length) : ishiftR (halfShape s) x = ishiftR s x := by
  unfold ishiftR
  apply tab_congr
  intro a ha
  by_cases h : a + 1 = x.length
  · rw [if_pos h, if_pos h]
  · rw [if_neg h, if_neg h, halfShape_getD s a (by omega), if_neg (by omega)]

omit [CommRing R] in
theorem fshiftR_last (ns m : List Nat) : (fshiftR ns m).getLastD 0 = m.getLastD 0 := by
  rw [getLastD_eq_getD, getLastD_eq_getD, fshiftR_length]
  by_cases h0 : m.length = 0
  · have h1 : fshiftR ns m = [] := List.eq_nil_of_length_eq_zero (by rw [fshiftR_length]; exact h0)
    have h2 : m = [] := List.eq_nil_of_length_eq_zero h0
    rw [h1, h2]
  · rw [fshiftR_getD ns m _ (by omega), if_pos (by omega)]

omit [CommRing R] in
theorem ishiftR_last (ns m : List Nat) : (ishiftR ns m).getLastD 0 = m.getLastD 0 := by
  rw [getLastD_eq_getD, getLastD_eq_getD, ishiftR_length]
  by_cases h0 : m.length = 0
  · have h1 : ishiftR ns m = [] := List.eq_nil_of_length_eq_zero (by rw [ishiftR_length]; exact h0)
    have h2 : m = [] := List.eq_nil_of_length_eq_zero h0
    rw [h1, h2]
  · rw [ishiftR_getD ns m _ (by omega), if_pos (by omega)]

omit [CommRing R] in
/-- on the full box the two partial shifts are mutually inverse -/
theorem ishiftR_fshiftR_full (ns m : List Nat) (h : inRange ns m = true) : ishiftR ns (fshiftR ns m) = m := by
  have hlen : m.length = ns.length := inRange_length _ _ h
  unfold ishiftR
  rw [fshiftR_length]
  symm
  apply eq_tab_of_getD m _ _ 0 rfl
  intro a ha
  rw [fshiftR_getD ns m a ha]
  by_cases hlast : a + 1 = m.length
  · rw [if_pos hlast, if_pos hlast]
  · rw [if_neg hlast, if_neg hlast]
    exact (shift1_inv' _ _ (inRange_getD _ _ h a (by omega))).symm

omit [CommRing R] in
theorem fshiftR_ishiftR_full (ns m : List Nat) (h : inRange ns m = true) : fshiftR ns (ishiftR ns m) = m := by
  have := fshiftR_ishiftR ns m h
  rwa [ishiftR_half ns m (inRange_length _ _ h)] at this

omit [CommRing R] in
theorem fshiftR_inRange_full (ns m : List Nat) (h : inRange ns m = true) : inRange ns (fshiftR ns m) = true := by
  have hlen : m.length = ns.length := inRange_length _ _ h
  apply inRange_of_getD _ _ (by rw [fshiftR_length, hlen])
  intro a ha
  rw [fshiftR_getD ns m a (by omega)]
  have hb := inRange_getD _ _ h a ha
  by_cases hlast : a + 1 = m.length
  · rw [if_pos hlast]; exact hb
  · rw [if_neg hlast]; exact Nat.mod_lt _ (by omega)

omit [CommRing R] in
theorem ishiftR_inRange_full (ns m : List Nat) (h : inRange ns m = true) : inRange ns (ishiftR ns m) = true := by
  have hlen : m.length = ns.length := inRange_length _ _ h
  apply inRange_of_getD _ _ (by rw [ishiftR_length, hlen])
  intro a ha
  rw [ishiftR_getD ns m a (by omega)]
  have hb := inRange_getD _ _ h a ha
  by_cases hlast : a + 1 = m.length
  · rw [if_pos hlast]; exact hb
  · rw [if_neg hlast]; exact Nat.mod_lt _ (by omega)

omit [CommRing R] in
theorem mirrorR_inRange (s m : List Nat) (h : inRange s m = true) : inRange s (mirrorR s m) = true :=
  ishiftR_inRange_full s _ (negIdx_inRange s _ (fshiftR_inRange_full s m h))

omit [CommRing R] in
/-- un-shifting the mirror cell gives the negated un-shifted index -/
theorem fshiftR_mirrorR (s m : List Nat) (h : inRange s m = true) :
    fshiftR s (mirrorR s m) = negIdx s (fshiftR s m) :=
  fshiftR_ishiftR_full s _ (negIdx_inRange s _ (fshiftR_inRange_full s m h))

omit [CommRing R] in
/-- the mirror of the mirror is the cell itself -/
theorem mirrorR_mirrorR (s m : List Nat) (h : inRange s m = true) : mirrorR s (mirrorR s m) = m := by
  unfold mirrorR
  rw [fshiftR_ishiftR_full s _ (negIdx_inRange s _ (fshiftR_inRange_full s m h)),
    negIdx_negIdx s _ (fshiftR_inRange_full s m h), ishiftR_fshiftR_full s m h]

omit [CommRing R] in
/-- last index of the mirror cell: `(n - l) mod n` -/
theorem mirrorR_last (s m : List Nat) (h : inRange s m = true) :
    (mirrorR s m).getLastD 0 = (s.getLastD 0 - m.getLastD 0 % s.getLastD 0) % s.getLastD 0 := by
  unfold mirrorR
  rw [ishiftR_last, negIdx_last s _ (fshiftR_inRange_full s m h), fshiftR_last]

/-- a sum over the full box does not change when the leading axes are rotated -/
theorem sumBox_fshiftR (ns : List Nat) (g : List Nat → R) :
    sumBox ns (fun m => g (fshiftR ns m)) = sumBox ns g := by
  induction ns generalizing g with
  | nil => simp [sumBox, fshiftR, tab]
  | cons n ns ih =>
    simp only [sumBox]
    by_cases hns : ns = []
    · subst hns
      simp only [sumBox]
      apply sumN_congr
      intro r _
      rw [fshiftR_cons]
      simp [fshiftR, tab]
    · have step : ∀ r, sumBox ns (fun rs => g (fshiftR (n :: ns) (r :: rs)))
          = sumBox ns (fun rs => g (((r + (n - n / 2)) % n) :: rs)) := by
        intro r
        rw [← ih (fun rs => g (((r + (n - n / 2)) % n) :: rs))]
        apply sumBox_congr
        intro rs hrs
        have hne : rs ≠ [] := by
          intro e
          apply hns
          have := inRange_length _ _ hrs
          rw [e] at this
          exact List.eq_nil_of_length_eq_zero this.symm
        rw [fshiftR_cons, if_neg hne]
      rw [sumN_congr n _ _ (fun r _ => step r)]
      exact sumN_rotate n (n - n / 2) (by omega) (fun r' => sumBox ns fun rs => g (r' :: rs))

/-- the phase of an index of the full box whose leading axes are shifted -/
theorem twProd_fshiftR_full (ρs : List (Root R)) (ns : List Nat) (hρ : Roots ns ρs) (m r : List Nat)
    (hm : inRange ns m = true) : twProd ρs ns (fshiftR ns m) r = phaseR ρs ns m r := by
  induction ns generalizing ρs m r with
  | nil => simp [twProd, phaseR]
  | cons n ns ih =>
    have hlen : m.length = (n :: ns).length := inRange_length _ _ hm
    cases m with
    | nil => simp at hlen
    | cons j js =>
      obtain ⟨hr, hrs⟩ := hρ
      rw [inRange_cons] at hm
      rw [fshiftR_cons]
      simp only [twProd, phaseR, List.headD_cons, List.tail_cons]
      by_cases hns : ns = []
      · subst hns
        have hjs : js = [] := List.eq_nil_of_length_eq_zero (by simpa using hlen)
        subst hjs
        simp only [if_true, twProd, phaseR, mul_one]
        rw [tw_eq _ _ _ _ hr.pow_n]
      · have hjs : js ≠ [] := by
          intro e; subst e; apply hns; exact List.eq_nil_of_length_eq_zero (by simpa using hlen.symm)
        rw [if_neg hjs, if_neg hns, tw_shift hr j _ hm.1, ih ρs.tail hrs js r.tail hm.2]

/-! ### the inverse transform of a Hermitian extension as one sum in array coordinates -/

/-- the full spectrum in ARRAY coordinates (leading axes shifted) that a half-spectrum array `A`
stands for: `A[m]` for last index `≤ ⌊n/2⌋`, else the conjugate of the mirror cell -/
def hermExtS (conj : R → R) (s : List Nat) (A : List Nat → R) (m : List Nat) : R :=
  if m.getLastD 0 ≤ s.getLastD 0 / 2 then A m else conj (A (mirrorR s m))

/-- `idftN` of the Hermitian extension of an un-shifted half spectrum `A ∘ ifftshift` is
`Π(1/n_a) Σ_m Ã[m] · Π_{a<last} wi_a^(m_a j_a) w_a^(⌊n_a/2⌋ j_a) · wi_last^(m_last j_last)`, the sum
running over ALL cells `m` of the output box and `Ã` the Hermitian extension in array coordinates -/
theorem idftN_hermExt_sum (conj : R → R) (ρs : List (Root R)) (s : List Nat) (hρ : Roots s ρs)
    (A : List Nat → R) (j : List Nat) :
    idftN ρs s (hermExt conj s fun m => A (ishiftR (halfShape s) m)) j
      = ninvProd ρs s * sumBox s fun m => hermExtS conj s A m * phaseR (ρs.map Root.swap) s m j := by
  rw [idftN_eq_sumBox]
  congr 1
  rw [← sumBox_fshiftR s (fun k => hermExt conj s (fun m => A (ishiftR (halfShape s) m)) k * twProdI ρs s j k)]
  apply sumBox_congr
  intro m hm
  have hlen : m.length = s.length := inRange_length _ _ hm
  rw [twProdI_eq, twProd_fshiftR_full _ s (Roots.swap s ρs hρ) m j hm]
  congr 1
  unfold hermExt hermExtS
  rw [fshiftR_last]
  split
  · show A (ishiftR (halfShape s) (fshiftR s m)) = A m
    rw [ishiftR_half s _ (by rw [fshiftR_length, hlen]), ishiftR_fshiftR_full s m hm]
  · show conj (A (ishiftR (halfShape s) (negIdx s (fshiftR s m)))) = conj (A (mirrorR s m))
    rw [ishiftR_half s _ (negIdx_length s _ (fshiftR_inRange_full s m hm))]
    rfl

/-- **`irfftn` as one sum**, for arrays of the shape the code passes (`halfShape s`) -/
theorem irfftnArr_is_idft (conj : R → R) (ρs : List (Root R)) (nv : Nat) (s : List Nat) (a : NDA (List R))
    (hs : a.shape = halfShape s) (hρ : Roots s ρs) (j : List Nat) (c : Nat) (hc : c < nv) :
    compA (irfftnArr conj ρs nv s a) c j
      = ninvProd ρs s * sumBox s fun m => hermExtS conj s (compA a c) m * phaseR (ρs.map Root.swap) s m j := by
  rw [irfftnArr_get _ _ _ _ _ _ _ hc, hs]
  exact idftN_hermExt_sum conj ρs s hρ (compA a c) j

/-! ### numpy's convention on arbitrary half spectra -/

theorem symArr_get (conj : R → R) (half : R) (nv : Nat) (s : List Nat) (a : NDA (List R)) (m : List Nat)
    (c : Nat) (hc : c < nv) : compA (symArr conj half nv s a) c m = symPlanes conj half s (compA a c) m := by
  simp only [compA, symArr]
  rw [getD_tab _ _ _ _ hc]

/-- a plane index stays a plane index under the mirror map -/
theorem plane_mirror (s m : List Nat) (h : inRange s m = true)
    (hp : m.getLastD 0 = 0 ∨ 2 * m.getLastD 0 = s.getLastD 0) :
    (mirrorR s m).getLastD 0 = 0 ∨ 2 * (mirrorR s m).getLastD 0 = s.getLastD 0 := by
  rw [mirrorR_last s m h]
  rcases hp with h0 | h2
  · left; rw [h0]; simp
  · right
    have hl : m.getLastD 0 < s.getLastD 0 ∨ s.getLastD 0 = 0 := by omega
    rcases hl with hl | hl
    · rw [Nat.mod_eq_of_lt hl, Nat.mod_eq_of_lt (by omega)]; omega
    · rw [hl] at h2 ⊢; simp

theorem conj_half {conj : R → R} (hc : IsConj conj) {half : R} (hh : half * 2 = 1) : conj half = half := by
  have h2 : conj (2 : R) = 2 := by
    have := hc.map_natCast 2
    simpa using this
  have h1 : conj half * 2 = 1 := by rw [← h2, ← hc.map_mul, hh, hc.map_one]
  calc conj half = conj half * (half * 2) := by rw [hh, mul_one]
    _ = (conj half * 2) * half := by ring
    _ = half := by rw [h1, one_mul]

/-- **on Hermitian-consistent planes numpy's convention changes nothing** -/
theorem symPlanes_of_consistent (conj : R → R) (half : R) (hh : half * 2 = 1) (s : List Nat)
    (A : List Nat → R) (m : List Nat) (hm : inRange s m = true)
    (hcons : ∀ k, inRange s k = true → (k.getLastD 0 = 0 ∨ 2 * k.getLastD 0 = s.getLastD 0) →
      conj (A k) = A (mirrorR s k)) :
    symPlanes conj half s A m = A m := by
  unfold symPlanes
  split
  · rename_i hp
    have h1 := hcons _ (mirrorR_inRange s m hm) (plane_mirror s m hm hp)
    rw [mirrorR_mirrorR s m hm] at h1
    rw [h1]
    calc half * (A m + A m) = (half * 2) * A m := by ring
      _ = A m := by rw [hh, one_mul]
  · rfl

/-- **the symmetrised planes are Hermitian** for every input -/
theorem symPlanes_hermitian (conj : R → R) (hc : IsConj conj) (hinv : ∀ x, conj (conj x) = x) (half : R)
    (hh : half * 2 = 1) (s : List Nat) (A : List Nat → R) (m : List Nat) (hm : inRange s m = true)
    (hp : m.getLastD 0 = 0 ∨ 2 * m.getLastD 0 = s.getLastD 0) :
    conj (symPlanes conj half s A m) = symPlanes conj half s A (mirrorR s m) := by
  unfold symPlanes
  rw [if_pos hp, if_pos (plane_mirror s m hm hp), mirrorR_mirrorR s m hm, hc.map_mul, hc.map_add, hinv,
    conj_half hc hh]
  ring

/-- a half-spectrum array is Hermitian on its self-mirror planes (array coordinates) -/
def HermPlanes (conj : R → R) (s : List Nat) (A : List Nat → R) : Prop :=
  ∀ m, inRange s m = true → (m.getLastD 0 = 0 ∨ 2 * m.getLastD 0 = s.getLastD 0) → conj (A m) = A (mirrorR s m)

omit [CommRing R] in
/-- the same condition in un-shifted coordinates (the form `irfftnArr_real` asks for) -/
theorem HermPlanes.unshifted {conj : R → R} {s : List Nat} {A : List Nat → R} (h : HermPlanes conj s A)
    (k : List Nat) (hk : inRange s k = true) (hp : k.getLastD 0 = 0 ∨ 2 * k.getLastD 0 = s.getLastD 0) :
    conj (A (ishiftR (halfShape s) k)) = A (ishiftR (halfShape s) (negIdx s k)) := by
  rw [ishiftR_half s k (inRange_length _ _ hk), ishiftR_half s _ (negIdx_length s k hk)]
  have := h (ishiftR s k) (ishiftR_inRange_full s k hk) (by rw [ishiftR_last]; exact hp)
  rw [this]
  unfold mirrorR
  rw [fshiftR_ishiftR_full s k hk]

/-- `irfftnArrNP` as one sum over the output box -/
theorem irfftnArrNP_is_idft (conj : R → R) (half : R) (ρs : List (Root R)) (nv : Nat) (s : List Nat)
    (a : NDA (List R)) (hs : a.shape = halfShape s) (hρ : Roots s ρs) (j : List Nat) (c : Nat) (hc : c < nv) :
    compA (irfftnArrNP conj half ρs nv s a) c j
      = ninvProd ρs s * sumBox s fun m =>
          hermExtS conj s (symPlanes conj half s (compA a c)) m * phaseR (ρs.map Root.swap) s m j := by
  unfold irfftnArrNP
  rw [irfftnArr_is_idft conj ρs nv s (symArr conj half nv s a) hs hρ j c hc]
  have : compA (symArr conj half nv s a) c = symPlanes conj half s (compA a c) := by
    funext m; exact symArr_get conj half nv s a m c hc
  rw [this]

/-- **on Hermitian-consistent half spectra the library's `irfftn` is the inverse DFT of the plain
Hermitian extension** -/
theorem irfftnArrNP_eq_of_consistent (conj : R → R) (half : R) (hh : half * 2 = 1) (ρs : List (Root R))
    (nv : Nat) (s : List Nat) (a : NDA (List R)) (hs : a.shape = halfShape s) (c : Nat) (hc : c < nv)
    (hcons : HermPlanes conj s (compA a c)) (j : List Nat) :
    compA (irfftnArrNP conj half ρs nv s a) c j = compA (irfftnArr conj ρs nv s a) c j := by
  unfold irfftnArrNP
  rw [irfftnArr_get _ _ _ _ _ _ _ hc, irfftnArr_get _ _ _ _ _ _ _ hc]
  apply idftN_congr
  intro k hk
  have hsame : ∀ i, inRange s i = true → compA (symArr conj half nv s a) c i = compA a c i := by
    intro i hi
    rw [symArr_get conj half nv s a i c hc]
    exact symPlanes_of_consistent conj half hh s (compA a c) i hi hcons
  have hsh : (symArr conj half nv s a).shape = a.shape := rfl
  unfold hermExt
  rw [hsh, hs]
  split
  · beta_reduce
    rw [ishiftR_half s k (inRange_length _ _ hk)]
    exact hsame _ (ishiftR_inRange_full s k hk)
  · beta_reduce
    rw [ishiftR_half s _ (negIdx_length s k hk)]
    rw [hsame _ (ishiftR_inRange_full s _ (negIdx_inRange s k hk))]

/-- **the library's `irfftn` returns conj-fixed ("real") data on EVERY half spectrum** -/
theorem irfftnArrNP_real (conj : R → R) (hc : IsConj conj) (hinv : ∀ x, conj (conj x) = x) (half : R)
    (hh : half * 2 = 1) (ρs : List (Root R)) (nv : Nat) (s : List Nat) (a : NDA (List R))
    (hs : a.shape = halfShape s) (hρ : Roots s ρs) (hcr : ConjRoots conj s ρs) (c : Nat) (hcv : c < nv)
    (j : List Nat) :
    conj (compA (irfftnArrNP conj half ρs nv s a) c j) = compA (irfftnArrNP conj half ρs nv s a) c j := by
  unfold irfftnArrNP
  apply irfftnArr_real conj hc hinv ρs nv s _ hρ hcr c hcv
  intro k hk hp
  have hsh : (symArr conj half nv s a).shape = halfShape s := hs
  rw [hsh, symArr_get _ _ _ _ _ _ _ hcv, symArr_get _ _ _ _ _ _ _ hcv,
    ishiftR_half s k (inRange_length _ _ hk), ishiftR_half s _ (negIdx_length s k hk)]
  rw [symPlanes_hermitian conj hc hinv half hh s (compA a c) _ (ishiftR_inRange_full s k hk)
    (by rw [ishiftR_last]; exact hp)]
  unfold mirrorR
  rw [fshiftR_ishiftR_full s k hk]

/-- **what `rfftn` reads back from the library's `irfftn`**: the half spectrum with its self-mirror
planes replaced by their Hermitian part — the half spectrum itself exactly when it is consistent -/
theorem rfftn_irfftnNP_arr (conj : R → R) (half : R) (ρs : List (Root R)) (nv : Nat) (s : List Nat)
    (a : NDA (List R)) (hs : a.shape = halfShape s) (hpos : ∀ n ∈ s, 0 < n) (hρ : Roots s ρs)
    (m : List Nat) (hm : inRange (halfShape s) m = true) (c : Nat) (hc : c < nv) :
    compA (rfftnArr ρs nv (irfftnArrNP conj half ρs nv s a)) c m = symPlanes conj half s (compA a c) m := by
  unfold irfftnArrNP
  rw [rfftn_irfftn_arr conj ρs nv s (symArr conj half nv s a) hs hpos hρ m hm c hc,
    symArr_get _ _ _ _ _ _ _ hc]

end DFV.C11
