import DFV.Lemmas.C09Extend
/-! Instances showing that the hypotheses of the C09 theorems are satisfiable: a lawful toy
codec, the driver's word class, a concrete valid field. -/
namespace DFV.C09
open DFV


/-- a lawful toy codec on `Nat` tokens (every byte of a value is the value) -/
def toyCodec : Codec Nat where
  enc _ w x := List.replicate w x
  dec _ _ bs := bs.headD 0
  magic _ := 7
  zero := 0

theorem toyCodec_lawful : toyCodec.Lawful id := by
  constructor <;> simp [toyCodec]

/-- the driver's word class satisfies what the label theorems ask of `\w` -/
theorem isWordC_class : WordClass isWordC := by
  constructor
  · decide
  · decide
  · decide
  · decide
  · decide
  · intro c h
    cases hw : c.isWhitespace with
    | false => rfl
    | true =>
      exfalso
      simp only [Char.isWhitespace, Bool.or_eq_true, decide_eq_true_eq] at hw
      rcases hw with ((h1 | h1) | h1) | h1 <;> (subst h1; revert h; decide)

/-- a 2 x 1 x 3 mesh on [0,1] x [-1/2,0] x [2,5], three components labelled a_b, c, d -/
def exField : OField Nat :=
  { mesh := { region := { pmin := [0, -1/2, 2], pmax := [1, 0, 5], dims := ["x", "y", "z"],
                          units := ["nm", "nm", "nm"], tol := 1 / 1000000000000 },
              n := [2, 1, 3], bc := "", subs := [] },
    nvdim := 3,
    arr := ⟨[2, 1, 3, 3], fun i => 100 * i.getD 0 0 + 10 * i.getD 2 0 + i.getD 3 0⟩,
    vdims := some ["a_b", "c", "d"], unit := some "A/m" }

theorem exField_valid : Valid exField := by
  constructor
  · rfl
  · rfl
  · rfl
  · intro a ha
    match a, ha with
    | 0, _ => decide +kernel
    | 1, _ => decide +kernel
    | 2, _ => decide +kernel
  · intro a ha
    match a, ha with
    | 0, _ => decide
    | 1, _ => decide
    | 2, _ => decide
  · rfl
  · decide
  · rfl

theorem exField_labels : LabelsOk isWordC (fun s => s == "norm") exField := by
  refine ⟨by decide, ?_⟩
  show ["a_b", "c", "d"].length = 3 ∧ hasDup ["a_b", "c", "d"] = false ∧ _
  refine ⟨rfl, by decide, ?_⟩
  intro v hv
  simp only [List.mem_cons, List.mem_nil_iff, or_false] at hv
  rcases hv with rfl | rfl | rfl <;> exact ⟨⟨by decide, by decide⟩, by decide⟩

theorem exField_unit : UnitOk exField.unit := ⟨⟨by decide, by decide⟩, by decide⟩


end DFV.C09
