import DFV.Lemmas.C18AutoN
import DFV.Lemmas.C18State
import DFV.Model.C18Ext
/-! Change of the unit of length, of the origin and of the unit of the value commutes with `rotate` (C18): geometry. -/
namespace DFV.C18
open DFV DFV.Mesh

variable (s : Rat) (d : Nat → Rat)

theorem affReg_lo (r : Region) (h : r.pmin.length = 3) (a : Nat) (ha : a < 3) : (affReg s d r).lo a = s * r.lo a + d a := by
  unfold affReg Region.lo
  simp only
  rw [h, getD_tab _ _ _ _ ha]

theorem affReg_hi (r : Region) (h : r.pmax.length = 3) (a : Nat) (ha : a < 3) : (affReg s d r).hi a = s * r.hi a + d a := by
  unfold affReg Region.hi
  simp only
  rw [h, getD_tab _ _ _ _ ha]

theorem affReg_edge (r : Region) (h : Is3d r) (a : Nat) (ha : a < 3) : (affReg s d r).edge a = s * r.edge a := by
  unfold Region.edge
  rw [affReg_lo s d r h.1 a ha, affReg_hi s d r h.2 a ha]; ring

theorem affMesh_nAt (m : Mesh) (a : Nat) : (affMesh s d m).nAt a = m.nAt a := rfl

theorem affMesh_cellAt (m : Mesh) (h : Is3d m.region) (a : Nat) (ha : a < 3) : (affMesh s d m).cellAt a = s * m.cellAt a := by
  unfold cellAt
  rw [affMesh_nAt]
  show (affReg s d m.region).edge a / _ = _
  rw [affReg_edge s d _ h a ha, mul_div_assoc]

theorem affMesh_centreAt (m : Mesh) (h : Is3d m.region) (a : Nat) (ha : a < 3) :
    centreAt (affMesh s d m) a = s * centreAt m a + d a := by
  unfold centreAt
  show ((affReg s d m.region).lo a + (affReg s d m.region).hi a) / 2 = _
  rw [affReg_lo s d _ h.1 a ha, affReg_hi s d _ h.2 a ha]; ring

theorem absR_mul_nonneg (s : Rat) (hs : 0 ≤ s) (x : Rat) : absR (s * x) = s * absR x := by
  rw [absR_eq_abs, absR_eq_abs, abs_mul, abs_of_nonneg hs]

theorem sumAbs_smul (hs : 0 ≤ s) (R : M3) (w : V3) (i : Nat) :
    sumAbs R ⟨s * w.x, s * w.y, s * w.z⟩ i = s * sumAbs R w i := by
  unfold sumAbs
  simp only
  rw [show R.e i 0 * (s * w.x) = s * (R.e i 0 * w.x) by ring, show R.e i 1 * (s * w.y) = s * (R.e i 1 * w.y) by ring,
    show R.e i 2 * (s * w.z) = s * (R.e i 2 * w.z) by ring, absR_mul_nonneg s hs, absR_mul_nonneg s hs, absR_mul_nonneg s hs]
  ring

theorem edgesV_aff (m : Mesh) (h : Is3d m.region) :
    edgesV (affMesh s d m) = ⟨s * (edgesV m).x, s * (edgesV m).y, s * (edgesV m).z⟩ := by
  unfold edgesV V3.ofFn
  simp only
  show V3.mk ((affReg s d m.region).edge 0) ((affReg s d m.region).edge 1) ((affReg s d m.region).edge 2) = _
  rw [affReg_edge s d _ h 0 (by omega), affReg_edge s d _ h 1 (by omega), affReg_edge s d _ h 2 (by omega)]

theorem cellV_aff (m : Mesh) (h : Is3d m.region) :
    cellV (affMesh s d m) = ⟨s * (cellV m).x, s * (cellV m).y, s * (cellV m).z⟩ := by
  unfold cellV V3.ofFn
  simp only
  rw [affMesh_cellAt s d _ h 0 (by omega), affMesh_cellAt s d _ h 1 (by omega), affMesh_cellAt s d _ h 2 (by omega)]

/-- `newRegion` in closed form: accepted when no row sum vanishes -/
theorem newRegion_ok_of (f : Fld) (R : M3) (hne : ∀ a, a < 3 → sumAbs R (edgesV f.mesh) a ≠ 0) :
    newRegion f R = .ok (boxRegion f R) := by
  unfold newRegion Region.mk?
  simp only [tab_length, ne_eq, not_true_eq_false, if_false, Region.dimsOk, Region.unitsOk, Nat.succ_ne_zero]
  have hall : allLt 3 (fun a => decide ((tab 3 fun i => centreAt f.mesh i - sumAbs R (edgesV f.mesh) i / 2).getD a 0
      ≠ (tab 3 fun i => centreAt f.mesh i + sumAbs R (edgesV f.mesh) i / 2).getD a 0)) = true := by
    rw [allLt_iff]
    intro a ha
    rw [getD_tab _ _ _ _ ha, getD_tab _ _ _ _ ha]
    have := hne a ha
    simp only [ne_eq, decide_eq_true_eq]
    intro e; apply this; linarith
  simp only [ne_eq] at hall
  rw [hall]
  simp only [Bool.not_true, Bool.false_eq_true, if_false]
  unfold boxRegion
  congr 2
  · apply tab_congr; intro a ha
    rw [getD_tab _ _ _ _ ha, getD_tab _ _ _ _ ha]
    have := sumAbs_nonneg R (edgesV f.mesh) a
    unfold boxLo
    exact min_eq_left (by linarith)
  · apply tab_congr; intro a ha
    rw [getD_tab _ _ _ _ ha, getD_tab _ _ _ _ ha]
    have := sumAbs_nonneg R (edgesV f.mesh) a
    unfold boxHi
    exact max_eq_right (by linarith)

/-- … and refused (zero edge) when one does -/
theorem newRegion_err_of (f : Fld) (R : M3) (hne : ¬ ∀ a, a < 3 → sumAbs R (edgesV f.mesh) a ≠ 0) :
    newRegion f R = .error .value := by
  unfold newRegion Region.mk?
  simp only [tab_length, ne_eq, not_true_eq_false, if_false, Region.dimsOk, Region.unitsOk, Nat.succ_ne_zero]
  have hall : allLt 3 (fun a => decide ((tab 3 fun i => centreAt f.mesh i - sumAbs R (edgesV f.mesh) i / 2).getD a 0
      ≠ (tab 3 fun i => centreAt f.mesh i + sumAbs R (edgesV f.mesh) i / 2).getD a 0)) = false := by
    cases hh : allLt 3 _ with
    | false => rfl
    | true =>
      exfalso; apply hne
      intro a ha
      have := (allLt_iff _ _).mp hh a ha
      rw [getD_tab _ _ _ _ ha, getD_tab _ _ _ _ ha] at this
      simp only [ne_eq, decide_eq_true_eq] at this
      intro e; apply this; rw [e]; ring
  simp only [ne_eq] at hall
  rw [hall]
  simp

theorem boxRegion_aff (hs : 0 ≤ s) (t : Rat) (f : Fld) (h : Is3d f.mesh.region) (R : M3) :
    boxRegion (affFld s d t f) R = affReg s d (boxRegion f R) := by
  unfold boxRegion affReg
  simp only [tab_length]
  congr 1
  · apply tab_congr; intro a ha
    unfold Region.lo
    simp only
    rw [getD_tab _ _ _ _ ha]
    unfold boxLo
    show centreAt (affMesh s d f.mesh) a - sumAbs R (edgesV (affMesh s d f.mesh)) a / 2 = _
    rw [affMesh_centreAt s d _ h a ha, edgesV_aff s d _ h, sumAbs_smul s hs]; ring
  · apply tab_congr; intro a ha
    unfold Region.hi
    simp only
    rw [getD_tab _ _ _ _ ha]
    unfold boxHi
    show centreAt (affMesh s d f.mesh) a + sumAbs R (edgesV (affMesh s d f.mesh)) a / 2 = _
    rw [affMesh_centreAt s d _ h a ha, edgesV_aff s d _ h, sumAbs_smul s hs]; ring

theorem newRegion_aff (hs : 0 < s) (t : Rat) (f : Fld) (h : Is3d f.mesh.region) (R : M3) :
    newRegion (affFld s d t f) R = (newRegion f R).map (affReg s d) := by
  have hiff : (∀ a, a < 3 → sumAbs R (edgesV (affFld s d t f).mesh) a ≠ 0) ↔ (∀ a, a < 3 → sumAbs R (edgesV f.mesh) a ≠ 0) := by
    have e : ∀ a, sumAbs R (edgesV (affFld s d t f).mesh) a = s * sumAbs R (edgesV f.mesh) a := by
      intro a
      show sumAbs R (edgesV (affMesh s d f.mesh)) a = _
      rw [edgesV_aff s d _ h, sumAbs_smul s hs.le]
    constructor
    · intro hh a ha e0; apply hh a ha; rw [e, e0]; ring
    · intro hh a ha e0; rw [e] at e0; exact hh a ha ((mul_eq_zero.mp e0).resolve_left hs.ne')
  by_cases hc : ∀ a, a < 3 → sumAbs R (edgesV f.mesh) a ≠ 0
  · rw [newRegion_ok_of _ _ hc, newRegion_ok_of _ _ (hiff.mpr hc), boxRegion_aff s d hs.le t f h R]; rfl
  · rw [newRegion_err_of _ _ hc, newRegion_err_of _ _ (fun hh => hc (hiff.mp hh))]; rfl
theorem affReg_is3d (r : Region) (h : Is3d r) : Is3d (affReg s d r) := by
  unfold Is3d affReg; simp [h.1, h.2]

theorem autoX3_aff (hs : 0 < s) (t : Rat) (f : Fld) (h : Is3d f.mesh.region) (R : M3) (reg : Region) (hr : Is3d reg)
    (i : Nat) (hi : i < 3) :
    autoX3 (affFld s d t f) R (affReg s d reg) i = autoX3 f R reg i := by
  unfold autoX3
  show cube ((affReg s d reg).edge i) * (sumAbs R (cellV (affMesh s d f.mesh)) 0 * sumAbs R (cellV (affMesh s d f.mesh)) 1 *
      sumAbs R (cellV (affMesh s d f.mesh)) 2) / (cube (sumAbs R (cellV (affMesh s d f.mesh)) i) *
      ((affMesh s d f.mesh).cellAt 0 * (affMesh s d f.mesh).cellAt 1 * (affMesh s d f.mesh).cellAt 2)) = _
  rw [affReg_edge s d reg hr i hi, cellV_aff s d _ h, sumAbs_smul s hs.le, sumAbs_smul s hs.le, sumAbs_smul s hs.le,
    sumAbs_smul s hs.le, affMesh_cellAt s d _ h 0 (by omega), affMesh_cellAt s d _ h 1 (by omega),
    affMesh_cellAt s d _ h 2 (by omega)]
  have h6 : s ^ 6 ≠ 0 := pow_ne_zero 6 hs.ne'
  symm
  rw [← mul_div_mul_left _ _ h6]
  congr 1 <;> (unfold cube; ring)

theorem autoN_aff (hs : 0 < s) (t : Rat) (f : Fld) (h : Is3d f.mesh.region) (R : M3) (reg : Region) (hr : Is3d reg) :
    autoN (affFld s d t f) R (affReg s d reg) = autoN f R reg := by
  unfold autoN
  apply tab_congr
  intro i hi
  rw [autoX3_aff s d hs t f h R reg hr i hi]

theorem affReg_ndim (r : Region) : (affReg s d r).ndim = r.ndim := by
  unfold affReg Region.ndim; simp

theorem mkN_aff (reg : Region) (n : List Nat) :
    Mesh.mkN? (affReg s d reg) n = (Mesh.mkN? reg n).map (affMesh s d) := by
  unfold Mesh.mkN?
  rw [affReg_ndim]
  split
  · rfl
  · split
    · rfl
    · show (if (!Mesh.bcOk reg.dims ("" : String).toLower) = true then _ else _) = _
      split
      · rfl
      · rfl

theorem linspace_aff (a b e : Rat) (n i : Nat) (hi : i < n) :
    (linspace (s * a + e) (s * b + e) n).getD i 0 = s * (linspace a b n).getD i 0 + e := by
  unfold linspace
  by_cases h1 : n = 1
  · rw [if_pos h1, if_pos h1]
    have : i = 0 := by omega
    subst this
    simp
  · rw [if_neg h1, if_neg h1, getD_tab _ _ _ _ hi, getD_tab _ _ _ _ hi]
    ring

theorem gridNode_aff (m : Mesh) (h : Is3d m.region) (a : Nat) (ha : a < 3) (j : Nat) (hj : j ≤ m.nAt a + 1) :
    gridNode (affMesh s d m) a j = s * gridNode m a j := by
  unfold gridNode
  rw [affMesh_nAt, affMesh_centreAt s d m h a ha, affMesh_cellAt s d m h a ha]
  show (if j = 0 then (affReg s d m.region).lo a - _ else if j = m.nAt a + 1 then (affReg s d m.region).hi a + _ else
    (linspace ((affReg s d m.region).lo a + _) ((affReg s d m.region).hi a - _) _).getD _ _) - _ = _
  rw [affReg_lo s d _ h.1 a ha, affReg_hi s d _ h.2 a ha]
  by_cases h0 : j = 0
  · rw [if_pos h0, if_pos h0]; ring
  · rw [if_neg h0, if_neg h0]
    by_cases h1 : j = m.nAt a + 1
    · rw [if_pos h1, if_pos h1]; ring
    · rw [if_neg h1, if_neg h1]
      rw [show s * m.region.lo a + d a + s * m.cellAt a / 2 = s * (m.region.lo a + m.cellAt a / 2) + d a by ring,
        show s * m.region.hi a + d a - s * m.cellAt a / 2 = s * (m.region.hi a - m.cellAt a / 2) + d a by ring,
        linspace_aff s _ _ _ _ _ (by omega)]
      ring

/-! ### the interval search does not see a positive rescaling -/

theorem findIdx_scale (hs : 0 < s) (g g' : Nat → Rat) (x : Rat) (m : Nat) (hg : ∀ j, j ≤ m → g' j = s * g j) :
    ∀ k, k ≤ m → findIdx g' (s * x) k = findIdx g x k := by
  intro k
  induction k with
  | zero => intro _; rfl
  | succ k ih =>
    intro hk
    unfold findIdx
    rw [hg (k + 1) hk, ih (by omega)]
    have : (s * g (k + 1) ≤ s * x) ↔ (g (k + 1) ≤ x) := mul_le_mul_iff_of_pos_left hs
    simp only [this]

theorem inBounds_scale (hs : 0 < s) (g g' : Nat → Rat) (x : Rat) (m : Nat) (hg : ∀ j, j ≤ m + 1 → g' j = s * g j) :
    inBounds g' m (s * x) = inBounds g m x := by
  unfold inBounds
  rw [hg 0 (by omega), hg (m + 1) (by omega)]
  have h1 : (s * g 0 ≤ s * x) ↔ (g 0 ≤ x) := mul_le_mul_iff_of_pos_left hs
  have h2 : (s * x ≤ s * g (m + 1)) ↔ (x ≤ g (m + 1)) := mul_le_mul_iff_of_pos_left hs
  simp only [h1, h2]

theorem frac_scale (hs : 0 < s) (g g' : Nat → Rat) (x : Rat) (m i : Nat) (hi : i ≤ m) (hg : ∀ j, j ≤ m + 1 → g' j = s * g j) :
    frac g' i (s * x) = frac g i x := by
  unfold frac
  rw [hg i (by omega), hg (i + 1) (by omega), ← mul_sub, ← mul_sub, mul_div_mul_left _ _ hs.ne']

theorem locate_scale (hs : 0 < s) (g0 g1 g2 g0' g1' g2' : Nat → Rat) (m0 m1 m2 : Nat)
    (h0 : ∀ j, j ≤ m0 + 1 → g0' j = s * g0 j) (h1 : ∀ j, j ≤ m1 + 1 → g1' j = s * g1 j)
    (h2 : ∀ j, j ≤ m2 + 1 → g2' j = s * g2 j) (p : V3) :
    locate g0' g1' g2' m0 m1 m2 ⟨s * p.x, s * p.y, s * p.z⟩ = locate g0 g1 g2 m0 m1 m2 p := by
  unfold locate
  simp only
  rw [inBounds_scale s hs g0 g0' p.x m0 h0, inBounds_scale s hs g1 g1' p.y m1 h1, inBounds_scale s hs g2 g2' p.z m2 h2,
    findIdx_scale s hs g0 g0' p.x m0 (fun j hj => h0 j (by omega)) m0 (le_refl _),
    findIdx_scale s hs g1 g1' p.y m1 (fun j hj => h1 j (by omega)) m1 (le_refl _),
    findIdx_scale s hs g2 g2' p.z m2 (fun j hj => h2 j (by omega)) m2 (le_refl _),
    frac_scale s hs g0 g0' p.x m0 _ (findIdx_le _ _ _) h0, frac_scale s hs g1 g1' p.y m1 _ (findIdx_le _ _ _) h1,
    frac_scale s hs g2 g2' p.z m2 _ (findIdx_le _ _ _) h2]

theorem locOf_aff (hs : 0 < s) (t : Rat) (f : Fld) (h : Is3d f.mesh.region) (p : V3) :
    locOf (affFld s d t f) ⟨s * p.x, s * p.y, s * p.z⟩ = locOf f p := by
  unfold locOf
  exact locate_scale s hs _ _ _ _ _ _ _ _ _ (fun j hj => gridNode_aff s d f.mesh h 0 (by omega) j hj)
    (fun j hj => gridNode_aff s d f.mesh h 1 (by omega) j hj) (fun j hj => gridNode_aff s d f.mesh h 2 (by omega) j hj) p

theorem affMesh_ndim (m : Mesh) : (affMesh s d m).ndim = m.ndim := affReg_ndim s d m.region

theorem centre_aff (nm : Mesh) (h : Is3d nm.region) (idx : List Nat) (a : Nat) (ha : a < 3) :
    ((affMesh s d nm).centre idx).getD a 0 = s * (nm.centre idx).getD a 0 + d a := by
  have hnd : nm.ndim = 3 := h.1
  unfold Mesh.centre
  rw [affMesh_ndim, hnd, getD_tab _ _ _ _ ha, getD_tab _ _ _ _ ha]
  unfold centreAx
  rw [affMesh_cellAt s d nm h a ha]
  show (affReg s d nm.region).lo a + _ = _
  rw [affReg_lo s d _ h.1 a ha]; ring

theorem backPos_aff (t : Rat) (f : Fld) (h : Is3d f.mesh.region) (R : M3) (nm : Mesh) (hn : Is3d nm.region) (idx : List Nat) :
    backPos (affFld s d t f) R (affMesh s d nm) idx
      = ⟨s * (backPos f R nm idx).x, s * (backPos f R nm idx).y, s * (backPos f R nm idx).z⟩ := by
  unfold backPos centreV V3.ofFn V3.ofList V3.sub
  simp only
  show R.tr.apply ⟨_ - centreAt (affMesh s d f.mesh) 0, _ - centreAt (affMesh s d f.mesh) 1, _ - centreAt (affMesh s d f.mesh) 2⟩ = _
  rw [centre_aff s d nm hn idx 0 (by omega), centre_aff s d nm hn idx 1 (by omega), centre_aff s d nm hn idx 2 (by omega),
    affMesh_centreAt s d _ h 0 (by omega), affMesh_centreAt s d _ h 1 (by omega), affMesh_centreAt s d _ h 2 (by omega)]
  simp only [M3.apply, V3.dot, V3.mk.injEq]
  refine ⟨?_, ?_, ?_⟩ <;> ring

theorem getD_map_mul (t : Rat) (v : List Rat) (c : Nat) : (v.map (t * ·)).getD c 0 = t * v.getD c 0 := by
  rw [List.getD_eq_getElem?_getD, List.getD_eq_getElem?_getD, List.getElem?_map]
  cases v[c]? <;> simp

theorem rotVal_smul (t : Rat) (nvdim : Nat) (R : M3) (ord : List Nat) (v : List Rat) (c : Nat) :
    (rotVal nvdim R ord (v.map (t * ·))).getD c 0 = t * (rotVal nvdim R ord v).getD c 0 := by
  unfold rotVal
  by_cases h1 : nvdim = 1
  · rw [if_pos h1, if_pos h1, getD_map_mul]
  · rw [if_neg h1, if_neg h1]
    by_cases hc : c < 3
    · rw [getD_tab _ _ _ _ hc, getD_tab _ _ _ _ hc, M3.apply_get, M3.apply_get]
      simp only [getD_map_mul]
      ring
    · rw [getD_tab_ge _ _ _ _ (by omega), getD_tab_ge _ _ _ _ (by omega)]; ring

theorem padded_aff (t : Rat) (f : Fld) (R : M3) (ord : List Nat) (c i j k : Nat) :
    padded (affFld s d t f) R ord c i j k = t * padded f R ord c i j k := by
  unfold padded
  exact rotVal_smul t f.nvdim R ord _ c

theorem interpAt_smul (t : Rat) (V : Nat → Nat → Nat → Rat) (l : Option Loc) :
    interpAt (fun i j k => t * V i j k) l = t * interpAt V l := by
  cases l with
  | none => simp [interpAt]
  | some l => simp only [interpAt, sum8]; ring

theorem valuesAt_aff (hs : 0 < s) (t : Rat) (f : Fld) (h : Is3d f.mesh.region) (R : M3) (ord : List Nat) (p : V3) :
    valuesAt (affFld s d t f) R ord ⟨s * p.x, s * p.y, s * p.z⟩ = (valuesAt f R ord p).map (t * ·) := by
  unfold valuesAt
  rw [locOf_aff s d hs t f h p]
  show tab f.nvdim _ = _
  unfold tab
  rw [List.map_map]
  apply List.map_congr_left
  intro c _
  simp only [Function.comp]
  rw [← interpAt_smul]
  congr 1
  funext i j k
  exact padded_aff s d t f R ord c i j k

theorem rotated_aff (hs : 0 < s) (t : Rat) (f : Fld) (h : Is3d f.mesh.region) (R : M3) (ord : List Nat) (nm : Mesh)
    (hn : Is3d nm.region) :
    rotated (affFld s d t f) R ord (affMesh s d nm) = affFld s d t (rotated f R ord nm) := by
  have key : ∀ idx, resampleAt (affFld s d t f) R ord (affMesh s d nm) idx = (resampleAt f R ord nm idx).map (t * ·) := by
    intro idx
    unfold resampleAt
    rw [backPos_aff s d t f h R nm hn idx]
    exact valuesAt_aff s d hs t f h R ord _
  unfold rotated affFld
  simp only [NDA.map]
  congr 1
  show NDA.mk nm.n _ = NDA.mk nm.n _
  congr 1
  funext idx
  exact key idx

theorem ordFor_aff (t : Rat) (f : Fld) : ordFor (affFld s d t f) = ordFor f := rfl

theorem boxRegion_is3d (f : Fld) (R : M3) : Is3d (boxRegion f R) := by
  unfold Is3d boxRegion; simp

/-- **homogeneity of `rotate`**: changing the unit of length (`s > 0`), the origin (`d`) and the
unit of the value (`t`) of the input changes the output in the same way — whatever the matrix,
whatever `n`, refusals included -/
theorem rotateOnce_aff (hs : 0 < s) (t : Rat) (f : Fld) (h : Is3d f.mesh.region) (R : M3) (n? : Option (List Nat)) :
    rotateOnce (affFld s d t f) R n? = (rotateOnce f R n?).map (affFld s d t) := by
  unfold rotateOnce
  rw [newRegion_aff s d hs t f h R, ordFor_aff]
  by_cases hc : ∀ a, a < 3 → sumAbs R (edgesV f.mesh) a ≠ 0
  · rw [newRegion_ok_of _ _ hc]
    simp only [Except.map]
    rw [autoN_aff s d hs t f h R _ (boxRegion_is3d f R), mkN_aff]
    cases hmk : Mesh.mkN? (boxRegion f R) (n?.getD (autoN f R (boxRegion f R))) with
    | error e => rfl
    | ok nm =>
      simp only [Except.map]
      cases ho : ordFor f with
      | error e => rfl
      | ok ord =>
        simp only
        have hn : Is3d nm.region := by
          rw [(mkN?_ok_inv _ _ nm hmk).1]; exact boxRegion_is3d f R
        rw [rotated_aff s d hs t f h R ord nm hn]
  · rw [newRegion_err_of _ _ hc]
    rfl

/-- the rotator of the same field in other units -/
def affRot (t : Rat) (st : Rotator) : Rotator := ⟨affFld s d t st.orig, st.rot, affFld s d t st.cur⟩

theorem init_aff (t : Rat) (f : Fld) : init? (affFld s d t f) = (init? f).map (affRot s d t) := by
  unfold init?
  have hnd : (affFld s d t f).mesh.region.ndim = f.mesh.region.ndim := affReg_ndim s d f.mesh.region
  rw [hnd]
  have e1 : (affFld s d t f).nvdim = f.nvdim := rfl
  have e2 : (affFld s d t f).vdims = f.vdims := rfl
  have e3 : (affFld s d t f).vmap = f.vmap := rfl
  have e4 : (affFld s d t f).mesh.region.dims = f.mesh.region.dims := rfl
  rw [e1, e2, e3, e4]
  by_cases h1 : f.nvdim ≠ 1 ∧ f.nvdim ≠ 3
  · simp only [if_pos h1]; rfl
  · simp only [if_neg h1]
    by_cases h2 : f.mesh.region.ndim ≠ 3
    · simp only [if_pos h2]; rfl
    · simp only [if_neg h2]
      split
      · rfl
      · rfl

theorem step_aff (hs : 0 < s) (t : Rat) (st : Rotator) (h : Is3d st.orig.mesh.region) (op : Op) :
    step (affRot s d t st) op = (affRot s d t (step st op).1, (step st op).2) := by
  cases op with
  | rotate Q n? =>
    simp only [step]
    show (match rotateOnce (affFld s d t st.orig) (Q.mul st.rot) n? with
      | .ok g => _
      | .error e => _) = _
    rw [rotateOnce_aff s d hs t st.orig h]
    cases rotateOnce st.orig (Q.mul st.rot) n? with
    | ok g => rfl
    | error e => rfl
  | clear => rfl
  | unknown => rfl

theorem run_aff (hs : 0 < s) (t : Rat) (st : Rotator) (h : Is3d st.orig.mesh.region) (ops : List Op) :
    run (affRot s d t st) ops = affRot s d t (run st ops) := by
  induction ops generalizing st with
  | nil => rfl
  | cons op ops ih =>
    simp only [run]
    rw [step_aff s d hs t st h op]
    exact ih _ (by rw [step_orig]; exact h)

end DFV.C18
