import DFV.Lemmas.C02Iff
/-! C02 helper lemmas, part 17: a dictionary over subregions is accepted exactly when it is well
formed (`dictWF`): statement on the inputs alone. -/
namespace DFV.C02
open DFV DFV.Mesh

variable {V : Type} [Inhabited V]

/-- the `default` entry can be handed to `np.full` (a callable or absent default is not) -/
def dfltFillOk (dflt : Option (Dflt V)) (m : Mesh) (nv : Nat) : Prop :=
  match dflt with
  | some (.val d) => bcastOk (m.n ++ [nv]) d.shape = true
  | some .bad => False
  | _ => True

/-- the `default` entry serves cell `i` (asked only for cells no listed subregion covers): a
constant always does, a function must return `nv` numbers at the cell centre, a field must have
`nv` components and be defined at the cell centre; an absent default serves no cell -/
def dfltCellOk (dflt : Option (Dflt V)) (m : Mesh) (nv : Nat) (i : List Nat) : Prop :=
  match dflt with
  | none => False
  | some (.val _) => True
  | some (.func fn) => (fn (m.centre i)).length = nv
  | some (.field src) => src.nvdim = nv ∧ ∃ j, src.mesh.point2index (m.centre i) = .ok j
  | some .bad => False

/-- WELL-FORMED dictionary on a mesh whose subregions are unions of cells (index boxes `k1 p … k2 p`):
the default can be broadcast if it is a constant, every listed subregion's value is well formed on
the subregion's own mesh (also a subregion hidden behind earlier ones), and the default serves every
cell that no listed subregion covers. -/
def dictWF (isZero : V → Bool) (items : List (String × Leaf V)) (dflt : Option (Dflt V)) (m : Mesh) (nv : Nat)
    (k1 k2 : String × Region → Nat → Nat) : Prop :=
  dfltFillOk dflt m nv ∧
  (∀ p ∈ m.subs, ∀ lf, lookupLeaf items p.1 = some lf →
    Leaf.WF isZero lf (subMeshOf m p.2 (k1 p) (k2 p)) nv) ∧
  (∀ i, inRange m.n i = true → (∀ p ∈ m.subs, hits items m k1 k2 i p = false) → dfltCellOk dflt m nv i)

omit [Inhabited V] in
theorem fillOf_ok_iff (dflt : Option (Dflt V)) (m : Mesh) (nv : Nat) :
    (∃ a0, fillOf dflt m nv = .ok a0) ↔ dfltFillOk dflt m nv := by
  unfold fillOf dfltFillOk
  cases dflt with
  | none => exact ⟨fun _ => trivial, fun _ => ⟨_, rfl⟩⟩
  | some d =>
    cases d with
    | val arr =>
      simp only [bcast]
      by_cases hb : bcastOk (m.n ++ [nv]) arr.shape = true
      · simp only [hb, if_true]; exact ⟨fun _ => trivial, fun _ => ⟨_, rfl⟩⟩
      · simp only [hb]
        constructor
        · rintro ⟨a0, h⟩; cases h
        · intro h; exact absurd h (by simp)
    | func f => exact ⟨fun _ => trivial, fun _ => ⟨_, rfl⟩⟩
    | field src => exact ⟨fun _ => trivial, fun _ => ⟨_, rfl⟩⟩
    | bad =>
      constructor
      · rintro ⟨a0, h⟩; cases h
      · intro h; exact absurd h id

/-- decomposition of an accepted dictionary conversion -/
theorem asArray_dict_parts (isZero : V → Bool) (items : List (String × Leaf V)) (dflt : Option (Dflt V))
    (m : Mesh) (nv : Nat) (a : NDA V) (h : asArray isZero (.dict items dflt) m nv = .ok a) :
    ∃ a0 a1, fillOf dflt m nv = .ok a0 ∧ dictLoop isZero items m nv m.subs.reverse a0 = .ok a1 ∧
      (anyNone a1 = true → ∃ d a2, dflt = some d ∧ dfltLoop d m nv (nanCells m a1) a1 = .ok a2) := by
  simp only [asArray] at h
  split at h
  · cases h
  · rename_i a0 hfill
    split at h
    · cases h
    · rename_i a1 hloop
      refine ⟨a0, a1, hfill, hloop, fun hany => ?_⟩
      rw [hany] at h
      simp only [if_true] at h
      split at h
      · cases h
      · rename_i d
        split at h
        · cases h
        · rename_i a2 hdl
          exact ⟨d, a2, rfl, hdl⟩

/-- an accepted default pass evaluated the default, with `nv` values, at every cell of its list -/
theorem dfltLoop_cells_of_ok (d : Dflt V) (m : Mesh) (nv : Nat) (l : List (List Nat)) (a b : NDA (Option V))
    (h : dfltLoop d m nv l a = .ok b) : ∀ i ∈ l, ∃ vs, dfltCell d m i = .ok vs ∧ vs.length = nv := by
  induction l generalizing a with
  | nil => simp
  | cons i0 rest ih =>
    simp only [dfltLoop] at h
    split at h
    · cases h
    · rename_i vs hvs
      split at h
      · cases h
      · rename_i hlen
        intro i hi
        rcases List.mem_cons.mp hi with rfl | hi'
        · exact ⟨vs, hvs, by simpa using hlen⟩
        · exact ih _ h i hi'

omit [Inhabited V] in
/-- a sentinel array of shape `(*n, nv)` with an unset entry has one at some cell and component -/
theorem anyNone_true_cell (a : NDA (Option V)) (n : List Nat) (nv : Nat) (hs : a.shape = n ++ [nv])
    (hpos : ∀ k ∈ n, 0 < k) (h : anyNone a = true) :
    ∃ i c, inRange n i = true ∧ c < nv ∧ a.get (i ++ [c]) = none := by
  unfold anyNone at h
  rw [List.any_eq_true] at h
  obtain ⟨j, hj, hnone⟩ := h
  rw [hs] at hj
  simp only [indicesC, List.mem_map, List.mem_range] at hj
  obtain ⟨k, hk, rfl⟩ := hj
  have hnv : 0 < nv := by
    by_contra h0
    have : nv = 0 := by omega
    subst this
    simp [natProd_append, natProd] at hk
  have hpos' : ∀ q ∈ n ++ [nv], 0 < q := by
    intro q hq
    rcases List.mem_append.mp hq with h | h
    · exact hpos q h
    · simp at h; omega
  have hr := unflatC_inRange (n ++ [nv]) k hpos' hk
  obtain ⟨i, c, hic⟩ : ∃ i c, unflatC (n ++ [nv]) k = i ++ [c] := by
    have hl := inRange_length _ _ hr
    have hne : unflatC (n ++ [nv]) k ≠ [] := by
      intro e; rw [e] at hl; simp at hl
    exact ⟨_, _, (List.dropLast_append_getLast hne).symm⟩
  rw [hic] at hr hnone
  rw [inRange_snoc] at hr
  simp only [Bool.and_eq_true, decide_eq_true_eq] at hr
  refine ⟨i, c, hr.1, hr.2, ?_⟩
  cases hh : a.get (i ++ [c]) with
  | none => rfl
  | some v => rw [hh] at hnone; simp at hnone

/-- after the loop over the subregions an entry that was unset before is still unset exactly when
no listed subregion covers its cell -/
theorem loop_entry_none_iff (isZero : V → Bool) (items : List (String × Leaf V)) (m : Mesh) (hm : m.Inv) (nv : Nat)
    (k1 k2 : String × Region → Nat → Nat)
    (hal : ∀ p ∈ m.subs, AlignedSub m p.2 (k1 p) (k2 p))
    (hok : ∀ p ∈ m.subs, ∀ lf, lookupLeaf items p.1 = some lf →
      ∃ sub, asLeaf isZero lf (subMeshOf m p.2 (k1 p) (k2 p)) nv = .ok sub ∧
        sub.shape = (subMeshOf m p.2 (k1 p) (k2 p)).n ++ [nv])
    (a0 a1 : NDA (Option V)) (hloop : dictLoop isZero items m nv m.subs.reverse a0 = .ok a1)
    (i : List Nat) (hi : inRange m.n i = true) (c : Nat) (hc : c < nv) (h0 : a0.get (i ++ [c]) = none) :
    a1.get (i ++ [c]) = none ↔ ∀ p ∈ m.subs, hits items m k1 k2 i p = false := by
  have hil : i.length = m.ndim := (inRange_length _ _ hi).trans hm.2.1
  obtain ⟨_, hg1⟩ := dictLoop_get isZero items m nv _ a0 a1 hloop
  simp only [List.reverse_reverse] at hg1
  rw [hg1, h0, findSome_patch isZero items m hm nv k1 k2 i hil c hc m.subs hal hok]
  cases hf : m.subs.find? (hits items m k1 k2 i) with
  | none =>
    simp only [Option.map_none, Option.or_none, true_iff]
    intro p hp
    have := List.find?_eq_none.mp hf p hp
    simpa using this
  | some q =>
    simp only [Option.map_some, Option.some_or, false_iff, reduceCtorEq]
    intro hall
    have hq := List.mem_of_find?_eq_some hf
    have hq2 := List.find?_some hf
    rw [hall q hq] at hq2
    cases hq2

/-- every listed leaf of an accepted dictionary converts, with the shape of its submesh -/
theorem listed_ok_shape (isZero : V → Bool) (items : List (String × Leaf V)) (m : Mesh) (nv : Nat)
    (k1 k2 : String × Region → Nat → Nat)
    (hwf : ∀ p ∈ m.subs, ∀ lf, lookupLeaf items p.1 = some lf →
      Leaf.WF isZero lf (subMeshOf m p.2 (k1 p) (k2 p)) nv) :
    ∀ p ∈ m.subs, ∀ lf, lookupLeaf items p.1 = some lf →
      ∃ sub, asLeaf isZero lf (subMeshOf m p.2 (k1 p) (k2 p)) nv = .ok sub ∧
        sub.shape = (subMeshOf m p.2 (k1 p) (k2 p)).n ++ [nv] := by
  intro p hp lf hl
  obtain ⟨sub, hsub⟩ := asLeaf_ok_of_wf isZero lf _ nv (hwf p hp lf hl)
  exact ⟨sub, hsub, asLeaf_shape isZero lf _ nv sub hsub⟩

/-- accepted ⇒ well formed -/
theorem dict_wf_of_ok (isZero : V → Bool) (items : List (String × Leaf V)) (dflt : Option (Dflt V))
    (m : Mesh) (hm : m.Inv) (nv : Nat) (hnv : 0 < nv) (k1 k2 : String × Region → Nat → Nat)
    (hal : ∀ p ∈ m.subs, AlignedSub m p.2 (k1 p) (k2 p)) (a : NDA V)
    (h : asArray isZero (.dict items dflt) m nv = .ok a) : dictWF isZero items dflt m nv k1 k2 := by
  have hlen : m.n.length = m.ndim := hm.2.1
  obtain ⟨a0, a1, hfill, hloop, hdef⟩ := asArray_dict_parts isZero items dflt m nv a h
  have hwf : ∀ p ∈ m.subs, ∀ lf, lookupLeaf items p.1 = some lf →
      Leaf.WF isZero lf (subMeshOf m p.2 (k1 p) (k2 p)) nv := by
    intro p hp lf hl
    obtain ⟨sub, hsub⟩ := listed_leaf_ok isZero items dflt m hm nv a h k1 k2 p hp (hal p hp) lf hl
    exact wf_of_asLeaf_ok isZero lf _ nv sub hsub
  refine ⟨(fillOf_ok_iff dflt m nv).mp ⟨a0, hfill⟩, hwf, fun i hi hno => ?_⟩
  obtain ⟨hs0, hfill'⟩ := fillOf_ok dflt m nv a0 hfill
  rcases hfill' with ⟨arr, hd, _⟩ | ⟨hd, hget⟩
  · subst hd; exact trivial
  · have hok := listed_ok_shape isZero items m nv k1 k2 hwf
    have n0 : a1.get (i ++ [0]) = none :=
      (loop_entry_none_iff isZero items m hm nv k1 k2 hal hok a0 a1 hloop i hi 0 hnv (hget _)).mpr hno
    obtain ⟨hs1, _⟩ := dictLoop_get isZero items m nv _ a0 a1 hloop
    have hj : inRange (m.n ++ [nv]) (i ++ [0]) = true := by rw [inRange_snoc, hi]; simp [hnv]
    have hany : anyNone a1 = true := anyNone_true a1 (i ++ [0]) (by rw [hs1, hs0]; exact hj) n0
    obtain ⟨d, a2, hd2, hdl⟩ := hdef hany
    subst hd2
    have hin : i ∈ nanCells m a1 := by
      rw [mem_nanCells]; exact ⟨mem_indicesC _ _ hi, by simp [n0]⟩
    obtain ⟨vs, hvs, hvl⟩ := dfltLoop_cells_of_ok d m nv _ a1 a2 hdl i hin
    unfold dfltCell at hvs
    rw [index2point_nat m hlen i hi] at hvs
    simp only at hvs
    cases d with
    | val arr => exact trivial
    | func fn =>
      simp only at hvs
      injection hvs with hvs; subst hvs; exact hvl
    | field src =>
      simp only [VF.call] at hvs
      split at hvs
      · cases hvs
      · rename_i j hj
        injection hvs with hvs; subst hvs
        exact ⟨by simpa [row] using hvl, j, hj⟩
    | bad => cases hvs

/-- well formed ⇒ accepted -/
theorem dict_ok_of_wf (isZero : V → Bool) (items : List (String × Leaf V)) (dflt : Option (Dflt V))
    (m : Mesh) (hm : m.Inv) (nv : Nat) (hnv : 0 < nv) (k1 k2 : String × Region → Nat → Nat)
    (hal : ∀ p ∈ m.subs, AlignedSub m p.2 (k1 p) (k2 p))
    (h : dictWF isZero items dflt m nv k1 k2) :
    ∃ a, asArray isZero (.dict items dflt) m nv = .ok a := by
  have hlen : m.n.length = m.ndim := hm.2.1
  obtain ⟨hf, hwf, hcell⟩ := h
  obtain ⟨a0, hfill⟩ := (fillOf_ok_iff dflt m nv).mpr hf
  have hok := listed_ok_shape isZero items m nv k1 k2 hwf
  obtain ⟨a1, hloop, hkeep⟩ := dictLoop_ok isZero items m hm nv k1 k2 m.subs.reverse
    (fun p hp => hal p (by simpa using hp)) (fun p hp => hok p (by simpa using hp)) a0
  obtain ⟨hs0, hfill'⟩ := fillOf_ok dflt m nv a0 hfill
  obtain ⟨hs1, _⟩ := dictLoop_get isZero items m nv _ a0 a1 hloop
  simp only [asArray, hfill, hloop]
  by_cases hany : anyNone a1 = true
  · rw [hany]
    simp only [if_true]
    rcases hfill' with ⟨arr, hd, hget⟩ | ⟨hd, hget⟩
    · -- constant default: nothing is unset
      exfalso
      have : anyNone a1 = false := anyNone_of_all_some a1 fun j => hkeep j (by rw [hget]; rfl)
      rw [this] at hany; cases hany
    · -- the unset cells are the uncovered ones
      have hunc : ∀ i c, inRange m.n i = true → c < nv → a1.get (i ++ [c]) = none →
          ∀ p ∈ m.subs, hits items m k1 k2 i p = false := fun i c hi hc hn =>
        (loop_entry_none_iff isZero items m hm nv k1 k2 hal hok a0 a1 hloop i hi c hc (hget _)).mp hn
      cases dflt with
      | none =>
        exfalso
        obtain ⟨i, c, hi, hc, hn⟩ := anyNone_true_cell a1 m.n nv (by rw [hs1, hs0]) (inv_all_pos m hm) hany
        exact hcell i hi (hunc i c hi hc hn)
      | some d =>
        simp only
        have hcells : ∀ i ∈ nanCells m a1, ∃ vs, dfltCell d m i = .ok vs ∧ vs.length = nv := by
          intro i hin
          have hi := mem_nanCells_inRange m a1 i hin (inv_all_pos m hm)
          have n0 : a1.get (i ++ [0]) = none := by
            have := ((mem_nanCells m a1 i).mp hin).2
            cases hh : a1.get (i ++ [0]) with
            | none => rfl
            | some v => rw [hh] at this; simp at this
          have hc := hcell i hi (hunc i 0 hi hnv n0)
          unfold dfltCell
          rw [index2point_nat m hlen i hi]
          cases d with
          | val arr => exact absurd rfl (hd arr)
          | func fn => exact ⟨_, rfl, hc⟩
          | field src =>
            obtain ⟨h1, j, hj⟩ := hc
            exact ⟨row src.data src.nvdim j, by simp [VF.call, hj], by simp [row, h1]⟩
          | bad => exact absurd hc id
        obtain ⟨a2, ha2⟩ := dfltLoop_ok d m nv (nanCells m a1) a1 hcells
        rw [ha2]
        exact ⟨_, rfl⟩
  · have : anyNone a1 = false := by
      cases hh : anyNone a1 with
      | true => exact absurd hh hany
      | false => rfl
    rw [this]
    exact ⟨_, rfl⟩

/-- WELL-FORMED specification of any kind, on the inputs alone -/
def Spec.WF (isZero : V → Bool) (s : Spec V) (m : Mesh) (nv : Nat) (k1 k2 : String × Region → Nat → Nat) : Prop :=
  match s with
  | .leaf l => Leaf.WF isZero l m nv
  | .dict items dflt => dictWF isZero items dflt m nv k1 k2

theorem spec_ok_iff (isZero : V → Bool) (s : Spec V) (m : Mesh) (hm : m.Inv) (nv : Nat) (hnv : 0 < nv)
    (k1 k2 : String × Region → Nat → Nat) (hal : ∀ p ∈ m.subs, AlignedSub m p.2 (k1 p) (k2 p)) :
    (∃ a, asArray isZero s m nv = .ok a) ↔ Spec.WF isZero s m nv k1 k2 := by
  cases s with
  | leaf l =>
    simp only [asArray, Spec.WF]
    exact ⟨fun ⟨a, h⟩ => wf_of_asLeaf_ok isZero l m nv a h, asLeaf_ok_of_wf isZero l m nv⟩
  | dict items dflt =>
    simp only [Spec.WF]
    exact ⟨fun ⟨a, h⟩ => dict_wf_of_ok isZero items dflt m hm nv hnv k1 k2 hal a h,
      dict_ok_of_wf isZero items dflt m hm nv hnv k1 k2 hal⟩

omit [Inhabited V] in
/-- `lookupLeaf` only depends on the set of entries when the keys are pairwise different (Python
dictionaries have unique keys): the insertion order of the value dictionary is irrelevant -/
theorem lookupLeaf_perm (items items' : List (String × Leaf V)) (hp : items.Perm items')
    (hnd : (items.map (·.1)).Nodup) (name : String) : lookupLeaf items name = lookupLeaf items' name := by
  unfold lookupLeaf
  congr 1
  induction hp with
  | nil => rfl
  | cons x _ ih =>
    simp only [List.find?_cons]
    split
    · rfl
    · exact ih (by simpa using (List.nodup_cons.mp (by simpa using hnd)).2)
  | swap x y l =>
    simp only [List.map_cons, List.nodup_cons, List.mem_cons, not_or] at hnd
    simp only [List.find?_cons]
    by_cases hx : (x.1 == name) = true
    · by_cases hy : (y.1 == name) = true
      · exfalso
        have e1 : x.1 = name := by simpa using hx
        have e2 : y.1 = name := by simpa using hy
        exact hnd.1.1 (e2.trans e1.symm)
      · simp [hx, hy]
    · simp [hx]
  | trans h1 _ ih1 ih2 =>
    rw [ih1 hnd]
    exact ih2 (by
      have := (List.Perm.map (·.1) h1).nodup_iff.mp hnd
      exact this)

theorem dictLoop_congr (isZero : V → Bool) (items items' : List (String × Leaf V)) (m : Mesh) (nv : Nat)
    (h : ∀ name, lookupLeaf items name = lookupLeaf items' name) (l : List (String × Region)) (a : NDA (Option V)) :
    dictLoop isZero items m nv l a = dictLoop isZero items' m nv l a := by
  induction l generalizing a with
  | nil => rfl
  | cons p rest ih =>
    obtain ⟨name, reg⟩ := p
    simp only [dictLoop, h name]
    split
    · rfl
    · split
      · exact ih _
      · split
        · rfl
        · split
          · rfl
          · split
            · rfl
            · exact ih _

theorem asArray_dict_congr (isZero : V → Bool) (items items' : List (String × Leaf V)) (dflt : Option (Dflt V))
    (m : Mesh) (nv : Nat) (h : ∀ name, lookupLeaf items name = lookupLeaf items' name) :
    asArray isZero (.dict items dflt) m nv = asArray isZero (.dict items' dflt) m nv := by
  simp only [asArray]
  split
  · rfl
  · rw [dictLoop_congr isZero items items' m nv h]

omit [Inhabited V] in
/-- on a subregion that is a union of cells, "its index box contains the cell" and "its region contains
the cell's centre" are the same test -/
theorem hits_eq_listedContains (items : List (String × Leaf V)) (m : Mesh) (hm : m.Inv)
    (k1 k2 : String × Region → Nat → Nat) (p : String × Region) (hal : AlignedSub m p.2 (k1 p) (k2 p))
    (i : List Nat) (hi : inRange m.n i = true) : hits items m k1 k2 i p = listedContains items m i p := by
  have hiff := inBox_iff_centre m hm p.2 (k1 p) (k2 p) hal i hi []
  simp only [List.append_nil] at hiff
  unfold hits listedContains
  congr 1
  rw [Bool.eq_iff_iff, hiff, allLt_iff]
  simp only [Bool.and_eq_true, decide_eq_true_eq]

end DFV.C02
