import DFV.Lemmas.C02Line
/-! C02 helper lemmas, part 20: `point2index` on points the region's tolerance lets through although
they lie outside — the index is clipped to the boundary cell. -/
namespace DFV.C02
open DFV DFV.Mesh

/-- the clipped index is always a cell index -/
theorem indexAx_lt (m : Mesh) (a : Nat) (x : Rat) (hn : 0 < m.nAt a) : m.indexAx a x < m.nAt a := by
  unfold indexAx clipInt
  split
  · simpa using hn
  · split
    · omega
    · omega

/-- a coordinate at or below the lower face gets index 0 -/
theorem indexAx_low (m : Mesh) (a : Nat) (x : Rat) (hn : 0 < m.nAt a) (hr : m.region.lo a < m.region.hi a)
    (hx : x ≤ m.region.lo a) : m.indexAx a x = 0 := by
  have hc := cell_pos m a hn hr
  have hq : (x - m.region.lo a) / m.cellAt a ≤ 0 := div_nonpos_of_nonpos_of_nonneg (by linarith) hc.le
  have hf : ((x - m.region.lo a) / m.cellAt a).floor ≤ 0 := by
    have h1 := rat_floor_le ((x - m.region.lo a) / m.cellAt a)
    have : (((x - m.region.lo a) / m.cellAt a).floor : Rat) ≤ 0 := le_trans h1 hq
    exact_mod_cast this
  unfold indexAx clipInt
  split
  · rfl
  · split
    · omega
    · omega

/-- a coordinate at or above the upper face gets the last index -/
theorem indexAx_high (m : Mesh) (a : Nat) (x : Rat) (hn : 0 < m.nAt a) (hr : m.region.lo a < m.region.hi a)
    (hx : m.region.hi a ≤ x) : m.indexAx a x = m.nAt a - 1 := by
  have hc := cell_pos m a hn hr
  have hcov := cells_cover m a hn
  unfold Region.edge at hcov
  have hq : (m.nAt a : Rat) ≤ (x - m.region.lo a) / m.cellAt a := by
    rw [le_div_iff₀ hc]; linarith
  have hf : (m.nAt a : Int) ≤ ((x - m.region.lo a) / m.cellAt a).floor :=
    rat_le_floor _ _ (by exact_mod_cast hq)
  unfold indexAx clipInt
  split
  · omega
  · split
    · omega
    · omega

end DFV.C02
