import DFV.Lemmas.C06Subs
/-! Means (C06): every successful `mean` returns the sum / count values `mval`; whether it
succeeds and on which mesh depends only on the mesh and the array shape; `mval` is linear,
acts per component and does not look at the mesh position. -/
namespace DFV.C06
open DFV

theorem maskSum_lin (shape : List Nat) (K : List Bool) (a b : Rat) (g h : List Nat → Rat) (i : List Nat) :
    maskSum shape K (fun t => a * g t + b * h t) i = a * maskSum shape K g i + b * maskSum shape K h i := by
  induction shape generalizing K g h i with
  | nil => simp [maskSum]
  | cons n ns ih =>
    cases K with
    | nil => simp only [maskSum]; exact ih [] _ _ _
    | cons k ks =>
      cases k with
      | false =>
        simp only [maskSum]
        rw [← sumTo_lin]
        apply sumTo_congr
        intro x _
        exact ih ks _ _ _
      | true => simp only [maskSum]; exact ih ks _ _ _

theorem maskSum_congr' (shape : List Nat) (K : List Bool) (g h : List Nat → Rat) (i : List Nat)
    (hgh : ∀ t, g t = h t) : maskSum shape K g i = maskSum shape K h i := by
  have : g = h := funext hgh
  rw [this]

/-- what a successful `mean(list)` is: the list has no duplicate, and either it names all
directions (bare array of the overall mean) or it returns a field on the iterated reduced mesh -/
theorem mean_names_cases (f : Fld) (ds : List String) (r : Res) (h : mean f (.names ds) = .ok r) :
    hasDup ds = false ∧
    ((sameMultiset ds f.mesh.region.dims = true ∧ r = .vals (meanAll f)) ∨
     (sameMultiset ds f.mesh.region.dims = false ∧
      ∃ m' axes, selMany f.mesh ds = .ok m' ∧ dimIndices f.mesh.region ds = .ok axes ∧
        (meanAxes f.nvdim f.data axes).shape = m'.n ∧
        r = .field { mesh := m', nvdim := f.nvdim, data := (meanAxes f.nvdim f.data axes).force [],
                     valid := NDA.const m'.n true, vdims := f.vdims, vmap := f.vmap, unit := f.unit })) := by
  unfold mean at h
  simp only at h
  split at h
  · cases h
  · rename_i hdup
    have hdup' : hasDup ds = false := by simpa using hdup
    refine ⟨hdup', ?_⟩
    split at h
    · rename_i hsame
      injection h with h
      exact Or.inl ⟨hsame, h.symm⟩
    · rename_i hsame
      right
      refine ⟨by simpa using hsame, ?_⟩
      split at h
      · cases h
      · rename_i m' hm'
        split at h
        · cases h
        · rename_i axes haxes
          split at h
          · cases h
          · rename_i g' hg'
            injection h with h; subst h
            obtain ⟨hs, hg⟩ := mkFld_ok _ _ _ _ _ _ _ hg'
            exact ⟨m', axes, hm', haxes, hs, by rw [hg]⟩

theorem meanAll_getD (f : Fld) (c : Nat) (hc : c < f.nvdim) :
    (meanAll f).getD c 0 = (nestSum f.data.shape fun t => cget f.data t c) / (natProd f.data.shape : Rat) := by
  unfold meanAll
  rw [getD_tab _ _ _ _ hc]
  unfold sumAll NDA.toList
  rw [List.map_map, lsum_indicesC]
  rfl

/-- every successful `mean` returns the sum / count values -/
theorem mean_vals' (f : Fld) (dir : Dir) (r : Res) (h : mean f dir = .ok r) :
    r.nv = f.nvdim ∧ r.shape = mshape f dir ∧
    ∀ i c, inRange r.shape i = true → c < f.nvdim → r.cval i c = mval f dir i c := by
  cases dir with
  | none =>
    unfold mean at h
    injection h with h; subst h
    refine ⟨by simp [Res.nv, meanAll], rfl, ?_⟩
    intro i c _ hc
    simp only [Res.cval, mval]
    exact meanAll_getD f c hc
  | name d =>
    obtain ⟨ax, m', hax, _, _, hr⟩ := mean_name_unpack f d r h
    subst hr
    refine ⟨rfl, by simp only [mshape, hax]; rfl, ?_⟩
    intro i c hi hc
    simp only [Res.cval, mval, hax]
    rw [cget_force (divBy f.nvdim ((f.data.shape.getD ax 0 : Nat) : Rat) (sumAxis f.nvdim f.data ax)) i c hi,
      cget_divBy _ _ _ _ _ hc, cget_sumAxis _ _ _ _ _ hc]
  | names ds =>
    obtain ⟨_, hcase⟩ := mean_names_cases f ds r h
    rcases hcase with ⟨hsame, hr⟩ | ⟨hsame, m', axes, _, haxes, _, hr⟩
    · subst hr
      refine ⟨by simp [Res.nv, meanAll], by simp only [mshape, hsame, if_true]; rfl, ?_⟩
      intro i c _ hc
      simp only [Res.cval, mval, hsame, if_true]
      exact meanAll_getD f c hc
    · subst hr
      refine ⟨rfl, by simp only [mshape, hsame, Bool.false_eq_true, if_false, haxes]; rfl, ?_⟩
      intro i c hi hc
      simp only [Res.cval, mval, hsame, Bool.false_eq_true, if_false, haxes]
      rw [cget_force (meanAxes f.nvdim f.data axes) i c hi, cget_meanAxes _ _ _ _ _ hc]
  | other => cases h

/-- whether `mean` succeeds, the mesh and the shape of its result depend only on the mesh and
the shape of the value array -/
theorem mean_frame' (f f' : Fld) (hm : f'.mesh = f.mesh) (hs : f'.data.shape = f.data.shape)
    (dir : Dir) (r : Res) (h : mean f dir = .ok r) :
    ∃ r', mean f' dir = .ok r' ∧ r'.mesh? = r.mesh? ∧ r'.shape = r.shape := by
  cases dir with
  | none =>
    unfold mean at h
    injection h with h; subst h
    exact ⟨_, rfl, rfl, rfl⟩
  | name d =>
    obtain ⟨ax, m', hax, hsel, hshape, hr⟩ := mean_name_unpack f d r h
    subst hr
    have hsh : (divBy f'.nvdim ((f'.data.shape.getD ax 0 : Nat) : Rat) (sumAxis f'.nvdim f'.data ax)).shape = m'.n := by
      show removeAt f'.data.shape ax = _
      rw [hs]; exact hshape
    refine ⟨.field
      { mesh := m', nvdim := f'.nvdim,
        data := (divBy f'.nvdim ((f'.data.shape.getD ax 0 : Nat) : Rat) (sumAxis f'.nvdim f'.data ax)).force [],
        valid := NDA.const m'.n true, vdims := f'.vdims, vmap := f'.vmap, unit := f'.unit }, ?_, rfl, ?_⟩
    · unfold mean
      simp only [hm, hax, hsel, mkFld, hsh, ne_eq, not_true_eq_false, if_false]
    · show removeAt f'.data.shape ax = removeAt f.data.shape ax
      rw [hs]
  | names ds =>
    obtain ⟨hdup, hcase⟩ := mean_names_cases f ds r h
    rcases hcase with ⟨hsame, hr⟩ | ⟨hsame, m', axes, hselm, haxes, hshape, hr⟩
    · subst hr
      refine ⟨.vals (meanAll f'), ?_, rfl, rfl⟩
      unfold mean
      simp only [hdup, Bool.false_eq_true, if_false, hm, hsame, if_true]
    · subst hr
      have hsh : (meanAxes f'.nvdim f'.data axes).shape = m'.n := by
        show filterMask (keepMask f'.data.shape.length axes) f'.data.shape = _
        rw [hs]; exact hshape
      refine ⟨.field
        { mesh := m', nvdim := f'.nvdim, data := (meanAxes f'.nvdim f'.data axes).force [],
          valid := NDA.const m'.n true, vdims := f'.vdims, vmap := f'.vmap, unit := f'.unit }, ?_, rfl, ?_⟩
      · unfold mean
        simp only [hdup, Bool.false_eq_true, if_false, hm, hsame, hselm, haxes, mkFld, hsh, ne_eq,
          not_true_eq_false]
      · show filterMask (keepMask f'.data.shape.length axes) f'.data.shape
          = filterMask (keepMask f.data.shape.length axes) f.data.shape
        rw [hs]
  | other => cases h

theorem mval_lin (α β : Rat) (f g : Fld) (hm : g.mesh = f.mesh) (hs : g.data.shape = f.data.shape)
    (dir : Dir) (i : List Nat) (c : Nat) (hc : c < f.nvdim) :
    mval (lin α f β g) dir i c = α * mval f dir i c + β * mval g dir i c := by
  have hcg : ∀ t, cget (lin α f β g).data t c = α * cget f.data t c + β * cget g.data t c :=
    fun t => cget_lin α β f g t c hc
  have hlm : (lin α f β g).mesh = f.mesh := rfl
  have hls : (lin α f β g).data.shape = f.data.shape := rfl
  cases dir with
  | none =>
    simp only [mval, hs, hls, hcg]
    rw [nestSum_add, nestSum_mul_left, nestSum_mul_left]; ring
  | name d =>
    simp only [mval, hm, hlm, hs, hls]
    cases f.mesh.region.dim2index d with
    | error e => simp
    | ok ax =>
      simp only [hcg]
      rw [sumTo_lin]; ring
  | names ds =>
    simp only [mval, hm, hlm, hs, hls]
    split
    · simp only [hcg]
      rw [nestSum_add, nestSum_mul_left, nestSum_mul_left]; ring
    · cases dimIndices f.mesh.region ds with
      | error e => simp
      | ok axes =>
        simp only [hcg]
        rw [maskSum_lin]; ring
  | other => simp [mval]

theorem mval_comp (f : Fld) (c : Nat) (dir : Dir) (i : List Nat) :
    mval (compFld f c) dir i 0 = mval f dir i c := by
  have hlm : (compFld f c).mesh = f.mesh := rfl
  have hls : (compFld f c).data.shape = f.data.shape := rfl
  cases dir with
  | none => simp only [mval, hls, cget_compFld]
  | name d => simp only [mval, hlm, hls, cget_compFld]
  | names ds => simp only [mval, hlm, hls, cget_compFld]
  | other => simp [mval]

theorem dimIndices_congr (r r' : Region) (h : r'.dims = r.dims) (ds : List String) :
    dimIndices r' ds = dimIndices r ds := by
  induction ds with
  | nil => rfl
  | cons d ds ih =>
    have hd : r'.dim2index d = r.dim2index d := by unfold Region.dim2index; rw [h]
    simp only [dimIndices, hd, ih]

/-- the sum / count values do not mention the position of the mesh at all -/
theorem mval_translate (t : List Rat) (f : Fld) (dir : Dir) (i : List Nat) (c : Nat) :
    mval (translate t f) dir i c = mval f dir i c := by
  cases dir with
  | none => rfl
  | name d => rfl
  | names ds =>
    have hd : dimIndices (translate t f).mesh.region ds = dimIndices f.mesh.region ds :=
      dimIndices_congr f.mesh.region (translate t f).mesh.region rfl ds
    have hdata : (translate t f).data = f.data := rfl
    have hdims : (translate t f).mesh.region.dims = f.mesh.region.dims := rfl
    simp only [mval, hd, hdata, hdims]
  | other => rfl

theorem mshape_translate (t : List Rat) (f : Fld) (dir : Dir) : mshape (translate t f) dir = mshape f dir := by
  cases dir with
  | none => rfl
  | name d => rfl
  | names ds =>
    have hd : dimIndices (translate t f).mesh.region ds = dimIndices f.mesh.region ds :=
      dimIndices_congr f.mesh.region (translate t f).mesh.region rfl ds
    have hdata : (translate t f).data = f.data := rfl
    have hdims : (translate t f).mesh.region.dims = f.mesh.region.dims := rfl
    simp only [mshape, hd, hdata, hdims]
  | other => rfl

/-- moving a mesh together with its subregions keeps the subregions fitting -/
theorem subsFit_translate (t : List Rat) (f : Fld) (hf : f.mesh.Inv) (hfit : SubsFit f.mesh) :
    SubsFit (translate t f).mesh := by
  intro q hq
  have hq' : q ∈ f.mesh.subs.map fun p => (p.1, shiftRegion t p.2) := hq
  obtain ⟨p, hp, rfl⟩ := List.mem_map.mp hq'
  obtain ⟨h1, h2, h3⟩ := hfit p hp
  have hnd : (translate t f).mesh.ndim = f.mesh.ndim := by
    simp [translate, Mesh.ndim, Region.ndim, shiftRegion]
  refine ⟨?_, ?_, ?_⟩
  · show (shiftRegion t p.2).pmin.length = _
    rw [hnd]; simp [shiftRegion]; exact h1
  · show (shiftRegion t p.2).pmax.length = _
    rw [hnd]; simp [shiftRegion]; exact h2
  · intro a ha
    rw [hnd] at ha
    obtain ⟨z, w, hw, hzw, hlo, hhi⟩ := h3 a ha
    refine ⟨z, w, hw, hzw, ?_, ?_⟩
    · show (shiftRegion t p.2).lo a = (shiftRegion t f.mesh.region).lo a + _
      rw [shift_lo t _ a (by rw [h1]; exact ha), shift_lo t _ a ha, translate_cellAt t f hf a ha, hlo]
      ring
    · show (shiftRegion t p.2).hi a = (shiftRegion t p.2).lo a + _
      rw [shift_lo t _ a (by rw [h1]; exact ha), shift_hi t _ a (by rw [h2]; exact ha),
        translate_cellAt t f hf a ha, hhi]
      ring

end DFV.C06
