import DFV.Lemmas.C02Slices
import DFV.Lemmas.C02Patch
/-! C02: the concrete mesh used by the non-vacuity examples of `Props/C02.lean`. -/
namespace DFV.C02.Ex
open DFV DFV.C02


def reg (a b : List Rat) : Region := ⟨a, b, ["x", "y"], ["m", "m"], 1 / 1000000000000⟩
/-- `r1 = [0,2]×[0,2]` (cells 0–1 × 0–1), `r2 = [1,4]×[0,1]` (cells 1–3 × 0): they overlap in cell (1,0) -/
def m0 : Mesh := ⟨reg [0, 0] [4, 2], [4, 2], "", [("r1", reg [0, 0] [2, 2]), ("r2", reg [1, 0] [4, 1])]⟩
def k1 (p : String × Region) (a : Nat) : Nat := if p.1 = "r1" then 0 else if a = 0 then 1 else 0
def k2 (p : String × Region) (a : Nat) : Nat :=
  if p.1 = "r1" then 2 else if a = 0 then 4 else 1

theorem lt_two (a : Nat) (h : a < 2) : a = 0 ∨ a = 1 := by omega

theorem m0_inv : m0.Inv := by
  refine ⟨⟨by decide, rfl, rfl, rfl, by decide, fun a ha => ?_⟩, rfl, fun a ha => ?_⟩
  · rcases lt_two a ha with rfl | rfl <;> decide
  · rcases lt_two a ha with rfl | rfl <;> decide

theorem m0_cell (a : Nat) (ha : a < 2) : m0.cellAt a = 1 := by
  rcases lt_two a ha with rfl | rfl <;>
    norm_num [Mesh.cellAt, Mesh.nAt, Region.edge, Region.hi, Region.lo, m0, reg]

theorem m0_aligned : ∀ p ∈ m0.subs, AlignedSub m0 p.2 (k1 p) (k2 p) := by
  intro p hp
  simp only [m0, List.mem_cons, List.mem_nil_iff, or_false] at hp
  rcases hp with rfl | rfl
  · refine ⟨rfl, fun a ha => ?_⟩
    have hc := m0_cell a ha
    rcases lt_two a ha with rfl | rfl <;> rw [hc] <;>
      norm_num [k1, k2, Mesh.nAt, Region.hi, Region.lo, m0, reg]
  · refine ⟨rfl, fun a ha => ?_⟩
    have hc := m0_cell a ha
    have hne : ¬ ("r2" = "r1") := by decide
    rcases lt_two a ha with rfl | rfl <;> rw [hc] <;>
      norm_num [k1, k2, Mesh.nAt, Region.hi, Region.lo, m0, reg, hne]

/-- the 4 × 2 mesh with other dimension names -/
def mD (d0 d1 : String) : Mesh := ⟨⟨[0, 0], [4, 2], [d0, d1], ["m", "m"], 1 / 1000000000000⟩, [4, 2], "", []⟩

theorem mD_inv (d0 d1 : String) (h : d0 ≠ d1) : (mD d0 d1).Inv := by
  refine ⟨⟨by simp [mD], rfl, rfl, rfl, ?_, fun a ha => ?_⟩, rfl, fun a ha => ?_⟩
  · simp [hasDup, mD]; exact fun e => h e
  · rcases lt_two a ha with rfl | rfl <;> norm_num [mD, Region.lo, Region.hi]
  · rcases lt_two a ha with rfl | rfl <;> simp [mD, Mesh.nAt]

theorem mD_corner0 (d0 d1 : String) : (mD d0 d1).region.containsExact [0, 0] :=
  ⟨rfl, fun a ha => by rcases lt_two a ha with rfl | rfl <;> norm_num [mD, Region.lo, Region.hi]⟩

theorem mD_corner1 (d0 d1 : String) : (mD d0 d1).region.containsExact [4, 2] :=
  ⟨rfl, fun a ha => by rcases lt_two a ha with rfl | rfl <;> norm_num [mD, Region.lo, Region.hi]⟩

/-- the 4 × 2 mesh with one subregion that covers it -/
def mAll : Mesh := ⟨reg [0, 0] [4, 2], [4, 2], "", [("all", reg [0, 0] [4, 2])]⟩
def kA1 (_ : String × Region) (_ : Nat) : Nat := 0
def kA2 (_ : String × Region) (a : Nat) : Nat := if a = 0 then 4 else 2

theorem mAll_inv : mAll.Inv := m0_inv

theorem mAll_aligned : ∀ p ∈ mAll.subs, AlignedSub mAll p.2 (kA1 p) (kA2 p) := by
  intro p hp
  simp only [mAll, List.mem_cons, List.mem_nil_iff, or_false] at hp
  subst hp
  refine ⟨rfl, fun a ha => ?_⟩
  have hc : mAll.cellAt a = 1 := m0_cell a ha
  rcases lt_two a ha with rfl | rfl <;> rw [hc] <;>
    norm_num [kA1, kA2, Mesh.nAt, Region.hi, Region.lo, mAll, reg]

/-- the submesh of `r1` in `m0` satisfies the mesh invariant -/
theorem m0_sub_r1_inv : (subMeshOf m0 (reg [0, 0] [2, 2]) (k1 ("r1", reg [0, 0] [2, 2])) (k2 ("r1", reg [0, 0] [2, 2]))).Inv := by
  refine ⟨⟨by decide, rfl, rfl, rfl, by decide, fun a ha => ?_⟩, rfl, fun a ha => ?_⟩
  · rcases lt_two a ha with rfl | rfl <;> decide
  · rcases lt_two a ha with rfl | rfl <;> decide

end DFV.C02.Ex
