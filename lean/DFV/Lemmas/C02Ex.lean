import DFV.Lemmas.C02Slices
/-! C02: the concrete mesh used by the non-vacuity examples of `Props/C02.lean`. -/
namespace DFV.C02.Ex
open DFV DFV.C02


def reg (a b : List Rat) : Region := ⟨a, b, ["x", "y"], ["m", "m"], 1 / 1000000000000⟩
/-- `r1 = [0,2]×[0,2]` (cells 0–1 × 0–1), `r2 = [1,4]×[0,1]` (cells 1–3 × 0): they overlap in cell (1,0) -/
def m0 : Mesh := ⟨reg [0, 0] [4, 2], [4, 2], "", [("r1", reg [0, 0] [2, 2]), ("r2", reg [1, 0] [4, 1])]⟩
def k1 (p : String × Region) (a : Nat) : Nat := if p.1 = "r1" then 0 else if a = 0 then 1 else 0
def k2 (p : String × Region) (a : Nat) : Nat :=
  if p.1 = "r1" then 2 else if a = 0 then 4 else 1

theorem lt_two (a : Nat) (h : a < 2) : a = 0 ∨ a = 1 := by omega

theorem m0_inv : m0.Inv := by
  refine ⟨⟨by decide, rfl, rfl, rfl, by decide, fun a ha => ?_⟩, rfl, fun a ha => ?_⟩
  · rcases lt_two a ha with rfl | rfl <;> decide
  · rcases lt_two a ha with rfl | rfl <;> decide

theorem m0_cell (a : Nat) (ha : a < 2) : m0.cellAt a = 1 := by
  rcases lt_two a ha with rfl | rfl <;>
    norm_num [Mesh.cellAt, Mesh.nAt, Region.edge, Region.hi, Region.lo, m0, reg]

theorem m0_aligned : ∀ p ∈ m0.subs, AlignedSub m0 p.2 (k1 p) (k2 p) := by
  intro p hp
  simp only [m0, List.mem_cons, List.mem_nil_iff, or_false] at hp
  rcases hp with rfl | rfl
  · refine ⟨rfl, fun a ha => ?_⟩
    have hc := m0_cell a ha
    rcases lt_two a ha with rfl | rfl <;> rw [hc] <;>
      norm_num [k1, k2, Mesh.nAt, Region.hi, Region.lo, m0, reg]
  · refine ⟨rfl, fun a ha => ?_⟩
    have hc := m0_cell a ha
    have hne : ¬ ("r2" = "r1") := by decide
    rcases lt_two a ha with rfl | rfl <;> rw [hc] <;>
      norm_num [k1, k2, Mesh.nAt, Region.hi, Region.lo, m0, reg, hne]

end DFV.C02.Ex
