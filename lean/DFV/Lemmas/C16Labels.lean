import DFV.Lemmas.C16Parts
import DFV.Lemmas.C16Subs
/-! C16 helper lemmas, part 16: `to_vtk` and the round trip for ANY distinct component labels
(also labels that collide with the fixed array names `norm` / `field` / `valid`: `AddArray`
replaces by name), so that the label findings D61 / D62 become exact conditions. -/
namespace DFV.C16
open DFV DFV.Mesh

/-! ## `AddArray` on lists with distinct names -/

def names (l : List VArr) : List String := l.map fun a => a.name

theorem names_addArray (l : List VArr) (a : VArr) :
    names (addArray l a) = if a.name ∈ names l then names l else names l ++ [a.name] := by
  induction l with
  | nil => simp [addArray, names]
  | cons b bs ih =>
    simp only [addArray]
    by_cases hb : b.name = a.name
    · rw [if_pos hb]
      simp [names, hb]
    · rw [if_neg hb]
      have ih' : names (addArray bs a) = if a.name ∈ names bs then names bs else names bs ++ [a.name] := ih
      have e : names (b :: addArray bs a) = b.name :: names (addArray bs a) := rfl
      rw [e, ih']
      have hb' : ¬ a.name = b.name := fun h => hb h.symm
      by_cases hm : a.name ∈ names bs
      · have : a.name ∈ names (b :: bs) := by simp [names] at hm ⊢; exact Or.inr hm
        rw [if_pos hm, if_pos this]; rfl
      · have : ¬ a.name ∈ names (b :: bs) := by
          simp only [names, List.map_cons, List.mem_cons, not_or] at hm ⊢
          exact ⟨hb', hm⟩
        rw [if_neg hm, if_neg this]; rfl

theorem names_addArray_nodup (l : List VArr) (a : VArr) (h : (names l).Nodup) : (names (addArray l a)).Nodup := by
  rw [names_addArray]
  split
  · exact h
  · rename_i hm
    rw [List.nodup_append]
    refine ⟨h, by simp, ?_⟩
    intro x hx y hy
    simp only [List.mem_singleton] at hy
    subst hy
    intro e; subst e; exact hm hx

theorem getLast?_cons' {α} (b : α) (L : List α) :
    (b :: L).getLast? = match L.getLast? with
      | some y => some y
      | none => some b := by
  cases L with
  | nil => rfl
  | cons c cs =>
    rw [List.getLast?_cons_cons]
    cases h : (c :: cs).getLast? with
    | none => simp at h
    | some y => rfl

theorem lastNamed_cons (nm : String) (b : VArr) (l : List VArr) :
    lastNamed nm (b :: l) = match lastNamed nm l with
      | some y => some y
      | none => if b.name = nm then some b else none := by
  unfold lastNamed
  by_cases hb : b.name = nm
  · rw [List.filter_cons_of_pos (by simpa using hb), getLast?_cons', if_pos hb]
    cases (List.filter (fun a => a.name == nm) l).getLast? <;> rfl
  · rw [List.filter_cons_of_neg (by simpa using hb), if_neg hb]
    cases (List.filter (fun a => a.name == nm) l).getLast? <;> rfl

theorem lastNamed_none_of_not_mem (nm : String) (l : List VArr) (h : ¬ nm ∈ names l) : lastNamed nm l = none := by
  unfold lastNamed
  have : l.filter (fun a => a.name == nm) = [] := by
    rw [List.filter_eq_nil_iff]
    intro a ha hn
    apply h
    simp only [names, List.mem_map]
    exact ⟨a, ha, by simpa using hn⟩
  rw [this]; rfl

/-- `AddArray` on a list with distinct names: afterwards the array called `a.name` is `a`, every
other name still finds what it found before -/
theorem lastNamed_addArray (l : List VArr) (a : VArr) (nm : String) (h : (names l).Nodup) :
    lastNamed nm (addArray l a) = if a.name = nm then some a else lastNamed nm l := by
  induction l with
  | nil =>
    simp only [addArray]
    rw [lastNamed_cons]
    simp [lastNamed]
  | cons b bs ih =>
    have hnd : (names bs).Nodup := by
      simp only [names, List.map_cons, List.nodup_cons] at h
      exact h.2
    have hbn : ¬ b.name ∈ names bs := by
      simp only [names, List.map_cons, List.nodup_cons] at h
      exact h.1
    simp only [addArray]
    by_cases hb : b.name = a.name
    · rw [if_pos hb, lastNamed_cons, lastNamed_cons]
      by_cases hn : a.name = nm
      · have hno : lastNamed nm bs = none := lastNamed_none_of_not_mem nm bs (by rw [← hn, ← hb]; exact hbn)
        rw [hno, if_pos hn]
        simp [hn]
      · rw [if_neg hn]
        have : ¬ b.name = nm := by rw [hb]; exact hn
        simp [hn, this]
    · rw [if_neg hb, lastNamed_cons, ih hnd, lastNamed_cons]
      by_cases hn : a.name = nm
      · simp [hn]
      · simp [hn]

theorem labelNames_eq_filter (l : List VArr) : labelNames l = (names l).filter isLabelName := by
  unfold labelNames names
  rw [List.filter_map]
  rfl

/-! ## names after the loop over the labels -/

def addName (ns : List String) (s : String) : List String := if s ∈ ns then ns else ns ++ [s]

theorem names_compArrays (mk : String → VArr) (hmk : ∀ l, (mk l).name = l) (ws : List String) (acc : List VArr) :
    names (ws.foldl (fun acc lbl => addArray acc (mk lbl)) acc) = ws.foldl addName (names acc) := by
  induction ws generalizing acc with
  | nil => rfl
  | cons w ws ih =>
    simp only [List.foldl_cons]
    rw [ih, names_addArray, hmk]
    rfl

theorem nodup_compArrays (mk : String → VArr) (ws : List String) (acc : List VArr) (h : (names acc).Nodup) :
    (names (ws.foldl (fun acc lbl => addArray acc (mk lbl)) acc)).Nodup := by
  induction ws generalizing acc with
  | nil => exact h
  | cons w ws ih =>
    simp only [List.foldl_cons]
    exact ih _ (names_addArray_nodup acc _ h)

theorem filter_addName (p : String → Bool) (ns : List String) (s : String) :
    (addName ns s).filter p = if s ∈ ns then ns.filter p else ns.filter p ++ (if p s then [s] else []) := by
  unfold addName
  split
  · rfl
  · rw [List.filter_append]
    by_cases hp : p s = true <;> simp [List.filter, hp]

theorem hasDup_false_nodup (vs : List String) (h : hasDup vs = false) : vs.Nodup := by
  induction vs with
  | nil => exact List.nodup_nil
  | cons x xs ih =>
    obtain ⟨h1, h2⟩ := hasDup_cons_false x xs h
    exact List.nodup_cons.mpr ⟨h1, ih h2⟩

theorem filter_foldl_addName (p : String → Bool) (ws ns : List String) (hnd : ws.Nodup)
    (hdis : ∀ w ∈ ws, p w = true → ¬ w ∈ ns) :
    (ws.foldl addName ns).filter p = ns.filter p ++ ws.filter p := by
  induction ws generalizing ns with
  | nil => simp
  | cons w ws ih =>
    obtain ⟨hw, hnd'⟩ := List.nodup_cons.mp hnd
    simp only [List.foldl_cons]
    by_cases hm : w ∈ ns
    · have hpw : p w = false := by
        cases hp : p w with
        | false => rfl
        | true => exact absurd hm (hdis w (by simp) hp)
      have e : addName ns w = ns := by unfold addName; rw [if_pos hm]
      rw [e, ih ns hnd' (fun x hx => hdis x (by simp [hx]))]
      simp [List.filter, hpw]
    · rw [ih (addName ns w) hnd' (by
        intro x hx hpx
        unfold addName
        rw [if_neg hm]
        simp only [List.mem_append, List.mem_singleton, not_or]
        exact ⟨hdis x (by simp [hx]) hpx, fun e => hw (e ▸ hx)⟩)]
      rw [filter_addName, if_neg hm]
      by_cases hp : p w = true
      · simp [List.filter, hp]
      · have hp' : p w = false := by simpa using hp
        simp [List.filter, hp']

/-! ## the parts of the cell data `to_vtk` assembles, for any distinct labels -/

/-- the cell data before `field` and `valid` are added -/
def preData (f : Fld) : List VArr :=
  if 1 < f.nvdim then compArrays f (f.vdims.getD []) (addArray [] (normVArr f)) else addArray [] (normVArr f)

theorem cellData_pre (f : Fld) : cellData f = addArray (addArray (preData f) (fieldVArr f)) (validVArr f) := rfl

theorem preData_nodup (f : Fld) : (names (preData f)).Nodup := by
  unfold preData
  have h0 : (names (addArray [] (normVArr f))).Nodup := by simp [addArray, names]
  split
  · exact nodup_compArrays _ _ _ h0
  · exact h0

theorem preData_labels (f : Fld) (vs : List String) (hnv : 1 < f.nvdim) (hvs : f.vdims = some vs) (hd : hasDup vs = false) :
    (names (preData f)).filter isLabelName = vs.filter isLabelName := by
  unfold preData
  rw [if_pos hnv, hvs]
  simp only [Option.getD_some]
  unfold compArrays
  rw [names_compArrays (compVArr f vs) (compVArr_name f vs)]
  rw [filter_foldl_addName isLabelName vs _ (hasDup_false_nodup vs hd) (by
    intro w _ hp
    simp only [addArray, names, List.map_cons, List.map_nil, List.mem_singleton]
    intro e
    have : w = "norm" := e
    subst this
    simp [isLabelName] at hp)]
  simp [addArray, names, normVArr, isLabelName, List.filter]

theorem cellData_field (f : Fld) : lastNamed "field" (cellData f) = some (fieldVArr f) := by
  rw [cellData_pre, lastNamed_addArray _ _ _ (names_addArray_nodup _ _ (preData_nodup f))]
  have : ¬ (validVArr f).name = "field" := by simp [validVArr]
  rw [if_neg this, lastNamed_addArray _ _ _ (preData_nodup f)]
  simp [fieldVArr]

theorem cellData_valid (f : Fld) : lastNamed "valid" (cellData f) = some (validVArr f) := by
  rw [cellData_pre, lastNamed_addArray _ _ _ (names_addArray_nodup _ _ (preData_nodup f))]
  simp [validVArr]

theorem cellData_nonempty (f : Fld) : (cellData f).isEmpty = false := by
  have h := cellData_field f
  cases hc : cellData f with
  | nil => rw [hc] at h; simp [lastNamed] at h
  | cons a l => rfl

theorem filter_label_fixed (ns : List String) (s : String) (hs : isLabelName s = false) :
    (addName ns s).filter isLabelName = ns.filter isLabelName := by
  rw [filter_addName]
  split
  · rfl
  · simp [hs]

/-- **the label names a reader finds in the grid**: the labels that are not `norm`, `field` or
`valid`, in order (none for a one-component field) -/
theorem cellData_labels (f : Fld) (nx ny nz : Nat) (h : WFc f nx ny nz) :
    labelNames (cellData f) = if 1 < f.nvdim then (f.vdims.getD []).filter isLabelName else [] := by
  rw [labelNames_eq_filter, cellData_pre, names_addArray, names_addArray]
  have e1 : ∀ ns : List String, (if "valid" ∈ ns then ns else ns ++ ["valid"]) = addName ns "valid" := fun _ => rfl
  have e2 : ∀ ns : List String, (if "field" ∈ ns then ns else ns ++ ["field"]) = addName ns "field" := fun _ => rfl
  have n1 : (validVArr f).name = "valid" := rfl
  have n2 : (fieldVArr f).name = "field" := rfl
  rw [n1, n2, e2, e1, filter_label_fixed _ _ (by decide), filter_label_fixed _ _ (by decide)]
  by_cases hnv : 1 < f.nvdim
  · obtain ⟨vs, hvs, _, hd⟩ := h.labels hnv
    rw [if_pos hnv, preData_labels f vs hnv hvs hd, hvs]
    rfl
  · rw [if_neg hnv]
    unfold preData
    rw [if_neg hnv]
    simp [addArray, names, normVArr, isLabelName, List.filter]

/-! ## `to_vtk` and `_from_vtk` for any distinct labels -/

/-- the scalar-ised copy of a field: same mesh, data, mask; it is well-formed in the strong sense,
so the geometry lemmas apply to it -/
def scalarised (f : Fld) : Fld := { f with nvdim := 1 }

theorem scalarised_wf (f : Fld) (nx ny nz : Nat) (h : WFc f nx ny nz) : WF (scalarised f) nx ny nz :=
  ⟨h.mesh, h.n, h.dshape, h.vshape, le_refl 1, fun h1 => absurd h1 (by simp [scalarised])⟩

theorem wf_wfc (f : Fld) (nx ny nz : Nat) (h : WF f nx ny nz) : WFc f nx ny nz :=
  ⟨h.mesh, h.n, h.dshape, h.vshape, h.nv, fun h1 => by
    obtain ⟨vs, a, b, c, _⟩ := h.labels h1
    exact ⟨vs, a, b, c⟩⟩

theorem toVtk_okc (f : Fld) (nx ny nz : Nat) (h : WFc f nx ny nz) :
    toVtk f = .ok { dims := [nx + 1, ny + 1, nz + 1], coords := tab 3 fun a => f.mesh.vertices.getD a [],
                    cell := cellData f } := by
  have hnd : f.mesh.region.ndim = 3 := by
    have := h.mesh.2.1
    rw [h.n] at this
    simpa using this.symm
  unfold toVtk
  rw [if_neg (by simp [hnd])]
  have hl : ¬ (1 < f.nvdim ∧ f.vdims = none) := by
    rintro ⟨h1, h2⟩
    obtain ⟨vs, hvs, _⟩ := h.labels h1
    rw [h2] at hvs; cases hvs
  rw [if_neg hl, h.n]
  rfl

/-- bounds and counts of the grid give back corners and counts, whatever the arrays are -/
theorem meshOf_grid (f : Fld) (nx ny nz : Nat) (h : WFc f nx ny nz) (cell : List VArr) :
    meshOf (Grid.p1 { dims := [nx + 1, ny + 1, nz + 1], coords := tab 3 fun a => f.mesh.vertices.getD a [], cell := cell })
           (Grid.p2 { dims := [nx + 1, ny + 1, nz + 1], coords := tab 3 fun a => f.mesh.vertices.getD a [], cell := cell })
           [nx, ny, nz] =
      .ok { region := plainRegion f.mesh.region.pmin f.mesh.region.pmax, n := [nx, ny, nz], bc := "", subs := [] } := by
  have hw := scalarised_wf f nx ny nz h
  obtain ⟨hn, hm⟩ := meshOf_toVtk (scalarised f) nx ny nz hw _ (toVtk_ok (scalarised f) nx ny nz hw)
  rw [hn] at hm
  exact hm

/-- what the constructor makes of the labels the reader finds -/
theorem vdims_readc (f : Fld) (nx ny nz : Nat) (h : WFc f nx ny nz) :
    vdimsSet f.nvdim
      (if (labelNames (cellData f)).length ≠ f.nvdim then none else some (labelNames (cellData f))) =
      .ok (if f.nvdim = 1 then none
           else if ∀ l ∈ f.vdims.getD [], isLabelName l = true then f.vdims else Fld.defaultVdims f.nvdim) := by
  rw [cellData_labels f nx ny nz h]
  by_cases hnv : 1 < f.nvdim
  · obtain ⟨vs, hvs, hlen, hd⟩ := h.labels hnv
    have hne1 : ¬ f.nvdim = 1 := by omega
    rw [if_pos hnv, if_neg hne1, hvs]
    simp only [Option.getD_some]
    by_cases hall : ∀ l ∈ vs, isLabelName l = true
    · have e : vs.filter isLabelName = vs := List.filter_eq_self.mpr hall
      rw [e, if_neg (not_not.mpr hlen), if_pos hall]
      cases vs with
      | nil => simp at hlen; omega
      | cons x l =>
        simp only [vdimsSet]
        rw [if_neg (not_not.mpr hlen), hd]
        simp
    · rw [if_neg hall]
      have hlt : (vs.filter isLabelName).length ≠ f.nvdim := by
        intro e
        apply hall
        have : (vs.filter isLabelName).length = vs.length := by rw [e, hlen]
        exact List.length_filter_eq_length_iff.mp this
      rw [if_pos hlt]
      rfl
  · have h1 : f.nvdim = 1 := by have := h.nv; omega
    rw [if_neg hnv, if_pos h1, h1]
    simp [vdimsSet, Fld.defaultVdims]

/-- `_from_vtk` applied to the grid `to_vtk` builds (also after the legacy writer's reordering),
for ANY distinct labels -/
theorem fromCells_toVtkc (f : Fld) (nx ny nz : Nat) (h : WFc f nx ny nz)
    (sidecar : Option (List (String × Region))) (m1 : Mesh)
    (hsub : loadSubs { region := plainRegion f.mesh.region.pmin f.mesh.region.pmax, n := [nx, ny, nz],
                       bc := "", subs := [] } sidecar = .ok m1) :
    ∃ f', fromCells { dims := [nx + 1, ny + 1, nz + 1], coords := tab 3 fun a => f.mesh.vertices.getD a [],
                      cell := cellData f } sidecar = .ok f' ∧ f'.mesh = m1 ∧ f'.nvdim = f.nvdim ∧
      f'.vdims = (if f.nvdim = 1 then none
                  else if ∀ l ∈ f.vdims.getD [], isLabelName l = true then f.vdims else Fld.defaultVdims f.nvdim) ∧
      f'.unit = none ∧
      ∀ idx, inRange [nx, ny, nz] idx = true →
        f'.data.get idx = (tab f.nvdim fun c => (f.data.get idx).getD c 0) ∧
        f'.valid.get idx = f.valid.get idx := by
  have hfl : (fieldVArr f).vals.length = natProd [nx, ny, nz] * f.nvdim :=
    flat4_length (array4 f) nx ny nz f.nvdim (array4_shape f nx ny nz h.dshape)
  have hvl : (validVArr f).vals.length = natProd [nx, ny, nz] :=
    flat3_length (validInt f) nx ny nz (by simp [validInt, NDA.map, h.vshape])
  have hgn : Grid.n { dims := [nx + 1, ny + 1, nz + 1], coords := tab 3 fun a => f.mesh.vertices.getD a [],
                      cell := cellData f } = [nx, ny, nz] := by simp [Grid.n]
  obtain ⟨f', hf', e1, e2, e3, e4⟩ := fromParts_build [nx, ny, nz] _ _ (fieldVArr f) (some (validVArr f))
    (labelNames (cellData f)) sidecar _ m1 _ hfl h.nv (by intro v hv; injection hv with hv; rw [← hv]; exact hvl)
    (meshOf_grid f nx ny nz h (cellData f)) hsub (vdims_readc f nx ny nz h)
  have hread : fromCells { dims := [nx + 1, ny + 1, nz + 1], coords := tab 3 fun a => f.mesh.vertices.getD a [],
                           cell := cellData f } sidecar = .ok f' := by
    rw [fromCells_eq, hgn]
    simp only [cellData_field, cellData_valid]
    exact hf'
  refine ⟨f', hread, e1, e2, e3, e4, ?_⟩
  -- values: from the index-level spec of the reader and what the scan points at
  obtain ⟨fi, s1, _, _, _, _, _, _, s8, _, _, s11, s12, _⟩ := fromCells_spec _ sidecar f' nx ny nz hgn hread
  have hF := scan_field_spec (cellData f) ⟨none, none, []⟩ rfl
  have hV := scan_valid_spec (cellData f) ⟨none, none, []⟩ rfl
  simp only at s1 s11 s12 s8
  rw [s1] at hF
  obtain ⟨_, hF2⟩ := hF
  rw [cellData_field] at hF2
  injection hF2 with hF2
  intro idx hi
  obtain ⟨i, j, k, rfl, _, _, _⟩ := inRange3_cases nx ny nz idx hi
  constructor
  · have hlen' : (f'.data.get [i, j, k]).length = f.nvdim := by
      have hd := hread
      rw [fromCells_eq, hgn] at hd
      simp only [cellData_field, cellData_valid, fromParts] at hd
      revert hd
      split
      · intro hd; cases hd
      · split
        · intro hd; cases hd
        · split
          · intro hd; cases hd
          · split
            · intro hd; cases hd
            · intro hd
              obtain ⟨_, _, q3, _⟩ := mkField_fields _ _ _ _ _ _ hd
              rw [q3]
              simp [cellsOf, fieldVArr]
    apply eq_tab_of_getD _ _ _ 0 hlen'
    intro c hc
    rw [s11 i j k c (by rw [e2]; exact hc), ← hF2, e2]
    have e0 : (fieldVArr f).ncomp = f.nvdim := rfl
    rw [e0]
    have h2 := flat4_getD (array4 f) nx ny nz f.nvdim (array4_shape f nx ny nz h.dshape) _ hi c hc 0
    have e : (fieldVArr f).vals = flat4 (array4 f) := rfl
    rw [e, h2]
    exact array4_get f nx ny nz h.dshape i j k c
  · rw [s12 i j k]
    cases hvi : (scan (cellData f) 0 ⟨none, none, []⟩).validIdx with
    | none =>
      rw [hvi] at hV
      simp only at hV
      rw [cellData_valid] at hV
      cases hV
    | some vi =>
      rw [hvi] at hV
      obtain ⟨_, hV2⟩ := hV
      rw [cellData_valid] at hV2
      injection hV2 with hV2
      simp only [readFlag]
      rw [← hV2]
      have e : (validVArr f).vals = flat3 (validInt f) := rfl
      rw [e, flat3_getD (validInt f) nx ny nz (by simp [validInt, NDA.map, h.vshape]) _ hi]
      simp only [validInt, NDA.map]
      by_cases hb : f.valid.get [i, j, k] = true
      · simp [hb]
      · have hb' : f.valid.get [i, j, k] = false := by simpa using hb
        simp [hb']

/-! ## the default labels are never reserved names -/

theorem vi_tail (i : Nat) : ∀ c ∈ (s!"v{i}").toList.tail, c.isDigit = true := by
  show ∀ c ∈ (toString "v" ++ toString i).toList.tail, c.isDigit = true
  rw [String.toList_append]
  intro c hc
  have : (toString "v").toList = ['v'] := rfl
  rw [this] at hc
  simp only [List.singleton_append, List.tail_cons] at hc
  have e : (toString i).toList = Nat.toDigits 10 i := Nat.toList_repr
  rw [e] at hc
  exact Nat.isDigit_of_mem_toDigits (by decide) (by decide) hc

theorem vi_ne (i : Nat) (s : String) (c : Char) (hc : c ∈ s.toList.tail) (hd : c.isDigit = false) : s!"v{i}" ≠ s := by
  intro h
  rw [← h] at hc
  have := vi_tail i c hc
  rw [hd] at this
  cases this

theorem default_labels_plain (nv : Nat) (vs : List String) (h : Fld.defaultVdims nv = some vs) :
    ∀ l ∈ vs, isLabelName l = true := by
  unfold Fld.defaultVdims at h
  split at h
  · cases h
  · split at h
    · injection h with h
      subst h
      intro l hl
      have := List.mem_of_mem_take hl
      simp only [List.mem_cons, List.mem_nil_iff, or_false] at this
      rcases this with rfl | rfl | rfl <;> decide
    · injection h with h
      subst h
      intro l hl
      obtain ⟨i, _, rfl⟩ := List.mem_map.mp hl
      have a := vi_ne i "field" 'i' (by decide) (by decide)
      have b := vi_ne i "valid" 'a' (by decide) (by decide)
      have c := vi_ne i "norm" 'o' (by decide) (by decide)
      unfold isLabelName
      simp only [bne_iff_ne, ne_eq, Bool.and_eq_true]
      exact ⟨⟨a, b⟩, c⟩

end DFV.C16
