import DFV.Lemmas.C09
/-! Reader lemmas for C09: from a consistent header dictionary and an encoded data block to
the field `_from_ovf` returns. -/
namespace DFV.C09
open DFV

theorem list3_eq {α} (l : List α) (d : α) (h : l.length = 3) : l = [l.getD 0 d, l.getD 1 d, l.getD 2 d] := by
  match l, h with
  | [a, b, c], _ => rfl

/-- what the reader needs from the header dictionary -/
structure HeaderOf (h : List (String × HVal)) (lo hi cell : Nat → Rat) (n : Nat → Nat) (mu : String) : Prop where
  pmin : hnums h "xmin" "ymin" "zmin" = .ok [lo 0, lo 1, lo 2]
  pmax : hnums h "xmax" "ymax" "zmax" = .ok [hi 0, hi 1, hi 2]
  step : hnums h "xstepsize" "ystepsize" "zstepsize" = .ok [cell 0, cell 1, cell 2]
  nodes : hnats h "xnodes" "ynodes" "znodes" = .ok [n 0, n 1, n 2]
  mu : hget h "meshunit" = .ok (.str mu)

/-- the mesh a consistent header yields -/
def regOf (lo hi : Nat → Rat) (mu : String) : Region :=
  { pmin := [lo 0, lo 1, lo 2], pmax := [hi 0, hi 1, hi 2], dims := ["x", "y", "z"],
    units := [mu, mu, mu], tol := 1 / 1000000000000 }

def meshOf (lo hi : Nat → Rat) (n : Nat → Nat) (mu : String) : Mesh :=
  { region := regOf lo hi mu, n := [n 0, n 1, n 2], bc := "", subs := [] }

theorem lt3 (P : Nat → Prop) (h : ∀ a, a < 3 → P a) : P 0 ∧ P 1 ∧ P 2 := ⟨h 0 (by omega), h 1 (by omega), h 2 (by omega)⟩

theorem readMesh_ok (h : List (String × HVal)) (lo hi cell : Nat → Rat) (n : Nat → Nat) (mu : String)
    (H : HeaderOf h lo hi cell n mu)
    (hlt : ∀ a, a < 3 → lo a < hi a) (hn : ∀ a, a < 3 → 0 < n a)
    (hc : ∀ a, a < 3 → cell a = (hi a - lo a) / (n a : Rat)) :
    readMesh h = .ok (meshOf lo hi n mu) := by
  unfold readMesh
  rw [H.pmin, H.pmax, H.step, H.mu]
  simp only [bind, Except.bind, HVal.show]
  have hr := regionMk_ok' [lo 0, lo 1, lo 2] [hi 0, hi 1, hi 2] none ["x", "y", "z"] [mu, mu, mu]
    (1 / 1000000000000) rfl (by simp) dimsOk_none3 rfl (by
      intro a ha
      simp only [List.length_cons, List.length_nil] at ha
      obtain ⟨h0, h1, h2⟩ := lt3 _ hlt
      match a, ha with
      | 0, _ => simpa using h0
      | 1, _ => simpa using h1
      | 2, _ => simpa using h2)
  rw [hr]
  simp only
  have hm := mkCell_ok (regOf lo hi mu) [n 0, n 1, n 2] rfl
    (by
      intro a ha
      obtain ⟨h0, h1, h2⟩ := lt3 _ hlt
      have ha : a < 3 := ha
      match a, ha with
      | 0, _ => simpa [Region.lo, Region.hi, regOf] using h0
      | 1, _ => simpa [Region.lo, Region.hi, regOf] using h1
      | 2, _ => simpa [Region.lo, Region.hi, regOf] using h2)
    (by
      intro a ha
      obtain ⟨h0, h1, h2⟩ := lt3 _ hn
      have ha : a < 3 := ha
      match a, ha with
      | 0, _ => simpa using h0
      | 1, _ => simpa using h1
      | 2, _ => simpa using h2)
  have hcells : [cell 0, cell 1, cell 2] = tab (regOf lo hi mu).ndim
      (fun a => (regOf lo hi mu).edge a / (([n 0, n 1, n 2].getD a 0 : Nat) : Rat)) := by
    obtain ⟨h0, h1, h2⟩ := lt3 _ hc
    simp [tab, Region.ndim, Region.edge, Region.lo, Region.hi, regOf, List.range, List.range.loop, h0, h1, h2]
  show Mesh.mkCell? (regOf lo hi mu) [cell 0, cell 1, cell 2] = _
  rw [hcells, hm]
  rfl



theorem natProd_rev3 (a b c vd : Nat) : natProd ([a, b, c].reverse ++ [vd]) = natProd [a, b, c] * vd := by
  simp [natProd]; ring

theorem dec_enc_magic {α} (c : Codec α) (narrow : α → α) (L : c.Lawful narrow) (le : Bool) (w : Nat)
    (hw : w = 4 ∨ w = 8) : c.dec le w (c.enc le w (c.magic w)) = c.magic w := by
  rcases hw with rfl | rfl
  · rw [L.dec_enc4, L.narrow_magic]
  · rw [L.dec_enc8]

/-- what reading a `w`-byte value written by the codec gives -/
def conv {α} (narrow : α → α) (w : Nat) (x : α) : α := if w = 4 then narrow x else x

theorem dec_enc_conv {α} (c : Codec α) (narrow : α → α) (L : c.Lawful narrow) (le : Bool) (w : Nat)
    (hw : w = 4 ∨ w = 8) (x : α) : c.dec le w (c.enc le w x) = conv narrow w x := by
  rcases hw with rfl | rfl
  · rw [L.dec_enc4]; rfl
  · rw [L.dec_enc8]; rfl

theorem readBin_block {α} [DecidableEq α] (c : Codec α) (narrow : α → α) (L : c.Lawful narrow) (le : Bool)
    (w : Nat) (hw : w = 4 ∨ w = 8) (vals : List α) (tail : List Byte) (vd : Nat) (hvd : 0 < vd)
    (hmod : vals.length % vd = 0) :
    readBin c le w (c.enc le w (c.magic w) ++ (vals.flatMap (c.enc le w) ++ tail)) vals.length vd
      = .ok (vals.map (conv narrow w)) := by
  have hw0 : 0 < w := by rcases hw with rfl | rfl <;> omega
  have hlen : (c.enc le w (c.magic w)).length = w := L.enc_len _ _ _
  unfold readBin
  have c1 : ¬ ((c.enc le w (c.magic w) ++ (vals.flatMap (c.enc le w) ++ tail)).length < w) := by
    rw [List.length_append, hlen]; omega
  have c2 : ¬ (w ≠ 4 ∧ w ≠ 8) := by omega
  have c3 : (c.enc le w (c.magic w) ++ (vals.flatMap (c.enc le w) ++ tail)).take w = c.enc le w (c.magic w) := by
    rw [List.take_append_of_le_length (by omega), List.take_of_length_le (by omega)]
  have c4 : (c.enc le w (c.magic w) ++ (vals.flatMap (c.enc le w) ++ tail)).drop w
      = vals.flatMap (c.enc le w) ++ tail := by
    have := List.drop_left (l₁ := c.enc le w (c.magic w)) (l₂ := vals.flatMap (c.enc le w) ++ tail)
    rw [hlen] at this; exact this
  have c5 := fromfile_block c le w hw0 vals tail (fun x => L.enc_len le w x)
  have c6 : (vals.map fun x => c.dec le w (c.enc le w x)) = vals.map (conv narrow w) :=
    List.map_congr_left (fun x _ => dec_enc_conv c narrow L le w hw x)
  rw [if_neg c1, if_neg c2, c3, dec_enc_magic c narrow L le w hw, c4, c5, c6]
  have c7 : ¬ (vd = 0) := by omega
  simp [c7, hmod]

theorem width_words (w : Nat) (hw : w = 4 ∨ w = 8) :
    isBinary ["Binary", toString w] = true ∧ dataWidth ["Binary", toString w] = some w := by
  rcases hw with rfl | rfl <;> decide +kernel



theorem parse_bin_ok {α} [DecidableEq α] (c : Codec α) (narrow : α → α) (L : c.Lawful narrow) (F : OvfFile α)
    (h : List (String × HVal)) (lo hi cell : Nat → Rat) (n : Nat → Nat) (mu : String)
    (H : HeaderOf h lo hi cell n mu)
    (hlt : ∀ a, a < 3 → lo a < hi a) (hn : ∀ a, a < 3 → 0 < n a)
    (hc : ∀ a, a < 3 → cell a = (hi a - lo a) / (n a : Rat))
    (w : Nat) (hw : w = 4 ∨ w = 8) (ws : List String)
    (hws : isBinary ws = true ∧ dataWidth ws = some w)
    (hscan : scan F.lines [] = some (h, ws))
    (vd : Nat) (hvd : 0 < vd) (hvdim : valueDim F.first h = .ok vd)
    (vals : List α) (tail : List Byte)
    (hbody : F.body = .bin (c.enc (isV2 F.first) w (c.magic w)
      ++ (vals.flatMap (c.enc (isV2 F.first) w) ++ tail)))
    (hcount : vals.length = natProd [n 0, n 1, n 2] * vd) :
    parse c F = .ok { mesh := meshOf lo hi n mu, vd := vd, flat := vals.map (conv narrow w), header := h } := by
  unfold parse
  rw [hscan]
  simp only
  have e1 : ws.isEmpty = false := by
    cases ws with
    | nil => simp [isBinary] at hws; exact absurd hws.1 (by decide +kernel)
    | cons _ _ => rfl
  have e2 : (isBinary ws && (dataWidth ws).isNone) = false := by rw [hws.1, hws.2]; rfl
  rw [e1, e2, hvdim, readMesh_ok h lo hi cell n mu H hlt hn hc, H.nodes]
  simp only [Bool.false_eq_true, if_false]
  unfold readBody
  rw [hbody]
  simp only [hws.1, hws.2, if_true, Option.getD_some]
  rw [← hcount, readBin_block c narrow L _ w hw vals tail vd hvd (by rw [hcount]; exact Nat.mul_mod_left _ _)]

theorem vdimsSetter_some (reserved : String → Bool) (vs : List String) (hne : vs ≠ [])
    (hd : hasDup vs = false) (hr : ∀ v ∈ vs, reserved v = false) :
    vdimsSetter reserved vs.length (some vs) = .ok (some vs) := by
  cases vs with
  | nil => exact absurd rfl hne
  | cons v vs =>
    unfold vdimsSetter
    have : (v :: vs).any reserved = false := by
      rw [List.any_eq_false]; intro x hx; rw [hr x hx]; exact Bool.false_ne_true
    simp only [ne_eq, not_true_eq_false, if_false, hd, Bool.false_eq_true, this]

theorem fromOvf_of_parse {α} [DecidableEq α] (c : Codec α) (isWord : Char → Bool) (reserved : String → Bool)
    (F : OvfFile α) (lo hi : Nat → Rat) (n : Nat → Nat) (mu : String) (vd : Nat) (hvd : 0 < vd)
    (flat : List α) (h : List (String × HVal))
    (hp : parse c F = .ok { mesh := meshOf lo hi n mu, vd := vd, flat := flat, header := h })
    (hlen : flat.length = natProd [n 0, n 1, n 2] * vd)
    (vd' : Option (List String)) (hl : vdimsSetter reserved vd (labelsOf isWord h) = .ok vd') :
    fromOvf c isWord reserved F none
      = .ok { mesh := meshOf lo hi n mu, nvdim := vd,
              arr := (NDA.ofList ([n 0, n 1, n 2].reverse ++ [vd]) flat c.zero).transpose [2, 1, 0, 3],
              vdims := vd', unit := unitOf h } := by
  unfold fromOvf
  rw [hp]
  simp only [loadSide]
  have hu : unflatten (meshOf lo hi n mu).n vd flat c.zero
      = .ok ((NDA.ofList ([n 0, n 1, n 2].reverse ++ [vd]) flat c.zero).transpose [2, 1, 0, 3]) := by
    unfold unflatten
    have : (meshOf lo hi n mu).n = [n 0, n 1, n 2] := rfl
    rw [this, natProd_rev3, if_neg (by omega)]
  rw [hu]
  simp only
  rw [if_neg (by omega), hl]

end DFV.C09
