import Std.Data.String.ToNat
import DFV.Lemmas.C12Four
import DFV.Model.C12Ctor
/-! C12 (round 3): the field constructor establishes the shape and value invariants. -/
namespace DFV.T
open DFV DFV.C14

theorem hasDup_false_nodup (l : List String) : hasDup l = false → l.Nodup := by
  induction l with
  | nil => intro _; exact List.nodup_nil
  | cons x xs ih =>
    intro h
    simp only [hasDup, Bool.or_eq_false_iff] at h
    rw [List.nodup_cons]
    refine ⟨?_, ih h.2⟩
    intro hm
    have : xs.contains x = true := by simpa using hm
    rw [this] at h; cases h.1

theorem defaultVdims_length (nvdim : Nat) (vs : List String) (h : Fld.defaultVdims nvdim = some vs) : vs.length = nvdim := by
  unfold Fld.defaultVdims at h
  split at h
  · cases h
  · split at h
    · injection h with h; subst h
      rename_i h1 h3
      have : nvdim = 2 ∨ nvdim = 3 ∨ nvdim = 0 := by omega
      rcases this with e | e | e <;> subst e <;> rfl
    · injection h with h; subst h; simp

theorem defaultVdims_nodup (nvdim : Nat) (vs : List String) (h : Fld.defaultVdims nvdim = some vs) : vs.Nodup := by
  unfold Fld.defaultVdims at h
  split at h
  · cases h
  · split at h
    · injection h with h; subst h
      rename_i h1 h3
      have : nvdim = 2 ∨ nvdim = 3 ∨ nvdim = 0 := by omega
      rcases this with e | e | e <;> subst e <;> decide
    · injection h with h; subst h
      unfold List.Nodup
      rw [List.pairwise_map]
      apply List.Pairwise.imp _ (List.nodup_range (n := nvdim))
      intro i j hij e
      apply hij
      have e' : "v" ++ toString i = "v" ++ toString j := e
      have := congrArg String.toList e'
      simp only [String.toList_append] at this
      have h2 := List.append_cancel_left this
      have h3 : toString i = toString j := String.toList_inj.mp h2
      exact Nat.repr_inj.mp h3

/-- what the `vdims` setter stores: nothing, or exactly `nvdim` pairwise different labels -/
theorem vdimsSet_ok (nvdim : Nat) (vd r : Option (List String)) (h : vdimsSet nvdim vd = .ok r) :
    ∀ vs, r = some vs → vs.length = nvdim ∧ vs.Nodup := by
  intro vs hr
  subst hr
  cases vd with
  | none =>
    simp only [vdimsSet] at h
    injection h with h
    exact ⟨defaultVdims_length nvdim vs h, defaultVdims_nodup nvdim vs h⟩
  | some l =>
    simp only [vdimsSet] at h
    split at h
    · cases h
    · split at h
      · cases h
      · split at h
        · cases h
        · rename_i h1 h2 h3
          injection h with h; injection h with h; subst h
          exact ⟨not_not.mp h2, hasDup_false_nodup l (by simpa using h3)⟩

theorem mappedPairs_keys_sublist (mp : List (String × Option String)) :
    ((mappedPairs mp).map (·.1)).Sublist (mp.map (·.1)) := by
  induction mp with
  | nil => exact List.Sublist.slnil
  | cons p ps ih =>
    obtain ⟨k, v⟩ := p
    cases v with
    | none => exact List.Sublist.cons _ ih
    | some d => exact List.Sublist.cons_cons _ ih

theorem zip_keys_nodup (vs ds : List String) (h : vs.Nodup) : ((List.zip vs ds).map (·.1)).Nodup := by
  have : ((List.zip vs ds).map (·.1)).Sublist vs := by
    induction vs generalizing ds with
    | nil => simp
    | cons v vs ih =>
      cases ds with
      | nil => simp
      | cons d ds =>
        simp only [List.zip_cons_cons, List.map_cons]
        exact List.Sublist.cons_cons _ (ih ds (List.nodup_cons.mp h).2)
  exact this.nodup h

/-- what the `vdim_mapping` setter stores: a dictionary — keys pairwise different (a rearrangement
of the labels, or the labels zipped with the dimension names, or nothing) -/
theorem vmapSet_keys (mesh : Mesh) (nvdim : Nat) (vs : Option (List String)) (vm : Option (List (String × Option String)))
    (mp : List (String × Option String)) (hvs : ∀ l, vs = some l → l.Nodup) (h : vmapSet mesh nvdim vs vm = .ok mp) :
    (mp.map (·.1)).Nodup := by
  cases vm with
  | none =>
    simp only [vmapSet] at h
    split at h
    · injection h with h; subst h; exact List.nodup_nil
    · split at h
      · split at h
        · rename_i l
          injection h with h; subst h
          rw [List.map_map]
          exact zip_keys_nodup l _ (hvs l rfl)
        · injection h with h; subst h; exact List.nodup_nil
      · injection h with h; subst h; exact List.nodup_nil
  | some m0 =>
    simp only [vmapSet] at h
    by_cases c1 : m0.length = 1 ∧ nvdim = 1 ∧ vs = none
    · rw [if_pos c1] at h
      injection h with h; subst h; exact List.nodup_nil
    · rw [if_neg c1] at h
      by_cases c2 : 0 < m0.length
      · rw [if_pos c2] at h
        cases vs with
        | none => cases h
        | some l =>
          simp only at h
          by_cases hperm : (m0.map (·.1)).isPerm l = true
          · rw [if_pos hperm] at h
            injection h with h; subst h
            have hp : (m0.map (·.1)).Perm l := List.isPerm_iff.mp hperm
            exact hp.nodup_iff.mpr (hvs l rfl)
          · rw [if_neg hperm] at h; cases h
      · rw [if_neg c2] at h
        injection h with h; subst h
        have : m0 = [] := by
          cases m0 with
          | nil => rfl
          | cons a b => simp at c2
        rw [this]; exact List.nodup_nil

theorem mem_indicesC (ns j : List Nat) (h : inRange ns j = true) : j ∈ indicesC ns := by
  unfold indicesC
  rw [List.mem_map]
  exact ⟨flatC ns j, List.mem_range.mpr (flatC_lt ns j h), unflatC_flatC ns j h⟩

/-- **The constructor establishes both invariants**: whatever `Field(mesh, nvdim, value, valid, vdims,
vdim_mapping, unit)` returns on a mesh satisfying the mesh invariant satisfies the shape invariant
`FldInv` and the value invariant `FldVInv` — and keeps mesh, arrays, `nvdim`, unit as given. -/
theorem mkFld?_inv (mesh : Mesh) (hm : mesh.Inv) (nvdim : Nat) (value : NDA (List Rat)) (valid : NDA Bool)
    (vdims : Option (List String)) (vmap : Option (List (String × Option String))) (unit : Option String) (f : Fld)
    (h : mkFld? mesh nvdim value valid vdims vmap unit = .ok f) :
    FldInv f ∧ FldVInv f ∧ f.mesh = mesh ∧ f.nvdim = nvdim ∧ f.data = value ∧ f.valid = valid ∧ f.unit = unit ∧ 1 ≤ nvdim := by
  unfold mkFld? at h
  split at h
  · cases h
  · rename_i hn
    split at h
    · cases h
    · rename_i hshape
      split at h
      · cases h
      · rename_i hall
        split at h
        · cases h
        · rename_i hvshape
          split at h
          · cases h
          · rename_i vs hvs
            split at h
            · cases h
            · rename_i mp hmp
              injection h with h; subst h
              have hvd := vdimsSet_ok nvdim vdims vs hvs
              refine ⟨⟨hm, not_not.mp hshape, not_not.mp hvshape⟩, ⟨?_, fun l hl => (hvd l hl).1, ?_⟩,
                rfl, rfl, rfl, rfl, rfl, by omega⟩
              · intro j hj
                have hall' : (indicesC mesh.n).all (fun j => decide ((value.get j).length = nvdim)) = true := by
                  simpa using hall
                have := List.all_eq_true.mp hall' j (mem_indicesC mesh.n j hj)
                simpa using this
              · exact (mappedPairs_keys_sublist mp).nodup
                  (vmapSet_keys mesh nvdim vs vmap mp (fun l hl => (hvd l hl).2) hmp)

end DFV.T
