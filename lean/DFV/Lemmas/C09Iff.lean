import DFV.Lemmas.C09ExamplesSub
import DFV.Lemmas.C09IeeeV
/-! C09, second extension round: converse directions of the unit and label round trips - what the
reader can recover at all (`recoverLabels_wordchars`, `unitOk_of_roundtrip`). -/
namespace DFV.C09
open DFV

/-! unit iff -/

theorem unitOk_of_roundtrip {α} (f : OField α) (extend : Bool) (hd : 0 < writeDim f extend)
    (h : recoverUnit (valueUnits f extend) = f.unit) : UnitOk f.unit := by
  cases hf : f.unit with
  | none => trivial
  | some u =>
    rw [hf] at h
    have hne : u ≠ "" := by
      intro e
      subst e
      have : recoverUnit (valueUnits f extend) = none := by
        unfold valueUnits
        rw [hf]
        exact recoverUnit_none _ hd
      rw [this] at h; cases h
    refine ⟨⟨?_, recoverUnit_nows _ u h⟩, ?_⟩
    · intro e; apply hne; rw [← String.ofList_toList (s := u), e]
    · intro e; subst e; exact recoverUnit_ne_None _ h

/-! labels: what the regex + convert can produce -/

theorem mem_takeWhile_p {α} (p : α → Bool) (l : List α) (x : α) (h : x ∈ l.takeWhile p) : p x = true := by
  induction l with
  | nil => simp at h
  | cons a l ih =>
    simp only [List.takeWhile_cons] at h
    split at h
    · rcases List.mem_cons.mp h with rfl | h
      · assumption
      · exact ih h
    · simp at h

/-- characters of a token: word characters, braces, blanks -/
theorem tokensF_chars (isWord : Char → Bool) (k : Nat) (l : List Char) :
    ∀ t ∈ tokensF isWord k l, ∀ c ∈ t, isWord c = true ∨ c = '{' ∨ c = '}' ∨ c = ' ' := by
  induction k using Nat.strong_induction_on generalizing l with
  | _ k ih =>
    cases k with
    | zero => intro t ht; simp [tokensF] at ht
    | succ k =>
      cases l with
      | nil => intro t ht; simp [tokensF] at ht
      | cons c cs =>
        intro t ht
        simp only [tokensF] at ht
        split at ht
        · rename_i hc
          rcases List.mem_cons.mp ht with rfl | ht
          · intro d hd
            rcases List.mem_cons.mp hd with rfl | hd
            · exact Or.inl hc
            · exact Or.inl (mem_takeWhile_p _ _ _ hd)
          · exact ih k (by omega) _ t ht
        · split at ht
          · split at ht
            · split at ht
              · exact ih k (by omega) _ t ht
              · rcases List.mem_cons.mp ht with rfl | ht
                · intro d hd
                  rcases List.mem_cons.mp hd with rfl | hd
                  · exact Or.inr (Or.inl rfl)
                  · rcases List.mem_append.mp hd with hd | hd
                    · have := mem_takeWhile_p _ _ _ hd
                      simp only [Bool.or_eq_true, beq_iff_eq] at this
                      rcases this with h | h
                      · exact Or.inl h
                      · exact Or.inr (Or.inr (Or.inr h))
                    · simp only [List.mem_singleton] at hd
                      exact Or.inr (Or.inr (Or.inl hd))
                · exact ih k (by omega) _ t ht
            · exact ih k (by omega) _ t ht
          · exact ih k (by omega) _ t ht

theorem joinUs_chars (ws : List (List Char)) : ∀ c ∈ joinUs ws, c = '_' ∨ ∃ w ∈ ws, c ∈ w := by
  induction ws with
  | nil => intro c hc; simp [joinUs] at hc
  | cons w ws ih =>
    cases ws with
    | nil => intro c hc; exact Or.inr ⟨w, by simp, by simpa [joinUs] using hc⟩
    | cons v vs =>
      intro c hc
      simp only [joinUs, List.mem_append, List.mem_cons] at hc
      rcases hc with hc | rfl | hc
      · exact Or.inr ⟨w, by simp, hc⟩
      · exact Or.inl rfl
      · rcases ih c hc with h | ⟨x, hx, hcx⟩
        · exact Or.inl h
        · exact Or.inr ⟨x, by simp [hx], hcx⟩

/-- `convert` of a token is made of word characters only -/
theorem convert_chars (isWord : Char → Bool) (hus : isWord '_' = true) (t : List Char)
    (ht : ∀ c ∈ t, isWord c = true ∨ c = '{' ∨ c = '}' ∨ c = ' ') :
    ∀ c ∈ convert t, isWord c = true := by
  intro c hc
  unfold convert at hc
  rcases joinUs_chars _ c hc with rfl | ⟨w, hw, hcw⟩
  · exact hus
  · have hmem := splitWs_subset _ w hw c hcw
    have hnws := splitWs_nows _ w hw c hcw
    rw [List.mem_filter] at hmem
    obtain ⟨hm, hf⟩ := hmem
    simp only [Bool.and_eq_true, bne_iff_ne, ne_eq] at hf
    have hm' : c ∈ t := by
      split at hm
      · exact (List.dropWhile_suffix _).subset (List.mem_of_mem_drop hm)
      · exact hm
    rcases ht c hm' with h | h | h | h
    · exact h
    · exact absurd h hf.1
    · exact absurd h hf.2
    · subst h
      have : ' '.isWhitespace = true := by decide
      rw [this] at hnws; cases hnws

/-- **whatever `valuelabels` holds, every recovered label is made of word characters** -/
theorem recoverLabels_wordchars (isWord : Char → Bool) (hus : isWord '_' = true) (text : String)
    (ls : List String) (h : recoverLabels isWord text = some ls) :
    (∀ l ∈ ls, ∀ c ∈ l.toList, isWord c = true) ∧ hasDup ls = false := by
  unfold recoverLabels at h
  split at h
  · cases h
  · rename_i hd
    injection h with h
    subst h
    refine ⟨?_, by simpa using hd⟩
    intro l hl c hc
    obtain ⟨t, ht, rfl⟩ := List.mem_map.mp hl
    rw [String.toList_ofList] at hc
    exact convert_chars isWord hus t (tokensF_chars isWord _ _ t ht) c hc

/-! ## acceptance of binary files; inversion of the header reads -/

theorem readBin_ok_iff {α} [DecidableEq α] (c : Codec α) (v2 : Bool) (w : Nat) (bytes : List Byte)
    (count vd : Nat) (flat : List α) :
    readBin c v2 w bytes count vd = .ok flat ↔
      w ≤ bytes.length ∧ (w = 4 ∨ w = 8) ∧ c.dec v2 w (bytes.take w) = c.magic w ∧ vd ≠ 0 ∧
      (fromfile c v2 w (bytes.drop w) count).length % vd = 0 ∧
      flat = fromfile c v2 w (bytes.drop w) count := by
  unfold readBin
  constructor
  · intro h
    split at h
    · cases h
    · split at h
      · cases h
      · split at h
        · cases h
        · split at h
          · cases h
          · split at h
            · cases h
            · rename_i h1 h2 h3 h4 h5
              injection h with h
              exact ⟨by omega, by omega, by simpa using h3, h4, by simpa using h5, h.symm⟩
  · rintro ⟨h1, h2, h3, h4, h5, rfl⟩
    rw [if_neg (by omega), if_neg (by omega), if_neg (by simpa using h3), if_neg h4, if_neg (by simpa using h5)]

theorem fromfile_length {α} (c : Codec α) (le : Bool) (w : Nat) (bytes : List Byte) (count : Nat) :
    (fromfile c le w bytes count).length = min count (bytes.length / w) := by
  unfold fromfile; simp

/-- `parse` of a binary file with a consistent header, reduced to the data block -/
theorem parse_bin_eq {α} [DecidableEq α] (c : Codec α) (F : OvfFile α)
    (h : List (String × HVal)) (lo hi cell : Nat → Rat) (n : Nat → Nat) (mu : String)
    (H : HeaderOf h lo hi cell n mu)
    (hlt : ∀ a, a < 3 → lo a < hi a) (hn : ∀ a, a < 3 → 0 < n a)
    (hc : ∀ a, a < 3 → cell a = (hi a - lo a) / (n a : Rat))
    (ws : List String) (hscan : scan F.lines [] = some (h, ws)) (hb : isBinary ws = true)
    (w : Nat) (hw : dataWidth ws = some w) (vd : Nat) (hvdim : valueDim F.first h = .ok vd)
    (bytes : List Byte) (hbody : F.body = .bin bytes) :
    parse c F = match readBin c (isV2 F.first) w bytes (natProd [n 0, n 1, n 2] * vd) vd with
      | .error e => .error e
      | .ok flat => .ok { mesh := meshOf lo hi n mu, vd := vd, flat := flat, header := h } := by
  unfold parse
  rw [hscan]
  simp only
  have e1 : ws.isEmpty = false := by
    cases ws with
    | nil => simp [isBinary] at hb; exact absurd hb (by decide +kernel)
    | cons _ _ => rfl
  have e2 : (isBinary ws && (dataWidth ws).isNone) = false := by rw [hb, hw]; rfl
  rw [e1, e2, hvdim, readMesh_ok h lo hi cell n mu H hlt hn hc, H.nodes]
  simp only [Bool.false_eq_true, if_false]
  unfold readBody
  rw [hbody]
  simp only [hb, hw, if_true, Option.getD_some]
  rfl


theorem hnums_ok_inv (h : List (String × HVal)) (a b c : String) (l : List Rat) (hl : hnums h a b c = .ok l) :
    (∃ q, hnum h a = .ok q) ∧ (∃ q, hnum h b = .ok q) ∧ (∃ q, hnum h c = .ok q) := by
  unfold hnums at hl
  cases ha : hnum h a with
  | error e => rw [ha] at hl; cases hl
  | ok x =>
    cases hb : hnum h b with
    | error e => rw [ha, hb] at hl; cases hl
    | ok y =>
      cases hc : hnum h c with
      | error e => rw [ha, hb, hc] at hl; cases hl
      | ok z => exact ⟨⟨x, rfl⟩, ⟨y, rfl⟩, ⟨z, rfl⟩⟩

theorem hnats_ok_inv (h : List (String × HVal)) (a b c : String) (l : List Nat) (hl : hnats h a b c = .ok l) :
    (∃ q, hnat h a = .ok q) ∧ (∃ q, hnat h b = .ok q) ∧ (∃ q, hnat h c = .ok q) := by
  unfold hnats at hl
  cases ha : hnat h a with
  | error e => rw [ha] at hl; cases hl
  | ok x =>
    cases hb : hnat h b with
    | error e => rw [ha, hb] at hl; cases hl
    | ok y =>
      cases hc : hnat h c with
      | error e => rw [ha, hb, hc] at hl; cases hl
      | ok z => exact ⟨⟨x, rfl⟩, ⟨y, rfl⟩, ⟨z, rfl⟩⟩

theorem readMesh_ok_inv (h : List (String × HVal)) (m : Mesh) (hm : readMesh h = .ok m) :
    (∃ l, hnums h "xmin" "ymin" "zmin" = .ok l) ∧ (∃ l, hnums h "xmax" "ymax" "zmax" = .ok l) ∧
    (∃ l, hnums h "xstepsize" "ystepsize" "zstepsize" = .ok l) ∧ (∃ v, hget h "meshunit" = .ok v) := by
  unfold readMesh at hm
  cases h1 : hnums h "xmin" "ymin" "zmin" with
  | error e => rw [h1] at hm; cases hm
  | ok l1 =>
    cases h2 : hnums h "xmax" "ymax" "zmax" with
    | error e => rw [h1, h2] at hm; cases hm
    | ok l2 =>
      cases h3 : hnums h "xstepsize" "ystepsize" "zstepsize" with
      | error e => rw [h1, h2, h3] at hm; cases hm
      | ok l3 =>
        cases h4 : hget h "meshunit" with
        | error e => rw [h1, h2, h3, h4] at hm; cases hm
        | ok v => exact ⟨⟨_, rfl⟩, ⟨_, rfl⟩, ⟨_, rfl⟩, ⟨_, rfl⟩⟩

/-- the node counts too are read before the data block -/
theorem parse_ok_nodes {α} [DecidableEq α] (c : Codec α) (F : OvfFile α) (p : Parsed α)
    (hp : parse c F = .ok p) : ∃ nodes, hnats p.header "xnodes" "ynodes" "znodes" = .ok nodes := by
  unfold parse at hp
  split at hp
  · cases hp
  · split at hp
    · cases hp
    · split at hp
      · cases hp
      · split at hp
        · cases hp
        · split at hp
          · cases hp
          · split at hp
            · cases hp
            · rename_i nodes hnodes
              split at hp
              · cases hp
              · injection hp with hp
                subst hp
                exact ⟨nodes, hnodes⟩


end DFV.C09
