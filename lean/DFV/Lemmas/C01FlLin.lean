import DFV.Lemmas.C01FlTol
/-! C01 helper lemmas, round 2: `np.linspace` in rounded arithmetic (`linspaceFl`) against the
exact formula, and the rounded end points `pmin + cell/2`, `pmax − cell/2` of `Mesh.cells`. -/
namespace DFV.C01
open DFV DFV.Mesh

/-- `(1 + u)³ − 1 ≤ 16/5·u` for `u ≤ 1/16` -/
theorem g3_le (u : Rat) (hu0 : 0 ≤ u) (hu : u ≤ 1 / 16) :
    u * (1 + (2 * u + u * u)) + (2 * u + u * u) ≤ 16 / 5 * u := by
  have h1 : u * u ≤ 1 / 16 * u := by nlinarith
  have h2 : u * (u * u) ≤ 1 / 256 * u := by nlinarith
  nlinarith

/-- entry `j` of `np.linspace(A, B, N + 1)` as computed (not the overwritten last one) is within
`10u·M` of `A + j·(B − A)/N`, where `M` bounds `|A|`, `|B|` -/
theorem linspace_entry_err (R : Rounding) (A B M : Rat) (N j : Nat) (hN : 0 < N) (hj : j ≤ N)
    (hA : |A| ≤ M) (hB : |B| ≤ M) :
    |R.fl (R.fl ((j : Rat) * R.fl (R.fl (B - A) / (N : Rat))) + A) - (A + (j : Rat) * ((B - A) / (N : Rat)))|
      ≤ 10 * R.u * M := by
  have hu := R.u_nonneg
  have hu16 := R.u_small
  have hM : 0 ≤ M := le_trans (abs_nonneg _) hA
  have hNq : (0 : Rat) < (N : Rat) := by exact_mod_cast hN
  have hjq : (0 : Rat) ≤ (j : Rat) := Nat.cast_nonneg j
  have hjN : (j : Rat) ≤ (N : Rat) := by exact_mod_cast hj
  set g := 2 * R.u + R.u * R.u with hg
  have hg0 : 0 ≤ g := by positivity
  set s := (B - A) / (N : Rat) with hs
  set s' := R.fl (R.fl (B - A) / (N : Rat)) with hs'
  have e1 : |s' - s| ≤ g * |s| := quot_err2 R (B - A) (N : Rat) hNq
  have hD : |B - A| ≤ 2 * M := by
    have := abs_sub A B
    rw [abs_sub_comm] at this
    have := abs_add_le B (-A)
    rw [abs_neg] at this
    have e : B + -A = B - A := by ring
    rw [e] at this
    linarith
  -- j |s| ≤ |B - A| ≤ 2 M
  have hjs : (j : Rat) * |s| ≤ 2 * M := by
    have e : |s| = |B - A| / (N : Rat) := by rw [hs, abs_div, abs_of_pos hNq]
    rw [e]
    have : (j : Rat) * (|B - A| / (N : Rat)) ≤ (N : Rat) * (|B - A| / (N : Rat)) :=
      mul_le_mul_of_nonneg_right hjN (div_nonneg (abs_nonneg _) hNq.le)
    have e2 : (N : Rat) * (|B - A| / (N : Rat)) = |B - A| := by field_simp
    linarith
  have hs'abs : |s'| ≤ (1 + g) * |s| := abs_le_of_err g s s' e1
  -- t' = fl (j s')
  set t' := R.fl ((j : Rat) * s') with ht'
  have e2 : |t' - (j : Rat) * s'| ≤ R.u * |(j : Rat) * s'| := R.err _
  have hjs'abs : |(j : Rat) * s'| ≤ (1 + g) * ((j : Rat) * |s|) := by
    rw [abs_mul, abs_of_nonneg hjq]
    have := mul_le_mul_of_nonneg_left hs'abs hjq
    linarith
  have e3 : |t' - (j : Rat) * s| ≤ (R.u * (1 + g) + g) * ((j : Rat) * |s|) := by
    have e : t' - (j : Rat) * s = (t' - (j : Rat) * s') + (j : Rat) * (s' - s) := by ring
    rw [e]
    have t := abs_add_le (t' - (j : Rat) * s') ((j : Rat) * (s' - s))
    have : |(j : Rat) * (s' - s)| ≤ (j : Rat) * (g * |s|) := by
      rw [abs_mul, abs_of_nonneg hjq]; exact mul_le_mul_of_nonneg_left e1 hjq
    have : R.u * |(j : Rat) * s'| ≤ R.u * ((1 + g) * ((j : Rat) * |s|)) := mul_le_mul_of_nonneg_left hjs'abs hu
    nlinarith
  have hg3 := g3_le R.u hu hu16
  rw [← hg] at hg3
  have hg3' : R.u * (1 + g) + g ≤ 16 / 5 * R.u := hg3
  have hjs0 : 0 ≤ (j : Rat) * |s| := mul_nonneg hjq (abs_nonneg _)
  have e4 : |t' - (j : Rat) * s| ≤ 32 / 5 * R.u * M := by
    have : (R.u * (1 + g) + g) * ((j : Rat) * |s|) ≤ 16 / 5 * R.u * (2 * M) :=
      mul_le_mul hg3' hjs (hjs0) (by positivity)
    linarith
  -- y' = fl (t' + A)
  have e5 : |R.fl (t' + A) - (t' + A)| ≤ R.u * |t' + A| := R.err _
  have hjsabs : |(j : Rat) * s| ≤ 2 * M := by rw [abs_mul, abs_of_nonneg hjq]; exact hjs
  have htA : |t' + A| ≤ 32 / 5 * R.u * M + 2 * M + M := by
    have e : t' + A = (t' - (j : Rat) * s) + ((j : Rat) * s + A) := by ring
    rw [e]
    have t1 := abs_add_le (t' - (j : Rat) * s) ((j : Rat) * s + A)
    have t2 := abs_add_le ((j : Rat) * s) A
    linarith
  have e : R.fl (t' + A) - (A + (j : Rat) * s) = (R.fl (t' + A) - (t' + A)) + (t' - (j : Rat) * s) := by ring
  rw [e]
  have t := abs_add_le (R.fl (t' + A) - (t' + A)) (t' - (j : Rat) * s)
  have h1 : R.u * |t' + A| ≤ R.u * (32 / 5 * R.u * M + 2 * M + M) := mul_le_mul_of_nonneg_left htA hu
  have huM : 0 ≤ R.u * M := mul_nonneg hu hM
  have h2 : R.u * (R.u * M) ≤ 1 / 16 * (R.u * M) := mul_le_mul_of_nonneg_right hu16 huM
  nlinarith

/-- interpolation between perturbed end points moves by at most the larger perturbation -/
theorem interp_perturb (A B A' B' th d : Rat) (h0 : 0 ≤ th) (h1 : th ≤ 1)
    (hA : |A' - A| ≤ d) (hB : |B' - B| ≤ d) :
    |(A' + th * (B' - A')) - (A + th * (B - A))| ≤ d := by
  have e : (A' + th * (B' - A')) - (A + th * (B - A)) = (1 - th) * (A' - A) + th * (B' - B) := by ring
  rw [e]
  have t := abs_add_le ((1 - th) * (A' - A)) (th * (B' - B))
  rw [abs_mul, abs_mul, abs_of_nonneg h0, abs_of_nonneg (by linarith : 0 ≤ 1 - th)] at t
  have a1 : (1 - th) * |A' - A| ≤ (1 - th) * d := mul_le_mul_of_nonneg_left hA (by linarith)
  have a2 : th * |B' - B| ≤ th * d := mul_le_mul_of_nonneg_left hB h0
  linarith

/-- the rounded half cell added to / subtracted from a corner: `fl(p ± fl(cell_fl/2))` is within
`6u·M` of `p ± cell/2` (`|p| ≤ M`, `cell/2 ≤ M`, `cell_fl` within `2u + u²` of `cell`) -/
theorem half_cell_err (R : Rounding) (p c c' M sgn : Rat) (hsgn : sgn = 1 ∨ sgn = -1) (hc : 0 < c)
    (hp : |p| ≤ M) (hcM : c / 2 ≤ M) (hcc : |c' - c| ≤ (2 * R.u + R.u * R.u) * c) :
    |R.fl (p + sgn * R.fl (c' / 2)) - (p + sgn * (c / 2))| ≤ 6 * R.u * M := by
  have hu := R.u_nonneg
  have hu16 := R.u_small
  have hM : 0 ≤ M := le_trans (abs_nonneg _) hp
  set g := 2 * R.u + R.u * R.u with hg
  have hg0 : 0 ≤ g := by positivity
  set h' := R.fl (c' / 2) with hh'
  have e1 : |h' - c' / 2| ≤ R.u * |c' / 2| := R.err _
  have hc'abs : |c'| ≤ (1 + g) * c := by
    have := abs_le_of_err g c c' (by rwa [abs_of_pos hc])
    rwa [abs_of_pos hc] at this
  have e2 : |h' - c / 2| ≤ (R.u * (1 + g) + g) * (c / 2) := by
    have e : h' - c / 2 = (h' - c' / 2) + (c' - c) / 2 := by ring
    rw [e]
    have t := abs_add_le (h' - c' / 2) ((c' - c) / 2)
    have a1 : |c' / 2| ≤ (1 + g) * c / 2 := by
      rw [abs_div, abs_of_pos (by norm_num : (0 : Rat) < 2)]; linarith
    have a2 : |(c' - c) / 2| ≤ g * c / 2 := by
      rw [abs_div, abs_of_pos (by norm_num : (0 : Rat) < 2)]; linarith
    have : R.u * |c' / 2| ≤ R.u * ((1 + g) * c / 2) := mul_le_mul_of_nonneg_left a1 hu
    nlinarith
  have hg3 : R.u * (1 + g) + g ≤ 16 / 5 * R.u := g3_le R.u hu hu16
  have hc2 : 0 ≤ c / 2 := by linarith
  have e3 : |h' - c / 2| ≤ 16 / 5 * R.u * M := by
    have : (R.u * (1 + g) + g) * (c / 2) ≤ 16 / 5 * R.u * M := mul_le_mul hg3 hcM hc2 (by positivity)
    linarith
  have hsabs : |sgn| = 1 := by rcases hsgn with h | h <;> rw [h] <;> norm_num
  have e4 : |sgn * h' - sgn * (c / 2)| ≤ 16 / 5 * R.u * M := by
    rw [← mul_sub, abs_mul, hsabs, one_mul]; exact e3
  have e5 : |R.fl (p + sgn * h') - (p + sgn * h')| ≤ R.u * |p + sgn * h'| := R.err _
  have hsum : |p + sgn * h'| ≤ M + M + 16 / 5 * R.u * M := by
    have e : p + sgn * h' = p + sgn * (c / 2) + (sgn * h' - sgn * (c / 2)) := by ring
    rw [e]
    have t1 := abs_add_le (p + sgn * (c / 2)) (sgn * h' - sgn * (c / 2))
    have t2 := abs_add_le p (sgn * (c / 2))
    have : |sgn * (c / 2)| = c / 2 := by rw [abs_mul, hsabs, one_mul, abs_of_nonneg hc2]
    linarith
  have e : R.fl (p + sgn * h') - (p + sgn * (c / 2))
      = (R.fl (p + sgn * h') - (p + sgn * h')) + (sgn * h' - sgn * (c / 2)) := by ring
  rw [e]
  have t := abs_add_le (R.fl (p + sgn * h') - (p + sgn * h')) (sgn * h' - sgn * (c / 2))
  have h1 : R.u * |p + sgn * h'| ≤ R.u * (M + M + 16 / 5 * R.u * M) := mul_le_mul_of_nonneg_left hsum hu
  have huM : 0 ≤ R.u * M := mul_nonneg hu hM
  have h2 : R.u * (R.u * M) ≤ 1 / 16 * (R.u * M) := mul_le_mul_of_nonneg_right hu16 huM
  nlinarith

end DFV.C01
