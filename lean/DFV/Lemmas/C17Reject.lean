import DFV.Lemmas.C17Like
/-! What the importer refuses (for EVERY DataArray, not only exported ones), what the
spacing test cannot see, and the exported coordinates as cell centres. -/
namespace DFV.C17
open DFV

section
variable {α : Type}

theorem fromXA_no_nvdim (xa : XA α) (h : xa.attrs.nvdim = none) : fromXA xa = .error .key := by
  unfold fromXA checkNvdim
  rw [h]; rfl

theorem fromXA_nvdim_lt_one (xa : XA α) (k : Int) (h : xa.attrs.nvdim = some (.int k)) (hk : k < 1) :
    fromXA xa = .error .value := by
  unfold fromXA checkNvdim
  rw [h]; simp only [hk, if_true]; rfl

theorem fromXA_nvdim_not_int (xa : XA α) (q : Rat) (h : xa.attrs.nvdim = some (.other q)) :
    ∃ e, fromXA xa = .error e := by
  unfold fromXA checkNvdim
  rw [h]; simp only []
  split
  · exact ⟨_, rfl⟩
  · exact ⟨_, rfl⟩

theorem fromXA_vector_no_vdims (xa : XA α) (k : Int) (h : xa.attrs.nvdim = some (.int k)) (hk : 1 < k)
    (hd : ¬ "vdims" ∈ xa.dims) : fromXA xa = .error .value := by
  unfold fromXA checkNvdim
  rw [h]
  have h1 : ¬ (k < 1) := by omega
  have h2 : 1 < k ∧ ¬ xa.dims.contains "vdims" = true := ⟨hk, by rwa [List.contains_iff_mem]⟩
  simp only [h1, if_false, h2]; rfl

/-- anything that fails the spacing test on one geometric axis is rejected -/
theorem fromXA_uneven (xa : XA α) (ax : Axis) (hax : ax ∈ geo xa) (hev : evenB ax.values = false) :
    ∃ e, fromXA xa = .error e := by
  unfold fromXA
  cases checkNvdim xa.attrs.nvdim xa.dims with
  | error e => exact ⟨e, rfl⟩
  | ok k =>
    have : checkSpacing xa = .error .value := by
      unfold checkSpacing
      have : (geo xa).all (fun a => evenB a.values) = false := by
        rw [List.all_eq_false]
        exact ⟨ax, hax, by simp [hev]⟩
      rw [this]; rfl
    simp only [Except.bind, this]
    exact ⟨_, rfl⟩

/-- the spacing test fails as soon as one spacing deviates from the mean spacing by more than
`1e-8 + 1e-5·|mean|` -/
theorem evenB_false_of_dev (v : List Rat) (j : Nat) (hj : j + 1 < v.length)
    (hdev : 1/100000000 + 1/100000 * absR (meanDiff v) < absR ((v.getD (j + 1) 0 - v.getD j 0) - meanDiff v)) :
    evenB v = false := by
  unfold evenB
  have h1 : decide (v.length ≤ 1) = false := by apply decide_eq_false; omega
  rw [h1, Bool.false_or]
  apply allLt_false_of _ _ j (by omega)
  unfold Region.isclose diffs
  rw [getD_tab _ _ _ _ (by omega)]
  apply decide_eq_false
  linarith

/-- a single-cell axis without the `cell` attribute is rejected (by the explicit test, or
because the mean of no spacings is not a positive number) -/
theorem fromXA_single_no_cell (xa : XA α) (hc : xa.attrs.cell = none) (ax : Axis) (hax : ax ∈ geo xa)
    (hl : ax.values.length ≤ 1) : ∃ e, fromXA xa = .error e := by
  unfold fromXA
  cases checkNvdim xa.attrs.nvdim xa.dims with
  | error e => exact ⟨e, rfl⟩
  | ok k =>
    cases checkSpacing xa with
    | error e => exact ⟨e, rfl⟩
    | ok _ =>
      have : ∃ e, cellOf xa = .error e := by
        unfold cellOf
        rw [hc]
        simp only []
        split
        · exact ⟨_, rfl⟩
        · have : (geo xa).any (fun a => decide (a.values.length ≤ 1)) = true := by
            rw [List.any_eq_true]
            exact ⟨ax, hax, by simp [hl]⟩
          rw [this]
          exact ⟨_, rfl⟩
      obtain ⟨e, he⟩ := this
      simp only [Except.bind, he]
      exact ⟨_, rfl⟩

end

/-! ## what the spacing test cannot see -/

theorem abs_sumR_le (l : List Rat) (B : Rat) (h : ∀ x ∈ l, |x| ≤ B) : |sumR l| ≤ (l.length : Rat) * B := by
  induction l with
  | nil => simp [sumR]
  | cons x xs ih =>
    have h1 := h x (by simp)
    have h2 := ih fun y hy => h y (by simp [hy])
    simp only [sumR, List.length_cons]
    push_cast
    have := abs_add_le x (sumR xs)
    linarith

/-- **Blind below the absolute tolerance.**  Coordinates whose spacings are all at most
`5e-9` in absolute value pass the spacing test however uneven they are (the absolute term
`atol = 1e-8` of `np.allclose` alone covers `|d - mean|`). -/
theorem evenB_of_small (v : List Rat) (h : ∀ j, j + 1 < v.length → |v.getD (j + 1) 0 - v.getD j 0| ≤ 5/1000000000) :
    evenB v = true := by
  unfold evenB
  by_cases hn : v.length ≤ 1
  · simp [hn]
  · rw [Bool.or_eq_true]; right
    rw [allLt_iff]
    intro j hj
    have hd : ∀ x ∈ diffs v, |x| ≤ 5/1000000000 := by
      intro x hx
      obtain ⟨a, ha, rfl⟩ := mem_tab _ _ _ hx
      exact h a (by omega)
    have hs := abs_sumR_le (diffs v) _ hd
    have hlen : (diffs v).length = v.length - 1 := by simp [diffs]
    have hpos : (0 : Rat) < ((v.length - 1 : Nat) : Rat) := by
      have : 0 < v.length - 1 := by omega
      exact_mod_cast this
    have hmean : |meanDiff v| ≤ 5/1000000000 := by
      unfold meanDiff
      rw [abs_div, abs_of_pos hpos, div_le_iff₀ hpos]
      rw [hlen] at hs
      linarith
    have hdj : |(diffs v).getD j 0| ≤ 5/1000000000 := by
      unfold diffs
      rw [getD_tab _ _ _ _ hj]
      exact h j (by omega)
    unfold Region.isclose
    apply decide_eq_true
    rw [absR_eq_abs, absR_eq_abs]
    have := abs_sub (diffs v |>.getD j 0) (meanDiff v)
    have := abs_nonneg (meanDiff v)
    linarith

/-! ## exported coordinates -/

theorem ap_eq_centres (m : Mesh) (a : Nat) :
    ap (m.region.lo a + m.cellAt a / 2) (m.cellAt a) (m.nAt a) = tab (m.nAt a) fun j => m.centreAx a (j : Int) := by
  unfold ap
  apply tab_congr
  intro j _
  unfold Mesh.centreAx
  push_cast; ring

theorem exported_axis {α} (f : XFld α) (hf : f.WF) (nm : String) (u : PyArg) (a : Nat) (ha : a < f.mesh.ndim) :
    (exported f nm u).axes.getD a default =
      { name := f.mesh.region.dims.getD a "", size := f.mesh.nAt a,
        coord := some { vals := tab (f.mesh.nAt a) fun j => f.mesh.centreAx a (j : Int),
                        units := some (f.mesh.region.units.getD a "") } } := by
  have hd := dims_len hf
  unfold exported exportAxes
  simp only []
  rw [List.getD_eq_getElem?_getD, List.getElem?_append_left (by simp [hd, ha])]
  rw [← List.getD_eq_getElem?_getD, getD_tab _ _ _ _ (by rw [hd]; exact ha)]
  unfold exportAxis
  rw [cells_getD _ hf.mesh a ha, ap_eq_centres]

end DFV.C17
