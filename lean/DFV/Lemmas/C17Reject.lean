import DFV.Lemmas.C17Like
/-! What the importer refuses (for EVERY DataArray, not only exported ones), what the
spacing test cannot see, and the exported coordinates as cell centres. -/
namespace DFV.C17
open DFV

section
variable [FieldAttrs] {α : Type}

theorem fromXA_no_nvdim (xa : XA α) (h : xa.attrs.nvdim = none) : fromXA xa = .error .key := by
  unfold fromXA checkNvdim
  rw [h]; rfl

theorem fromXA_nvdim_lt_one (xa : XA α) (k : Int) (h : xa.attrs.nvdim = some (.int k)) (hk : k < 1) :
    fromXA xa = .error .value := by
  unfold fromXA checkNvdim
  rw [h]; simp only [hk, if_true]; rfl

theorem fromXA_nvdim_not_int (xa : XA α) (q : Rat) (h : xa.attrs.nvdim = some (.other q)) :
    ∃ e, fromXA xa = .error e := by
  unfold fromXA checkNvdim
  rw [h]; simp only []
  split
  · exact ⟨_, rfl⟩
  · exact ⟨_, rfl⟩

theorem fromXA_vector_no_vdims (xa : XA α) (k : Int) (h : xa.attrs.nvdim = some (.int k)) (hk : 1 < k)
    (hd : ¬ "vdims" ∈ xa.dims) : fromXA xa = .error .value := by
  unfold fromXA checkNvdim
  rw [h]
  have h1 : ¬ (k < 1) := by omega
  have h2 : 1 < k ∧ ¬ xa.dims.contains "vdims" = true := ⟨hk, by rwa [List.contains_iff_mem]⟩
  simp only [h1, if_false, h2]; rfl

/-- anything that fails the spacing test on one geometric axis is rejected -/
theorem fromXA_uneven (xa : XA α) (ax : Axis) (hax : ax ∈ geo xa) (hev : evenB ax.values = false) :
    ∃ e, fromXA xa = .error e := by
  unfold fromXA
  cases checkNvdim xa.attrs.nvdim xa.dims with
  | error e => exact ⟨e, rfl⟩
  | ok k =>
    have : checkSpacing xa = .error .value := by
      unfold checkSpacing
      have : (geo xa).all (fun a => evenB a.values) = false := by
        rw [List.all_eq_false]
        exact ⟨ax, hax, by simp [hev]⟩
      rw [this]; rfl
    simp only [Except.bind, this]
    exact ⟨_, rfl⟩

omit [FieldAttrs] in
/-- the spacing test fails as soon as one spacing deviates from the mean spacing by more than
`1e-5·|mean|` -/
theorem evenB_false_of_dev (v : List Rat) (j : Nat) (hj : j + 1 < v.length)
    (hdev : 1/100000 * absR (meanDiff v) < absR ((v.getD (j + 1) 0 - v.getD j 0) - meanDiff v)) :
    evenB v = false := by
  unfold evenB
  have h1 : decide (v.length ≤ 1) = false := by apply decide_eq_false; omega
  rw [h1, Bool.false_or]
  apply allLt_false_of _ _ j (by omega)
  unfold Region.isclose diffs
  rw [getD_tab _ _ _ _ (by omega)]
  apply decide_eq_false
  linarith

/-- a single-cell axis without the `cell` attribute is rejected (by the explicit test, or
because the mean of no spacings is not a positive number) -/
theorem fromXA_single_no_cell (xa : XA α) (hc : xa.attrs.cell = none) (ax : Axis) (hax : ax ∈ geo xa)
    (hl : ax.values.length ≤ 1) : ∃ e, fromXA xa = .error e := by
  unfold fromXA
  cases checkNvdim xa.attrs.nvdim xa.dims with
  | error e => exact ⟨e, rfl⟩
  | ok k =>
    cases checkSpacing xa with
    | error e => exact ⟨e, rfl⟩
    | ok _ =>
      have : ∃ e, cellOf xa = .error e := by
        unfold cellOf
        rw [hc]
        simp only []
        split
        · exact ⟨_, rfl⟩
        · have : (geo xa).any (fun a => decide (a.values.length ≤ 1)) = true := by
            rw [List.any_eq_true]
            exact ⟨ax, hax, by simp [hl]⟩
          rw [this]
          exact ⟨_, rfl⟩
      obtain ⟨e, he⟩ := this
      simp only [Except.bind, he]
      exact ⟨_, rfl⟩

end

/-! ## the spacing test does not depend on the length scale or the origin -/

theorem getD_map_lt (v : List Rat) (f : Rat → Rat) (j : Nat) (hj : j < v.length) :
    (v.map f).getD j 0 = f (v.getD j 0) := by
  simp [List.getD_eq_getElem?_getD, hj]

theorem getD_map_mul (s : Rat) (l : List Rat) (j : Nat) : (l.map (s * ·)).getD j 0 = s * l.getD j 0 := by
  by_cases hj : j < l.length
  · exact getD_map_lt _ _ _ hj
  · simp [List.getD_eq_getElem?_getD, not_lt.mp hj]

theorem sumR_map_mul (s : Rat) (l : List Rat) : sumR (l.map (s * ·)) = s * sumR l := by
  induction l with
  | nil => simp [sumR]
  | cons x xs ih => simp only [List.map_cons, sumR, ih]; ring

theorem diffs_map_mul (s : Rat) (v : List Rat) : diffs (v.map (s * ·)) = (diffs v).map (s * ·) := by
  unfold diffs
  rw [List.length_map, map_tab]
  apply tab_congr
  intro j hj
  rw [getD_map_lt _ _ _ (by omega), getD_map_lt _ _ _ (by omega)]
  ring

theorem diffs_map_add (t : Rat) (v : List Rat) : diffs (v.map (· + t)) = diffs v := by
  unfold diffs
  rw [List.length_map]
  apply tab_congr
  intro j hj
  rw [getD_map_lt _ _ _ (by omega), getD_map_lt _ _ _ (by omega)]
  ring

theorem meanDiff_map_mul (s : Rat) (v : List Rat) : meanDiff (v.map (s * ·)) = s * meanDiff v := by
  unfold meanDiff
  rw [diffs_map_mul, sumR_map_mul, List.length_map, mul_div_assoc]

theorem absR_mul_pos (s x : Rat) (hs : 0 < s) : absR (s * x) = s * absR x := by
  rw [absR_eq_abs, absR_eq_abs, abs_mul, abs_of_pos hs]

theorem isclose_scale (s d m r : Rat) (hs : 0 < s) :
    Region.isclose (s * d) (s * m) r 0 = Region.isclose d m r 0 := by
  unfold Region.isclose
  have e : s * d - s * m = s * (d - m) := by ring
  rw [e, absR_mul_pos _ _ hs, absR_mul_pos _ _ hs]
  apply decide_eq_decide.mpr
  constructor
  · intro h
    have h' : s * absR (d - m) ≤ s * (0 + r * absR m) := by linarith
    exact le_of_mul_le_mul_left h' hs
  · intro h
    have := mul_le_mul_of_nonneg_left h hs.le
    linarith

/-- **Scale invariance of the spacing test**: multiplying all coordinates by a positive factor
(nanometres instead of metres) does not change whether they count as evenly spaced. -/
theorem evenB_scale (s : Rat) (hs : 0 < s) (v : List Rat) : evenB (v.map (s * ·)) = evenB v := by
  unfold evenB
  rw [List.length_map, meanDiff_map_mul, diffs_map_mul]
  have : (fun j => Region.isclose (((diffs v).map (s * ·)).getD j 0) (s * meanDiff v) (1/100000) 0)
      = fun j => Region.isclose ((diffs v).getD j 0) (meanDiff v) (1/100000) 0 := by
    funext j
    rw [getD_map_mul, isclose_scale _ _ _ _ hs]
  rw [this]

/-- … and so does moving the origin -/
theorem evenB_shift (t : Rat) (v : List Rat) : evenB (v.map (· + t)) = evenB v := by
  unfold evenB meanDiff
  rw [List.length_map, diffs_map_add]

/-- the axis transformation `scaleCoords` applies -/
def scaleAxis (s : Rat) (ax : Axis) : Axis :=
  { ax with coord := ax.coord.map fun c => { c with vals := c.vals.map (s * ·) } }

theorem geo_scaleCoords {α} (s : Rat) (xa : XA α) : geo (scaleCoords s xa) = (geo xa).map (scaleAxis s) := by
  show ((xa.axes.map (scaleAxis s)).filter fun a => decide (a.name ≠ "vdims")) = _
  rw [List.filter_map]
  rfl

/-- the spacing test of the importer gives the same verdict after a change of length unit
(axes without an assigned coordinate keep xarray's index `0 … n-1`, which is evenly spaced) -/
theorem checkSpacing_scale {α} (s : Rat) (hs : 0 < s) (xa : XA α) :
    checkSpacing (scaleCoords s xa) = checkSpacing xa := by
  unfold checkSpacing
  rw [geo_scaleCoords, List.all_map]
  have : ((fun a : Axis => evenB a.values) ∘ scaleAxis s) = fun a => evenB a.values := by
    funext ax
    cases hc : ax.coord with
    | none => simp [Function.comp, scaleAxis, Axis.values, hc]
    | some c =>
      simp only [Function.comp, scaleAxis, Axis.values, hc, Option.map_some]
      exact evenB_scale s hs c.vals
  rw [this]

/-! ## exported coordinates -/

theorem ap_eq_centres (m : Mesh) (a : Nat) :
    ap (m.region.lo a + m.cellAt a / 2) (m.cellAt a) (m.nAt a) = tab (m.nAt a) fun j => m.centreAx a (j : Int) := by
  unfold ap
  apply tab_congr
  intro j _
  unfold Mesh.centreAx
  push_cast; ring

theorem exported_axis [FieldAttrs] {α} (f : XFld α) (hf : f.WF) (nm : String) (u : PyArg) (a : Nat) (ha : a < f.mesh.ndim) :
    (exported f nm u).axes.getD a default =
      { name := f.mesh.region.dims.getD a "", size := f.mesh.nAt a,
        coord := some { vals := tab (f.mesh.nAt a) fun j => f.mesh.centreAx a (j : Int),
                        units := some (f.mesh.region.units.getD a "") } } := by
  have hd := dims_len hf
  unfold exported exportAxes
  simp only []
  rw [List.getD_eq_getElem?_getD, List.getElem?_append_left (by simp [hd, ha])]
  rw [← List.getD_eq_getElem?_getD, getD_tab _ _ _ _ (by rw [hd]; exact ha)]
  unfold exportAxis
  rw [cells_getD _ hf.mesh a ha, ap_eq_centres]

end DFV.C17
