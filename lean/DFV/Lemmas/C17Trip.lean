import DFV.Lemmas.C17Axis
import DFV.Lemmas.C17Data
/-! The importer on DataArrays that look like an exported field (`LikeExport`): geometric
axes carrying the cell centres, data = the exported data, each of `cell`/`pmin`/`pmax`/
`tolerance_factor` present (with the field's value) or absent, coordinate units present or
absent per axis.  `fromXA_likeExport` is the one computation all round-trip / rebuild
theorems of `Props/C17.lean` are corollaries of. -/
namespace DFV.C17
open DFV

/-! ## list plumbing -/

theorem map_tab {α β} (n : Nat) (f : Nat → α) (g : α → β) : (tab n f).map g = tab n fun a => g (f a) := by
  simp [tab, List.map_map, Function.comp_def]

theorem zipWith_tab {α β γ} (n : Nat) (f : Nat → α) (g : Nat → β) (h : α → β → γ) :
    List.zipWith h (tab n f) (tab n g) = tab n fun a => h (f a) (g a) := by
  apply List.ext_getElem
  · simp
  · intro i h1 h2
    simp [tab]

theorem zip_tab {α β} (n : Nat) (f : Nat → α) (g : Nat → β) :
    List.zip (tab n f) (tab n g) = tab n fun a => (f a, g a) := by
  apply List.ext_getElem
  · simp
  · intro i h1 h2
    simp [tab]

theorem any_tab_false {α} (n : Nat) (f : Nat → α) (p : α → Bool) (h : ∀ a, a < n → p (f a) = false) :
    (tab n f).any p = false := by
  rw [List.any_eq_false]
  intro x hx
  obtain ⟨a, ha, rfl⟩ := mem_tab _ _ _ hx
  simp [h a ha]

theorem all_tab_true {α} (n : Nat) (f : Nat → α) (p : α → Bool) (h : ∀ a, a < n → p (f a) = true) :
    (tab n f).all p = true := by
  rw [List.all_eq_true]
  intro x hx
  obtain ⟨a, ha, rfl⟩ := mem_tab _ _ _ hx
  exact h a ha

theorem tab_getD_self {α} (l : List α) (d : α) : tab l.length (fun a => l.getD a d) = l :=
  (eq_tab_of_getD l l.length _ d rfl fun _ _ => rfl).symm

theorem getD_mem {α} (l : List α) (a : Nat) (d : α) (ha : a < l.length) : l.getD a d ∈ l := by
  rw [List.getD_eq_getElem?_getD, List.getElem?_eq_getElem ha]
  exact List.getElem_mem ha

theorem filter_append_singleton {α} (l : List α) (x : α) (p : α → Bool) (hl : ∀ y ∈ l, p y = true)
    (hx : p x = false) : (l ++ [x]).filter p = l := by
  rw [List.filter_append, List.filter_eq_self.mpr hl]
  simp [hx]

/-! ## DataArrays that look like an export -/

/-- geometric axis `a` of an export, with the coordinate's `units` attribute `uo a` -/
def gAxis (m : Mesh) (uo : Nat → Option String) (a : Nat) : Axis :=
  { name := m.region.dims.getD a "", size := m.nAt a, coord := some { vals := m.cells.getD a [], units := uo a } }

/-- `xe` carries field `f` the way `to_xarray` lays it out; `c p q t` say which of `cell`,
`pmin`, `pmax`, `tolerance_factor` are missing, `uo` which coordinates have units -/
structure LikeExport {α} (xe : XA α) (f : XFld α) (c p q t : Bool) (uo : Nat → Option String) : Prop where
  geo : geo xe = tab f.mesh.ndim (gAxis f.mesh uo)
  dims : xe.dims.contains "vdims" = decide (1 < f.nvdim)
  data : xe.data = exportData f
  vd : xe.vdimsCoord = if 1 < f.nvdim then f.vdims else none
  cell : xe.attrs.cell = if c then none else some f.mesh.cell
  pmin : xe.attrs.pmin = if p then none else some f.mesh.region.pmin
  pmax : xe.attrs.pmax = if q then none else some f.mesh.region.pmax
  nvdim : xe.attrs.nvdim = some (.int f.nvdim)
  tol : xe.attrs.tol = if t then none else some f.mesh.region.tol
  dtype : xe.dtype = f.dtype

/-- units the importer gives the region -/
def unitsAfter (d : Nat) (uo : Nat → Option String) : List String :=
  if (tab d uo).any Option.isNone then List.replicate d "m" else tab d fun a => (uo a).getD ""

/-- labels the importer gives the field -/
def vdimsAfter {α} (f : XFld α) : Option (List String) :=
  if 1 < f.nvdim then (match f.vdims with | some l => some l | none => Fld.defaultVdims f.nvdim) else none

/-- the region the importer builds: the field's corners and names -/
def regAfter {α} (f : XFld α) (uo : Nat → Option String) (tol : Rat) : Region :=
  { pmin := f.mesh.region.pmin, pmax := f.mesh.region.pmax, dims := f.mesh.region.dims,
    units := unitsAfter f.mesh.ndim uo, tol := tol }

/-- the mesh the importer builds -/
def meshAfter {α} (f : XFld α) (t : Bool) (uo : Nat → Option String) : Mesh :=
  { region := regAfter f uo (if t then defaultTol else f.mesh.region.tol), n := f.mesh.n, bc := "", subs := [] }

section
variable [FieldAttrs] {α : Type} {xe : XA α} {f : XFld α} {c p q t : Bool} {uo : Nat → Option String}

theorem gAxis_values (hf : f.WF) (a : Nat) (ha : a < f.mesh.ndim) :
    (gAxis f.mesh uo a).values = ap (f.mesh.region.lo a + f.mesh.cellAt a / 2) (f.mesh.cellAt a) (f.mesh.nAt a) := by
  show f.mesh.cells.getD a [] = _
  exact cells_getD _ hf.mesh a ha

theorem checkNvdim_like (hf : f.WF) (h : LikeExport xe f c p q t uo) :
    checkNvdim xe.attrs.nvdim xe.dims = .ok f.nvdim := by
  rw [h.nvdim]
  unfold checkNvdim
  have h1 : ¬ ((f.nvdim : Int) < 1) := by have := hf.nvdim; omega
  have h2 : ¬ (1 < (f.nvdim : Int) ∧ ¬ xe.dims.contains "vdims" = true) := by
    rintro ⟨h3, h4⟩
    rw [h.dims] at h4
    have : 1 < f.nvdim := by omega
    simp [this] at h4
  simp only [h1, h2, if_false, Int.toNat_natCast]

theorem checkSpacing_like (hf : f.WF) (h : LikeExport xe f c p q t uo) : checkSpacing xe = .ok () := by
  unfold checkSpacing
  rw [h.geo, all_tab_true]
  · rfl
  · intro a ha
    rw [gAxis_values hf a ha]
    exact evenB_ap _ _ _

theorem n_mem (hf : f.WF) (x : Nat) (hx : x ∈ f.mesh.n) : ∃ a, a < f.mesh.ndim ∧ x = f.mesh.nAt a := by
  obtain ⟨a, ha, rfl⟩ := List.getElem_of_mem hx
  refine ⟨a, by show a < f.mesh.region.ndim; rw [← hf.mesh.2.1]; exact ha, ?_⟩
  simp [Mesh.nAt, List.getD_eq_getElem?_getD, ha]

theorem cellOf_like (hf : f.WF) (h : LikeExport xe f c p q t uo)
    (hc : c = true → ∀ a, a < f.mesh.ndim → 2 ≤ f.mesh.nAt a) : cellOf xe = .ok f.mesh.cell := by
  unfold cellOf
  rw [h.cell]
  cases c with
  | false => rfl
  | true =>
    have hc := hc rfl
    simp only [if_true]
    have hshape : ∀ x ∈ xe.data.shape.dropLast, x ∈ f.mesh.n := by
      intro x hx
      rw [h.data] at hx
      unfold exportData at hx
      split at hx
      · rw [hf.shape, List.dropLast_concat] at hx; exact hx
      · simp only [hf.shape, List.dropLast_concat] at hx
        exact (List.dropLast_sublist _).subset hx
    have h1 : xe.data.shape.dropLast.any (· == 1) = false := by
      rw [List.any_eq_false]
      intro x hx
      obtain ⟨a, ha, rfl⟩ := n_mem hf x (hshape x hx)
      have := hc a ha
      simp; omega
    have h2 : (geo xe).any (fun a => decide (a.values.length ≤ 1)) = false := by
      rw [h.geo]
      apply any_tab_false
      intro a ha
      rw [gAxis_values hf a ha, ap_length]
      have := hc a ha
      simp; omega
    rw [h1, h2]
    simp only [Bool.false_eq_true, if_false]
    rw [h.geo, map_tab]
    unfold Mesh.cell
    congr 1
    apply tab_congr
    intro a ha
    rw [gAxis_values hf a ha]
    exact meanDiff_ap _ _ _ (hc a ha)

theorem zip_nonempty_like (hf : f.WF) (h : LikeExport xe f c p q t uo) :
    (List.zip (geo xe) f.mesh.cell).any (fun p => p.1.values.isEmpty) = false := by
  rw [h.geo]
  unfold Mesh.cell
  rw [zip_tab]
  apply any_tab_false
  intro a ha
  show (gAxis f.mesh uo a).values.isEmpty = false
  rw [gAxis_values hf a ha]
  have := hf.mesh.2.2 a ha
  rw [List.isEmpty_eq_false_iff_exists_mem]
  exact ⟨_, getD_mem _ 0 0 (by rw [ap_length]; exact this)⟩

theorem p1Of_like (hf : f.WF) (h : LikeExport xe f c p q t uo) : p1Of xe f.mesh.cell = .ok f.mesh.region.pmin := by
  unfold p1Of
  rw [h.pmin]
  cases p with
  | false => rfl
  | true =>
    simp only [if_true]
    rw [zip_nonempty_like hf h]
    simp only [Bool.false_eq_true, if_false]
    rw [h.geo]
    unfold Mesh.cell
    rw [zipWith_tab]
    congr 1
    symm
    apply eq_tab_of_getD _ _ _ 0 rfl
    intro a ha
    rw [gAxis_values hf a ha, ap_first _ _ _ (hf.mesh.2.2 a ha)]
    show f.mesh.region.lo a = _
    ring

theorem p2Of_like (hf : f.WF) (h : LikeExport xe f c p q t uo) : p2Of xe f.mesh.cell = .ok f.mesh.region.pmax := by
  unfold p2Of
  rw [h.pmax]
  cases q with
  | false => rfl
  | true =>
    simp only [if_true]
    rw [zip_nonempty_like hf h]
    simp only [Bool.false_eq_true, if_false]
    rw [h.geo]
    unfold Mesh.cell
    rw [zipWith_tab]
    congr 1
    symm
    apply eq_tab_of_getD _ _ _ 0 hf.mesh.1.2.1
    intro a ha
    have hn := hf.mesh.2.2 a ha
    rw [gAxis_values hf a ha, ap_last _ _ _ hn]
    show f.mesh.region.hi a = _
    have hcov : (f.mesh.nAt a : Rat) * f.mesh.cellAt a = f.mesh.region.hi a - f.mesh.region.lo a := by
      unfold Mesh.cellAt Region.edge
      have : (f.mesh.nAt a : Rat) ≠ 0 := by exact_mod_cast (Nat.pos_iff_ne_zero.mp hn)
      field_simp
    linarith

omit [FieldAttrs] in
theorem unitsOf_like (h : LikeExport xe f c p q t uo) :
    Region.unitsOk f.mesh.ndim (unitsOf xe) = .ok (unitsAfter f.mesh.ndim uo) := by
  unfold unitsOf unitsAfter
  rw [h.geo, map_tab]
  have e : (tab f.mesh.ndim (gAxis f.mesh uo)).any (fun a => a.units.isNone) = (tab f.mesh.ndim uo).any Option.isNone := by
    simp [tab, List.any_map, Function.comp_def, gAxis, Axis.units]
  rw [e]
  split
  · rfl
  · apply unitsOk_some
    simp

theorem names_like (hf : f.WF) (h : LikeExport xe f c p q t uo) : (geo xe).map Axis.name = f.mesh.region.dims := by
  rw [h.geo, map_tab]
  show tab f.mesh.region.pmin.length (fun a => f.mesh.region.dims.getD a "") = _
  rw [← hf.mesh.1.2.2.1]
  exact tab_getD_self _ _

theorem meshOf_like (hf : f.WF) (h : LikeExport xe f c p q t uo) :
    meshOf xe f.mesh.cell = .ok (meshAfter f t uo) := by
  unfold meshOf
  rw [p1Of_like hf h, p2Of_like hf h]
  simp only [Except.bind]
  rw [names_like hf h]
  have hinv := hf.mesh.1
  rw [regionMk_ok f.mesh.region.pmin f.mesh.region.pmax f.mesh.region.dims (unitsOf xe)
    (unitsAfter f.mesh.ndim uo) defaultTol hinv.2.1 hinv.1 hinv.2.2.1 hinv.2.2.2.2.1 (unitsOf_like h) hinv.2.2.2.2.2]
  simp only []
  have hk := mkCellNow_ok (regAfter f uo defaultTol) f.mesh.n hf.mesh.2.1 hinv.2.2.2.2.2 hf.mesh.2.2
  have hcell : f.mesh.cell = tab (regAfter f uo defaultTol).ndim
      fun a => (regAfter f uo defaultTol).edge a / (f.mesh.n.getD a 0 : Rat) := rfl
  show (mkCellNow? (regAfter f uo defaultTol) f.mesh.cell).bind _ = _
  rw [hcell, hk]
  simp only [Except.bind]
  rw [h.tol]
  cases t <;> rfl

theorem valOf_like (hf : f.WF) (h : LikeExport xe f c p q t uo) : Agree (valOf xe f.nvdim) f.data := by
  unfold valOf
  rw [h.data]
  unfold exportData
  by_cases h1 : f.nvdim = 1
  · have h2 : ¬ (1 < f.nvdim) := by omega
    simp only [h1, if_true]
    have hs : f.data.shape = f.mesh.n ++ [1] := by rw [hf.shape, h1]
    refine ⟨?_, ?_⟩
    · show f.data.shape.dropLast ++ [1] = f.data.shape
      rw [hs, List.dropLast_concat]
    · intro i hi
      show f.data.get (i.dropLast ++ [0]) = f.data.get i
      have hi' : inRange (f.mesh.n ++ [1]) i = true := by
        have : f.data.shape.dropLast ++ [1] = f.mesh.n ++ [1] := by rw [hs, List.dropLast_concat]
        rw [← this]; exact hi
      rw [dropLast_append_zero _ _ hi']
  · have h2 : 1 < f.nvdim := by have := hf.nvdim; omega
    simp only [h1, if_false, h2, if_true]
    exact Agree.refl _

theorem vdimsSet_like (hf : f.WF) (h : LikeExport xe f c p q t uo) :
    vdimsSet f.nvdim xe.vdimsCoord = .ok (vdimsAfter f) := by
  rw [h.vd]
  unfold vdimsAfter
  by_cases h1 : 1 < f.nvdim
  · simp only [h1, if_true]
    cases hv : f.vdims with
    | none => rfl
    | some l =>
      obtain ⟨hl, hd, hr⟩ := hf.labels l hv
      cases l with
      | nil => simp at hl; omega
      | cons x l' =>
        unfold vdimsSet
        simp only [hl, ne_eq, not_true_eq_false, if_false, hd, hr, Bool.false_eq_true]
  · simp only [h1, if_false]
    have : f.nvdim = 1 := by have := hf.nvdim; omega
    rw [this]
    rfl

omit [FieldAttrs] in
theorem vdimsAfter_ne_none (h1 : 1 < f.nvdim) : vdimsAfter f ≠ none := by
  unfold vdimsAfter
  simp only [h1, if_true]
  cases f.vdims with
  | some l => simp
  | none =>
    unfold Fld.defaultVdims
    have : f.nvdim ≠ 1 := by omega
    simp only [this, if_false]
    split <;> simp

/-- **The importer on an export-like DataArray**: it succeeds, the mesh is `meshAfter`, the
data agree entry by entry, the labels are `vdimsAfter`, the dtype tag is the field's; all
cells valid, no unit, default component mapping. -/
theorem fromXA_likeExport (hf : f.WF) (h : LikeExport xe f c p q t uo)
    (hc : c = true → ∀ a, a < f.mesh.ndim → 2 ≤ f.mesh.nAt a) :
    ∃ g, fromXA xe = .ok g ∧ g.mesh = meshAfter f t uo ∧ g.nvdim = f.nvdim ∧ Agree g.data f.data ∧
      g.vdims = vdimsAfter f ∧ g.dtype = f.dtype ∧ g.unit = none ∧ g.valid = NDA.const f.mesh.n true ∧
      g.vmap = defaultVmap f.nvdim f.mesh.region.dims (vdimsAfter f) := by
  obtain ⟨d1, hd1, ha1⟩ := asArray_same (valOf xe f.nvdim) f.mesh.n f.nvdim ((valOf_like hf h).1.trans hf.shape)
  obtain ⟨d2, hd2, ha2⟩ := asArray_same d1 f.mesh.n f.nvdim (ha1.1.trans ((valOf_like hf h).1.trans hf.shape))
  refine ⟨{ mesh := meshAfter f t uo, nvdim := f.nvdim, data := d2, valid := NDA.const f.mesh.n true,
            vdims := vdimsAfter f, vmap := defaultVmap f.nvdim f.mesh.region.dims (vdimsAfter f),
            unit := none, dtype := f.dtype }, ?_, rfl, rfl, ha2.trans (ha1.trans (valOf_like hf h)), rfl, rfl, rfl, rfl, rfl⟩
  unfold fromXA
  rw [checkNvdim_like hf h, checkSpacing_like hf h, cellOf_like hf h hc]
  simp only [Except.bind]
  rw [meshOf_like hf h]
  simp only []
  unfold fieldOf
  have e1 : (meshAfter f t uo).n = f.mesh.n := rfl
  rw [e1, hd1]
  simp only [Except.bind]
  rw [hd2]
  simp only []
  rw [vdimsSet_like hf h]
  simp only []
  rw [h.dtype]
  rfl

end
end DFV.C17
