import DFV.Lemmas.Index
import DFV.Lemmas.RatFloor
import DFV.Model.C09
/-! Helper lemmas for C09: arrays and payload order, byte blocks and chunks, the text helpers
(`split`, the label regex, `convert`), `Region.mk?` / `Mesh.mkCell?` on exact cell sizes. -/
namespace DFV.C09
open DFV

/-! ## arrays and payload order -/

theorem toList_length {α} (a : NDA α) : a.toList.length = natProd a.shape := by
  simp [NDA.toList, indicesC]
theorem toList_getD {α} (a : NDA α) (p : Nat) (d : α) (h : p < natProd a.shape) :
    a.toList.getD p d = a.get (unflatC a.shape p) := by
  simp [NDA.toList, indicesC, List.getD_eq_getElem?_getD, h]
theorem ofList_get {α} (sh : List Nat) (xs : List α) (d : α) (i : List Nat) :
    (NDA.ofList sh xs d).get i = xs.getD (flatC sh i) d := by
  simp [NDA.ofList, NDA.ofArray, List.getD_eq_getElem?_getD]
theorem transpose_get4 {α} (a : NDA α) (h : a.shape.length = 4) (p q r s : Nat) :
    (a.transpose [2, 1, 0, 3]).get [p, q, r, s] = a.get [r, q, p, s] := by
  simp [NDA.transpose, NDA.transpose.indexOfNat, h, tab, List.range, List.range.loop]
theorem transpose_shape4 {α} (a : NDA α) (n0 n1 n2 n3 : Nat) (h : a.shape = [n0, n1, n2, n3]) :
    (a.transpose [2, 1, 0, 3]).shape = [n2, n1, n0, n3] := by
  simp [NDA.transpose, h]

/-- file position of cell (i,j,k), component c -/
def pos (nx ny nv i j k c : Nat) : Nat := ((k * ny + j) * nx + i) * nv + c

theorem pos_eq_flatC (nx ny nz nv i j k c : Nat) :
    pos nx ny nv i j k c = flatC [nz, ny, nx, nv] [k, j, i, c] := by
  simp [pos, flatC, natProd]; ring

theorem inRange4 (nx ny nz nv i j k c : Nat) (hi : i < nx) (hj : j < ny) (hk : k < nz) (hc : c < nv) :
    inRange [nz, ny, nx, nv] [k, j, i, c] = true := by
  simp [inRange, hi, hj, hk, hc]

theorem pos_lt (nx ny nz nv i j k c : Nat) (hi : i < nx) (hj : j < ny) (hk : k < nz) (hc : c < nv) :
    pos nx ny nv i j k c < natProd [nz, ny, nx, nv] := by
  rw [pos_eq_flatC nx ny nz]
  exact flatC_lt _ _ (inRange4 nx ny nz nv i j k c hi hj hk hc)

theorem flatPayload_getD {α} (f : OField α) (nx ny nz nv : Nat) (hs : f.arr.shape = [nx, ny, nz, nv])
    (i j k c : Nat) (hi : i < nx) (hj : j < ny) (hk : k < nz) (hc : c < nv) (d : α) :
    (flatPayload f).getD (pos nx ny nv i j k c) d = f.arr.get [i, j, k, c] := by
  unfold flatPayload
  have hsh := transpose_shape4 f.arr nx ny nz nv hs
  rw [toList_getD _ _ _ (by rw [hsh]; exact pos_lt nx ny nz nv i j k c hi hj hk hc)]
  rw [hsh, pos_eq_flatC nx ny nz, unflatC_flatC _ _ (inRange4 nx ny nz nv i j k c hi hj hk hc)]
  rw [transpose_get4 _ (by simp [hs])]

theorem flatPayload_length {α} (f : OField α) (nx ny nz nv : Nat) (hs : f.arr.shape = [nx, ny, nz, nv]) :
    (flatPayload f).length = natProd [nz, ny, nx, nv] := by
  unfold flatPayload
  rw [toList_length, transpose_shape4 f.arr nx ny nz nv hs]

theorem unflatten_get {α} (nx ny nz vd : Nat) (flat : List α) (d : α) (arr : NDA α)
    (h : unflatten [nx, ny, nz] vd flat d = .ok arr) (i j k c : Nat) :
    arr.get [i, j, k, c] = flat.getD (pos nx ny vd i j k c) d ∧ arr.shape = [nx, ny, nz, vd] := by
  unfold unflatten at h
  split at h
  · cases h
  · injection h with h
    subst h
    constructor
    · rw [transpose_get4 _ (by simp [NDA.ofList, NDA.ofArray]), ofList_get, pos_eq_flatC nx ny nz]
      simp
    · simp [NDA.transpose, NDA.ofList, NDA.ofArray]


/-! ## bytes and chunks -/

/-! chunks -/
theorem tab_succ {α} (n : Nat) (f : Nat → α) : tab (n + 1) f = f 0 :: tab n (fun i => f (i + 1)) := by
  simp [tab, List.range_succ_eq_map, List.map_map, Function.comp_def]

theorem ceil_step (len cs : Nat) (hcs : 0 < cs) (hl : 0 < len) :
    (len + cs - 1) / cs = (len - cs + cs - 1) / cs + 1 := by
  by_cases h : cs ≤ len
  · have : len + cs - 1 = (len - cs + cs - 1) + cs := by omega
    rw [this, Nat.add_div_right _ hcs]
  · have h1 : (len + cs - 1) / cs = 1 := by
      apply Nat.div_eq_of_lt_le <;> omega
    have h2 : (len - cs + cs - 1) / cs = 0 := by
      apply Nat.div_eq_of_lt; omega
    omega

theorem chunked_flatten {α} (cs : Nat) (hcs : 0 < cs) (l : List α) : (chunked cs l).flatten = l := by
  generalize hn : l.length = n
  induction n using Nat.strong_induction_on generalizing l with
  | _ n ih =>
    by_cases hl : l.length = 0
    · have : l = [] := List.length_eq_zero_iff.mp hl
      subst this
      have : (0 + cs - 1) / cs = 0 := Nat.div_eq_of_lt (by omega)
      simp [chunked, tab]
    · unfold chunked
      rw [ceil_step l.length cs hcs (by omega), tab_succ]
      simp only [List.flatten_cons, Nat.zero_mul, List.drop_zero]
      have hrec := ih (l.drop cs).length (by simp; omega) (l.drop cs) rfl
      unfold chunked at hrec
      have e : (fun i => List.take cs (List.drop ((i + 1) * cs) l))
          = (fun i => List.take cs (List.drop (i * cs) (List.drop cs l))) := by
        funext i
        rw [List.drop_drop]
        congr 2
        ring
      rw [e]
      simp only [List.length_drop] at hrec
      rw [hrec, List.take_append_drop]

theorem flatMap_flatten' {α β} (L : List (List α)) (g : α → List β) :
    L.flatMap (fun ch => ch.flatMap g) = L.flatten.flatMap g := by
  induction L with
  | nil => simp
  | cons x xs ih => simp [ih]

/-! fromfile over an encoded block -/
theorem flatMap_enc_length {α} (c : Codec α) (le : Bool) (w : Nat) (xs : List α)
    (hl : ∀ x, (c.enc le w x).length = w) : (xs.flatMap (c.enc le w)).length = xs.length * w := by
  induction xs with
  | nil => simp
  | cons x xs ih => simp [ih, hl]; ring

theorem block_item {α} (c : Codec α) (le : Bool) (w : Nat) (xs : List α) (tail : List Byte)
    (hl : ∀ x, (c.enc le w x).length = w) (i : Nat) (hi : i < xs.length) (d : α) :
    ((xs.flatMap (c.enc le w) ++ tail).drop (i * w)).take w = c.enc le w (xs.getD i d) := by
  induction xs generalizing i with
  | nil => simp at hi
  | cons x xs ih =>
    cases i with
    | zero =>
      simp only [List.flatMap_cons, Nat.zero_mul, List.drop_zero, List.append_assoc, List.getD_cons_zero]
      rw [List.take_append_of_le_length (by rw [hl]), List.take_of_length_le (by rw [hl])]
    | succ i =>
      simp only [List.flatMap_cons, List.append_assoc, List.getD_cons_succ]
      have : (i + 1) * w = (c.enc le w x).length + i * w := by rw [hl]; ring
      rw [this, ← List.drop_drop, List.drop_left]
      exact ih i (by simpa using hi)

theorem fromfile_block {α} (c : Codec α) (le : Bool) (w : Nat) (hw : 0 < w) (xs : List α) (tail : List Byte)
    (hl : ∀ x, (c.enc le w x).length = w) :
    fromfile c le w (xs.flatMap (c.enc le w) ++ tail) xs.length
      = xs.map fun x => c.dec le w (c.enc le w x) := by
  unfold fromfile
  have hlen : xs.length ≤ (xs.flatMap (c.enc le w) ++ tail).length / w := by
    rw [List.length_append, flatMap_enc_length c le w xs hl]
    rw [Nat.le_div_iff_mul_le hw]; omega
  rw [Nat.min_eq_left hlen]
  apply List.ext_getElem
  · simp
  · intro i h1 h2
    have hi : i < xs.length := by simpa using h1
    rw [getElem_tab, block_item c le w xs tail hl i hi (xs[i])]
    simp [List.getD_eq_getElem?_getD, hi]

theorem fromfile_length_le {α} (c : Codec α) (le : Bool) (w : Nat) (bytes : List Byte) (count : Nat) :
    (fromfile c le w bytes count).length ≤ bytes.length / w := by
  unfold fromfile
  simp


/-! ## text helpers -/

/-- a word in the sense of `str.split()`: non-empty, no white space -/
def NoWs (w : List Char) : Prop := w ≠ [] ∧ ∀ c ∈ w, c.isWhitespace = false

theorem splitWsGo_word (w : List Char) (hw : ∀ c ∈ w, c.isWhitespace = false) (rest acc : List Char) :
    splitWsGo (w ++ rest) acc = splitWsGo rest (w.reverse ++ acc) := by
  induction w generalizing acc with
  | nil => simp
  | cons c cs ih =>
    have hc : c.isWhitespace = false := hw c (by simp)
    simp only [List.cons_append, splitWsGo, hc, Bool.false_eq_true, if_false]
    rw [ih (fun d hd => hw d (by simp [hd]))]
    simp

theorem splitWs_single (w : List Char) (hw : NoWs w) : splitWs w = [w] := by
  unfold splitWs
  have := splitWsGo_word w hw.2 [] []
  simp only [List.append_nil] at this
  rw [this]
  simp [splitWsGo, hw.1]

theorem splitWs_cons (w : List Char) (hw : NoWs w) (rest : List Char) :
    splitWs (w ++ ' ' :: rest) = w :: splitWs rest := by
  unfold splitWs
  rw [splitWsGo_word w hw.2]
  have hs : ' '.isWhitespace = true := by decide
  simp [splitWsGo, hw.1, hs]

theorem splitWs_joinSp (ws : List (List Char)) (h : ∀ w ∈ ws, NoWs w) : splitWs (joinSp ws) = ws := by
  induction ws with
  | nil => simp [joinSp, splitWs, splitWsGo]
  | cons w ws ih =>
    cases ws with
    | nil => simpa [joinSp] using splitWs_single w (h w (by simp))
    | cons v vs =>
      simp only [joinSp]
      rw [splitWs_cons w (h w (by simp)), ih (fun x hx => h x (by simp [hx]))]

/-! tokens -/
theorem length_dropWhile_le' {α} (p : α → Bool) (l : List α) : (l.dropWhile p).length ≤ l.length := by
  induction l with
  | nil => simp
  | cons x xs ih =>
    simp only [List.dropWhile_cons]
    split
    · simp; omega
    · simp

theorem tokensF_mono (isWord : Char → Bool) (k : Nat) (l : List Char) (h : l.length ≤ k) :
    tokensF isWord k l = tokensF isWord l.length l := by
  induction k using Nat.strong_induction_on generalizing l with
  | _ k ih =>
    cases l with
    | nil => cases k <;> simp [tokensF]
    | cons c cs =>
      cases k with
      | zero => simp at h
      | succ k =>
        simp only [List.length_cons, tokensF]
        have hk : cs.length ≤ k := by simpa using h
        have hd1 : (cs.dropWhile isWord).length ≤ cs.length := length_dropWhile_le' _ _
        have hd2 : ∀ r, (cs.dropWhile fun d => isWord d || d == ' ') = '}' :: r → r.length ≤ cs.length := by
          intro r hr
          have := length_dropWhile_le' (fun d => isWord d || d == ' ') cs
          rw [hr] at this; simp at this; omega
        split
        · rw [ih k (by omega) _ (by omega), ih cs.length (by omega) _ hd1]
        · split
          · split
            · rename_i r hr
              have := hd2 r hr
              split
              · rw [ih k (by omega) _ hk]
              · rw [ih k (by omega) _ (by omega), ih cs.length (by omega) _ this]
            · rw [ih k (by omega) _ hk]
          · rw [ih k (by omega) _ hk]

/-- a label made of word characters only -/
def IsLabel (isWord : Char → Bool) (w : List Char) : Prop := w ≠ [] ∧ ∀ c ∈ w, isWord c = true

theorem takeWhile_word (isWord : Char → Bool) (w rest : List Char) (hw : ∀ c ∈ w, isWord c = true)
    (hr : ∀ c r, rest = c :: r → isWord c = false) :
    (w ++ rest).takeWhile isWord = w ∧ (w ++ rest).dropWhile isWord = rest := by
  induction w with
  | nil =>
    cases rest with
    | nil => simp
    | cons c r => simp [hr c r rfl]
  | cons c cs ih =>
    have := ih (fun d hd => hw d (by simp [hd]))
    simp [hw c (by simp), this]

theorem tokens_word_cons (isWord : Char → Bool) (hsp : isWord ' ' = false) (w : List Char)
    (hw : IsLabel isWord w) (rest : List Char) :
    tokens isWord (w ++ ' ' :: rest) = w :: tokens isWord rest := by
  obtain ⟨hne, hall⟩ := hw
  cases w with
  | nil => exact absurd rfl hne
  | cons c cs =>
    unfold tokens
    simp only [List.cons_append, List.length_cons, tokensF]
    have hc : isWord c = true := hall c (by simp)
    have := takeWhile_word isWord cs (' ' :: rest) (fun d hd => hall d (by simp [hd]))
      (fun d r h => by injection h with h1 _; subst h1; exact hsp)
    simp only [hc, if_true, this.1, this.2]
    congr 1
    -- fuel: one step on the blank, then monotonicity
    have hlen : (' ' :: rest).length ≤ (cs ++ ' ' :: rest).length := by simp
    rw [tokensF_mono isWord _ _ hlen]
    simp only [List.length_cons, tokensF, hsp, Bool.false_eq_true, if_false]
    have : ¬ (' ' = '{') := by decide
    simp only [this, if_false]

theorem tokens_word_single (isWord : Char → Bool) (w : List Char) (hw : IsLabel isWord w) :
    tokens isWord w = [w] := by
  obtain ⟨hne, hall⟩ := hw
  cases w with
  | nil => exact absurd rfl hne
  | cons c cs =>
    unfold tokens
    simp only [List.length_cons, tokensF]
    have hc : isWord c = true := hall c (by simp)
    have := takeWhile_word isWord cs [] (fun d hd => hall d (by simp [hd])) (fun d r h => by cases h)
    simp only [List.append_nil] at this
    simp only [hc, if_true, this.1, this.2]
    cases cs.length <;> simp [tokensF]

theorem tokens_joinSp (isWord : Char → Bool) (hsp : isWord ' ' = false) (ws : List (List Char))
    (h : ∀ w ∈ ws, IsLabel isWord w) : tokens isWord (joinSp ws) = ws := by
  induction ws with
  | nil => simp [joinSp, tokens, tokensF]
  | cons w ws ih =>
    cases ws with
    | nil => simpa [joinSp] using tokens_word_single isWord w (h w (by simp))
    | cons v vs =>
      simp only [joinSp]
      rw [tokens_word_cons isWord hsp w (h w (by simp)), ih (fun x hx => h x (by simp [hx]))]



/-- what the label theorems need to know about `\w` -/
structure WordClass (isWord : Char → Bool) : Prop where
  space : isWord ' ' = false
  lbrace : isWord '{' = false
  rbrace : isWord '}' = false
  field : ∀ c ∈ "field_".toList, isWord c = true
  xword : isWord 'x' = true
  nows : ∀ c, isWord c = true → c.isWhitespace = false

theorem field_toList : "field_".toList = ['f', 'i', 'e', 'l', 'd', '_'] := by decide

theorem convert_field (isWord : Char → Bool) (W : WordClass isWord) (l : List Char) (hl : IsLabel isWord l) :
    convert ("field_".toList ++ l) = l := by
  unfold convert
  rw [field_toList]
  have h1 : (['f', 'i', 'e', 'l', 'd', '_'] ++ l).contains '_' = true := by simp
  simp only [h1, if_true]
  have h2 : ((['f', 'i', 'e', 'l', 'd', '_'] ++ l).dropWhile (· != '_')).drop 1 = l := by
    simp [List.dropWhile]
  rw [h2]
  have h3 : l.filter (fun c => c != '{' && c != '}') = l := by
    apply List.filter_eq_self.mpr
    intro c hc
    have := hl.2 c hc
    have a : c ≠ '{' := by rintro rfl; rw [W.lbrace] at this; cases this
    have b : c ≠ '}' := by rintro rfl; rw [W.rbrace] at this; cases this
    simp [a, b]
  rw [h3, splitWs_single l ⟨hl.1, fun c hc => W.nows c (hl.2 c hc)⟩]
  simp [joinUs]

theorem field_label (isWord : Char → Bool) (W : WordClass isWord) (l : List Char) (hl : IsLabel isWord l) :
    IsLabel isWord ("field_".toList ++ l) := by
  refine ⟨by rw [field_toList]; simp, ?_⟩
  intro c hc
  rcases List.mem_append.mp hc with h | h
  · exact W.field c h
  · exact hl.2 c h

/-- Labels of a vector field survive `valuelabels: field_<c> …` → regex → `convert`,
underscores inside the labels included. -/
theorem recoverLabels_written (isWord : Char → Bool) (W : WordClass isWord) (vs : List String)
    (hl : ∀ v ∈ vs, IsLabel isWord v.toList) (hd : hasDup vs = false) :
    recoverLabels isWord (String.ofList (joinSp (vs.map fun c => "field_".toList ++ c.toList))) = some vs := by
  unfold recoverLabels
  rw [String.toList_ofList, tokens_joinSp isWord W.space]
  · have : ((vs.map fun c => "field_".toList ++ c.toList).map fun t => String.ofList (convert t)) = vs := by
      rw [List.map_map]
      conv => rhs; rw [← List.map_id vs]
      apply List.map_congr_left
      intro v hv
      simp only [Function.comp, id]
      rw [convert_field isWord W _ (hl v hv), String.ofList_toList]
    rw [this, hd]
    simp
  · intro w hw
    obtain ⟨v, hv, rfl⟩ := List.mem_map.mp hw
    exact field_label isWord W _ (hl v hv)

theorem splitWs_replicate (u : List Char) (hu : NoWs u) (d : Nat) :
    splitWs (joinSp (List.replicate d u)) = List.replicate d u :=
  splitWs_joinSp _ (fun w hw => by rw [(List.mem_replicate.mp hw).2]; exact hu)

theorem recoverUnit_none (d : Nat) (hd : 0 < d) :
    recoverUnit (String.ofList (joinSp (List.replicate d "None".toList))) = none := by
  unfold recoverUnit
  rw [String.toList_ofList, splitWs_replicate _ ⟨by decide, by decide⟩]
  obtain ⟨k, rfl⟩ : ∃ k, d = k + 1 := ⟨d - 1, by omega⟩
  simp [List.replicate_succ]

theorem recoverUnit_some (u : String) (hu : NoWs u.toList) (hn : u ≠ "None") (d : Nat) (hd : 0 < d) :
    recoverUnit (String.ofList (joinSp (List.replicate d u.toList))) = some u := by
  unfold recoverUnit
  rw [String.toList_ofList, splitWs_replicate _ hu]
  obtain ⟨k, rfl⟩ : ∃ k, d = k + 1 := ⟨d - 1, by omega⟩
  have hne : ¬ u.toList = ['N', 'o', 'n', 'e'] := by
    intro h
    apply hn
    rw [← String.ofList_toList (s := u), h]
  simp [List.replicate_succ, hne, String.ofList_toList]


/-! ## region and mesh constructors -/

theorem roundHalfEven_nat (n : Nat) : Mesh.roundHalfEven (n : Rat) = n := by
  unfold Mesh.roundHalfEven
  have hf : ((n : Rat)).floor = (n : Int) := by
    apply rat_floor_eq <;> push_cast <;> linarith
  rw [hf]
  have : ((n : Rat) - ((n : Int) : Rat)) = 0 := by push_cast; ring
  rw [this]
  norm_num

/-- `round(edge / (edge / n)) = n` -/
theorem n_recovered_axis (e : Rat) (he : 0 < e) (n : Nat) (hn : 0 < n) :
    (Mesh.roundHalfEven (e / (e / (n : Rat)))).toNat = n := by
  have hn' : (n : Rat) ≠ 0 := by exact_mod_cast (Nat.pos_iff_ne_zero.mp hn)
  have : e / (e / (n : Rat)) = (n : Rat) := by field_simp
  rw [this, roundHalfEven_nat]
  simp

theorem remainder_mul (k : Nat) (c : Rat) (hc : 0 < c) : Mesh.remainder ((k : Rat) * c) c = 0 := by
  unfold Mesh.remainder
  have : (k : Rat) * c / c = (k : Rat) := by field_simp
  rw [this]
  have hf : ((k : Rat)).floor = (k : Int) := by
    apply rat_floor_eq <;> push_cast <;> linarith
  rw [hf]; push_cast; ring

theorem notDivisible_mul (k : Nat) (c tol : Rat) (hc : 0 < c) (ht : 0 ≤ tol) :
    Mesh.notDivisible ((k : Rat) * c) c tol = false := by
  unfold Mesh.notDivisible
  rw [remainder_mul k c hc]
  have : ¬ (tol < 0) := by linarith
  simp [this]

theorem regionMk_ok' (p1 p2 : List Rat) (dims : Option (List String)) (d : List String) (units : List String) (tol : Rat)
    (hl : p1.length = p2.length) (h0 : 0 < p1.length) (hdo : Region.dimsOk p1.length dims = .ok d)
    (hu : units.length = p1.length) (hlt : ∀ a, a < p1.length → p1.getD a 0 < p2.getD a 0) :
    Region.mk? p1 p2 dims (some units) tol
      = .ok { pmin := p1, pmax := p2, dims := d, units := units, tol := tol } := by
  unfold Region.mk?
  have h1 : ¬ (p1.length ≠ p2.length) := by simp [hl]
  have h2 : ¬ (p1.length = 0) := by omega
  have h3 : allLt p1.length (fun a => decide (p1.getD a 0 ≠ p2.getD a 0)) = true := by
    rw [allLt_iff]; intro a ha; have := hlt a ha
    exact decide_eq_true (ne_of_lt this)
  have e1 : tab p1.length (fun a => min (p1.getD a 0) (p2.getD a 0)) = p1 := by
    symm; apply eq_tab_of_getD _ _ _ 0 rfl
    intro i hi; exact (min_eq_left (le_of_lt (hlt i hi))).symm
  have e2 : tab p1.length (fun a => max (p1.getD a 0) (p2.getD a 0)) = p2 := by
    symm; apply eq_tab_of_getD _ _ _ 0 hl.symm
    intro i hi; exact (max_eq_right (le_of_lt (hlt i hi))).symm
  have huo : Region.unitsOk p1.length (some units) = .ok units := by
    unfold Region.unitsOk
    simp only [hu, ne_eq, not_true_eq_false, if_false]
  rw [if_neg h1, if_neg h2, hdo]
  dsimp only
  rw [huo]
  dsimp only
  rw [h3, e1, e2]
  simp only [Bool.not_true, Bool.false_eq_true, if_false]

theorem dimsOk_some (n : Nat) (d : List String) (hd : d.length = n) (hdup : hasDup d = false) :
    Region.dimsOk n (some d) = .ok d := by
  unfold Region.dimsOk
  simp only [hd, ne_eq, not_true_eq_false, if_false, hdup, Bool.false_eq_true]

theorem dimsOk_none3 : Region.dimsOk 3 none = .ok ["x", "y", "z"] := by decide



theorem foldl_min_nonneg (xs : List Rat) (x : Rat) (hx : 0 ≤ x) (h : ∀ y ∈ xs, 0 ≤ y) : 0 ≤ xs.foldl min x := by
  induction xs generalizing x with
  | nil => simpa
  | cons y ys ih =>
    simp only [List.foldl_cons]
    exact ih _ (le_min hx (h y (by simp))) (fun z hz => h z (by simp [hz]))

theorem listMin_nonneg (l : List Rat) (h : ∀ y ∈ l, 0 ≤ y) : 0 ≤ listMin l := by
  cases l with
  | nil => simp [listMin]
  | cons x xs => exact foldl_min_nonneg xs x (h x (by simp)) (fun y hy => h y (by simp [hy]))

theorem mem_tab {α} (n : Nat) (f : Nat → α) (x : α) (h : x ∈ tab n f) : ∃ a, a < n ∧ x = f a := by
  unfold tab at h
  obtain ⟨a, ha, rfl⟩ := List.mem_map.mp h
  exact ⟨a, List.mem_range.mp ha, rfl⟩

/-- `Mesh(region, cell = edges / n)` gives back `n` (all checks of the constructor pass) -/
theorem mkCell_ok (r : Region) (n : List Nat) (hn : n.length = r.ndim)
    (hr : ∀ a, a < r.ndim → r.lo a < r.hi a) (hpos : ∀ a, a < r.ndim → 0 < n.getD a 0) :
    Mesh.mkCell? r (tab r.ndim fun a => r.edge a / (n.getD a 0 : Rat))
      = .ok { region := r, n := n, bc := "", subs := [] } := by
  have hcpos : ∀ a, a < r.ndim → 0 < r.edge a / (n.getD a 0 : Rat) := by
    intro a ha
    have h1 : (0 : Rat) < (n.getD a 0 : Rat) := by exact_mod_cast hpos a ha
    have h2 : 0 < r.edge a := by unfold Region.edge; linarith [hr a ha]
    exact div_pos h2 h1
  have hget : ∀ a, a < r.ndim →
      (tab r.ndim fun a => r.edge a / (n.getD a 0 : Rat)).getD a 0 = r.edge a / (n.getD a 0 : Rat) :=
    fun a ha => getD_tab _ _ _ _ ha
  unfold Mesh.mkCell?
  have c1 : ¬ ((tab r.ndim fun a => r.edge a / (n.getD a 0 : Rat)).length ≠ r.ndim) := by simp
  have c2 : (tab r.ndim fun a => r.edge a / (n.getD a 0 : Rat)).any (fun c => decide (c ≤ 0)) = false := by
    rw [List.any_eq_false]
    intro x hx
    obtain ⟨a, ha, rfl⟩ := mem_tab _ _ _ hx
    rw [decide_eq_false (not_le.mpr (hcpos a ha))]; exact Bool.false_ne_true
  have c3 : r.containsPt (tab r.ndim fun a => r.lo a
      + (tab r.ndim fun a => r.edge a / (n.getD a 0 : Rat)).getD a 0) = true := by
    unfold Region.containsPt
    simp only [tab_length, decide_true, Bool.true_and]
    rw [allLt_iff]
    intro a ha
    rw [getD_tab _ _ _ _ ha, hget a ha]
    unfold Region.containsAx
    have h1 : (1 : Rat) ≤ (n.getD a 0 : Rat) := by exact_mod_cast hpos a ha
    have h2 : 0 < r.edge a := by unfold Region.edge; linarith [hr a ha]
    have h3 : r.edge a / (n.getD a 0 : Rat) ≤ r.edge a := div_le_self (le_of_lt h2) h1
    have a1 : r.lo a ≤ r.lo a + r.edge a / (n.getD a 0 : Rat) := by linarith [hcpos a ha]
    have a2 : r.lo a + r.edge a / (n.getD a 0 : Rat) ≤ r.hi a := by
      unfold Region.edge at h3 ⊢; linarith
    simp only [decide_eq_true a1, decide_eq_true a2, Bool.true_or, Bool.and_self]
  have c4 : allLt r.ndim (fun a => !Mesh.notDivisible (r.edge a)
      ((tab r.ndim fun a => r.edge a / (n.getD a 0 : Rat)).getD a 0)
      (listMin (tab r.ndim fun a => r.edge a / (n.getD a 0 : Rat)) / 1000)) = true := by
    rw [allLt_iff]
    intro a ha
    rw [hget a ha]
    have hn0 : (n.getD a 0 : Rat) ≠ 0 := by
      have : (0 : Rat) < (n.getD a 0 : Rat) := by exact_mod_cast hpos a ha
      exact ne_of_gt this
    have he : r.edge a = (n.getD a 0 : Rat) * (r.edge a / (n.getD a 0 : Rat)) := by field_simp
    have ht : 0 ≤ listMin (tab r.ndim fun a => r.edge a / (n.getD a 0 : Rat)) / 1000 := by
      apply div_nonneg _ (by norm_num)
      apply listMin_nonneg
      intro y hy
      obtain ⟨b, hb, rfl⟩ := mem_tab _ _ _ hy
      exact le_of_lt (hcpos b hb)
    conv => lhs; arg 1; arg 1; rw [he]
    rw [notDivisible_mul _ _ _ (hcpos a ha) ht]
    rfl
  have c5 : Mesh.bcOk r.dims ("" : String).toLower = true := by
    have : ("" : String).toLower = "" := by simp [String.toLower]
    rw [this]; simp [Mesh.bcOk]
  have c6 : (tab r.ndim fun a => (Mesh.roundHalfEven (r.edge a /
      (tab r.ndim fun a => r.edge a / (n.getD a 0 : Rat)).getD a 0)).toNat) = n := by
    symm
    apply eq_tab_of_getD _ _ _ 0 hn
    intro a ha
    rw [hget a ha]
    have h2 : 0 < r.edge a := by unfold Region.edge; linarith [hr a ha]
    exact (n_recovered_axis _ h2 _ (hpos a ha)).symm
  have c7 : ("" : String).toLower = "" := by simp [String.toLower]
  have c4b : allLt r.ndim (fun a => decide (1 ≤ (Mesh.roundHalfEven (r.edge a /
      (tab r.ndim fun a => r.edge a / (n.getD a 0 : Rat)).getD a 0)).toNat)) = true := by
    rw [allLt_iff]
    intro a ha
    rw [hget a ha]
    have h2 : 0 < r.edge a := by unfold Region.edge; linarith [hr a ha]
    rw [n_recovered_axis _ h2 _ (hpos a ha)]
    exact decide_eq_true (hpos a ha)
  rw [if_neg c1, c2, c3, c4, c4b, c5, c6, c7]
  simp


end DFV.C09
