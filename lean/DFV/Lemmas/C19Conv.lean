import DFV.Lemmas.C19
/-! helper lemmas for C19: finite sums, zero-padded circular convolution = linear convolution -/
namespace DFV.C19
open DFV

theorem sumTo_congr (n : Nat) (f g : Nat → Rat) (h : ∀ k, k < n → f k = g k) : sumTo n f = sumTo n g := by
  induction n with
  | zero => rfl
  | succ n ih =>
    simp only [sumTo]
    rw [ih (fun k hk => h k (by omega)), h n (by omega)]

theorem sumTo_zero (n : Nat) (f : Nat → Rat) (h : ∀ k, k < n → f k = 0) : sumTo n f = 0 := by
  induction n with
  | zero => rfl
  | succ n ih =>
    simp only [sumTo]
    rw [ih (fun k hk => h k (by omega)), h n (by omega)]; ring

theorem sumTo_add (n : Nat) (f g : Nat → Rat) : sumTo n (fun k => f k + g k) = sumTo n f + sumTo n g := by
  induction n with
  | zero => simp [sumTo]
  | succ n ih => simp only [sumTo, ih]; ring

theorem sumTo_mul_right (n : Nat) (f : Nat → Rat) (c : Rat) : sumTo n (fun k => f k * c) = sumTo n f * c := by
  induction n with
  | zero => simp [sumTo]
  | succ n ih => simp only [sumTo, ih]; ring

theorem sumTo_split (a b : Nat) (f : Nat → Rat) : sumTo (a + b) f = sumTo a f + sumTo b (fun k => f (a + k)) := by
  induction b with
  | zero => simp [sumTo]
  | succ b ih =>
    show sumTo (a + b) f + f (a + b) = _
    rw [ih]; simp only [sumTo]; ring

theorem sumTo_reflect (n : Nat) (f : Nat → Rat) : sumTo n (fun k => f (n - 1 - k)) = sumTo n f := by
  induction n generalizing f with
  | zero => rfl
  | succ n ih =>
    -- peel the first term on the left, the last on the right
    have h1 : sumTo (n + 1) (fun k => f (n + 1 - 1 - k)) = sumTo (1 + n) (fun k => f (n - k)) := by
      rw [Nat.add_comm 1 n]; apply sumTo_congr; intro k _; congr 1
    rw [h1, sumTo_split 1 n]
    simp only [sumTo]
    have h2 : sumTo n (fun k => f (n - (1 + k))) = sumTo n (fun k => f (n - 1 - k)) := by
      apply sumTo_congr; intro k _; congr 1; omega
    rw [h2, ih f]
    simp only [Nat.sub_zero]
    ring

/-- a single non-zero term -/
theorem sumTo_single (n q : Nat) (hq : q < n) (f : Nat → Rat) (h : ∀ k, k < n → k ≠ q → f k = 0) :
    sumTo n f = f q := by
  induction n with
  | zero => omega
  | succ n ih =>
    simp only [sumTo]
    by_cases hqn : q = n
    · subst hqn
      rw [sumTo_zero q f (fun k hk => h k (by omega) (by omega))]; ring
    · rw [ih (by omega) (fun k hk hne => h k (by omega) hne), h n (by omega) (fun e => hqn e.symm)]; ring

/-- one axis: circular convolution on `2n−1` points against a signal that vanishes beyond
`n`, read at `q + n − 1`, is the linear convolution -/
theorem circ_axis (n q : Nat) (hq : q < n) (G : Nat → Nat → Rat) (hG : ∀ j r, n ≤ r → G j r = 0) :
    sumTo (2 * n - 1) (fun j => G j (subMod (q + (n - 1)) j (2 * n - 1)))
      = sumTo n (fun r => G (q + (n - 1) - r) r) := by
  have hN : 2 * n - 1 = q + (n + (n - 1 - q)) := by omega
  rw [hN, sumTo_split, sumTo_split, ← hN]
  have z1 : sumTo q (fun j => G j (subMod (q + (n - 1)) j (2 * n - 1))) = 0 := by
    apply sumTo_zero
    intro k hk
    apply hG
    unfold subMod
    rw [Nat.mod_eq_of_lt (by omega : k < 2 * n - 1)]
    have : q + (n - 1) + (2 * n - 1) - k = (q + (n - 1) - k) + (2 * n - 1) := by omega
    rw [this, Nat.add_mod_right, Nat.mod_eq_of_lt (by omega)]
    omega
  have z3 : sumTo (n - 1 - q) (fun k => G (q + (n + k)) (subMod (q + (n - 1)) (q + (n + k)) (2 * n - 1))) = 0 := by
    apply sumTo_zero
    intro k hk
    apply hG
    unfold subMod
    rw [Nat.mod_eq_of_lt (by omega : q + (n + k) < 2 * n - 1)]
    rw [Nat.mod_eq_of_lt (by omega)]
    omega
  have m2 : sumTo n (fun k => G (q + k) (subMod (q + (n - 1)) (q + k) (2 * n - 1)))
      = sumTo n (fun k => G (q + k) (n - 1 - k)) := by
    apply sumTo_congr
    intro k hk
    congr 1
    unfold subMod
    rw [Nat.mod_eq_of_lt (by omega : q + k < 2 * n - 1)]
    have : q + (n - 1) + (2 * n - 1) - (q + k) = (n - 1 - k) + (2 * n - 1) := by omega
    rw [this, Nat.add_mod_right, Nat.mod_eq_of_lt (by omega)]
  rw [z1, z3, m2]
  have r : sumTo n (fun k => G (q + k) (n - 1 - k)) = sumTo n (fun r => G (q + (n - 1 - r)) r) := by
    rw [← sumTo_reflect n (fun r => G (q + (n - 1 - r)) r)]
    apply sumTo_congr
    intro k hk
    have : n - 1 - (n - 1 - k) = k := by omega
    rw [this]
  rw [r]
  have e : sumTo n (fun r => G (q + (n - 1 - r)) r) = sumTo n (fun r => G (q + (n - 1) - r) r) := by
    apply sumTo_congr
    intro k hk
    congr 1; omega
  rw [e]; ring

/-- three axes at once -/
theorem circ3 (n0 n1 n2 q0 q1 q2 : Nat) (h0 : q0 < n0) (h1 : q1 < n1) (h2 : q2 < n2)
    (A : Nat → Nat → Nat → Nat → Nat → Nat → Rat)
    (hA : ∀ j0 j1 j2 r0 r1 r2, (n0 ≤ r0 ∨ n1 ≤ r1 ∨ n2 ≤ r2) → A j0 j1 j2 r0 r1 r2 = 0) :
    sum3 (2 * n0 - 1) (2 * n1 - 1) (2 * n2 - 1) (fun j0 j1 j2 =>
        A j0 j1 j2 (subMod (q0 + (n0 - 1)) j0 (2 * n0 - 1)) (subMod (q1 + (n1 - 1)) j1 (2 * n1 - 1))
          (subMod (q2 + (n2 - 1)) j2 (2 * n2 - 1)))
      = sum3 n0 n1 n2 (fun r0 r1 r2 =>
        A (q0 + (n0 - 1) - r0) (q1 + (n1 - 1) - r1) (q2 + (n2 - 1) - r2) r0 r1 r2) := by
  unfold sum3
  have s2 : ∀ j0 j1, sumTo (2 * n2 - 1) (fun j2 => A j0 j1 j2 (subMod (q0 + (n0 - 1)) j0 (2 * n0 - 1))
        (subMod (q1 + (n1 - 1)) j1 (2 * n1 - 1)) (subMod (q2 + (n2 - 1)) j2 (2 * n2 - 1)))
      = sumTo n2 (fun r2 => A j0 j1 (q2 + (n2 - 1) - r2) (subMod (q0 + (n0 - 1)) j0 (2 * n0 - 1))
        (subMod (q1 + (n1 - 1)) j1 (2 * n1 - 1)) r2) := by
    intro j0 j1
    exact circ_axis n2 q2 h2 (fun j r => A j0 j1 j (subMod (q0 + (n0 - 1)) j0 (2 * n0 - 1))
      (subMod (q1 + (n1 - 1)) j1 (2 * n1 - 1)) r) (fun j r hr => hA _ _ _ _ _ _ (Or.inr (Or.inr hr)))
  have s1 : ∀ j0, sumTo (2 * n1 - 1) (fun j1 => sumTo n2 (fun r2 => A j0 j1 (q2 + (n2 - 1) - r2)
        (subMod (q0 + (n0 - 1)) j0 (2 * n0 - 1)) (subMod (q1 + (n1 - 1)) j1 (2 * n1 - 1)) r2))
      = sumTo n1 (fun r1 => sumTo n2 (fun r2 => A j0 (q1 + (n1 - 1) - r1) (q2 + (n2 - 1) - r2)
        (subMod (q0 + (n0 - 1)) j0 (2 * n0 - 1)) r1 r2)) := by
    intro j0
    exact circ_axis n1 q1 h1 (fun j r => sumTo n2 (fun r2 => A j0 j (q2 + (n2 - 1) - r2)
      (subMod (q0 + (n0 - 1)) j0 (2 * n0 - 1)) r r2))
      (fun j r hr => sumTo_zero _ _ (fun k _ => hA _ _ _ _ _ _ (Or.inr (Or.inl hr))))
  have s0 : sumTo (2 * n0 - 1) (fun j0 => sumTo n1 (fun r1 => sumTo n2 (fun r2 =>
        A j0 (q1 + (n1 - 1) - r1) (q2 + (n2 - 1) - r2) (subMod (q0 + (n0 - 1)) j0 (2 * n0 - 1)) r1 r2)))
      = sumTo n0 (fun r0 => sumTo n1 (fun r1 => sumTo n2 (fun r2 =>
        A (q0 + (n0 - 1) - r0) (q1 + (n1 - 1) - r1) (q2 + (n2 - 1) - r2) r0 r1 r2))) :=
    circ_axis n0 q0 h0 (fun j r => sumTo n1 (fun r1 => sumTo n2 (fun r2 =>
      A j (q1 + (n1 - 1) - r1) (q2 + (n2 - 1) - r2) r r1 r2)))
      (fun j r hr => sumTo_zero _ _ (fun k _ => sumTo_zero _ _ (fun k' _ => hA _ _ _ _ _ _ (Or.inl hr))))
  rw [← s0]
  apply sumTo_congr
  intro j0 _
  rw [← s1 j0]
  apply sumTo_congr
  intro j1 _
  exact s2 j0 j1

/-- `demag_field`'s cropped circular convolution is the linear convolution, at every cell -/
theorem circConv_eq_linConv (T : NDA (List Rat)) (f : Fld) (a : Nat) (q0 q1 q2 : Nat)
    (h0 : q0 < f.mesh.nAt 0) (h1 : q1 < f.mesh.nAt 1) (h2 : q2 < f.mesh.nAt 2) :
    circConv T f a [q0 + (f.mesh.nAt 0 - 1), q1 + (f.mesh.nAt 1 - 1), q2 + (f.mesh.nAt 2 - 1)]
      = linConv T f a [q0, q1, q2] := by
  unfold circConv linConv
  apply sumTo_congr
  intro b _
  simp only [List.getD_cons_zero, List.getD_cons_succ]
  rw [circ3 (f.mesh.nAt 0) (f.mesh.nAt 1) (f.mesh.nAt 2) q0 q1 q2 h0 h1 h2
    (fun j0 j1 j2 r0 r1 r2 => (T.get [j0, j1, j2]).getD (symIdx a b) 0 * padded f b [r0, r1, r2])]
  · unfold sum3
    apply sumTo_congr; intro r0 hr0
    apply sumTo_congr; intro r1 hr1
    apply sumTo_congr; intro r2 hr2
    unfold padded
    simp only [List.getD_cons_zero, List.getD_cons_succ]
    rw [if_pos ⟨hr0, hr1, hr2⟩]
  · intro j0 j1 j2 r0 r1 r2 hr
    unfold padded
    simp only [List.getD_cons_zero, List.getD_cons_succ]
    have : ¬ (r0 < f.mesh.nAt 0 ∧ r1 < f.mesh.nAt 1 ∧ r2 < f.mesh.nAt 2) := by omega
    rw [if_neg this]; ring

/-! ## sum rule for a uniformly magnetised cuboid -/

theorem sum3_single (n0 n1 n2 q0 q1 q2 : Nat) (h0 : q0 < n0) (h1 : q1 < n1) (h2 : q2 < n2)
    (g : Nat → Nat → Nat → Rat) (hg : ∀ r0 r1 r2, r0 < n0 → r1 < n1 → r2 < n2 → (r0 ≠ q0 ∨ r1 ≠ q1 ∨ r2 ≠ q2) → g r0 r1 r2 = 0) :
    sum3 n0 n1 n2 g = g q0 q1 q2 := by
  unfold sum3
  rw [sumTo_single n0 q0 h0]
  · rw [sumTo_single n1 q1 h1]
    · rw [sumTo_single n2 q2 h2]
      intro k hk hne
      exact hg q0 q1 k h0 h1 hk (Or.inr (Or.inr hne))
    · intro k hk hne
      exact sumTo_zero _ _ (fun k' hk' => hg q0 k k' h0 hk hk' (Or.inr (Or.inl hne)))
  · intro k hk hne
    exact sumTo_zero _ _ (fun k1 hk1 => sumTo_zero _ _ (fun k2 hk2 => hg k k1 k2 hk hk1 hk2 (Or.inl hne)))

theorem sum3_add (n0 n1 n2 : Nat) (f g : Nat → Nat → Nat → Rat) :
    sum3 n0 n1 n2 (fun a b c => f a b c + g a b c) = sum3 n0 n1 n2 f + sum3 n0 n1 n2 g := by
  unfold sum3
  rw [← sumTo_add]
  apply sumTo_congr; intro i _
  rw [← sumTo_add]
  apply sumTo_congr; intro j _
  rw [← sumTo_add]

theorem sum3_congr (n0 n1 n2 : Nat) (f g : Nat → Nat → Nat → Rat)
    (h : ∀ a b c, a < n0 → b < n1 → c < n2 → f a b c = g a b c) : sum3 n0 n1 n2 f = sum3 n0 n1 n2 g := by
  unfold sum3
  apply sumTo_congr; intro i hi
  apply sumTo_congr; intro j hj
  apply sumTo_congr; intro k hk
  exact h i j k hi hj hk

/-! ## exchanging sums (for the cube symmetry) -/

theorem sumTo_comm (n m : Nat) (h : Nat → Nat → Rat) :
    sumTo n (fun a => sumTo m (fun b => h a b)) = sumTo m (fun b => sumTo n (fun a => h a b)) := by
  induction n with
  | zero =>
    simp only [sumTo]
    exact (sumTo_zero m _ (fun _ _ => rfl)).symm
  | succ n ih =>
    simp only [sumTo]
    rw [ih, ← sumTo_add]

/-- cyclic renaming of the three summation indices of a cube -/
theorem sum3_rot (n : Nat) (g : Nat → Nat → Nat → Rat) :
    sum3 n n n (fun a b c => g b c a) = sum3 n n n g := by
  unfold sum3
  -- Σ_a Σ_b Σ_c g b c a = Σ_b Σ_a Σ_c g b c a = Σ_b Σ_c Σ_a g b c a
  rw [sumTo_comm n n (fun a b => sumTo n (fun c => g b c a))]
  apply sumTo_congr
  intro b _
  exact sumTo_comm n n (fun a c => g b c a)

theorem sumTo_const (n : Nat) (c : Rat) : sumTo n (fun _ => c) = (n : Rat) * c := by
  induction n with
  | zero => simp [sumTo]
  | succ n ih => simp only [sumTo, ih]; push_cast; ring

theorem sum3_const (n0 n1 n2 : Nat) (c : Rat) :
    sum3 n0 n1 n2 (fun _ _ _ => c) = (n0 : Rat) * ((n1 : Rat) * ((n2 : Rat) * c)) := by
  unfold sum3
  rw [sumTo_congr n0 _ (fun _ => (n1 : Rat) * ((n2 : Rat) * c)) (fun i _ => by
    rw [sumTo_congr n1 _ (fun _ => (n2 : Rat) * c) (fun j _ => sumTo_const n2 c), sumTo_const])]
  exact sumTo_const n0 _

end DFV.C19
