import DFV.Lemmas.C16Arr
/-! C16 helper lemmas, part 8: the lookup finds nothing outside the region, the box of the
located cell in mesh terms, the squared norm. -/
namespace DFV.C16
open DFV DFV.Mesh

/-- outside the closed edge the interval search in the vertex array finds nothing -/
theorem findInterval_vertices_none (m : Mesh) (a : Nat) (ha : a < m.ndim) (hn : 0 < m.nAt a)
    (hr : m.region.lo a < m.region.hi a) (x : Rat) (hout : x < m.region.lo a ∨ m.region.hi a < x) :
    findInterval ((m.vertices).getD a []) x = none := by
  cases hfi : findInterval ((m.vertices).getD a []) x with
  | none => rfl
  | some i =>
    exfalso
    obtain ⟨hi, h1, h2, _⟩ := findInterval_sound _ _ _ hfi
    rw [vertices_length m a ha] at hi
    have hc := C01.cell_pos m a hn hr
    have hcov := C01.cells_cover_edges m a hn
    unfold Region.edge at hcov
    rw [C01.vertices_eq_faces m a ha hn i (by omega)] at h1
    rw [C01.vertices_eq_faces m a ha hn (i + 1) (by omega)] at h2
    have hi0 : (0 : Rat) ≤ (i : Rat) := by exact_mod_cast Nat.zero_le i
    have hin : ((i + 1 : Nat) : Rat) ≤ (m.nAt a : Rat) := by exact_mod_cast (by omega : i + 1 ≤ m.nAt a)
    have e1 := mul_nonneg hi0 hc.le
    have e2 := mul_le_mul_of_nonneg_right hin hc.le
    rcases hout with h | h
    · linarith
    · linarith

/-- the interval the search returns in the vertex array, in mesh terms -/
theorem findInterval_vertices_box (m : Mesh) (a : Nat) (ha : a < m.ndim) (hn : 0 < m.nAt a)
    (x : Rat) (i : Nat) (h : findInterval ((m.vertices).getD a []) x = some i) :
    i < m.nAt a ∧ m.region.lo a + (i : Rat) * m.cellAt a ≤ x ∧ x ≤ m.region.lo a + ((i : Rat) + 1) * m.cellAt a := by
  obtain ⟨hi, h1, h2, _⟩ := findInterval_sound _ _ _ h
  rw [vertices_length m a ha] at hi
  rw [C01.vertices_eq_faces m a ha hn i (by omega)] at h1
  rw [C01.vertices_eq_faces m a ha hn (i + 1) (by omega)] at h2
  push_cast at h2
  exact ⟨by omega, h1, h2⟩

/-! ## the squared norm -/

theorem foldl_add_nonneg (l : List Rat) (x : Rat) (hx : 0 ≤ x) (h : ∀ y ∈ l, 0 ≤ y) : 0 ≤ l.foldl (· + ·) x := by
  induction l generalizing x with
  | nil => simpa
  | cons y ys ih =>
    simp only [List.foldl_cons]
    exact ih (x + y) (add_nonneg hx (h y (by simp))) fun z hz => h z (by simp [hz])

theorem foldl_add_ge (l : List Rat) (x : Rat) (h : ∀ y ∈ l, 0 ≤ y) : x ≤ l.foldl (· + ·) x := by
  induction l generalizing x with
  | nil => simp
  | cons y ys ih =>
    simp only [List.foldl_cons]
    have := ih (x + y) fun z hz => h z (by simp [hz])
    have := h y (by simp)
    linarith

theorem foldl_add_ge_mem (l : List Rat) (x : Rat) (hx : 0 ≤ x) (h : ∀ y ∈ l, 0 ≤ y) (z : Rat) (hz : z ∈ l) :
    z ≤ l.foldl (· + ·) x := by
  induction l generalizing x with
  | nil => simp at hz
  | cons y ys ih =>
    simp only [List.foldl_cons]
    rcases List.mem_cons.mp hz with rfl | hz'
    · have := foldl_add_ge ys (x + z) fun w hw => h w (by simp [hw])
      linarith
    · exact ih (x + y) (add_nonneg hx (h y (by simp))) (fun w hw => h w (by simp [hw])) hz'

theorem sumSq_nonneg (v : List Rat) (nv : Nat) : 0 ≤ sumSq v nv := by
  unfold sumSq
  apply foldl_add_nonneg _ _ (le_refl _)
  intro y hy
  simp only [tab, List.mem_map, List.mem_range] at hy
  obtain ⟨c, _, rfl⟩ := hy
  exact mul_self_nonneg _

/-- the squared norm vanishes exactly when every component does -/
theorem sumSq_eq_zero (v : List Rat) (nv : Nat) : sumSq v nv = 0 ↔ ∀ c, c < nv → v.getD c 0 = 0 := by
  constructor
  · intro h c hc
    have hall : ∀ y ∈ tab nv fun c => v.getD c 0 * v.getD c 0, (0 : Rat) ≤ y := by
      intro y hy
      simp only [tab, List.mem_map, List.mem_range] at hy
      obtain ⟨c, _, rfl⟩ := hy
      exact mul_self_nonneg _
    have hm : v.getD c 0 * v.getD c 0 ∈ tab nv fun c => v.getD c 0 * v.getD c 0 := by
      simp only [tab, List.mem_map, List.mem_range]
      exact ⟨c, hc, rfl⟩
    have := foldl_add_ge_mem _ 0 (le_refl _) hall _ hm
    unfold sumSq at h
    rw [h] at this
    have h2 := mul_self_nonneg (v.getD c 0)
    have : v.getD c 0 * v.getD c 0 = 0 := le_antisymm this h2
    exact mul_self_eq_zero.mp this
  · intro h
    unfold sumSq
    have : (tab nv fun c => v.getD c 0 * v.getD c 0) = tab nv fun _ => (0 : Rat) := by
      apply tab_congr
      intro c hc
      rw [h c hc]; ring
    rw [this]
    generalize nv = n
    unfold tab
    induction n with
    | zero => simp
    | succ n ih =>
      rw [List.range_succ, List.map_append, List.foldl_append, ih]
      simp

theorem sumSq_one (v : List Rat) : sumSq v 1 = v.getD 0 0 * v.getD 0 0 := by
  simp [sumSq, tab]

/-- the non-negative root of the squared norm of a one-component cell is the absolute value -/
theorem root_sumSq_one (v : List Rat) (r : Rat) (hr : 0 ≤ r) (h : r * r = sumSq v 1) : r = |v.getD 0 0| := by
  rw [sumSq_one] at h
  have h2 : |v.getD 0 0| * |v.getD 0 0| = v.getD 0 0 * v.getD 0 0 := abs_mul_abs_self _
  have h3 : 0 ≤ |v.getD 0 0| := abs_nonneg _
  have : r * r = |v.getD 0 0| * |v.getD 0 0| := by rw [h, h2]
  nlinarith [mul_self_nonneg (r - |v.getD 0 0|), mul_self_nonneg (r + |v.getD 0 0|)]

/-- two non-negative numbers with the same square are equal (the norm array is determined by
its square) -/
theorem root_unique (r s q : Rat) (hr : 0 ≤ r) (hs : 0 ≤ s) (h1 : r * r = q) (h2 : s * s = q) : r = s := by
  have : (r - s) * (r + s) = 0 := by ring_nf; nlinarith
  rcases mul_eq_zero.mp this with h | h
  · linarith
  · have : r = 0 := by linarith
    have : s = 0 := by linarith
    linarith

end DFV.C16
