import DFV.Lemmas.C02Dict
import DFV.Lemmas.C02Sub
/-! C02 helper lemmas, part 7: what the dictionary loop writes for a subregion that is a union
of cells. -/
namespace DFV.C02
open DFV DFV.Mesh

variable {V : Type} [Inhabited V]

/-- the submesh `mesh[subregion]` of a union of cells -/
def subMeshOf (m : Mesh) (r : Region) (k1 k2 : Nat → Nat) : Mesh :=
  { region := r, n := tab m.ndim fun a => k2 a - k1 a, bc := "", subs := [] }

/-- index of mesh cell `i` inside the submesh -/
def subIdx (m : Mesh) (k1 : Nat → Nat) (i : List Nat) : List Nat := tab m.ndim fun a => i.getD a 0 - k1 a

theorem localIdx_snoc (m : Mesh) (k1 : Nat → Nat) (i : List Nat) (hi : i.length = m.ndim) (c : Nat) :
    localIdx (tab m.ndim k1) (i ++ [c]) = subIdx m k1 i ++ [c] := by
  unfold localIdx subIdx
  apply List.ext_getElem
  · simp [hi]
  · intro a h1 h2
    rw [getElem_tab]
    by_cases ha : a < m.ndim
    · rw [List.getElem_append_left (by simpa using ha), getElem_tab, getD_append_left' _ _ _ _ (by omega),
        getD_tab _ _ _ _ ha]
    · have hA : a = m.ndim := by simp [hi] at h1; omega
      subst hA
      rw [List.getElem_append_right (by simp)]
      simp only [tab_length, Nat.sub_self, List.getElem_cons_zero]
      rw [getD_tab_ge _ _ _ _ (le_refl _)]
      have : (i ++ [c]).getD m.ndim 0 = c := by rw [← hi]; exact getD_append_last i c 0
      rw [this]; simp

theorem boxShape_tab (n : Nat) (k1 k2 : Nat → Nat) :
    boxShape (tab n k1) (tab n k2) = tab n fun a => k2 a - k1 a := by
  unfold boxShape
  rw [tab_length]
  apply tab_congr
  intro a ha
  rw [getD_tab _ _ _ _ ha, getD_tab _ _ _ _ ha]

theorem subIdx_inRange (m : Mesh) (k1 k2 : Nat → Nat) (i : List Nat) (hi : i.length = m.ndim) (rest : List Nat)
    (hb : inBox (tab m.ndim k1) (tab m.ndim k2) (i ++ rest) = true) :
    inRange (tab m.ndim fun a => k2 a - k1 a) (subIdx m k1 i) = true := by
  rw [inRange_iff]
  unfold subIdx
  refine ⟨by simp, fun a ha => ?_⟩
  rw [tab_length] at ha
  unfold inBox at hb
  rw [allLt_iff, tab_length] at hb
  have := hb a ha
  rw [getD_tab _ _ _ _ ha, getD_tab _ _ _ _ ha, getD_append_left' _ _ _ _ (by omega)] at this
  simp only [Bool.and_eq_true, decide_eq_true_eq] at this
  rw [getD_tab _ _ _ _ ha, getD_tab _ _ _ _ ha]
  omega

/-- for a subregion that is the union of the cells `k1 ≤ i < k2`, the loop body writes, into
exactly the cells of that index box, the leaf's array on the submesh at the shifted index -/
theorem patchVal_aligned (isZero : V → Bool) (items : List (String × Leaf V)) (m : Mesh) (hm : m.Inv) (nv : Nat)
    (p : String × Region) (k1 k2 : Nat → Nat) (hal : AlignedSub m p.2 k1 k2)
    (l : Leaf V) (hl : lookupLeaf items p.1 = some l)
    (sub : NDA V) (hsub : asLeaf isZero l (subMeshOf m p.2 k1 k2) nv = .ok sub)
    (hshape : sub.shape = (subMeshOf m p.2 k1 k2).n ++ [nv])
    (i : List Nat) (hi : i.length = m.ndim) (c : Nat) (hc : c < nv) :
    patchVal isZero items m nv p (i ++ [c]) =
      if inBox (tab m.ndim k1) (tab m.ndim k2) (i ++ [c]) then some (sub.get (subIdx m k1 i ++ [c])) else none := by
  have hsm := mkCell_aligned m hm p.2 k1 k2 hal
  have hsl := region2slices_spec m hm p.2 k1 k2 hal
  unfold patchVal
  have hsm' : Mesh.mkCell? p.2 m.cell = .ok (subMeshOf m p.2 k1 k2) := hsm
  simp only [hsm', hl]
  have hreg : (subMeshOf m p.2 k1 k2).region = p.2 := rfl
  simp only [hreg, hsl, hsub]
  have hbs : boxShape (tab m.ndim k1) (tab m.ndim k2) ++ [nv] = (subMeshOf m p.2 k1 k2).n ++ [nv] := by
    rw [boxShape_tab]; rfl
  obtain ⟨sb, hsb, _, hget⟩ := bcast_same ((subMeshOf m p.2 k1 k2).n ++ [nv]) sub hshape
  rw [hbs, hsb]
  simp only
  by_cases hb : inBox (tab m.ndim k1) (tab m.ndim k2) (i ++ [c]) = true
  · simp only [hb, if_true]
    rw [localIdx_snoc m k1 i hi c, hget]
    have := subIdx_inRange m k1 k2 i hi [c] hb
    show inRange ((tab m.ndim fun a => k2 a - k1 a) ++ [nv]) (subIdx m k1 i ++ [c]) = true
    rw [inRange_snoc, this]; simp [hc]
  · simp [hb]

/-- centre of the submesh cell that mesh cell `i` of the box is -/
theorem subMesh_centre (m : Mesh) (hm : m.Inv) (r : Region) (k1 k2 : Nat → Nat) (hal : AlignedSub m r k1 k2)
    (i : List Nat) (hi : i.length = m.ndim) (rest : List Nat)
    (hb : inBox (tab m.ndim k1) (tab m.ndim k2) (i ++ rest) = true) :
    (subMeshOf m r k1 k2).centre (subIdx m k1 i) = m.centre i := by
  unfold subMeshOf
  rw [sub_centre m hm r k1 k2 hal]
  unfold Mesh.centre
  apply tab_congr
  intro a ha
  unfold subIdx
  rw [getD_tab _ _ _ _ ha, getD_tab _ _ _ _ ha]
  unfold inBox at hb
  rw [allLt_iff, tab_length] at hb
  have := hb a ha
  rw [getD_tab _ _ _ _ ha, getD_tab _ _ _ _ ha, getD_append_left' _ _ _ _ (by omega)] at this
  simp only [Bool.and_eq_true, decide_eq_true_eq] at this
  have : k1 a + (i.getD a 0 - k1 a) = i.getD a 0 := by omega
  rw [this]

end DFV.C02
