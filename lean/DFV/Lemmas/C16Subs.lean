import DFV.Lemmas.C14Setter
import DFV.Lemmas.C16Text
import DFV.Lemmas.C16Examples
/-! C16 helper lemmas, part 10: the side-car of a mesh whose subregions fit it exactly (the
invariant `C14.SubInv` the subregion setter establishes) is accepted on the mesh the reader
rebuilds from bounds and dimensions. -/
namespace DFV.C16
open DFV DFV.Mesh

/-- the mesh `_from_vtk` builds before it loads the side-car -/
def rebuiltMesh (pmin pmax : List Rat) (n : List Nat) : Mesh :=
  { region := plainRegion pmin pmax, n := n, bc := "", subs := [] }

theorem rebuiltMesh_inv (f : Fld) (nx ny nz : Nat) (h : WF f nx ny nz) :
    (rebuiltMesh f.mesh.region.pmin f.mesh.region.pmax [nx, ny, nz]).Inv := by
  obtain ⟨hnd, hl1, hl2, hax, _, _, _⟩ := mesh_axes f nx ny nz h
  refine ⟨⟨?_, ?_, ?_, ?_, ?_, ?_⟩, ?_, ?_⟩
  · show 0 < f.mesh.region.pmin.length; omega
  · show f.mesh.region.pmax.length = f.mesh.region.pmin.length; omega
  · show 3 = f.mesh.region.pmin.length; omega
  · show 3 = f.mesh.region.pmin.length; omega
  · show hasDup ["x", "y", "z"] = false; decide
  · intro a ha
    have ha' : a < 3 := by
      have : a < f.mesh.region.pmin.length := ha
      omega
    exact (hax a ha').2
  · show 3 = f.mesh.region.pmin.length; omega
  · intro a ha
    have ha' : a < 3 := by
      have : a < f.mesh.region.pmin.length := ha
      omega
    have := (hax a ha').1
    simp only [Mesh.nAt, h.n] at this
    exact this

/-- `FitsE` on the rebuilt mesh: same corners, same counts -/
theorem fitsE_rebuilt (f : Fld) (nx ny nz : Nat) (h : WF f nx ny nz) (s : Region) (hs : C14.FitsE f.mesh s) :
    C14.FitsE (rebuiltMesh f.mesh.region.pmin f.mesh.region.pmax [nx, ny, nz]) s := by
  simp only [C14.FitsE, Mesh.ndim, Region.ndim, Mesh.nAt, Mesh.cellAt, Region.lo, Region.hi, Region.edge,
    rebuiltMesh, plainRegion] at hs ⊢
  rw [h.n] at hs
  exact hs

/-- loading the side-car `to_file` writes for a mesh with exactly fitting subregions -/
theorem loadSubs_written (f : Fld) (nx ny nz : Nat) (h : WF f nx ny nz) (hsub : C14.SubInv f.mesh) (save : Bool) :
    loadSubs (rebuiltMesh f.mesh.region.pmin f.mesh.region.pmax [nx, ny, nz])
        (if save && !f.mesh.subs.isEmpty then some f.mesh.subs else none) =
      .ok { rebuiltMesh f.mesh.region.pmin f.mesh.region.pmax [nx, ny, nz] with
            subs := if save then f.mesh.subs.map
                (rebuilt (rebuiltMesh f.mesh.region.pmin f.mesh.region.pmax [nx, ny, nz])) else [] } := by
  cases save with
  | false => rfl
  | true =>
    by_cases he : f.mesh.subs.isEmpty = true
    · have : f.mesh.subs = [] := List.isEmpty_iff.mp he
      simp only [this, List.isEmpty_nil, Bool.not_true, Bool.and_false, Bool.false_eq_true, if_false, if_true,
        List.map_nil]
      rfl
    · have he' : f.mesh.subs.isEmpty = false := by simpa using he
      simp only [he', Bool.not_false, Bool.and_true, if_true]
      exact loadSubs_ok _ _
        (fun p hp => C14.subOkE_regionInv f.mesh h.mesh p.2 (hsub p hp))
        (fun p hp => C14.candOk_of_fits _ (rebuiltMesh_inv f nx ny nz h) p.2
          (fitsE_rebuilt f nx ny nz h p.2 (hsub p hp).2.2.2))

/-- a held subregion that carries the mesh's names, units and tolerance is restored as it was
when the mesh's region has the default names, units and tolerance -/
theorem rebuilt_id (f : Fld) (n : List Nat) (hreg : f.mesh.region = plainRegion f.mesh.region.pmin f.mesh.region.pmax)
    (hsub : C14.SubInv f.mesh) :
    f.mesh.subs.map (rebuilt (rebuiltMesh f.mesh.region.pmin f.mesh.region.pmax n)) = f.mesh.subs := by
  conv_rhs => rw [← List.map_id f.mesh.subs]
  apply List.map_congr_left
  intro p hp
  obtain ⟨h1, h2, h3, _⟩ := hsub p hp
  rw [hreg] at h1 h2 h3
  obtain ⟨nm, r⟩ := p
  cases r
  simp only [rebuilt, rebuiltMesh, id] at *
  simp only [plainRegion] at h1 h2 h3 ⊢
  rw [h1, h2, h3]

theorem mesh_eq_of (m : Mesh) (r : Region) (n : List Nat) (h1 : m.region = r) (h2 : m.n = n) (h3 : m.bc = "") :
    m = { region := r, n := n, bc := "", subs := m.subs } := by
  cases m
  simp_all

/-- the subregion of the example field fits its mesh exactly -/
theorem exField_subinv : C14.SubInv exField.mesh := by
  intro p hp
  simp only [exField, List.mem_singleton] at hp
  subst hp
  refine ⟨rfl, rfl, rfl, rfl, rfl, ?_⟩
  intro a ha
  have : a = 0 ∨ a = 1 ∨ a = 2 := by
    have : a < 3 := ha
    omega
  rcases this with rfl | rfl | rfl
  · exact ⟨1, 1, by decide, by decide, by decide, by decide +kernel, by decide +kernel⟩
  · exact ⟨0, 1, by decide, by decide, by decide, by decide +kernel, by decide +kernel⟩
  · exact ⟨0, 1, by decide, by decide, by decide, by decide +kernel, by decide +kernel⟩

end DFV.C16
