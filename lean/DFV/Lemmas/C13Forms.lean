import DFV.Lemmas.C14Persist
/-! C13: in-place == copying at mesh level, over single steps and whole histories. -/
namespace DFV.T
open DFV DFV.C14

theorem mapSubs_cons (p : String × Region) (ps : List (String × Region)) (f : Region → M (Region × Region)) :
    mapSubs (p :: ps) f = match f p.2 with
      | .error e => .error e
      | .ok (_, ret) => match mapSubs ps f with
        | .error e => .error e
        | .ok qs => .ok ((p.1, ret) :: qs) := by
  unfold mapSubs
  rw [List.mapM_cons]
  cases hp : f p.2 with
  | error e => rfl
  | ok q =>
    obtain ⟨recv, ret⟩ := q
    simp only []
    cases hps : List.mapM (fun p => match f p.2 with | .ok (_, ret) => (.ok (p.1, ret) : M _) | .error e => .error e) ps with
    | error e => rfl
    | ok qs => rfl

theorem mapSubs_of_forall2 (subs subs' : List (String × Region)) (f : Region → M (Region × Region))
    (h : List.Forall₂ (fun p p' => p'.1 = p.1 ∧ ∃ recv, f p.2 = .ok (recv, p'.2)) subs subs') :
    mapSubs subs f = .ok subs' := by
  induction h with
  | nil => rfl
  | @cons p p' ps ps' hr _ ih =>
    obtain ⟨h1, recv, h2⟩ := hr
    rw [mapSubs_cons, h2, ih]
    simp only
    rw [← h1]

/-- two step functions that accept the same subregions with the same results map the same lists -/
theorem mapSubs_iff (subs : List (String × Region)) (f g : Region → M (Region × Region))
    (h : ∀ p ∈ subs, ∀ ret, (∃ x, f p.2 = .ok (x, ret)) → (∃ y, g p.2 = .ok (y, ret)))
    (subs' : List (String × Region)) (hf : mapSubs subs f = .ok subs') : mapSubs subs g = .ok subs' := by
  apply mapSubs_of_forall2
  have := mapSubs_inv _ _ _ hf
  clear hf
  induction this with
  | nil => exact List.Forall₂.nil
  | @cons p p' ps ps' hr _ ih =>
    refine List.Forall₂.cons ⟨hr.1, h p (by simp) p'.2 hr.2⟩ (ih fun q hq => h q (List.mem_cons_of_mem _ hq))
/-- region level: whatever one form of a step returns, the other form returns too (the in-place
form as receiver and result, the copying form leaving the receiver) -/
theorem stepR_flag (r : Region) (hr : r.Inv) (op : Op) (b b' : Bool) (x ret : Region)
    (h : stepR r (op.withInplace b) = .ok (x, ret)) :
    stepR r (op.withInplace b') = .ok (if b' then ret else r, ret) := by
  cases op with
  | translate v i =>
    simp only [Op.withInplace, stepR] at h ⊢
    obtain ⟨hv, e, _⟩ := translateR_inv _ hr _ _ _ _ h
    obtain ⟨f1, f2⟩ := translate_forms r hr v hv
    cases b' <;> simp [f1, f2, e]
  | scale f ref i =>
    simp only [Op.withInplace, stepR] at h ⊢
    obtain ⟨hf, href, hne, e, _⟩ := scaleR_inv _ _ _ _ _ _ h
    obtain ⟨f1, f2⟩ := scale_forms_ok r hr f ref hf href hne
    cases b' <;> simp [f1, f2, e]
  | rotate90 a1 a2 k ref i =>
    simp only [Op.withInplace, stepR] at h ⊢
    obtain ⟨hax, href, i1, i2, h1, h2, _, _, _, _, e, _⟩ := rotate90R_inv _ _ _ _ _ _ _ _ h
    obtain ⟨f1, f2⟩ := rot_forms_ok r hr a1 a2 k ref i1 i2 hax href h1 h2
    cases b' <;> simp [f1, f2, e]

theorem subOp_withInplace (m : Mesh) (op : Op) (b : Bool) : subOp m (op.withInplace b) = (subOp m op).withInplace b := by
  cases op <;> rfl
theorem opN_withInplace (m : Mesh) (op : Op) (b : Bool) : opN m (op.withInplace b) = opN m op := by
  cases op <;> rfl
theorem opBc_withInplace (m : Mesh) (op : Op) (b : Bool) : opBc m (op.withInplace b) = opBc m op := by
  cases op <;> rfl
theorem inplace_withInplace (op : Op) (b : Bool) : (op.withInplace b).inplace = b := by
  cases op <;> rfl
/-- the region step and the subregion steps of a mesh step do not depend on the form -/
theorem stepMU_parts_flag (m : Mesh) (hm : m.Inv) (hs : SubInv m) (op : Op) (b b' : Bool) (x r' : Region)
    (subs' : List (String × Region))
    (hreg : stepR m.region (op.withInplace b) = .ok (x, r'))
    (hsub : mapSubs m.subs (fun s => stepR s (subOp m (op.withInplace b))) = .ok subs') :
    stepR m.region (op.withInplace b') = .ok (if b' then r' else m.region, r') ∧
    mapSubs m.subs (fun s => stepR s (subOp m (op.withInplace b'))) = .ok subs' := by
  refine ⟨stepR_flag _ hm.1 op b b' x r' hreg, ?_⟩
  apply mapSubs_iff _ _ _ _ _ hsub
  intro p hp ret ⟨y, hy⟩
  rw [subOp_withInplace] at hy ⊢
  have := stepR_flag p.2 (subOkE_regionInv m hm p.2 (hs p hp)) (subOp m op) b b' y ret hy
  exact ⟨_, this⟩

/-- **in place ⇒ copying**: if the in-place form of a mesh step is accepted (returning the receiver
`T`), the copying form returns `T` with `bc` lower-cased by the constructor — provided that `bc` is
valid for the constructor; it is rejected otherwise. -/
theorem stepM_inplace_to_copy (m : Mesh) (hm : m.Inv) (hs : SubInv m) (op : Op) (T1 T2 : Mesh)
    (h : stepM m (op.withInplace true) = .ok (T1, T2)) :
    T1 = T2 ∧
    stepM m (op.withInplace false) =
      if Mesh.bcOk T2.region.dims T2.bc.toLower then .ok (m, { T2 with bc := T2.bc.toLower }) else .error .value := by
  have hsT := (stepM_subInv' m hm hs _ _ _ h).2.1
  have hiT := (stepM_keeps m hm _ _ _ h).2.1
  have hN := opN_ok m hm op
  rw [stepM_eq_stepMU] at h ⊢
  unfold stepMU at h ⊢
  split at h
  · cases h
  · cases h
  · rename_i x r' subs' hreg hsub
    obtain ⟨g1, g2⟩ := stepMU_parts_flag m hm hs op true false x r' subs' hreg hsub
    rw [g1, g2]
    simp only [inplace_withInplace, if_true, Bool.false_eq_true, if_false, opN_withInplace, opBc_withInplace] at h ⊢
    injection h with h; injection h with ha hb
    subst ha
    refine ⟨hb, ?_⟩
    subst hb
    simp only
    -- the constructor
    unfold mkMesh? Mesh.mkN?
    have hl : (opN m op).length = r'.ndim := hiT.2.1
    rw [if_neg (not_not.mpr hl)]
    have hz : (opN m op).any (· = 0) = false := by
      rw [List.any_eq_false]; intro k hk; have := hN.2 k hk; simp; omega
    rw [hz]
    simp only [Bool.false_eq_true, if_false]
    by_cases hbc : Mesh.bcOk r'.dims (opBc m op).toLower = true
    · rw [hbc]
      simp only [Bool.not_true, Bool.false_eq_true, if_false, if_true]
      have hfit : ∀ p ∈ subs', FitsE { region := r', n := opN m op, bc := (opBc m op).toLower, subs := [] } p.2 :=
        fun p hp => fitsE_congr _ _ p.2 p.2 rfl rfl rfl rfl (hsT p hp).2.2.2
      have hi0 : ({ region := r', n := opN m op, bc := (opBc m op).toLower, subs := [] } : Mesh).Inv := hiT
      rw [(setSubs_of_fits _ hi0 subs' hfit).1]
      have : subs'.map (restamp r') = subs' := by
        conv => rhs; rw [← List.map_id subs']
        apply List.map_congr_left
        intro p hp
        obtain ⟨h1, h2, h3, _⟩ := hsT p hp
        obtain ⟨nm, rg⟩ := p
        unfold restamp
        simp only [id]
        simp only at h1 h2 h3
        rw [← h1, ← h2, ← h3]
      simp only [this]
    · have hbc' : Mesh.bcOk r'.dims (opBc m op).toLower = false := by simpa using hbc
      rw [hbc']
      simp

def PlainBc (bc : String) : Prop := bc = "" ∨ bc = "neumann" ∨ bc = "dirichlet"

theorem plainBc_lower (bc : String) (h : PlainBc bc) : bc.toLower = bc := by
  rcases h with h | h | h <;> subst h <;> decide +kernel

theorem plainBc_ok (dims : List String) (bc : String) (h : PlainBc bc) : Mesh.bcOk dims bc = true := by
  rcases h with h | h | h <;> subst h <;> simp [Mesh.bcOk]

theorem plainBc_rot (bc a1 a2 : String) (k : Int) (h : PlainBc bc) : rotBc bc a1 a2 k = bc := by
  unfold rotBc
  rcases h with h | h | h <;> subst h <;> simp

theorem plainBc_op (m : Mesh) (op : Op) (h : PlainBc m.bc) : opBc m op = m.bc := by
  cases op with
  | translate v i => rfl
  | scale f r i => rfl
  | rotate90 a1 a2 k r i => exact plainBc_rot _ _ _ _ h
/-- **copying ⇒ in place**: if the copying form of a mesh step is accepted, the receiver is left
untouched, the in-place form is accepted too, and the returned mesh is the in-place state with
`bc` lower-cased by the constructor -/
theorem stepM_copy_to_inplace (m : Mesh) (hm : m.Inv) (hs : SubInv m) (op : Op) (recv ret : Mesh)
    (h : stepM m (op.withInplace false) = .ok (recv, ret)) :
    recv = m ∧ ∃ T, stepM m (op.withInplace true) = .ok (T, T) ∧ ret = { T with bc := T.bc.toLower } := by
  have h0 := h
  rw [stepM_eq_stepMU] at h
  unfold stepMU at h
  split at h
  · cases h
  · cases h
  · rename_i x r' subs' hreg hsub
    obtain ⟨g1, g2⟩ := stepMU_parts_flag m hm hs op false true x r' subs' hreg hsub
    have hT : stepM m (op.withInplace true) =
        .ok ({ m with region := r', n := opN m op, bc := opBc m op, subs := subs' },
             { m with region := r', n := opN m op, bc := opBc m op, subs := subs' }) := by
      rw [stepM_eq_stepMU]; unfold stepMU
      rw [g1, g2]
      simp only [inplace_withInplace, if_true, opN_withInplace, opBc_withInplace]
    obtain ⟨_, hc⟩ := stepM_inplace_to_copy m hm hs op _ _ hT
    rw [h0] at hc
    split at hc
    · injection hc with hc; injection hc with ha hb
      exact ⟨ha, _, hT, hb⟩
    · cases hc

/-- for the non-periodic boundary conditions both forms of every mesh step agree completely:
either both accept and end in the same state, or both reject -/
theorem stepM_forms_plain (m : Mesh) (hm : m.Inv) (hs : SubInv m) (hbc : PlainBc m.bc) (op : Op) :
    (∃ T : Mesh, T.Inv ∧ SubInv T ∧ PlainBc T.bc ∧ stepM m (op.withInplace true) = .ok (T, T) ∧
        stepM m (op.withInplace false) = .ok (m, T)) ∨
    ((∃ e, stepM m (op.withInplace true) = .error e) ∧ (∃ e, stepM m (op.withInplace false) = .error e)) := by
  cases hT : stepM m (op.withInplace true) with
  | ok p =>
    obtain ⟨T1, T2⟩ := p
    left
    obtain ⟨e, hc⟩ := stepM_inplace_to_copy m hm hs op T1 T2 hT
    subst e
    have hk := stepM_keeps m hm _ _ _ hT
    have hsT := (stepM_subInv' m hm hs _ _ _ hT).2.1
    have hbcT : T1.bc = m.bc := by
      have h := hT
      rw [stepM_eq_stepMU] at h; unfold stepMU at h
      split at h
      · cases h
      · cases h
      · simp only [inplace_withInplace, if_true, opN_withInplace, opBc_withInplace] at h
        injection h with h; injection h with ha _
        rw [← ha]; exact plainBc_op m op hbc
    have hp : PlainBc T1.bc := hbcT ▸ hbc
    rw [plainBc_lower _ hp, plainBc_ok _ _ hp] at hc
    simp only [if_true] at hc
    exact ⟨T1, hk.2.1, hsT, hp, rfl, hc⟩
  | error e =>
    right
    refine ⟨⟨e, rfl⟩, ?_⟩
    cases hF : stepM m (op.withInplace false) with
    | error e' => exact ⟨e', rfl⟩
    | ok p =>
      obtain ⟨recv, ret⟩ := p
      obtain ⟨_, T, hT', _⟩ := stepM_copy_to_inplace m hm hs op recv ret hF
      rw [hT] at hT'; cases hT'

theorem withInplace_self' (op : Op) : op.withInplace op.inplace = op := by cases op <;> rfl
theorem withInplace_twice (op : Op) (b b' : Bool) : (op.withInplace b).withInplace b' = op.withInplace b' := by cases op <;> rfl

/-- two mesh histories that differ only in the in-place flags end with equal meshes (non-periodic bc) -/
theorem runM_forms_agree (m : Mesh) (hm : m.Inv) (hs : SubInv m) (hbc : PlainBc m.bc) (ops : List Op) (flags : List Bool)
    (hl : flags.length = ops.length) :
    runM m (List.zipWith Op.withInplace ops flags) = runM m ops := by
  induction ops generalizing m flags with
  | nil => cases flags <;> simp [runM]
  | cons op ops ih =>
    cases flags with
    | nil => simp at hl
    | cons b bs =>
      simp only [List.zipWith_cons_cons, runM]
      have hl' : bs.length = ops.length := by simpa using hl
      have hopT : ∀ T, stepM m (op.withInplace true) = .ok (T, T) → stepM m (op.withInplace false) = .ok (m, T) →
          ∃ y, stepM m op = .ok (y, T) := by
        intro T h4 h5
        cases hb : op.inplace
        · have : op = op.withInplace false := by rw [← hb, withInplace_self']
          rw [this]; exact ⟨_, h5⟩
        · have : op = op.withInplace true := by rw [← hb, withInplace_self']
          rw [this]; exact ⟨_, h4⟩
      have hopE : ∀ e1 e2, stepM m (op.withInplace true) = .error e1 → stepM m (op.withInplace false) = .error e2 →
          ∃ e, stepM m op = .error e := by
        intro e1 e2 h4 h5
        cases hb : op.inplace
        · have : op = op.withInplace false := by rw [← hb, withInplace_self']
          rw [this]; exact ⟨_, h5⟩
        · have : op = op.withInplace true := by rw [← hb, withInplace_self']
          rw [this]; exact ⟨_, h4⟩
      have key : ∀ b' : Bool, (∃ T : Mesh, T.Inv ∧ SubInv T ∧ PlainBc T.bc ∧ (∃ x, stepM m (op.withInplace b') = .ok (x, T)) ∧
            ∃ y, stepM m op = .ok (y, T)) ∨
          ((∃ e, stepM m (op.withInplace b') = .error e) ∧ (∃ e, stepM m op = .error e)) := by
        intro b'
        rcases stepM_forms_plain m hm hs hbc op with ⟨T, h1, h2, h3, h4, h5⟩ | ⟨⟨e1, h4⟩, ⟨e2, h5⟩⟩
        · left
          refine ⟨T, h1, h2, h3, ?_, hopT T h4 h5⟩
          cases b'
          · exact ⟨_, h5⟩
          · exact ⟨_, h4⟩
        · right
          refine ⟨?_, hopE e1 e2 h4 h5⟩
          cases b'
          · exact ⟨e2, h5⟩
          · exact ⟨e1, h4⟩
      rcases key b with ⟨T, h1, h2, h3, ⟨x, k1⟩, y, k2⟩ | ⟨⟨e1, k1⟩, ⟨e2, k2⟩⟩
      · rw [k1, k2]; exact ih T h1 h2 h3 bs hl'
      · rw [k1, k2]; exact ih m hm hs hbc bs hl'
/-- non-periodic boundary conditions survive every accepted mesh step unchanged -/
theorem stepM_plainBc (m : Mesh) (op : Op) (recv ret : Mesh) (hbc : PlainBc m.bc) (h : stepM m op = .ok (recv, ret)) :
    ret.bc = m.bc ∧ recv.bc = m.bc := by
  rw [stepM_eq_stepMU] at h
  unfold stepMU at h
  split at h
  · cases h
  · cases h
  · split at h
    · injection h with h; injection h with ha hb
      rw [← ha, ← hb]; exact ⟨plainBc_op m op hbc, plainBc_op m op hbc⟩
    · split at h
      · cases h
      · rename_i m' hm'
        injection h with h; injection h with ha hb
        obtain ⟨_, _, e3, _⟩ := mkMesh_inv _ _ _ _ _ hm'
        rw [← ha, ← hb, e3, plainBc_op m op hbc, plainBc_lower _ hbc]; exact ⟨rfl, rfl⟩

/-- the two forms of the field rotation differ only in what becomes of the receiver -/
theorem rotate90F_flag (f : Fld) (a1 a2 : String) (k : Int) (ref : Option (List Rat)) (b b' : Bool) (x g : Fld)
    (h : rotate90F f a1 a2 k ref b = .ok (x, g)) :
    rotate90F f a1 a2 k ref b' = .ok (if b' then g else f, g) ∧ x = if b then g else f := by
  unfold rotate90F at h ⊢
  split at h
  · cases h
  · cases h
  · cases h
  · rename_i m' i1 i2 hm' h1 h2
    split at h
    · rename_i hv
      rw [if_pos hv]
      split at h
      · rename_i c1 c2 hc1 hc2
        injection h with h; injection h with ha hb
        subst hb
        constructor
        · cases b' <;> rfl
        · cases b <;> exact ha.symm
      · cases h
    · rename_i hv
      rw [if_neg hv]
      injection h with h; injection h with ha hb
      subst hb
      constructor
      · cases b' <;> rfl
      · cases b <;> exact ha.symm
end DFV.T
