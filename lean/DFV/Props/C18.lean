import DFV.Model.C18
namespace DFV.C18
theorem placeholder_partial : padIdx 3 0 = 0 := by decide
end DFV.C18
