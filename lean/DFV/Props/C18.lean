import DFV.Lemmas.C18Values
import DFV.Lemmas.C18Cbrt
import DFV.Lemmas.C18State
import DFV.Lemmas.C18Examples
import DFV.Lemmas.C18Quarter
/-!
# C18 — arbitrary rotations rotate the vectors and resample the positions consistently

Property theorems about the executable model `DFV/Model/C18.lean` of `FieldRotator`
(helper lemmas live in `DFV/Lemmas/C18*.lean`).  Rotations are rational 3×3 matrices;
all statements hold for every field, every mesh size, every matrix / history / target
cell, in exact rational arithmetic.
-/
namespace DFV.C18
open DFV

/-! ## rotations -/

/-- Every non-zero rational quaternion yields a proper rotation with rational entries: the
exact regime of the correspondence run is dense in SO(3). -/
theorem quat_is_rotation (w x y z : Rat) (h : w*w + x*x + y*y + z*z ≠ 0) : (M3.ofQuat w x y z).IsRot :=
  M3.ofQuat_isRot w x y z h

example : (M3.ofQuat 2 1 (-2) 3).IsRot := quat_is_rotation _ _ _ _ (by norm_num)

/-- For a rotation the transpose (what the model uses for scipy's `Rotation.inv`) is the
two-sided inverse, and scalar products (lengths, angles) are preserved. -/
theorem transpose_is_inverse (Q : M3) (h : Q.IsRot) (u v : V3) :
    Q.apply (Q.tr.apply v) = v ∧ Q.tr.apply (Q.apply v) = v ∧ (Q.apply u).dot (Q.apply v) = u.dot v :=
  ⟨h.apply_tr_apply v, h.tr_apply_apply v, h.dot_apply u v⟩

/-! ## the bounding box (`_calculate_new_region`) -/

/-- `centre + cornerRel` enumerates the eight corners of the original region. -/
theorem corner_of_region (m : Mesh) (s0 s1 s2 : Bool) (a : Nat) (ha : a < 3) :
    centreAt m a + (cornerRel m s0 s1 s2).get a
      = if (match a with | 0 => s0 | 1 => s1 | _ => s2) then m.region.hi a else m.region.lo a := by
  have : a = 0 ∨ a = 1 ∨ a = 2 := by omega
  rcases this with e | e | e <;> subst e <;>
    simp only [cornerRel, V3.get, centreAt, Region.edge, sgn] <;> split <;> ring

/-- **bbox.** The region of the rotated field has the centre of the original region, contains
the eight corners of the original region rotated about that centre, and each of its six
faces contains one of them — it is the axis-aligned bounding box of the rotated region
(for any matrix, rotation or not). -/
theorem bbox (f : Fld) (R : M3) (reg : Region) (h : newRegion f R = .ok reg) :
    (∀ a, a < 3 → (reg.lo a + reg.hi a) / 2 = centreAt f.mesh a) ∧
    (∀ s0 s1 s2 a, a < 3 →
      reg.lo a ≤ centreAt f.mesh a + (R.apply (cornerRel f.mesh s0 s1 s2)).get a ∧
      centreAt f.mesh a + (R.apply (cornerRel f.mesh s0 s1 s2)).get a ≤ reg.hi a) ∧
    (∀ a, a < 3 → ∃ s0 s1 s2, centreAt f.mesh a + (R.apply (cornerRel f.mesh s0 s1 s2)).get a = reg.hi a) ∧
    (∀ a, a < 3 → ∃ s0 s1 s2, centreAt f.mesh a + (R.apply (cornerRel f.mesh s0 s1 s2)).get a = reg.lo a) := by
  refine ⟨?_, ?_, ?_, ?_⟩
  · intro a ha
    rw [newRegion_lo f R reg h a ha, newRegion_hi f R reg h a ha]
    unfold boxLo boxHi; ring
  · intro s0 s1 s2 a ha
    rw [newRegion_lo f R reg h a ha, newRegion_hi f R reg h a ha]
    have hb := corner_bound R f.mesh s0 s1 s2 a
    rw [abs_le] at hb
    unfold boxLo boxHi
    constructor <;> linarith [hb.1, hb.2]
  · intro a ha
    refine ⟨decide (0 ≤ R.e a 0 * f.mesh.region.edge 0), decide (0 ≤ R.e a 1 * f.mesh.region.edge 1),
      decide (0 ≤ R.e a 2 * f.mesh.region.edge 2), ?_⟩
    rw [newRegion_hi f R reg h a ha, corner_attains R f.mesh a]
    rfl
  · intro a ha
    refine ⟨!decide (0 ≤ R.e a 0 * f.mesh.region.edge 0), !decide (0 ≤ R.e a 1 * f.mesh.region.edge 1),
      !decide (0 ≤ R.e a 2 * f.mesh.region.edge 2), ?_⟩
    rw [newRegion_lo f R reg h a ha, corner_attains_neg R f.mesh a]
    unfold boxLo; ring

/-- the bounding box has default axis names and units (the code builds a fresh `Region`) -/
theorem bbox_metadata (f : Fld) (R : M3) (reg : Region) (h : newRegion f R = .ok reg) :
    reg.ndim = 3 ∧ reg.dims = ["x", "y", "z"] ∧ reg.units = ["m", "m", "m"] := by
  obtain ⟨h1, _, h3, h4, _⟩ := newRegion_ok_inv f R reg h
  exact ⟨by unfold Region.ndim; rw [h1]; simp, h3, h4⟩

/-- non-vacuity: the 3-4-5 rotation about z of the box [0,4]×[0,4]×[0,3] has the bounding box
[−4/5, 24/5]² × [0, 3] -/
example : exR.IsRot ∧ newRegion exF exR = .ok exReg := ⟨by decide +kernel, exNewRegion⟩

/-! ## multilinear interpolation (`RegularGridInterpolator`, linear, fill value 0) -/

/-- **trilinear_affine.** On any strictly increasing node grids, interpolating samples of an
affine function of the node coordinates returns that function at every point inside the
grid. -/
theorem trilinear_affine (g0 g1 g2 : Nat → Rat) (m0 m1 m2 : Nat)
    (hs0 : ∀ j, j ≤ m0 → g0 j < g0 (j + 1)) (hs1 : ∀ j, j ≤ m1 → g1 j < g1 (j + 1))
    (hs2 : ∀ j, j ≤ m2 → g2 j < g2 (j + 1))
    (α β0 β1 β2 : Rat) (V : Nat → Nat → Nat → Rat)
    (hV : ∀ i j k, i ≤ m0 + 1 → j ≤ m1 + 1 → k ≤ m2 + 1 → V i j k = α + β0 * g0 i + β1 * g1 j + β2 * g2 k)
    (p : V3) (h0 : inBounds g0 m0 p.x = true) (h1 : inBounds g1 m1 p.y = true) (h2 : inBounds g2 m2 p.z = true) :
    trilin g0 g1 g2 m0 m1 m2 V p = α + β0 * p.x + β1 * p.y + β2 * p.z := by
  unfold trilin
  rw [locate_some _ _ _ _ _ _ p h0 h1 h2]
  simp only [interpAt, frac]
  have l0 := findIdx_le g0 p.x m0
  have l1 := findIdx_le g1 p.y m1
  have l2 := findIdx_le g2 p.z m2
  apply sum8_affine
  · have := hs0 _ l0; intro e; linarith
  · have := hs1 _ l1; intro e; linarith
  · have := hs2 _ l2; intro e; linarith
  · intro e0 e1 e2 he0 he1 he2
    rw [hV _ _ _ (by omega) (by omega) (by omega)]
    have c0 : e0 = 0 ∨ e0 = 1 := by omega
    have c1 : e1 = 0 ∨ e1 = 1 := by omega
    have c2 : e2 = 0 ∨ e2 = 1 := by omega
    rcases c0 with c0 | c0 <;> rcases c1 with c1 | c1 <;> rcases c2 with c2 | c2 <;> subst c0 <;> subst c1 <;>
      subst c2 <;> simp

/-- The eight weights sum to one: constant data is reproduced everywhere inside the grid. -/
theorem trilinear_const (g0 g1 g2 : Nat → Rat) (m0 m1 m2 : Nat) (c : Rat) (p : V3)
    (h0 : inBounds g0 m0 p.x = true) (h1 : inBounds g1 m1 p.y = true) (h2 : inBounds g2 m2 p.z = true) :
    trilin g0 g1 g2 m0 m1 m2 (fun _ _ _ => c) p = c := by
  unfold trilin
  rw [locate_some _ _ _ _ _ _ p h0 h1 h2]
  simp only [interpAt]
  exact sum8_const _ _ _ c

/-- The interpolant is linear in the data (at every point, inside or outside). -/
theorem trilinear_linear (g0 g1 g2 : Nat → Rat) (m0 m1 m2 : Nat) (a b : Rat) (V W : Nat → Nat → Nat → Rat) (p : V3) :
    trilin g0 g1 g2 m0 m1 m2 (fun i j k => a * V i j k + b * W i j k) p
      = a * trilin g0 g1 g2 m0 m1 m2 V p + b * trilin g0 g1 g2 m0 m1 m2 W p := by
  unfold trilin
  exact interpAt_linear a b V W _

/-- A point outside the node grid on any axis gets the fill value 0. -/
theorem trilinear_outside_zero (g0 g1 g2 : Nat → Rat) (m0 m1 m2 : Nat) (V : Nat → Nat → Nat → Rat) (p : V3)
    (h : p.x < g0 0 ∨ g0 (m0 + 1) < p.x ∨ p.y < g1 0 ∨ g1 (m1 + 1) < p.y ∨ p.z < g2 0 ∨ g2 (m2 + 1) < p.z) :
    trilin g0 g1 g2 m0 m1 m2 V p = 0 := by
  unfold trilin
  rw [locate_none]
  · rfl
  · unfold inBounds
    rcases h with h | h | h | h | h | h
    · left; simp [not_le.mpr h]
    · left; simp [not_le.mpr h]
    · right; left; simp [not_le.mpr h]
    · right; left; simp [not_le.mpr h]
    · right; right; simp [not_le.mpr h]
    · right; right; simp [not_le.mpr h]

/-- At a node the interpolant is the stored sample (so target centres that fall on source
centres copy values, as the lattice rotation of C12 does). -/
theorem trilinear_node (g0 g1 g2 : Nat → Rat) (m0 m1 m2 : Nat)
    (hs0 : ∀ j, j ≤ m0 → g0 j < g0 (j + 1)) (hs1 : ∀ j, j ≤ m1 → g1 j < g1 (j + 1))
    (hs2 : ∀ j, j ≤ m2 → g2 j < g2 (j + 1))
    (V : Nat → Nat → Nat → Rat) (i j k : Nat) (hi : i ≤ m0) (hj : j ≤ m1) (hk : k ≤ m2)
    (p : V3) (hx : p.x = g0 i) (hy : p.y = g1 j) (hz : p.z = g2 k) :
    trilin g0 g1 g2 m0 m1 m2 V p = V i j k := by
  have b : ∀ (g : Nat → Rat) (m : Nat), (∀ j, j ≤ m → g j < g (j + 1)) → ∀ i, i ≤ m → inBounds g m (g i) = true := by
    intro g m hs i hi
    unfold inBounds
    have h1 : g 0 ≤ g i := by
      by_cases e : i = 0
      · subst e; exact le_refl _
      · exact (mono_of_step g m hs 0 i (by omega) (by omega)).le
    have h2 : g i ≤ g (m + 1) := (mono_of_step g m hs i (m + 1) (by omega) (by omega)).le
    simp [h1, h2]
  unfold trilin
  rw [locate_some _ _ _ _ _ _ p (by rw [hx]; exact b g0 m0 hs0 i hi) (by rw [hy]; exact b g1 m1 hs1 j hj)
    (by rw [hz]; exact b g2 m2 hs2 k hk)]
  rw [hx, hy, hz, findIdx_at_node g0 m0 hs0 i hi, findIdx_at_node g1 m1 hs1 j hj, findIdx_at_node g2 m2 hs2 k hk]
  have f0 : ∀ (g : Nat → Rat) (i : Nat), frac g i (g i) = 0 := by intro g i; unfold frac; simp
  rw [f0, f0, f0]
  simp only [interpAt]
  rw [sum8_zero]
  rfl

/-- non-vacuity: a strictly increasing grid with a padded layer, a point inside it -/
example : (∀ j, j ≤ 2 → (fun k : Nat => (k : Rat) * 3) j < (fun k : Nat => (k : Rat) * 3) (j + 1)) ∧
    inBounds (fun k : Nat => (k : Rat) * 3) 2 (7/2) = true := by
  constructor
  · intro j _; simp only; push_cast; linarith
  · unfold inBounds; norm_num

/-! ## the stored values (`_map_and_interpolate` + vector rotation) -/

/-- position handed to the interpolator for target cell `idx`, as an absolute coordinate -/
theorem backPos_spec (f : Fld) (R : M3) (hR : R.IsRot) (nm : Mesh) (idx : List Nat) :
    R.apply (backPos f R nm idx) = (V3.ofList (nm.centre idx)).sub (centreV f.mesh) := by
  unfold backPos
  exact hR.apply_tr_apply _

/-- **rot_general.** Every stored value is the rotation (through the component ↔ axis
permutation) applied to the multilinear interpolant of the ORIGINAL field at the back-rotated
cell centre: rotate-then-interpolate (the code) equals interpolate-then-rotate (the property). -/
theorem rot_general (f : Fld) (hf : WF f) (R : M3) (n? : Option (List Nat)) (g : Fld)
    (h : rotateOnce f R n? = .ok g) :
    ∃ ord, ordFor f = .ok ord ∧
      ∀ idx, g.data.get idx = rotVal f.nvdim R ord (origAt f (backPos f R g.mesh idx)) := by
  obtain ⟨reg, nm, ord, _, _, ho, hg⟩ := rotateOnce_ok_inv f R n? g h
  subst hg
  refine ⟨ord, ho, ?_⟩
  intro idx
  rw [rotated_data]
  apply valuesAt_eq_rot_origAt
  rcases hf.2 with h1 | ⟨h3, hl⟩
  · exact Or.inl h1
  · right
    refine ⟨h3, ?_⟩
    intro a ha
    have := ordFor_lt f ord ho (by omega) a ha
    omega

/-- non-vacuity: a scalar field and a vector field with permuted mapping are rotated -/
example : WF exF ∧ rotateOnce exF exR (some [5, 5, 3]) = .ok (rotated exF exR [] exNM) := ⟨exWF, exRot⟩
example : WF exV ∧ rotateOnce exV exR (some [5, 5, 3]) = .ok (rotated exV exR [1, 0, 2] exNM) := ⟨exWFV, exRotV⟩

/-- **rot_general, interior form.** If the back-rotated centre lies between the centres of
cells `k` and `k+1` on every axis, the interpolant is the eight-cell trilinear formula with
weights from the normalised offsets — "the linear interpolation of the original at that
position". -/
theorem rot_interpolates_cells (f : Fld) (hf : WF f) (R : M3) (n? : Option (List Nat)) (g : Fld)
    (h : rotateOnce f R n? = .ok g) (idx : List Nat) (k0 k1 k2 : Nat)
    (h0 : Between f.mesh 0 k0 (backPos f R g.mesh idx).x) (h1 : Between f.mesh 1 k1 (backPos f R g.mesh idx).y)
    (h2 : Between f.mesh 2 k2 (backPos f R g.mesh idx).z) :
    ∃ ord, ordFor f = .ok ord ∧
      g.data.get idx = rotVal f.nvdim R ord (tab f.nvdim fun c =>
        cellInterp f c k0 k1 k2
          (((backPos f R g.mesh idx).x - centreRel f.mesh 0 k0) / f.mesh.cellAt 0)
          (((backPos f R g.mesh idx).y - centreRel f.mesh 1 k1) / f.mesh.cellAt 1)
          (((backPos f R g.mesh idx).z - centreRel f.mesh 2 k2) / f.mesh.cellAt 2)) := by
  obtain ⟨ord, ho, hv⟩ := rot_general f hf R n? g h
  refine ⟨ord, ho, ?_⟩
  rw [hv idx]
  congr 1
  apply eq_tab_of_getD _ _ _ 0 (origAt_length f _)
  intro c hc
  exact origAt_between f hf.1 _ k0 k1 k2 h0 h1 h2 c hc

example : Between exF.mesh 0 1 (backPos exF exR exNM [2, 2, 1]).x ∧ Between exF.mesh 1 1 (backPos exF exR exNM [2, 2, 1]).y ∧
    Between exF.mesh 2 1 (backPos exF exR exNM [2, 2, 1]).z := by unfold Between; decide +kernel

/-- a back-rotated centre at least one cell inside the original region (the property's
hypothesis) lies between two neighbouring cell centres on that axis -/
theorem one_cell_inside_between (m : Mesh) (a : Nat) (h : AxOk m a) (x : Rat)
    (h1 : m.region.lo a + m.cellAt a ≤ x + centreAt m a) (h2 : x + centreAt m a ≤ m.region.hi a - m.cellAt a) :
    ∃ k, Between m a k x :=
  between_of_deep m a h x (deep_of_one_cell_inside m a h x h1 h2)

/-- **the property's central sentence.** A cell whose back-rotated centre lies at least one
cell inside the original region (on every axis) carries `Q` applied to the linear
interpolation of the original between the eight cell centres that surround that position. -/
theorem rot_inside_value (f : Fld) (hf : WF f) (R : M3) (n? : Option (List Nat)) (g : Fld)
    (h : rotateOnce f R n? = .ok g) (idx : List Nat)
    (hin : ∀ a, a < 3 →
      f.mesh.region.lo a + f.mesh.cellAt a ≤ (backPos f R g.mesh idx).get a + centreAt f.mesh a ∧
      (backPos f R g.mesh idx).get a + centreAt f.mesh a ≤ f.mesh.region.hi a - f.mesh.cellAt a) :
    ∃ ord k0 k1 k2, ordFor f = .ok ord ∧
      Between f.mesh 0 k0 (backPos f R g.mesh idx).x ∧ Between f.mesh 1 k1 (backPos f R g.mesh idx).y ∧
      Between f.mesh 2 k2 (backPos f R g.mesh idx).z ∧
      g.data.get idx = rotVal f.nvdim R ord (tab f.nvdim fun c =>
        cellInterp f c k0 k1 k2
          (((backPos f R g.mesh idx).x - centreRel f.mesh 0 k0) / f.mesh.cellAt 0)
          (((backPos f R g.mesh idx).y - centreRel f.mesh 1 k1) / f.mesh.cellAt 1)
          (((backPos f R g.mesh idx).z - centreRel f.mesh 2 k2) / f.mesh.cellAt 2)) := by
  obtain ⟨k0, b0⟩ := one_cell_inside_between f.mesh 0 (hf.1 0 (by omega)) _ (hin 0 (by omega)).1 (hin 0 (by omega)).2
  obtain ⟨k1, b1⟩ := one_cell_inside_between f.mesh 1 (hf.1 1 (by omega)) _ (hin 1 (by omega)).1 (hin 1 (by omega)).2
  obtain ⟨k2, b2⟩ := one_cell_inside_between f.mesh 2 (hf.1 2 (by omega)) _ (hin 2 (by omega)).1 (hin 2 (by omega)).2
  obtain ⟨ord, ho, hv⟩ := rot_interpolates_cells f hf R n? g h idx k0 k1 k2 b0 b1 b2
  exact ⟨ord, k0, k1, k2, ho, b0, b1, b2, hv⟩

/-- instance: the hypothesis holds for the central target cell of the example -/
example : ∀ a, a < 3 →
    exF.mesh.region.lo a + exF.mesh.cellAt a ≤ (backPos exF exR exNM [2, 2, 1]).get a + centreAt exF.mesh a ∧
    (backPos exF exR exNM [2, 2, 1]).get a + centreAt exF.mesh a ≤ exF.mesh.region.hi a - exF.mesh.cellAt a := by
  decide +kernel

/-- **rot_linear_scalar** (and its vector form). If component `c` of the original data is an
affine function of position, the interpolant of that component at a back-rotated centre at
least half a cell inside is that affine function of the back-rotated position; for a scalar
field this is the stored value: linear scalar fields are reproduced exactly. -/
theorem rot_linear_scalar (f : Fld) (hf : WF f) (h1 : f.nvdim = 1) (α β0 β1 β2 : Rat)
    (hdata : ∀ i j k, i < f.mesh.nAt 0 → j < f.mesh.nAt 1 → k < f.mesh.nAt 2 →
      f.data.get [i, j, k] = [α + β0 * centreAbs f.mesh 0 i + β1 * centreAbs f.mesh 1 j + β2 * centreAbs f.mesh 2 k])
    (R : M3) (n? : Option (List Nat)) (g : Fld) (h : rotateOnce f R n? = .ok g) (idx : List Nat)
    (d0 : Deep f.mesh 0 (backPos f R g.mesh idx).x) (d1 : Deep f.mesh 1 (backPos f R g.mesh idx).y)
    (d2 : Deep f.mesh 2 (backPos f R g.mesh idx).z) :
    g.data.get idx = [α + β0 * ((backPos f R g.mesh idx).x + centreAt f.mesh 0)
      + β1 * ((backPos f R g.mesh idx).y + centreAt f.mesh 1) + β2 * ((backPos f R g.mesh idx).z + centreAt f.mesh 2)] := by
  obtain ⟨ord, _, hv⟩ := rot_general f hf R n? g h
  rw [hv idx]
  unfold rotVal
  rw [if_pos h1]
  have hl := origAt_length f (backPos f R g.mesh idx)
  rw [h1] at hl
  have hc := origAt_affine f hf.1 0 (by omega) α β0 β1 β2
    (by intro i j k hi hj hk; rw [hdata i j k hi hj hk]; rfl) _ d0 d1 d2
  match hO : origAt f (backPos f R g.mesh idx), hl with
  | [v], _ =>
    rw [hO] at hc
    simp only [List.getD_cons_zero] at hc
    rw [hc]

/-- instance: `1 + 2x − 3y + 5z` rotated about z; the target cell at the common centre reads
`1 + 2·2 − 3·2 + 5·3/2 = 13/2` -/
example : (rotated exF exR [] exNM).data.get [2, 2, 1] = [13/2] := by
  have h := rot_linear_scalar exF exWF rfl 1 2 (-3) 5 (by intro i j k _ _ _; rfl) exR (some [5, 5, 3]) _ exRot [2, 2, 1]
    (by unfold Deep; decide +kernel) (by unfold Deep; decide +kernel) (by unfold Deep; decide +kernel)
  rw [h]
  decide +kernel

/-- affine vector fields: the stored vector is the rotation of the affine function's value at
the back-rotated position (same hypotheses per component) -/
theorem rot_affine_vector (f : Fld) (hf : WF f) (α β0 β1 β2 : Nat → Rat)
    (hdata : ∀ c, c < f.nvdim → ∀ i j k, i < f.mesh.nAt 0 → j < f.mesh.nAt 1 → k < f.mesh.nAt 2 →
      (f.data.get [i, j, k]).getD c 0
        = α c + β0 c * centreAbs f.mesh 0 i + β1 c * centreAbs f.mesh 1 j + β2 c * centreAbs f.mesh 2 k)
    (R : M3) (n? : Option (List Nat)) (g : Fld) (h : rotateOnce f R n? = .ok g) (idx : List Nat)
    (d0 : Deep f.mesh 0 (backPos f R g.mesh idx).x) (d1 : Deep f.mesh 1 (backPos f R g.mesh idx).y)
    (d2 : Deep f.mesh 2 (backPos f R g.mesh idx).z) :
    ∃ ord, ordFor f = .ok ord ∧
      g.data.get idx = rotVal f.nvdim R ord (tab f.nvdim fun c =>
        α c + β0 c * ((backPos f R g.mesh idx).x + centreAt f.mesh 0)
          + β1 c * ((backPos f R g.mesh idx).y + centreAt f.mesh 1) + β2 c * ((backPos f R g.mesh idx).z + centreAt f.mesh 2)) := by
  obtain ⟨ord, ho, hv⟩ := rot_general f hf R n? g h
  refine ⟨ord, ho, ?_⟩
  rw [hv idx]
  congr 1
  apply eq_tab_of_getD _ _ _ 0 (origAt_length f _)
  intro c hc
  exact origAt_affine f hf.1 c hc (α c) (β0 c) (β1 c) (β2 c) (hdata c hc) _ d0 d1 d2

/-- **rot_uniform.** A uniform field `v` becomes the uniform field `Q·v` (through the
permutation) at every target cell whose back-rotated centre passes the bounds test — in
particular everywhere at least one cell inside. -/
theorem rot_uniform (f : Fld) (hf : WF f) (v : List Rat) (hvl : v.length = f.nvdim)
    (hdata : ∀ i j k, i < f.mesh.nAt 0 → j < f.mesh.nAt 1 → k < f.mesh.nAt 2 → f.data.get [i, j, k] = v)
    (R : M3) (n? : Option (List Nat)) (g : Fld) (h : rotateOnce f R n? = .ok g) (idx : List Nat)
    (hin : InPad f (backPos f R g.mesh idx)) :
    ∃ ord, ordFor f = .ok ord ∧ g.data.get idx = rotVal f.nvdim R ord v := by
  obtain ⟨ord, ho, hv⟩ := rot_general f hf R n? g h
  refine ⟨ord, ho, ?_⟩
  rw [hv idx]
  congr 1
  have : v = tab f.nvdim fun c => v.getD c 0 := eq_tab_of_getD v _ _ 0 hvl (fun _ _ => rfl)
  rw [this]
  apply eq_tab_of_getD _ _ _ 0 (origAt_length f _)
  intro c hc
  exact origAt_uniform f hf.1 c hc (v.getD c 0) (by intro i j k hi hj hk; rw [hdata i j k hi hj hk]) _ hin

/-- instance: the uniform field `(7, −2, 3)` with labels mapped to `(y, x, z)` becomes `Q·v`
read through the same permutation -/
example : (rotated exV exR [1, 0, 2] exNM).data.get [2, 2, 1] = [13/5, -34/5, 3] := by
  obtain ⟨ord, ho, h⟩ := rot_uniform exV exWFV [7, -2, 3] rfl (by intro i j k _ _ _; rfl) exR (some [5, 5, 3]) _ exRotV [2, 2, 1]
    (by unfold InPad; decide +kernel)
  rw [exOrdV] at ho
  injection ho with ho
  subst ho
  rw [h]
  decide +kernel

/-- **rot_outside_zero.** A target cell whose back-rotated centre lies outside the original
region (by more than the `1e-9`-cell padding, on some axis) stores zero in every component. -/
theorem rot_outside_zero (f : Fld) (R : M3) (n? : Option (List Nat)) (g : Fld)
    (h : rotateOnce f R n? = .ok g) (idx : List Nat) (a : Nat) (ha : a < 3)
    (hout : (backPos f R g.mesh idx).get a + centreAt f.mesh a < f.mesh.region.lo a - f.mesh.cellAt a * tolI ∨
            f.mesh.region.hi a + f.mesh.cellAt a * tolI < (backPos f R g.mesh idx).get a + centreAt f.mesh a) :
    g.data.get idx = tab f.nvdim fun _ => 0 := by
  obtain ⟨reg, nm, ord, _, _, _, hg⟩ := rotateOnce_ok_inv f R n? g h
  subst hg
  rw [rotated_data]
  exact valuesAt_outside f R ord _ (outside_not_inPad f _ a ha hout)

/-- instance: the corner cell of the bounding box looks back at a point outside the original -/
example : (backPos exF exR exNM [0, 0, 0]).get 0 + centreAt exF.mesh 0 < exF.mesh.region.lo 0 - exF.mesh.cellAt 0 * tolI := by
  decide +kernel
example : (rotated exF exR [] exNM).data.get [0, 0, 0] = [0] :=
  rot_outside_zero exF exR (some [5, 5, 3]) _ exRot [0, 0, 0] 0 (by omega) (Or.inl (by decide +kernel))

/-- geometry and metadata of the stored field: bounding-box region, the requested cell
counts, everything valid, component count / labels / mapping of the original, no unit -/
theorem rot_metadata (f : Fld) (R : M3) (n : List Nat) (g : Fld) (h : rotateOnce f R (some n) = .ok g) :
    newRegion f R = .ok g.mesh.region ∧ g.mesh.n = n ∧ g.mesh.subs = [] ∧ g.data.shape = n ∧ g.valid.get = (fun _ => true) ∧
    g.nvdim = f.nvdim ∧ g.vdims = f.vdims ∧ g.vmap = f.vmap ∧ g.unit = none := by
  obtain ⟨reg, nm, ord, hr, hm, _, hg⟩ := rotateOnce_ok_inv f R (some n) g h
  subst hg
  obtain ⟨e1, e2, _, _, e5⟩ := mkN?_ok_inv reg _ nm hm
  simp only [Option.getD_some] at e2
  refine ⟨by rw [hr]; simp [rotated, e1], ?_, ?_, ?_, rfl, rfl, rfl, rfl, rfl⟩
  · exact e2
  · exact e5
  · exact e2

/-! ## quarter turns on cubic cells coincide with the lattice rotation of C12 -/

/-- **rot_quarter_is_rot90** (quarter turn about the third axis, `k = 1`). If the cells are
square in the rotated plane and the two cell counts are swapped, the region is the original
one with the two edge lengths swapped about the same centre, every target centre is rotated
back onto a source centre, and the stored value is the rotated vector of the cell that
`np.rot90(array, 1, axes=(0, 1))` — the array map of C12's `Field.rotate90` — puts there. -/
theorem rot_quarter_is_rot90 (f : Fld) (hf : WF f) (hc : f.mesh.cellAt 0 = f.mesh.cellAt 1)
    (hs : f.data.shape = [f.mesh.nAt 0, f.mesh.nAt 1, f.mesh.nAt 2])
    (hlen : ∀ idx, (f.data.get idx).length = f.nvdim)
    (g : Fld) (h : rotateOnce f Rz (some [f.mesh.nAt 1, f.mesh.nAt 0, f.mesh.nAt 2]) = .ok g) :
    (g.mesh.region.lo 0 = centreAt f.mesh 0 - f.mesh.region.edge 1 / 2 ∧
     g.mesh.region.hi 0 = centreAt f.mesh 0 + f.mesh.region.edge 1 / 2 ∧
     g.mesh.region.lo 1 = centreAt f.mesh 1 - f.mesh.region.edge 0 / 2 ∧
     g.mesh.region.hi 1 = centreAt f.mesh 1 + f.mesh.region.edge 0 / 2 ∧
     g.mesh.region.lo 2 = f.mesh.region.lo 2 ∧ g.mesh.region.hi 2 = f.mesh.region.hi 2) ∧
    ∃ ord, ordFor f = .ok ord ∧
      ∀ i j k, i < f.mesh.nAt 1 → j < f.mesh.nAt 0 → k < f.mesh.nAt 2 →
        g.data.get [i, j, k] = rotVal f.nvdim Rz ord ((T.rot90 f.data 0 1 1).get [i, j, k]) := by
  obtain ⟨reg, nm, ord, hreg, hmk, ho, hg⟩ := rotateOnce_ok_inv f Rz _ g h
  subst hg
  obtain ⟨e1, e2, _, _, _⟩ := mkN?_ok_inv reg _ nm hmk
  simp only [Option.getD_some] at e2
  have hq := quarter_region f hf.1 reg hreg
  rw [← e1] at hq
  refine ⟨hq, ord, ho, ?_⟩
  intro i j k hi hj hk
  rw [rotated_data, rot90_get f.data _ _ _ hs]
  have hv : f.nvdim = 1 ∨ (f.nvdim = 3 ∧ ∀ a, a < 3 → ord.getD a 0 < 3) := by
    rcases hf.2 with h1 | ⟨h3, hl⟩
    · exact Or.inl h1
    · right
      refine ⟨h3, ?_⟩
      intro a ha
      have := ordFor_lt f ord ho (by omega) a ha
      omega
  rw [valuesAt_eq_rot_origAt f Rz ord _ hv, quarter_backPos f hf.1 hc reg hreg nm e1 e2 i j k hi]
  congr 1
  have hd : f.data.get [j, f.mesh.nAt 1 - 1 - i, k]
      = tab f.nvdim fun c => (f.data.get [j, f.mesh.nAt 1 - 1 - i, k]).getD c 0 :=
    eq_tab_of_getD _ _ _ 0 (hlen _) (fun _ _ => rfl)
  rw [hd]
  apply eq_tab_of_getD _ _ _ 0 (origAt_length f _)
  intro c hcn
  exact origAt_centre f hf.1 j (f.mesh.nAt 1 - 1 - i) k hj (by omega) hk c hcn _ rfl rfl rfl

/-- … and for a 3-vector field whose components are mapped one-to-one to the axes the
rotation of a cell value by the quarter turn is C12's `rotVec` with `k = 1` on the two
mapped components. -/
theorem quarter_vector_is_rotVec (ord : List Nat) (v : List Rat) (hv : v.length = 3)
    (h0 : ord.getD 0 0 < 3) (h1 : ord.getD 1 0 < 3) (h2 : ord.getD 2 0 < 3)
    (d01 : ord.getD 0 0 ≠ ord.getD 1 0) (d02 : ord.getD 0 0 ≠ ord.getD 2 0) (d12 : ord.getD 1 0 ≠ ord.getD 2 0) :
    rotVal 3 Rz ord v = T.rotVec v (ord.getD 0 0) (ord.getD 1 0) 1 :=
  rotVal_Rz ord v hv h0 h1 h2 d01 d02 d12

/-- non-vacuity: the example fields have square cells in the x–y plane and are quarter-turned -/
example : Rz.IsRot ∧ exF.mesh.cellAt 0 = exF.mesh.cellAt 1 ∧
    isOk (rotateOnce exF Rz (some [exF.mesh.nAt 1, exF.mesh.nAt 0, exF.mesh.nAt 2])) = true ∧
    isOk (rotateOnce exV Rz (some [exV.mesh.nAt 1, exV.mesh.nAt 0, exV.mesh.nAt 2])) = true := by decide +kernel

/-! ## the state machine: composition, clear -/

/-- **accumulated rotation.** After ANY history of `rotate` / `clear_rotation` calls (failed
calls included) the accumulated rotation is the ordered matrix product — later rotations on
the left — of the rotations issued since the last clear, and the original field is untouched. -/
theorem accumulated_rotation (f : Fld) (s0 : Rotator) (h0 : init? f = .ok s0) (ops : List Op) :
    (run s0 ops).rot = prodL (seg [] ops) ∧ (run s0 ops).orig = f := by
  have hs := init?_ok_inv f s0 h0
  subst hs
  exact ⟨run_rot _ [] rfl ops, run_orig _ ops⟩

/-- **rot_compose.** `rotate Q₁; rotate Q₂` gives the same accumulated rotation, the same
success/failure and (on success) the same field as the single call `rotate (Q₂·Q₁)` with the
same `n` — whatever the first call's `n` was and whether or not it succeeded: the second
rotation restarts from the original field. -/
theorem rot_compose (s : Rotator) (Q1 Q2 : M3) (n1 n : Option (List Nat)) :
    (step (step s (.rotate Q1 n1)).1 (.rotate Q2 n)).1.rot = (step s (.rotate (Q2.mul Q1) n)).1.rot ∧
    (step (step s (.rotate Q1 n1)).1 (.rotate Q2 n)).2 = (step s (.rotate (Q2.mul Q1) n)).2 ∧
    ((step s (.rotate (Q2.mul Q1) n)).2 = none →
      (step (step s (.rotate Q1 n1)).1 (.rotate Q2 n)).1.cur = (step s (.rotate (Q2.mul Q1) n)).1.cur) := by
  have ho : (step s (.rotate Q1 n1)).1.orig = s.orig := step_orig s _
  have hr : (step s (.rotate Q1 n1)).1.rot = Q1.mul s.rot := step_rotate_rot s Q1 n1
  have hm : Q2.mul (Q1.mul s.rot) = (Q2.mul Q1).mul s.rot := (M3.mul_assoc _ _ _).symm
  cases hres : rotateOnce s.orig ((Q2.mul Q1).mul s.rot) n with
  | ok g =>
    have h2 : rotateOnce (step s (.rotate Q1 n1)).1.orig (Q2.mul (step s (.rotate Q1 n1)).1.rot) n = .ok g := by
      rw [ho, hr, hm]; exact hres
    rw [step_rotate_ok _ Q2 n g h2, step_rotate_ok s _ n g hres, hr, hm]
    exact ⟨rfl, rfl, fun _ => rfl⟩
  | error e =>
    have h2 : rotateOnce (step s (.rotate Q1 n1)).1.orig (Q2.mul (step s (.rotate Q1 n1)).1.rot) n = .error e := by
      rw [ho, hr, hm]; exact hres
    rw [step_rotate_err _ Q2 n e h2, step_rotate_err s _ n e hres, hr, hm]
    exact ⟨rfl, rfl, fun h => by cases h⟩

/-- **history = single rotation.** After any history `ops`, a further `rotate Q n` leaves the
rotator in the state a FRESH rotator reaches by the single rotation with the ordered product
`Q · (Q_k ⋯ Q_1)` of the rotations since the last clear, applied to the original field: same
accumulated matrix, same field on success; on failure the current field is kept. -/
theorem history_eq_single (f : Fld) (s0 : Rotator) (h0 : init? f = .ok s0) (ops : List Op) (Q : M3)
    (n? : Option (List Nat)) :
    (run s0 (ops ++ [.rotate Q n?])).rot = Q.mul (prodL (seg [] ops)) ∧
    (∀ g, rotateOnce f (Q.mul (prodL (seg [] ops))) n? = .ok g → (run s0 (ops ++ [.rotate Q n?])).cur = g) ∧
    (∀ e, rotateOnce f (Q.mul (prodL (seg [] ops))) n? = .error e →
      (run s0 (ops ++ [.rotate Q n?])).cur = (run s0 ops).cur) := by
  obtain ⟨hr, ho⟩ := accumulated_rotation f s0 h0 ops
  rw [run_append]
  simp only [run]
  refine ⟨by rw [step_rotate_rot, hr], ?_, ?_⟩
  · intro g hg
    rw [step_rotate_ok _ Q n? g (by rw [ho, hr]; exact hg)]
  · intro e he
    rw [step_rotate_err _ Q n? e (by rw [ho, hr]; exact he)]

/-- **rot_clear.** `clear_rotation` after any history restores the original field and the
identity rotation; a fresh rotator shows the original field. -/
theorem rot_clear (f : Fld) (s0 : Rotator) (h0 : init? f = .ok s0) (ops : List Op) :
    s0.cur = f ∧ (run s0 (ops ++ [.clear])).cur = f ∧ (run s0 (ops ++ [.clear])).rot = M3.one := by
  obtain ⟨_, ho⟩ := accumulated_rotation f s0 h0 ops
  have hs := init?_ok_inv f s0 h0
  refine ⟨by rw [hs], ?_, ?_⟩
  · rw [run_append]; simp only [run, step]; exact ho
  · rw [run_append]; simp only [run, step]

/-- the accumulated matrix stays a proper rotation along any history of proper rotations -/
theorem accumulated_is_rotation (s : Rotator) (hs : s.rot.IsRot) (ops : List Op)
    (hops : ∀ Q n, Op.rotate Q n ∈ ops → Q.IsRot) : (run s ops).rot.IsRot := by
  induction ops generalizing s with
  | nil => exact hs
  | cons op ops ih =>
    simp only [run]
    apply ih
    · cases op with
      | rotate Q n => rw [step_rotate_rot]; exact (hops Q n (by simp)).mul hs
      | clear => exact M3.isRot_one
    · intro Q n hm; exact hops Q n (by simp [hm])

/-- instance: rotate, clear, rotate twice — the accumulated matrix is the product of the last two -/
example : ∃ s0, init? exF = .ok s0 ∧
    (run s0 [.rotate exR2 none, .clear, .rotate exR2 (some [3, 3, 3]), .rotate exR none]).rot = exR.mul exR2 := by
  obtain ⟨s0, h0⟩ := isOk_sound (init? exF) (by decide +kernel)
  refine ⟨s0, h0, ?_⟩
  rw [(accumulated_rotation exF s0 h0 _).1]
  decide +kernel

/-! ## refusals -/

/-- **rot_refusals.** The constructor refuses fields that are neither scalar nor 3-vector,
meshes that are not three-dimensional, and vector fields with a component label that has no
spatial axis (missing from the mapping, or mapped to something that is not an axis). -/
theorem rot_refusals (f : Fld) :
    (f.nvdim ≠ 1 → f.nvdim ≠ 3 → init? f = .error .value) ∧
    (f.mesh.region.ndim ≠ 3 → init? f = .error .value) ∧
    (f.nvdim = 3 → ∀ v, v ∈ f.vdims.getD [] →
      (Fld.lookup f.vmap v = none ∨ ∃ d, Fld.lookup f.vmap v = some d ∧ f.mesh.region.dims.contains d = false) →
      init? f = .error .value) := by
  refine ⟨?_, ?_, ?_⟩
  · intro h1 h3
    unfold init?
    rw [if_pos ⟨h1, h3⟩]
  · intro hn
    unfold init?
    split
    · rfl
    · rfl
  · intro h3 v hv hbad
    unfold init?
    rw [if_neg (by omega)]
    split
    · rfl
    · rw [if_pos]
      simp only [Bool.and_eq_true, decide_eq_true_eq, Bool.not_eq_true']
      refine ⟨by omega, ?_⟩
      rw [List.all_eq_false]
      refine ⟨v, hv, ?_⟩
      rcases hbad with hb | ⟨d, hd, hc⟩
      · rw [hb]; simp
      · rw [hd]
        simp only [Bool.not_eq_true] at hc ⊢
        exact hc

/-- A vector field with a spatial axis no component is mapped to (e.g. a non-injective
mapping, which the constructor lets through) is refused by every `rotate`: the call fails,
the current field stays what it was. -/
theorem unmapped_axis_refused (s : Rotator) (Q : M3) (n? : Option (List Nat)) (h1 : s.orig.nvdim ≠ 1)
    (a : Nat) (ha : a < 3) (hu : ordAt s.orig a = none) :
    (step s (.rotate Q n?)).2 ≠ none ∧ (step s (.rotate Q n?)).1.cur = s.cur := by
  have hord : ∃ e, ordFor s.orig = .error e := by
    unfold ordFor
    rw [if_neg h1]
    have : a = 0 ∨ a = 1 ∨ a = 2 := by omega
    rcases this with e | e | e <;> subst e <;> rw [hu]
    · exact ⟨_, rfl⟩
    · cases ordAt s.orig 0 <;> exact ⟨_, rfl⟩
    · cases ordAt s.orig 0 <;> cases ordAt s.orig 1 <;> exact ⟨_, rfl⟩
  obtain ⟨e, he⟩ := hord
  have hro : ∃ e', rotateOnce s.orig (Q.mul s.rot) n? = .error e' := by
    unfold rotateOnce
    cases newRegion s.orig (Q.mul s.rot) with
    | error e1 => exact ⟨e1, rfl⟩
    | ok reg =>
      simp only
      cases Mesh.mkN? reg (n?.getD (autoN s.orig (Q.mul s.rot) reg)) with
      | error e2 => exact ⟨e2, rfl⟩
      | ok nm => simp only [he]; exact ⟨e, rfl⟩
  obtain ⟨e', he'⟩ := hro
  rw [step_rotate_err s Q n? e' he']
  exact ⟨by simp, rfl⟩

/-- instances: a 2-component field is refused; with the non-injective mapping
`p ↦ x, q ↦ x, r ↦ z` no component belongs to the `y` axis -/
example : init? { exF with nvdim := 2 } = .error .value := (rot_refusals _).1 (by decide) (by decide)
example : ordAt { exV with vmap := [("p", "x"), ("q", "x"), ("r", "z")] } 1 = none := by decide +kernel
example : isOk (init? exV) = true ∧ isOk (init? { exV with vmap := [("p", "x"), ("q", "x"), ("r", "z")] }) = true := by
  decide +kernel

/-! ## automatic cell counts (`_calculate_new_n`) -/

/-- **roundCbrt_spec.** The integer the model returns for the rounded cube root is the
nearest integer to the real cube root: `(k − ½)³ ≤ q < (k + ½)³`, and it is the only one. -/
theorem roundCbrt_spec (q : Rat) (hq : 0 ≤ q) :
    ((1 ≤ roundCbrt q → cube ((roundCbrt q : Rat) - 1/2) ≤ q) ∧ q < cube ((roundCbrt q : Rat) + 1/2)) ∧
    (∀ k : Nat, (1 ≤ k → cube ((k : Rat) - 1/2) ≤ q) → q < cube ((k : Rat) + 1/2) → roundCbrt q = k) :=
  ⟨roundCbrt_bounds q hq, fun k h1 h2 => roundCbrt_unique q hq k h1 h2⟩

/-- perfect cubes: a rotation that maps the lattice onto itself keeps the cell counts -/
theorem roundCbrt_cube (k : Nat) : roundCbrt (cube (k : Rat)) = k := by
  have hk : (0 : Rat) ≤ (k : Rat) := Nat.cast_nonneg k
  apply roundCbrt_unique _ (by unfold cube; positivity) k
  · intro h1
    have : (1 : Rat) ≤ (k : Rat) := by exact_mod_cast h1
    exact cube_mono _ _ (by linarith) (by linarith)
  · exact cube_strict _ _ hk (by linarith)

example : roundCbrt (cube 4) = 4 := by
  have := roundCbrt_cube 4
  simpa using this

end DFV.C18
