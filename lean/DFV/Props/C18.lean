import DFV.Lemmas.C18Values
import DFV.Lemmas.C18Cbrt
import DFV.Lemmas.C18State
import DFV.Lemmas.C18Examples
import DFV.Lemmas.C18Quarter
import DFV.Lemmas.C18Algebra
import DFV.Lemmas.C18AutoN
import DFV.Lemmas.C18QuarterObj
import DFV.Lemmas.C18Align
import DFV.Lemmas.C18LatComp
import DFV.Lemmas.C18Rat
import DFV.Lemmas.C18Iff
import DFV.Lemmas.C18Clamp
import DFV.Lemmas.C18Scale
import DFV.Lemmas.C18Examples2
import DFV.Lemmas.C18More
import DFV.Lemmas.C18Chain
/-!
# C18 — arbitrary rotations rotate the vectors and resample the positions consistently

Property theorems about the executable model `DFV/Model/C18.lean` of `FieldRotator`
(helper lemmas live in `DFV/Lemmas/C18*.lean`).  Rotations are rational 3×3 matrices;
all statements hold for every field, every mesh size, every matrix / history / target
cell, in exact rational arithmetic.
-/
namespace DFV.C18
open DFV

/-! ## rotations -/

/-- Every non-zero rational quaternion yields a proper rotation with rational entries: the
exact regime of the correspondence run is dense in SO(3). -/
theorem quat_is_rotation (w x y z : Rat) (h : w*w + x*x + y*y + z*z ≠ 0) : (M3.ofQuat w x y z).IsRot :=
  M3.ofQuat_isRot w x y z h

example : (M3.ofQuat 2 1 (-2) 3).IsRot := quat_is_rotation _ _ _ _ (by norm_num)

/-- For a rotation the transpose (what the model uses for scipy's `Rotation.inv`) is the
two-sided inverse, and scalar products (lengths, angles) are preserved. -/
theorem transpose_is_inverse (Q : M3) (h : Q.IsRot) (u v : V3) :
    Q.apply (Q.tr.apply v) = v ∧ Q.tr.apply (Q.apply v) = v ∧ (Q.apply u).dot (Q.apply v) = u.dot v :=
  ⟨h.apply_tr_apply v, h.tr_apply_apply v, h.dot_apply u v⟩

/-- **modified Rodrigues parameters** (`from_mrp`): EVERY rational parameter vector gives a proper
rotation with rational entries (no exceptional vectors); `p = 0` is the identity and `−p` the
inverse rotation. -/
theorem mrp_is_rotation (p : V3) :
    (M3.ofMrp p).IsRot ∧ M3.ofMrp ⟨0, 0, 0⟩ = M3.one ∧ M3.ofMrp ⟨-p.x, -p.y, -p.z⟩ = (M3.ofMrp p).tr :=
  ⟨ofMrp_isRot p, ofMrp_zero, ofMrp_neg p⟩

/-- **vector alignment** (`rotate("align_vector", initial=i, final=f)`, with
`fixed = np.cross(i, f)`): for vectors of equal length that are not parallel the model's matrix
is a proper rotation that takes `initial` to `final` and keeps their cross product fixed — "the
cross product defines the rotation vector" — and swapping the two gives the inverse rotation. -/
theorem align_vector_spec (i f : V3) (hlen : i.dot i = f.dot f) (hv : i.cross f ≠ ⟨0, 0, 0⟩) :
    (M3.ofAlign i f).IsRot ∧ (M3.ofAlign i f).apply i = f ∧ (M3.ofAlign i f).apply (i.cross f) = i.cross f ∧
    M3.ofAlign f i = (M3.ofAlign i f).tr :=
  ⟨(ofAlign_spec i f hlen hv).1, (ofAlign_spec i f hlen hv).2.1, (ofAlign_spec i f hlen hv).2.2, ofAlign_swap i f hlen⟩

example : (⟨1, 2, 2⟩ : V3).dot ⟨1, 2, 2⟩ = (⟨3, 0, 0⟩ : V3).dot ⟨3, 0, 0⟩ ∧ (⟨1, 2, 2⟩ : V3).cross ⟨3, 0, 0⟩ ≠ ⟨0, 0, 0⟩ := by
  decide +kernel

/-- **Euler sequences of quarter-turn angles** (`from_euler` with angles `k·π/2`, any length, any
axes): always a proper rotation; an intrinsic (upper-case) sequence is the reversed extrinsic
(lower-case) one; and the extrinsic sequence is the ordered product — later rotations on the
left — that a history of `rotate` calls with the single axis rotations accumulates. -/
theorem euler_quarter_sequences (intr : Bool) (seq : List (Nat × Int)) :
    (eulerQ intr seq).IsRot ∧ eulerQ true seq = eulerQ false seq.reverse ∧
    eulerQ false seq = prodL (seq.map fun x => Raxis x.1 x.2) :=
  ⟨eulerQ_isRot intr seq, eulerQ_intrinsic_reverse seq, eulerQ_extrinsic_prodL seq⟩

/-- `from_euler("zyx", [π/2, π, −π/2])` vs `from_euler("ZYX", …)`: different rotations -/
example : eulerQ false [(2, 1), (1, 2), (0, -1)] ≠ eulerQ true [(2, 1), (1, 2), (0, -1)] := by decide +kernel

/-! ## the bounding box (`_calculate_new_region`) -/

/-- `centre + cornerRel` enumerates the eight corners of the original region. -/
theorem corner_of_region (m : Mesh) (s0 s1 s2 : Bool) (a : Nat) (ha : a < 3) :
    centreAt m a + (cornerRel m s0 s1 s2).get a
      = if (match a with | 0 => s0 | 1 => s1 | _ => s2) then m.region.hi a else m.region.lo a := by
  have : a = 0 ∨ a = 1 ∨ a = 2 := by omega
  rcases this with e | e | e <;> subst e <;>
    simp only [cornerRel, V3.get, centreAt, Region.edge, sgn] <;> split <;> ring

/-- **bbox.** The region of the rotated field has the centre of the original region, contains
the eight corners of the original region rotated about that centre, and each of its six
faces contains one of them — it is the axis-aligned bounding box of the rotated region
(for any matrix, rotation or not). -/
theorem bbox (f : Fld) (R : M3) (reg : Region) (h : newRegion f R = .ok reg) :
    (∀ a, a < 3 → (reg.lo a + reg.hi a) / 2 = centreAt f.mesh a) ∧
    (∀ s0 s1 s2 a, a < 3 →
      reg.lo a ≤ centreAt f.mesh a + (R.apply (cornerRel f.mesh s0 s1 s2)).get a ∧
      centreAt f.mesh a + (R.apply (cornerRel f.mesh s0 s1 s2)).get a ≤ reg.hi a) ∧
    (∀ a, a < 3 → ∃ s0 s1 s2, centreAt f.mesh a + (R.apply (cornerRel f.mesh s0 s1 s2)).get a = reg.hi a) ∧
    (∀ a, a < 3 → ∃ s0 s1 s2, centreAt f.mesh a + (R.apply (cornerRel f.mesh s0 s1 s2)).get a = reg.lo a) := by
  refine ⟨?_, ?_, ?_, ?_⟩
  · intro a ha
    rw [newRegion_lo f R reg h a ha, newRegion_hi f R reg h a ha]
    unfold boxLo boxHi; ring
  · intro s0 s1 s2 a ha
    rw [newRegion_lo f R reg h a ha, newRegion_hi f R reg h a ha]
    have hb := corner_bound R f.mesh s0 s1 s2 a
    rw [abs_le] at hb
    unfold boxLo boxHi
    constructor <;> linarith [hb.1, hb.2]
  · intro a ha
    refine ⟨decide (0 ≤ R.e a 0 * f.mesh.region.edge 0), decide (0 ≤ R.e a 1 * f.mesh.region.edge 1),
      decide (0 ≤ R.e a 2 * f.mesh.region.edge 2), ?_⟩
    rw [newRegion_hi f R reg h a ha, corner_attains R f.mesh a]
    rfl
  · intro a ha
    refine ⟨!decide (0 ≤ R.e a 0 * f.mesh.region.edge 0), !decide (0 ≤ R.e a 1 * f.mesh.region.edge 1),
      !decide (0 ≤ R.e a 2 * f.mesh.region.edge 2), ?_⟩
    rw [newRegion_lo f R reg h a ha, corner_attains_neg R f.mesh a]
    unfold boxLo; ring

/-- **bbox is the smallest box.** Any axis-aligned box that contains the eight rotated corners
contains the region of the rotated field. -/
theorem bbox_minimal (f : Fld) (R : M3) (reg : Region) (h : newRegion f R = .ok reg) (lo' hi' : Nat → Rat)
    (hbox : ∀ s0 s1 s2 a, a < 3 →
      lo' a ≤ centreAt f.mesh a + (R.apply (cornerRel f.mesh s0 s1 s2)).get a ∧
      centreAt f.mesh a + (R.apply (cornerRel f.mesh s0 s1 s2)).get a ≤ hi' a) :
    ∀ a, a < 3 → lo' a ≤ reg.lo a ∧ reg.hi a ≤ hi' a := by
  intro a ha
  obtain ⟨_, _, hhi, hlo⟩ := bbox f R reg h
  obtain ⟨s0, s1, s2, e1⟩ := hhi a ha
  obtain ⟨t0, t1, t2, e2⟩ := hlo a ha
  exact ⟨e2 ▸ (hbox t0 t1 t2 a ha).1, e1 ▸ (hbox s0 s1 s2 a ha).2⟩

/-- **the box contains the whole rotated region**, not only its corners: every point `x` of the
original region, rotated about the centre, lies in the region of the rotated field (for any
matrix). -/
theorem bbox_contains_region (f : Fld) (R : M3) (reg : Region) (h : newRegion f R = .ok reg) (x : V3)
    (hx : ∀ a, a < 3 → f.mesh.region.lo a ≤ x.get a ∧ x.get a ≤ f.mesh.region.hi a) (a : Nat) (ha : a < 3) :
    reg.lo a ≤ centreAt f.mesh a + (R.apply (x.sub (centreV f.mesh))).get a ∧
    centreAt f.mesh a + (R.apply (x.sub (centreV f.mesh))).get a ≤ reg.hi a := by
  rw [newRegion_lo f R reg h a ha, newRegion_hi f R reg h a ha, M3.apply_get]
  unfold boxLo boxHi sumAbs
  simp only [absR_eq_abs]
  have key : ∀ (r d e : Rat), |d| ≤ e / 2 → |r * d| ≤ |r * e| / 2 := by
    intro r d e hd
    have he : 0 ≤ e := by have := abs_nonneg d; linarith
    rw [abs_mul, abs_mul, abs_of_nonneg he]
    have := mul_le_mul_of_nonneg_left hd (abs_nonneg r)
    linarith
  have hd : ∀ j, j < 3 → |(x.sub (centreV f.mesh)).get j| ≤ f.mesh.region.edge j / 2 := by
    intro j hj
    rw [V3.get_sub]
    unfold centreV
    rw [V3.get_ofFn _ _ hj, abs_le]
    obtain ⟨h1, h2⟩ := hx j hj
    unfold centreAt Region.edge
    constructor <;> linarith
  have k0 := key (R.e a 0) _ _ (hd 0 (by omega))
  have k1 := key (R.e a 1) _ _ (hd 1 (by omega))
  have k2 := key (R.e a 2) _ _ (hd 2 (by omega))
  simp only [V3.get] at k0 k1 k2
  rw [abs_le] at k0 k1 k2
  simp only [edgesV, V3.ofFn]
  constructor <;> linarith [k0.1, k0.2, k1.1, k1.2, k2.1, k2.2]

example : ∀ a, a < 3 → exF.mesh.region.lo a ≤ (⟨1, 4, 3/2⟩ : V3).get a ∧ (⟨1, 4, 3/2⟩ : V3).get a ≤ exF.mesh.region.hi a := by
  decide +kernel

/-- **the bounding box always exists and is not smaller than the region.** For a well-formed
mesh and a proper rotation the `Region` constructor never refuses (no edge collapses), every
new edge is positive, and the volume of the box is at least the volume of the original region. -/
theorem bbox_accepted (f : Fld) (hm : Mesh3 f.mesh) (R : M3) (hR : R.IsRot) :
    ∃ reg, newRegion f R = .ok reg ∧ (∀ a, a < 3 → 0 < reg.edge a) ∧
      f.mesh.region.edge 0 * f.mesh.region.edge 1 * f.mesh.region.edge 2 ≤ reg.edge 0 * reg.edge 1 * reg.edge 2 := by
  have h := newRegion_accepts f hm hR
  obtain ⟨e0, e1, e2⟩ := edgesV_pos f.mesh hm
  have hE : ∀ a, a < 3 → (boxRegion f R).edge a = sumAbs R (edgesV f.mesh) a := by
    intro a ha
    unfold Region.edge; rw [newRegion_lo f R _ h a ha, newRegion_hi f R _ h a ha]; unfold boxLo boxHi; ring
  refine ⟨_, h, fun a ha => by rw [hE a ha]; exact sumAbs_pos hR _ e0 e1 e2 a ha, ?_⟩
  rw [hE 0 (by omega), hE 1 (by omega), hE 2 (by omega)]
  exact prod_sumAbs_ge hR (edgesV f.mesh) e0.le e1.le e2.le

example : Mesh3 exF.mesh ∧ exR.IsRot := ⟨exWF.1, by decide +kernel⟩

/-- the bounding box has default axis names and units (the code builds a fresh `Region`) -/
theorem bbox_metadata (f : Fld) (R : M3) (reg : Region) (h : newRegion f R = .ok reg) :
    reg.ndim = 3 ∧ reg.dims = ["x", "y", "z"] ∧ reg.units = ["m", "m", "m"] := by
  obtain ⟨h1, _, h3, h4, _⟩ := newRegion_ok_inv f R reg h
  exact ⟨by unfold Region.ndim; rw [h1]; simp, h3, h4⟩

/-- non-vacuity: the 3-4-5 rotation about z of the box [0,4]×[0,4]×[0,3] has the bounding box
[−4/5, 24/5]² × [0, 3] -/
example : exR.IsRot ∧ newRegion exF exR = .ok exReg := ⟨by decide +kernel, exNewRegion⟩

/-! ## multilinear interpolation (`RegularGridInterpolator`, linear, fill value 0) -/

/-- **trilinear_affine.** On any strictly increasing node grids, interpolating samples of an
affine function of the node coordinates returns that function at every point inside the
grid. -/
theorem trilinear_affine (g0 g1 g2 : Nat → Rat) (m0 m1 m2 : Nat)
    (hs0 : ∀ j, j ≤ m0 → g0 j < g0 (j + 1)) (hs1 : ∀ j, j ≤ m1 → g1 j < g1 (j + 1))
    (hs2 : ∀ j, j ≤ m2 → g2 j < g2 (j + 1))
    (α β0 β1 β2 : Rat) (V : Nat → Nat → Nat → Rat)
    (hV : ∀ i j k, i ≤ m0 + 1 → j ≤ m1 + 1 → k ≤ m2 + 1 → V i j k = α + β0 * g0 i + β1 * g1 j + β2 * g2 k)
    (p : V3) (h0 : inBounds g0 m0 p.x = true) (h1 : inBounds g1 m1 p.y = true) (h2 : inBounds g2 m2 p.z = true) :
    trilin g0 g1 g2 m0 m1 m2 V p = α + β0 * p.x + β1 * p.y + β2 * p.z := by
  unfold trilin
  rw [locate_some _ _ _ _ _ _ p h0 h1 h2]
  simp only [interpAt, frac]
  have l0 := findIdx_le g0 p.x m0
  have l1 := findIdx_le g1 p.y m1
  have l2 := findIdx_le g2 p.z m2
  apply sum8_affine
  · have := hs0 _ l0; intro e; linarith
  · have := hs1 _ l1; intro e; linarith
  · have := hs2 _ l2; intro e; linarith
  · intro e0 e1 e2 he0 he1 he2
    rw [hV _ _ _ (by omega) (by omega) (by omega)]
    have c0 : e0 = 0 ∨ e0 = 1 := by omega
    have c1 : e1 = 0 ∨ e1 = 1 := by omega
    have c2 : e2 = 0 ∨ e2 = 1 := by omega
    rcases c0 with c0 | c0 <;> rcases c1 with c1 | c1 <;> rcases c2 with c2 | c2 <;> subst c0 <;> subst c1 <;>
      subst c2 <;> simp

/-- The eight weights sum to one: constant data is reproduced everywhere inside the grid. -/
theorem trilinear_const (g0 g1 g2 : Nat → Rat) (m0 m1 m2 : Nat) (c : Rat) (p : V3)
    (h0 : inBounds g0 m0 p.x = true) (h1 : inBounds g1 m1 p.y = true) (h2 : inBounds g2 m2 p.z = true) :
    trilin g0 g1 g2 m0 m1 m2 (fun _ _ _ => c) p = c := by
  unfold trilin
  rw [locate_some _ _ _ _ _ _ p h0 h1 h2]
  simp only [interpAt]
  exact sum8_const _ _ _ c

/-- The interpolant is linear in the data (at every point, inside or outside). -/
theorem trilinear_linear (g0 g1 g2 : Nat → Rat) (m0 m1 m2 : Nat) (a b : Rat) (V W : Nat → Nat → Nat → Rat) (p : V3) :
    trilin g0 g1 g2 m0 m1 m2 (fun i j k => a * V i j k + b * W i j k) p
      = a * trilin g0 g1 g2 m0 m1 m2 V p + b * trilin g0 g1 g2 m0 m1 m2 W p := by
  unfold trilin
  exact interpAt_linear a b V W _

/-- A point outside the node grid on any axis gets the fill value 0. -/
theorem trilinear_outside_zero (g0 g1 g2 : Nat → Rat) (m0 m1 m2 : Nat) (V : Nat → Nat → Nat → Rat) (p : V3)
    (h : p.x < g0 0 ∨ g0 (m0 + 1) < p.x ∨ p.y < g1 0 ∨ g1 (m1 + 1) < p.y ∨ p.z < g2 0 ∨ g2 (m2 + 1) < p.z) :
    trilin g0 g1 g2 m0 m1 m2 V p = 0 := by
  unfold trilin
  rw [locate_none]
  · rfl
  · unfold inBounds
    rcases h with h | h | h | h | h | h
    · left; simp [not_le.mpr h]
    · left; simp [not_le.mpr h]
    · right; left; simp [not_le.mpr h]
    · right; left; simp [not_le.mpr h]
    · right; right; simp [not_le.mpr h]
    · right; right; simp [not_le.mpr h]

/-- At a node the interpolant is the stored sample (so target centres that fall on source
centres copy values, as the lattice rotation of C12 does). -/
theorem trilinear_node (g0 g1 g2 : Nat → Rat) (m0 m1 m2 : Nat)
    (hs0 : ∀ j, j ≤ m0 → g0 j < g0 (j + 1)) (hs1 : ∀ j, j ≤ m1 → g1 j < g1 (j + 1))
    (hs2 : ∀ j, j ≤ m2 → g2 j < g2 (j + 1))
    (V : Nat → Nat → Nat → Rat) (i j k : Nat) (hi : i ≤ m0) (hj : j ≤ m1) (hk : k ≤ m2)
    (p : V3) (hx : p.x = g0 i) (hy : p.y = g1 j) (hz : p.z = g2 k) :
    trilin g0 g1 g2 m0 m1 m2 V p = V i j k := by
  have b : ∀ (g : Nat → Rat) (m : Nat), (∀ j, j ≤ m → g j < g (j + 1)) → ∀ i, i ≤ m → inBounds g m (g i) = true := by
    intro g m hs i hi
    unfold inBounds
    have h1 : g 0 ≤ g i := by
      by_cases e : i = 0
      · subst e; exact le_refl _
      · exact (mono_of_step g m hs 0 i (by omega) (by omega)).le
    have h2 : g i ≤ g (m + 1) := (mono_of_step g m hs i (m + 1) (by omega) (by omega)).le
    simp [h1, h2]
  unfold trilin
  rw [locate_some _ _ _ _ _ _ p (by rw [hx]; exact b g0 m0 hs0 i hi) (by rw [hy]; exact b g1 m1 hs1 j hj)
    (by rw [hz]; exact b g2 m2 hs2 k hk)]
  rw [hx, hy, hz, findIdx_at_node g0 m0 hs0 i hi, findIdx_at_node g1 m1 hs1 j hj, findIdx_at_node g2 m2 hs2 k hk]
  have f0 : ∀ (g : Nat → Rat) (i : Nat), frac g i (g i) = 0 := by intro g i; unfold frac; simp
  rw [f0, f0, f0]
  simp only [interpAt]
  rw [sum8_zero]
  rfl

/-- non-vacuity: a strictly increasing grid with a padded layer, a point inside it -/
example : (∀ j, j ≤ 2 → (fun k : Nat => (k : Rat) * 3) j < (fun k : Nat => (k : Rat) * 3) (j + 1)) ∧
    inBounds (fun k : Nat => (k : Rat) * 3) 2 (7/2) = true := by
  constructor
  · intro j _; simp only; push_cast; linarith
  · unfold inBounds; norm_num

/-! ## the stored values (`_map_and_interpolate` + vector rotation) -/

/-- position handed to the interpolator for target cell `idx`, as an absolute coordinate -/
theorem backPos_spec (f : Fld) (R : M3) (hR : R.IsRot) (nm : Mesh) (idx : List Nat) :
    R.apply (backPos f R nm idx) = (V3.ofList (nm.centre idx)).sub (centreV f.mesh) := by
  unfold backPos
  exact hR.apply_tr_apply _

/-- **rot_general.** Every stored value is the rotation (through the component ↔ axis
permutation) applied to the multilinear interpolant of the ORIGINAL field at the back-rotated
cell centre: rotate-then-interpolate (the code) equals interpolate-then-rotate (the property). -/
theorem rot_general (f : Fld) (hf : WF f) (R : M3) (n? : Option (List Nat)) (g : Fld)
    (h : rotateOnce f R n? = .ok g) :
    ∃ ord, ordFor f = .ok ord ∧
      ∀ idx, g.data.get idx = rotVal f.nvdim R ord (origAt f (backPos f R g.mesh idx)) := by
  obtain ⟨reg, nm, ord, _, _, ho, hg⟩ := rotateOnce_ok_inv f R n? g h
  subst hg
  refine ⟨ord, ho, ?_⟩
  intro idx
  rw [rotated_data]
  apply valuesAt_eq_rot_origAt
  rcases hf.2 with h1 | ⟨h3, hl⟩
  · exact Or.inl h1
  · right
    refine ⟨h3, ?_⟩
    intro a ha
    have := ordFor_lt f ord ho (by omega) a ha
    omega

/-- non-vacuity: a scalar field and a vector field with permuted mapping are rotated -/
example : WF exF ∧ rotateOnce exF exR (some [5, 5, 3]) = .ok (rotated exF exR [] exNM) := ⟨exWF, exRot⟩
example : WF exV ∧ rotateOnce exV exR (some [5, 5, 3]) = .ok (rotated exV exR [1, 0, 2] exNM) := ⟨exWFV, exRotV⟩

/-- **`ordered_idx` is a permutation.** For a 3-vector field with three labels on distinct axis
names and a mapping in which no label occurs twice, a successful component order lists three
distinct component positions — so the model's `invAt` is its inverse permutation (`invAt ord (ord[a]) = a`) and equals what
the code-shaped `argsort` (`argsortL`: indices sorted by key) returns. Holds for all six
mappings, cyclic ones included. -/
theorem ordered_idx_is_permutation (f : Fld) (ord : List Nat) (h : ordFor f = .ok ord) (h3 : f.nvdim = 3)
    (hl : (f.vdims.getD []).length = 3)
    (hdims : ∀ a b, a < 3 → b < 3 → a ≠ b → f.mesh.region.dims.getD a "" ≠ f.mesh.region.dims.getD b "")
    (hkey : ∀ x ∈ f.vmap, ∀ y ∈ f.vmap, x.1 = y.1 → x = y) :
    PermOrd ord ∧ (∀ a, a < 3 → invAt ord (ord.getD a 0) = a) ∧
    (ord.length = 3 → ∀ c, c < 3 → (argsortL ord).getD c 0 = invAt ord c) := by
  have hp := ordFor_perm f ord h h3 hl hdims hkey
  exact ⟨hp, fun a ha => invAt_ord hp a ha, fun hl3 c hc => argsort_eq_invAt hp hl3 c hc⟩

/-- the cyclic mapping `p ↦ y, q ↦ z, r ↦ x` gives the cyclic order `[2, 0, 1]` -/
example : ordFor { exV with vmap := [("p", "y"), ("q", "z"), ("r", "x")] } = .ok [2, 0, 1] := okIs_sound _ _ (by decide +kernel)

/-- **vectors go through the permutation and back.** For a 3-vector field (any one-to-one
mapping) the component of the stored value that belongs to spatial axis `a` — position `ord[a]` —
is component `a` of `R` applied to the interpolated original vector listed in spatial order
`(v[ord 0], v[ord 1], v[ord 2])`: forward permutation, rotation, inverse permutation. -/
theorem rot_vector_components (f : Fld) (hf : WF f) (h3 : f.nvdim = 3)
    (hdims : ∀ a b, a < 3 → b < 3 → a ≠ b → f.mesh.region.dims.getD a "" ≠ f.mesh.region.dims.getD b "")
    (hkey : ∀ x ∈ f.vmap, ∀ y ∈ f.vmap, x.1 = y.1 → x = y)
    (R : M3) (n? : Option (List Nat)) (g : Fld) (h : rotateOnce f R n? = .ok g) :
    ∃ ord, ordFor f = .ok ord ∧ PermOrd ord ∧ ∀ idx a, a < 3 →
      (g.data.get idx).getD (ord.getD a 0) 0 = (R.apply (spatial ord (origAt f (backPos f R g.mesh idx)))).get a := by
  obtain ⟨ord, ho, hv⟩ := rot_general f hf R n? g h
  have hl : (f.vdims.getD []).length = 3 := by rcases hf.2 with h1 | ⟨_, hl⟩ <;> [omega; exact hl]
  have hp := ordFor_perm f ord ho h3 hl hdims hkey
  refine ⟨ord, ho, hp, ?_⟩
  intro idx a ha
  rw [hv idx, h3]
  exact rotVal_spatial' R hp _ a ha

/-- **algebra of the cell-value rotation** (any permutation `ord`): the identity leaves values
alone, a product rotates twice (later factor on the left acts last), the transpose of a rotation
undoes it, and the Euclidean scalar product — hence the length of every vector — is preserved. -/
theorem cell_value_rotation_laws (ord : List Nat) (hp : PermOrd ord) (v w : List Rat) (hv : v.length = 3) (A B : M3) :
    rotVal 3 M3.one ord v = v ∧ rotVal 3 (A.mul B) ord v = rotVal 3 A ord (rotVal 3 B ord v) ∧
    (A.IsRot → rotVal 3 A.tr ord (rotVal 3 A ord v) = v) ∧
    (A.IsRot → (spatial ord (rotVal 3 A ord v)).dot (spatial ord (rotVal 3 A ord w)) = (spatial ord v).dot (spatial ord w)) ∧
    (spatial ord v).dot (spatial ord v) = v.getD 0 0 * v.getD 0 0 + v.getD 1 0 * v.getD 1 0 + v.getD 2 0 * v.getD 2 0 :=
  ⟨rotVal_one hp v hv, rotVal_mul A B hp v, fun hA => rotVal_inverse hA hp v hv, fun hA => rotVal_dot hA hp v w,
   spatial_normsq hp v⟩

/-- **rot_general, interior form.** If the back-rotated centre lies between the centres of
cells `k` and `k+1` on every axis, the interpolant is the eight-cell trilinear formula with
weights from the normalised offsets — "the linear interpolation of the original at that
position". -/
theorem rot_interpolates_cells (f : Fld) (hf : WF f) (R : M3) (n? : Option (List Nat)) (g : Fld)
    (h : rotateOnce f R n? = .ok g) (idx : List Nat) (k0 k1 k2 : Nat)
    (h0 : Between f.mesh 0 k0 (backPos f R g.mesh idx).x) (h1 : Between f.mesh 1 k1 (backPos f R g.mesh idx).y)
    (h2 : Between f.mesh 2 k2 (backPos f R g.mesh idx).z) :
    ∃ ord, ordFor f = .ok ord ∧
      g.data.get idx = rotVal f.nvdim R ord (tab f.nvdim fun c =>
        cellInterp f c k0 k1 k2
          (((backPos f R g.mesh idx).x - centreRel f.mesh 0 k0) / f.mesh.cellAt 0)
          (((backPos f R g.mesh idx).y - centreRel f.mesh 1 k1) / f.mesh.cellAt 1)
          (((backPos f R g.mesh idx).z - centreRel f.mesh 2 k2) / f.mesh.cellAt 2)) := by
  obtain ⟨ord, ho, hv⟩ := rot_general f hf R n? g h
  refine ⟨ord, ho, ?_⟩
  rw [hv idx]
  congr 1
  apply eq_tab_of_getD _ _ _ 0 (origAt_length f _)
  intro c hc
  exact origAt_between f hf.1 _ k0 k1 k2 h0 h1 h2 c hc

example : Between exF.mesh 0 1 (backPos exF exR exNM [2, 2, 1]).x ∧ Between exF.mesh 1 1 (backPos exF exR exNM [2, 2, 1]).y ∧
    Between exF.mesh 2 1 (backPos exF exR exNM [2, 2, 1]).z := by unfold Between; decide +kernel

/-- a back-rotated centre at least one cell inside the original region (the property's
hypothesis) lies between two neighbouring cell centres on that axis -/
theorem one_cell_inside_between (m : Mesh) (a : Nat) (h : AxOk m a) (x : Rat)
    (h1 : m.region.lo a + m.cellAt a ≤ x + centreAt m a) (h2 : x + centreAt m a ≤ m.region.hi a - m.cellAt a) :
    ∃ k, Between m a k x :=
  between_of_deep m a h x (deep_of_one_cell_inside m a h x h1 h2)

/-- **the property's central sentence.** A cell whose back-rotated centre lies at least one
cell inside the original region (on every axis) carries `Q` applied to the linear
interpolation of the original between the eight cell centres that surround that position. -/
theorem rot_inside_value (f : Fld) (hf : WF f) (R : M3) (n? : Option (List Nat)) (g : Fld)
    (h : rotateOnce f R n? = .ok g) (idx : List Nat)
    (hin : ∀ a, a < 3 →
      f.mesh.region.lo a + f.mesh.cellAt a ≤ (backPos f R g.mesh idx).get a + centreAt f.mesh a ∧
      (backPos f R g.mesh idx).get a + centreAt f.mesh a ≤ f.mesh.region.hi a - f.mesh.cellAt a) :
    ∃ ord k0 k1 k2, ordFor f = .ok ord ∧
      Between f.mesh 0 k0 (backPos f R g.mesh idx).x ∧ Between f.mesh 1 k1 (backPos f R g.mesh idx).y ∧
      Between f.mesh 2 k2 (backPos f R g.mesh idx).z ∧
      g.data.get idx = rotVal f.nvdim R ord (tab f.nvdim fun c =>
        cellInterp f c k0 k1 k2
          (((backPos f R g.mesh idx).x - centreRel f.mesh 0 k0) / f.mesh.cellAt 0)
          (((backPos f R g.mesh idx).y - centreRel f.mesh 1 k1) / f.mesh.cellAt 1)
          (((backPos f R g.mesh idx).z - centreRel f.mesh 2 k2) / f.mesh.cellAt 2)) := by
  obtain ⟨k0, b0⟩ := one_cell_inside_between f.mesh 0 (hf.1 0 (by omega)) _ (hin 0 (by omega)).1 (hin 0 (by omega)).2
  obtain ⟨k1, b1⟩ := one_cell_inside_between f.mesh 1 (hf.1 1 (by omega)) _ (hin 1 (by omega)).1 (hin 1 (by omega)).2
  obtain ⟨k2, b2⟩ := one_cell_inside_between f.mesh 2 (hf.1 2 (by omega)) _ (hin 2 (by omega)).1 (hin 2 (by omega)).2
  obtain ⟨ord, ho, hv⟩ := rot_interpolates_cells f hf R n? g h idx k0 k1 k2 b0 b1 b2
  exact ⟨ord, k0, k1, k2, ho, b0, b1, b2, hv⟩

/-- instance: the hypothesis holds for the central target cell of the example -/
example : ∀ a, a < 3 →
    exF.mesh.region.lo a + exF.mesh.cellAt a ≤ (backPos exF exR exNM [2, 2, 1]).get a + centreAt exF.mesh a ∧
    (backPos exF exR exNM [2, 2, 1]).get a + centreAt exF.mesh a ≤ exF.mesh.region.hi a - exF.mesh.cellAt a := by
  decide +kernel

/-- **rot_linear_scalar** (and its vector form). If component `c` of the original data is an
affine function of position, the interpolant of that component at a back-rotated centre at
least half a cell inside is that affine function of the back-rotated position; for a scalar
field this is the stored value: linear scalar fields are reproduced exactly. -/
theorem rot_linear_scalar (f : Fld) (hf : WF f) (h1 : f.nvdim = 1) (α β0 β1 β2 : Rat)
    (hdata : ∀ i j k, i < f.mesh.nAt 0 → j < f.mesh.nAt 1 → k < f.mesh.nAt 2 →
      f.data.get [i, j, k] = [α + β0 * centreAbs f.mesh 0 i + β1 * centreAbs f.mesh 1 j + β2 * centreAbs f.mesh 2 k])
    (R : M3) (n? : Option (List Nat)) (g : Fld) (h : rotateOnce f R n? = .ok g) (idx : List Nat)
    (d0 : Deep f.mesh 0 (backPos f R g.mesh idx).x) (d1 : Deep f.mesh 1 (backPos f R g.mesh idx).y)
    (d2 : Deep f.mesh 2 (backPos f R g.mesh idx).z) :
    g.data.get idx = [α + β0 * ((backPos f R g.mesh idx).x + centreAt f.mesh 0)
      + β1 * ((backPos f R g.mesh idx).y + centreAt f.mesh 1) + β2 * ((backPos f R g.mesh idx).z + centreAt f.mesh 2)] := by
  obtain ⟨ord, _, hv⟩ := rot_general f hf R n? g h
  rw [hv idx]
  unfold rotVal
  rw [if_pos h1]
  have hl := origAt_length f (backPos f R g.mesh idx)
  rw [h1] at hl
  have hc := origAt_affine f hf.1 0 (by omega) α β0 β1 β2
    (by intro i j k hi hj hk; rw [hdata i j k hi hj hk]; rfl) _ d0 d1 d2
  match hO : origAt f (backPos f R g.mesh idx), hl with
  | [v], _ =>
    rw [hO] at hc
    simp only [List.getD_cons_zero] at hc
    rw [hc]

/-- instance: `1 + 2x − 3y + 5z` rotated about z; the target cell at the common centre reads
`1 + 2·2 − 3·2 + 5·3/2 = 13/2` -/
example : (rotated exF exR [] exNM).data.get [2, 2, 1] = [13/2] := by
  have h := rot_linear_scalar exF exWF rfl 1 2 (-3) 5 (by intro i j k _ _ _; rfl) exR (some [5, 5, 3]) _ exRot [2, 2, 1]
    (by unfold Deep; decide +kernel) (by unfold Deep; decide +kernel) (by unfold Deep; decide +kernel)
  rw [h]
  decide +kernel

/-- affine vector fields: the stored vector is the rotation of the affine function's value at
the back-rotated position (same hypotheses per component) -/
theorem rot_affine_vector (f : Fld) (hf : WF f) (α β0 β1 β2 : Nat → Rat)
    (hdata : ∀ c, c < f.nvdim → ∀ i j k, i < f.mesh.nAt 0 → j < f.mesh.nAt 1 → k < f.mesh.nAt 2 →
      (f.data.get [i, j, k]).getD c 0
        = α c + β0 c * centreAbs f.mesh 0 i + β1 c * centreAbs f.mesh 1 j + β2 c * centreAbs f.mesh 2 k)
    (R : M3) (n? : Option (List Nat)) (g : Fld) (h : rotateOnce f R n? = .ok g) (idx : List Nat)
    (d0 : Deep f.mesh 0 (backPos f R g.mesh idx).x) (d1 : Deep f.mesh 1 (backPos f R g.mesh idx).y)
    (d2 : Deep f.mesh 2 (backPos f R g.mesh idx).z) :
    ∃ ord, ordFor f = .ok ord ∧
      g.data.get idx = rotVal f.nvdim R ord (tab f.nvdim fun c =>
        α c + β0 c * ((backPos f R g.mesh idx).x + centreAt f.mesh 0)
          + β1 c * ((backPos f R g.mesh idx).y + centreAt f.mesh 1) + β2 c * ((backPos f R g.mesh idx).z + centreAt f.mesh 2)) := by
  obtain ⟨ord, ho, hv⟩ := rot_general f hf R n? g h
  refine ⟨ord, ho, ?_⟩
  rw [hv idx]
  congr 1
  apply eq_tab_of_getD _ _ _ 0 (origAt_length f _)
  intro c hc
  exact origAt_affine f hf.1 c hc (α c) (β0 c) (β1 c) (β2 c) (hdata c hc) _ d0 d1 d2

/-- **rot_uniform.** A uniform field `v` becomes the uniform field `Q·v` (through the
permutation) at every target cell whose back-rotated centre passes the bounds test — in
particular everywhere at least one cell inside. -/
theorem rot_uniform (f : Fld) (hf : WF f) (v : List Rat) (hvl : v.length = f.nvdim)
    (hdata : ∀ i j k, i < f.mesh.nAt 0 → j < f.mesh.nAt 1 → k < f.mesh.nAt 2 → f.data.get [i, j, k] = v)
    (R : M3) (n? : Option (List Nat)) (g : Fld) (h : rotateOnce f R n? = .ok g) (idx : List Nat)
    (hin : InPad f (backPos f R g.mesh idx)) :
    ∃ ord, ordFor f = .ok ord ∧ g.data.get idx = rotVal f.nvdim R ord v := by
  obtain ⟨ord, ho, hv⟩ := rot_general f hf R n? g h
  refine ⟨ord, ho, ?_⟩
  rw [hv idx]
  congr 1
  have : v = tab f.nvdim fun c => v.getD c 0 := eq_tab_of_getD v _ _ 0 hvl (fun _ _ => rfl)
  rw [this]
  apply eq_tab_of_getD _ _ _ 0 (origAt_length f _)
  intro c hc
  exact origAt_uniform f hf.1 c hc (v.getD c 0) (by intro i j k hi hj hk; rw [hdata i j k hi hj hk]) _ hin

/-- instance: the uniform field `(7, −2, 3)` with labels mapped to `(y, x, z)` becomes `Q·v`
read through the same permutation -/
example : (rotated exV exR [1, 0, 2] exNM).data.get [2, 2, 1] = [13/5, -34/5, 3] := by
  obtain ⟨ord, ho, h⟩ := rot_uniform exV exWFV [7, -2, 3] rfl (by intro i j k _ _ _; rfl) exR (some [5, 5, 3]) _ exRotV [2, 2, 1]
    (by unfold InPad; decide +kernel)
  rw [exOrdV] at ho
  injection ho with ho
  subst ho
  rw [h]
  decide +kernel

/-- **rot_outside_zero.** A target cell whose back-rotated centre lies outside the original
region (by more than the `1e-9`-cell padding, on some axis) stores zero in every component. -/
theorem rot_outside_zero (f : Fld) (R : M3) (n? : Option (List Nat)) (g : Fld)
    (h : rotateOnce f R n? = .ok g) (idx : List Nat) (a : Nat) (ha : a < 3)
    (hout : (backPos f R g.mesh idx).get a + centreAt f.mesh a < f.mesh.region.lo a - f.mesh.cellAt a * tolI ∨
            f.mesh.region.hi a + f.mesh.cellAt a * tolI < (backPos f R g.mesh idx).get a + centreAt f.mesh a) :
    g.data.get idx = tab f.nvdim fun _ => 0 := by
  obtain ⟨reg, nm, ord, _, _, _, hg⟩ := rotateOnce_ok_inv f R n? g h
  subst hg
  rw [rotated_data]
  exact valuesAt_outside f R ord _ (outside_not_inPad f _ a ha hout)

/-- instance: the corner cell of the bounding box looks back at a point outside the original -/
example : (backPos exF exR exNM [0, 0, 0]).get 0 + centreAt exF.mesh 0 < exF.mesh.region.lo 0 - exF.mesh.cellAt 0 * tolI := by
  decide +kernel
example : (rotated exF exR [] exNM).data.get [0, 0, 0] = [0] :=
  rot_outside_zero exF exR (some [5, 5, 3]) _ exRot [0, 0, 0] 0 (by omega) (Or.inl (by decide +kernel))

/-- geometry and metadata of the stored field: bounding-box region, the requested cell
counts, everything valid, component count / labels / mapping of the original, no unit -/
theorem rot_metadata (f : Fld) (R : M3) (n : List Nat) (g : Fld) (h : rotateOnce f R (some n) = .ok g) :
    newRegion f R = .ok g.mesh.region ∧ g.mesh.n = n ∧ g.mesh.subs = [] ∧ g.data.shape = n ∧ g.valid.get = (fun _ => true) ∧
    g.nvdim = f.nvdim ∧ g.vdims = f.vdims ∧ g.vmap = f.vmap ∧ g.unit = none := by
  obtain ⟨reg, nm, ord, hr, hm, _, hg⟩ := rotateOnce_ok_inv f R (some n) g h
  subst hg
  obtain ⟨e1, e2, _, _, e5⟩ := mkN?_ok_inv reg _ nm hm
  simp only [Option.getD_some] at e2
  refine ⟨by rw [hr]; simp [rotated, e1], ?_, ?_, ?_, rfl, rfl, rfl, rfl, rfl⟩
  · exact e2
  · exact e5
  · exact e2

/-- **automatic cell counts.** Without `n` the stored field has the counts of
`_calculate_new_n` — the rounded cube roots of `E_i³·Πl / (l_i³·dV)` — and for every proper
rotation of a well-formed field each of them is at least one (the rounded quantity is ≥ 1: the
bounding box of the rotated cell is at least as large as the cell), so the `Mesh` constructor
cannot refuse them. -/
theorem rot_metadata_auto (f : Fld) (hm : Mesh3 f.mesh) (R : M3) (hR : R.IsRot) (g : Fld) (h : rotateOnce f R none = .ok g) :
    newRegion f R = .ok g.mesh.region ∧ g.mesh.n = autoN f R g.mesh.region ∧
    (∀ i, i < 3 → g.mesh.nAt i = roundCbrt (autoX3 f R g.mesh.region i) ∧ 1 ≤ autoX3 f R g.mesh.region i ∧ 1 ≤ g.mesh.nAt i) ∧
    g.valid.get = (fun _ => true) ∧ g.nvdim = f.nvdim ∧ g.vdims = f.vdims ∧ g.vmap = f.vmap ∧ g.unit = none := by
  obtain ⟨reg, nm, ord, hr, hmk, _, hg⟩ := rotateOnce_ok_inv f R none g h
  subst hg
  obtain ⟨e1, e2, _, _, _⟩ := mkN?_ok_inv reg _ nm hmk
  simp only [Option.getD_none] at e2
  have hreg : (rotated f R ord nm).mesh.region = reg := e1
  have hn : (rotated f R ord nm).mesh.n = autoN f R reg := e2
  refine ⟨by rw [hreg]; exact hr, by rw [hreg]; exact hn, ?_, rfl, rfl, rfl, rfl, rfl⟩
  intro i hi
  rw [hreg]
  have hx := autoX3_ge_one f hm hR reg hr i hi
  have hni : (rotated f R ord nm).mesh.nAt i = roundCbrt (autoX3 f R reg i) := by
    unfold Mesh.nAt; rw [hn]; unfold autoN; rw [getD_tab _ _ _ _ hi]
  refine ⟨hni, hx, ?_⟩
  rw [hni]
  have := roundCbrt_pos _ hx
  omega

example : isOk (rotateOnce exF exR none) = true := by decide +kernel

/-! ## quarter turns and the other lattice rotations coincide with the lattice rotation of C12 -/

/-- **quarter-turn matrices.** For every coordinate plane `(p, q)` and all integers `k`, `l`:
`Rq p q k` is a proper rotation; turning by `k` and then by `l` is `Rq p q (k + l)` (the later
turn multiplies from the left); only `k mod 4` matters; a multiple of four turns is the
identity; the reverse turn is the transpose. -/
theorem quarter_matrix_laws (p q : Nat) (hp : p < 3) (hq : q < 3) (hpq : p ≠ q) (k l : Int) :
    (Rq p q k).IsRot ∧ (Rq p q l).mul (Rq p q k) = Rq p q (k + l) ∧ Rq p q (k % 4) = Rq p q k ∧
    (k % 4 = 0 → Rq p q k = M3.one) ∧ Rq p q (-k) = (Rq p q k).tr :=
  ⟨Rq_isRot p q k hp hq hpq, Rq_mul p q hp hq hpq k l, Rq_mod4 p q k, Rq_four p q hp hq hpq k, Rq_neg p q hp hq hpq k⟩

/-- the old special case: the quarter turn about the third axis -/
example : Rq 0 1 1 = Rz := by decide +kernel

/-- **C12's corner map is this matrix.** `Region.rotate90`'s coordinate map (`T.rotCoord`, model of
C12) about any reference point is `ref + Rq p q k · (P − ref)`. -/
theorem rotCoord_is_matrix_action (P ref : List Rat) (p q : Nat) (k : Int) (hp : p < 3) (hq : q < 3) (hpq : p ≠ q)
    (a : Nat) (ha : a < 3) :
    T.rotCoord P ref p q k a = ref.getD a 0 + ((Rq p q k).apply ((V3.ofList P).sub (V3.ofList ref))).get a :=
  rotCoord_eq_apply P ref p q k hp hq hpq a ha

/-- **all lattice rotations copy cells** (the 24 proper ones and their mirror images). If `R`
is a signed permutation matrix `e_j ↦ s_j e_{π j}` and `n` is left to the code or given as the
permuted cell counts, then — for ANY cell sizes — the automatic counts are the permuted counts,
the region is the original one with permuted edge lengths about the same centre, and every
target cell stores the rotated value of exactly one source cell: index `idx_{π j}` on axis `j`,
counted from the far end where `s_j = −1`. No interpolation error, no zero fill. -/
theorem rot_lattice_copies_cells (f : Fld) (hf : WF f) (hlen : ∀ idx, (f.data.get idx).length = f.nvdim)
    {R : M3} {π : Nat → Nat} {s : Nat → Rat} (hL : IsLat R π s) (n? : Option (List Nat))
    (hn : n? = none ∨ n? = some (tab 3 fun i => f.mesh.nAt (pinv π i))) (g : Fld) (h : rotateOnce f R n? = .ok g) :
    g.mesh.n = (tab 3 fun i => f.mesh.nAt (pinv π i)) ∧
    (∀ i, i < 3 → g.mesh.region.lo i = centreAt f.mesh i - f.mesh.region.edge (pinv π i) / 2 ∧
                  g.mesh.region.hi i = centreAt f.mesh i + f.mesh.region.edge (pinv π i) / 2) ∧
    ∃ ord, ordFor f = .ok ord ∧ ∀ idx, (∀ i, i < 3 → idx.getD i 0 < f.mesh.nAt (pinv π i)) →
      g.data.get idx = rotVal f.nvdim R ord
        (f.data.get [latSrc f.mesh.nAt π s idx 0, latSrc f.mesh.nAt π s idx 1, latSrc f.mesh.nAt π s idx 2]) := by
  have h' : rotateOnce f R (some (tab 3 fun i => f.mesh.nAt (pinv π i))) = .ok g := by
    rcases hn with e | e
    · rw [← lat_rotateOnce_none f hf.1 hL, ← e]; exact h
    · rw [← e]; exact h
  obtain ⟨reg, nm, ord, hreg, hmk, ho, hg⟩ := rotateOnce_ok_inv f R _ g h'
  obtain ⟨e1, e2, _, _, _⟩ := mkN?_ok_inv reg _ nm hmk
  simp only [Option.getD_some] at e2
  obtain ⟨ord', ho', hv⟩ := lat_values f hf hlen hL _ rfl g h'
  refine ⟨by rw [hg]; exact e2, ?_, ord', ho', ?_⟩
  · intro i hi
    have := lat_region f hf.1 hL reg hreg i hi
    rw [hg]; show nm.region.lo i = _ ∧ nm.region.hi i = _
    rw [e1]; exact this
  · intro idx hidx
    apply hv idx
    intro i hi
    rw [getD_tab _ _ _ _ hi]; exact hidx i hi

/-- **rot_quarter_is_rot90** — every coordinate plane, every integer `k`, any cell sizes, `n`
automatic or given as the turned counts. The cell counts are C12's `rotN`, the region corners
are the ones `Region.rotate90` computes about the centre (`min`/`max` of the turned corners),
and the value stored at `[i, j, l]` is the quarter-turned vector of the cell that
`np.rot90(array, k, axes=(p, q))` — the array map of C12's `Field.rotate90` — puts there. -/
theorem rot_quarter_is_rot90 (f : Fld) (hf : WF f) (hs : f.data.shape = f.mesh.n) (hn3 : f.mesh.n.length = 3)
    (hnd : f.mesh.region.ndim = 3) (hlen : ∀ idx, (f.data.get idx).length = f.nvdim)
    (p q : Nat) (k : Int) (hp : p < 3) (hq : q < 3) (hpq : p ≠ q) (n? : Option (List Nat))
    (hn : n? = none ∨ n? = some (T.rotN f.mesh.n p q k)) (g : Fld) (h : rotateOnce f (Rq p q k) n? = .ok g) :
    g.mesh.n = T.rotN f.mesh.n p q k ∧
    (∀ a, a < 3 →
      g.mesh.region.lo a = min (T.rotCoord f.mesh.region.pmin f.mesh.region.center p q k a)
                               (T.rotCoord f.mesh.region.pmax f.mesh.region.center p q k a) ∧
      g.mesh.region.hi a = max (T.rotCoord f.mesh.region.pmin f.mesh.region.center p q k a)
                               (T.rotCoord f.mesh.region.pmax f.mesh.region.center p q k a)) ∧
    ∃ ord, ordFor f = .ok ord ∧
      ∀ i j l, i < (T.rotN f.mesh.n p q k).getD 0 0 → j < (T.rotN f.mesh.n p q k).getD 1 0 → l < (T.rotN f.mesh.n p q k).getD 2 0 →
        g.data.get [i, j, l] = rotVal f.nvdim (Rq p q k) ord ((T.rot90 f.data p q k).get [i, j, l]) := by
  have hL := Rq_isLat p q k hp hq hpq
  have hnt : T.rotN f.mesh.n p q k = tab 3 fun i => f.mesh.nAt (pinv (piq p q k) i) := rotN_eq_tab f.mesh.n hn3 p q k hp hq hpq
  rw [hnt] at hn ⊢
  obtain ⟨c1, _, ord, ho, hv⟩ := rot_lattice_copies_cells f hf hlen hL n? hn g h
  refine ⟨c1, ?_, ord, ho, ?_⟩
  · intro a ha
    obtain ⟨reg, nm, _, hreg, hmk, _, hg⟩ := rotateOnce_ok_inv f _ _ g h
    obtain ⟨e1, _⟩ := mkN?_ok_inv reg _ nm hmk
    have := quarter_region_c12 f hf.1 hnd p q k hp hq hpq reg hreg a ha
    rw [hg]; show nm.region.lo a = _ ∧ nm.region.hi a = _
    rw [e1]; exact this
  · intro i j l hi hj hl
    rw [getD_tab _ _ _ _ (by omega)] at hi hj hl
    have hidx : ∀ a, a < 3 → [i, j, l].getD a 0 < f.mesh.nAt (pinv (piq p q k) a) := by
      intro a ha
      have : a = 0 ∨ a = 1 ∨ a = 2 := by omega
      rcases this with e | e | e <;> subst e <;> assumption
    rw [hv _ hidx, T.rot90_get, hs]
    have hsrc : [latSrc f.mesh.nAt (piq p q k) (sgq p q k) [i, j, l] 0, latSrc f.mesh.nAt (piq p q k) (sgq p q k) [i, j, l] 1,
        latSrc f.mesh.nAt (piq p q k) (sgq p q k) [i, j, l] 2] = T.srcIdx f.mesh.n p q k [i, j, l] :=
      latSrc_eq_srcIdx f.mesh.n hn3 p q k hp hq hpq [i, j, l] rfl
    rw [hsrc]

/-- … and for a 3-vector field whose components are mapped one-to-one to the axes (`ord` any
of the six permutations, cyclic ones included) the rotation of a cell value by the quarter turn
`Rq p q k` is C12's `rotVec` with the same `k` on the two components mapped to the plane. -/
theorem quarter_vector_is_rotVec (p q : Nat) (k : Int) (hp : p < 3) (hq : q < 3) (hpq : p ≠ q)
    (ord : List Nat) (hperm : PermOrd ord) (v : List Rat) (hv : v.length = 3) :
    rotVal 3 (Rq p q k) ord v = T.rotVec v (ord.getD p 0) (ord.getD q 0) k :=
  rotVal_Rq p q k hp hq hpq hperm v hv

/-- **object level: FieldRotator's quarter turn IS C12's `Field.rotate90`.** Whenever the model
of `Field.rotate90(ax1, ax2, k)` (C12; about the centre, copying form) accepts a well-formed field
with a complete one-to-one mapping, `rotate` with the quarter-turn matrix of that plane — with
the turned cell counts or the automatic ones — is accepted too and produces the same region
corners, the same cell counts and the same value in every cell (validity, names and units are
NOT the same: the rotator starts a fresh all-valid field with default names — `rot_metadata`). -/
theorem rot_quarter_matches_rotate90 (f : Fld) (hf : WF f) (hF : T.FldInv f) (hnd : f.mesh.region.ndim = 3)
    (hlen : ∀ idx, (f.data.get idx).length = f.nvdim) (ord : List Nat) (ho : ordFor f = .ok ord)
    (hkey : ∀ x ∈ f.vmap, ∀ y ∈ f.vmap, x.1 = y.1 → x = y) (hval : ∀ x ∈ f.vmap, ∀ y ∈ f.vmap, x.2 = y.2 → x = y)
    (a1 a2 : String) (k : Int) (x g' : Fld) (h' : T.rotate90F f a1 a2 k none false = .ok (x, g')) :
    ∃ p q g, p < 3 ∧ q < 3 ∧ p ≠ q ∧ f.mesh.region.dim2index a1 = .ok p ∧ f.mesh.region.dim2index a2 = .ok q ∧
      rotateOnce f (Rq p q k) (some g'.mesh.n) = .ok g ∧ rotateOnce f (Rq p q k) none = .ok g ∧
      (∀ a, a < 3 → g.mesh.region.lo a = g'.mesh.region.lo a ∧ g.mesh.region.hi a = g'.mesh.region.hi a) ∧
      g.mesh.n = g'.mesh.n ∧
      ∀ i0 i1 i2, i0 < g'.mesh.nAt 0 → i1 < g'.mesh.nAt 1 → i2 < g'.mesh.nAt 2 →
        g.data.get [i0, i1, i2] = g'.data.get [i0, i1, i2] :=
  quarter_matches_rotate90F f hf hF hnd hlen ord ho hkey hval a1 a2 k x g' h'

/-- non-vacuity: the example fields (anisotropic: 4×4×3 cells) are quarter-turned in all three
planes, also with negative `k` and automatic `n`; C12's `Field.rotate90` accepts them; the vector
example's mapping `p ↦ y, q ↦ x, r ↦ z` is one-to-one and its `ordered_idx` is a permutation -/
example : isOk (rotateOnce exF (Rq 1 2 (-1)) none) = true ∧ isOk (rotateOnce exV (Rq 2 0 7) (some (T.rotN exV.mesh.n 2 0 7))) = true ∧
    isOk (rotateOnce exV (Rq 0 1 2) none) = true := by decide +kernel
example : isOk (T.rotate90F exV "z" "x" 3 none false) = true ∧ isOk (T.rotate90F exF "y" "z" (-1) none false) = true := by
  decide +kernel
example : T.FldInv exV ∧ exV.mesh.region.ndim = 3 ∧ PermOrd [1, 0, 2] ∧ PermOrd [1, 2, 0] := by
  unfold T.FldInv Mesh.Inv Region.Inv PermOrd; decide +kernel
example : (∀ x ∈ exV.vmap, ∀ y ∈ exV.vmap, x.1 = y.1 → x = y) ∧ (∀ x ∈ exV.vmap, ∀ y ∈ exV.vmap, x.2 = y.2 → x = y) := by
  decide +kernel
/-- the rotation about the body diagonal `(x, y, z) ↦ (z, x, y)` is a lattice rotation that is
not a quarter turn -/
example : IsLat (M3.ofQuat 1 1 1 1) (fun j => (j + 1) % 3) (fun _ => 1) := by
  refine ⟨fun j _ => Nat.mod_lt _ (by omega), fun i j hi hj e => by omega, fun _ _ => Or.inl rfl, ?_⟩
  intro i j hi hj
  have ci : i = 0 ∨ i = 1 ∨ i = 2 := by omega
  have cj : j = 0 ∨ j = 1 ∨ j = 2 := by omega
  rcases ci with e1 | e1 | e1 <;> rcases cj with e2 | e2 | e2 <;> subst e1 <;> subst e2 <;> decide +kernel

/-! ## the state machine: composition, clear -/

/-- **accumulated rotation.** After ANY history of `rotate` / `clear_rotation` calls (failed
calls included) the accumulated rotation is the ordered matrix product — later rotations on
the left — of the rotations issued since the last clear, and the original field is untouched. -/
theorem accumulated_rotation (f : Fld) (s0 : Rotator) (h0 : init? f = .ok s0) (ops : List Op) :
    (run s0 ops).rot = prodL (seg [] ops) ∧ (run s0 ops).orig = f := by
  have hs := init?_ok_inv f s0 h0
  subst hs
  exact ⟨run_rot _ [] rfl ops, run_orig _ ops⟩

/-- **rot_compose.** `rotate Q₁; rotate Q₂` gives the same accumulated rotation, the same
success/failure and (on success) the same field as the single call `rotate (Q₂·Q₁)` with the
same `n` — whatever the first call's `n` was and whether or not it succeeded: the second
rotation restarts from the original field. -/
theorem rot_compose (s : Rotator) (Q1 Q2 : M3) (n1 n : Option (List Nat)) :
    (step (step s (.rotate Q1 n1)).1 (.rotate Q2 n)).1.rot = (step s (.rotate (Q2.mul Q1) n)).1.rot ∧
    (step (step s (.rotate Q1 n1)).1 (.rotate Q2 n)).2 = (step s (.rotate (Q2.mul Q1) n)).2 ∧
    ((step s (.rotate (Q2.mul Q1) n)).2 = none →
      (step (step s (.rotate Q1 n1)).1 (.rotate Q2 n)).1.cur = (step s (.rotate (Q2.mul Q1) n)).1.cur) := by
  have ho : (step s (.rotate Q1 n1)).1.orig = s.orig := step_orig s _
  have hr : (step s (.rotate Q1 n1)).1.rot = Q1.mul s.rot := step_rotate_rot s Q1 n1
  have hm : Q2.mul (Q1.mul s.rot) = (Q2.mul Q1).mul s.rot := (M3.mul_assoc _ _ _).symm
  cases hres : rotateOnce s.orig ((Q2.mul Q1).mul s.rot) n with
  | ok g =>
    have h2 : rotateOnce (step s (.rotate Q1 n1)).1.orig (Q2.mul (step s (.rotate Q1 n1)).1.rot) n = .ok g := by
      rw [ho, hr, hm]; exact hres
    rw [step_rotate_ok _ Q2 n g h2, step_rotate_ok s _ n g hres, hr, hm]
    exact ⟨rfl, rfl, fun _ => rfl⟩
  | error e =>
    have h2 : rotateOnce (step s (.rotate Q1 n1)).1.orig (Q2.mul (step s (.rotate Q1 n1)).1.rot) n = .error e := by
      rw [ho, hr, hm]; exact hres
    rw [step_rotate_err _ Q2 n e h2, step_rotate_err s _ n e hres, hr, hm]
    exact ⟨rfl, rfl, fun h => by cases h⟩

/-- **history = single rotation.** After any history `ops`, a further `rotate Q n` leaves the
rotator in the state a FRESH rotator reaches by the single rotation with the ordered product
`Q · (Q_k ⋯ Q_1)` of the rotations since the last clear, applied to the original field: same
accumulated matrix, same field on success; on failure the current field is kept. -/
theorem history_eq_single (f : Fld) (s0 : Rotator) (h0 : init? f = .ok s0) (ops : List Op) (Q : M3)
    (n? : Option (List Nat)) :
    (run s0 (ops ++ [.rotate Q n?])).rot = Q.mul (prodL (seg [] ops)) ∧
    (∀ g, rotateOnce f (Q.mul (prodL (seg [] ops))) n? = .ok g → (run s0 (ops ++ [.rotate Q n?])).cur = g) ∧
    (∀ e, rotateOnce f (Q.mul (prodL (seg [] ops))) n? = .error e →
      (run s0 (ops ++ [.rotate Q n?])).cur = (run s0 ops).cur) := by
  obtain ⟨hr, ho⟩ := accumulated_rotation f s0 h0 ops
  rw [run_append]
  simp only [run]
  refine ⟨by rw [step_rotate_rot, hr], ?_, ?_⟩
  · intro g hg
    rw [step_rotate_ok _ Q n? g (by rw [ho, hr]; exact hg)]
  · intro e he
    rw [step_rotate_err _ Q n? e (by rw [ho, hr]; exact he)]

/-- **rot_clear.** `clear_rotation` after any history restores the original field and the
identity rotation; a fresh rotator shows the original field. -/
theorem rot_clear (f : Fld) (s0 : Rotator) (h0 : init? f = .ok s0) (ops : List Op) :
    s0.cur = f ∧ (run s0 (ops ++ [.clear])).cur = f ∧ (run s0 (ops ++ [.clear])).rot = M3.one := by
  obtain ⟨_, ho⟩ := accumulated_rotation f s0 h0 ops
  have hs := init?_ok_inv f s0 h0
  refine ⟨by rw [hs], ?_, ?_⟩
  · rw [run_append]; simp only [run, step]; exact ho
  · rw [run_append]; simp only [run, step]

/-- the accumulated matrix stays a proper rotation along any history of proper rotations -/
theorem accumulated_is_rotation (s : Rotator) (hs : s.rot.IsRot) (ops : List Op)
    (hops : ∀ Q n, Op.rotate Q n ∈ ops → Q.IsRot) : (run s ops).rot.IsRot := by
  induction ops generalizing s with
  | nil => exact hs
  | cons op ops ih =>
    simp only [run]
    apply ih
    · cases op with
      | rotate Q n => rw [step_rotate_rot]; exact (hops Q n (by simp)).mul hs
      | clear => exact M3.isRot_one
      | unknown => exact hs
    · intro Q n hm; exact hops Q n (by simp [hm])

/-- instance: rotate, clear, rotate twice — the accumulated matrix is the product of the last two -/
example : ∃ s0, init? exF = .ok s0 ∧
    (run s0 [.rotate exR2 none, .clear, .rotate exR2 (some [3, 3, 3]), .rotate exR none]).rot = exR.mul exR2 := by
  obtain ⟨s0, h0⟩ := isOk_sound (init? exF) (by decide +kernel)
  refine ⟨s0, h0, ?_⟩
  rw [(accumulated_rotation exF s0 h0 _).1]
  decide +kernel

/-- **the accumulated rotation acts in call order.** The ordered product of the rotations
issued since the last clear maps a vector as the rotations do one after the other, first call
first; its inverse (used to resample the positions) undoes them last call first; and it is a
proper rotation whenever every factor is. -/
theorem accumulated_acts_in_call_order (Qs : List M3) (v : V3) :
    (prodL Qs).apply v = Qs.foldl (fun u Q => Q.apply u) v ∧
    (prodL Qs).tr.apply v = Qs.foldr (fun Q u => Q.tr.apply u) v ∧
    ((∀ Q ∈ Qs, Q.IsRot) → (prodL Qs).IsRot) :=
  ⟨prodL_apply Qs v, prodL_tr_apply Qs v, prodL_isRot Qs⟩

/-- **values after any history.** After ANY history `ops` (rotations, clears, refused calls)
followed by a successful `rotate Q n`, the current field is the single rotation of the ORIGINAL
field by the ordered product `Q·Q_k⋯Q_1` of the rotations since the last clear: every cell holds
that product applied (through the component permutation) to the multilinear interpolant of the
original at the cell centre taken back through `Q_1ᵀ(Q_2ᵀ(⋯Qᵀ(c − c₀)))` — no accumulation of
interpolation error, for any number of calls. -/
theorem history_values (f : Fld) (hf : WF f) (s0 : Rotator) (h0 : init? f = .ok s0) (ops : List Op) (Q : M3)
    (n? : Option (List Nat)) (g : Fld) (hg : rotateOnce f (Q.mul (prodL (seg [] ops))) n? = .ok g) :
    (run s0 (ops ++ [.rotate Q n?])).cur = g ∧ (run s0 (ops ++ [.rotate Q n?])).rot = prodL (seg [] ops ++ [Q]) ∧
    ∃ ord, ordFor f = .ok ord ∧ ∀ idx,
      g.data.get idx = rotVal f.nvdim (prodL (seg [] ops ++ [Q])) ord
        (origAt f (backPos f (prodL (seg [] ops ++ [Q])) g.mesh idx)) ∧
      backPos f (prodL (seg [] ops ++ [Q])) g.mesh idx
        = (seg [] ops ++ [Q]).foldr (fun A u => A.tr.apply u) ((V3.ofList (g.mesh.centre idx)).sub (centreV f.mesh)) := by
  obtain ⟨hr, hok, _⟩ := history_eq_single f s0 h0 ops Q n?
  rw [prodL_append]
  obtain ⟨ord, ho, hv⟩ := rot_general f hf _ n? g hg
  refine ⟨hok g hg, hr, ord, ho, fun idx => ⟨hv idx, ?_⟩⟩
  rw [← prodL_append]
  unfold backPos
  exact prodL_tr_apply _ _

/-- **any history of lattice rotations copies cells of the original.** Signed permutation
matrices are closed under products (`IsLat.mul`), every quarter turn `Rq p q k` is one
(`LatM.rq`): so after ANY history of quarter turns in any planes (clears and refused calls
interspersed) a further quarter turn with automatic `n` leaves a field whose accumulated
matrix is again a signed permutation `(π, s)`, whose cell counts are the original ones permuted
by `π`, and in which every cell holds the rotated value of exactly one cell of the ORIGINAL
field — no interpolation, for any number of calls and any cell sizes. -/
theorem lattice_history_copies_cells (f : Fld) (hf : WF f) (hlen : ∀ idx, (f.data.get idx).length = f.nvdim)
    (s0 : Rotator) (h0 : init? f = .ok s0) (ops : List Op) (hops : ∀ Q n, Op.rotate Q n ∈ ops → LatM Q)
    (Q : M3) (hQ : LatM Q) (g : Fld) (hg : rotateOnce f (Q.mul (prodL (seg [] ops))) none = .ok g) :
    (run s0 (ops ++ [.rotate Q none])).cur = g ∧
    ∃ π s, IsLat (Q.mul (prodL (seg [] ops))) π s ∧ g.mesh.n = (tab 3 fun i => f.mesh.nAt (pinv π i)) ∧
      ∃ ord, ordFor f = .ok ord ∧ ∀ idx, (∀ i, i < 3 → idx.getD i 0 < f.mesh.nAt (pinv π i)) →
        g.data.get idx = rotVal f.nvdim (Q.mul (prodL (seg [] ops))) ord
          (f.data.get [latSrc f.mesh.nAt π s idx 0, latSrc f.mesh.nAt π s idx 1, latSrc f.mesh.nAt π s idx 2]) := by
  obtain ⟨_, hok, _⟩ := history_eq_single f s0 h0 ops Q none
  have hP : LatM (prodL (seg [] ops)) := LatM.prodL _ (seg_mem [] ops LatM (fun _ h => by cases h) hops)
  obtain ⟨π, s, hL⟩ := hQ.mul hP
  obtain ⟨c1, _, ord, ho, hv⟩ := rot_lattice_copies_cells f hf hlen hL none (Or.inl rfl) g hg
  exact ⟨hok g hg, π, s, hL, c1, ord, ho, hv⟩

example : LatM (Rq 0 1 1) ∧ LatM (Rq 1 2 (-3)) ∧ LatM ((Rq 2 0 5).mul (Rq 0 1 1)) :=
  ⟨LatM.rq 0 1 1 (by omega) (by omega) (by omega), LatM.rq 1 2 (-3) (by omega) (by omega) (by omega),
   (LatM.rq 2 0 5 (by omega) (by omega) (by omega)).mul (LatM.rq 0 1 1 (by omega) (by omega) (by omega))⟩

/-- **a rotation that is undone restores the original.** If after any history the next rotation
brings the accumulated product back to the identity (for instance `rotate Q; rotate Qᵀ`), then
— with the original cell counts or the automatic ones — the current field has the original
region corners and cell counts and the ORIGINAL value in every cell, exactly. -/
theorem rotation_undone_restores (f : Fld) (hf : WF f) (hlen : ∀ idx, (f.data.get idx).length = f.nvdim)
    (hperm : f.nvdim = 3 → ∀ ord, ordFor f = .ok ord → PermOrd ord)
    (s0 : Rotator) (h0 : init? f = .ok s0) (ops : List Op) (Q : M3) (hQ : Q.mul (prodL (seg [] ops)) = M3.one)
    (n? : Option (List Nat)) (hn : n? = none ∨ n? = some [f.mesh.nAt 0, f.mesh.nAt 1, f.mesh.nAt 2])
    (g : Fld) (hg : rotateOnce f M3.one n? = .ok g) :
    (run s0 (ops ++ [.rotate Q n?])).rot = M3.one ∧ (run s0 (ops ++ [.rotate Q n?])).cur = g ∧
    (∀ a, a < 3 → g.mesh.region.lo a = f.mesh.region.lo a ∧ g.mesh.region.hi a = f.mesh.region.hi a ∧
                  g.mesh.nAt a = f.mesh.nAt a) ∧
    ∀ i j k, i < f.mesh.nAt 0 → j < f.mesh.nAt 1 → k < f.mesh.nAt 2 → g.data.get [i, j, k] = f.data.get [i, j, k] := by
  obtain ⟨hr, hok, _⟩ := history_eq_single f s0 h0 ops Q n?
  rw [hQ] at hr hok
  have hn' : n? = none ∨ n? = some (tab 3 fun i => f.mesh.nAt (pinv (fun j => j) i)) := hn
  obtain ⟨c1, c2, ord, ho, hv⟩ := rot_lattice_copies_cells f hf hlen one_isLat n? hn' g hg
  refine ⟨hr, hok g hg, ?_, ?_⟩
  · intro a ha
    obtain ⟨l1, l2⟩ := c2 a ha
    rw [pinv_id a ha] at l1 l2
    refine ⟨by rw [l1]; unfold centreAt Region.edge; ring, by rw [l2]; unfold centreAt Region.edge; ring, ?_⟩
    unfold Mesh.nAt at *
    rw [c1, getD_tab _ _ _ _ ha, pinv_id a ha]
  · intro i j k hi hj hk
    have hidx : ∀ a, a < 3 → [i, j, k].getD a 0 < f.mesh.nAt (pinv (fun j => j) a) := by
      intro a ha
      rw [pinv_id a ha]
      have : a = 0 ∨ a = 1 ∨ a = 2 := by omega
      rcases this with e | e | e <;> subst e <;> assumption
    rw [hv _ hidx]
    have hsrc : ∀ a, latSrc f.mesh.nAt (fun j => j) (fun _ => 1) [i, j, k] a = [i, j, k].getD a 0 := by
      intro a; unfold latSrc; rw [if_pos rfl]
    rw [hsrc 0, hsrc 1, hsrc 2]
    simp only [List.getD_cons_zero, List.getD_cons_succ]
    rcases hf.2 with h1 | ⟨h3, _⟩
    · unfold rotVal; rw [if_pos h1]
    · rw [h3]
      exact rotVal_one (hperm h3 ord ho) _ (by rw [hlen, h3])

/-- `rotate Q; rotate Qᵀ`: the instance of `rotation_undone_restores` the property names -/
theorem rotate_then_inverse (Q : M3) (hQ : Q.IsRot) (n1 : Option (List Nat)) :
    Q.tr.mul (prodL (seg [] [.rotate Q n1])) = M3.one := by
  show Q.tr.mul (M3.one.mul Q) = M3.one
  rw [M3.one_mul]; exact hQ.1

example : isOk (rotateOnce exF M3.one none) = true ∧ isOk (rotateOnce exV M3.one (some [4, 4, 3])) = true ∧
    exR.tr.mul (prodL (seg [] [.rotate exR none])) = M3.one := by
  decide +kernel

/-- **unknown method names are refused without a trace**: the call fails, nothing changes, and
any history reaches the same state as the history with those calls removed. -/
theorem unknown_method_refused (s : Rotator) (ops : List Op) :
    step s .unknown = (s, some .value) ∧ run s (ops.filter fun o => !o.isUnknown) = run s ops :=
  ⟨rfl, run_skip_unknown s ops⟩

/-! ## acceptance: well-formed calls are never refused -/

/-- **constructor.** Scalar and 3-vector fields on 3-d meshes whose labels are all mapped to
axes are accepted, with the identity rotation and the original field as state. -/
theorem constructor_accepts (f : Fld) (hv : f.nvdim = 1 ∨ f.nvdim = 3) (hnd : f.mesh.region.ndim = 3)
    (hmap : f.nvdim = 3 → ∀ v ∈ f.vdims.getD [], ∃ d, Fld.lookup f.vmap v = some d ∧ f.mesh.region.dims.contains d = true) :
    init? f = .ok ⟨f, M3.one, f⟩ :=
  init_accepts f hv hnd hmap

/-- **complete mappings give a component order**: if every spatial axis is the image of some
mapped label and every mapped label is a component label, `ordered_idx` exists (scalar fields
need nothing). Together with `unmapped_axis_refused` this is exact. -/
theorem complete_mapping_accepted (f : Fld)
    (hsur : ∀ a, a < 3 → ∃ p ∈ f.vmap, p.2 = f.mesh.region.dims.getD a "")
    (hkeys : ∀ p ∈ f.vmap, ∃ k, f.vdimIndex p.1 = some k) : ∃ ord, ordFor f = .ok ord :=
  ordFor_accepts f hsur hkeys

/-- **`rotate` is never refused on well-formed input.** For a well-formed field with a component
order, after ANY history of proper rotations / clears / refused calls, a further proper rotation
with no `n` or with three positive counts succeeds, and the new field has the requested (or
automatic) counts on the bounding box. -/
theorem rotate_accepted (f : Fld) (hm : Mesh3 f.mesh) (ord : List Nat) (ho : ordFor f = .ok ord)
    (s0 : Rotator) (h0 : init? f = .ok s0) (ops : List Op) (hops : ∀ Q n, Op.rotate Q n ∈ ops → Q.IsRot)
    (Q : M3) (hQ : Q.IsRot) (n? : Option (List Nat)) (hn : ∀ n, n? = some n → n.length = 3 ∧ ∀ k ∈ n, k ≠ 0) :
    (step (run s0 ops) (.rotate Q n?)).2 = none ∧
    newRegion f (Q.mul (prodL (seg [] ops))) = .ok (step (run s0 ops) (.rotate Q n?)).1.cur.mesh.region ∧
    (step (run s0 ops) (.rotate Q n?)).1.cur.mesh.n
      = n?.getD (autoN f (Q.mul (prodL (seg [] ops))) (boxRegion f (Q.mul (prodL (seg [] ops))))) := by
  obtain ⟨hr, hor⟩ := accumulated_rotation f s0 h0 ops
  have hs0 := init?_ok_inv f s0 h0
  have hrot : (run s0 ops).rot.IsRot := accumulated_is_rotation s0 (by rw [hs0]; exact M3.isRot_one) ops hops
  have hR : (Q.mul (prodL (seg [] ops))).IsRot := by rw [← hr]; exact hQ.mul hrot
  have hacc := rotateOnce_accepts f hm hR ord ho n? hn
  have hstep := step_rotate_ok (run s0 ops) Q n? _ (by rw [hor, hr]; exact hacc)
  rw [hstep]
  exact ⟨rfl, newRegion_accepts f hm hR, rfl⟩

example : ∃ s0, init? exV = .ok s0 ∧ ordFor exV = .ok [1, 0, 2] ∧ exR.IsRot ∧ exR2.IsRot :=
  ⟨_, constructor_accepts exV (Or.inr rfl) rfl (by decide +kernel), exOrdV, by decide +kernel, by decide +kernel⟩

/-! ## refusals -/

/-- **rot_refusals.** The constructor refuses fields that are neither scalar nor 3-vector,
meshes that are not three-dimensional, and vector fields with a component label that has no
spatial axis (missing from the mapping, or mapped to something that is not an axis). -/
theorem rot_refusals (f : Fld) :
    (f.nvdim ≠ 1 → f.nvdim ≠ 3 → init? f = .error .value) ∧
    (f.mesh.region.ndim ≠ 3 → init? f = .error .value) ∧
    (f.nvdim = 3 → ∀ v, v ∈ f.vdims.getD [] →
      (Fld.lookup f.vmap v = none ∨ ∃ d, Fld.lookup f.vmap v = some d ∧ f.mesh.region.dims.contains d = false) →
      init? f = .error .value) := by
  refine ⟨?_, ?_, ?_⟩
  · intro h1 h3
    unfold init?
    rw [if_pos ⟨h1, h3⟩]
  · intro hn
    unfold init?
    split
    · rfl
    · rfl
  · intro h3 v hv hbad
    unfold init?
    rw [if_neg (by omega)]
    split
    · rfl
    · rw [if_pos]
      simp only [Bool.and_eq_true, decide_eq_true_eq, Bool.not_eq_true']
      refine ⟨by omega, ?_⟩
      rw [List.all_eq_false]
      refine ⟨v, hv, ?_⟩
      rcases hbad with hb | ⟨d, hd, hc⟩
      · rw [hb]; simp
      · rw [hd]
        simp only [Bool.not_eq_true] at hc ⊢
        exact hc

/-- **the constructor's acceptance, exactly.** `FieldRotator(field)` succeeds if and only if the
field is scalar or 3-vector, the mesh is three-dimensional and (for vectors) every component
label is mapped to an axis name of the mesh. -/
theorem constructor_iff (f : Fld) :
    (∃ s, init? f = .ok s) ↔
      ((f.nvdim = 1 ∨ f.nvdim = 3) ∧ f.mesh.region.ndim = 3 ∧
       (f.nvdim = 3 → ∀ v ∈ f.vdims.getD [], ∃ d, Fld.lookup f.vmap v = some d ∧ f.mesh.region.dims.contains d = true)) := by
  constructor
  · rintro ⟨s, hs⟩
    obtain ⟨r1, r2, r3⟩ := rot_refusals f
    have hv : f.nvdim = 1 ∨ f.nvdim = 3 := by
      by_contra hc
      rw [r1 (fun e => hc (Or.inl e)) (fun e => hc (Or.inr e))] at hs; cases hs
    have hnd : f.mesh.region.ndim = 3 := by
      by_contra hc
      rw [r2 hc] at hs; cases hs
    refine ⟨hv, hnd, ?_⟩
    intro h3 v hv'
    cases hl : Fld.lookup f.vmap v with
    | none => rw [r3 h3 v hv' (Or.inl hl)] at hs; cases hs
    | some d =>
      cases hc : f.mesh.region.dims.contains d with
      | false => rw [r3 h3 v hv' (Or.inr ⟨d, hl, hc⟩)] at hs; cases hs
      | true => exact ⟨d, rfl, hc⟩
  · rintro ⟨hv, hnd, hmap⟩
    exact ⟨_, constructor_accepts f hv hnd hmap⟩

/-- **malformed `n` is refused, but the rotation stays accumulated.** Cell counts of the wrong
length or with a zero entry make the call fail and leave the current field untouched; the
accumulated rotation has already been multiplied (as in the code, where `_rotation` is updated
before the mesh is built) — the next call continues from it. -/
theorem bad_n_refused (s : Rotator) (Q : M3) (n : List Nat) (hbad : n.length ≠ 3 ∨ 0 ∈ n) :
    (step s (.rotate Q (some n))).2 ≠ none ∧ (step s (.rotate Q (some n))).1.cur = s.cur ∧
    (step s (.rotate Q (some n))).1.rot = Q.mul s.rot := by
  have hro : ∃ e, rotateOnce s.orig (Q.mul s.rot) (some n) = .error e := by
    unfold rotateOnce
    cases hreg : newRegion s.orig (Q.mul s.rot) with
    | error e1 => exact ⟨e1, rfl⟩
    | ok reg =>
      simp only [Option.getD_some]
      have hnd : reg.ndim = 3 := by unfold Region.ndim; rw [(newRegion_ok_inv _ _ reg hreg).1]; simp
      have hmk : ∃ e, Mesh.mkN? reg n = .error e := by
        unfold Mesh.mkN?
        rcases hbad with hl | hz
        · exact ⟨.value, by rw [if_pos (by rw [hnd]; exact hl)]⟩
        · by_cases hl : n.length ≠ reg.ndim
          · exact ⟨.value, by rw [if_pos hl]⟩
          · rw [if_neg hl]
            have : n.any (· = 0) = true := by
              rw [List.any_eq_true]; exact ⟨0, hz, by simp⟩
            exact ⟨.value, by rw [this]; rfl⟩
      obtain ⟨e, he⟩ := hmk
      rw [he]; exact ⟨e, rfl⟩
  obtain ⟨e, he⟩ := hro
  rw [step_rotate_err s Q _ e he]
  exact ⟨by simp, rfl, rfl⟩

example : ([2, 2] : List Nat).length ≠ 3 ∨ 0 ∈ ([2, 2] : List Nat) := Or.inl (by decide)
example : ([2, 0, 1] : List Nat).length ≠ 3 ∨ 0 ∈ ([2, 0, 1] : List Nat) := Or.inr (by decide)

/-- A vector field with a spatial axis no component is mapped to (e.g. a non-injective
mapping, which the constructor lets through) is refused by every `rotate`: the call fails,
the current field stays what it was. -/
theorem unmapped_axis_refused (s : Rotator) (Q : M3) (n? : Option (List Nat)) (h1 : s.orig.nvdim ≠ 1)
    (a : Nat) (ha : a < 3) (hu : ordAt s.orig a = none) :
    (step s (.rotate Q n?)).2 ≠ none ∧ (step s (.rotate Q n?)).1.cur = s.cur := by
  have hord : ∃ e, ordFor s.orig = .error e := by
    unfold ordFor
    rw [if_neg h1]
    have : a = 0 ∨ a = 1 ∨ a = 2 := by omega
    rcases this with e | e | e <;> subst e <;> rw [hu]
    · exact ⟨_, rfl⟩
    · cases ordAt s.orig 0 <;> exact ⟨_, rfl⟩
    · cases ordAt s.orig 0 <;> cases ordAt s.orig 1 <;> exact ⟨_, rfl⟩
  obtain ⟨e, he⟩ := hord
  have hro : ∃ e', rotateOnce s.orig (Q.mul s.rot) n? = .error e' := by
    unfold rotateOnce
    cases newRegion s.orig (Q.mul s.rot) with
    | error e1 => exact ⟨e1, rfl⟩
    | ok reg =>
      simp only
      cases Mesh.mkN? reg (n?.getD (autoN s.orig (Q.mul s.rot) reg)) with
      | error e2 => exact ⟨e2, rfl⟩
      | ok nm => simp only [he]; exact ⟨e, rfl⟩
  obtain ⟨e', he'⟩ := hro
  rw [step_rotate_err s Q n? e' he']
  exact ⟨by simp, rfl⟩

/-- instances: a 2-component field is refused; with the non-injective mapping
`p ↦ x, q ↦ x, r ↦ z` no component belongs to the `y` axis -/
example : init? { exF with nvdim := 2 } = .error .value := (rot_refusals _).1 (by decide) (by decide)
example : ordAt { exV with vmap := [("p", "x"), ("q", "x"), ("r", "z")] } 1 = none := by decide +kernel
example : isOk (init? exV) = true ∧ isOk (init? { exV with vmap := [("p", "x"), ("q", "x"), ("r", "z")] }) = true := by
  decide +kernel

/-! ## automatic cell counts (`_calculate_new_n`) -/

/-- **roundCbrt_spec.** The integer the model returns for the rounded cube root is the
nearest integer to the real cube root: `(k − ½)³ ≤ q < (k + ½)³`, and it is the only one. -/
theorem roundCbrt_spec (q : Rat) (hq : 0 ≤ q) :
    ((1 ≤ roundCbrt q → cube ((roundCbrt q : Rat) - 1/2) ≤ q) ∧ q < cube ((roundCbrt q : Rat) + 1/2)) ∧
    (∀ k : Nat, (1 ≤ k → cube ((k : Rat) - 1/2) ≤ q) → q < cube ((k : Rat) + 1/2) → roundCbrt q = k) :=
  ⟨roundCbrt_bounds q hq, fun k h1 h2 => roundCbrt_unique q hq k h1 h2⟩

/-- perfect cubes: a rotation that maps the lattice onto itself keeps the cell counts -/
theorem roundCbrt_cube (k : Nat) : roundCbrt (cube (k : Rat)) = k := by
  have hk : (0 : Rat) ≤ (k : Rat) := Nat.cast_nonneg k
  apply roundCbrt_unique _ (by unfold cube; positivity) k
  · intro h1
    have : (1 : Rat) ≤ (k : Rat) := by exact_mod_cast h1
    exact cube_mono _ _ (by linarith) (by linarith)
  · exact cube_strict _ _ hk (by linarith)

example : roundCbrt (cube 4) = 4 := by
  have := roundCbrt_cube 4
  simpa using this

/-! # second extension round -/

/-! ## rational rotations that are not quarter turns -/

/-- **plane rotations with rational cosine and sine** (`cos = 3/5, sin = 4/5`, …): for every
coordinate plane `(p, q)` and every rational point `(c, s)` of the unit circle `Rcs p q c s` is a
proper rotation; two of them in the same plane multiply by the angle-addition formulas (so they
commute); the opposite angle is the transpose; angle zero is the identity; and swapping the roles
of the two axes reverses the angle. -/
theorem plane_rotation_laws (p q : Nat) (hp : p < 3) (hq : q < 3) (hpq : p ≠ q) (c s c' s' : Rat)
    (h : c * c + s * s = 1) :
    (Rcs p q c s).IsRot ∧ (Rcs p q c s).mul (Rcs p q c' s') = Rcs p q (c * c' - s * s') (s * c' + c * s') ∧
    Rcs p q c (-s) = (Rcs p q c s).tr ∧ Rcs p q 1 0 = M3.one ∧ Rcs q p c s = Rcs p q c (-s) :=
  ⟨Rcs_isRot p q hp hq hpq c s h, Rcs_mul p q hp hq hpq c s c' s', Rcs_tr p q hp hq hpq c s, Rcs_one p q hp hq hpq,
   Rcs_swap p q hp hq hpq c s⟩

example : (3/5 : Rat) * (3/5) + (4/5) * (4/5) = 1 := by norm_num

/-- **all rational angles are Pythagorean.** For rationals `m, n` (not both zero) `pythC m n`,
`pythS m n` — `(m² − n², 2mn)/(m² + n²)` — is a rational point of the unit circle, every rational
point except `(−1, 0)` arises so, and the rotation about coordinate axis `a` by that angle is the
rotation of the half-angle quaternion `m + n·e_a` (the form in which the correspondence run hands
these rotations to the model). -/
theorem pythagorean_angles (m n : Rat) (h : m * m + n * n ≠ 0) :
    pythC m n * pythC m n + pythS m n * pythS m n = 1 ∧
    (∀ a, a < 3 → RaxisCS a (pythC m n) (pythS m n)
      = M3.ofQuat m (if a = 0 then n else 0) (if a = 1 then n else 0) (if a = 2 then n else 0)) ∧
    (∀ c s : Rat, c * c + s * s = 1 → c ≠ -1 → c = pythC (1 + c) s ∧ s = pythS (1 + c) s) :=
  ⟨pyth_unit m n h, fun a ha => RaxisCS_eq_ofQuat a ha m n h, fun c s hcs hc => pyth_complete c s hcs hc⟩

/-- `(m, n) = (2, 1)`: the 3-4-5 angle; `(3, 2)`: the 5-12-13 angle -/
example : pythC 2 1 = 3/5 ∧ pythS 2 1 = 4/5 ∧ pythC 3 2 = 5/13 ∧ pythS 3 2 = 12/13 := by
  unfold pythC pythS; norm_num

/-- **Euler sequences of rational angles** (`from_euler(seq, angles)` with every angle given by a
rational cosine and sine, any length, any axes — quarter turns are the special case `eulerQ`):
always a proper rotation; an intrinsic (upper-case) sequence is the reversed extrinsic one; the
extrinsic sequence is the ordered product — later rotations on the left — that a history of
single-axis `rotate` calls accumulates. -/
theorem euler_rational_sequences (intr : Bool) (seq : List (Nat × Rat × Rat)) (h : UnitCS seq) (qs : List (Nat × Int)) :
    (eulerCS intr seq).IsRot ∧ eulerCS true seq = eulerCS false seq.reverse ∧
    eulerCS false seq = prodL (seq.map fun x => RaxisCS x.1 x.2.1 x.2.2) ∧
    eulerQ intr qs = eulerCS intr (qs.map fun x => (x.1, T.cosq x.2, T.sinq x.2)) :=
  ⟨eulerCS_isRot intr seq h, eulerCS_intrinsic_reverse seq, eulerCS_extrinsic_prodL seq, eulerQ_eq_CS intr qs⟩

/-- `from_euler("zx", [atan2(4, 3), atan2(12, 5)])` and its intrinsic twin differ -/
example : UnitCS [(2, 3/5, 4/5), (0, 5/13, 12/13)] ∧
    eulerCS false [(2, 3/5, 4/5), (0, 5/13, 12/13)] ≠ eulerCS true [(2, 3/5, 4/5), (0, 5/13, 12/13)] := by
  unfold UnitCS; decide +kernel

/-- **rotation vectors with rational axis and rational angle** (`from_rotvec(θ·u)`, `u` a rational
unit vector such as `(1, 2, 2)/3`, `cos θ` and `sin θ` rational): Rodrigues' matrix is a proper
rotation that fixes `u`, has trace `1 + 2 cos θ`, is transposed by the opposite angle, unchanged by
reversing axis and angle together, adds angles about the same axis, and about a coordinate axis is
the plane rotation `RaxisCS`. -/
theorem axis_angle_spec (u : V3) (hu : u.dot u = 1) (c s c' s' : Rat) (h : c * c + s * s = 1) :
    (ofAxisAngle u c s).IsRot ∧ (ofAxisAngle u c s).apply u = u ∧
    (ofAxisAngle u c s).e 0 0 + (ofAxisAngle u c s).e 1 1 + (ofAxisAngle u c s).e 2 2 = 1 + 2 * c ∧
    ofAxisAngle u c (-s) = (ofAxisAngle u c s).tr ∧ ofAxisAngle ⟨-u.x, -u.y, -u.z⟩ c (-s) = ofAxisAngle u c s ∧
    (ofAxisAngle u c s).mul (ofAxisAngle u c' s') = ofAxisAngle u (c * c' - s * s') (s * c' + c * s') ∧
    (∀ a, a < 3 → ofAxisAngle ⟨if a = 0 then 1 else 0, if a = 1 then 1 else 0, if a = 2 then 1 else 0⟩ c s = RaxisCS a c s) :=
  ⟨ofAxisAngle_isRot u c s hu h, ofAxisAngle_axis u c s hu, ofAxisAngle_trace u c s hu, ofAxisAngle_neg u c s,
   ofAxisAngle_flip u c s, ofAxisAngle_mul u hu c s c' s', fun a ha => ofAxisAngle_coord a ha c s⟩

example : (⟨1/3, 2/3, 2/3⟩ : V3).dot ⟨1/3, 2/3, 2/3⟩ = 1 ∧ (ofAxisAngle ⟨1/3, 2/3, 2/3⟩ (3/5) (4/5)).IsRot := by
  decide +kernel

/-- **rotation vector = quaternion.** The rotation about the rational unit axis `u` by the
Pythagorean angle with half-angle tangent `n/m` (what `from_rotvec(θ·u)` builds) is the rotation
of the quaternion `m + n·u` (what `from_quat` builds): the two families the correspondence run
feeds to the real code meet in the same rational matrices. -/
theorem axis_angle_is_quaternion (u : V3) (hu : u.dot u = 1) (m n : Rat) (h : m * m + n * n ≠ 0) :
    ofAxisAngle u (pythC m n) (pythS m n) = M3.ofQuat m (n * u.x) (n * u.y) (n * u.z) :=
  ofAxisAngle_eq_ofQuat u hu m n h

/-! ## the resampling statement from hypotheses on the inputs only -/

/-- **every rational rotation resamples as the property says — from hypotheses on the inputs
alone.** For a well-formed field with a component order, EVERY proper rotation with rational entries
(3-4-5 rotations, their products in different planes, any rational quaternion …) and no `n` or
three positive counts: `rotate` succeeds; the new region is the bounding box; the counts are the
requested / automatic ones (all ≥ 1); a cell whose back-rotated centre is at least one cell inside
the original region holds `R` applied (through the component permutation) to the eight-cell
multilinear interpolant of the original there; a cell whose back-rotated centre is outside the
region by more than the `1e-9`-cell padding holds zero. -/
theorem rational_rotation_resamples (f : Fld) (hf : WF f) (ord : List Nat) (ho : ordFor f = .ok ord) (R : M3) (hR : R.IsRot)
    (n? : Option (List Nat)) (hn : ∀ n, n? = some n → n.length = 3 ∧ ∀ k ∈ n, k ≠ 0) :
    ∃ g, rotateOnce f R n? = .ok g ∧ g.mesh.region = boxRegion f R ∧
      g.mesh.n = n?.getD (autoN f R (boxRegion f R)) ∧ g.mesh.n.length = 3 ∧ (∀ k ∈ g.mesh.n, k ≠ 0) ∧
      ∀ idx,
        ((∀ a, a < 3 →
            f.mesh.region.lo a + f.mesh.cellAt a ≤ (backPos f R g.mesh idx).get a + centreAt f.mesh a ∧
            (backPos f R g.mesh idx).get a + centreAt f.mesh a ≤ f.mesh.region.hi a - f.mesh.cellAt a) →
          ∃ k0 k1 k2, Between f.mesh 0 k0 (backPos f R g.mesh idx).x ∧ Between f.mesh 1 k1 (backPos f R g.mesh idx).y ∧
            Between f.mesh 2 k2 (backPos f R g.mesh idx).z ∧
            g.data.get idx = rotVal f.nvdim R ord (tab f.nvdim fun c =>
              cellInterp f c k0 k1 k2
                (((backPos f R g.mesh idx).x - centreRel f.mesh 0 k0) / f.mesh.cellAt 0)
                (((backPos f R g.mesh idx).y - centreRel f.mesh 1 k1) / f.mesh.cellAt 1)
                (((backPos f R g.mesh idx).z - centreRel f.mesh 2 k2) / f.mesh.cellAt 2))) ∧
        ((∃ a, a < 3 ∧
            ((backPos f R g.mesh idx).get a + centreAt f.mesh a < f.mesh.region.lo a - f.mesh.cellAt a * tolI ∨
             f.mesh.region.hi a + f.mesh.cellAt a * tolI < (backPos f R g.mesh idx).get a + centreAt f.mesh a)) →
          g.data.get idx = tab f.nvdim fun _ => 0) := by
  have hacc := rotateOnce_accepts f hf.1 hR ord ho n? hn
  have hreg := newRegion_accepts f hf.1 hR
  obtain ⟨al, ap⟩ := autoN_pos f hf.1 hR _ hreg
  refine ⟨_, hacc, rfl, rfl, ?_, ?_, ?_⟩
  · show (n?.getD (autoN f R (boxRegion f R))).length = 3
    cases n? with
    | none => exact al
    | some n => exact (hn n rfl).1
  · show ∀ k ∈ n?.getD (autoN f R (boxRegion f R)), k ≠ 0
    cases n? with
    | none => exact ap
    | some n => exact (hn n rfl).2
  · intro idx
    constructor
    · intro hin
      obtain ⟨ord', k0, k1, k2, ho', b0, b1, b2, hv⟩ := rot_inside_value f hf R n? _ hacc idx hin
      rw [ho] at ho'
      injection ho' with ho'
      subst ho'
      exact ⟨k0, k1, k2, b0, b1, b2, hv⟩
    · rintro ⟨a, ha, hout⟩
      exact rot_outside_zero f R n? _ hacc idx a ha hout

/-- non-vacuity: a product of a 5-12-13 rotation about x and a 3-4-5 rotation about z (not a
lattice rotation, not about a coordinate axis) on the 4×4×3 example fields -/
example : WF exV ∧ ordFor exV = .ok [1, 0, 2] ∧ exPyth.IsRot := ⟨exWFV, exOrdV, by decide +kernel⟩

/-! ## every cell: the complete case analysis, edge band included -/

/-- the bounds test of the interpolator in absolute coordinates: within the region enlarged by
`1e-9` cell on every side -/
theorem inPad_iff_padded_box (f : Fld) (p : V3) :
    InPad f p ↔ ∀ a, a < 3 →
      f.mesh.region.lo a - f.mesh.cellAt a * tolI ≤ p.get a + centreAt f.mesh a ∧
      p.get a + centreAt f.mesh a ≤ f.mesh.region.hi a + f.mesh.cellAt a * tolI := by
  unfold InPad
  constructor
  · intro h a ha
    have := h a ha
    rw [gridNode_zero, gridNode_last] at this
    constructor <;> linarith [this.1, this.2]
  · intro h a ha
    have := h a ha
    rw [gridNode_zero, gridNode_last]
    constructor <;> linarith [this.1, this.2]

/-- **the value of EVERY target cell.** Either the back-rotated centre fails the bounds test
(outside the region enlarged by `1e-9` cell) and the cell holds zero in every component, or it
passes and the cell holds `R` applied to the eight-cell multilinear formula evaluated at the
back-rotated centre CLAMPED, per axis, to the box spanned by the first and last cell centres:
between a face and the nearest cell centre (and in the `1e-9`-cell sliver outside the face) the
boundary cell's value is continued unchanged (`np.pad(mode="edge")`), on an axis with a single
cell the result does not depend on that coordinate at all. No other case exists. -/
theorem rot_value_complete (f : Fld) (hf : WF f) (R : M3) (n? : Option (List Nat)) (g : Fld)
    (h : rotateOnce f R n? = .ok g) (idx : List Nat) :
    (¬ InPad f (backPos f R g.mesh idx) → g.data.get idx = tab f.nvdim fun _ => 0) ∧
    (InPad f (backPos f R g.mesh idx) → ∃ ord k0 k1 k2, ordFor f = .ok ord ∧
      Br f.mesh 0 k0 (clampV f.mesh (backPos f R g.mesh idx)).x ∧ Br f.mesh 1 k1 (clampV f.mesh (backPos f R g.mesh idx)).y ∧
      Br f.mesh 2 k2 (clampV f.mesh (backPos f R g.mesh idx)).z ∧
      g.data.get idx = rotVal f.nvdim R ord (tab f.nvdim fun c =>
        cellInterp f c k0 k1 k2
          (((clampV f.mesh (backPos f R g.mesh idx)).x - centreRel f.mesh 0 k0) / f.mesh.cellAt 0)
          (((clampV f.mesh (backPos f R g.mesh idx)).y - centreRel f.mesh 1 k1) / f.mesh.cellAt 1)
          (((clampV f.mesh (backPos f R g.mesh idx)).z - centreRel f.mesh 2 k2) / f.mesh.cellAt 2))) := by
  constructor
  · intro hout
    obtain ⟨reg, nm, ord, _, _, _, hg⟩ := rotateOnce_ok_inv f R n? g h
    subst hg
    rw [rotated_data]
    exact valuesAt_outside f R ord _ hout
  · intro hin
    obtain ⟨ord, ho, hv⟩ := rot_general f hf R n? g h
    have r0 := clampAx_range f.mesh 0 (hf.1 0 (by omega)) (backPos f R g.mesh idx).x
    have r1 := clampAx_range f.mesh 1 (hf.1 1 (by omega)) (backPos f R g.mesh idx).y
    have r2 := clampAx_range f.mesh 2 (hf.1 2 (by omega)) (backPos f R g.mesh idx).z
    obtain ⟨k0, b0⟩ := br_exists f.mesh 0 (hf.1 0 (by omega)) _ r0.1 r0.2
    obtain ⟨k1, b1⟩ := br_exists f.mesh 1 (hf.1 1 (by omega)) _ r1.1 r1.2
    obtain ⟨k2, b2⟩ := br_exists f.mesh 2 (hf.1 2 (by omega)) _ r2.1 r2.2
    refine ⟨ord, k0, k1, k2, ho, b0, b1, b2, ?_⟩
    rw [hv idx, ← origAt_clamp f hf.1 _ hin]
    congr 1
    apply eq_tab_of_getD _ _ _ 0 (origAt_length f _)
    intro c hc
    exact origAt_br f hf.1 (clampV f.mesh (backPos f R g.mesh idx)) k0 k1 k2 b0 b1 b2 c hc

/-- instance: the target cell `[3, 1, 1]` of the example looks back into the band between the
face `y = 0` and the first cell centres (it passes the bounds test but is less than half a cell
inside); its clamped position is in the brackets of cells `1, 0, 1` -/
example : InPad exF (backPos exF exR exNM [3, 1, 1]) ∧ (backPos exF exR exNM [3, 1, 1]).y < centreRel exF.mesh 1 0 ∧
    Br exF.mesh 0 1 (clampV exF.mesh (backPos exF exR exNM [3, 1, 1])).x ∧
    Br exF.mesh 1 0 (clampV exF.mesh (backPos exF exR exNM [3, 1, 1])).y ∧
    Br exF.mesh 2 1 (clampV exF.mesh (backPos exF exR exNM [3, 1, 1])).z := by
  unfold InPad Br; decide +kernel

/-! ## acceptance and refusal as equivalences -/

/-- **`rotate` succeeds exactly when …** For a field on a well-formed 3-d mesh and a proper
rotation: the call succeeds if and only if `n`, when given, has exactly three entries none of
which is zero, and the field is scalar or every spatial axis has a component mapped to it — no
other input (values, cell sizes, rotation) can make it fail. -/
theorem rotate_ok_iff (f : Fld) (hm : Mesh3 f.mesh) (R : M3) (hR : R.IsRot) (n? : Option (List Nat)) :
    (∃ g, rotateOnce f R n? = .ok g) ↔
      ((∀ n, n? = some n → n.length = 3 ∧ ∀ k ∈ n, k ≠ 0) ∧ (f.nvdim = 1 ∨ ∀ a, a < 3 → ∃ k, ordAt f a = some k)) :=
  rotateOnce_ok_iff f hm hR n?

/-- **… and so after any history.** After ANY history of proper rotations, clears and refused
calls a further proper rotation is accepted under exactly the same condition; it is refused
exactly when `n` is malformed or the vector field has an axis without a component — and then the
current field is kept while the rotation stays accumulated (`bad_n_refused`,
`unmapped_axis_refused`). -/
theorem rotate_accepted_iff (f : Fld) (hm : Mesh3 f.mesh) (s0 : Rotator) (h0 : init? f = .ok s0) (ops : List Op)
    (hops : ∀ Q n, Op.rotate Q n ∈ ops → Q.IsRot) (Q : M3) (hQ : Q.IsRot) (n? : Option (List Nat)) :
    (step (run s0 ops) (.rotate Q n?)).2 = none ↔
      ((∀ n, n? = some n → n.length = 3 ∧ ∀ k ∈ n, k ≠ 0) ∧ (f.nvdim = 1 ∨ ∀ a, a < 3 → ∃ k, ordAt f a = some k)) := by
  obtain ⟨hr, hor⟩ := accumulated_rotation f s0 h0 ops
  have hs0 := init?_ok_inv f s0 h0
  have hrot : (run s0 ops).rot.IsRot := accumulated_is_rotation s0 (by rw [hs0]; exact M3.isRot_one) ops hops
  have hR : (Q.mul (run s0 ops).rot).IsRot := hQ.mul hrot
  rw [← rotate_ok_iff f hm _ hR n?]
  constructor
  · intro hnone
    cases hres : rotateOnce (run s0 ops).orig (Q.mul (run s0 ops).rot) n? with
    | ok g => exact ⟨g, by rw [← hor]; exact hres⟩
    | error e => rw [step_rotate_err _ Q n? e hres] at hnone; cases hnone
  · rintro ⟨g, hg⟩
    rw [step_rotate_ok _ Q n? g (by rw [hor]; exact hg)]

/-- **a complete component-to-axis mapping, exactly.** The component order of `rotate` exists
if and only if the field is scalar or every spatial axis has a component; and when every mapped
label is a component label this says: every axis name is the image of some label (for an axis
that several labels are mapped to, the LAST one counts — `_r_dim_mapping`). -/
theorem mapping_complete_iff (f : Fld) :
    ((∃ ord, ordFor f = .ok ord) ↔ (f.nvdim = 1 ∨ ∀ a, a < 3 → ∃ k, ordAt f a = some k)) ∧
    ((∀ p ∈ f.vmap, ∃ k, f.vdimIndex p.1 = some k) → ∀ a,
      ((∃ k, ordAt f a = some k) ↔ ∃ p ∈ f.vmap, p.2 = f.mesh.region.dims.getD a "")) :=
  ⟨ordFor_ok_iff f, fun hk a => ordAt_some_iff f hk a⟩

example : (∀ p ∈ exV.vmap, (exV.vdimIndex p.1).isSome = true) ∧ ∀ a, a < 3 → (ordAt exV a).isSome = true := by
  decide +kernel

/-- **periodic boundary conditions, subregions, the validity mask and the unit have no effect.**
The constructor's decision and every result of `rotate` are the same whatever the original's
`bc`, subregions, mask and unit are (the code only warns about a non-empty `bc`); the rotated
field has no boundary conditions, no subregions, no unit, and every cell valid. -/
theorem bc_mask_unit_no_effect (f : Fld) (R : M3) (n? : Option (List Nat)) (bc : String) (subs : List (String × Region))
    (valid : NDA Bool) (unit : Option String) :
    rotateOnce { f with mesh := { f.mesh with bc := bc, subs := subs }, valid := valid, unit := unit } R n? = rotateOnce f R n? ∧
    ((∃ s, init? { f with mesh := { f.mesh with bc := bc, subs := subs }, valid := valid, unit := unit } = .ok s) ↔
      ∃ s, init? f = .ok s) ∧
    (∀ g, rotateOnce f R n? = .ok g →
      g.mesh.bc = "" ∧ g.mesh.subs = [] ∧ g.unit = none ∧ g.valid.shape = g.mesh.n ∧ g.valid.get = fun _ => true) := by
  refine ⟨rotateOnce_ignores f R n? bc subs valid unit, init_ignores f bc subs valid unit, ?_⟩
  intro g h
  obtain ⟨reg, nm, ord, _, hmk, _, hg⟩ := rotateOnce_ok_inv f R n? g h
  subst hg
  unfold Mesh.mkN? at hmk
  split at hmk
  · cases hmk
  · split at hmk
    · cases hmk
    · split at hmk
      · cases hmk
      · injection hmk with hmk
        subst hmk
        exact ⟨toLower_empty', rfl, rfl, rfl, rfl⟩

/-- non-vacuity: the vector example with periodic `bc = "xy"`, a subregion, a mask with holes and
a unit is accepted by the constructor and rotated exactly as the plain one -/
example : isOk (init? exP) = true ∧ exP.mesh.bc = "xy" ∧ exP.valid.get [1, 2, 0] = false ∧
    rotateOnce exP exPyth none = rotateOnce exV exPyth none :=
  ⟨by decide +kernel, rfl, rfl, (bc_mask_unit_no_effect exV exPyth none "xy" [("a", exReg)] _ (some "A/m")).1⟩

/-! ## independence of the unit of length, of the origin and of the unit of the value -/

/-- **homogeneity of `rotate`.** Take any field on a 3-d mesh, measure its coordinates in another
unit of length (`× s`, `s > 0`), move the origin (`+ d`) and measure its values in another unit
(`× t`): for EVERY matrix and every `n` the call is refused in exactly the same cases, and when
it succeeds the result is the old result in the new units — region corners `s·x + d`, the same
cell counts (the automatic ones included), every stored component times `t`, labels and mapping
unchanged. Nothing in `rotate` depends on an absolute length, position or magnitude (the padding
of the interpolation grid is `1e-9` of a CELL). -/
theorem rot_homogeneous (s : Rat) (hs : 0 < s) (d : Nat → Rat) (t : Rat) (f : Fld) (h3 : Is3d f.mesh.region) (R : M3)
    (n? : Option (List Nat)) :
    rotateOnce (affFld s d t f) R n? = (rotateOnce f R n?).map (affFld s d t) :=
  rotateOnce_aff s d hs t f h3 R n?

/-- the same, cell by cell: the rescaled input is accepted when the original is, with the same
cell counts, corners `s·x + d` and `t` times every stored component -/
theorem rot_homogeneous_cells (s : Rat) (hs : 0 < s) (d : Nat → Rat) (t : Rat) (f : Fld) (h3 : Is3d f.mesh.region) (R : M3)
    (n? : Option (List Nat)) (g : Fld) (h : rotateOnce f R n? = .ok g) :
    ∃ g', rotateOnce (affFld s d t f) R n? = .ok g' ∧ g'.mesh.n = g.mesh.n ∧
      (∀ a, a < 3 → g'.mesh.region.lo a = s * g.mesh.region.lo a + d a ∧ g'.mesh.region.hi a = s * g.mesh.region.hi a + d a) ∧
      (∀ idx c, (g'.data.get idx).getD c 0 = t * (g.data.get idx).getD c 0) ∧
      g'.nvdim = g.nvdim ∧ g'.vdims = g.vdims ∧ g'.vmap = g.vmap := by
  refine ⟨affFld s d t g, by rw [rot_homogeneous s hs d t f h3 R n?, h]; rfl, rfl, ?_, ?_, rfl, rfl, rfl⟩
  · intro a ha
    obtain ⟨reg, nm, ord, hreg, hmk, _, hg⟩ := rotateOnce_ok_inv f R n? g h
    have h3g : Is3d g.mesh.region := by
      subst hg
      show Is3d nm.region
      rw [(mkN?_ok_inv _ _ nm hmk).1]
      obtain ⟨e1, e2, _⟩ := newRegion_ok_inv f R reg hreg
      unfold Is3d; rw [e1, e2]; simp
    exact ⟨affReg_lo s d _ h3g.1 a ha, affReg_hi s d _ h3g.2 a ha⟩
  · intro idx c
    exact getD_map_mul t _ c

/-- **homogeneity of whole histories.** The rotator of the rescaled field is accepted exactly when
the original's is, and after ANY history of calls (rotations with any `n`, clears, refused calls)
its state is the rescaled state of the original's rotator: same accumulated matrix, current field
in the new units. -/
theorem history_homogeneous (s : Rat) (hs : 0 < s) (d : Nat → Rat) (t : Rat) (f : Fld) (h3 : Is3d f.mesh.region)
    (s0 : Rotator) (h0 : init? f = .ok s0) (ops : List Op) :
    init? (affFld s d t f) = .ok (affRot s d t s0) ∧
    run (affRot s d t s0) ops = affRot s d t (run s0 ops) ∧
    (run (affRot s d t s0) ops).rot = (run s0 ops).rot ∧ (run (affRot s d t s0) ops).cur = affFld s d t (run s0 ops).cur := by
  have hs0 := init?_ok_inv f s0 h0
  have hrun := run_aff s d hs t s0 (by rw [hs0]; exact h3) ops
  refine ⟨by rw [init_aff, h0]; rfl, hrun, by rw [hrun]; rfl, by rw [hrun]; rfl⟩

/-- non-vacuity: nanometre-sized copy of the example (`s = 1e-9`), moved far from the origin,
values in units of `8e5` -/
example : (0 : Rat) < 1/1000000000 ∧ Is3d exF.mesh.region ∧ Is3d exV.mesh.region ∧ isOk (rotateOnce exNano exPyth none) = true := by
  unfold Is3d; decide +kernel

/-! ## histories with the same ordered product -/

/-- **only the ordered product matters.** Two histories (of the same rotator) whose last calls
bring the accumulated products to the same matrix — e.g. one `from_euler` call and the sequence of
single-axis calls, four quarter turns and none, `rotate Q₁; rotate Q₂` and `rotate (Q₂Q₁)` — and
use the same `n` in the last call end with the same accumulated matrix, the same success or
failure, and on success the same current field: intermediate cell counts, intermediate failures,
clears before the last segment leave no trace. -/
theorem histories_same_product_agree (f : Fld) (s0 : Rotator) (h0 : init? f = .ok s0) (ops1 ops2 : List Op) (Q1 Q2 : M3)
    (hP : Q1.mul (prodL (seg [] ops1)) = Q2.mul (prodL (seg [] ops2))) (n? : Option (List Nat)) :
    (run s0 (ops1 ++ [.rotate Q1 n?])).rot = (run s0 (ops2 ++ [.rotate Q2 n?])).rot ∧
    (step (run s0 ops1) (.rotate Q1 n?)).2 = (step (run s0 ops2) (.rotate Q2 n?)).2 ∧
    ((step (run s0 ops1) (.rotate Q1 n?)).2 = none →
      (run s0 (ops1 ++ [.rotate Q1 n?])).cur = (run s0 (ops2 ++ [.rotate Q2 n?])).cur) := by
  obtain ⟨r1, ok1, _⟩ := history_eq_single f s0 h0 ops1 Q1 n?
  obtain ⟨r2, ok2, _⟩ := history_eq_single f s0 h0 ops2 Q2 n?
  obtain ⟨a1, o1⟩ := accumulated_rotation f s0 h0 ops1
  obtain ⟨a2, o2⟩ := accumulated_rotation f s0 h0 ops2
  refine ⟨by rw [r1, r2, hP], ?_, ?_⟩
  · cases hres : rotateOnce f (Q1.mul (prodL (seg [] ops1))) n? with
    | ok g =>
      rw [step_rotate_ok _ Q1 n? g (by rw [o1, a1]; exact hres), step_rotate_ok _ Q2 n? g (by rw [o2, a2, ← hP]; exact hres)]
    | error e =>
      rw [step_rotate_err _ Q1 n? e (by rw [o1, a1]; exact hres), step_rotate_err _ Q2 n? e (by rw [o2, a2, ← hP]; exact hres)]
  · intro hnone
    cases hres : rotateOnce f (Q1.mul (prodL (seg [] ops1))) n? with
    | ok g => rw [ok1 g hres, ok2 g (by rw [← hP]; exact hres)]
    | error e => rw [step_rotate_err _ Q1 n? e (by rw [o1, a1]; exact hres)] at hnone; cases hnone

/-- instance: two quarter turns followed by a half turn in the same plane, against no rotation at all -/
example : (Rq 0 1 2).mul (prodL (seg [] [.rotate (Rq 0 1 1) none, .rotate (Rq 0 1 1) (some [1, 1, 1])]))
    = M3.one.mul (prodL (seg [] [])) := by decide +kernel

/-- **one Euler call = the history of its single-axis calls.** `rotate("from_euler", seq, angles)`
with a lower-case (extrinsic) sequence of rational angles leaves the rotator — after any previous
history — in the state that the single-axis calls, issued one after the other in the order of the
sequence (with any intermediate `n`), leave it in: same accumulated matrix, same outcome, same
field. -/
theorem euler_call_eq_axis_calls (f : Fld) (s0 : Rotator) (h0 : init? f = .ok s0) (ops : List Op)
    (seq : List (Nat × Rat × Rat)) (a : Nat) (c s : Rat) (ns : List (Option (List Nat))) (n? : Option (List Nat))
    (hl : ns.length = seq.length) :
    (run s0 (ops ++ [.rotate (eulerCS false (seq ++ [(a, c, s)])) n?])).rot
      = (run s0 ((ops ++ (seq.zip ns).map fun x => Op.rotate (RaxisCS x.1.1 x.1.2.1 x.1.2.2) x.2) ++ [.rotate (RaxisCS a c s) n?])).rot ∧
    ((step (run s0 ops) (.rotate (eulerCS false (seq ++ [(a, c, s)])) n?)).2 = none →
      (run s0 (ops ++ [.rotate (eulerCS false (seq ++ [(a, c, s)])) n?])).cur
        = (run s0 ((ops ++ (seq.zip ns).map fun x => Op.rotate (RaxisCS x.1.1 x.1.2.1 x.1.2.2) x.2) ++ [.rotate (RaxisCS a c s) n?])).cur) := by
  have hseg : ∀ (cur : List M3) (l : List ((Nat × Rat × Rat) × Option (List Nat))),
      seg cur (l.map fun x => Op.rotate (RaxisCS x.1.1 x.1.2.1 x.1.2.2) x.2) = cur ++ l.map fun x => RaxisCS x.1.1 x.1.2.1 x.1.2.2 := by
    intro cur l
    induction l generalizing cur with
    | nil => simp [seg]
    | cons x l ih => simp only [List.map_cons, seg]; rw [ih]; simp
  have hsegapp : ∀ (cur : List M3) (a b : List Op), seg cur (a ++ b) = seg (seg cur a) b := by
    intro cur a b
    induction a generalizing cur with
    | nil => rfl
    | cons o a ih => cases o <;> simp only [List.cons_append, seg] <;> exact ih _
  have hprodapp : ∀ (A B : List M3), prodL (A ++ B) = (prodL B).mul (prodL A) := by
    intro A B
    induction A with
    | nil => simp [prodL, M3.mul_one]
    | cons Q A ih => simp only [List.cons_append, prodL]; rw [ih, M3.mul_assoc]
  have hzip : (seq.zip ns).map (fun x => RaxisCS x.1.1 x.1.2.1 x.1.2.2) = seq.map fun x => RaxisCS x.1 x.2.1 x.2.2 := by
    have : (seq.zip ns).map (fun x => x.1) = seq := List.map_fst_zip (by omega)
    conv_rhs => rw [← this]
    rw [List.map_map]; rfl
  have hP : (eulerCS false (seq ++ [(a, c, s)])).mul (prodL (seg [] ops))
      = (RaxisCS a c s).mul (prodL (seg [] (ops ++ (seq.zip ns).map fun x => Op.rotate (RaxisCS x.1.1 x.1.2.1 x.1.2.2) x.2))) := by
    rw [hsegapp, hseg, hprodapp, hzip, ← eulerCS_extrinsic_prodL, eulerCS_append]
    simp only [Bool.false_eq_true, if_false, eulerCS, M3.one_mul]
    rw [M3.mul_assoc]
  obtain ⟨e1, _, e3⟩ := histories_same_product_agree f s0 h0 ops _ _ _ hP n?
  exact ⟨e1, e3⟩

/-! ## further laws of the resampling -/

/-- **"the cell volume is kept mostly constant" — exactly, before rounding.** For a proper
rotation of a well-formed field the three quantities whose cube roots `_calculate_new_n` rounds
multiply to the cube of (volume of the new region / volume of an original cell): un-rounded, the
new cells have exactly the old cell volume; and on each axis the un-rounded new cell edge
`E_i / x_i` is the extent `l_i` of the rotated original cell times the common factor
`(dV / l_0 l_1 l_2)^(1/3)` — the new cells have the aspect ratio of the bounding box of a rotated
old cell. -/
theorem auto_counts_keep_cell_volume (f : Fld) (hm : Mesh3 f.mesh) (R : M3) (hR : R.IsRot) (reg : Region) :
    autoX3 f R reg 0 * autoX3 f R reg 1 * autoX3 f R reg 2
      = cube (reg.edge 0 * reg.edge 1 * reg.edge 2 / (f.mesh.cellAt 0 * f.mesh.cellAt 1 * f.mesh.cellAt 2)) ∧
    ∀ i, i < 3 → cube (reg.edge i) = autoX3 f R reg i * (cube (sumAbs R (cellV f.mesh) i) *
      ((f.mesh.cellAt 0 * f.mesh.cellAt 1 * f.mesh.cellAt 2) /
        (sumAbs R (cellV f.mesh) 0 * sumAbs R (cellV f.mesh) 1 * sumAbs R (cellV f.mesh) 2))) := by
  obtain ⟨c0, c1, c2⟩ := cellV_pos f.mesh hm
  apply autoX3_geometry
  · intro i hi; exact (sumAbs_pos hR (cellV f.mesh) c0 c1 c2 i hi).ne'
  · intro i hi; exact (cell_pos f.mesh i (hm i hi)).ne'

/-- **no new extrema (scalar fields).** If every cell value of a scalar field lies in `[lo, hi]`
with `lo ≤ 0 ≤ hi`, so does every cell value of the rotated field — for every matrix, every `n`:
inside, the stored value is a convex combination of at most eight original cell values (all
interpolation weights lie in `[0, 1]`), outside it is the fill value 0. -/
theorem rot_scalar_range (f : Fld) (hf : WF f) (h1 : f.nvdim = 1) (lo hi : Rat) (hlo : lo ≤ 0) (hhi : 0 ≤ hi)
    (hdata : ∀ i j k, i < f.mesh.nAt 0 → j < f.mesh.nAt 1 → k < f.mesh.nAt 2 →
      lo ≤ (f.data.get [i, j, k]).getD 0 0 ∧ (f.data.get [i, j, k]).getD 0 0 ≤ hi)
    (R : M3) (n? : Option (List Nat)) (g : Fld) (h : rotateOnce f R n? = .ok g) (idx : List Nat) :
    lo ≤ (g.data.get idx).getD 0 0 ∧ (g.data.get idx).getD 0 0 ≤ hi := by
  obtain ⟨ord, _, hv⟩ := rot_general f hf R n? g h
  rw [hv idx]
  unfold rotVal
  rw [if_pos h1]
  exact origAt_range f hf.1 0 (by omega) lo hi hlo hhi hdata _

/-- instance: the affine example data `1 + 2x − 3y + 5z` on `[0,4]×[0,4]×[0,3]` lies in `[−12, 25]` -/
example : ∀ i, i < exF.mesh.nAt 0 → ∀ j, j < exF.mesh.nAt 1 → ∀ k, k < exF.mesh.nAt 2 →
    (-12 : Rat) ≤ (exF.data.get [i, j, k]).getD 0 0 ∧ (exF.data.get [i, j, k]).getD 0 0 ≤ 25 := by
  decide +kernel

/-- **superposition.** `rotate` is additive in the data: for three fields on the same mesh with the
same component layout, the third holding cell by cell the sum of the other two, the same rotation
with the same `n` gives three fields on the same mesh, the third again holding the sum (together
with `rot_homogeneous` for `s = 1`, `d = 0`: `rotate` is linear in the values). -/
theorem rot_superposition (f1 f2 f3 : Fld) (hm1 : f1.mesh = f3.mesh) (hm2 : f2.mesh = f3.mesh)
    (hv1 : f1.nvdim = f3.nvdim) (hv2 : f2.nvdim = f3.nvdim) (hd1 : f1.vdims = f3.vdims) (hd2 : f2.vdims = f3.vdims)
    (hp1 : f1.vmap = f3.vmap) (hp2 : f2.vmap = f3.vmap)
    (hd : ∀ idx c, (f3.data.get idx).getD c 0 = (f1.data.get idx).getD c 0 + (f2.data.get idx).getD c 0)
    (R : M3) (n? : Option (List Nat)) (g1 g2 g3 : Fld)
    (h1 : rotateOnce f1 R n? = .ok g1) (h2 : rotateOnce f2 R n? = .ok g2) (h3 : rotateOnce f3 R n? = .ok g3) :
    g1.mesh = g3.mesh ∧ g2.mesh = g3.mesh ∧
    ∀ idx c, (g3.data.get idx).getD c 0 = (g1.data.get idx).getD c 0 + (g2.data.get idx).getD c 0 := by
  obtain ⟨r1, m1, o1, hr1, hk1, ho1, e1⟩ := rotateOnce_ok_inv f1 R n? g1 h1
  obtain ⟨r2, m2, o2, hr2, hk2, ho2, e2⟩ := rotateOnce_ok_inv f2 R n? g2 h2
  obtain ⟨r3, m3, o3, hr3, hk3, ho3, e3⟩ := rotateOnce_ok_inv f3 R n? g3 h3
  have same : ∀ (f : Fld), f.mesh = f3.mesh → f.nvdim = f3.nvdim → f.vdims = f3.vdims → f.vmap = f3.vmap →
      newRegion f R = newRegion f3 R ∧ (∀ reg, autoN f R reg = autoN f3 R reg) ∧ ordFor f = ordFor f3 := by
    intro f hm hv hd hp
    refine ⟨by unfold newRegion; rw [hm], fun reg => by unfold autoN autoX3; rw [hm], ?_⟩
    unfold ordFor ordAt rDimLast Fld.vdimIndex
    rw [hm, hv, hd, hp]
  obtain ⟨a1, b1, c1⟩ := same f1 hm1 hv1 hd1 hp1
  obtain ⟨a2, b2, c2⟩ := same f2 hm2 hv2 hd2 hp2
  rw [a1, hr3] at hr1; injection hr1 with hr1; subst hr1
  rw [a2, hr3] at hr2; injection hr2 with hr2; subst hr2
  rw [b1, hk3] at hk1; injection hk1 with hk1; subst hk1
  rw [b2, hk3] at hk2; injection hk2 with hk2; subst hk2
  rw [c1, ho3] at ho1; injection ho1 with ho1; subst ho1
  rw [c2, ho3] at ho2; injection ho2 with ho2; subst ho2
  subst e1 e2 e3
  refine ⟨rfl, rfl, ?_⟩
  intro idx c
  rw [rotated_data, rotated_data, rotated_data]
  have bp1 : backPos f1 R m3 idx = backPos f3 R m3 idx := by unfold backPos; rw [hm1]
  have bp2 : backPos f2 R m3 idx = backPos f3 R m3 idx := by unfold backPos; rw [hm2]
  rw [bp1, bp2]
  exact valuesAt_add f1 f2 f3 hm1 hm2 hv1 hv2 hd R o3 _ c

/-- instance: the example field, itself again, and twice the example field (`exDouble`) -/
example : ∀ idx c, ((exDouble.data.get idx).getD c 0 = (exF.data.get idx).getD c 0 + (exF.data.get idx).getD c 0) := by
  intro idx c
  show ((exF.data.get idx).map (2 * ·)).getD c 0 = _
  rw [getD_map_mul]; ring
example : exDouble.mesh = exF.mesh ∧ isOk (rotateOnce exDouble exPyth none) = true ∧ isOk (rotateOnce exF exPyth none) = true :=
  ⟨rfl, by decide +kernel, by decide +kernel⟩

/-! ## a sequence of C12's lattice rotations is one FieldRotator rotation (object level) -/

/-- **any sequence of `Field.rotate90` calls, in any planes, IS one rotation of the rotator.**
Take a field FieldRotator can rotate (well-formed, complete one-to-one mapping) and apply C12's model
of `Field.rotate90(ax1, ax2, k)` (about the centre, copying form) any number of times, each call on
the result of the previous one, in any planes and with any integers `k` (`turns`). If all calls
are accepted, then the ordered product `P` of the quarter-turn matrices `Rq p q k` (later calls on
the left) is a proper lattice rotation, `rotate` with `P` and automatic cell counts is accepted,
and its result has the same region corners, the same cell counts and the same value in EVERY cell
as the field the sequence of lattice rotations produced — for any cell sizes, scalar and vector
fields (all six component permutations). The same field is what a rotator shows after the history
of single `rotate` calls with these matrices (any intermediate `n`). -/
theorem rotate90_sequence_is_one_rotation (f : Fld) (hf : WF f) (hF : T.FldInv f) (hnd : f.mesh.region.ndim = 3)
    (hlen : ∀ idx, (f.data.get idx).length = f.nvdim) (ord : List Nat) (ho : ordFor f = .ok ord)
    (hkey : ∀ x ∈ f.vmap, ∀ y ∈ f.vmap, x.1 = y.1 → x = y) (hval : ∀ x ∈ f.vmap, ∀ y ∈ f.vmap, x.2 = y.2 → x = y)
    (seq : List (String × String × Int)) (g' : Fld) (h : turns f seq = some g') :
    (prodL (turnsM f seq)).IsRot ∧ LatM (prodL (turnsM f seq)) ∧
    ∃ g, rotateOnce f (prodL (turnsM f seq)) none = .ok g ∧
      (∀ a, a < 3 → g.mesh.region.lo a = g'.mesh.region.lo a ∧ g.mesh.region.hi a = g'.mesh.region.hi a) ∧
      g.mesh.n = g'.mesh.n ∧
      (∀ i0 i1 i2, i0 < g'.mesh.nAt 0 → i1 < g'.mesh.nAt 1 → i2 < g'.mesh.nAt 2 →
        g.data.get [i0, i1, i2] = g'.data.get [i0, i1, i2]) ∧
      (∀ s0, init? f = .ok s0 → ∀ (init : List M3) (Q : M3) (ns : List (Option (List Nat))), ns.length = init.length →
        turnsM f seq = init ++ [Q] →
        (run s0 ((init.zip ns).map (fun x => Op.rotate x.1 x.2) ++ [.rotate Q none])).cur = g) := by
  obtain ⟨hr, hl, g, hg, a1, a2, a3⟩ := turns_match_rotator f ord ⟨hf, hF, hnd, hlen, ho, hkey, hval⟩ seq g' h
  refine ⟨hr, hl, g, hg, a1, a2, a3, ?_⟩
  intro s0 h0 init Q ns hns hsplit
  have hseg : ∀ (cur : List M3) (l : List (M3 × Option (List Nat))),
      seg cur (l.map fun x => Op.rotate x.1 x.2) = cur ++ l.map fun x => x.1 := by
    intro cur l
    induction l generalizing cur with
    | nil => simp [seg]
    | cons x l ih => simp only [List.map_cons, seg]; rw [ih]; simp
  obtain ⟨_, hok, _⟩ := history_eq_single f s0 h0 ((init.zip ns).map fun x => Op.rotate x.1 x.2) Q none
  apply hok
  rw [hseg, List.nil_append, List.map_fst_zip (by omega), ← prodL_append, ← hsplit]
  exact hg

/-- non-vacuity: the anisotropic vector example (mapping `p ↦ y, q ↦ x, r ↦ z`) turned by C12's
model three times in three different planes (one of them by `−1`, one by `2`) -/
example : (turns exV [("x", "y", 1), ("y", "z", -1), ("z", "x", 2)]).isSome = true ∧
    turnsM exV [("x", "y", 1), ("y", "z", -1), ("z", "x", 2)] = [Rq 0 1 1, Rq 1 2 (-1), Rq 2 0 2] := by
  decide +kernel

end DFV.C18
