import DFV.Lemmas.C15Fld
import DFV.Lemmas.C15Rat
import DFV.Lemmas.C15Real
/-!
# C15 — setting a norm rescales non-zero vectors only; orientation is the unit field

Theorems about the model of `Field.norm` (getter/setter), `Field.orientation`, the
constructor order values → norm → validity, `valid="norm"` and `update_field_values`
(`DFV/Model/C15.lean`).

Lengths are compared squared.  `sqrt` is a parameter; the hypothesis `SqrtAt sqrt x`
("`sqrt x` is the non-negative root of `x`") is carried explicitly, only at the arguments
actually used.  It is satisfiable: `sqrtQ` (the executable root the driver runs) satisfies
it at every rational square (`sqrtQ_sqrtAt`), and `Real.sqrt` at every non-negative real
(`real_sqrtAt`), so the cell-level theorems — stated over an arbitrary linearly ordered
field `K` — hold for real fields with no side condition (last section).

Cells, components, targets, thresholds, meshes and specifications are universally
quantified.
-/
namespace DFV.C15
open DFV
set_option linter.unusedSectionVars false

/-! ## One cell, any ordered field -/
section Cell
variable {K : Type} [Field K] [LinearOrder K] [IsStrictOrderedRing K]

/-- the setter keeps the number of components of every cell (array shape unchanged) -/
theorem setCell_length (sqrt : K → K) (v : List K) (t : K) : (setCell sqrt v t).length = v.length := by
  unfold setCell
  rw [List.length_map, divWhere_length]

/-- **Non-zero vectors are rescaled**: the code's divide-then-multiply is exactly `(t/‖v‖)·v` -/
theorem setCell_nonzero (sqrt : K → K) (v : List K) (t : K)
    (hs : SqrtAt sqrt (sqLen v)) (hnz : sqLen v ≠ 0) :
    setCell sqrt v t = smul (t / sqrt (sqLen v)) v := by
  have hne : sqrt (sqLen v) ≠ 0 := fun e => hnz (hs.eq_zero_iff.mp e)
  unfold setCell normCell smul
  rw [divWhere_ne _ _ hne, List.map_map]
  apply List.map_congr_left
  intro x _
  simp only [Function.comp]
  field_simp

/-- … so the new vector has *exactly that length*: `‖v'‖² = t²` (any sign of `t`) -/
theorem setCell_sqLen (sqrt : K → K) (v : List K) (t : K)
    (hs : SqrtAt sqrt (sqLen v)) (hnz : sqLen v ≠ 0) :
    sqLen (setCell sqrt v t) = t * t := by
  have hne : sqrt (sqLen v) ≠ 0 := fun e => hnz (hs.eq_zero_iff.mp e)
  rw [setCell_nonzero sqrt v t hs hnz, sqLen_smul]
  calc t / sqrt (sqLen v) * (t / sqrt (sqLen v)) * sqLen v
      = t / sqrt (sqLen v) * (t / sqrt (sqLen v)) * (sqrt (sqLen v) * sqrt (sqLen v)) := by rw [hs.2]
    _ = t * t := by field_simp

/-- … and an *unchanged direction*: for a positive target the new vector is a positive multiple of the old one -/
theorem setCell_direction (sqrt : K → K) (v : List K) (t : K)
    (hs : SqrtAt sqrt (sqLen v)) (hnz : sqLen v ≠ 0) (ht : 0 < t) :
    ∃ c : K, 0 < c ∧ setCell sqrt v t = smul c v :=
  ⟨t / sqrt (sqLen v), div_pos ht (hs.pos hnz), setCell_nonzero sqrt v t hs hnz⟩

/-- parallelism stated without division: all 2×2 cross terms between new and old vector vanish (any target, also negative or zero) -/
theorem setCell_cross (sqrt : K → K) (v : List K) (t : K)
    (hs : SqrtAt sqrt (sqLen v)) (hnz : sqLen v ≠ 0) (a b : Nat) :
    (setCell sqrt v t).getD a 0 * v.getD b 0 = (setCell sqrt v t).getD b 0 * v.getD a 0 := by
  rw [setCell_nonzero sqrt v t hs hnz, smul_getD, smul_getD]; ring

/-- **Zero cells stay zero**, whatever the target -/
theorem setCell_zero (sqrt : K → K) (v : List K) (t : K)
    (h0 : SqrtAt sqrt 0) (hz : ∀ x ∈ v, x = 0) : setCell sqrt v t = zeros v := by
  unfold setCell normCell
  rw [(sqLen_eq_zero_iff v).mpr hz, h0.zero, divWhere_zero, map_mul_zeros]

/-- **zero in places**: a zero target gives a zero vector, whatever the old vector (no hypothesis on `sqrt` at all) -/
theorem setCell_target_zero (sqrt : K → K) (v : List K) : setCell sqrt v 0 = zeros v := by
  have e : ∀ w : List K, w.map (fun x => x * 0) = List.replicate w.length 0 := by
    intro w; simp
  unfold setCell
  rw [e, divWhere_length]; simp [zeros]

/-- getter after setter: the norm read back from a rescaled non-zero cell is `|t|` -/
theorem normCell_setCell (sqrt : K → K) (v : List K) (t : K)
    (hs : SqrtAt sqrt (sqLen v)) (hnz : sqLen v ≠ 0) (ht : SqrtAt sqrt (t * t)) :
    normCell sqrt (setCell sqrt v t) = |t| := by
  unfold normCell
  rw [setCell_sqLen sqrt v t hs hnz]; exact ht.mul_self

/-- setting the same non-negative norm twice changes nothing the second time -/
theorem setCell_idem (sqrt : K → K) (v : List K) (t : K)
    (hs : SqrtAt sqrt (sqLen v)) (hnz : sqLen v ≠ 0) (ht : SqrtAt sqrt (t * t)) (h0 : 0 ≤ t) :
    setCell sqrt (setCell sqrt v t) t = setCell sqrt v t := by
  rcases eq_or_lt_of_le h0 with rfl | hpos
  · rw [setCell_target_zero, setCell_target_zero, zeros_zeros]
  · have hl : sqLen (setCell sqrt v t) = t * t := setCell_sqLen sqrt v t hs hnz
    have hne : t * t ≠ 0 := (mul_pos hpos hpos).ne'
    rw [setCell_nonzero sqrt (setCell sqrt v t) t (by rw [hl]; exact ht) (by rw [hl]; exact hne), hl,
      ht.mul_self, abs_of_pos hpos, div_self hpos.ne', smul_one]

/-- the setter forgets the old magnitude: a positive rescaling of the input does not change the result -/
theorem setCell_scale_invariant (sqrt : K → K) (v : List K) (c t : K) (hc : 0 < c)
    (hs : SqrtAt sqrt (sqLen v)) (hs' : SqrtAt sqrt (sqLen (smul c v))) (hnz : sqLen v ≠ 0) :
    setCell sqrt (smul c v) t = setCell sqrt v t := by
  have hl : sqLen (smul c v) = c * c * sqLen v := sqLen_smul c v
  have hnz' : sqLen (smul c v) ≠ 0 := by rw [hl]; exact mul_ne_zero (mul_pos hc hc).ne' hnz
  have hroot : sqrt (sqLen (smul c v)) = c * sqrt (sqLen v) :=
    hs'.unique (mul_nonneg hc.le hs.1) (by rw [hl]; have := hs.2; nlinarith [this])
  have hne : sqrt (sqLen v) ≠ 0 := fun e => hnz (hs.eq_zero_iff.mp e)
  rw [setCell_nonzero sqrt _ t hs' hnz', setCell_nonzero sqrt v t hs hnz, hroot, smul_smul]
  congr 1
  field_simp

/-- above the threshold the orientation is `v/‖v‖` -/
theorem orientCell_far (sqrt : K → K) (atol : K) (v : List K) (hat : atol < normCell sqrt v) :
    orientCell sqrt atol v = v.map fun x => x / normCell sqrt v := by
  unfold orientCell
  have : closeZero atol (normCell sqrt v) = false := by
    rw [closeZero_eq, decide_eq_false_iff_not, not_le]
    exact lt_of_lt_of_le hat (le_abs_self _)
  simp [this]

/-- **orientation has unit length wherever the norm exceeds the absolute threshold** -/
theorem orientCell_unit (sqrt : K → K) (atol : K) (v : List K) (h0 : 0 ≤ atol)
    (hs : SqrtAt sqrt (sqLen v)) (hat : atol < normCell sqrt v) :
    sqLen (orientCell sqrt atol v) = 1 := by
  have hpos : 0 < sqrt (sqLen v) := lt_of_le_of_lt h0 hat
  rw [orientCell_far sqrt atol v hat, sqLen_map_div]
  unfold normCell
  rw [hs.2]
  exact div_self (fun e => hpos.ne' (hs.eq_zero_iff.mpr e))

/-- **… and is zero elsewhere** (code-level condition `|‖v‖| ≤ atol`, i.e. `np.isclose(‖v‖, 0)`) -/
theorem orientCell_zero (sqrt : K → K) (atol : K) (v : List K)
    (hle : |normCell sqrt v| ≤ atol) : orientCell sqrt atol v = zeros v := by
  unfold orientCell
  have : closeZero atol (normCell sqrt v) = true := by
    rw [closeZero_eq, decide_eq_true_iff]; exact hle
  simp [this]

/-- the same with the redundant absolute value removed (`‖v‖ ≥ 0`) -/
theorem orientCell_zero_le (sqrt : K → K) (atol : K) (v : List K) (hs : SqrtAt sqrt (sqLen v))
    (hle : normCell sqrt v ≤ atol) : orientCell sqrt atol v = zeros v :=
  orientCell_zero sqrt atol v (by unfold normCell at *; rw [abs_of_nonneg hs.1]; exact hle)

/-- every cell of the orientation is either zero (`‖v‖ ≤ atol`) or a unit vector (`‖v‖ > atol`) — nothing in between -/
theorem orientCell_dichotomy (sqrt : K → K) (atol : K) (v : List K) (h0 : 0 ≤ atol)
    (hs : SqrtAt sqrt (sqLen v)) :
    (normCell sqrt v ≤ atol ∧ orientCell sqrt atol v = zeros v) ∨
    (atol < normCell sqrt v ∧ sqLen (orientCell sqrt atol v) = 1) := by
  rcases le_or_gt (normCell sqrt v) atol with h | h
  · exact Or.inl ⟨h, orientCell_zero_le sqrt atol v hs h⟩
  · exact Or.inr ⟨h, orientCell_unit sqrt atol v h0 hs h⟩

/-- **orientation × norm reproduces the field** wherever `‖v‖ > atol` or `v = 0` (only the cells with `0 < ‖v‖ ≤ atol` are lost) -/
theorem orientCell_times_norm (sqrt : K → K) (atol : K) (v : List K) (h0 : 0 ≤ atol)
    (hz : SqrtAt sqrt 0) (h : atol < normCell sqrt v ∨ ∀ x ∈ v, x = 0) :
    (orientCell sqrt atol v).map (fun x => x * normCell sqrt v) = v := by
  rcases h with hat | hzero
  · have hne : normCell sqrt v ≠ 0 := (lt_of_le_of_lt h0 hat).ne'
    rw [orientCell_far sqrt atol v hat, List.map_map]
    conv_rhs => rw [← List.map_id v]
    apply List.map_congr_left
    intro x _
    simp only [Function.comp, id]
    field_simp
  · have hn : normCell sqrt v = 0 := by
      unfold normCell; rw [(sqLen_eq_zero_iff v).mpr hzero]; exact hz.zero
    rw [orientCell_zero sqrt atol v (by rw [hn, abs_zero]; exact h0), map_mul_zeros]
    exact (eq_zeros_of_all_zero hzero).symm

/-- above the threshold the orientation is what setting the norm to 1 gives -/
theorem orientCell_eq_setCell_one (sqrt : K → K) (atol : K) (v : List K) (h0 : 0 ≤ atol)
    (hat : atol < normCell sqrt v) : orientCell sqrt atol v = setCell sqrt v 1 := by
  have hne : normCell sqrt v ≠ 0 := (lt_of_le_of_lt h0 hat).ne'
  rw [orientCell_far sqrt atol v hat]
  unfold setCell
  rw [divWhere_ne _ _ hne, List.map_map]
  apply List.map_congr_left
  intro x _
  simp

/-- orientation does not depend on the magnitude (both vectors above the threshold) -/
theorem orientCell_scale_invariant (sqrt : K → K) (atol : K) (v : List K) (c : K) (hc : 0 < c)
    (h0 : 0 ≤ atol) (hs : SqrtAt sqrt (sqLen v)) (hs' : SqrtAt sqrt (sqLen (smul c v)))
    (hat : atol < normCell sqrt v) (hat' : atol < normCell sqrt (smul c v)) :
    orientCell sqrt atol (smul c v) = orientCell sqrt atol v := by
  have hl : sqLen (smul c v) = c * c * sqLen v := sqLen_smul c v
  have hroot : sqrt (sqLen (smul c v)) = c * sqrt (sqLen v) :=
    hs'.unique (mul_nonneg hc.le hs.1) (by rw [hl]; have := hs.2; nlinarith [this])
  have hne : sqrt (sqLen v) ≠ 0 := (lt_of_le_of_lt h0 hat).ne'
  rw [orientCell_far sqrt atol _ hat', orientCell_far sqrt atol v hat]
  unfold normCell
  rw [hroot]
  unfold smul
  rw [List.map_map]
  apply List.map_congr_left
  intro x _
  simp only [Function.comp]
  field_simp

/-- **unchanged direction, in the library's own vocabulary**: setting a norm above the
threshold does not change the orientation of a cell that was above the threshold -/
theorem orientCell_setCell (sqrt : K → K) (atol : K) (v : List K) (t : K) (h0 : 0 ≤ atol)
    (hs : SqrtAt sqrt (sqLen v)) (ht : SqrtAt sqrt (t * t))
    (hat : atol < normCell sqrt v) (htt : atol < t) :
    orientCell sqrt atol (setCell sqrt v t) = orientCell sqrt atol v := by
  have hpos : 0 < sqrt (sqLen v) := lt_of_le_of_lt h0 hat
  have hnz : sqLen v ≠ 0 := fun e => hpos.ne' (hs.eq_zero_iff.mpr e)
  have htpos : 0 < t := lt_of_le_of_lt h0 htt
  have hl : sqLen (setCell sqrt v t) = t * t := setCell_sqLen sqrt v t hs hnz
  have hn : normCell sqrt (setCell sqrt v t) = t := by
    rw [normCell_setCell sqrt v t hs hnz ht, abs_of_pos htpos]
  have e := setCell_nonzero sqrt v t hs hnz
  have hs' : SqrtAt sqrt (sqLen (smul (t / sqrt (sqLen v)) v)) := by rw [← e, hl]; exact ht
  rw [e]
  exact orientCell_scale_invariant sqrt atol v _ (div_pos htpos hpos) h0 hs hs' hat
    (by rw [← e, hn]; exact htt)

/-- **The property's sentence about the setter, for one cell**: whatever the old vector and
the target, the cell ends `Rescaled` — non-zero ⇒ squared length `t²`, parallel, same sense
for `t > 0`; zero ⇒ still zero. -/
theorem setCell_rescaled (sqrt : K → K) (v : List K) (t : K)
    (hs : SqrtAt sqrt (sqLen v)) (h0 : SqrtAt sqrt 0) : Rescaled v (setCell sqrt v t) t := by
  refine ⟨setCell_length sqrt v t, fun hnz => ⟨setCell_sqLen sqrt v t hs hnz,
    setCell_cross sqrt v t hs hnz, setCell_direction sqrt v t hs hnz⟩, fun hz => ?_⟩
  have hz' := (sqLen_eq_zero_iff v).mp hz
  rw [setCell_zero sqrt v t h0 hz']
  exact (eq_zeros_of_all_zero hz').symm

end Cell

/-! ### non-vacuity: the hypotheses are met by the executable root on concrete cells -/

example : SqrtAt sqrtQ (sqLen ([3, 4] : List Rat)) := by
  have h : sqLen ([3, 4] : List Rat) = 5 * 5 := by norm_num [sqLen]
  rw [h]; exact sqrtQ_sqrtAt 5
example : sqLen ([3, 4] : List Rat) ≠ 0 := by norm_num [sqLen]
example : SqrtAt sqrtQ (sqLen (smul (2 : Rat) [3, 4])) := by
  have h : sqLen (smul (2 : Rat) [3, 4]) = 10 * 10 := by norm_num [sqLen, smul]
  rw [h]; exact sqrtQ_sqrtAt 10
example : SqrtAt sqrtQ ((7 : Rat) * 7) := sqrtQ_sqrtAt 7
example : SqrtAt sqrtQ 0 := sqrtQ_zero
/-- the conclusion on that cell, computed: (3,4) set to norm 10 is (6,8) -/
example : setCell sqrtQ [3, 4] 10 = [6, 8] := by
  have h : sqLen ([3, 4] : List Rat) = 5 * 5 := by norm_num [sqLen]
  rw [setCell_nonzero sqrtQ _ _ (by rw [h]; exact sqrtQ_sqrtAt 5) (by norm_num [sqLen]), h,
    sqrtQ_mul_self]
  norm_num [smul]
example : atolDefault < normCell sqrtQ [3, 4] := by
  have h : sqLen ([3, 4] : List Rat) = 5 * 5 := by norm_num [sqLen]
  unfold normCell; rw [h, sqrtQ_mul_self]; norm_num [atolDefault]
example : normCell sqrtQ [0, 0] ≤ atolDefault := by
  have h : sqLen ([0, 0] : List Rat) = 0 * 0 := by norm_num [sqLen]
  unfold normCell; rw [h, sqrtQ_mul_self]; norm_num [atolDefault]

/-! ## Whole fields (rational model run by the driver) -/
section Field
variable (sqrt : Rat → Rat)

/-- **Norm getter**: a one-component field on the same mesh with the same unit and validity;
its value at every cell is the non-negative number whose square is `Σ_c v_c²`. -/
theorem norm_eq (f : Fld) :
    (norm sqrt f).mesh = f.mesh ∧ (norm sqrt f).nvdim = 1 ∧ (norm sqrt f).unit = f.unit ∧
    (norm sqrt f).data.shape = f.mesh.n ∧
    (∀ i, (norm sqrt f).valid.get i = f.valid.get i) ∧
    ∀ i, SqrtAt sqrt (sqLen (f.data.get i)) →
      ∃ x, (norm sqrt f).data.get i = [x] ∧ 0 ≤ x ∧ x * x = sqLen (f.data.get i) :=
  ⟨rfl, rfl, rfl, rfl, fun _ => rfl, fun _ h => ⟨_, rfl, h.1, h.2⟩⟩

/-- … and the absolute value for scalar fields -/
theorem norm_scalar (f : Fld) (i : List Nat) (a : Rat) (hv : f.data.get i = [a])
    (hs : SqrtAt sqrt (a * a)) : (norm sqrt f).data.get i = [|a|] := by
  show [normCell sqrt (f.data.get i)] = [|a|]
  rw [hv]
  have e : sqLen [a] = a * a := by simp [sqLen]
  unfold normCell
  rw [e, hs.mul_self]

/-- the setter touches the array only: mesh, component count, validity, unit, labels and
mapping are the receiver's; `None` is a no-op -/
theorem setNorm_frame (f g : Fld) (s : Option NSpec) (h : setNorm sqrt f s = .ok g) :
    g.mesh = f.mesh ∧ g.nvdim = f.nvdim ∧ g.valid = f.valid ∧ g.unit = f.unit ∧
    g.vdims = f.vdims ∧ g.vmap = f.vmap ∧ (s = none → g = f) := by
  cases s with
  | none =>
    rw [setNorm_none] at h
    simp only [Except.ok.injEq] at h
    subst h; exact ⟨rfl, rfl, rfl, rfl, rfl, rfl, fun _ => rfl⟩
  | some s =>
    obtain ⟨t, _, rfl⟩ := setNorm_some_ok h
    exact ⟨rfl, rfl, rfl, rfl, rfl, rfl, fun e => by cases e⟩

/-- **Setter, any specification**: if `_as_array(spec, nvdim=1)` evaluates to the per-cell
targets `t`, then every cell ends `Rescaled` to its own target `t i`. -/
theorem setNorm_rescaled (f g : Fld) (s : NSpec) (t : NDA Rat)
    (ht : asArray1 f.mesh s = .ok t) (h : setNorm sqrt f (some s) = .ok g) (i : List Nat)
    (hs : SqrtAt sqrt (sqLen (f.data.get i))) (h0 : SqrtAt sqrt 0) :
    Rescaled (f.data.get i) (g.data.get i) (t.get i) := by
  rw [setNorm_of_target ht] at h
  simp only [Except.ok.injEq] at h
  subst h
  exact setCell_rescaled sqrt _ _ hs h0

/-- explicit form on a non-zero cell: `(t_i/‖v‖)·v` -/
theorem setNorm_nonzero (f g : Fld) (s : NSpec) (t : NDA Rat)
    (ht : asArray1 f.mesh s = .ok t) (h : setNorm sqrt f (some s) = .ok g) (i : List Nat)
    (hs : SqrtAt sqrt (sqLen (f.data.get i))) (hnz : sqLen (f.data.get i) ≠ 0) :
    g.data.get i = smul (t.get i / sqrt (sqLen (f.data.get i))) (f.data.get i) := by
  rw [setNorm_of_target ht] at h
  simp only [Except.ok.injEq] at h
  subst h
  exact setCell_nonzero sqrt _ _ hs hnz

/-- a cell whose target is zero ends zero ("zero in places") -/
theorem setNorm_target_zero (f g : Fld) (s : NSpec) (t : NDA Rat)
    (ht : asArray1 f.mesh s = .ok t) (h : setNorm sqrt f (some s) = .ok g) (i : List Nat)
    (hz : t.get i = 0) : g.data.get i = zeros (f.data.get i) := by
  rw [setNorm_of_target ht] at h
  simp only [Except.ok.injEq] at h
  subst h
  show setCell sqrt (f.data.get i) (t.get i) = _
  rw [hz]; exact setCell_target_zero sqrt _

/-- **constant norm**: always accepted; every cell is rescaled to `c` -/
theorem setNorm_const (f : Fld) (c : Rat) :
    ∃ g, setNorm sqrt f (some (.const c)) = .ok g ∧
      ∀ i, SqrtAt sqrt (sqLen (f.data.get i)) → SqrtAt sqrt 0 →
        Rescaled (f.data.get i) (g.data.get i) c :=
  ⟨_, setNorm_of_target (asArray1_const f.mesh c), fun i hs h0 =>
    setNorm_rescaled sqrt f _ (.const c) _ (asArray1_const f.mesh c)
      (setNorm_of_target (asArray1_const f.mesh c)) i hs h0⟩

/-- **per-cell array** of the mesh's shape: accepted; cell `i` is rescaled to `a[i]` -/
theorem setNorm_array (f : Fld) (a : NDA Rat) (hshape : a.shape = f.mesh.n) :
    ∃ g, setNorm sqrt f (some (.arr a)) = .ok g ∧
      ∀ i, SqrtAt sqrt (sqLen (f.data.get i)) → SqrtAt sqrt 0 →
        Rescaled (f.data.get i) (g.data.get i) (a.get i) :=
  ⟨_, setNorm_of_target (asArray1_arr f.mesh a hshape), fun i hs h0 =>
    setNorm_rescaled sqrt f _ (.arr a) _ (asArray1_arr f.mesh a hshape)
      (setNorm_of_target (asArray1_arr f.mesh a hshape)) i hs h0⟩

/-- per-cell array with an explicit component axis, shape `(*mesh.n, 1)`: accepted; every
in-range cell `i` is rescaled to `a[i, 0]` -/
theorem setNorm_array_col (f : Fld) (a : NDA Rat) (hshape : a.shape = f.mesh.n ++ [1]) :
    ∃ g, setNorm sqrt f (some (.arr a)) = .ok g ∧
      ∀ i : List Nat, i.length = f.mesh.n.length →
        (∀ k, k < f.mesh.n.length → i.getD k 0 < f.mesh.n.getD k 0) →
        SqrtAt sqrt (sqLen (f.data.get i)) → SqrtAt sqrt 0 →
        Rescaled (f.data.get i) (g.data.get i) (a.get (i ++ [0])) := by
  obtain ⟨t, ht, _, hget⟩ := bcastArr_col f.mesh a hshape
  refine ⟨_, setNorm_of_target (s := .arr a) ht, fun i hl hr hs h0 => ?_⟩
  rw [← hget i hl hr]
  exact setNorm_rescaled sqrt f _ (.arr a) t ht (setNorm_of_target (s := .arr a) ht) i hs h0

/-- **function of position**: accepted; cell `i` is rescaled to the function's value at the
centre of cell `i` -/
theorem setNorm_callable (f : Fld) (fn : List Rat → Rat) :
    ∃ g, setNorm sqrt f (some (.fn fn)) = .ok g ∧
      ∀ i, SqrtAt sqrt (sqLen (f.data.get i)) → SqrtAt sqrt 0 →
        Rescaled (f.data.get i) (g.data.get i) (fn (f.mesh.centre i)) :=
  ⟨_, setNorm_of_target (asArray1_fn f.mesh fn), fun i hs h0 =>
    setNorm_rescaled sqrt f _ (.fn fn) _ (asArray1_fn f.mesh fn)
      (setNorm_of_target (asArray1_fn f.mesh fn)) i hs h0⟩

/-- an array-like whose last axis is not 1 (and which is not of the mesh's shape) is
rejected — it could only be meant as a vector -/
theorem setNorm_array_rejected (f : Fld) (a : NDA Rat) (h1 : a.shape ≠ f.mesh.n)
    (h2 : a.shape.getLast? ≠ some 1) : setNorm sqrt f (some (.arr a)) = .error .value := by
  simp [setNorm, asArray1, bcastArr, h1, h2]

/-- **getter after setter**: reading the norm back gives `|t_i|` on the cells that were
non-zero and 0 on the cells that were zero -/
theorem norm_setNorm (f g : Fld) (s : NSpec) (t : NDA Rat)
    (ht : asArray1 f.mesh s = .ok t) (h : setNorm sqrt f (some s) = .ok g) (i : List Nat)
    (hs : SqrtAt sqrt (sqLen (f.data.get i))) (h0 : SqrtAt sqrt 0)
    (htt : SqrtAt sqrt (t.get i * t.get i)) :
    (norm sqrt g).data.get i = [if sqLen (f.data.get i) = 0 then 0 else |t.get i|] := by
  rw [setNorm_of_target ht] at h
  simp only [Except.ok.injEq] at h
  subst h
  show [normCell sqrt (setCell sqrt (f.data.get i) (t.get i))] = _
  split
  · rename_i hz
    rw [setCell_zero sqrt _ _ h0 ((sqLen_eq_zero_iff _).mp hz)]
    unfold normCell; rw [sqLen_zeros, h0.zero]
  · rename_i hnz
    rw [normCell_setCell sqrt _ _ hs hnz htt]

/-! ### orientation -/

/-- orientation keeps mesh, component count, labels, mapping and validity; it carries no unit -/
theorem orientation_frame (atol : Rat) (f : Fld) :
    (orientation sqrt atol f).mesh = f.mesh ∧ (orientation sqrt atol f).nvdim = f.nvdim ∧
    (orientation sqrt atol f).vdims = f.vdims ∧ (orientation sqrt atol f).vmap = f.vmap ∧
    (orientation sqrt atol f).unit = none ∧
    (∀ i, (orientation sqrt atol f).valid.get i = f.valid.get i) ∧
    ∀ i, ((orientation sqrt atol f).data.get i).length = (f.data.get i).length := by
  refine ⟨rfl, rfl, rfl, rfl, rfl, fun _ => rfl, fun i => ?_⟩
  show (orientCell sqrt atol (f.data.get i)).length = _
  unfold orientCell zeros
  split <;> simp

/-- **unit length wherever the field is non-zero** (norm above the absolute threshold) -/
theorem orientation_unit (atol : Rat) (h0 : 0 ≤ atol) (f : Fld) (i : List Nat)
    (hs : SqrtAt sqrt (sqLen (f.data.get i))) (hat : atol < normCell sqrt (f.data.get i)) :
    sqLen ((orientation sqrt atol f).data.get i) = 1 :=
  orientCell_unit sqrt atol _ h0 hs hat

/-- **zero elsewhere**: lengths up to the threshold count as zero -/
theorem orientation_zero (atol : Rat) (f : Fld) (i : List Nat)
    (hs : SqrtAt sqrt (sqLen (f.data.get i))) (hle : normCell sqrt (f.data.get i) ≤ atol) :
    (orientation sqrt atol f).data.get i = zeros (f.data.get i) :=
  orientCell_zero_le sqrt atol _ hs hle

/-- **orientation times norm reproduces the field** (cell-wise product of the two arrays)
on every cell that is above the threshold or exactly zero -/
theorem orientation_times_norm (atol : Rat) (h0 : 0 ≤ atol) (hz : SqrtAt sqrt 0) (f : Fld)
    (i : List Nat)
    (h : atol < normCell sqrt (f.data.get i) ∨ ∀ x ∈ f.data.get i, x = 0) :
    ((orientation sqrt atol f).data.get i).map
        (fun x => x * ((norm sqrt f).data.get i).getD 0 0) = f.data.get i :=
  orientCell_times_norm sqrt atol _ h0 hz h

/-- above the threshold, orientation is the field with its norm set to 1 -/
theorem orientation_eq_setNorm_one (atol : Rat) (h0 : 0 ≤ atol) (f g : Fld)
    (h : setNorm sqrt f (some (.const 1)) = .ok g) (i : List Nat)
    (hat : atol < normCell sqrt (f.data.get i)) :
    (orientation sqrt atol f).data.get i = g.data.get i := by
  rw [setNorm_of_target (asArray1_const f.mesh 1)] at h
  simp only [Except.ok.injEq] at h
  subst h
  exact orientCell_eq_setCell_one sqrt atol _ h0 hat

/-- **unchanged direction** at field level: wherever the old length and the target both
exceed the threshold, the orientation field is the same before and after the assignment -/
theorem setNorm_keeps_orientation (atol : Rat) (h0 : 0 ≤ atol) (f g : Fld) (s : NSpec) (t : NDA Rat)
    (ht : asArray1 f.mesh s = .ok t) (h : setNorm sqrt f (some s) = .ok g) (i : List Nat)
    (hs : SqrtAt sqrt (sqLen (f.data.get i))) (htt : SqrtAt sqrt (t.get i * t.get i))
    (hat : atol < normCell sqrt (f.data.get i)) (hta : atol < t.get i) :
    (orientation sqrt atol g).data.get i = (orientation sqrt atol f).data.get i := by
  rw [setNorm_of_target ht] at h
  simp only [Except.ok.injEq] at h
  subst h
  exact orientCell_setCell sqrt atol _ _ h0 hs htt hat hta

/-! ### constructor order, `valid="norm"`, later updates -/

/-- **Constructor order values → norm → validity**: the array of `Field(mesh, nvdim,
value, norm=s, valid=…)` is the value array rescaled cell by cell to the norm's targets,
and the validity is what the `valid` specification yields on that *final* array. -/
theorem mk_order (atol : Rat) (m : Mesh) (nvdim : Nat) (value : VSpec) (s : NSpec)
    (valid : ValidSpec) (unit : Option String) (g : Fld)
    (h : mk? sqrt atol m nvdim value (some s) valid unit = .ok g) :
    ∃ a t, valuesOf m nvdim value = .ok a ∧ asArray1 m s = .ok t ∧
      (∀ i, g.data.get i = setCell sqrt (a.get i) (t.get i)) ∧
      validOf sqrt atol g valid = .ok g.valid ∧
      g.mesh = m ∧ g.nvdim = nvdim ∧ g.unit = unit := by
  obtain ⟨_, a, ha, f1, h1, vd, hvd, rfl⟩ := mk_ok h
  obtain ⟨t, ht, rfl⟩ := setNorm_some_ok h1
  refine ⟨a, t, ha, ht, fun _ => rfl, ?_, rfl, rfl, rfl⟩
  cases valid <;> exact hvd

/-- without a norm the constructor stores the values as they are -/
theorem mk_no_norm (atol : Rat) (m : Mesh) (nvdim : Nat) (value : VSpec)
    (valid : ValidSpec) (unit : Option String) (g : Fld)
    (h : mk? sqrt atol m nvdim value none valid unit = .ok g) :
    ∃ a, valuesOf m nvdim value = .ok a ∧ ∀ i, g.data.get i = a.get i := by
  obtain ⟨_, a, ha, f1, h1, vd, hvd, rfl⟩ := mk_ok h
  rw [setNorm_none] at h1
  simp only [Except.ok.injEq] at h1
  subst h1
  exact ⟨a, ha, fun _ => rfl⟩

/-- **`valid="norm"` sees the array after the norm was applied**: a cell is valid iff its
value vector was non-zero *and* its target norm exceeds the threshold in absolute value. -/
theorem mk_valid_byNorm (atol : Rat) (h0 : 0 ≤ atol) (m : Mesh) (nvdim : Nat) (value : VSpec)
    (s : NSpec) (unit : Option String) (g : Fld) (a : NDA (List Rat)) (t : NDA Rat)
    (h : mk? sqrt atol m nvdim value (some s) .byNorm unit = .ok g)
    (ha : valuesOf m nvdim value = .ok a) (ht : asArray1 m s = .ok t) (i : List Nat)
    (hs : SqrtAt sqrt (sqLen (a.get i))) (hz : SqrtAt sqrt 0)
    (htt : SqrtAt sqrt (t.get i * t.get i)) :
    g.valid.get i = true ↔ sqLen (a.get i) ≠ 0 ∧ atol < |t.get i| := by
  obtain ⟨_, a', ha', f1, h1, vd, hvd, rfl⟩ := mk_ok h
  rw [ha] at ha'; cases ha'
  obtain ⟨t', ht', rfl⟩ := setNorm_some_ok h1
  have ht'' : asArray1 m s = .ok t' := ht'
  rw [ht] at ht''; cases ht''
  simp only [validOf, Except.ok.injEq] at hvd
  subst hvd
  show (!closeZero atol (normCell sqrt (setCell sqrt (a.get i) (t.get i)))) = true ↔ _
  rw [closeZero_eq]
  by_cases hnz : sqLen (a.get i) = 0
  · rw [setCell_zero sqrt _ _ hz ((sqLen_eq_zero_iff _).mp hnz)]
    unfold normCell
    rw [sqLen_zeros, hz.zero]
    simp [hnz, h0]
  · rw [normCell_setCell sqrt _ _ hs hnz htt]
    simp [hnz]

/-- **Later value updates do not re-apply an earlier norm**: after
`Field(…, norm=s)`, `update_field_values(v')` stores exactly the array `v'` evaluates to
(nothing is rescaled), and leaves the validity alone. -/
theorem update_forgets_norm (atol : Rat) (m : Mesh) (nvdim : Nat) (value value' : VSpec)
    (s : Option NSpec) (valid : ValidSpec) (unit : Option String) (g g' : Fld)
    (h : mk? sqrt atol m nvdim value s valid unit = .ok g)
    (hu : updateValues g value' = .ok g') :
    ∃ a', valuesOf m nvdim value' = .ok a' ∧ (∀ i, g'.data.get i = a'.get i) ∧
      g'.valid = g.valid ∧ g'.mesh = m := by
  obtain ⟨_, a, ha, f1, h1, vd, hvd, rfl⟩ := mk_ok h
  obtain ⟨a', ha', rfl⟩ := updateValues_ok hu
  obtain ⟨hm, hn, _⟩ := setNorm_frame sqrt _ f1 s h1
  refine ⟨a', ?_, fun _ => rfl, rfl, hm⟩
  have e1 : f1.mesh = m := hm
  have e2 : f1.nvdim = nvdim := hn
  simpa [e1, e2] using ha'

/-- … in particular the norm read after the update is the norm of the new values, not the
norm set earlier -/
theorem norm_after_update (atol : Rat) (m : Mesh) (nvdim : Nat) (value value' : VSpec)
    (s : Option NSpec) (valid : ValidSpec) (unit : Option String) (g g' : Fld) (a' : NDA (List Rat))
    (h : mk? sqrt atol m nvdim value s valid unit = .ok g)
    (hu : updateValues g value' = .ok g') (ha' : valuesOf m nvdim value' = .ok a') (i : List Nat) :
    (norm sqrt g').data.get i = [normCell sqrt (a'.get i)] := by
  obtain ⟨b, hb, hget, _, _⟩ := update_forgets_norm sqrt atol m nvdim value value' s valid unit g g' h hu
  rw [ha'] at hb; cases hb
  show [normCell sqrt (g'.data.get i)] = _
  rw [hget i]

end Field

/-! ### non-vacuity of the field-level hypotheses: a concrete constructor call succeeds -/

example : ∃ g, mk? sqrtQ atolDefault
    { region := { pmin := [0], pmax := [2], dims := ["x"], units := ["m"], tol := 0 },
      n := [2], bc := "", subs := [] } 2 (.vec [3, 4]) (some (.const 10)) .byNorm none = .ok g :=
  ⟨_, rfl⟩

/-! ## The executable model itself (`sqrt := sqrtQ`, what the driver runs)

On every cell whose length is rational — all scaled Pythagorean vectors of the
correspondence run — the hypotheses about `sqrt` are theorems, not assumptions. -/
section Driver

/-- the model the driver runs rescales every rational-length cell as the property says,
for every kind of norm specification -/
theorem driver_setNorm_rescaled (f g : Fld) (s : NSpec) (t : NDA Rat)
    (ht : asArray1 f.mesh s = .ok t) (h : setNorm sqrtQ f (some s) = .ok g) (i : List Nat)
    (hr : ∃ q : Rat, sqLen (f.data.get i) = q * q) :
    Rescaled (f.data.get i) (g.data.get i) (t.get i) :=
  setNorm_rescaled sqrtQ f g s t ht h i (sqrtQ_sqrtAt_of_isSquare hr) sqrtQ_zero

/-- … its norm getter returns exactly the rational length `|q|` -/
theorem driver_norm_exact (f : Fld) (i : List Nat) (q : Rat) (hr : sqLen (f.data.get i) = q * q) :
    (norm sqrtQ f).data.get i = [|q|] := by
  show [normCell sqrtQ (f.data.get i)] = _
  unfold normCell; rw [hr, sqrtQ_mul_self]

/-- … and its orientation is zero at or below the threshold, a unit vector above it -/
theorem driver_orientation_dichotomy (atol : Rat) (h0 : 0 ≤ atol) (f : Fld) (i : List Nat) (q : Rat)
    (hr : sqLen (f.data.get i) = q * q) :
    (|q| ≤ atol ∧ (orientation sqrtQ atol f).data.get i = zeros (f.data.get i)) ∨
    (atol < |q| ∧ sqLen ((orientation sqrtQ atol f).data.get i) = 1) := by
  have hn : normCell sqrtQ (f.data.get i) = |q| := by unfold normCell; rw [hr, sqrtQ_mul_self]
  have := orientCell_dichotomy sqrtQ atol (f.data.get i) h0 (sqrtQ_sqrtAt_of_isSquare ⟨q, hr⟩)
  rw [hn] at this
  exact this

end Driver

/-! ## Real fields: `Real.sqrt`, no side condition -/
section Real

/-- for real vectors the setter's promise holds unconditionally -/
theorem real_setCell_rescaled (v : List ℝ) (t : ℝ) : Rescaled v (setCell Real.sqrt v t) t :=
  setCell_rescaled Real.sqrt v t (real_sqrtAt_sqLen v) real_sqrtAt_zero

/-- real vectors: the norm read back after the setter is `|t|` on non-zero cells -/
theorem real_normCell_setCell (v : List ℝ) (t : ℝ) (hnz : sqLen v ≠ 0) :
    normCell Real.sqrt (setCell Real.sqrt v t) = |t| :=
  normCell_setCell Real.sqrt v t (real_sqrtAt_sqLen v) hnz (real_sqrtAt_mul_self t)

/-- real vectors: the orientation is zero up to the threshold and a unit vector above it -/
theorem real_orientCell_dichotomy (atol : ℝ) (h0 : 0 ≤ atol) (v : List ℝ) :
    (normCell Real.sqrt v ≤ atol ∧ orientCell Real.sqrt atol v = zeros v) ∨
    (atol < normCell Real.sqrt v ∧ sqLen (orientCell Real.sqrt atol v) = 1) :=
  orientCell_dichotomy Real.sqrt atol v h0 (real_sqrtAt_sqLen v)

/-- real vectors: orientation × norm reproduces the vector above the threshold and at zero -/
theorem real_orientCell_times_norm (atol : ℝ) (h0 : 0 ≤ atol) (v : List ℝ)
    (h : atol < normCell Real.sqrt v ∨ ∀ x ∈ v, x = 0) :
    (orientCell Real.sqrt atol v).map (fun x => x * normCell Real.sqrt v) = v :=
  orientCell_times_norm Real.sqrt atol v h0 real_sqrtAt_zero h

end Real

end DFV.C15
